---- MODULE MC_Signals_TTrace_1790992895 ----
EXTENDS Sequences, MC_Signals, TLCExt, Toolbox, Naturals, TLC

_expression ==
    LET MC_Signals_TEExpression == INSTANCE MC_Signals_TEExpression
    IN MC_Signals_TEExpression!expression
----

_trace ==
    LET MC_Signals_TETrace == INSTANCE MC_Signals_TETrace
    IN MC_Signals_TETrace!trace
----

_inv ==
    ~(
        TLCGet("level") = Len(_TETrace)
        /\
        fired = (<<0, 1, 0>>)
        /\
        op = (<<[e |-> 0, t |-> "none", todo |-> {}], [e |-> 0, t |-> "none", todo |-> {}]>>)
        /\
        st = (<<"on", "off", "off">>)
        /\
        cfg = (<<[used |-> TRUE, L |-> 1, sigs |-> {1, 2}, os |-> FALSE], [used |-> TRUE, L |-> 2, sigs |-> {1}, os |-> TRUE], [used |-> TRUE, L |-> 2, sigs |-> {1}, os |-> FALSE]>>)
        /\
        kind = (<<"info", "plain">>)
        /\
        g = ([raises |-> 0, sig |-> 1, want |-> {1, 2}, got |-> <<0, 1, 0>>, sent |-> 1, bad |-> FALSE])
        /\
        h = ([s |-> 0, todo |-> {}, pc |-> "idle", last |-> 0])
        /\
        k = ([hp |-> <<TRUE, FALSE>>, pipe |-> <<<<>>, <<>>>>, subs |-> <<<<{1}, {1}>>, <<{}, {}>>>>, ctx |-> <<[pipes |-> {1}, old |-> [h |-> "info", f |-> "f0", m |-> "m0"]], [pipes |-> {1}, old |-> [h |-> "plain", f |-> "f0", m |-> "m0"]]>>, disp |-> <<[h |-> "tbox", f |-> "siginfo", m |-> "empty"], [h |-> "tbox", f |-> "siginfo", m |-> "empty"]>>])
    )
----

_init ==
    /\ g = _TETrace[1].g
    /\ h = _TETrace[1].h
    /\ op = _TETrace[1].op
    /\ k = _TETrace[1].k
    /\ kind = _TETrace[1].kind
    /\ fired = _TETrace[1].fired
    /\ st = _TETrace[1].st
    /\ cfg = _TETrace[1].cfg
----

_next ==
    /\ \E i,j \in DOMAIN _TETrace:
        /\ \/ /\ j = i + 1
              /\ i = TLCGet("level")
        /\ g  = _TETrace[i].g
        /\ g' = _TETrace[j].g
        /\ h  = _TETrace[i].h
        /\ h' = _TETrace[j].h
        /\ op  = _TETrace[i].op
        /\ op' = _TETrace[j].op
        /\ k  = _TETrace[i].k
        /\ k' = _TETrace[j].k
        /\ kind  = _TETrace[i].kind
        /\ kind' = _TETrace[j].kind
        /\ fired  = _TETrace[i].fired
        /\ fired' = _TETrace[j].fired
        /\ st  = _TETrace[i].st
        /\ st' = _TETrace[j].st
        /\ cfg  = _TETrace[i].cfg
        /\ cfg' = _TETrace[j].cfg

\* Uncomment the ASSUME below to write the states of the error trace
\* to the given file in Json format. Note that you can pass any tuple
\* to `JsonSerialize`. For example, a sub-sequence of _TETrace.
    \* ASSUME
    \*     LET J == INSTANCE Json
    \*         IN J!JsonSerialize("MC_Signals_TTrace_1790992895.json", _TETrace)

=============================================================================

 Note that you can extract this module `MC_Signals_TEExpression`
  to a dedicated file to reuse `expression` (the module in the 
  dedicated `MC_Signals_TEExpression.tla` file takes precedence 
  over the module `MC_Signals_TEExpression` below).

---- MODULE MC_Signals_TEExpression ----
EXTENDS Sequences, MC_Signals, TLCExt, Toolbox, Naturals, TLC

expression == 
    [
        \* To hide variables of the `MC_Signals` spec from the error trace,
        \* remove the variables below.  The trace will be written in the order
        \* of the fields of this record.
        g |-> g
        ,h |-> h
        ,op |-> op
        ,k |-> k
        ,kind |-> kind
        ,fired |-> fired
        ,st |-> st
        ,cfg |-> cfg
        
        \* Put additional constant-, state-, and action-level expressions here:
        \* ,_stateNumber |-> _TEPosition
        \* ,_gUnchanged |-> g = g'
        
        \* Format the `g` variable as Json value.
        \* ,_gJson |->
        \*     LET J == INSTANCE Json
        \*     IN J!ToJson(g)
        
        \* Lastly, you may build expressions over arbitrary sets of states by
        \* leveraging the _TETrace operator.  For example, this is how to
        \* count the number of times a spec variable changed up to the current
        \* state in the trace.
        \* ,_gModCount |->
        \*     LET F[s \in DOMAIN _TETrace] ==
        \*         IF s = 1 THEN 0
        \*         ELSE IF _TETrace[s].g # _TETrace[s-1].g
        \*             THEN 1 + F[s-1] ELSE F[s-1]
        \*     IN F[_TEPosition - 1]
    ]

=============================================================================



Parsing and semantic processing can take forever if the trace below is long.
 In this case, it is advised to uncomment the module below to deserialize the
 trace from a generated binary file.

\*
\*---- MODULE MC_Signals_TETrace ----
\*EXTENDS IOUtils, MC_Signals, TLC
\*
\*trace == IODeserialize("MC_Signals_TTrace_1790992895.bin", TRUE)
\*
\*=============================================================================
\*

---- MODULE MC_Signals_TETrace ----
EXTENDS MC_Signals, TLC

trace == 
    <<
    ([fired |-> <<0, 0, 0>>,op |-> <<[e |-> 0, t |-> "none", todo |-> {}], [e |-> 0, t |-> "none", todo |-> {}]>>,st |-> <<"off", "off", "off">>,cfg |-> <<[used |-> TRUE, L |-> 1, sigs |-> {1, 2}, os |-> FALSE], [used |-> TRUE, L |-> 2, sigs |-> {1}, os |-> TRUE], [used |-> TRUE, L |-> 2, sigs |-> {1}, os |-> FALSE]>>,kind |-> <<"info", "plain">>,g |-> [raises |-> 0, sig |-> 0, want |-> {}, got |-> <<0, 0, 0>>, sent |-> 0, bad |-> FALSE],h |-> [s |-> 0, todo |-> {}, pc |-> "idle", last |-> 0],k |-> [hp |-> <<FALSE, FALSE>>, pipe |-> <<<<>>, <<>>>>, subs |-> <<<<{}, {}>>, <<{}, {}>>>>, ctx |-> <<[pipes |-> {}, old |-> [h |-> "zero", f |-> "zero", m |-> "zero"]], [pipes |-> {}, old |-> [h |-> "zero", f |-> "zero", m |-> "zero"]]>>, disp |-> <<[h |-> "info", f |-> "f0", m |-> "m0"], [h |-> "plain", f |-> "f0", m |-> "m0"]>>]]),
    ([fired |-> <<0, 0, 0>>,op |-> <<[e |-> 1, t |-> "enable", todo |-> {1, 2}], [e |-> 0, t |-> "none", todo |-> {}]>>,st |-> <<"off", "off", "off">>,cfg |-> <<[used |-> TRUE, L |-> 1, sigs |-> {1, 2}, os |-> FALSE], [used |-> TRUE, L |-> 2, sigs |-> {1}, os |-> TRUE], [used |-> TRUE, L |-> 2, sigs |-> {1}, os |-> FALSE]>>,kind |-> <<"info", "plain">>,g |-> [raises |-> 0, sig |-> 0, want |-> {}, got |-> <<0, 0, 0>>, sent |-> 0, bad |-> FALSE],h |-> [s |-> 0, todo |-> {}, pc |-> "idle", last |-> 0],k |-> [hp |-> <<FALSE, FALSE>>, pipe |-> <<<<>>, <<>>>>, subs |-> <<<<{}, {}>>, <<{}, {}>>>>, ctx |-> <<[pipes |-> {}, old |-> [h |-> "zero", f |-> "zero", m |-> "zero"]], [pipes |-> {}, old |-> [h |-> "zero", f |-> "zero", m |-> "zero"]]>>, disp |-> <<[h |-> "info", f |-> "f0", m |-> "m0"], [h |-> "plain", f |-> "f0", m |-> "m0"]>>]]),
    ([fired |-> <<0, 0, 0>>,op |-> <<[e |-> 1, t |-> "enable", todo |-> {1, 2}], [e |-> 2, t |-> "enable", todo |-> {1}]>>,st |-> <<"off", "off", "off">>,cfg |-> <<[used |-> TRUE, L |-> 1, sigs |-> {1, 2}, os |-> FALSE], [used |-> TRUE, L |-> 2, sigs |-> {1}, os |-> TRUE], [used |-> TRUE, L |-> 2, sigs |-> {1}, os |-> FALSE]>>,kind |-> <<"info", "plain">>,g |-> [raises |-> 0, sig |-> 0, want |-> {}, got |-> <<0, 0, 0>>, sent |-> 0, bad |-> FALSE],h |-> [s |-> 0, todo |-> {}, pc |-> "idle", last |-> 0],k |-> [hp |-> <<FALSE, FALSE>>, pipe |-> <<<<>>, <<>>>>, subs |-> <<<<{}, {}>>, <<{}, {}>>>>, ctx |-> <<[pipes |-> {}, old |-> [h |-> "zero", f |-> "zero", m |-> "zero"]], [pipes |-> {}, old |-> [h |-> "zero", f |-> "zero", m |-> "zero"]]>>, disp |-> <<[h |-> "info", f |-> "f0", m |-> "m0"], [h |-> "plain", f |-> "f0", m |-> "m0"]>>]]),
    ([fired |-> <<0, 0, 0>>,op |-> <<[e |-> 1, t |-> "enable", todo |-> {2}], [e |-> 2, t |-> "enable", todo |-> {1}]>>,st |-> <<"off", "off", "off">>,cfg |-> <<[used |-> TRUE, L |-> 1, sigs |-> {1, 2}, os |-> FALSE], [used |-> TRUE, L |-> 2, sigs |-> {1}, os |-> TRUE], [used |-> TRUE, L |-> 2, sigs |-> {1}, os |-> FALSE]>>,kind |-> <<"info", "plain">>,g |-> [raises |-> 0, sig |-> 0, want |-> {}, got |-> <<0, 0, 0>>, sent |-> 0, bad |-> FALSE],h |-> [s |-> 0, todo |-> {}, pc |-> "idle", last |-> 0],k |-> [hp |-> <<TRUE, FALSE>>, pipe |-> <<<<>>, <<>>>>, subs |-> <<<<{1}, {}>>, <<{}, {}>>>>, ctx |-> <<[pipes |-> {1}, old |-> [h |-> "info", f |-> "f0", m |-> "m0"]], [pipes |-> {}, old |-> [h |-> "zero", f |-> "zero", m |-> "zero"]]>>, disp |-> <<[h |-> "tbox", f |-> "siginfo", m |-> "empty"], [h |-> "plain", f |-> "f0", m |-> "m0"]>>]]),
    ([fired |-> <<0, 0, 0>>,op |-> <<[e |-> 1, t |-> "enable", todo |-> {}], [e |-> 2, t |-> "enable", todo |-> {1}]>>,st |-> <<"off", "off", "off">>,cfg |-> <<[used |-> TRUE, L |-> 1, sigs |-> {1, 2}, os |-> FALSE], [used |-> TRUE, L |-> 2, sigs |-> {1}, os |-> TRUE], [used |-> TRUE, L |-> 2, sigs |-> {1}, os |-> FALSE]>>,kind |-> <<"info", "plain">>,g |-> [raises |-> 0, sig |-> 0, want |-> {}, got |-> <<0, 0, 0>>, sent |-> 0, bad |-> FALSE],h |-> [s |-> 0, todo |-> {}, pc |-> "idle", last |-> 0],k |-> [hp |-> <<TRUE, FALSE>>, pipe |-> <<<<>>, <<>>>>, subs |-> <<<<{1}, {1}>>, <<{}, {}>>>>, ctx |-> <<[pipes |-> {1}, old |-> [h |-> "info", f |-> "f0", m |-> "m0"]], [pipes |-> {1}, old |-> [h |-> "plain", f |-> "f0", m |-> "m0"]]>>, disp |-> <<[h |-> "tbox", f |-> "siginfo", m |-> "empty"], [h |-> "tbox", f |-> "siginfo", m |-> "empty"]>>]]),
    ([fired |-> <<0, 0, 0>>,op |-> <<[e |-> 0, t |-> "none", todo |-> {}], [e |-> 2, t |-> "enable", todo |-> {1}]>>,st |-> <<"on", "off", "off">>,cfg |-> <<[used |-> TRUE, L |-> 1, sigs |-> {1, 2}, os |-> FALSE], [used |-> TRUE, L |-> 2, sigs |-> {1}, os |-> TRUE], [used |-> TRUE, L |-> 2, sigs |-> {1}, os |-> FALSE]>>,kind |-> <<"info", "plain">>,g |-> [raises |-> 0, sig |-> 0, want |-> {}, got |-> <<0, 0, 0>>, sent |-> 0, bad |-> FALSE],h |-> [s |-> 0, todo |-> {}, pc |-> "idle", last |-> 0],k |-> [hp |-> <<TRUE, FALSE>>, pipe |-> <<<<>>, <<>>>>, subs |-> <<<<{1}, {1}>>, <<{}, {}>>>>, ctx |-> <<[pipes |-> {1}, old |-> [h |-> "info", f |-> "f0", m |-> "m0"]], [pipes |-> {1}, old |-> [h |-> "plain", f |-> "f0", m |-> "m0"]]>>, disp |-> <<[h |-> "tbox", f |-> "siginfo", m |-> "empty"], [h |-> "tbox", f |-> "siginfo", m |-> "empty"]>>]]),
    ([fired |-> <<0, 0, 0>>,op |-> <<[e |-> 0, t |-> "none", todo |-> {}], [e |-> 2, t |-> "enable", todo |-> {}]>>,st |-> <<"on", "off", "off">>,cfg |-> <<[used |-> TRUE, L |-> 1, sigs |-> {1, 2}, os |-> FALSE], [used |-> TRUE, L |-> 2, sigs |-> {1}, os |-> TRUE], [used |-> TRUE, L |-> 2, sigs |-> {1}, os |-> FALSE]>>,kind |-> <<"info", "plain">>,g |-> [raises |-> 0, sig |-> 0, want |-> {}, got |-> <<0, 0, 0>>, sent |-> 0, bad |-> FALSE],h |-> [s |-> 0, todo |-> {}, pc |-> "idle", last |-> 0],k |-> [hp |-> <<TRUE, TRUE>>, pipe |-> <<<<>>, <<>>>>, subs |-> <<<<{1}, {1}>>, <<{2}, {}>>>>, ctx |-> <<[pipes |-> {1, 2}, old |-> [h |-> "info", f |-> "f0", m |-> "m0"]], [pipes |-> {1}, old |-> [h |-> "plain", f |-> "f0", m |-> "m0"]]>>, disp |-> <<[h |-> "tbox", f |-> "siginfo", m |-> "empty"], [h |-> "tbox", f |-> "siginfo", m |-> "empty"]>>]]),
    ([fired |-> <<0, 0, 0>>,op |-> <<[e |-> 0, t |-> "none", todo |-> {}], [e |-> 0, t |-> "none", todo |-> {}]>>,st |-> <<"on", "on", "off">>,cfg |-> <<[used |-> TRUE, L |-> 1, sigs |-> {1, 2}, os |-> FALSE], [used |-> TRUE, L |-> 2, sigs |-> {1}, os |-> TRUE], [used |-> TRUE, L |-> 2, sigs |-> {1}, os |-> FALSE]>>,kind |-> <<"info", "plain">>,g |-> [raises |-> 0, sig |-> 0, want |-> {}, got |-> <<0, 0, 0>>, sent |-> 0, bad |-> FALSE],h |-> [s |-> 0, todo |-> {}, pc |-> "idle", last |-> 0],k |-> [hp |-> <<TRUE, TRUE>>, pipe |-> <<<<>>, <<>>>>, subs |-> <<<<{1}, {1}>>, <<{2}, {}>>>>, ctx |-> <<[pipes |-> {1, 2}, old |-> [h |-> "info", f |-> "f0", m |-> "m0"]], [pipes |-> {1}, old |-> [h |-> "plain", f |-> "f0", m |-> "m0"]]>>, disp |-> <<[h |-> "tbox", f |-> "siginfo", m |-> "empty"], [h |-> "tbox", f |-> "siginfo", m |-> "empty"]>>]]),
    ([fired |-> <<0, 0, 0>>,op |-> <<[e |-> 0, t |-> "none", todo |-> {}], [e |-> 0, t |-> "none", todo |-> {}]>>,st |-> <<"on", "on", "off">>,cfg |-> <<[used |-> TRUE, L |-> 1, sigs |-> {1, 2}, os |-> FALSE], [used |-> TRUE, L |-> 2, sigs |-> {1}, os |-> TRUE], [used |-> TRUE, L |-> 2, sigs |-> {1}, os |-> FALSE]>>,kind |-> <<"info", "plain">>,g |-> [raises |-> 0, sig |-> 1, want |-> {1, 2}, got |-> <<0, 0, 0>>, sent |-> 0, bad |-> FALSE],h |-> [s |-> 1, todo |-> {}, pc |-> "old", last |-> 0],k |-> [hp |-> <<TRUE, TRUE>>, pipe |-> <<<<>>, <<>>>>, subs |-> <<<<{1}, {1}>>, <<{2}, {}>>>>, ctx |-> <<[pipes |-> {1, 2}, old |-> [h |-> "info", f |-> "f0", m |-> "m0"]], [pipes |-> {1}, old |-> [h |-> "plain", f |-> "f0", m |-> "m0"]]>>, disp |-> <<[h |-> "tbox", f |-> "siginfo", m |-> "empty"], [h |-> "tbox", f |-> "siginfo", m |-> "empty"]>>]]),
    ([fired |-> <<0, 0, 0>>,op |-> <<[e |-> 0, t |-> "none", todo |-> {}], [e |-> 0, t |-> "none", todo |-> {}]>>,st |-> <<"on", "on", "off">>,cfg |-> <<[used |-> TRUE, L |-> 1, sigs |-> {1, 2}, os |-> FALSE], [used |-> TRUE, L |-> 2, sigs |-> {1}, os |-> TRUE], [used |-> TRUE, L |-> 2, sigs |-> {1}, os |-> FALSE]>>,kind |-> <<"info", "plain">>,g |-> [raises |-> 0, sig |-> 1, want |-> {1, 2}, got |-> <<0, 0, 0>>, sent |-> 1, bad |-> FALSE],h |-> [s |-> 1, todo |-> {1, 2}, pc |-> "write", last |-> 0],k |-> [hp |-> <<TRUE, TRUE>>, pipe |-> <<<<>>, <<>>>>, subs |-> <<<<{1}, {1}>>, <<{2}, {}>>>>, ctx |-> <<[pipes |-> {1, 2}, old |-> [h |-> "info", f |-> "f0", m |-> "m0"]], [pipes |-> {1}, old |-> [h |-> "plain", f |-> "f0", m |-> "m0"]]>>, disp |-> <<[h |-> "tbox", f |-> "siginfo", m |-> "empty"], [h |-> "tbox", f |-> "siginfo", m |-> "empty"]>>]]),
    ([fired |-> <<0, 0, 0>>,op |-> <<[e |-> 0, t |-> "none", todo |-> {}], [e |-> 0, t |-> "none", todo |-> {}]>>,st |-> <<"on", "on", "off">>,cfg |-> <<[used |-> TRUE, L |-> 1, sigs |-> {1, 2}, os |-> FALSE], [used |-> TRUE, L |-> 2, sigs |-> {1}, os |-> TRUE], [used |-> TRUE, L |-> 2, sigs |-> {1}, os |-> FALSE]>>,kind |-> <<"info", "plain">>,g |-> [raises |-> 0, sig |-> 1, want |-> {1, 2}, got |-> <<0, 0, 0>>, sent |-> 1, bad |-> FALSE],h |-> [s |-> 1, todo |-> {1}, pc |-> "write", last |-> 2],k |-> [hp |-> <<TRUE, TRUE>>, pipe |-> <<<<>>, <<1>>>>, subs |-> <<<<{1}, {1}>>, <<{2}, {}>>>>, ctx |-> <<[pipes |-> {1, 2}, old |-> [h |-> "info", f |-> "f0", m |-> "m0"]], [pipes |-> {1}, old |-> [h |-> "plain", f |-> "f0", m |-> "m0"]]>>, disp |-> <<[h |-> "tbox", f |-> "siginfo", m |-> "empty"], [h |-> "tbox", f |-> "siginfo", m |-> "empty"]>>]]),
    ([fired |-> <<0, 1, 0>>,op |-> <<[e |-> 0, t |-> "none", todo |-> {}], [e |-> 0, t |-> "none", todo |-> {}]>>,st |-> <<"on", "off", "off">>,cfg |-> <<[used |-> TRUE, L |-> 1, sigs |-> {1, 2}, os |-> FALSE], [used |-> TRUE, L |-> 2, sigs |-> {1}, os |-> TRUE], [used |-> TRUE, L |-> 2, sigs |-> {1}, os |-> FALSE]>>,kind |-> <<"info", "plain">>,g |-> [raises |-> 0, sig |-> 1, want |-> {1, 2}, got |-> <<0, 1, 0>>, sent |-> 1, bad |-> FALSE],h |-> [s |-> 1, todo |-> {1}, pc |-> "write", last |-> 2],k |-> [hp |-> <<TRUE, FALSE>>, pipe |-> <<<<>>, <<>>>>, subs |-> <<<<{1}, {1}>>, <<{}, {}>>>>, ctx |-> <<[pipes |-> {1}, old |-> [h |-> "info", f |-> "f0", m |-> "m0"]], [pipes |-> {1}, old |-> [h |-> "plain", f |-> "f0", m |-> "m0"]]>>, disp |-> <<[h |-> "tbox", f |-> "siginfo", m |-> "empty"], [h |-> "tbox", f |-> "siginfo", m |-> "empty"]>>]]),
    ([fired |-> <<0, 1, 0>>,op |-> <<[e |-> 0, t |-> "none", todo |-> {}], [e |-> 0, t |-> "none", todo |-> {}]>>,st |-> <<"on", "off", "off">>,cfg |-> <<[used |-> TRUE, L |-> 1, sigs |-> {1, 2}, os |-> FALSE], [used |-> TRUE, L |-> 2, sigs |-> {1}, os |-> TRUE], [used |-> TRUE, L |-> 2, sigs |-> {1}, os |-> FALSE]>>,kind |-> <<"info", "plain">>,g |-> [raises |-> 0, sig |-> 1, want |-> {1, 2}, got |-> <<0, 1, 0>>, sent |-> 1, bad |-> FALSE],h |-> [s |-> 0, todo |-> {}, pc |-> "idle", last |-> 0],k |-> [hp |-> <<TRUE, FALSE>>, pipe |-> <<<<>>, <<>>>>, subs |-> <<<<{1}, {1}>>, <<{}, {}>>>>, ctx |-> <<[pipes |-> {1}, old |-> [h |-> "info", f |-> "f0", m |-> "m0"]], [pipes |-> {1}, old |-> [h |-> "plain", f |-> "f0", m |-> "m0"]]>>, disp |-> <<[h |-> "tbox", f |-> "siginfo", m |-> "empty"], [h |-> "tbox", f |-> "siginfo", m |-> "empty"]>>]])
    >>
----


=============================================================================

---- CONFIG MC_Signals_TTrace_1790992895 ----
CONSTANTS
    Loops = { 1 , 2 }
    Sigs = { 1 , 2 }
    Events = { 1 , 2 , 3 }
    Configs <- CfgOne
    Kinds = { "info" , "plain" }
    MaxRaises = 0
    Redundant = FALSE
    Bug = "liveiter"

INVARIANT
    _inv

CHECK_DEADLOCK
    \* CHECK_DEADLOCK off because of PROPERTY or INVARIANT above.
    FALSE

INIT
    _init

NEXT
    _next

CONSTANT
    _TETrace <- _trace

ALIAS
    _expression
=============================================================================
\* Generated on Sat Oct 03 02:01:38 UTC 2026