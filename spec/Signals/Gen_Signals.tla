---------------------------- MODULE Gen_Signals ----------------------------
(* Behaviour generator for C04: every sequence of whole driver steps (enable / disable / destroy       *)
(* of an event - re-creation after a destroy is left to the random histories -, delivery of a signal followed by all pipe reads) of the bounded model up to    *)
(* Depth is printed as a JSON script {cfg, ops}.  The C++ driver executes each script on real loops,   *)
(* threads and signals; the recorded trace is validated against Trace_Signals.                         *)
EXTENDS MC_Signals, Json
CONSTANT Depth
VARIABLE hist
gvars == <<vars, hist>>
H(o, a) == hist' = Append(hist, [o |-> o, a |-> a])

RECURSIVE DrainF(_, _)
DrainF(kk, stt) ==
  LET busy == {L \in Loops : kk.hp[L] /\ kk.pipe[L] # <<>>} IN
  IF busy = {} THEN [k |-> kk, st |-> stt]
  ELSE LET r == ReadF(kk, stt, Min(busy)) IN DrainF(r.k, r.st)

GRaise(S) ==
  /\ Quiescent /\ NoOps /\ RaiseOK /\ k.disp[S].h # "dfl"
  /\ LET r == DrainF(RaiseK(k, S), st) IN k' = r.k /\ st' = r.st
  /\ g' = [g EXCEPT !.raises = Bump]
  /\ UNCHANGED <<cfg, kind, op, h, fired>>

CfgGen ==
  { [e \in Events |-> CASE e = 1 -> E(TRUE, 1, {1, 2}, FALSE)       \* multi-signal, persistent, loop 1
                        [] e = 2 -> E(TRUE, 2, {1}, TRUE)             \* one-shot on the other loop
                        [] OTHER -> E(TRUE, 1, {1}, FALSE)],          \* second subscriber of signal 1 in loop 1
    [e \in Events |-> CASE e = 1 -> E(TRUE, 1, {1, 2}, TRUE)        \* multi-signal one-shot
                        [] e = 2 -> E(TRUE, 2, {2}, FALSE)
                        [] OTHER -> E(TRUE, 2, {1, 2}, FALSE)] }

GInit == Init /\ hist = <<>>
GNext ==
  \/ \E e \in Events : \/ SEnable(e) /\ H("enable", e)
                       \/ SDisable(e) /\ H("disable", e)
                       \/ SDestroy(e) /\ H("destroy", e)
  \/ \E S \in Sigs : GRaise(S) /\ H("raise", S)
GSpec == GInit /\ [][GNext]_gvars
Emit == IF Len(hist) >= Depth
        THEN PrintT("BEH " \o ToJson([ev |-> [e \in Events |-> [L |-> cfg[e].L, sigs |-> cfg[e].sigs, os |-> cfg[e].os]], ops |-> hist])) /\ FALSE
        ELSE TRUE
=============================================================================
