---------------------------- MODULE Gen_Signals ----------------------------
(* Behaviour generator for C04: every sequence of whole driver steps of the bounded sequential model up to Depth is      *)
(* printed as a JSON script {ev, ops}:                                                                                   *)
(*   enable / disable / destroy of an event (re-creation after a destroy is left to the random histories),               *)
(*   raise S: delivery of a signal followed by all pipe reads of the loops that are not held,                            *)
(*   batch L <<disable e1, enable e2>>: two subscription calls in ONE task of the loop (GenBatch),                       *)
(*   hold L / release L: the loop thread is kept busy while signals are raised, then reads the batch (GenHold).          *)
(* Callbacks run the programs of the event configuration (callbacks that enable/disable/destroy events).                 *)
(* StartOn: the behaviours start with every event enabled (the enable steps are put in front of every script).           *)
(* The C++ driver executes each script on real loops, threads and signals; the recorded trace is validated against       *)
(* Trace_Signals.                                                                                                        *)
EXTENDS MC_Signals, Json
CONSTANTS Depth, GenBatch, GenHold, StartOn
VARIABLE hist
gvars == <<vars, hist>>
HH(o, a, ops) == hist' = Append(hist, [o |-> o, a |-> a, ops |-> ops])
H(o, a) == HH(o, a, <<>>)

\* all loops that are not held read their pipes until they are empty (subscribers served in ascending order).
\* bad: a callback closed the loop's pipe while further numbers were pending - what happens to those is not specified
\* (the model drops them, the code still dispatches the part of the batch it has already read): such behaviours are pruned.
RECURSIVE DrainF(_, _, _, _)
DrainF(kk, stt, hl, bad) ==
  LET busy == {L \in Loops \ hl : kk.hp[L] /\ kk.pipe[L] # <<>>} IN
  IF busy = {} THEN [k |-> kk, st |-> stt, bad |-> bad]
  ELSE LET L == Min(busy)
           rest == Tail(kk.pipe[L])
           r == ReadF(kk, stt, L)
       IN DrainF(r.k, r.st, hl, bad \/ (rest # <<>> /\ r.k.pipe[L] # rest))

GRaise(S) ==
  /\ Quiescent /\ NoOps /\ RaiseOK /\ ~NoRaise(k.disp[S].h)
  /\ LET r == DrainF(RaiseK(k, S), st, held, FALSE) IN ~r.bad /\ k' = r.k /\ st' = r.st
  /\ g' = [g EXCEPT !.raises = Bump]
  /\ UNCHANGED <<held, cfg, kind, op, h, fired>>
GRelease(L) ==
  /\ L \in held /\ NoOps /\ Quiescent
  /\ held' = held \ {L}
  /\ LET r == DrainF(k, st, held', FALSE) IN ~r.bad /\ k' = r.k /\ st' = r.st
  /\ UNCHANGED <<cfg, kind, op, h, g, fired>>

CfgGen ==
  { [e \in Events |-> CASE e = 1 -> E(TRUE, 1, {1, 2}, FALSE)       \* multi-signal, persistent, loop 1
                        [] e = 2 -> E(TRUE, 2, {1}, TRUE)             \* one-shot on the other loop
                        [] OTHER -> E(TRUE, 1, {1}, FALSE)],          \* second subscriber of signal 1 in loop 1
    [e \in Events |-> CASE e = 1 -> E(TRUE, 1, {1, 2}, TRUE)        \* multi-signal one-shot
                        [] e = 2 -> E(TRUE, 2, {2}, FALSE)
                        [] OTHER -> E(TRUE, 2, {1, 2}, FALSE)] }
CfgSwap  == {CbSwap, CbMix}
CfgGroup == {CbGroup}

OnLoop(L) == {e \in Events : cfg[e].used /\ cfg[e].L = L}
AllOn(L) == [i \in 1..Cardinality(OnLoop(L)) |-> Do("enable", SeqOf(OnLoop(L))[i])]
RECURSIVE EnableLoops(_, _)
EnableLoops(r, Ls) == IF Ls = {} THEN r ELSE EnableLoops(RunOps(r, Min(Ls), AllOn(Min(Ls))), Ls \ {Min(Ls)})
Prefix == IF StartOn THEN [i \in 1..Cardinality({e \in Events : cfg[e].used}) |->
                            [o |-> "enable", a |-> SeqOf({e \in Events : cfg[e].used})[i], ops |-> <<>>]]
          ELSE <<>>

GInit ==
  /\ Init
  /\ hist = <<>>
GStart ==               \* StartOn: the first step enables everything (not counted in Depth)
  /\ StartOn /\ hist = <<>>
  /\ LET r == EnableLoops(R0(k, st), Loops) IN k' = r.k /\ st' = r.st
  /\ hist' = Prefix
  /\ UNCHANGED <<held, cfg, kind, op, h, g, fired>>
Started == ~StartOn \/ hist # <<>>
GNext ==
  \/ GStart
  \/ Started /\ \E e \in Events : \/ SEnable(e) /\ H("enable", e)
                                  \/ SDisable(e) /\ H("disable", e)
                                  \/ SDestroy(e) /\ H("destroy", e)
  \/ Started /\ \E S \in Sigs : GRaise(S) /\ H("raise", S)
  \/ Started /\ GenBatch /\ \E e1, e2 \in Events :
        /\ e1 # e2 /\ Used(e1) /\ Used(e2) /\ cfg[e1].L = cfg[e2].L /\ st[e1] = "on" /\ st[e2] = "off"
        /\ LET ops == <<Do("disable", e1), Do("enable", e2)>> IN SBatch(cfg[e1].L, ops) /\ HH("batch", cfg[e1].L, ops)
  \/ Started /\ GenHold /\ \E L \in Loops : \/ Cardinality(held) < 1 /\ SHold(L) /\ H("hold", L)
                                            \/ GRelease(L) /\ H("release", L)
GSpec == GInit /\ [][GNext]_gvars
Emit == IF Len(hist) >= Depth + Len(Prefix)
        THEN PrintT("BEH " \o ToJson([ev |-> [e \in Events |-> [L |-> cfg[e].L, sigs |-> cfg[e].sigs, os |-> cfg[e].os, prog |-> cfg[e].prog]],
                                      ops |-> hist])) /\ FALSE
        ELSE TRUE
=============================================================================
