------------------------------ MODULE Signals ------------------------------
(***************************************************************************)
(* C04 - cpp-tbox signal events (modules/event/common_loop_signal.cpp,     *)
(* signal_event_impl.cpp).                                                 *)
(*                                                                         *)
(* Implementation-shaped model:                                            *)
(*   k.ctx[S]   process-wide  _signal_ctxs_[S] = {write_fds, old_handler}  *)
(*              (pipes = {} <=> the entry does not exist)                  *)
(*   k.disp[S]  the kernel's disposition of S (handler, flags, mask)       *)
(*   k.subs[L][S]  per loop  all_signals_subscribers_[S]                   *)
(*   k.hp[L], k.pipe[L]  the loop's signal pipe (exists?, unread numbers)  *)
(*   st[e]      "none" (slot unused) | "absent" | "off" | "on"             *)
(*   op[L]      the subscription call the loop thread L is executing:      *)
(*              enable()/disable()/~SignalEvent() walk the event's signal  *)
(*              set in ascending order, one critical section               *)
(*              (subscribeSignal / unsubscribeSignal under _signal_lock_)  *)
(*              per signal; calls of different loops interleave            *)
(*   held       loops whose thread is kept busy in a task (numbers queue   *)
(*              up in their pipes: batches); only the sequential actions   *)
(*              hold/release change it                                      *)
(*   h          the activation of the async signal handler: call the old   *)
(*              handler, then write the number to every pipe in ctx[S]     *)
(* One action per critical section / handler step / pipe read.  The        *)
(* properties are separate invariants over ghost variables (g, fired).     *)
(*                                                                         *)
(* Environment assumption = quantifier of the statement: signals are       *)
(* raised one at a time and only while no subscription call is in          *)
(* progress; subscription calls start only when the previous delivery has  *)
(* been consumed (handler returned, all pipes read).                       *)
(***************************************************************************)
EXTENDS Naturals, Sequences, FiniteSets, TLC

CONSTANTS
  Loops,      \* loop ids (naturals >= 1), one thread each
  Sigs,       \* signal ids (naturals; std::set<int> iterates ascending)
  Events,     \* event slots (naturals)
  Configs,    \* set of configurations  [Events -> EvRec]  to explore
  Kinds,      \* what is installed before the first subscription: subset of {"info","plain","ign","dfl"}
  MaxRaises,  \* bound on the number of deliveries
  Redundant,  \* TRUE: also enable() an enabled event / disable() a disabled one (no-ops)
  Bug         \* "none", or a seeded design defect (such configurations are expected to violate an invariant)

VARIABLES held, cfg, kind, st, k, op, h, g, fired
vars == <<held, cfg, kind, st, k, op, h, g, fired>>

\* prog: what the event's callback does each time it fires - a sequence of [o |-> "enable"|"disable"|"destroy", a |-> event]
\* executed on the loop thread from inside the callback (only events of the same loop are touched)
ProgOp == [o : {"enable", "disable", "destroy"}, a : Events]
EvRec == [used : BOOLEAN, L : Loops, sigs : SUBSET Sigs, os : BOOLEAN, prog : Seq(ProgOp)]
\* kinds of the pre-existing disposition: info = SA_SIGINFO handler, plain = handler, ign, dfl; inforh / plainrh = the same
\* handlers installed with SA_RESETHAND (+ SA_NODEFER, SA_ONSTACK / SA_RESTART and other masks): delivered directly by the
\* kernel they would fall back to SIG_DFL after one delivery, so - like dfl - they are never raised while nobody is subscribed
IsFunc(x) == x \in {"info", "plain", "inforh", "plainrh"}
NoRaise(x) == x \in {"dfl", "inforh", "plainrh"}

OrigOf(kd, S) == [h |-> kd[S], f |-> "f0", m |-> "m0"]            \* sentinel: distinctive flags and mask
Orig(S)  == OrigOf(kind, S)
TboxDisp == [h |-> "tbox", f |-> "siginfo", m |-> "empty"]
ZeroDisp == [h |-> "zero", f |-> "zero", m |-> "zero"]
NoCtx    == [pipes |-> {}, old |-> ZeroDisp]
NoLate   == [s |-> 0, old |-> ZeroDisp]
NoOp     == [t |-> "none", e |-> 0, todo |-> {}, late |-> NoLate]
Idle     == [pc |-> "idle", s |-> 0, todo |-> {}, last |-> 0]
Min(X)   == CHOOSE x \in X : \A y \in X : x <= y

Used(e)   == cfg[e].used
OnFor(S)  == {e \in Events : Used(e) /\ st[e] = "on" /\ S \in cfg[e].sigs}

-----------------------------------------------------------------------------
(* State transformers on the bookkeeping record (one critical section each) *)

\* CommonLoop::subscribeSignal(S, e) on loop L
Sub(kk, L, S, e) ==
  LET k1 == IF kk.hp[L] THEN kk ELSE [kk EXCEPT !.hp[L] = TRUE, !.pipe[L] = <<>>]     \* CreateFdPair on first use
      firstInLoop == k1.subs[L][S] = {}
      c == k1.ctx[S]
      install == IF Bug = "perloop" THEN TRUE ELSE c.pipes = {}                          \* first pipe: sigaction(S, new, &old)
      k2 == IF ~firstInLoop THEN k1
            ELSE [k1 EXCEPT !.ctx[S] = [pipes |-> c.pipes \cup {L}, old |-> IF install THEN k1.disp[S] ELSE c.old],
                            !.disp[S] = IF install THEN TboxDisp ELSE @]
  IN [k2 EXCEPT !.subs[L][S] = @ \cup {e}]

\* CommonLoop::unsubscribeSignal(S, e) on loop L
Unsub(kk, L, S, e) ==
  LET s1 == kk.subs[L][S] \ {e} IN
  IF s1 # {} THEN [kk EXCEPT !.subs[L][S] = s1]
  ELSE
    LET c == kk.ctx[S]
        p1 == IF Bug = "keepfd" /\ c.pipes # {L} THEN c.pipes ELSE c.pipes \ {L}
        last == p1 = {}
        restored == CASE Bug = "norestore"   -> kk.disp[S]
                      [] Bug = "handleronly" -> [kk.disp[S] EXCEPT !.h = c.old.h]
                      [] OTHER               -> c.old                                   \* sigaction(S, &old, nullptr)
        k1 == [kk EXCEPT !.subs[L][S] = {},
                         !.ctx[S] = IF last THEN NoCtx ELSE [c EXCEPT !.pipes = p1],
                         !.disp[S] = IF last THEN restored ELSE @]
        idle == \A S2 \in Sigs : k1.subs[L][S2] = {}
    IN IF idle THEN [k1 EXCEPT !.hp[L] = FALSE, !.pipe[L] = <<>>] ELSE k1               \* pipe closed, unread numbers are gone

RECURSIVE SubAll(_, _, _, _)
SubAll(kk, L, e, todo) == IF todo = {} THEN kk ELSE LET S == Min(todo) IN SubAll(Sub(kk, L, S, e), L, e, todo \ {S})
RECURSIVE UnsubAll(_, _, _, _)
UnsubAll(kk, L, e, todo) == IF todo = {} THEN kk ELSE LET S == Min(todo) IN UnsubAll(Unsub(kk, L, S, e), L, e, todo \ {S})

\* One subscription call made on loop L's thread from inside a callback or as part of a batch task.  r = [k, st, exc, en]:
\* exc = events unsubscribed by such calls, en = events switched off -> on.  Calls on events that do not exist (or
\* belong to another loop) are skipped.
Op1(r, L, o) ==
  LET a == o.a IN
  IF a \notin Events \/ ~cfg[a].used \/ cfg[a].L # L \/ r.st[a] \notin {"on", "off"} THEN r
  ELSE CASE o.o = "enable"  -> [r EXCEPT !.k = SubAll(r.k, L, a, cfg[a].sigs), !.st[a] = "on",
                                          !.en = IF r.st[a] = "off" THEN @ \cup {a} ELSE @]
         [] o.o = "disable" -> [r EXCEPT !.k = IF r.st[a] = "on" THEN UnsubAll(r.k, L, a, cfg[a].sigs) ELSE @, !.st[a] = "off",
                                          !.exc = IF r.st[a] = "on" THEN @ \cup {a} ELSE @]
         [] o.o = "destroy" -> [r EXCEPT !.k = IF r.st[a] = "on" THEN UnsubAll(r.k, L, a, cfg[a].sigs) ELSE @, !.st[a] = "absent",
                                          !.exc = IF r.st[a] = "on" THEN @ \cup {a} ELSE @]
         [] OTHER -> r
RECURSIVE RunOps(_, _, _)
RunOps(r, L, ops) == IF ops = <<>> THEN r ELSE RunOps(Op1(r, L, Head(ops)), L, Tail(ops))
R0(kk, stt) == [k |-> kk, st |-> stt, exc |-> {}, en |-> {}]

\* CommonLoop::onSignal() for one number: the subscribers of the COPIED set are called, here in the given order;
\* SignalEventImpl::onSignal(): a one-shot disables itself (all its signals) before its callback; the callback then
\* runs the event's program
RECURSIVE CallSeq(_, _, _)
CallSeq(r, L, order) ==
  IF order = <<>> THEN r
  ELSE LET e == Head(order)
           r1 == IF cfg[e].os /\ r.st[e] = "on" /\ Bug # "oneshotstays"
                 THEN [r EXCEPT !.k = UnsubAll(r.k, L, e, cfg[e].sigs), !.st[e] = "off"] ELSE r
       IN CallSeq(RunOps(r1, L, cfg[e].prog), L, Tail(order))

RECURSIVE SeqOf(_)
SeqOf(X) == IF X = {} THEN <<>> ELSE <<Min(X)>> \o SeqOf(X \ {Min(X)})
\* the order in which std::set<SignalSubscribuer*> serves the subscribers is the order of their addresses: any order.
\* It only matters when a callback changes subscriptions.
Orders(X) == IF \A e \in X : cfg[e].prog = <<>> THEN {SeqOf(X)}
             ELSE {p \in [1..Cardinality(X) -> X] : \A i, j \in 1..Cardinality(X) : i # j => p[i] # p[j]}

ReadCalled(kk, L) ==
  LET S == Head(kk.pipe[L])
      all == kk.subs[L][S]
  IN IF Bug = "firstonly" /\ all # {} THEN {Min(all)} ELSE all

\* one number, subscribers served in ascending order (generator)
ReadF(kk, stt, L) == CallSeq(R0([kk EXCEPT !.pipe[L] = Tail(@)], stt), L, SeqOf(ReadCalled(kk, L)))

\* the whole handler at once (used by the sequential actions)
RECURSIVE WriteAll(_, _, _)
WriteAll(kk, S, todo) ==
  IF todo = {} THEN kk
  ELSE LET L == Min(todo) IN WriteAll(IF kk.hp[L] THEN [kk EXCEPT !.pipe[L] = Append(@, S)] ELSE kk, S, todo \ {L})

\* the handler's copy of the descriptor set; seeded defect "cap1": a fixed-size copy buffer that silently drops the rest
Snapshot(P) == IF Bug = "cap1" /\ P # {} THEN {Min(P)} ELSE P
RaiseK(kk, S) == IF kk.disp[S].h = "tbox" THEN WriteAll(kk, S, Snapshot(kk.ctx[S].pipes)) ELSE kk
OldCalls(S) == IF Bug = "skipold" THEN 0
               ELSE IF Bug = "skipplain" /\ k.ctx[S].old.h = "plain" THEN 0
               ELSE IF IsFunc(k.ctx[S].old.h) THEN 1 ELSE 0

-----------------------------------------------------------------------------
Quiescent == h.pc = "idle" /\ \A L \in Loops \ held : k.pipe[L] = <<>>
RaiseOK   == MaxRaises = 0 \/ g.raises < MaxRaises           \* MaxRaises = 0: unbounded (the state space is finite anyway)
Bump      == IF MaxRaises = 0 THEN 0 ELSE g.raises + 1
\* the ghost record of the last delivery is dropped when the next subscription call starts
ClearG    == [g EXCEPT !.sig = 0, !.want = {}, !.got = [e \in Events |-> 0], !.sent = 0, !.exc = {}]
NoOps     == \A L \in Loops : op[L].t = "none"

K0(kd) == [subs |-> [L \in Loops |-> [S \in Sigs |-> {}]], hp |-> [L \in Loops |-> FALSE], pipe |-> [L \in Loops |-> <<>>],
           ctx |-> [S \in Sigs |-> NoCtx], disp |-> [S \in Sigs |-> OrigOf(kd, S)]]
Op0 == [L \in Loops |-> NoOp]
G0  == [sig |-> 0, want |-> {}, got |-> [e \in Events |-> 0], sent |-> 0, raises |-> 0, bad |-> FALSE, exc |-> {}]
Init ==
  /\ held = {}
  /\ cfg \in Configs
  /\ kind \in [Sigs -> Kinds]
  /\ st = [e \in Events |-> IF cfg[e].used THEN "off" ELSE "none"]
  /\ k = K0(kind)
  /\ op = Op0
  /\ h = Idle
  /\ g = G0
  /\ fired = [e \in Events |-> 0]

(* ---- subscription calls, executed on the event's loop thread ---- *)
Create(e) ==            \* newSignalEvent + initialize + setCallback
  /\ Used(e) /\ st[e] = "absent" /\ op[cfg[e].L].t = "none" /\ cfg[e].L \notin held /\ Quiescent
  /\ st' = [st EXCEPT ![e] = "off"] /\ fired' = [fired EXCEPT ![e] = 0] /\ g' = ClearG
  /\ UNCHANGED <<held, cfg, kind, k, op, h>>

OpBegin(e, t) ==
  /\ Used(e) /\ op[cfg[e].L].t = "none" /\ cfg[e].L \notin held /\ Quiescent
  /\ CASE t = "enable"  -> st[e] = "off" \/ (Redundant /\ st[e] = "on")
       [] t = "disable" -> st[e] = "on" \/ (Redundant /\ st[e] = "off")
       [] t = "destroy" -> st[e] \in {"off", "on"}
  /\ op' = [op EXCEPT ![cfg[e].L] = [t |-> t, e |-> e, late |-> NoLate,
                                      todo |-> IF t = "enable" \/ st[e] = "on" THEN cfg[e].sigs ELSE {}]]   \* disable(): only if is_enabled_
  /\ g' = ClearG
  /\ UNCHANGED <<held, cfg, kind, st, k, h, fired>>
EnableBegin(e)  == OpBegin(e, "enable")
DisableBegin(e) == OpBegin(e, "disable")
DestroyBegin(e) == OpBegin(e, "destroy")

\* Seeded defect "laterestore": the last unsubscriber erases the table entry inside the critical section but puts the old
\* disposition back only after leaving it (LateRestore): a first subscriber of another loop can slip in between.
OpStep(L) ==            \* one subscribeSignal / unsubscribeSignal
  /\ op[L].t # "none" /\ op[L].todo # {} /\ op[L].late.s = 0
  /\ LET S == Min(op[L].todo)
         k1 == IF op[L].t = "enable" THEN Sub(k, L, S, op[L].e) ELSE Unsub(k, L, S, op[L].e)
         restores == op[L].t # "enable" /\ k.ctx[S].pipes = {L} /\ k1.ctx[S].pipes = {}
     IN IF Bug = "laterestore" /\ restores
        THEN /\ k' = [k1 EXCEPT !.disp[S] = k.disp[S]]
             /\ op' = [op EXCEPT ![L].todo = @ \ {S}, ![L].late = [s |-> S, old |-> k.ctx[S].old]]
        ELSE /\ k' = k1
             /\ op' = [op EXCEPT ![L].todo = @ \ {S}]
  /\ UNCHANGED <<held, cfg, kind, st, h, g, fired>>
LateRestore(L) ==
  /\ op[L].late.s # 0
  /\ k' = [k EXCEPT !.disp[op[L].late.s] = op[L].late.old]
  /\ op' = [op EXCEPT ![L].late = NoLate]
  /\ UNCHANGED <<held, cfg, kind, st, h, g, fired>>

OpEnd(L) ==
  /\ op[L].t # "none" /\ op[L].todo = {} /\ op[L].late.s = 0
  /\ LET e == op[L].e IN
       /\ st' = [st EXCEPT ![e] = CASE op[L].t = "enable" -> "on" [] op[L].t = "disable" -> "off" [] OTHER -> "absent"]
       /\ fired' = IF op[L].t = "enable" /\ st[e] = "off" THEN [fired EXCEPT ![e] = 0] ELSE fired
  /\ op' = [op EXCEPT ![L] = NoOp]
  /\ UNCHANGED <<held, cfg, kind, k, h, g>>

(* ---- a delivery of S ---- *)
RaiseBegin(S) ==
  /\ Quiescent /\ NoOps /\ RaiseOK
  /\ ~NoRaise(k.disp[S].h)                        \* the default action would end the process / the kernel would reset it: not raised
  /\ IF k.disp[S].h = "tbox"
     THEN /\ h' = [pc |-> "old", s |-> S, todo |-> {}, last |-> 0]
          /\ g' = [sig |-> S, want |-> OnFor(S), got |-> [e \in Events |-> 0], sent |-> 0, raises |-> Bump, bad |-> g.bad, exc |-> {}]
     ELSE /\ h' = Idle                              \* the kernel runs the pre-existing disposition itself
          /\ g' = [sig |-> S, want |-> OnFor(S), got |-> [e \in Events |-> 0],
                   sent |-> IF IsFunc(k.disp[S].h) THEN 1 ELSE 0, raises |-> Bump, bad |-> g.bad, exc |-> {}]
  /\ UNCHANGED <<held, cfg, kind, st, k, op, fired>>

HandlerOld ==           \* SignalHandlerFunc: "run the old handler first"
  /\ h.pc = "old"
  /\ g' = [g EXCEPT !.sent = @ + OldCalls(h.s)]
  /\ h' = [h EXCEPT !.pc = "write", !.todo = Snapshot(k.ctx[h.s].pipes)]
  /\ UNCHANGED <<held, cfg, kind, st, k, op, fired>>

\* Intended (and, since fix 809fdc6, actual) behaviour: the descriptors were copied before the first write (h.todo is
\* that snapshot).  As found (Bug = "liveiter") the handler iterated the live std::set while a loop woken by the
\* previous write - a one-shot event unsubscribing - erased the node under the iterator: the walk then continues from a
\* freed node, i.e. anywhere in the current set (a pipe written twice) or at the end (pipes skipped).
IterLost == Bug = "liveiter" /\ h.last # 0 /\ h.last \notin k.ctx[h.s].pipes
HandlerWrite(L) ==      \* write(fd, &signo) for one subscribed loop
  /\ h.pc = "write" /\ L \in (IF IterLost THEN h.todo \cup k.ctx[h.s].pipes ELSE h.todo)
  /\ k' = IF k.hp[L] THEN [k EXCEPT !.pipe[L] = Append(@, h.s)] ELSE k
  /\ g' = [g EXCEPT !.bad = @ \/ ~k.hp[L]]          \* a write to a closed (or recycled) descriptor
  /\ h' = [h EXCEPT !.todo = @ \ {L}, !.last = L]
  /\ UNCHANGED <<held, cfg, kind, st, op, fired>>

HandlerReturn ==
  /\ h.pc = "write" /\ (h.todo = {} \/ IterLost)
  /\ h' = Idle
  /\ UNCHANGED <<held, cfg, kind, st, k, op, g, fired>>

LoopRead(L) ==          \* the loop thread reads one number from its pipe and dispatches it
  /\ op[L].t = "none" /\ L \notin held /\ k.hp[L] /\ k.pipe[L] # <<>>
  /\ LET S == Head(k.pipe[L])
         called == ReadCalled(k, L)
     IN \E order \in Orders(called) :
          LET r == CallSeq(R0([k EXCEPT !.pipe[L] = Tail(@)], st), L, order) IN
          /\ k' = r.k /\ st' = r.st
          /\ g' = [g EXCEPT !.got = [e \in Events |-> IF e \in called THEN @[e] + 1 ELSE @[e]],
                            !.exc = @ \cup r.exc,                                               \* unsubscribed by a callback of this delivery
                            !.bad = @ \/ S # g.sig \/ \E e \in called : cfg[e].L # L]      \* wrong signal number / wrong thread
          /\ fired' = [e \in Events |-> IF e \in r.en THEN 0
                                        ELSE IF e \in called /\ cfg[e].os THEN fired[e] + 1 ELSE fired[e]]   \* counted for one-shots only
  /\ UNCHANGED <<held, cfg, kind, op, h>>

Next ==
  \/ \E e \in Events : Create(e) \/ EnableBegin(e) \/ DisableBegin(e) \/ DestroyBegin(e)
  \/ \E L \in Loops : OpStep(L) \/ OpEnd(L) \/ HandlerWrite(L) \/ LoopRead(L) \/ LateRestore(L)
  \/ \E S \in Sigs : RaiseBegin(S)
  \/ HandlerOld
  \/ HandlerReturn
Spec == Init /\ [][Next]_vars

-----------------------------------------------------------------------------
(* Sequential (whole-call) actions: what one awaited driver step does.      *)
(* Used by the behaviour generator and by trace validation.                 *)
SEnable(e) ==
  /\ Used(e) /\ NoOps /\ Quiescent /\ cfg[e].L \notin held /\ (st[e] = "off" \/ (Redundant /\ st[e] = "on"))
  /\ k' = SubAll(k, cfg[e].L, e, cfg[e].sigs)
  /\ st' = [st EXCEPT ![e] = "on"]
  /\ fired' = IF st[e] = "off" THEN [fired EXCEPT ![e] = 0] ELSE fired
  /\ g' = ClearG
  /\ UNCHANGED <<held, cfg, kind, op, h>>
SDisable(e) ==
  /\ Used(e) /\ NoOps /\ Quiescent /\ cfg[e].L \notin held /\ (st[e] = "on" \/ (Redundant /\ st[e] = "off"))
  /\ k' = IF st[e] = "on" THEN UnsubAll(k, cfg[e].L, e, cfg[e].sigs) ELSE k
  /\ st' = [st EXCEPT ![e] = "off"] /\ g' = ClearG
  /\ UNCHANGED <<held, cfg, kind, op, h, fired>>
SDestroy(e) ==
  /\ Used(e) /\ NoOps /\ Quiescent /\ cfg[e].L \notin held /\ st[e] \in {"on", "off"}
  /\ k' = IF st[e] = "on" THEN UnsubAll(k, cfg[e].L, e, cfg[e].sigs) ELSE k
  /\ st' = [st EXCEPT ![e] = "absent"] /\ g' = ClearG
  /\ UNCHANGED <<held, cfg, kind, op, h, fired>>
SCreate(e) == Create(e)
SRaise(S) ==            \* the delivery up to the return of the handler
  /\ Quiescent /\ NoOps /\ RaiseOK /\ ~NoRaise(k.disp[S].h)
  /\ IF k.disp[S].h = "tbox"
     THEN /\ k' = WriteAll(k, S, Snapshot(k.ctx[S].pipes))
          /\ g' = [sig |-> S, want |-> OnFor(S), got |-> [e \in Events |-> 0], sent |-> OldCalls(S), raises |-> Bump,
                   bad |-> g.bad \/ (\E L \in k.ctx[S].pipes : ~k.hp[L]), exc |-> {}]
     ELSE /\ k' = k
          /\ g' = [sig |-> S, want |-> OnFor(S), got |-> [e \in Events |-> 0],
                   sent |-> IF IsFunc(k.disp[S].h) THEN 1 ELSE 0, raises |-> Bump, bad |-> g.bad, exc |-> {}]
  /\ UNCHANGED <<held, cfg, kind, st, op, h, fired>>
SRead(L) == LoopRead(L)
\* several subscription calls in ONE task of loop L: no loop pass (no deferred deletion) happens in between
SBatch(L, ops) ==
  /\ L \in Loops \ held /\ NoOps /\ Quiescent
  /\ LET r == RunOps(R0(k, st), L, ops) IN
       /\ k' = r.k /\ st' = r.st
       /\ fired' = [e \in Events |-> IF e \in r.en THEN 0 ELSE fired[e]]
  /\ g' = ClearG
  /\ UNCHANGED <<held, cfg, kind, op, h>>
\* two loops make one subscription call each AT THE SAME TIME (their threads are released together from a barrier).  The
\* critical sections are serialised by _signal_lock_; the resulting state does not depend on the order.
SRace(La, opa, Lb, opb) ==
  /\ La \in Loops \ held /\ Lb \in Loops \ held /\ La # Lb /\ NoOps /\ Quiescent
  /\ LET r1 == RunOps(R0(k, st), La, <<opa>>)
         r2 == RunOps(R0(r1.k, r1.st), Lb, <<opb>>)
     IN /\ k' = r2.k /\ st' = r2.st
        /\ fired' = [e \in Events |-> IF e \in r1.en \cup r2.en THEN 0 ELSE fired[e]]
  /\ g' = ClearG
  /\ UNCHANGED <<held, cfg, kind, op, h>>
\* the thread of loop L is kept busy inside a task: deliveries raised meanwhile queue up in its pipe and are read as a batch
SHold(L) ==
  /\ L \in Loops \ held /\ NoOps /\ Quiescent
  /\ held' = held \cup {L} /\ g' = ClearG
  /\ UNCHANGED <<cfg, kind, st, k, op, h, fired>>
SRelease(L) ==
  /\ L \in held /\ NoOps /\ Quiescent
  /\ held' = held \ {L} /\ g' = ClearG
  /\ UNCHANGED <<cfg, kind, st, k, op, h, fired>>

SNext ==
  \/ \E e \in Events : SCreate(e) \/ SEnable(e) \/ SDisable(e) \/ SDestroy(e)
  \/ \E S \in Sigs : SRaise(S)
  \/ \E L \in Loops : SRead(L) \/ SHold(L) \/ SRelease(L)
SSpec == Init /\ [][SNext]_vars

-----------------------------------------------------------------------------
(* Properties *)
TypeOK ==
  /\ cfg \in Configs
  /\ st \in [Events -> {"none", "absent", "off", "on"}]
  /\ \A L \in Loops : op[L].t \in {"none", "enable", "disable", "destroy"} /\ op[L].todo \subseteq Sigs /\ op[L].late.s \in Sigs \cup {0}
  /\ h.pc \in {"idle", "old", "write"}
  /\ \A L \in Loops : \A i \in DOMAIN k.pipe[L] : k.pipe[L][i] \in Sigs

\* each delivery: exactly one callback on every event that was enabled and subscribed, on its loop's thread,
\* with the right number, and on nobody else
EveryEnabledGetsOne ==
  /\ \A e \in Events : g.got[e] <= (IF e \in g.want THEN 1 ELSE 0)
  /\ ~g.bad
  /\ (Quiescent /\ g.sig # 0) => \A e \in g.want \ g.exc : g.got[e] = 1      \* an event that a callback of this very delivery
                                                                                \* unsubscribed may or may not have been served

\* a handler installed before the first subscription is still invoked, once per delivery
OldHandlerChained ==
  /\ g.sent <= 1
  /\ (g.sig # 0 /\ h.pc # "old") => g.sent = (IF IsFunc(kind[g.sig]) THEN 1 ELSE 0)

\* a one-shot event fires at most once per enabling
OneShotAtMostOnce == \A e \in Events : (Used(e) /\ cfg[e].os) => fired[e] <= 1

\* the disposition is the saved one, field by field, exactly when nobody is subscribed
DispositionRestored ==
  \A S \in Sigs : (\E L \in Loops : op[L].late.s = S) \/        \* (only with the seeded defect "laterestore": restore still to come)
    /\ (\A L \in Loops : k.subs[L][S] = {}) <=> (k.disp[S] = Orig(S))
    /\ (k.disp[S] # Orig(S)) => (k.disp[S] = TboxDisp)
\* ... in the words of the statement (between calls)
DispositionStatement ==
  NoOps => \A S \in Sigs : (OnFor(S) = {}) <=> (k.disp[S] = Orig(S))
SubsMatch ==
  \A L \in Loops : op[L].t = "none" =>
    \A S \in Sigs : k.subs[L][S] = {e \in OnFor(S) : cfg[e].L = L}

\* process-wide table and per-loop tables agree
CtxConsistent ==
  /\ \A S \in Sigs :
       /\ k.ctx[S].pipes = {L \in Loops : k.subs[L][S] # {}}
       /\ (k.ctx[S].pipes # {}) => (k.ctx[S].old = Orig(S) /\ k.disp[S] = TboxDisp)
       /\ (k.ctx[S].pipes = {}) => (k.ctx[S] = NoCtx)
  /\ \A L \in Loops :
       /\ k.hp[L] <=> (\E S \in Sigs : k.subs[L][S] # {})
       /\ ~k.hp[L] => k.pipe[L] = <<>>
=============================================================================
