CONSTANTS
  Loops = {1, 2, 3, 4, 5, 6, 7, 8}
  Sigs = {1, 2, 3}
  Events = {1, 2, 3, 4, 5, 6, 7, 8, 9, 10}
  Configs = {}
  Kinds = {"info", "plain", "ign", "dfl", "inforh", "plainrh"}
  MaxRaises = 0
  Redundant = TRUE
  Bug = "none"
SPECIFICATION TSpec
CONSTRAINT Progress
POSTCONDITION Accepted
INVARIANTS DispositionRestored DispositionStatement SubsMatch CtxConsistent
CHECK_DEADLOCK FALSE
