---------------------------- MODULE Gen_Cmdline ----------------------------
(* E05 behaviour generator (spec -> code): every case of the bounded domains is printed as a call     *)
(* descriptor; the C++ driver performs each call on the real functions and the recorded trace is        *)
(* validated against Trace_Cmdline.                                                                    *)
EXTENDS LawsE05, Json
CONSTANTS GenLen, GenAlpha5

VARIABLE hist
gvars == <<lvars, hist>>
GInit == LInit /\ hist = <<>>
Emit1(d) == hist' = <<d>> /\ UNCHANGED lvars
U == [use |-> TRUE, ret |-> TRUE]   K == [use |-> FALSE, ret |-> TRUE]   S == [use |-> FALSE, ret |-> FALSE]   X == [use |-> TRUE, ret |-> FALSE]
DecPatterns == { <<>>, <<U, U, U, U, U, U>>, <<S>>, <<K, S>>, <<U, X>>, <<K, U, K, U>> }
GSplit == \E s \in SeqsUpTo(Alpha, GenLen) \cup [1..5 -> GenAlpha5] : Emit1([e |-> "Split", in |-> s])
GStrip == \E s \in SeqsUpTo({A, SQ, DQ}, 4) : Emit1([e |-> "Strip", in |-> s])
GParse == \E a \in SeqsUpTo(Tokens, 3), st \in 0..1, d \in DecPatterns :
            \/ Emit1([e |-> "Parse", args |-> a, start |-> st, dec |-> d, form |-> "vec"])
            \/ Len(d) = 6 /\ Len(a) >= 1 /\ Emit1([e |-> "Parse", args |-> a, start |-> st, dec |-> d, form |-> "argv"])
GCmd == \E k \in {<<A>>, <<A, B>>}, v \in SeqsUpTo({A, SP, SQ}, 3), f \in 1..4 :
          LET line == CASE f = 1 -> <<B, SP, DASH, DASH>> \o k \o <<EQS, DQ>> \o v \o <<DQ>>
                        [] f = 2 -> <<B, SP, DASH, DASH>> \o k \o <<SP, DQ>> \o v \o <<DQ>>
                        [] f = 3 -> <<B, SP, DASH>> \o k \o <<TAB, DQ>> \o v \o <<DQ, SP>>
                        [] OTHER -> <<B, SP, DASH, DASH>> \o k \o <<EQS>> \o v
          IN Emit1([e |-> "Cmd", in |-> line, dec |-> <<U, U, U>>])
GNext == hist = <<>> /\ (GSplit \/ GStrip \/ GParse \/ GCmd)
GSpec == GInit /\ [][GNext]_gvars
Emit == IF Len(hist) >= 1 THEN PrintT("BEH " \o ToJson(hist)) /\ FALSE ELSE TRUE
=============================================================================
