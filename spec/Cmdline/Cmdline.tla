------------------------------ MODULE Cmdline ------------------------------
(* E05 - reference operators for tbox::util::SplitCmdline, string::StripQuot and                    *)
(* tbox::util::ArgumentParser (modules/util/{split_cmdline,string,argument_parser}.{h,cpp}).         *)
(* Strings are sequences of character codes.  Nothing is tabulated from the code; the operators      *)
(* restate what the header comments and the repository's tests document:                             *)
(*                                                                                                   *)
(*  SplitCmdline  - blanks (space, tab) separate arguments;                                          *)
(*                - an argument that STARTS with ' or " extends to the next quote of the same kind,   *)
(*                  the two quotes are removed, everything between them (blanks, quotes of the other  *)
(*                  kind) is kept; the character after the closing quote starts a new argument;        *)
(*                - an argument that starts with any other character extends to the next blank that   *)
(*                  is not inside a quoted section; the quoted sections are kept verbatim WITH their   *)
(*                  quotes (test LongOptionWithEqual*: --key="hello world" stays one argument);        *)
(*                - an unfinished quoted section is an error (false).                                  *)
(*  StripQuot     - removes one pair of equal quotes around a string of length >= 2.                  *)
(*  ArgumentParser- arguments from index start on; "--key=value" delivers (0, key, StripQuot(value)); *)
(*                  "--key" delivers (0, key, next argument if any); "-xyz" delivers x, y without a    *)
(*                  value and z with the next argument; other arguments are passed over; a value the   *)
(*                  handler fetched with get() is not parsed as an argument itself; the handler        *)
(*                  returning false stops the parse with result false.                                 *)
EXTENDS Integers, Sequences, FiniteSets

SP == 32      TAB == 9      SQ == 39      DQ == 34      DASH == 45      EQS == 61
Blank == {SP, TAB}
Quote == {SQ, DQ}

\* first index >= i whose character is in S; 0 = not found
RECURSIVE FindIn(_, _, _)
FindIn(s, S, i) == IF i > Len(s) THEN 0 ELSE IF s[i] \in S THEN i ELSE FindIn(s, S, i + 1)

\* ---- SplitCmdline ---------------------------------------------------------------------------------
\* one past the end of the bare word that starts at i;  -1 = it contains an unfinished quoted section
RECURSIVE WordEnd(_, _)
WordEnd(s, i) ==
  IF i > Len(s) \/ s[i] \in Blank THEN i
  ELSE IF s[i] \in Quote THEN LET j == FindIn(s, {s[i]}, i + 1) IN IF j = 0 THEN -1 ELSE WordEnd(s, j + 1)
  ELSE WordEnd(s, i + 1)

\* spans [from, to, q]: argument = s[from..to]; q = it was delimited by a pair of quotes at from-1 and to+1
RECURSIVE SplitFrom(_, _, _)
SplitFrom(s, i, acc) ==
  IF i > Len(s) THEN [ok |-> TRUE, spans |-> acc]
  ELSE IF s[i] \in Blank THEN SplitFrom(s, i + 1, acc)
  ELSE IF s[i] \in Quote
       THEN LET j == FindIn(s, {s[i]}, i + 1) IN
            IF j = 0 THEN [ok |-> FALSE, spans |-> acc]
            ELSE SplitFrom(s, j + 1, Append(acc, [from |-> i + 1, to |-> j - 1, q |-> TRUE]))
       ELSE LET e == WordEnd(s, i) IN
            IF e < 0 THEN [ok |-> FALSE, spans |-> acc]
            ELSE SplitFrom(s, e, Append(acc, [from |-> i, to |-> e - 1, q |-> FALSE]))

SplitSpans(s) == SplitFrom(s, 1, <<>>)
SpanArgs(s, sp) == [k \in 1..Len(sp) |-> SubSeq(s, sp[k].from, sp[k].to)] \o <<>>
Split(s) == LET r == SplitSpans(s) IN [ok |-> r.ok, args |-> SpanArgs(s, r.spans)]

\* independent characterisation of failure: the two-kind quote automaton does not end outside a quoted section
RECURSIVE QuoteState(_, _, _)
QuoteState(s, i, q) ==           \* q = 0 outside, otherwise the code of the open quote
  IF i > Len(s) THEN q
  ELSE IF q = 0 THEN QuoteState(s, i + 1, IF s[i] \in Quote THEN s[i] ELSE 0)
  ELSE QuoteState(s, i + 1, IF s[i] = q THEN 0 ELSE q)
Balanced(s) == QuoteState(s, 1, 0) = 0

\* re-quoting an argument so that it survives another split: wrap it in a quote kind it does not contain;
\* an argument that contains both kinds can only have been a bare word and is written verbatim
Has(s, c) == \E i \in 1..Len(s) : s[i] = c
Requote(a) == IF ~Has(a, SQ) THEN <<SQ>> \o a \o <<SQ>>
              ELSE IF ~Has(a, DQ) THEN <<DQ>> \o a \o <<DQ>>
              ELSE a
RECURSIVE JoinFrom(_, _)
JoinFrom(args, k) == IF k > Len(args) THEN <<>>
                     ELSE (IF k > 1 THEN <<SP>> ELSE <<>>) \o Requote(args[k]) \o JoinFrom(args, k + 1)
Join(args) == JoinFrom(args, 1)

\* ---- StripQuot ------------------------------------------------------------------------------------
StripQuot(s) == IF Len(s) >= 2 /\ s[1] = s[Len(s)] /\ s[1] \in Quote THEN SubSeq(s, 2, Len(s) - 1) ELSE s
\* a single quote character: the code as found returned "" (substr(1, npos)); either is accepted
StripQ(s, lo) == IF lo /\ Len(s) = 1 /\ s[1] \in Quote THEN <<>> ELSE StripQuot(s)

\* ---- ArgumentParser -------------------------------------------------------------------------------
\* what one argument offers to the handler, in order.  kind: "own" = carries its own value (--k=v),
\* "next" = sees the following argument (if there is one), "none" = no value
Offers(tok) ==
  IF Len(tok) >= 1 /\ tok[1] = DASH
  THEN IF Len(tok) >= 2 /\ tok[2] = DASH
       THEN LET opt == SubSeq(tok, 3, Len(tok))
                p == FindIn(opt, {EQS}, 1)
            IN IF p # 0 THEN << [s |-> 0, l |-> SubSeq(opt, 1, p - 1), kind |-> "own", v |-> SubSeq(opt, p + 1, Len(opt))] >>
               ELSE << [s |-> 0, l |-> opt, kind |-> "next", v |-> <<>>] >>
       ELSE [j \in 1..(Len(tok) - 1) |-> [s |-> tok[j + 1], l |-> <<>>, kind |-> IF j = Len(tok) - 1 THEN "next" ELSE "none", v |-> <<>>]] \o <<>>
  ELSE <<>>

Decision(dec, k) == IF k <= Len(dec) THEN dec[k] ELSE [use |-> FALSE, ret |-> TRUE]
\* the call the handler sees for offer o of argument i
CallOf(args, i, o, lo) ==
  CASE o.kind = "own"  -> [s |-> o.s, l |-> o.l, valid |-> TRUE, val |-> StripQ(o.v, lo)]
    [] o.kind = "next" -> [s |-> o.s, l |-> o.l, valid |-> i < Len(args), val |-> IF i < Len(args) THEN args[i + 1] ELSE <<>>]
    [] OTHER           -> [s |-> o.s, l |-> o.l, valid |-> FALSE, val |-> <<>>]

\* i: current argument (1-based), j: current offer of it, k: number of the next handler call, used: the handler
\* fetched the following argument;  dec[k] = [use, ret]: what the handler does in its k-th call
RECURSIVE RunP(_, _, _, _, _, _, _, _)
RunP(args, i, j, k, used, dec, calls, lo) ==
  IF i > Len(args) THEN [ret |-> TRUE, calls |-> calls]
  ELSE LET offs == Offers(args[i]) IN
       IF j > Len(offs) THEN RunP(args, i + (IF used THEN 2 ELSE 1), 1, k, FALSE, dec, calls, lo)
       ELSE LET o == offs[j]
                c == CallOf(args, i, o, lo)
                d == Decision(dec, k)
            IN IF ~d.ret THEN [ret |-> FALSE, calls |-> Append(calls, c)]
               ELSE RunP(args, i, j + 1, k + 1, used \/ (o.kind = "next" /\ c.valid /\ d.use), dec, Append(calls, c), lo)

\* start is the 0-based index of the first argument that is parsed (1 skips the program name)
ParseL(args, start, dec, lo) == RunP(args, start + 1, 1, 1, FALSE, dec, <<>>, lo)
Parse(args, start, dec) == ParseL(args, start, dec, FALSE)
=============================================================================
