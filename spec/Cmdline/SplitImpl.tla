----------------------------- MODULE SplitImpl -----------------------------
(* E05 - implementation-shaped model of tbox::util::SplitCmdline (split_cmdline.cpp): the chain of   *)
(* find_first_of / find_first_not_of / at / substr calls with 0-based positions and npos, one action  *)
(* per loop iteration.  Ghost variables record every index handed to at() and substr().  The result   *)
(* is compared with the reference operator Split of module Cmdline.                                   *)
(* Variant = "code" is the code as written; the other variants are seeded mistakes that must violate  *)
(* ResultConforms (they show that the invariant is not vacuous).                                      *)
EXTENDS Cmdline
CONSTANTS Alpha, MaxLen, Variant

NPOS == 1000000                                   \* larger than every position (std::string::npos)
VARIABLES cmd, pc, start_pos, end_pos, qs, out, ok, ats, subs, steps
ivars == <<cmd, pc, start_pos, end_pos, qs, out, ok, ats, subs, steps>>

SeqsUpTo(S, n) == UNION {[1..k -> S] : k \in 0..n}
N == Len(cmd)
C(p) == cmd[p + 1]                                \* cmd.at(p)
Min2(a, b) == IF a < b THEN a ELSE b
RECURSIVE NotIn(_, _)
NotIn(S, p) == IF p >= N THEN NPOS ELSE IF C(p) \notin S THEN p ELSE NotIn(S, p + 1)       \* find_first_not_of(S, p)
FirstOf(S, p) == IF p >= N THEN NPOS ELSE LET j == FindIn(cmd, S, p + 1) IN IF j = 0 THEN NPOS ELSE j - 1   \* find_first_of(S, p)
Substr(p, n) == SubSeq(cmd, p + 1, Min2(p + n, N))                                         \* substr(p, n), p <= size()

Init == /\ cmd = <<>> /\ pc = "idle" /\ start_pos = 0 /\ end_pos = 0 /\ qs = 0 /\ out = <<>> /\ ok = FALSE
        /\ ats = {} /\ subs = {} /\ steps = 0

Call == /\ pc = "idle"
        /\ \E s \in SeqsUpTo(Alpha, MaxLen) : cmd' = s
        /\ pc' = "top"
        /\ UNCHANGED <<start_pos, end_pos, qs, out, ok, ats, subs, steps>>

Done(r) == pc' = "done" /\ ok' = r

\* while (true) { start_pos = find_first_not_of(" \t", end_pos); ... quoted argument or set-up of a bare word
Top == /\ pc = "top" /\ steps' = steps + 1 /\ UNCHANGED cmd
       /\ LET sp == NotIn(Blank, end_pos) IN
          /\ start_pos' = sp
          /\ IF sp = NPOS THEN Done(TRUE) /\ UNCHANGED <<end_pos, qs, out, ats, subs>>
             ELSE /\ ats' = ats \cup {sp}
                  /\ IF C(sp) \in Quote
                     THEN LET e == FirstOf({C(sp)}, sp + 1) IN
                          IF e = NPOS THEN Done(FALSE) /\ UNCHANGED <<end_pos, qs, out, subs>>
                          ELSE /\ out' = Append(out, Substr(sp + 1, e - sp - 1)) /\ subs' = subs \cup {sp + 1}
                               /\ end_pos' = e + 1 /\ UNCHANGED <<pc, ok, qs>>
                     ELSE /\ end_pos' = FirstOf(Blank, sp)
                          /\ qs' = IF Variant = "noloop" THEN NPOS ELSE FirstOf(Quote, sp)
                          /\ pc' = "bare" /\ UNCHANGED <<ok, out, subs>>

\* one iteration of:  while (quot_start_pos != npos && (quot_start_pos < end_pos || end_pos == npos))
BareQuote == /\ pc = "bare" /\ qs # NPOS /\ (qs < end_pos \/ end_pos = NPOS)
             /\ steps' = steps + 1 /\ ats' = ats \cup {qs} /\ UNCHANGED <<cmd, start_pos, out, subs>>
             /\ LET qe == FirstOf(IF Variant = "anyquote" THEN Quote ELSE {C(qs)}, qs + 1) IN
                IF qe = NPOS THEN Done(FALSE) /\ UNCHANGED <<end_pos, qs>>
                ELSE end_pos' = FirstOf(Blank, qe + 1) /\ qs' = FirstOf(Quote, qe + 1) /\ UNCHANGED <<pc, ok>>

\* args.push_back(cmd.substr(start_pos, end_pos - start_pos)); if (end_pos == npos) break;
BareEnd == /\ pc = "bare" /\ ~(qs # NPOS /\ (qs < end_pos \/ end_pos = NPOS))
           /\ steps' = steps + 1 /\ UNCHANGED <<cmd, start_pos, end_pos, qs, ats>>
           /\ out' = Append(out, Substr(start_pos, end_pos - start_pos)) /\ subs' = subs \cup {start_pos}
           /\ IF end_pos = NPOS THEN Done(TRUE) ELSE pc' = "top" /\ UNCHANGED ok

Next == Call \/ Top \/ BareQuote \/ BareEnd
Spec == Init /\ [][Next]_ivars

AtInRange == \A p \in ats : p >= 0 /\ p < N                      \* at() never throws std::out_of_range
SubstrInRange == \A p \in subs : p >= 0 /\ p <= N                \* substr() never throws
Terminates == steps <= 2 * N + 2                                  \* every iteration moves a position forward
ResultConforms == pc = "done" => LET r == Split(cmd) IN ok = r.ok /\ (ok => out = r.args)
=============================================================================
