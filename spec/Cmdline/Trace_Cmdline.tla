--------------------------- MODULE Trace_Cmdline ---------------------------
(* E05 trace validation.  Every line of the recorded ndjson trace is one call of the real              *)
(* SplitCmdline / StripQuot / ArgumentParser::parse (input, return value, produced arguments, the       *)
(* sequence of handler invocations with what the handler saw and what it answered).  A line is accepted *)
(* iff it agrees with the reference operators of module Cmdline; a line that no disjunct accepts (wrong *)
(* result, an exception, or the Fault event written when the process died) ends the behaviour and the   *)
(* trace is rejected there.                                                                             *)
(* Not compared: the contents of the argument vector after SplitCmdline returned false.                 *)
EXTENDS Cmdline, Json, IOUtils, TLC

Log == ndJsonDeserialize(IOEnv.TRACE)
VARIABLE l
ASSUME TLCSet(42, 0)
tvars == <<l>>

Ev == Log[l]
IsEv(e) == l <= Len(Log) /\ Log[l].e = e /\ l' = l + 1

CheckSplit(ev) == LET r == Split(ev.in) IN ev.exc = "" /\ ev.ret = r.ok /\ (r.ok => ev.args = r.args)
\* a lone quote character: the code before the repair returned the empty string, now the character itself; both accepted
CheckStrip(ev) == ev.exc = "" /\ (ev.out = StripQuot(ev.in) \/ ev.out = StripQ(ev.in, TRUE))
CheckParse(ev) == /\ ev.exc = ""
                  /\ \E lo \in BOOLEAN : LET r == ParseL(ev.args, ev.start, ev.dec, lo) IN ev.ret = r.ret /\ ev.calls = r.calls

TInit == l = 1
TReset == IsEv("Reset")
TSplit == IsEv("Split") /\ CheckSplit(Ev)
TStrip == IsEv("Strip") /\ CheckStrip(Ev)
TParse == IsEv("Parse") /\ CheckParse(Ev)
TNext == TReset \/ TSplit \/ TStrip \/ TParse
TSpec == TInit /\ [][TNext]_tvars

Progress == TLCSet(42, IF l > TLCGet(42) THEN l ELSE TLCGet(42))
Accepted == IF TLCGet(42) = Len(Log) + 1 THEN TRUE ELSE PrintT(<<"MAXPOS", TLCGet(42), Len(Log)>>) /\ FALSE
=============================================================================
