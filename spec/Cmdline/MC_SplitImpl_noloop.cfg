CONSTANTS
  Alpha = {32, 9, 97, 39, 34, 61}
  MaxLen = 6
  Variant = "noloop"
SPECIFICATION Spec
INVARIANTS AtInRange SubstrInRange Terminates ResultConforms
CHECK_DEADLOCK FALSE
