------------------------------ MODULE LawsE05 ------------------------------
(* E05 - laws of the reference operators of module Cmdline, checked by TLC over every string of a    *)
(* small hostile alphabet (space, tab, a, b, ', ", -, =).  One named action per family of cases; the  *)
(* invariants are evaluated on the picked case.                                                       *)
EXTENDS Cmdline, TLC
CONSTANTS Alpha,        \* alphabet of the command lines
          MaxLen,       \* all command lines up to this length
          PairLen       \* all pairs of command lines up to this length (concatenation law)

VARIABLE c
lvars == <<c>>
SeqsUpTo(S, n) == UNION {[1..k -> S] : k \in 0..n}
A == 97   B == 98
Idle == c.k = "none"
Set(k, v) == c' = [k |-> k, v |-> v]

ArgStrings == {x \in SeqsUpTo({A, SP, SQ, DQ}, 2) : ~(Has(x, SQ) /\ Has(x, DQ))}
Tokens == { <<DASH, A>>, <<DASH, A, B>>, <<DASH, DASH, A>>, <<DASH, DASH, A, EQS, B>>, <<DASH, DASH>>, <<DASH>>, <<B>>, <<>>,
            <<DASH, DASH, A, EQS, SQ, B, SQ>>, <<DASH, DASH, EQS>>, <<DASH, DASH, A, EQS>>, <<DASH, DASH, A, EQS, DQ>>, <<DASH, DASH, A, EQS, EQS, B>> }
Decisions == [use : BOOLEAN, ret : BOOLEAN]

LInit == c = [k |-> "none"]
PickCmd   == Idle /\ \E s \in SeqsUpTo(Alpha, MaxLen) : Set("cmd", s)
PickPair  == Idle /\ \E s \in SeqsUpTo(Alpha, PairLen), t \in SeqsUpTo(Alpha, PairLen) : Set("pair", <<s, t>>)
PickArgs  == Idle /\ \E a \in SeqsUpTo(ArgStrings, 3) : Set("args", a)
PickStrip == Idle /\ \E s \in SeqsUpTo({A, SQ, DQ}, 4) : Set("strip", s)
PickParse == Idle /\ \E a \in SeqsUpTo(Tokens, 3), st \in 0..1, d \in SeqsUpTo(Decisions, 2) : Set("parse", [args |-> a, start |-> st, dec |-> d])
PickPipe  == Idle /\ \E k \in {<<A>>, <<A, B>>}, v \in SeqsUpTo({A, SP, SQ}, 3), f \in 1..4 : Set("pipe", [k |-> k, v |-> v, f |-> f])
LNext == PickCmd \/ PickPair \/ PickArgs \/ PickStrip \/ PickParse \/ PickPipe
LSpec == LInit /\ [][LNext]_lvars

\* ---- SplitCmdline -----------------------------------------------------------------------------------
IsCmd == c.k = "cmd"
\* total: a verdict and a list of strings for every input
LawSplitTotal == IsCmd => LET r == Split(c.v) IN r.ok \in BOOLEAN /\ \A k \in 1..Len(r.args) : \A i \in 1..Len(r.args[k]) : r.args[k][i] \in Alpha
\* failure is exactly "a quoted section is not finished"
LawSplitFailure == IsCmd => (Split(c.v).ok <=> Balanced(c.v))
\* every argument is a piece of the input, in order; what is left over are blanks and the quotes that delimited quoted arguments
LawSplitSpans == IsCmd => LET s == c.v  r == SplitSpans(s)  sp == r.spans IN r.ok =>
  /\ \A k \in 1..Len(sp) : 1 <= sp[k].from /\ sp[k].to <= Len(s) /\ sp[k].from <= sp[k].to + 1
  /\ \A k \in 1..(Len(sp) - 1) : sp[k].to + (IF sp[k].q THEN 1 ELSE 0) < sp[k + 1].from - (IF sp[k + 1].q THEN 1 ELSE 0)
  /\ \A k \in 1..Len(sp) :
       IF sp[k].q
       THEN /\ sp[k].from >= 2 /\ sp[k].to + 1 <= Len(s)
            /\ s[sp[k].from - 1] \in Quote /\ s[sp[k].to + 1] = s[sp[k].from - 1]
            /\ ~Has(SubSeq(s, sp[k].from, sp[k].to), s[sp[k].from - 1])
            /\ (sp[k].from = 2 \/ s[sp[k].from - 2] \in Blank \/ \E m \in 1..Len(sp) : sp[m].q /\ sp[m].to + 2 = sp[k].from - 1)
       ELSE LET a == SubSeq(s, sp[k].from, sp[k].to) IN
            /\ Len(a) >= 1 /\ a[1] \notin Blank \cup Quote
            /\ Balanced(a) /\ WordEnd(a, 1) = Len(a) + 1                                      \* blanks only inside quoted sections
            /\ (sp[k].to = Len(s) \/ s[sp[k].to + 1] \in Blank)
  /\ \A i \in 1..Len(s) :                                                                     \* nothing else is dropped
       \/ \E k \in 1..Len(sp) : sp[k].from <= i /\ i <= sp[k].to
       \/ s[i] \in Blank
       \/ \E k \in 1..Len(sp) : sp[k].q /\ (i = sp[k].from - 1 \/ i = sp[k].to + 1)
\* writing the arguments out again, each in a quote kind it does not contain, gives a line that splits into the same arguments
LawSplitRoundTrip == IsCmd => LET r == Split(c.v) IN r.ok => Split(Join(r.args)) = r
\* without quotes it is splitting at blanks
RECURSIVE Fields(_, _, _)
Fields(s, i, cur) == IF i > Len(s) THEN (IF cur = <<>> THEN <<>> ELSE <<cur>>)
                     ELSE IF s[i] \in Blank THEN (IF cur = <<>> THEN <<>> ELSE <<cur>>) \o Fields(s, i + 1, <<>>)
                     ELSE Fields(s, i + 1, Append(cur, s[i]))
LawSplitPlain == IsCmd => ((~Has(c.v, SQ) /\ ~Has(c.v, DQ)) => Split(c.v) = [ok |-> TRUE, args |-> Fields(c.v, 1, <<>>)])
\* two complete lines separated by a blank split independently
LawSplitConcat == c.k = "pair" => LET r1 == Split(c.v[1])  r2 == Split(c.v[2])  r == Split(c.v[1] \o <<SP>> \o c.v[2]) IN
                    IF r1.ok /\ r2.ok THEN r = [ok |-> TRUE, args |-> r1.args \o r2.args]
                    ELSE IF ~r1.ok /\ r2.ok /\ ~Has(c.v[2], QuoteState(c.v[1], 1, 0)) THEN ~r.ok ELSE TRUE
\* any list of arguments (none containing both quote kinds) can be written as one line
LawJoinSplit == c.k = "args" => Split(Join(c.v)) = [ok |-> TRUE, args |-> c.v]

\* ---- StripQuot ----------------------------------------------------------------------------------------
LawStrip == c.k = "strip" => LET s == c.v  t == StripQuot(s) IN
              /\ (Len(s) >= 2 /\ s[1] \in Quote /\ s[Len(s)] = s[1]) => (<<s[1]>> \o t \o <<s[1]>> = s)
              /\ ~(Len(s) >= 2 /\ s[1] \in Quote /\ s[Len(s)] = s[1]) => t = s
              /\ (~Has(s, SQ) \/ ~Has(s, DQ)) => StripQuot(Requote(s)) = s

\* ---- ArgumentParser -------------------------------------------------------------------------------------
IsParse == c.k = "parse"
RECURSIVE FlatOffers(_, _)
FlatOffers(args, i) == IF i > Len(args) THEN <<>>
                       ELSE [j \in 1..Len(Offers(args[i])) |-> CallOf(args, i, Offers(args[i])[j], FALSE)] \o FlatOffers(args, i + 1)
FirstStop(dec, k) == IF \E i \in 1..Len(dec) : ~dec[i].ret THEN CHOOSE i \in 1..Len(dec) : ~dec[i].ret /\ \A j \in 1..(i - 1) : dec[j].ret ELSE 0
IsSubSeq(x, y) == \E f \in [1..Len(x) -> 1..Len(y)] : (\A i \in 1..Len(x) : x[i] = y[f[i]]) /\ (\A i \in 1..(Len(x) - 1) : f[i] < f[i + 1])
\* options arrive in command-line order, each as (short, "", ..) or (0, long, ..); a handler that never fetches a value and never
\* stops sees every option of every argument from `start` on
LawParseOrder == IsParse => LET r == Parse(c.v.args, c.v.start, c.v.dec)  all == FlatOffers(c.v.args, c.v.start + 1) IN
                   /\ IsSubSeq(r.calls, all)
                   /\ \A i \in 1..Len(r.calls) : (r.calls[i].s # 0 /\ r.calls[i].l = <<>>) \/ r.calls[i].s = 0
                   /\ (\A i \in 1..Len(c.v.dec) : ~c.v.dec[i].use /\ c.v.dec[i].ret) => (r.ret /\ r.calls = all)
\* the handler's return value: false stops at once with result false, otherwise the result is true
LawParseStop == IsParse => LET r == Parse(c.v.args, c.v.start, c.v.dec)  k == FirstStop(c.v.dec, 1) IN
                  IF k # 0 /\ ~r.ret THEN Len(r.calls) = k
                  ELSE r.ret /\ (k # 0 => Len(r.calls) < k)
\* a value that was fetched is not parsed as an option: with "fetch everything" the arguments that follow an option that sees
\* a value never produce calls
AllUse == [i \in 1..8 |-> [use |-> TRUE, ret |-> TRUE]]
LawParseValueConsumed == IsParse => LET a == c.v.args  r == Parse(a, 0, AllUse) IN
                  (Len(a) >= 2 /\ a[1] \in {<<DASH, A>>, <<DASH, A, B>>, <<DASH, DASH, A>>}) =>
                     /\ r.ret /\ Len(r.calls) >= Len(Offers(a[1]))
                     /\ r.calls[Len(Offers(a[1]))].valid /\ r.calls[Len(Offers(a[1]))].val = a[2]
                     /\ r.calls = SubSeq(r.calls, 1, Len(Offers(a[1]))) \o Parse(SubSeq(a, 3, Len(a)), 0, AllUse).calls

\* ---- the two together: what the quoting rules of SplitCmdline are for -------------------------------------
\* prog --k="v"   prog --k "v"   prog -a "v"   prog --k=v (v without blanks)   deliver the value v unquoted
LawPipeline == c.k = "pipe" => LET k == c.v.k  v == c.v.v
                   line == CASE c.v.f = 1 -> <<B, SP, DASH, DASH>> \o k \o <<EQS, DQ>> \o v \o <<DQ>>
                             [] c.v.f = 2 -> <<B, SP, DASH, DASH>> \o k \o <<SP, DQ>> \o v \o <<DQ>>
                             [] c.v.f = 3 -> <<B, SP, DASH>> \o k \o <<TAB, DQ>> \o v \o <<DQ, SP>>
                             [] OTHER     -> <<B, SP, DASH, DASH>> \o k \o <<EQS>> \o v
                   sp == Split(line)
                   r == Parse(sp.args, 1, <<[use |-> TRUE, ret |-> TRUE], [use |-> TRUE, ret |-> TRUE]>>)
               IN (c.v.f = 4 => ~Has(v, SP) /\ ~Has(v, SQ)) =>
                  /\ sp.ok /\ r.ret /\ Len(r.calls) >= 1
                  /\ LET last == r.calls[Len(r.calls)] IN last.valid /\ last.val = v
                  /\ IF c.v.f = 3 THEN Len(r.calls) = Len(k) /\ \A i \in 1..Len(k) : r.calls[i].s = k[i] /\ r.calls[i].l = <<>>
                     ELSE Len(r.calls) = 1 /\ r.calls[1].s = 0 /\ r.calls[1].l = k
=============================================================================
