CONSTANTS
  Alpha = {32, 9, 97, 98, 39, 34, 45, 61}
  MaxLen = 5
  PairLen = 2
SPECIFICATION LSpec
INVARIANTS LawSplitTotal LawSplitFailure LawSplitSpans LawSplitRoundTrip LawSplitPlain LawSplitConcat LawJoinSplit LawStrip
           LawParseOrder LawParseStop LawParseValueConsumed LawPipeline
CHECK_DEADLOCK FALSE
