CONSTANTS
  Alpha = {32, 9, 97, 98, 39, 34, 45, 61}
  MaxLen = 1
  PairLen = 1
  GenLen = 5
  GenAlpha5 = {32, 97, 39, 34}
SPECIFICATION GSpec
CONSTRAINT Emit
CHECK_DEADLOCK FALSE
