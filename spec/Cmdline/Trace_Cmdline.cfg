SPECIFICATION TSpec
CONSTRAINT Progress
POSTCONDITION Accepted
CHECK_DEADLOCK FALSE
