\* generated by checks/c18.py
CONSTANTS
  MaxR = 4
  NP = 1
  SemInit <- Zeros
  CondLogic <- Zeros
  AsFoundWake = FALSE
  AsFoundCleanup = FALSE
  Which = "ProgStale"
  Programs <- ProgSel
SPECIFICATION Spec
INVARIANTS TypeOK MTypeOK ChannelFifoOnce MutexExclusive SemaphoreBound FailureOnlyWhenCancelled CancelFails JoinReturnsOk NoLostWakeup ReadyRan CancelTerminates IdleObservation CleanupReturns AllTerminated
CONSTRAINT EmitProg
