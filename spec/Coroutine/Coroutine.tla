----------------------------- MODULE Coroutine -----------------------------
(* C18 - implementation-shaped model of modules/coroutine: scheduler.cpp       *)
(* (routine states, ready FIFO, one pending schedule() call per               *)
(* makeRoutineReady(), schedule() swapping the ready queue, cancel flag,       *)
(* join token, cleanup loop) and the five primitives channel.hpp, mutex.hpp,   *)
(* semaphore.hpp, broadcast.hpp, condition.hpp (value queue / holder / count + *)
(* the queue of waiter tokens and the position of a routine inside the wait    *)
(* loop of a blocking call).                                                   *)
(*                                                                             *)
(* Scheduling is deterministic, so the machine is deterministic once the       *)
(* PROGRAM is fixed: one script per routine plus a script for the main context *)
(* (which acts between loop passes).  The program is chosen in Init; TLC thus  *)
(* enumerates ALL programs of the configured shape.                            *)
(*                                                                             *)
(* Every step emits at most one observable event, which is fed to the          *)
(* statement-level monitor CoMonitor (its variables are the ghost state here); *)
(* the properties are CoMonitor's invariants - the same formulas that judge    *)
(* the traces recorded from the real code.                                     *)
(*                                                                             *)
(* AsFoundWake = TRUE  : wake-up discipline of the code as found (a waiter is  *)
(*   woken only on the unavailable -> available edge, registers once, is never *)
(*   deregistered)          -> violates NoLostWakeup.                          *)
(* AsFoundWake = FALSE : intended discipline (register before every wait,      *)
(*   deregister after it, wake a registered waiter on every send / release /   *)
(*   unlock, a cancelled waiter passes an available resource on).              *)
(* AsFoundCleanup = TRUE : cleanup() as found (routines created while it runs  *)
(*   are started un-cancelled; it spins if one of them blocks).                *)
EXTENDS CoMonitor, TLC

CONSTANTS Programs,        \* sequence of [scripts |-> <<script_1..script_MaxR>>, main |-> <<main ops>>]
          SemInit, CondLogic,   \* <<..>> of length NP
          AsFoundWake, AsFoundCleanup

Op(o, x, y) == [op |-> o, x |-> x, y |-> y]
\* the driver ends every program the same way: wait until idle, clean up (unless the script did), wait until idle
WithTail(m) == m \o (IF \E i \in 1..Len(m) : m[i].op = "Cleanup" THEN <<Op("Idle", 0, 0)>>
                     ELSE <<Op("Idle", 0, 0), Op("Cleanup", 0, 0), Op("Idle", 0, 0)>>)

VARIABLES
  pid,       \* index of the program in Programs (the program never changes)
  pc,        \* [RR -> Nat]  index of the current script step
  ph,        \* [RR -> {"s","c","w"}]  s: before the step, c: call logged, w: suspended inside the step's wait loop
  st,        \* [RR -> {"None","Suspend","Ready","Running","Dead"}]   Routine::state (None: not created, Dead: freed)
  started,   \* [RR -> BOOLEAN]
  canc,      \* [RR -> BOOLEAN]  Routine::is_canceled
  joiner,    \* [RR -> 0..MaxR]  Routine::join_token
  ready,     \* Seq(RR)          Data::ready_routines
  tmp,       \* Seq(RR)          the local queue of the running schedule() call
  cur,       \* 0..MaxR          Data::curr_routine (0 = main context)
  mode,      \* "main" | "pass" | "cleanup" | "done" | "spin"
  sNow, sNext,  \* schedule() calls queued in the loop for this pass / for the next pass
  mpc,       \* position in the main script
  q,         \* [PP -> Seq(Int)]  Channel::queue_
  chw,       \* [PP -> Seq(RR)]   Channel::token_
  mh,        \* [PP -> 0..MaxR]   Mutex::hold_token_
  mw,        \* [PP -> Seq(RR)]   Mutex::wait_tokens_
  sc,        \* [PP -> Int]       Semaphore::count_
  sw,        \* [PP -> Seq(RR)]   Semaphore::token_
  bw,        \* [PP -> Seq(RR)]   Broadcast::wait_tokens_
  cs,        \* [PP -> SUBSET Int] Condition::conds_
  cw,        \* [PP -> 0..MaxR]   Condition::wait_token_
  clq,       \* Seq(RR)           rest of the current foreach round of cleanup()
  prog       \* BOOLEAN           something observable happened in the current cleanup round

\* The configuration substitutes an operator for Programs; TLC would re-evaluate it on every reference, so the program
\* sequence is evaluated once at start-up and kept in a TLC register.
ASSUME TLCSet(18, Programs)
Prog == TLCGet(18)
scripts == Prog[pid].scripts
mscript == Prog[pid].main      \* already WithTail

ivars == <<pid, pc, ph, st, started, canc, joiner, ready, tmp, cur, mode, sNow, sNext, mpc,
           q, chw, mh, mw, sc, sw, bw, cs, cw, clq, prog>>
vars == <<ivars, mvars>>

Init ==
  /\ pid \in 1..Len(Prog)
  /\ pc = [r \in RR |-> 1] /\ ph = [r \in RR |-> "s"] /\ st = [r \in RR |-> "None"]
  /\ started = [r \in RR |-> FALSE] /\ canc = [r \in RR |-> FALSE] /\ joiner = [r \in RR |-> 0]
  /\ ready = <<>> /\ tmp = <<>> /\ cur = 0 /\ mode = "main" /\ sNow = 0 /\ sNext = 0 /\ mpc = 1
  /\ q = [c \in PP |-> <<>>] /\ chw = [c \in PP |-> <<>>] /\ mh = [m \in PP |-> 0] /\ mw = [m \in PP |-> <<>>]
  /\ sc = [s \in PP |-> SemInit[s]] /\ sw = [s \in PP |-> <<>>] /\ bw = [b \in PP |-> <<>>]
  /\ cs = [c \in PP |-> {}] /\ cw = [c \in PP |-> 0] /\ clq = <<>> /\ prog = FALSE
  /\ MInit(SemInit, CondLogic)

(* ---- scheduler helpers -------------------------------------------------------------------------------------- *)
\* S = [st, ready, sn]: the part of the scheduler state changed by makeRoutineReady()
S0 == [st |-> st, ready |-> ready, sn |-> sNext]
Valid(S, t) == t \in RR /\ S.st[t] \notin {"None", "Dead"}              \* routine_cabinet.at(token) != nullptr
WakeOk(S, t) == Valid(S, t) /\ S.st[t] # "Ready"                         \* makeRoutineReady() returns true
Wake(S, t) == IF WakeOk(S, t)
              THEN [st |-> [S.st EXCEPT ![t] = "Ready"], ready |-> Append(S.ready, t), sn |-> S.sn + 1]
              ELSE S
RECURSIVE WakeAll(_, _)
WakeAll(S, ts) == IF ts = <<>> THEN S ELSE WakeAll(Wake(S, Head(ts)), Tail(ts))
SetS(S) == st' = S.st /\ ready' = S.ready /\ sNext' = S.sn
Without(s, r) == SelectSeq(s, LAMBDA e : e # r)
\* wake the first registered waiter of a token queue: returns <<new queue, new S>>
WakeFirst(S, w) == IF w = <<>> THEN <<w, S>> ELSE <<Tail(w), Wake(S, Head(w))>>

Len0(s) == Len(s)
CurOp(r) == IF pc[r] <= Len(scripts[r]) THEN scripts[r][pc[r]] ELSE Op("End", 0, 0)
Val(r) == r * 100 + pc[r]
IsIdle == cur = 0 /\ ready = <<>> /\ tmp = <<>> /\ sNow = 0 /\ sNext = 0
Che == [c \in PP |-> q[c] = <<>>]
Semp == [s \in PP |-> sc[s] # 0]
Blk == {"Yield", "Wait", "Recv", "Lock", "Acq", "BWait", "CWait", "Join"}

\* the running routine finishes step: next script position
Done1(r) == pc' = [pc EXCEPT ![r] = @ + 1] /\ ph' = [ph EXCEPT ![r] = "s"]
\* the running routine switches back to the main context inside its current step
Susp(r) == ph' = [ph EXCEPT ![r] = "w"] /\ cur' = 0 /\ UNCHANGED pc
Progress1 == prog' = TRUE

(* ---- main context ------------------------------------------------------------------------------------------- *)
MOp == mscript[mpc]
MainTurn == mode = "main" /\ cur = 0 /\ mpc <= Len(mscript)

MCreate ==
  /\ MainTurn /\ MOp.op = "Create"
  /\ LET x == MOp.x  ok == st[x] = "None"
         S1 == [S0 EXCEPT !.st = [@ EXCEPT ![x] = "Suspend"]]
         S2 == IF MOp.y # 0 THEN Wake(S1, x) ELSE S1 IN
       /\ IF ok THEN SetS(S2) ELSE UNCHANGED <<st, ready, sNext>>
       /\ MainOp("Create", x, MOp.y, ok)
  /\ mpc' = mpc + 1
  /\ UNCHANGED <<pid, pc, ph, started, canc, joiner, tmp, cur, mode, sNow, q, chw, mh, mw, sc, sw, bw, cs, cw, clq, prog>>

MResume ==
  /\ MainTurn /\ MOp.op = "Resume"
  /\ SetS(Wake(S0, MOp.x))
  /\ MainOp("Resume", MOp.x, 0, WakeOk(S0, MOp.x))
  /\ mpc' = mpc + 1
  /\ UNCHANGED <<pid, pc, ph, started, canc, joiner, tmp, cur, mode, sNow, q, chw, mh, mw, sc, sw, bw, cs, cw, clq, prog>>

MCancel ==
  /\ MainTurn /\ MOp.op = "Cancel"
  /\ canc' = IF Valid(S0, MOp.x) THEN [canc EXCEPT ![MOp.x] = TRUE] ELSE canc
  /\ SetS(Wake(S0, MOp.x))
  /\ MainOp("Cancel", MOp.x, 0, WakeOk(S0, MOp.x))
  /\ mpc' = mpc + 1
  /\ UNCHANGED <<pid, pc, ph, started, joiner, tmp, cur, mode, sNow, q, chw, mh, mw, sc, sw, bw, cs, cw, clq, prog>>

\* "Pass": give the loop one pass (all schedule() calls queued so far); "Idle": passes until nothing is left.
\* An idle loop is observed (event "idle") instead.
MPass ==
  /\ MainTurn /\ MOp.op \in {"Pass", "Idle"}
  /\ IF IsIdle
     THEN /\ Idle(Che, Semp) /\ mpc' = mpc + 1 /\ UNCHANGED <<mode, sNow, sNext>>
     ELSE /\ UNCHANGED mvars /\ mode' = "pass" /\ sNow' = sNext /\ sNext' = 0
          /\ mpc' = IF MOp.op = "Pass" THEN mpc + 1 ELSE mpc
  /\ UNCHANGED <<pid, pc, ph, st, started, canc, joiner, ready, tmp, cur, q, chw, mh, mw, sc, sw, bw, cs, cw, clq, prog>>

MFinish ==
  /\ mode = "main" /\ cur = 0 /\ mpc > Len(mscript)
  /\ mode' = "done"
  /\ UNCHANGED mvars
  /\ UNCHANGED <<pid, pc, ph, st, started, canc, joiner, ready, tmp, cur, sNow, sNext, mpc, q, chw, mh, mw, sc, sw, bw, cs, cw, clq, prog>>

(* ---- schedule(): one call per queued runNext ------------------------------------------------------------------ *)
SchedBegin ==
  /\ mode = "pass" /\ cur = 0 /\ tmp = <<>> /\ sNow > 0
  /\ tmp' = ready /\ ready' = <<>> /\ sNow' = sNow - 1
  /\ UNCHANGED mvars
  /\ UNCHANGED <<pid, pc, ph, st, started, canc, joiner, cur, mode, sNext, mpc, q, chw, mh, mw, sc, sw, bw, cs, cw, clq, prog>>

PassEnd ==
  /\ mode = "pass" /\ cur = 0 /\ tmp = <<>> /\ sNow = 0
  /\ mode' = "main"
  /\ UNCHANGED mvars
  /\ UNCHANGED <<pid, pc, ph, st, started, canc, joiner, ready, tmp, cur, sNow, sNext, mpc, q, chw, mh, mw, sc, sw, bw, cs, cw, clq, prog>>

\* switchToRoutine(): the first switch into a routine starts it (event "start")
SwitchTo(r) ==
  /\ cur' = r /\ st' = [st EXCEPT ![r] = "Running"]
  /\ IF started[r] THEN UNCHANGED <<started, mvars>>
     ELSE started' = [started EXCEPT ![r] = TRUE] /\ Start(r)

SchedPop ==
  /\ mode = "pass" /\ cur = 0 /\ tmp # <<>>
  /\ tmp' = Tail(tmp)
  /\ IF Valid(S0, Head(tmp)) THEN SwitchTo(Head(tmp)) ELSE UNCHANGED <<cur, st, started, mvars>>
  /\ UNCHANGED <<pid, pc, ph, canc, joiner, ready, mode, sNow, sNext, mpc, q, chw, mh, mw, sc, sw, bw, cs, cw, clq, prog>>

(* ---- cleanup() -------------------------------------------------------------------------------------------------- *)
Live == {r \in RR : st[r] \notin {"None", "Dead"}}
LiveSeq == SelectSeq([i \in 1..MaxR |-> i], LAMBDA r : r \in Live)

MCleanup ==
  /\ MainTurn /\ MOp.op = "Cleanup"
  /\ CleanupCall
  /\ st' = [r \in RR |-> IF r \in Live /\ ~started[r] THEN "Dead" ELSE st[r]]           \* unstarted routines are deleted
  /\ canc' = [r \in RR |-> IF r \in Live /\ started[r] THEN TRUE ELSE canc[r]]
  /\ mode' = "cleanup" /\ clq' = <<>> /\ prog' = TRUE /\ mpc' = mpc + 1
  /\ UNCHANGED <<pid, pc, ph, started, joiner, ready, tmp, cur, sNow, sNext, q, chw, mh, mw, sc, sw, bw, cs, cw>>

\* while (!routine_cabinet.empty()) foreach(...)
CleanupRound ==
  /\ mode = "cleanup" /\ cur = 0 /\ clq = <<>>
  /\ IF Live = {}
     THEN /\ CleanupRet /\ mode' = "main" /\ UNCHANGED <<clq, prog>>
     ELSE IF prog THEN /\ clq' = LiveSeq /\ prog' = FALSE /\ UNCHANGED <<mode, mvars>>
     ELSE /\ mode' = "spin" /\ UNCHANGED <<clq, prog, mvars>>          \* a whole round changed nothing: cleanup() never returns
  /\ UNCHANGED <<pid, pc, ph, st, started, canc, joiner, ready, tmp, cur, sNow, sNext, mpc, q, chw, mh, mw, sc, sw, bw, cs, cw>>

CleanupNext ==
  /\ mode = "cleanup" /\ cur = 0 /\ clq # <<>>
  /\ clq' = Tail(clq)
  /\ LET r == Head(clq) IN
       IF ~Valid(S0, r) THEN UNCHANGED <<cur, st, started, canc, prog, mvars>>
       ELSE IF AsFoundCleanup
            THEN SwitchTo(r) /\ UNCHANGED canc /\ (IF started[r] THEN UNCHANGED prog ELSE prog' = TRUE)
            ELSE IF ~started[r]
                 THEN /\ st' = [st EXCEPT ![r] = "Dead"] /\ prog' = TRUE                  \* created meanwhile: deleted unstarted
                      /\ UNCHANGED <<cur, started, canc, mvars>>
                 ELSE /\ canc' = [canc EXCEPT ![r] = TRUE] /\ SwitchTo(r) /\ UNCHANGED prog
  /\ UNCHANGED <<pid, pc, ph, joiner, ready, tmp, mode, sNow, sNext, mpc, q, chw, mh, mw, sc, sw, bw, cs, cw>>

(* ---- routine steps (cur = r) --------------------------------------------------------------------------------- *)
Rt(r) == cur = r /\ r # 0

\* the routine function returns: state = kDead, the token is freed, a joiner is resumed
REnd(r) ==
  /\ Rt(r) /\ CurOp(r).op = "End" /\ ph[r] = "s"
  /\ End(r)
  /\ SetS(Wake([S0 EXCEPT !.st = [@ EXCEPT ![r] = "Dead"]], joiner[r]))
  /\ cur' = 0 /\ Progress1
  /\ UNCHANGED <<pid, pc, ph, started, canc, joiner, tmp, mode, sNow, mpc, q, chw, mh, mw, sc, sw, bw, cs, cw, clq>>

\* a blocking call begins (event "call")
RCall(r) ==
  /\ Rt(r) /\ CurOp(r).op \in Blk /\ ph[r] = "s"
  /\ Call(r, CurOp(r).op, CurOp(r).x)
  /\ ph' = [ph EXCEPT ![r] = "c"] /\ Progress1
  /\ UNCHANGED <<pid, pc, st, started, canc, joiner, ready, tmp, cur, mode, sNow, sNext, mpc, q, chw, mh, mw, sc, sw, bw, cs, cw, clq>>

\* wait(): a cancelled routine is not suspended
RWait(r) ==
  /\ Rt(r) /\ CurOp(r).op = "Wait" /\ ph[r] \in {"c", "w"}
  /\ IF ph[r] = "w" \/ canc[r]
     THEN Ret(r, "Wait", 0, TRUE, 0) /\ Done1(r) /\ Progress1 /\ UNCHANGED <<st, cur>>
     ELSE st' = [st EXCEPT ![r] = "Suspend"] /\ Susp(r) /\ UNCHANGED <<mvars, prog>>
  /\ UNCHANGED <<pid, started, canc, joiner, ready, tmp, mode, sNow, sNext, mpc, q, chw, mh, mw, sc, sw, bw, cs, cw, clq>>

RYield(r) ==
  /\ Rt(r) /\ CurOp(r).op = "Yield" /\ ph[r] \in {"c", "w"}
  /\ IF ph[r] = "w" \/ canc[r]
     THEN Ret(r, "Yield", 0, TRUE, 0) /\ Done1(r) /\ UNCHANGED <<st, ready, sNext, cur>>
     ELSE SetS(Wake(S0, r)) /\ Susp(r) /\ UNCHANGED mvars
  /\ Progress1
  /\ UNCHANGED <<pid, started, canc, joiner, tmp, mode, sNow, mpc, q, chw, mh, mw, sc, sw, bw, cs, cw, clq>>

(* The wait loop shared by channel / mutex / semaphore.                                                          *)
(*   avail : the resource can be taken now;   w : the waiter token queue of the primitive                        *)
(* Result [kind, w, S]:  kind "take" (return true), "fail" (return false), "susp" (switch to the main context).  *)
WaitLoop(r, avail, w) ==
  IF ph[r] = "c"
  THEN \* first evaluation of the call
       IF avail THEN [kind |-> "take", w |-> w, S |-> S0]
       ELSE IF canc[r] THEN [kind |-> "fail", w |-> IF AsFoundWake THEN Append(w, r) ELSE w, S |-> S0]
       ELSE [kind |-> "susp", w |-> Append(w, r), S |-> [S0 EXCEPT !.st = [@ EXCEPT ![r] = "Suspend"]]]
  ELSE \* resumed inside the loop
       LET w1 == IF AsFoundWake THEN w ELSE Without(w, r) IN
       IF canc[r]
       THEN IF AsFoundWake \/ ~avail THEN [kind |-> "fail", w |-> w1, S |-> S0]
            ELSE LET p == WakeFirst(S0, w1) IN [kind |-> "fail", w |-> p[1], S |-> p[2]]     \* pass the wake-up on
       ELSE IF avail THEN [kind |-> "take", w |-> w1, S |-> S0]
       ELSE [kind |-> "susp", w |-> IF AsFoundWake THEN w1 ELSE Append(w1, r),
             S |-> [S0 EXCEPT !.st = [@ EXCEPT ![r] = "Suspend"]]]

RRecv(r) ==
  /\ Rt(r) /\ CurOp(r).op = "Recv" /\ ph[r] \in {"c", "w"}
  /\ LET c == CurOp(r).x   res == WaitLoop(r, q[c] # <<>>, chw[c]) IN
       /\ chw' = [chw EXCEPT ![c] = res.w] /\ SetS(res.S)
       /\ CASE res.kind = "take" -> Ret(r, "Recv", c, TRUE, Head(q[c])) /\ q' = [q EXCEPT ![c] = Tail(@)] /\ Done1(r) /\ Progress1 /\ UNCHANGED cur
            [] res.kind = "fail" -> Ret(r, "Recv", c, FALSE, 0) /\ Done1(r) /\ Progress1 /\ UNCHANGED <<q, cur>>
            [] res.kind = "susp" -> Susp(r) /\ UNCHANGED <<q, mvars, prog>>
  /\ UNCHANGED <<pid, started, canc, joiner, tmp, mode, sNow, mpc, mh, mw, sc, sw, bw, cs, cw, clq>>

RSend(r) ==
  /\ Rt(r) /\ CurOp(r).op = "Send" /\ ph[r] = "s"
  /\ LET c == CurOp(r).x
         p == IF AsFoundWake /\ q[c] # <<>> THEN <<chw[c], S0>> ELSE WakeFirst(S0, chw[c]) IN
       /\ chw' = [chw EXCEPT ![c] = p[1]] /\ SetS(p[2])
       /\ q' = [q EXCEPT ![c] = Append(@, Val(r))]
       /\ Inst(r, "Send", c, TRUE, Val(r))
  /\ Done1(r) /\ Progress1
  /\ UNCHANGED <<pid, started, canc, joiner, tmp, cur, mode, sNow, mpc, mh, mw, sc, sw, bw, cs, cw, clq>>

RLock(r) ==
  /\ Rt(r) /\ CurOp(r).op = "Lock" /\ ph[r] \in {"c", "w"}
  /\ LET m == CurOp(r).x   res == WaitLoop(r, mh[m] = 0 \/ (ph[r] = "c" /\ mh[m] = r), mw[m]) IN
       /\ mw' = [mw EXCEPT ![m] = res.w] /\ SetS(res.S)
       /\ CASE res.kind = "take" -> Ret(r, "Lock", m, TRUE, 0) /\ mh' = [mh EXCEPT ![m] = r] /\ Done1(r) /\ Progress1 /\ UNCHANGED cur
            [] res.kind = "fail" -> Ret(r, "Lock", m, FALSE, 0) /\ Done1(r) /\ Progress1 /\ UNCHANGED <<mh, cur>>
            [] res.kind = "susp" -> Susp(r) /\ UNCHANGED <<mh, mvars, prog>>
  /\ UNCHANGED <<pid, started, canc, joiner, tmp, mode, sNow, mpc, q, chw, sc, sw, bw, cs, cw, clq>>

RUnlock(r) ==
  /\ Rt(r) /\ CurOp(r).op = "Unlock" /\ ph[r] = "s"
  /\ LET m == CurOp(r).x IN
       /\ IF mh[m] = r
          THEN LET p == WakeFirst(S0, mw[m]) IN mh' = [mh EXCEPT ![m] = 0] /\ mw' = [mw EXCEPT ![m] = p[1]] /\ SetS(p[2])
          ELSE UNCHANGED <<mh, mw, st, ready, sNext>>
       /\ Inst(r, "Unlock", m, TRUE, 0)
  /\ Done1(r) /\ Progress1
  /\ UNCHANGED <<pid, started, canc, joiner, tmp, cur, mode, sNow, mpc, q, chw, sc, sw, bw, cs, cw, clq>>

RAcq(r) ==
  /\ Rt(r) /\ CurOp(r).op = "Acq" /\ ph[r] \in {"c", "w"}
  /\ LET s == CurOp(r).x   res == WaitLoop(r, sc[s] # 0, sw[s]) IN
       /\ sw' = [sw EXCEPT ![s] = res.w] /\ SetS(res.S)
       /\ CASE res.kind = "take" -> Ret(r, "Acq", s, TRUE, 0) /\ sc' = [sc EXCEPT ![s] = @ - 1] /\ Done1(r) /\ Progress1 /\ UNCHANGED cur
            [] res.kind = "fail" -> Ret(r, "Acq", s, FALSE, 0) /\ Done1(r) /\ Progress1 /\ UNCHANGED <<sc, cur>>
            [] res.kind = "susp" -> Susp(r) /\ UNCHANGED <<sc, mvars, prog>>
  /\ UNCHANGED <<pid, started, canc, joiner, tmp, mode, sNow, mpc, q, chw, mh, mw, bw, cs, cw, clq>>

RRel(r) ==
  /\ Rt(r) /\ CurOp(r).op = "Rel" /\ ph[r] = "s"
  /\ LET s == CurOp(r).x
         p == IF AsFoundWake /\ sc[s] # 0 THEN <<sw[s], S0>> ELSE WakeFirst(S0, sw[s]) IN
       /\ sw' = [sw EXCEPT ![s] = p[1]] /\ SetS(p[2])
       /\ sc' = [sc EXCEPT ![s] = @ + 1]
       /\ Inst(r, "Rel", s, TRUE, 0)
  /\ Done1(r) /\ Progress1
  /\ UNCHANGED <<pid, started, canc, joiner, tmp, cur, mode, sNow, mpc, q, chw, mh, mw, bw, cs, cw, clq>>

\* Broadcast::wait(): register, wait once, report !isCanceled()
RBWait(r) ==
  /\ Rt(r) /\ CurOp(r).op = "BWait" /\ ph[r] \in {"c", "w"}
  /\ LET b == CurOp(r).x IN
       IF ph[r] = "c" /\ ~canc[r]
       THEN /\ bw' = [bw EXCEPT ![b] = Append(@, r)] /\ st' = [st EXCEPT ![r] = "Suspend"] /\ Susp(r) /\ UNCHANGED <<mvars, prog>>
       ELSE /\ bw' = IF ph[r] = "c" THEN [bw EXCEPT ![b] = Append(@, r)] ELSE bw
            /\ Ret(r, "BWait", b, ~canc[r], 0) /\ Done1(r) /\ Progress1 /\ UNCHANGED <<st, cur>>
  /\ UNCHANGED <<pid, started, canc, joiner, ready, tmp, mode, sNow, sNext, mpc, q, chw, mh, mw, sc, sw, cs, cw, clq>>

RBPost(r) ==
  /\ Rt(r) /\ CurOp(r).op = "BPost" /\ ph[r] = "s"
  /\ LET b == CurOp(r).x IN
       /\ SetS(WakeAll(S0, bw[b])) /\ bw' = [bw EXCEPT ![b] = <<>>]
       /\ Inst(r, "BPost", b, TRUE, 0)
  /\ Done1(r) /\ Progress1
  /\ UNCHANGED <<pid, started, canc, joiner, tmp, cur, mode, sNow, mpc, q, chw, mh, mw, sc, sw, cs, cw, clq>>

RCAdd(r) ==
  /\ Rt(r) /\ CurOp(r).op = "CAdd" /\ ph[r] = "s"
  /\ cs' = [cs EXCEPT ![CurOp(r).x] = @ \cup {CurOp(r).y}]
  /\ Inst(r, "CAdd", CurOp(r).x, TRUE, CurOp(r).y)
  /\ Done1(r) /\ Progress1
  /\ UNCHANGED <<pid, st, started, canc, joiner, ready, tmp, cur, mode, sNow, sNext, mpc, q, chw, mh, mw, sc, sw, bw, cw, clq>>

\* Condition::wait(): refused when somebody waits or no condition was added; waits once; clears the conditions
RCWait(r) ==
  /\ Rt(r) /\ CurOp(r).op = "CWait" /\ ph[r] \in {"c", "w"}
  /\ LET c == CurOp(r).x IN
       IF ph[r] = "c" /\ (cw[c] # 0 \/ cs[c] = {})
       THEN Ret(r, "CWait", c, FALSE, 0) /\ Done1(r) /\ Progress1 /\ UNCHANGED <<cs, cw, st, cur>>
       ELSE IF ph[r] = "c" /\ ~canc[r]
       THEN cw' = [cw EXCEPT ![c] = r] /\ st' = [st EXCEPT ![r] = "Suspend"] /\ Susp(r) /\ UNCHANGED <<cs, mvars, prog>>
       ELSE /\ cw' = IF ph[r] = "c" THEN [cw EXCEPT ![c] = r] ELSE cw
            /\ cs' = [cs EXCEPT ![c] = {}]
            /\ Ret(r, "CWait", c, ~canc[r], 0) /\ Done1(r) /\ Progress1 /\ UNCHANGED <<st, cur>>
  /\ UNCHANGED <<pid, started, canc, joiner, ready, tmp, mode, sNow, sNext, mpc, q, chw, mh, mw, sc, sw, bw, clq>>

RCPost(r) ==
  /\ Rt(r) /\ CurOp(r).op = "CPost" /\ ph[r] = "s"
  /\ LET c == CurOp(r).x  v == CurOp(r).y
         hit == v \in cs[c]
         rest == IF CondLogic[c] = 1 THEN {} ELSE cs[c] \ {v}
         sat == hit /\ rest = {} IN
       /\ cs' = IF hit THEN [cs EXCEPT ![c] = rest] ELSE cs
       /\ IF sat THEN SetS(Wake(S0, cw[c])) /\ cw' = [cw EXCEPT ![c] = 0] ELSE UNCHANGED <<st, ready, sNext, cw>>
       /\ Inst(r, "CPost", c, TRUE, v)
  /\ Done1(r) /\ Progress1
  /\ UNCHANGED <<pid, started, canc, joiner, tmp, cur, mode, sNow, mpc, q, chw, mh, mw, sc, sw, bw, clq>>

\* join(): refused for a cancelled caller, a finished / unknown target, a target that already has a joiner
RJoin(r) ==
  /\ Rt(r) /\ CurOp(r).op = "Join" /\ ph[r] \in {"c", "w"}
  /\ LET t == CurOp(r).x IN
       IF ph[r] = "c" /\ (canc[r] \/ ~Valid(S0, t) \/ joiner[t] # 0)
       THEN Ret(r, "Join", t, FALSE, 0) /\ Done1(r) /\ Progress1 /\ UNCHANGED <<joiner, st, cur>>
       ELSE IF ph[r] = "c"
       THEN joiner' = [joiner EXCEPT ![t] = r] /\ st' = [st EXCEPT ![r] = "Suspend"] /\ Susp(r) /\ UNCHANGED <<mvars, prog>>
       ELSE Ret(r, "Join", t, ~canc[r], 0) /\ Done1(r) /\ Progress1 /\ UNCHANGED <<joiner, st, cur>>
  /\ UNCHANGED <<pid, started, canc, ready, tmp, mode, sNow, sNext, mpc, q, chw, mh, mw, sc, sw, bw, cs, cw, clq>>

RCreate(r) ==
  /\ Rt(r) /\ CurOp(r).op = "Create" /\ ph[r] = "s"
  /\ LET x == CurOp(r).x  ok == st[x] = "None" IN
       /\ IF ok THEN SetS(Wake([S0 EXCEPT !.st = [@ EXCEPT ![x] = "Suspend"]], x)) ELSE UNCHANGED <<st, ready, sNext>>
       /\ Inst(r, "Create", x, ok, 0)
  /\ Done1(r) /\ Progress1
  /\ UNCHANGED <<pid, started, canc, joiner, tmp, cur, mode, sNow, mpc, q, chw, mh, mw, sc, sw, bw, cs, cw, clq>>

RCancel(r) ==
  /\ Rt(r) /\ CurOp(r).op = "Cancel" /\ ph[r] = "s"
  /\ LET x == CurOp(r).x IN
       /\ canc' = IF Valid(S0, x) THEN [canc EXCEPT ![x] = TRUE] ELSE canc
       /\ SetS(Wake(S0, x))
       /\ Inst(r, "Cancel", x, WakeOk(S0, x), 0)
  /\ Done1(r) /\ Progress1
  /\ UNCHANGED <<pid, started, joiner, tmp, cur, mode, sNow, mpc, q, chw, mh, mw, sc, sw, bw, cs, cw, clq>>

Finished == mode \in {"done", "spin"} /\ UNCHANGED vars

RoutineStep == \E r \in RR :
  \/ REnd(r) \/ RCall(r) \/ RWait(r) \/ RYield(r) \/ RRecv(r) \/ RSend(r) \/ RLock(r) \/ RUnlock(r) \/ RAcq(r) \/ RRel(r)
  \/ RBWait(r) \/ RBPost(r) \/ RCAdd(r) \/ RCWait(r) \/ RCPost(r) \/ RJoin(r) \/ RCreate(r) \/ RCancel(r)

Next ==
  \/ MCreate \/ MResume \/ MCancel \/ MPass \/ MCleanup \/ MFinish
  \/ SchedBegin \/ SchedPop \/ PassEnd \/ CleanupRound \/ CleanupNext
  \/ RoutineStep
  \/ Finished

Spec == Init /\ [][Next]_vars

(* ---- model-level properties (besides CoMonitor's) --------------------------------------------------------------- *)
TypeOK == /\ st \in [RR -> {"None", "Suspend", "Ready", "Running", "Dead"}]
          /\ cur \in 0..MaxR /\ mode \in {"main", "pass", "cleanup", "done", "spin"}
          /\ \A c \in PP : q[c] = chq[c]                 \* the ghost channel content is the real queue
          /\ \A m \in PP : mh[m] = holder[m]
          /\ \A s \in PP : sc[s] = cnt[s]
CleanupReturns == mode # "spin"
\* at the end of every program everything that was started has terminated and the scheduler is empty
AllTerminated == mode = "done" => (Live = {} /\ phase = "cleaned")
=============================================================================
