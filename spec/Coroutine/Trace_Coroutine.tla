-------------------------- MODULE Trace_Coroutine --------------------------
(* Trace validation for C18: every line of the ndjson log recorded by            *)
(* harness/c18_coroutine/driver.cpp (or emitted by the implementation-shaped     *)
(* model through Gen_Coroutine) must be an event of CoMonitor; the invariants of *)
(* CoMonitor are evaluated after every line.  A "Fault" line (crash, hang) is    *)
(* matched by no action.                                                         *)
EXTENDS CoMonitor, Json, IOUtils, TLC
Log == ndJsonDeserialize(IOEnv.TRACE)
VARIABLE l
ASSUME TLCSet(42, 0)
tvars == <<mvars, l>>

Ev == Log[l]
IsEv(e) == l <= Len(Log) /\ Log[l].e = e /\ l' = l + 1
Vec(s) == [i \in PP |-> s[i]]

TInit == MInit([i \in PP |-> 0], [i \in PP |-> 0]) /\ l = 1
TBegin == IsEv("Begin") /\ MReset(Vec(Ev.seminit), Vec(Ev.clogic))      \* start of an execution: configuration of the primitives
TReset == IsEv("Reset") /\ MReset([i \in PP |-> 0], [i \in PP |-> 0])    \* end of an execution
TMop   == IsEv("mop") /\ MainOp(Ev.op, Ev.x, Ev.y, Ev.ret)
TClCall == IsEv("mcl") /\ Ev.ph = 0 /\ CleanupCall
TClRet  == IsEv("mcl") /\ Ev.ph = 1 /\ CleanupRet
TStart == IsEv("start") /\ Start(Ev.r)
TEnd   == IsEv("end") /\ End(Ev.r)
TCall  == IsEv("call") /\ Call(Ev.r, Ev.op, Ev.x)
TRet   == IsEv("ret") /\ Ret(Ev.r, Ev.op, Ev.x, Ev.ok, Ev.v)
TInst  == IsEv("op") /\ Inst(Ev.r, Ev.op, Ev.x, Ev.ok, Ev.v)
TIdle  == IsEv("idle") /\ Idle(Vec(Ev.che), Vec(Ev.semp))
TNext == TBegin \/ TReset \/ TMop \/ TClCall \/ TClRet \/ TStart \/ TEnd \/ TCall \/ TRet \/ TInst \/ TIdle
TSpec == TInit /\ [][TNext]_tvars

Progress == TLCSet(42, IF l > TLCGet(42) THEN l ELSE TLCGet(42))
Accepted == IF TLCGet(42) = Len(Log) + 1 THEN TRUE ELSE PrintT(<<"MAXPOS", TLCGet(42), Len(Log)>>) /\ FALSE
=============================================================================
