CONSTANTS
  MaxR = 101
  NP = 2
SPECIFICATION TSpec
CONSTRAINT Progress
POSTCONDITION Accepted
INVARIANTS MTypeOK ChannelFifoOnce MutexExclusive SemaphoreBound FailureOnlyWhenCancelled CancelFails JoinReturnsOk NoLostWakeup ReadyRan CancelTerminates IdleObservation
CHECK_DEADLOCK FALSE
