\* generated by checks/c18.py
CONSTANTS
  MaxR = 3
  NP = 1
  SemInit <- Ones
  CondLogic <- Ones
  AsFoundWake = FALSE
  AsFoundCleanup = FALSE
  Which = "ProgT9"
  Programs <- ProgSel
SPECIFICATION Spec
INVARIANTS TypeOK MTypeOK ChannelFifoOnce MutexExclusive SemaphoreBound FailureOnlyWhenCancelled CancelFails JoinReturnsOk NoLostWakeup ReadyRan CancelTerminates IdleObservation CleanupReturns AllTerminated
CONSTRAINT EmitProg
