--------------------------- MODULE MC_Coroutine ---------------------------
(* Bounded models for C18: the sequence of PROGRAMS is the initial              *)
(* nondeterminism.  A family fixes the alphabet of routine steps, the maximal   *)
(* script length of every routine, how many routines the main context creates   *)
(* and the set of main scripts that follow the creations; a configuration is a  *)
(* concatenation of families (checks/c18.py writes the .cfg files).              *)
EXTENDS Coroutine, SequencesExt, Json

SeqsUpTo(S, n) == UNION {[1..k -> S] : k \in 0..n}
\* after cleanup() the main context only lets the loop run (nothing is created / resumed / cancelled / cleaned up again)
WellFormed(m) == \A i, j \in 1..Len(m) : (i < j /\ m[i].op = "Cleanup") => m[j].op \in {"Pass", "Idle"}
MainsUpTo(S, n) == {m \in SeqsUpTo(S, n) : WellFormed(m)}

\* lens = <<l1, l2, l3>> (0 = the routine has the empty script); the main context creates routines 1..initn
Fam(alpha, lens, initn, mains) ==
  LET SS(r) == SeqsUpTo(alpha, lens[r])
      creates == [r \in 1..initn |-> Op("Create", r, 1)] IN
  SetToSeq({[scripts |-> <<a, b, c>>, main |-> WithTail(creates \o m)] : a \in SS(1), b \in SS(2), c \in SS(3), m \in mains})

Y == Op("Yield", 0, 0)
W == Op("Wait", 0, 0)
P == Op("Pass", 0, 0)
Cl == Op("Cleanup", 0, 0)
Ca(r) == Op("Cancel", r, 0)
Re(r) == Op("Resume", r, 0)
Lk == Op("Lock", 1, 0)
Ul == Op("Unlock", 1, 0)
AlphaChan == {Y, Op("Send", 1, 0), Op("Recv", 1, 0)}
AlphaMutex == {Y, Op("Lock", 1, 0), Op("Unlock", 1, 0)}
AlphaSem == {Y, Op("Acq", 1, 0), Op("Rel", 1, 0)}
AlphaBcast == {Y, Op("BWait", 1, 0), Op("BPost", 1, 0)}
AlphaCond == {Op("CAdd", 1, 1), Op("CAdd", 1, 2), Op("CWait", 1, 0), Op("CPost", 1, 1), Op("CPost", 1, 2)}
AlphaJoin == {Y, W, Op("Join", 1, 0), Op("Join", 2, 0), Op("Create", 3, 0), Op("Cancel", 1, 0)}
AlphaLife == {Y, W, Op("Create", 2, 0), Op("Recv", 1, 0), Op("Join", 2, 0)}
AlphaSpin == {W, Op("Create", 2, 0), Op("Recv", 1, 0)}
AlphaMixed == {Y, Op("Send", 1, 0), Op("Recv", 1, 0), Op("Lock", 1, 0), Op("Unlock", 1, 0), Op("Acq", 1, 0), Op("Rel", 1, 0),
               Op("BWait", 1, 0), Op("BPost", 1, 0), Op("Cancel", 2, 0), Op("Join", 2, 0)}
NoMain == {<<>>}
MainFirst == {P, Re(1), Ca(1), Cl}              \* between passes: resume / cancel the first routine, clean up
MainSecond == {P, Re(2), Ca(2), Cl}
MainFull == {P, Op("Idle", 0, 0), Re(1), Re(2), Ca(1), Ca(2), Cl}
\* the second routine is resumed / cancelled / everything cleaned up after one or two passes
MainsLate == {<<>>, <<P, P, Ca(2)>>, <<P, P, Re(2)>>, <<P, Cl>>}
MainsLife == {<<>>, <<Cl>>, <<P, Cl>>, <<P, Ca(1)>>, <<P, Re(1)>>}

\* hand-written: the holder unlocks (waking routine 2) and cancels routine 2 before it runs; routine 3 still waits
ProgRaces == LET m3 == WithTail(<<Op("Create", 1, 1), Op("Create", 2, 1), Op("Create", 3, 1)>>) IN
  << [scripts |-> << <<Lk, Y, Ul, Ca(2)>>, <<Lk>>, <<Lk>> >>, main |-> m3],
     [scripts |-> << <<Lk, Y, Ul, Ca(2)>>, <<Lk, Ul>>, <<Lk, Ul>> >>, main |-> m3],
     [scripts |-> << <<Lk, Y, Ul, Ca(2), Lk>>, <<Lk>>, <<Y, Lk>> >>, main |-> m3],
     \* the holder re-locks before the woken waiter runs (the waiter must be woken again by the second unlock)
     [scripts |-> << <<Lk, Y, Ul, Lk, Y, Ul>>, <<Lk>>, <<>> >>, main |-> m3],
     [scripts |-> << <<Lk, Y, Ul, Lk, Y, Ul>>, <<Lk, Ul>>, <<Lk, Ul>> >>, main |-> m3],
     \* a routine that runs between the unlock and the woken waiter takes the mutex
     [scripts |-> << <<Lk, Y, Ul>>, <<Lk, Ul>>, <<Y, Lk, Y, Ul>> >>, main |-> m3] >>

(* ---- configurations ---------------------------------------------------------------------------------------------- *)
ProgQuick(u) ==
     Fam(AlphaChan,  <<1, 2, 2>>, 3, NoMain)                  \* all scripts over yield / send / receive
  \o Fam(AlphaSem,   <<1, 2, 2>>, 3, NoMain)
  \o Fam(AlphaBcast, <<2, 1, 1>>, 3, NoMain)
  \o Fam(AlphaCond,  <<2, 2, 0>>, 2, NoMain)
  \o Fam(AlphaChan,  <<1, 1, 1>>, 3, MainsUpTo(MainFirst, 2))  \* x every main script of <= 2 steps
  \o Fam(AlphaSem,   <<1, 1, 1>>, 3, MainsUpTo(MainFirst, 2))
  \o Fam(AlphaMutex, <<3, 1, 1>>, 3, MainsLate)
  \o Fam(AlphaLife,  <<2, 1, 0>>, 1, MainsLife)
  \* a waiter that is woken and cancelled before it runs (the cancel comes from the routine that made the resource available)
  \o Fam(AlphaChan \cup {Ca(1)}, <<1, 1, 2>>, 3, NoMain)
  \o Fam(AlphaSem \cup {Ca(1)},  <<1, 1, 2>>, 3, NoMain)
  \o ProgRaces
  \* join: the target finishes by itself / is cancelled / is cleaned up while somebody joins it
  \o Fam({Y, W, Op("Join", 2, 0)}, <<1, 1, 0>>, 2, {<<>>, <<P, Ca(2)>>, <<P, Ca(1)>>, <<P, Re(2)>>, <<P, Cl>>})

(* ---- four routines (MaxR = 4): stale registrations in the waiter queues ----------------------------------------- *)
\* family given by one SET of scripts per routine; the main context creates routines 1..initn
FamS(S1, S2, S3, S4, initn, mains) ==
  LET creates == [r \in 1..initn |-> Op("Create", r, 1)] IN
  SetToSeq({[scripts |-> <<a, b, c, d>>, main |-> WithTail(creates \o m)] : a \in S1, b \in S2, c \in S3, d \in S4, m \in mains})
Rep(o, n) == [i \in 1..n |-> o]
\* routine 4 of "three waiters + one poster": cancels up to two of the waiters (every placement: oldest, middle, newest),
\* optionally yields (so that the cancelled waiters leave first), then makes the resource available 0..3 times
CancelThenPost(post) == {c \o y \o Rep(post, n) : c \in SeqsUpTo({Ca(1), Ca(2), Ca(3)}, 2), y \in {<<>>, <<Y>>}, n \in 0..3}
\* routine 4 of the foreign-resume programs (created by the main context after it resumed / cancelled a waiter):
\* posts, lets the waiters run (a waiter with a second wait registers again), posts again
PostYieldPost(post) == {Rep(post, a) \o y \o Rep(post, b) : a \in 0..3, y \in {<<>>, <<Y>>}, b \in 0..2}
\* the main context lets the three waiters block, resumes / cancels one of them (oldest, middle, newest), lets it run, creates 4
MainsForeign == {<<P, o, P, Op("Create", 4, 1)>> : o \in {Re(1), Re(2), Re(3), Ca(1), Ca(2), Ca(3)}}
Once(o) == {<<o>>}
OnceOrTwice(o) == {<<o>>, <<o, o>>}
\* the holder (routine 1) cancels up to two of the three lockers while it holds the mutex, lets them leave, unlocks
HolderCancels == {<<Lk, Y>> \o c \o <<Y, Ul>> : c \in SeqsUpTo({Ca(2), Ca(3), Ca(4)}, 2)}
ProgStale(u) ==
     FamS(Once(Op("Acq", 1, 0)), Once(Op("Acq", 1, 0)), Once(Op("Acq", 1, 0)), CancelThenPost(Op("Rel", 1, 0)), 4, NoMain)
  \o FamS(Once(Op("Recv", 1, 0)), Once(Op("Recv", 1, 0)), Once(Op("Recv", 1, 0)), CancelThenPost(Op("Send", 1, 0)), 4, NoMain)
  \o FamS(HolderCancels, {<<Lk, Ul>>, <<Lk>>}, {<<Lk, Ul>>, <<Lk>>}, {<<Lk, Ul>>, <<Lk>>}, 4, NoMain)
  \o FamS(OnceOrTwice(Op("Acq", 1, 0)), OnceOrTwice(Op("Acq", 1, 0)), OnceOrTwice(Op("Acq", 1, 0)), PostYieldPost(Op("Rel", 1, 0)), 3, MainsForeign)
  \o FamS(OnceOrTwice(Op("Recv", 1, 0)), OnceOrTwice(Op("Recv", 1, 0)), OnceOrTwice(Op("Recv", 1, 0)), PostYieldPost(Op("Send", 1, 0)), 3, MainsForeign)

\* second quick configuration: semaphores that start at 1, conditions with "any" logic
ProgQuick2(u) == Fam(AlphaCond, <<2, 2, 0>>, 2, NoMain) \o Fam(AlphaSem, <<1, 1, 2>>, 3, NoMain)

ProgT1(u) == Fam(AlphaChan, <<3, 3, 2>>, 3, NoMain)
ProgT2(u) == Fam(AlphaMutex, <<3, 3, 2>>, 3, NoMain) \o Fam(AlphaMutex, <<6, 2, 0>>, 2, NoMain)
ProgT3(u) == Fam(AlphaSem, <<3, 3, 2>>, 3, NoMain)
ProgT4(u) == Fam(AlphaChan, <<2, 2, 2>>, 3, MainsUpTo(MainFirst, 2)) \o Fam(AlphaSem, <<2, 2, 2>>, 3, MainsUpTo(MainFirst, 2))
           \o Fam(AlphaChan \cup {Ca(1), Ca(2)}, <<2, 2, 2>>, 3, NoMain) \o Fam(AlphaSem \cup {Ca(1), Ca(2)}, <<2, 2, 2>>, 3, NoMain)
ProgT5(u) == Fam(AlphaMutex, <<3, 2, 1>>, 3, MainsUpTo(MainSecond, 2) \cup MainsLate) \o Fam(AlphaMutex \cup {Ca(2)}, <<4, 1, 1>>, 3, NoMain)
ProgT6(u) == Fam(AlphaBcast, <<2, 2, 2>>, 3, MainsUpTo(MainFirst, 2)) \o Fam(AlphaCond, <<3, 2, 0>>, 2, MainsUpTo(MainFirst, 1))
ProgT7(u) == Fam(AlphaJoin, <<2, 2, 1>>, 2, MainsUpTo(MainFirst, 1)) \o Fam(AlphaLife, <<2, 2, 0>>, 1, MainsUpTo(MainFirst, 2))
ProgT8(u) == Fam(AlphaMixed, <<2, 2, 0>>, 2, MainsUpTo(MainFirst, 1))
\* semaphores that start at 1, conditions with "any" logic
ProgT9(u) == Fam(AlphaSem, <<2, 2, 2>>, 3, MainsUpTo(MainFirst, 1)) \o Fam(AlphaCond, <<3, 2, 0>>, 2, MainsUpTo(MainFirst, 1))

\* as-found wake-up discipline: "two waiters + two back-to-back sends / releases", "a holder that re-locks before the
\* woken waiter runs" (the waiter is woken by the first unlock, finds the mutex held again, waits without being
\* registered and is not woken by the second unlock)
ProgRelock(u) == Fam({Lk}, <<0, 1, 0>>, 0, NoMain) \o
              << [scripts |-> << <<Lk, Y, Ul, Lk, Y, Ul>>, <<Lk>>, <<>> >>, main |-> WithTail(<<Op("Create", 1, 1), Op("Create", 2, 1)>>)] >>
ProgAsFoundChan(u) == Fam(AlphaChan, <<1, 1, 2>>, 3, NoMain)
ProgAsFoundSem(u) == Fam(AlphaSem, <<1, 1, 2>>, 3, NoMain)
ProgAsFoundWake(u) == ProgRelock(u) \o ProgAsFoundSem(u)
\* as-found cleanup(): a routine created while cleanup() runs is started un-cancelled; cleanup() spins when it blocks
ProgAsFoundCleanup(u) == Fam(AlphaSpin, <<2, 1, 0>>, 1, NoMain)

\* TLC evaluates every constant-level definition without parameters at start-up; the program sequences therefore take a
\* dummy parameter and the configuration selects ONE of them by name (Programs <- ProgSel)
CONSTANT Which
ProgSel == CASE Which = "ProgQuick" -> ProgQuick(0) [] Which = "ProgQuick2" -> ProgQuick2(0) [] Which = "ProgStale" -> ProgStale(0)
             [] Which = "ProgT1" -> ProgT1(0) [] Which = "ProgT2" -> ProgT2(0) [] Which = "ProgT3" -> ProgT3(0)
             [] Which = "ProgT4" -> ProgT4(0) [] Which = "ProgT5" -> ProgT5(0) [] Which = "ProgT6" -> ProgT6(0)
             [] Which = "ProgT7" -> ProgT7(0) [] Which = "ProgT8" -> ProgT8(0) [] Which = "ProgT9" -> ProgT9(0)
             [] Which = "ProgRelock" -> ProgRelock(0) [] Which = "ProgAsFoundChan" -> ProgAsFoundChan(0)
             [] Which = "ProgAsFoundSem" -> ProgAsFoundSem(0) [] Which = "ProgAsFoundWake" -> ProgAsFoundWake(0)
             [] Which = "ProgAsFoundCleanup" -> ProgAsFoundCleanup(0)

Zeros == [i \in PP |-> 0]
Ones == [i \in PP |-> 1]

\* CONSTRAINT of every configuration: prints the program of every initial state (the driver executes exactly these)
EmitProg == IF mpc = 1 /\ mode = "main"
            THEN PrintT("BEH " \o ToJson([scripts |-> scripts, main |-> mscript, seminit |-> SemInit, clogic |-> CondLogic]))
            ELSE TRUE
=============================================================================
