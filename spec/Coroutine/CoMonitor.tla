----------------------------- MODULE CoMonitor -----------------------------
(* C18 - what the statement demands of ANY coroutine scheduler + primitives, *)
(* phrased over the observable events of a program run (one event per step   *)
(* of a routine script or of the main context).  Scheduling order, pass       *)
(* structure and the wake-up discipline inside the primitives are left open:  *)
(* the events say which routine ran and what every call returned; this module *)
(* keeps the abstract state of every primitive (channel contents, mutex       *)
(* holder, semaphore count, who is owed a wake-up) and the invariants say     *)
(* which return values / idle states are admissible.  Checks never disable an *)
(* action: a failed check is recorded in `viol` and reported by an invariant. *)
(* Used by Trace_Coroutine (real runs) and Gen_Coroutine (model runs).        *)
EXTENDS Naturals, Integers, Sequences, FiniteSets

CONSTANTS MaxR,      \* routine ids 1..MaxR
          NP         \* primitives of each kind 1..NP
RR == 1..MaxR
PP == 1..NP
NoCall == [op |-> "-", x |-> 0]
Blocking == {"Recv", "Lock", "Acq", "BWait", "CWait", "Join", "Yield"}   \* "Wait" is the odd one: only resume()/cancel() end it

VARIABLES
  rs,        \* [RR -> {"none","created","started","ended","gone"}]   gone = deleted unstarted by cleanup
  pend,      \* [RR -> pending blocking call [op,x] or NoCall]
  canceled,  \* [RR -> BOOLEAN]
  taint,     \* [RR -> BOOLEAN] the main context resumed r while it was inside a blocking call other than Wait
             \*                 (spurious resume: Join/BWait/CWait document no re-check, so their results are not judged)
  chq,       \* [PP -> Seq(Int)] values sent and not yet received
  holder,    \* [PP -> 0..MaxR]
  cnt,       \* [PP -> Int]      initial + releases - acquisitions
  cset,      \* [PP -> SUBSET Int] conditions added and not yet posted
  cwaiter,   \* [PP -> 0..MaxR]  accepted waiter of the condition
  cacc,      \* [RR -> BOOLEAN]  r's pending CWait was accepted (one waiter, non-empty condition set)
  clogic,    \* [PP -> {0,1}]    0 = all, 1 = any
  owed,      \* SUBSET RR  routines waiting on a broadcast / condition / join when it was posted / satisfied / finished
  kicked,    \* SUBSET RR  routines made ready by create(run_now) / resume / cancel that have not run since
  phase,     \* "run" | "cleanup" | "cleaned"
  idle,      \* TRUE exactly in the state reached by an idle observation
  obs,       \* the idle observation [che, semp]
  viol       \* set of names of checks that failed in some step

mvars == <<rs, pend, canceled, taint, chq, holder, cnt, cset, cwaiter, cacc, clogic, owed, kicked, phase, idle, obs, viol>>

NoObs == [che |-> <<>>, semp |-> <<>>]

MInit(seminit, logic) ==
  /\ rs = [r \in RR |-> "none"] /\ pend = [r \in RR |-> NoCall] /\ canceled = [r \in RR |-> FALSE]
  /\ taint = [r \in RR |-> FALSE] /\ chq = [c \in PP |-> <<>>] /\ holder = [m \in PP |-> 0]
  /\ cnt = [s \in PP |-> seminit[s]] /\ cset = [c \in PP |-> {}] /\ cwaiter = [c \in PP |-> 0]
  /\ cacc = [r \in RR |-> FALSE] /\ clogic = [c \in PP |-> logic[c]] /\ owed = {} /\ kicked = {}
  /\ phase = "run" /\ idle = FALSE /\ obs = NoObs /\ viol = {}

MReset(seminit, logic) ==
  /\ rs' = [r \in RR |-> "none"] /\ pend' = [r \in RR |-> NoCall] /\ canceled' = [r \in RR |-> FALSE]
  /\ taint' = [r \in RR |-> FALSE] /\ chq' = [c \in PP |-> <<>>] /\ holder' = [m \in PP |-> 0]
  /\ cnt' = [s \in PP |-> seminit[s]] /\ cset' = [c \in PP |-> {}] /\ cwaiter' = [c \in PP |-> 0]
  /\ cacc' = [r \in RR |-> FALSE] /\ clogic' = [c \in PP |-> logic[c]] /\ owed' = {} /\ kicked' = {}
  /\ phase' = "run" /\ idle' = FALSE /\ obs' = NoObs /\ viol' = {}

Alive(r) == r \in RR /\ rs[r] \in {"created", "started"}
Chk(ok, name) == IF ok THEN {} ELSE {name}

(* ---- creation, resume, cancel (main context or a routine) ------------------------------------------------ *)
DoCreate(x, now, ret) ==
  /\ IF ret /\ x \in RR THEN rs' = [rs EXCEPT ![x] = "created"] /\ kicked' = IF now THEN kicked \cup {x} ELSE kicked
     ELSE UNCHANGED <<rs, kicked>>
  /\ UNCHANGED <<canceled, taint>>

DoCancel(x, ret) ==
  /\ canceled' = IF Alive(x) THEN [canceled EXCEPT ![x] = TRUE] ELSE canceled
  /\ kicked' = IF ret /\ Alive(x) THEN kicked \cup {x} ELSE kicked
  /\ UNCHANGED <<rs, taint>>

\* a resumed routine must run again only if it is unstarted or inside wait(); inside another blocking call it may
\* silently re-check its condition and wait again
DoResume(x, ret) ==
  /\ kicked' = IF ret /\ Alive(x) /\ (rs[x] = "created" \/ pend[x].op = "Wait") THEN kicked \cup {x} ELSE kicked
  /\ taint' = IF ret /\ Alive(x) /\ pend[x].op \in (Blocking \ {"Yield"}) THEN [taint EXCEPT ![x] = TRUE] ELSE taint
  /\ UNCHANGED <<rs, canceled>>

MainOp(op, x, y, ret) ==
  /\ phase = "run"
  /\ CASE op = "Create" -> DoCreate(x, y # 0, ret)
       [] op = "Resume" -> DoResume(x, ret)
       [] op = "Cancel" -> DoCancel(x, ret)
  /\ idle' = FALSE
  /\ UNCHANGED <<pend, chq, holder, cnt, cset, cwaiter, cacc, clogic, owed, phase, obs, viol>>

(* cleanup(): unstarted routines are deleted, started ones are told to stop; when it returns every started routine  *)
(* must have terminated (routines created while it ran may have been deleted unstarted or run to their end).        *)
CleanupCall ==
  /\ phase = "run"
  /\ phase' = "cleanup"
  /\ rs' = [r \in RR |-> IF rs[r] = "created" THEN "gone" ELSE rs[r]]
  /\ canceled' = [r \in RR |-> IF rs[r] = "started" THEN TRUE ELSE canceled[r]]
  /\ kicked' = {r \in kicked : rs[r] = "started"}
  /\ idle' = FALSE
  /\ UNCHANGED <<pend, taint, chq, holder, cnt, cset, cwaiter, cacc, clogic, owed, obs, viol>>

CleanupRet ==
  /\ phase = "cleanup"
  /\ phase' = "cleaned"
  /\ viol' = viol \cup Chk(\A r \in RR : rs[r] # "started", "CancelTerminates")
  /\ rs' = [r \in RR |-> IF rs[r] = "created" THEN "gone" ELSE rs[r]]
  /\ kicked' = {}
  /\ idle' = FALSE
  /\ UNCHANGED <<pend, canceled, taint, chq, holder, cnt, cset, cwaiter, cacc, clogic, owed, obs>>

(* ---- routine events ----------------------------------------------------------------------------------------- *)
\* a routine created during cleanup() may legitimately be started by it (and is then subject to the cancellation)
Start(r) ==
  /\ r \in RR /\ rs[r] = "created" /\ phase # "cleaned"
  /\ rs' = [rs EXCEPT ![r] = "started"]
  /\ canceled' = IF phase = "cleanup" THEN [canceled EXCEPT ![r] = TRUE] ELSE canceled
  /\ kicked' = kicked \ {r}
  /\ idle' = FALSE
  /\ UNCHANGED <<pend, taint, chq, holder, cnt, cset, cwaiter, cacc, clogic, owed, phase, obs, viol>>

End(r) ==
  /\ r \in RR /\ rs[r] = "started" /\ pend[r] = NoCall /\ phase # "cleaned"
  /\ rs' = [rs EXCEPT ![r] = "ended"]
  /\ owed' = (owed \ {r}) \cup {w \in RR : w # r /\ pend[w] = [op |-> "Join", x |-> r]}
  /\ kicked' = kicked \ {r}
  /\ idle' = FALSE
  /\ UNCHANGED <<pend, canceled, taint, chq, holder, cnt, cset, cwaiter, cacc, clogic, phase, obs, viol>>

Call(r, op, x) ==
  /\ r \in RR /\ rs[r] = "started" /\ pend[r] = NoCall /\ phase # "cleaned"
  /\ op \in Blocking \cup {"Wait"}
  /\ pend' = [pend EXCEPT ![r] = [op |-> op, x |-> x]]
  /\ LET acc == op = "CWait" /\ cwaiter[x] = 0 /\ cset[x] # {} IN
       /\ cacc' = [cacc EXCEPT ![r] = acc]
       /\ cwaiter' = IF acc THEN [cwaiter EXCEPT ![x] = r] ELSE cwaiter
  /\ kicked' = kicked \ {r}
  /\ idle' = FALSE
  /\ UNCHANGED <<rs, canceled, taint, chq, holder, cnt, cset, clogic, owed, phase, obs, viol>>

\* the checks on a returning blocking call; failure (ok = FALSE) of Recv/Lock/Acq/BWait is admissible only for a
\* cancelled routine, success of a blocking wait only for a routine that is not cancelled.
Ret(r, op, x, ok, v) ==
  /\ r \in RR /\ rs[r] = "started" /\ pend[r] = [op |-> op, x |-> x] /\ phase # "cleaned"
  /\ pend' = [pend EXCEPT ![r] = NoCall]
  /\ owed' = owed \ {r}
  /\ kicked' = kicked \ {r}
  /\ idle' = FALSE
  /\ cacc' = [cacc EXCEPT ![r] = FALSE]
  /\ CASE op = "Recv" ->
            /\ viol' = viol \cup Chk(ok => (chq[x] # <<>> /\ v = Head(chq[x])), "ChannelFifoOnce")
                            \cup Chk(~ok => canceled[r], "FailureOnlyWhenCancelled")
            /\ chq' = IF ok /\ chq[x] # <<>> THEN [chq EXCEPT ![x] = Tail(@)] ELSE chq
            /\ UNCHANGED <<holder, cnt, cset, cwaiter>>
       [] op = "Lock" ->
            /\ viol' = viol \cup Chk(ok => holder[x] \in {0, r}, "MutexExclusive")
                            \cup Chk(~ok => canceled[r], "FailureOnlyWhenCancelled")
            /\ holder' = IF ok THEN [holder EXCEPT ![x] = r] ELSE holder
            /\ UNCHANGED <<chq, cnt, cset, cwaiter>>
       [] op = "Acq" ->
            /\ viol' = viol \cup Chk(ok => cnt[x] > 0, "SemaphoreBound")
                            \cup Chk(~ok => canceled[r], "FailureOnlyWhenCancelled")
            /\ cnt' = IF ok THEN [cnt EXCEPT ![x] = @ - 1] ELSE cnt
            /\ UNCHANGED <<chq, holder, cset, cwaiter>>
       [] op = "BWait" ->
            /\ viol' = viol \cup Chk(ok => ~canceled[r], "CancelFails")
                            \cup Chk(~ok => canceled[r], "FailureOnlyWhenCancelled")
            /\ UNCHANGED <<chq, holder, cnt, cset, cwaiter>>
       [] op = "CWait" ->
            /\ viol' = viol \cup Chk(ok => ~canceled[r], "CancelFails")
            /\ cset' = IF cacc[r] THEN [cset EXCEPT ![x] = {}] ELSE cset
            /\ cwaiter' = IF cwaiter[x] = r THEN [cwaiter EXCEPT ![x] = 0] ELSE cwaiter
            /\ UNCHANGED <<chq, holder, cnt>>
       [] op = "Join" ->
            /\ viol' = viol \cup Chk(ok => ((x \in RR /\ rs[x] = "ended") \/ taint[r]), "JoinReturns")
            /\ UNCHANGED <<chq, holder, cnt, cset, cwaiter>>
       [] op \in {"Yield", "Wait"} ->
            /\ UNCHANGED <<viol, chq, holder, cnt, cset, cwaiter>>
  /\ UNCHANGED <<rs, canceled, taint, clogic, phase, obs>>

\* instantaneous operations
Inst(r, op, x, ok, v) ==
  /\ r \in RR /\ rs[r] = "started" /\ pend[r] = NoCall /\ phase # "cleaned"
  /\ idle' = FALSE
  /\ CASE op = "Send" ->
            /\ chq' = [chq EXCEPT ![x] = Append(@, v)]
            /\ UNCHANGED <<rs, canceled, taint, holder, cnt, cset, cwaiter, owed, kicked>>
       [] op = "Unlock" ->
            /\ holder' = IF holder[x] = r THEN [holder EXCEPT ![x] = 0] ELSE holder
            /\ UNCHANGED <<rs, canceled, taint, chq, cnt, cset, cwaiter, owed, kicked>>
       [] op = "Rel" ->
            /\ cnt' = [cnt EXCEPT ![x] = @ + 1]
            /\ UNCHANGED <<rs, canceled, taint, chq, holder, cset, cwaiter, owed, kicked>>
       [] op = "BPost" ->
            /\ owed' = owed \cup {w \in RR : pend[w] = [op |-> "BWait", x |-> x]}
            /\ UNCHANGED <<rs, canceled, taint, chq, holder, cnt, cset, cwaiter, kicked>>
       [] op = "CAdd" ->
            /\ cset' = [cset EXCEPT ![x] = @ \cup {v}]
            /\ UNCHANGED <<rs, canceled, taint, chq, holder, cnt, cwaiter, owed, kicked>>
       [] op = "CPost" ->
            LET hit == v \in cset[x]
                rest == IF clogic[x] = 1 THEN {} ELSE cset[x] \ {v}
                sat == hit /\ rest = {} IN
            /\ cset' = IF hit THEN [cset EXCEPT ![x] = rest] ELSE cset
            /\ owed' = IF sat /\ cwaiter[x] # 0 THEN owed \cup {cwaiter[x]} ELSE owed
            /\ cwaiter' = IF sat THEN [cwaiter EXCEPT ![x] = 0] ELSE cwaiter
            /\ UNCHANGED <<rs, canceled, taint, chq, holder, cnt, kicked>>
       [] op = "Create" ->
            /\ DoCreate(x, TRUE, ok)
            /\ UNCHANGED <<chq, holder, cnt, cset, cwaiter, owed>>
       [] op = "Cancel" ->
            /\ DoCancel(x, ok)
            /\ UNCHANGED <<chq, holder, cnt, cset, cwaiter, owed>>
  /\ UNCHANGED <<pend, cacc, clogic, phase, obs, viol>>

(* ---- idle observation: the loop has nothing left to run ------------------------------------------------------- *)
Idle(che, semp) ==
  /\ idle' = TRUE
  /\ obs' = [che |-> che, semp |-> semp]
  /\ UNCHANGED <<rs, pend, canceled, taint, chq, holder, cnt, cset, cwaiter, cacc, clogic, owed, kicked, phase, viol>>

(* ---- the statement --------------------------------------------------------------------------------------------- *)
ChannelFifoOnce == "ChannelFifoOnce" \notin viol          \* every receive returned the oldest value not yet received
MutexExclusive  == "MutexExclusive" \notin viol           \* a lock succeeded only on a free (or own) mutex
SemaphoreBound  == "SemaphoreBound" \notin viol /\ \A s \in PP : cnt[s] >= 0
FailureOnlyWhenCancelled == "FailureOnlyWhenCancelled" \notin viol
CancelFails     == "CancelFails" \notin viol               \* a cancelled routine's blocking wait does not report success
JoinReturnsOk   == "JoinReturns" \notin viol               \* join reports success only after the target finished

Available(c) == CASE c.op = "Recv" -> chq[c.x] # <<>>
                  [] c.op = "Lock" -> holder[c.x] = 0
                  [] c.op = "Acq"  -> cnt[c.x] > 0
                  [] c.op = "Yield" -> TRUE
                  [] OTHER -> FALSE
Lost == {r \in RR : rs[r] = "started" /\ pend[r] # NoCall /\ Available(pend[r])}
\* whenever the scheduler has run out of ready routines ...
NoLostWakeup == idle => (Lost = {} /\ owed = {})
ReadyRan     == idle => kicked = {}
CancelTerminates == "CancelTerminates" \notin viol /\ (idle => \A r \in RR : ~(canceled[r] /\ rs[r] = "started"))
IdleObservation == idle => /\ \A c \in PP : obs.che[c] = (chq[c] = <<>>)
                           /\ \A s \in PP : obs.semp[s] = (cnt[s] > 0)

MTypeOK == /\ rs \in [RR -> {"none", "created", "started", "ended", "gone"}]
           /\ holder \in [PP -> 0..MaxR] /\ owed \subseteq RR /\ kicked \subseteq RR
=============================================================================
