CONSTANTS
  Servers = {1, 2}
  MaxReq = 3
  MinTicks = 5
  MaxTicks = 5
  Payloads = {}
  Variant = "intended"
  Depth = 14
SPECIFICATION GSpec
CONSTRAINT Emit
CHECK_DEADLOCK FALSE
