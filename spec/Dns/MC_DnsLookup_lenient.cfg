CONSTANTS
  Servers = {1, 2}
  MaxReq = 2
  MinTicks = 1
  MaxTicks = 3
  Payloads = {1}
  Variant = "intended"
SPECIFICATION Spec
INVARIANTS TypeOK CallbackAtMostOnce CancelledNeverCalled ExactlyOneFate FirstAcceptableReplyWins AllFailOnlyAfterAll AllFailedCompletes TimeoutOtherwise

CHECK_DEADLOCK FALSE
