CONSTANTS
  Servers = {1, 2}
  MaxReq = 2
  MinTicks = 3
  MaxTicks = 3
  Payloads = {1, 2}
  Variant = "cancelnoop"
SPECIFICATION Spec
INVARIANTS CancelledNeverCalled
CHECK_DEADLOCK FALSE
