CONSTANTS
  Servers = {1, 2}
  MaxReq = 2
  MinTicks = 3
  MaxTicks = 3
  Payloads = {1, 2}
  Variant = "noerase"
SPECIFICATION Spec
INVARIANTS CallbackAtMostOnce
CHECK_DEADLOCK FALSE
