---------------------------- MODULE Gen_DnsReply ----------------------------
(* Emits every datagram of DnsGen!All(MaxRecs) (plus the extra 3-record lists of Deep) as JSON, with the class and   *)
(* expected result computed by the reference Classify - the python check uses the class to pick datagrams for the     *)
(* lookup scripts; the oracle itself is re-evaluated by TLC on the bytes actually sent (Trace_Dns).                    *)
EXTENDS DnsGen, Json, TLC
CONSTANTS MaxRecs, Deep
VARIABLE g
DeepQuick == {<<"A1","CC","A2">>, <<"CL","CC","CC">>, <<"CP","TX","A1">>, <<"CC","CL">>, <<"TX","A2">>}
DeepNone == {}
Pool == All(MaxRecs) \cup UNION {Family(ks) : ks \in Deep}
GInit == g \in Pool
GNext == UNCHANGED g
GSpec == GInit /\ [][GNext]_g
Emit == PrintT("BEH " \o ToJson([tag |-> g.tag, d |-> g.d, cls |-> ClassifyT(g.d, QLabels).cls])) /\ FALSE
=============================================================================
