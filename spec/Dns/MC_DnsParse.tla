----------------------------- MODULE MC_DnsParse -----------------------------
EXTENDS DnsParse
Deep3 == {<<"A1","CC","A2">>, <<"CL","CC","CC">>, <<"CP","TX","A1">>}
DgQuick == {g.d : g \in All(1) \cup UNION {Family(ks) : ks \in {<<"CC","CL">>, <<"TX","A2">>} \cup Deep3}}
DgThorough == {g.d : g \in All(3)}
\* as found, the 65535-record datagrams just take 65535 (terminating) iterations: left out of the as-found runs
DgCov == {g.d : g \in {T("good", Good(<<"A1","CC","TX">>))} \cup Truncs(Good(<<"A1","CC","TX">>)) \cup PtrMuts(Good(<<"CC">>))}
DgLarge == {g.d : g \in Larges}
DgLong == {g.d : g \in LongLabels}
DgCycles == {g.d : g \in LabelCycles}
DgAsFound == {x \in {g.d : g \in Family(<<"A1","CC">>)} : Len(x) < 8 \/ x[7] # 255}
=============================================================================
