CONSTANTS
  Fixed = TRUE
  MaxJumps = 16
  ResetOnLabel = FALSE
  Dgrams <- DgQuick
SPECIFICATION PSpec
INVARIANTS BoundedDepth NoUninit Safe Conforms Terminates
CHECK_DEADLOCK FALSE
