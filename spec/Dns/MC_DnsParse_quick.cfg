CONSTANTS
  Fixed = TRUE
  MaxJumps = 16
  LabelBuf = 0
  PtrMask = 16384
  ResetOnLabel = FALSE
  Dgrams <- DgQuick
SPECIFICATION PSpec
INVARIANTS BoundedDepth NoUninit Safe Conforms Terminates
CHECK_DEADLOCK FALSE
