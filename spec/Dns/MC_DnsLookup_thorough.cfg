CONSTANTS
  Servers = {1, 2}
  MaxReq = 3
  MinTicks = 2
  MaxTicks = 2
  Payloads = {1}
  Variant = "intended"
SPECIFICATION Spec
INVARIANTS TypeOK CallbackAtMostOnce CancelledNeverCalled ExactlyOneFate FirstAcceptableReplyWins AllFailOnlyAfterAll AllFailedCompletes TimeoutOtherwise

CHECK_DEADLOCK FALSE
