----------------------------- MODULE Trace_Dns -----------------------------
(* Trace validation for C15.  Every line of the recorded ndjson trace must be the corresponding action of DnsLookup,    *)
(* with the datagram of every Reply event classified by the byte-level reference DnsReply!Classify on the bytes that     *)
(* were really sent, the callbacks that really fired equal to the callbacks the action fires (exact result for           *)
(* well-formed replies), every reported address / name encoded in that datagram (OnlyEncoded), cancel()'s return value   *)
(* and isRunning() of every lookup as in the specification.  A "Fault" line (crash, stack overflow, sanitizer report,    *)
(* hang) is matched by no action.                                                                                        *)
EXTENDS DnsLookup, DnsReply, Json, IOUtils
Log == ndJsonDeserialize(IOEnv.TRACE)
VARIABLES l,       \* next line of the log
          idOf,    \* k -> id returned by request()
          qn       \* k -> labels of the name asked for
WholeLimit == 4096     \* UdpSocket's receive buffer: datagrams up to this size must be processed whole
ASSUME TLCSet(42, 0)
tvars == <<vars, l, idOf, qn>>

Ev == Log[l]
IsEv(e) == l <= Len(Log) /\ Log[l].e = e /\ l' = l + 1
ToSet(s) == {s[i] : i \in 1..Len(s)}

\* the pending lookup a datagram / a cancel() with this id refers to (0: none - it matches no outstanding lookup)
KOf(id) == IF \E k \in Pending : idOf[k] = id THEN CHOOSE k \in Pending : idOf[k] = id ELSE 0

Exact(r) == [any |-> FALSE, a |-> r.a, cn |-> r.cn]
ResEq(c, r) ==
  /\ c.na = Len(r.a) /\ Len(c.a) = c.na /\ Len(c.at) = c.na
  /\ c.nc = Len(r.cn) /\ Len(c.cn) = c.nc /\ Len(c.ct) = c.nc
  /\ \A i \in 1..Len(r.a) : c.a[i] = r.a[i].ip /\ c.at[i] = r.a[i].ttl
  /\ \A i \in 1..Len(r.cn) : c.cn[i] = JoinDots(r.cn[i].labels) /\ c.ct[i] = r.cn[i].ttl
\* the callbacks that fired during the step are exactly the callbacks of the action (any order)
Match(O, cbs) ==
  /\ Len(cbs) = Cardinality(O)
  /\ \A i \in 1..Len(cbs) : \A j \in 1..Len(cbs) : i # j => cbs[i].k # cbs[j].k
  /\ \A i \in 1..Len(cbs) : \E o \in O : o.k = cbs[i].k /\ o.st = cbs[i].st /\ (o.res.any \/ ResEq(cbs[i], o.res))
\* (P = TRUE makes TLC evaluate P as a value instead of enumerating the witnesses of its quantifiers as successor states)
Post == /\ Match(out', Ev.cbs) = TRUE
        /\ (Ev.chk => ToSet(Ev.run) = {idOf'[k] : k \in DOMAIN reqs'}) = TRUE
NothingReported == TRUE = \A i \in 1..Len(Ev.cbs) : Ev.cbs[i].na = 0 /\ Ev.cbs[i].nc = 0
Encoded(d) == TRUE = \A i \in 1..Len(Ev.cbs) : LET c == Ev.cbs[i] IN
                 /\ OnlyEncoded(d, c.a, c.cn)
                 /\ c.na + c.nc <= MaxReportable(d)

TInit == Init /\ l = 1 /\ idOf = <<>> /\ qn = <<>>
TReset == /\ IsEv("Reset") /\ srv' = Servers /\ reqs' = <<>> /\ age' = <<>> /\ nreq' = 0 /\ cbn' = <<>> /\ first' = <<>>
          /\ canc' = {} /\ win' = <<>> /\ out' = {} /\ idOf' = <<>> /\ qn' = <<>>
TNew == IsEv("New") /\ srv' = 1..Ev.n /\ UNCHANGED <<reqs, age, nreq, cbn, first, canc, win, out, idOf, qn>>
TRequest == /\ IsEv("Request") /\ Ev.k = nreq + 1
            /\ \A k \in Pending : idOf[k] # Ev.id               \* the id names exactly one outstanding lookup
            /\ Request
            /\ idOf' = Put(idOf, Ev.k, Ev.id) /\ qn' = Put(qn, Ev.k, Ev.name)
            /\ Post /\ NothingReported
TCancel == /\ IsEv("Cancel")
           /\ Cancel(KOf(Ev.id)) /\ Ev.ret = CancelRet(KOf(Ev.id))
           /\ UNCHANGED <<idOf, qn>> /\ Post /\ NothingReported
TReply == /\ IsEv("Reply")
          /\ LET d == Ev.d
                 k == IF Len(d) >= 2 THEN KOf(U16(d, 0)) ELSE 0
                 \* a datagram longer than WholeLimit may be cut by the receiver at any length >= WholeLimit: outcome open
                 \* (as for malformed ones), but whatever is reported must be encoded in the datagram as sent
                 c == IF Len(d) > WholeLimit THEN [cls |-> "malformed", id |-> 0, res |-> NoRes]
                      ELSE ClassifyT(d, IF k = 0 THEN <<>> ELSE qn[k])
             IN Reply(Ev.s, k, c.cls, Exact(c.res)) /\ Encoded(d)
          /\ UNCHANGED <<idOf, qn>> /\ Post
TTick == IsEv("Tick") /\ TickOf({Ev.cbs[i].k : i \in 1..Len(Ev.cbs)} \cap Pending) /\ UNCHANGED <<idOf, qn>> /\ Post /\ NothingReported
TSkip == IsEv("Skip") /\ UNCHANGED <<vars, idOf, qn>>
\* end of an execution (after the driver let up to 40 more ticks go by): no lookup is left pending
TEnd == IsEv("End") /\ Pending = {} /\ Len(Ev.run) = 0 /\ UNCHANGED <<vars, idOf, qn>>
TNext == TReset \/ TNew \/ TRequest \/ TCancel \/ TReply \/ TTick \/ TSkip \/ TEnd
TSpec == TInit /\ [][TNext]_tvars

Progress == TLCSet(42, IF l > TLCGet(42) THEN l ELSE TLCGet(42))
Accepted == IF TLCGet(42) = Len(Log) + 1 THEN TRUE ELSE PrintT(<<"MAXPOS", TLCGet(42), Len(Log)>>) /\ FALSE
=============================================================================
