CONSTANTS
  Servers = {1, 2}
  MaxReq = 2
  MinTicks = 5
  MaxTicks = 5
  Payloads = {1, 2}
  Variant = "intended"
SPECIFICATION Spec
INVARIANTS TypeOK CallbackAtMostOnce CancelledNeverCalled ExactlyOneFate FirstAcceptableReplyWins AllFailOnlyAfterAll AllFailedCompletes TimeoutOtherwise

CHECK_DEADLOCK FALSE
