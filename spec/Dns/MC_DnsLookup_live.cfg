CONSTANTS
  Servers = {1, 2}
  MaxReq = 2
  MinTicks = 2
  MaxTicks = 2
  Payloads = {1}
  Variant = "intended"
SPECIFICATION FairSpec
INVARIANTS TypeOK CallbackAtMostOnce CancelledNeverCalled ExactlyOneFate FirstAcceptableReplyWins AllFailOnlyAfterAll AllFailedCompletes TimeoutOtherwise
PROPERTY EventuallyResolved
CHECK_DEADLOCK FALSE
