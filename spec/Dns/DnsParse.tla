------------------------------ MODULE DnsParse ------------------------------
(* C15 - implementation-shaped model of DnsRequest::onUdpRecv()'s parser (dns_request.cpp): one action per group of    *)
(* fetches from the bounds-checked deserializer, FetchDomain() as an explicit stack of frames (one frame per           *)
(* recursive call, i.e. per compression pointer followed).                                                             *)
(*                                                                                                                     *)
(*   Fixed = TRUE   the intended design: a failed fetch (truncated datagram, pointer outside the packet) and a         *)
(*                  pointer chain longer than MaxJumps abandon the datagram (nothing is reported).                     *)
(*   Fixed = FALSE  as found: return values of the fetches are ignored (locals keep whatever they held: modelled       *)
(*                  as the marker -1 / the flag uninit), pointers are followed without any bound.                      *)
(*                  Expected to violate BoundedDepth and NoUninit (MC_DnsParse_asfound*.cfg).                          *)
(*   PtrMask = 1024 a 10-bit offset mask: pointers to offsets >= 1024 are followed to the wrong place.                  *)
(*                  Expected to violate Conforms on the LARGE replies (MC_DnsParse_mask10.cfg).                        *)
(*   LabelBuf = 64  labels copied into char[64] although length octets 64..191 are taken as lengths (the flag `uninit`  *)
(*                  stands for any memory-unsafe access). Expected to violate NoUninit (MC_DnsParse_labelbuf64.cfg).   *)
(*   ResetOnLabel   a limit that counts only consecutive pointers: a loop through an ordinary label is never cut.      *)
(*                  Expected to violate BoundedDepth (MC_DnsParse_resetonlabel.cfg).                                   *)
(*                                                                                                                     *)
(* Properties: BoundedDepth (recursion bounded), NoUninit, Safe (OnlyEncoded for whatever is reported), Conforms       *)
(* (well-formed replies give exactly the reference result DnsReply!Classify), Terminates (step bound).                 *)
EXTENDS DnsGen, TLC
CONSTANTS Fixed, MaxJumps, Dgrams,
          PtrMask,       \* pointer offsets are taken modulo this: 16384 (14 bits) intended; 1024 = a 10-bit mask typo
          LabelBuf,      \* 0: the label buffer is sized by the label (as in the code); n > 0: a fixed buffer of n bytes
          ResetOnLabel   \* defective limit: only CONSECUTIVE pointers are counted (an ordinary label resets the count)
VARIABLES d, pc, pos, stack, ret, qd, an, cur, out, err, uninit, steps
pvars == <<d, pc, pos, stack, ret, qd, an, cur, out, err, uninit, steps>>

U == 999   \* not a byte: the marker of a local that was never written
Frame(p) == [pos |-> p, labels |-> <<>>, chain |-> 0]   \* chain: consecutive pointers followed to get here
FrameC(p, c) == [pos |-> p, labels |-> <<>>, chain |-> c]
Top == stack[Len(stack)]
SetTop(f) == [stack EXCEPT ![Len(stack)] = f]
NoCur == [type |-> 0, len |-> 0, ttl |-> <<>>]

PInit == /\ d \in Dgrams /\ pc = "hdr" /\ pos = 0 /\ stack = <<>> /\ ret = "" /\ qd = 0 /\ an = 0
         /\ cur = NoCur /\ out = [a |-> <<>>, cn |-> <<>>] /\ err = FALSE /\ uninit = FALSE /\ steps = 0

Step == steps' = steps + 1
Stop(e, u) == /\ pc' = "done" /\ err' = e /\ uninit' = (uninit \/ u) /\ stack' = <<>>
              /\ UNCHANGED <<d, pos, ret, qd, an, cur, out>> /\ Step
\* a fetch failed: the intended design drops the datagram, the code as found goes on with an unset local
Fail == Stop(Fixed, ~Fixed)

\* id, flags, and for rcode 0 the four counts
Header ==
  /\ pc = "hdr"
  /\ IF ~Has(d, 0, 4) THEN Fail
     ELSE IF U16(d, 2) \div 32768 = 0 \/ U16(d, 2) % 16 # 0 THEN Stop(FALSE, FALSE)     \* not a reply / error status: no parsing
     ELSE IF ~Has(d, 4, 8) THEN Fail
     ELSE /\ qd' = U16(d, 4) /\ an' = U16(d, 6) /\ pos' = 12 /\ pc' = "sect"
          /\ UNCHANGED <<d, stack, ret, cur, out, err, uninit>> /\ Step

StartName(r) == stack' = <<Frame(pos)>> /\ ret' = r /\ pc' = "name"
Sect ==
  /\ pc = "sect"
  /\ IF qd > 0 THEN qd' = qd - 1 /\ StartName("q") /\ UNCHANGED an
     ELSE IF an > 0 THEN an' = an - 1 /\ StartName("owner") /\ UNCHANGED qd
     ELSE pc' = "done" /\ UNCHANGED <<stack, ret, qd, an>>
  /\ UNCHANGED <<d, pos, cur, out, err, uninit>> /\ Step

\* FetchDomain(): one iteration of its loop in the innermost frame
EndName ==   \* every frame returns: the name is the concatenation bottom-up; only the first frame is the caller's parser
  LET RECURSIVE Cat(_)
      Cat(i) == IF i > Len(stack) THEN <<>> ELSE stack[i].labels \o Cat(i + 1)
  IN Cat(1)
\* consecutive pointers when the pointer in frame f is followed: the chain continues only if f read no label of its own
NewChain(f) == IF f.labels = <<>> THEN f.chain + 1 ELSE 1
NameStep ==
  /\ pc = "name"
  /\ LET f == Top
         finish(p) == /\ stack' = SetTop([f EXCEPT !.pos = p]) /\ pc' = "nameend"
                      /\ UNCHANGED <<d, pos, ret, qd, an, cur, out, err, uninit>> /\ Step
     IN
     IF ~Has(d, f.pos, 1) THEN (IF Fixed THEN Fail ELSE finish(f.pos))                    \* len stays 0: the name ends here
     ELSE LET len == B(d, f.pos) IN
       IF len = 0 THEN finish(f.pos + 1)
       ELSE IF len >= 192 THEN
         IF Fixed /\ (~Has(d, f.pos, 2) \/ (IF ResetOnLabel THEN NewChain(f) > MaxJumps ELSE Len(stack) > MaxJumps)) THEN Fail
         ELSE LET low == IF Has(d, f.pos, 2) THEN B(d, f.pos + 1) ELSE 0
                  after == IF Has(d, f.pos, 2) THEN f.pos + 2 ELSE f.pos + 1
                  tgt == ((len - 192) * 256 + low) % PtrMask
              IN IF tgt >= Len(d) /\ Fixed THEN Fail
                 ELSE /\ stack' = Append(SetTop([f EXCEPT !.pos = after]), FrameC(IF tgt < Len(d) THEN tgt ELSE after, NewChain(f)))
                      /\ UNCHANGED <<d, pc, pos, ret, qd, an, cur, out, err, uninit>> /\ Step
       ELSE IF Has(d, f.pos + 1, len) /\ LabelBuf > 0 /\ len >= LabelBuf
            THEN Stop(FALSE, TRUE)               \* label + terminator written behind a fixed buffer: memory-unsafe access
       ELSE IF Has(d, f.pos + 1, len)
            THEN /\ stack' = SetTop([f EXCEPT !.pos = f.pos + 1 + len, !.labels = Append(f.labels, Bytes(d, f.pos + 1, len))])
                 /\ UNCHANGED <<d, pc, pos, ret, qd, an, cur, out, err, uninit>> /\ Step
            ELSE IF Fixed THEN Fail
                 ELSE /\ stack' = SetTop([f EXCEPT !.pos = f.pos + 1, !.labels = Append(f.labels, <<U>>)])       \* str[] never written
                      /\ UNCHANGED <<d, pc, pos, ret, qd, an, cur, out, err, uninit>> /\ Step

NameEnd ==
  /\ pc = "nameend"
  /\ LET name == EndName
         p == stack[1].pos
     IN /\ stack' = <<>> /\ pos' = p
        /\ CASE ret = "q" -> pc' = "qfix" /\ UNCHANGED out
             [] ret = "owner" -> pc' = "afix" /\ UNCHANGED out
             [] ret = "cname" -> pc' = "sect" /\ out' = [out EXCEPT !.cn = Append(@, [labels |-> name, ttl |-> cur.ttl])]
  /\ UNCHANGED <<d, ret, qd, an, cur, err, uninit>> /\ Step

QFix ==    \* type, class of the question
  /\ pc = "qfix"
  /\ IF ~Has(d, pos, 4) THEN (IF Fixed THEN Fail ELSE pc' = "sect" /\ UNCHANGED <<d, pos, stack, ret, qd, an, cur, out, err, uninit>> /\ Step)
     ELSE pos' = pos + 4 /\ pc' = "sect" /\ UNCHANGED <<d, stack, ret, qd, an, cur, out, err, uninit>> /\ Step

AFix ==    \* type, class, ttl, rdlength
  /\ pc = "afix"
  /\ IF ~Has(d, pos, 10) THEN Fail          \* as found: an_type .. an_len unset and then used
     ELSE /\ cur' = [type |-> U16(d, pos), len |-> U16(d, pos + 8), ttl |-> Bytes(d, pos + 4, 4)]
          /\ pos' = pos + 10 /\ pc' = "rdata"
          /\ UNCHANGED <<d, stack, ret, qd, an, out, err, uninit>> /\ Step

RData ==
  /\ pc = "rdata"
  /\ IF cur.type = 1 THEN
        IF Has(d, pos, 4)
        THEN /\ out' = [out EXCEPT !.a = Append(@, [ip |-> Bytes(d, pos, 4), ttl |-> cur.ttl])] /\ pos' = pos + 4 /\ pc' = "sect"
             /\ UNCHANGED <<d, stack, ret, qd, an, cur, err, uninit>> /\ Step
        ELSE IF Fixed THEN Fail
        ELSE /\ out' = [out EXCEPT !.a = Append(@, [ip |-> <<U, U, U, U>>, ttl |-> cur.ttl])] /\ pc' = "sect"     \* ip_value never written
             /\ UNCHANGED <<d, pos, stack, ret, qd, an, cur, err, uninit>> /\ Step
     ELSE IF cur.type = 5 THEN
        /\ StartName("cname") /\ UNCHANGED <<d, pos, qd, an, cur, out, err, uninit>> /\ Step
     ELSE IF Has(d, pos, cur.len) THEN pos' = pos + cur.len /\ pc' = "sect" /\ UNCHANGED <<d, stack, ret, qd, an, cur, out, err, uninit>> /\ Step
     ELSE IF Fixed THEN Fail
     ELSE pc' = "sect" /\ UNCHANGED <<d, pos, stack, ret, qd, an, cur, out, err, uninit>> /\ Step

PNext == Header \/ Sect \/ NameStep \/ NameEnd \/ QFix \/ AFix \/ RData
PSpec == PInit /\ [][PNext]_pvars

\* ------------------------------------------------------------------ properties
\* "does not recurse without bound on compressed names": the nesting never exceeds the number of bytes
BoundedDepth == Len(stack) <= Len(d) + 1
\* "no uninitialised read": nothing unset is used or reported
NoUninit == /\ ~uninit
            /\ \A i \in 1..Len(out.a) : out.a[i].ip # <<U, U, U, U>>
            /\ \A i \in 1..Len(out.cn) : \A j \in 1..Len(out.cn[i].labels) : out.cn[i].labels[j] # <<U>>
Reported == pc = "done" /\ ~err
\* "reports only addresses and names that are actually encoded in that datagram"
Safe == Reported => OnlyEncoded(d, [i \in 1..Len(out.a) |-> out.a[i].ip], [i \in 1..Len(out.cn) |-> JoinDots(out.cn[i].labels)])
\* well-formed replies: exactly the reference result
Conforms == pc = "done" => LET c == ClassifyT(d, QLabels) IN c.cls \in {"ok", "tolerated"} => ~err /\ out = c.res
\* "terminates": the number of steps is bounded by the datagram (each step consumes input, ends a section entry, or
\* follows one of at most MaxJumps pointers)
Terminates == Fixed => steps <= 6 * (Len(d) + 4)
=============================================================================
