---------------------------- MODULE Gen_DnsLookup ----------------------------
(* Script generator for C15: every action sequence of the lookup model up to Depth (BFS), or random deep ones          *)
(* (-simulate), as JSON.  A reply names only the server, the lookup ordinal and the class of datagram; the python       *)
(* check substitutes a concrete datagram of that class from Gen_DnsReply's pool, the driver executes the script on a    *)
(* real DnsRequest, and the recorded trace is validated against Trace_Dns (where the class is recomputed from bytes).   *)
EXTENDS DnsLookup, Json
CONSTANT Depth
VARIABLE hist
gvars == <<vars, hist>>
H(r) == hist' = Append(hist, r)
GenClasses == {"ok", "nxdomain", "formerr", "servfail", "malformed", "notresp"}
AnyExp == [any |-> FALSE, a |-> <<0>>, cn |-> <<>>]
GInit == Init /\ hist = <<>>
GNext ==
  \/ nreq < MaxReq /\ Request /\ H([o |-> "req", s |-> 0, k |-> nreq + 1, cls |-> ""])
  \/ nreq > 0 /\ \E k \in 1..MaxReq : Cancel(k) /\ H([o |-> "cancel", s |-> 0, k |-> k, cls |-> ""])
  \/ nreq > 0 /\ \E s \in srv, k \in 1..MaxReq, cls \in GenClasses : Reply(s, k, cls, AnyExp) /\ H([o |-> "reply", s |-> s, k |-> k, cls |-> cls])
  \/ nreq > 0 /\ \E s \in srv : Reply(s, MaxReq + 1, "ok", AnyExp) /\ H([o |-> "reply", s |-> s, k |-> MaxReq + 1, cls |-> "ok"])
  \/ nreq > 0 /\ Tick /\ H([o |-> "tick", s |-> 0, k |-> 0, cls |-> ""])
GSpec == GInit /\ [][GNext]_gvars
Emit == IF Len(hist) >= Depth THEN PrintT("BEH " \o ToJson(hist)) /\ FALSE ELSE TRUE
=============================================================================
