CONSTANTS
  Fixed = FALSE
  MaxJumps = 16
  Dgrams <- DgAsFound
SPECIFICATION PSpec
INVARIANTS BoundedDepth
CHECK_DEADLOCK FALSE
