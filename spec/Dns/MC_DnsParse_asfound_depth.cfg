CONSTANTS
  Fixed = FALSE
  MaxJumps = 16
  LabelBuf = 0
  PtrMask = 16384
  ResetOnLabel = FALSE
  Dgrams <- DgAsFound
SPECIFICATION PSpec
INVARIANTS BoundedDepth
CHECK_DEADLOCK FALSE
