CONSTANTS
  Fixed = FALSE
  MaxJumps = 16
  ResetOnLabel = FALSE
  Dgrams <- DgAsFound
SPECIFICATION PSpec
INVARIANTS BoundedDepth
CHECK_DEADLOCK FALSE
