CONSTANTS
  Servers = {1, 2}
  MaxReq = 2
  MinTicks = 5
  MaxTicks = 5
  Payloads = {}
  Variant = "intended"
  Depth = 4
SPECIFICATION GSpec
CONSTRAINT Emit
CHECK_DEADLOCK FALSE
