---- MODULE MC_DnsLookup_TTrace_1790993689 ----
EXTENDS Sequences, TLCExt, Toolbox, Naturals, TLC, MC_DnsLookup

_expression ==
    LET MC_DnsLookup_TEExpression == INSTANCE MC_DnsLookup_TEExpression
    IN MC_DnsLookup_TEExpression!expression
----

_trace ==
    LET MC_DnsLookup_TETrace == INSTANCE MC_DnsLookup_TETrace
    IN MC_DnsLookup_TETrace!trace
----

_inv ==
    ~(
        TLCGet("level") = Len(_TETrace)
        /\
        reqs = (<<>>)
        /\
        nreq = (1)
        /\
        srv = ({1, 2})
        /\
        canc = ({})
        /\
        win = (<<<<>>>>)
        /\
        cbn = (<<1>>)
        /\
        first = (<<[st |-> "AllDnsFail", res |-> [any |-> TRUE, a |-> <<>>, cn |-> <<>>], src |-> "servfail", nf |-> 0, nx |-> 0]>>)
        /\
        age = (<<>>)
        /\
        out = ({[k |-> 1, st |-> "AllDnsFail", res |-> [any |-> TRUE, a |-> <<>>, cn |-> <<>>], src |-> "servfail"]})
    )
----

_init ==
    /\ srv = _TETrace[1].srv
    /\ canc = _TETrace[1].canc
    /\ reqs = _TETrace[1].reqs
    /\ out = _TETrace[1].out
    /\ win = _TETrace[1].win
    /\ cbn = _TETrace[1].cbn
    /\ first = _TETrace[1].first
    /\ nreq = _TETrace[1].nreq
    /\ age = _TETrace[1].age
----

_next ==
    /\ \E i,j \in DOMAIN _TETrace:
        /\ \/ /\ j = i + 1
              /\ i = TLCGet("level")
        /\ srv  = _TETrace[i].srv
        /\ srv' = _TETrace[j].srv
        /\ canc  = _TETrace[i].canc
        /\ canc' = _TETrace[j].canc
        /\ reqs  = _TETrace[i].reqs
        /\ reqs' = _TETrace[j].reqs
        /\ out  = _TETrace[i].out
        /\ out' = _TETrace[j].out
        /\ win  = _TETrace[i].win
        /\ win' = _TETrace[j].win
        /\ cbn  = _TETrace[i].cbn
        /\ cbn' = _TETrace[j].cbn
        /\ first  = _TETrace[i].first
        /\ first' = _TETrace[j].first
        /\ nreq  = _TETrace[i].nreq
        /\ nreq' = _TETrace[j].nreq
        /\ age  = _TETrace[i].age
        /\ age' = _TETrace[j].age

\* Uncomment the ASSUME below to write the states of the error trace
\* to the given file in Json format. Note that you can pass any tuple
\* to `JsonSerialize`. For example, a sub-sequence of _TETrace.
    \* ASSUME
    \*     LET J == INSTANCE Json
    \*         IN J!JsonSerialize("MC_DnsLookup_TTrace_1790993689.json", _TETrace)

=============================================================================

 Note that you can extract this module `MC_DnsLookup_TEExpression`
  to a dedicated file to reuse `expression` (the module in the 
  dedicated `MC_DnsLookup_TEExpression.tla` file takes precedence 
  over the module `MC_DnsLookup_TEExpression` below).

---- MODULE MC_DnsLookup_TEExpression ----
EXTENDS Sequences, TLCExt, Toolbox, Naturals, TLC, MC_DnsLookup

expression == 
    [
        \* To hide variables of the `MC_DnsLookup` spec from the error trace,
        \* remove the variables below.  The trace will be written in the order
        \* of the fields of this record.
        srv |-> srv
        ,canc |-> canc
        ,reqs |-> reqs
        ,out |-> out
        ,win |-> win
        ,cbn |-> cbn
        ,first |-> first
        ,nreq |-> nreq
        ,age |-> age
        
        \* Put additional constant-, state-, and action-level expressions here:
        \* ,_stateNumber |-> _TEPosition
        \* ,_srvUnchanged |-> srv = srv'
        
        \* Format the `srv` variable as Json value.
        \* ,_srvJson |->
        \*     LET J == INSTANCE Json
        \*     IN J!ToJson(srv)
        
        \* Lastly, you may build expressions over arbitrary sets of states by
        \* leveraging the _TETrace operator.  For example, this is how to
        \* count the number of times a spec variable changed up to the current
        \* state in the trace.
        \* ,_srvModCount |->
        \*     LET F[s \in DOMAIN _TETrace] ==
        \*         IF s = 1 THEN 0
        \*         ELSE IF _TETrace[s].srv # _TETrace[s-1].srv
        \*             THEN 1 + F[s-1] ELSE F[s-1]
        \*     IN F[_TEPosition - 1]
    ]

=============================================================================



Parsing and semantic processing can take forever if the trace below is long.
 In this case, it is advised to uncomment the module below to deserialize the
 trace from a generated binary file.

\*
\*---- MODULE MC_DnsLookup_TETrace ----
\*EXTENDS IOUtils, TLC, MC_DnsLookup
\*
\*trace == IODeserialize("MC_DnsLookup_TTrace_1790993689.bin", TRUE)
\*
\*=============================================================================
\*

---- MODULE MC_DnsLookup_TETrace ----
EXTENDS TLC, MC_DnsLookup

trace == 
    <<
    ([reqs |-> <<>>,nreq |-> 0,srv |-> {1, 2},canc |-> {},win |-> <<>>,cbn |-> <<>>,first |-> <<>>,age |-> <<>>,out |-> {}]),
    ([reqs |-> <<[fails |-> {}, extra |-> 0]>>,nreq |-> 1,srv |-> {1, 2},canc |-> {},win |-> <<<<>>>>,cbn |-> <<0>>,first |-> <<<<>>>>,age |-> <<0>>,out |-> {}]),
    ([reqs |-> <<>>,nreq |-> 1,srv |-> {1, 2},canc |-> {},win |-> <<<<>>>>,cbn |-> <<1>>,first |-> <<[st |-> "AllDnsFail", res |-> [any |-> TRUE, a |-> <<>>, cn |-> <<>>], src |-> "servfail", nf |-> 0, nx |-> 0]>>,age |-> <<>>,out |-> {[k |-> 1, st |-> "AllDnsFail", res |-> [any |-> TRUE, a |-> <<>>, cn |-> <<>>], src |-> "servfail"]}])
    >>
----


=============================================================================

---- CONFIG MC_DnsLookup_TTrace_1790993689 ----
CONSTANTS
    Servers = { 1 , 2 }
    MaxReq = 2
    MinTicks = 3
    MaxTicks = 3
    Payloads = { 1 , 2 }
    Variant = "firstfail"

INVARIANT
    _inv

CHECK_DEADLOCK
    \* CHECK_DEADLOCK off because of PROPERTY or INVARIANT above.
    FALSE

INIT
    _init

NEXT
    _next

CONSTANT
    _TETrace <- _trace

ALIAS
    _expression
=============================================================================
\* Generated on Sat Oct 03 02:14:50 UTC 2026