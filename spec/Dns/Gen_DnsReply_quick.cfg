CONSTANTS
  MaxRecs = 1
  Deep <- DeepQuick
SPECIFICATION GSpec
CONSTRAINT Emit
CHECK_DEADLOCK FALSE
