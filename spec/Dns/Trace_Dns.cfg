CONSTANTS
  Servers = {1, 2}
  MaxReq = 0
  MinTicks = 1
  MaxTicks = 40
  Payloads = {}
  Variant = "intended"
SPECIFICATION TSpec
CONSTRAINT Progress
POSTCONDITION Accepted
INVARIANTS TypeOK CallbackAtMostOnce CancelledNeverCalled ExactlyOneFate FirstAcceptableReplyWins AllFailOnlyAfterAll AllFailedCompletes TimeoutOtherwise
CHECK_DEADLOCK FALSE
