CONSTANTS
  Fixed = TRUE
  MaxJumps = 16
  LabelBuf = 0
  PtrMask = 16384
  ResetOnLabel = FALSE
  Dgrams <- DgCov
SPECIFICATION PSpec
INVARIANTS BoundedDepth NoUninit Terminates
CHECK_DEADLOCK FALSE
