CONSTANTS
  Fixed = FALSE
  MaxJumps = 16
  Dgrams <- DgAsFound
SPECIFICATION PSpec
INVARIANTS Safe
CHECK_DEADLOCK FALSE
