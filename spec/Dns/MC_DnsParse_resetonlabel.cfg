CONSTANTS
  Fixed = TRUE
  MaxJumps = 16
  LabelBuf = 0
  PtrMask = 16384
  ResetOnLabel = TRUE
  Dgrams <- DgCycles
SPECIFICATION PSpec
INVARIANTS BoundedDepth
CHECK_DEADLOCK FALSE
