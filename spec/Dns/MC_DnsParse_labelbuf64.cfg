CONSTANTS
  Fixed = TRUE
  MaxJumps = 16
  LabelBuf = 64
  PtrMask = 16384
  ResetOnLabel = FALSE
  Dgrams <- DgLong
SPECIFICATION PSpec
INVARIANTS NoUninit
CHECK_DEADLOCK FALSE
