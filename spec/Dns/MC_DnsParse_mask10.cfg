CONSTANTS
  Fixed = TRUE
  MaxJumps = 16
  LabelBuf = 0
  PtrMask = 1024
  ResetOnLabel = FALSE
  Dgrams <- DgLarge
SPECIFICATION PSpec
INVARIANTS Conforms
CHECK_DEADLOCK FALSE
