------------------------------ MODULE DnsLookup ------------------------------
(* C15, part 2 - the lookup state machine of DnsRequest.                     *)
(*                                                                           *)
(* A lookup is named by its ordinal k (1st, 2nd, ... request()).  State per  *)
(* pending lookup: the set of servers that answered with a server failure    *)
(* (the code keeps only a count) and `extra`, the number of further          *)
(* datagrams an implementation MAY count as failures (a duplicate failure of *)
(* the same server, a malformed datagram): the statement does not say.       *)
(* Time is the tick of the timeout monitor; age[k] = ticks since request.    *)
(*                                                                           *)
(* Actions (one per public call / received datagram / timer tick):           *)
(*   Request, Cancel(k), Reply(s, k, cls, exp), Tick                         *)
(* `cls` is the class of the datagram (DnsReply!Classify), `exp` the exact   *)
(* result of a well-formed reply, k = 0 (or any k not pending) a datagram    *)
(* whose id matches no outstanding lookup.                                   *)
(* Every action leaves in `out` the set of callbacks it fired                *)
(* [k, st, res]; res.any = TRUE where the statement leaves the result open.  *)
(*                                                                           *)
(* The properties are invariants over ghost variables (cbn, first, canc,     *)
(* win), never part of the enabling conditions.  Variant # "intended"        *)
(* switches one action to a defective design; each defective variant must    *)
(* violate one invariant (non-vacuity, MC_*.cfg with expect=<Invariant>).    *)
EXTENDS Naturals, Sequences, FiniteSets, TLC

CONSTANTS Servers,      \* configured servers (initial value of srv)
          MaxReq,       \* model checking bound: number of request() calls
          MinTicks,     \* a pending lookup may time out at a tick when its age reaches MinTicks ...
          MaxTicks,     \* ... and must when it reaches MaxTicks  (the code: both 5; traces: 1 and a generous cap)
          Payloads,     \* model checking: abstract results of well-formed replies
          Variant       \* "intended" | "noerase" | "cancelnoop" | "failcmp_le" | "firstfail"

VARIABLES srv,     \* configured servers
          reqs,    \* pending lookups: k -> [fails : SUBSET srv, extra : Nat]
          age,     \* pending lookups: k -> ticks since request
          nreq,    \* number of request() calls so far
          cbn,     \* ghost: k -> number of callback invocations
          first,   \* ghost: k -> the first callback [st, res, nf, nx] (nf/nx: fails/extra when it fired)
          canc,    \* ghost: lookups whose cancel() returned TRUE
          win,     \* ghost: k -> <<st, res>> demanded by the first decisive reply that arrived while k was pending
          out      \* callbacks fired by the last action
vars == <<srv, reqs, age, nreq, cbn, first, canc, win, out>>

Statuses == {"Success", "DomainError", "AllDnsFail", "Timeout", "Fail"}
ErrStatuses == {"DomainError", "AllDnsFail", "Fail"}
Classes == {"ok", "nxdomain", "formerr", "servfail", "malformed", "tolerated", "notresp", "short"}
AnyRes == [any |-> TRUE, a |-> <<>>, cn |-> <<>>]
None == <<>>

Pending == DOMAIN reqs
Used == 1..nreq
Drop(f, S) == [k \in (DOMAIN f) \ S |-> f[k]]
Put(f, k, v) == [x \in (DOMAIN f) \cup {k} |-> IF x = k THEN v ELSE f[x]]

Init == /\ srv = Servers /\ reqs = <<>> /\ age = <<>> /\ nreq = 0
        /\ cbn = <<>> /\ first = <<>> /\ canc = {} /\ win = <<>> /\ out = {}

\* ------------------------------------------------------------------ helpers
\* the callbacks of set C (records [k, st, res]) fire; lookups in E are erased
Fire(C, E) ==
  /\ out' = C
  /\ cbn' = [k \in DOMAIN cbn |-> cbn[k] + Cardinality({c \in C : c.k = k})]
  /\ first' = [k \in DOMAIN first |->
                 IF first[k] = None /\ \E c \in C : c.k = k
                 THEN LET c == CHOOSE c \in C : c.k = k IN
                      [st |-> c.st, res |-> c.res, src |-> c.src, nf |-> IF k \in Pending THEN Cardinality(reqs[k].fails) ELSE 0,
                       nx |-> IF k \in Pending THEN reqs[k].extra ELSE 0]
                 ELSE first[k]]
  /\ age' = Drop(age, E)

Quiet == out' = {} /\ UNCHANGED <<cbn, first>>

\* ------------------------------------------------------------------ actions
Request ==
  LET k == nreq + 1 IN
  /\ nreq' = k
  /\ reqs' = Put(reqs, k, [fails |-> {}, extra |-> 0])
  /\ age' = Put(age, k, 0)
  /\ cbn' = Put(cbn, k, 0) /\ first' = Put(first, k, None) /\ win' = Put(win, k, None)
  /\ out' = {}
  /\ UNCHANGED <<srv, canc>>

\* cancel(): TRUE iff the lookup is pending; it is then erased and its callback is never invoked
Cancel(k) ==
  /\ IF k \in Pending
     THEN /\ canc' = canc \cup {k}
          /\ IF Variant = "cancelnoop" THEN UNCHANGED <<reqs, age>> ELSE reqs' = Drop(reqs, {k}) /\ age' = Drop(age, {k})
     ELSE UNCHANGED <<canc, reqs, age>>
  /\ Quiet
  /\ UNCHANGED <<srv, nreq, win>>
CancelRet(k) == k \in Pending

Complete(k, st, res, decisive, src) ==
  /\ Fire({[k |-> k, st |-> st, res |-> res, src |-> src]}, IF Variant = "noerase" THEN {} ELSE {k})
  /\ reqs' = IF Variant = "noerase" THEN reqs ELSE Drop(reqs, {k})
  /\ win' = IF decisive /\ win[k] = None THEN [win EXCEPT ![k] = <<st, res>>] ELSE win
  /\ UNCHANGED <<srv, nreq, canc>>

Ignore == Quiet /\ UNCHANGED <<srv, reqs, age, nreq, canc, win>>
\* (extra is capped at the number of servers: beyond that it makes no difference)
Count(k, f, x) == /\ Quiet /\ reqs' = [reqs EXCEPT ![k] = [fails |-> f, extra |-> IF x > Cardinality(srv) THEN Cardinality(srv) ELSE x]]
                  /\ UNCHANGED <<srv, age, nreq, canc, win>>

\* a datagram from server s whose id is that of lookup k (k not pending: it matches no outstanding lookup)
Reply(s, k, cls, exp) ==
  IF k \notin Pending \/ cls \in {"short", "notresp"} THEN Ignore
  ELSE CASE cls = "ok" -> Complete(k, "Success", exp, TRUE, cls)         \* first acceptable reply wins
    [] cls = "nxdomain" -> Complete(k, "DomainError", AnyRes, TRUE, cls)
    [] cls = "formerr" -> \E st \in ErrStatuses : Complete(k, st, AnyRes, FALSE, cls)
    [] cls = "servfail" ->
         LET f == reqs[k].fails \cup ({s} \cap srv)
             x == reqs[k].extra + (IF s \in reqs[k].fails \/ s \notin srv THEN 1 ELSE 0)
             all == CASE Variant = "failcmp_le" -> FALSE
                      [] Variant = "firstfail" -> TRUE
                      [] OTHER -> f = srv
         IN IF all THEN Complete(k, "AllDnsFail", AnyRes, FALSE, cls)          \* every server failed: must complete now
            ELSE \/ Count(k, f, x)                                        \* wait for the other servers
                 \/ /\ Cardinality(f) + x >= Cardinality(srv)             \* duplicates counted as servers: allowed
                    /\ Complete(k, "AllDnsFail", AnyRes, FALSE, cls)
    [] cls = "tolerated" ->                                               \* reserved label types read as lengths: ignored, or exactly that reading
         \/ Count(k, reqs[k].fails, reqs[k].extra + 1)
         \/ Complete(k, "Success", exp, FALSE, cls)
    [] cls = "malformed" ->                                               \* statement: harmless; outcome open
         \/ Count(k, reqs[k].fails, reqs[k].extra + 1)
         \/ \E st \in Statuses \ {"Timeout"} : Complete(k, st, AnyRes, FALSE, cls)

\* one tick of the timeout monitor: the lookups in T time out
TickOf(T) ==
    /\ T \subseteq {k \in Pending : age[k] + 1 >= MinTicks}
    /\ {k \in Pending : age[k] + 1 >= MaxTicks} \subseteq T
    /\ out' = {[k |-> k, st |-> "Timeout", res |-> AnyRes, src |-> "tick"] : k \in T}
    /\ cbn' = [k \in DOMAIN cbn |-> IF k \in T THEN cbn[k] + 1 ELSE cbn[k]]
    /\ first' = [k \in DOMAIN first |-> IF k \in T /\ first[k] = None
                                          THEN [st |-> "Timeout", res |-> AnyRes, src |-> "tick", nf |-> Cardinality(reqs[k].fails), nx |-> reqs[k].extra]
                                          ELSE first[k]]
    /\ reqs' = Drop(reqs, T)
    /\ age' = [k \in Pending \ T |-> age[k] + 1]
    /\ UNCHANGED <<srv, nreq, canc, win>>
Tick == \E T \in SUBSET Pending : TickOf(T)

\* ------------------------------------------------------------------ model checking
NextReq == nreq < MaxReq /\ Request
NextCancel == \E k \in 1..(MaxReq + 1) : Cancel(k)
NextReply == \E s \in srv, k \in 1..(MaxReq + 1), cls \in Classes :
               \E p \in Payloads : Reply(s, k, cls, [any |-> FALSE, a |-> <<p>>, cn |-> <<>>])
NextTick == Tick
Next == NextReq \/ NextCancel \/ NextReply \/ NextTick
Spec == Init /\ [][Next]_vars
FairSpec == Spec /\ WF_vars(NextTick)

\* ------------------------------------------------------------------ properties
TypeOK == /\ Pending \subseteq Used /\ DOMAIN age = Pending /\ DOMAIN cbn = Used /\ canc \subseteq Used
          /\ \A k \in Pending : reqs[k].fails \subseteq srv

\* Every lookup's callback is invoked exactly once ... unless cancelled, then never: state form.
\* Each lookup is in exactly one of: pending (not yet called), cancelled (never called), completed (called once).
CallbackAtMostOnce == \A k \in Used : cbn[k] <= 1
CancelledNeverCalled == \A k \in canc : cbn[k] = 0
ExactlyOneFate == \A k \in Used :
   \/ k \in Pending /\ k \notin canc /\ cbn[k] = 0
   \/ k \notin Pending /\ k \in canc /\ cbn[k] = 0
   \/ k \notin Pending /\ k \notin canc /\ cbn[k] = 1
\* the first acceptable (decisive) reply that arrives while the lookup is pending is what the callback gets
FirstAcceptableReplyWins == \A k \in Used : win[k] # None =>
   /\ cbn[k] >= 1 /\ first[k] # None /\ first[k].st = win[k][1] /\ first[k].res = win[k][2]
\* server failures wait for the other servers: AllDnsFail needs as many failures as servers ...
AllFailOnlyAfterAll == \A k \in Used : (first[k] # None /\ first[k].st = "AllDnsFail" /\ first[k].src = "servfail")
                          => first[k].nf + first[k].nx + 1 >= Cardinality(srv)
\* ... and once every server has failed the lookup is over
AllFailedCompletes == \A k \in Pending : reqs[k].fails # srv
\* a pending lookup never outlives the timeout
TimeoutOtherwise == \A k \in Pending : age[k] < MaxTicks
\* liveness form of "exactly once": under fair ticks every lookup is eventually resolved
EventuallyResolved == \A k \in 1..MaxReq : [](k \in Pending => <>(k \notin Pending))
=============================================================================
