CONSTANTS
  MaxRecs = 2
  Deep <- DeepQuick
SPECIFICATION GSpec
CONSTRAINT Emit
CHECK_DEADLOCK FALSE
