------------------------------- MODULE DnsGen -------------------------------
(* C15 - generator of reply datagrams: well-formed replies built from record *)
(* lists, and the hostile families of the property's quantifier: truncation  *)
(* at every offset, inflated record counts, compression pointers forming     *)
(* loops (pure pointer cycles AND cycles through 1-3 ordinary labels) /      *)
(* pointing forward / outside the packet, wrong rdlength, reserved label     *)
(* types with and without that many bytes behind them,                       *)
(* label types, other rcodes / flags.  Bytes 0-1 (the id) are a placeholder: *)
(* the driver writes the id of the real query there.                         *)
EXTENDS DnsReply

QLabels == << <<97>>, <<98, 99>> >>              \* the lookup asks for "a.bc"
QName == <<1, 97, 2, 98, 99, 0>>                  \* at offset 12; label "bc" at offset 14
Hdr(flags, qd, an, ns, ar) == <<0, 0, flags \div 256, flags % 256, 0, qd, 0, an, 0, ns, 0, ar>>
Question == QName \o <<0, 1, 0, 1>>               \* offsets 12..21
PtrQ == <<192, 12>>
RecHdr(owner, type, ttl, rdlen) == owner \o <<0, type, 0, 1>> \o ttl \o <<0, rdlen>>

Kinds == {"A1", "A2", "CL", "CC", "CP", "TX"}
\* one record of kind k appended when the datagram so far is `pre`; prevc = offset of the previous CNAME rdata (0: none)
RecBytes(k, prevc) ==
  CASE k = "A1" -> RecHdr(PtrQ, 1, <<0, 0, 1, 44>>, 4) \o <<10, 1, 2, 3>>
    [] k = "A2" -> RecHdr(QName, 1, <<0, 1, 81, 128>>, 4) \o <<192, 168, 7, 9>>          \* literal owner name
    [] k = "CL" -> RecHdr(PtrQ, 5, <<0, 0, 0, 60>>, 6) \o <<1, 100, 2, 98, 99, 0>>        \* "d.bc" literal
    [] k = "CC" -> RecHdr(PtrQ, 5, <<0, 0, 2, 88>>, 4) \o <<1, 101, 192, IF prevc = 0 THEN 14 ELSE prevc>>   \* "e" + pointer (chain)
    [] k = "CP" -> RecHdr(PtrQ, 5, <<0, 0, 0, 5>>, 2) \o <<192, 12>>                       \* pointer only
    [] k = "TX" -> RecHdr(PtrQ, 16, <<0, 0, 0, 9>>, 3) \o <<2, 120, 121>>                   \* other type: skipped
RdOff(k, start) == start + (IF k = "A2" THEN 6 ELSE 2) + 10

RECURSIVE Body(_, _, _)
Body(ks, off, prevc) ==
  IF Len(ks) = 0 THEN <<>>
  ELSE LET r == RecBytes(ks[1], prevc)
           pc == IF ks[1] \in {"CL", "CC"} THEN RdOff(ks[1], off) ELSE prevc
       IN r \o Body(Tail(ks), off + Len(r), pc)

\* well-formed reply: answers `ks`, `extra` more records in the additional section
Reply(flags, ks, extra) == Hdr(flags, 1, Len(ks), 0, Len(extra)) \o Question \o Body(ks \o extra, 22, 0)
Good(ks) == Reply(33152, ks, <<>>)                                                  \* 0x8180

Lists(n) == UNION {[1..m -> Kinds] : m \in 0..n}

Set(d, o, v) == [d EXCEPT ![o + 1] = v]
Ptrs(d) == {o \in 12..(Len(d) - 2) : B(d, o) >= 192}     \* in generated datagrams only pointers have bytes >= 192 ... and 192.168 (excluded below)
RealPtrs(d) == {o \in Ptrs(d) : ~(B(d, o) = 192 /\ B(d, o + 1) = 168)}
LenBytes(d) == {o \in 12..(Len(d) - 1) : B(d, o) \in {1, 2} /\ o + 1 < Len(d) /\ B(d, o + 1) >= 97}

T(tag, d) == [tag |-> tag, d |-> d]

Truncs(d) == {T("trunc", SubSeq(d, 1, k)) : k \in 0..(Len(d) - 1)}
Counts(d) ==
  {T("an+1", Set(d, 7, B(d, 7) + 1)), T("an+2", Set(d, 7, B(d, 7) + 2)), T("an=255", Set(d, 7, 255)),
   T("an=65535", Set(Set(d, 6, 255), 7, 255)), T("qd=2", Set(d, 5, 2)), T("qd=0", Set(d, 5, 0)), T("qd=65535", Set(Set(d, 4, 255), 5, 255)),
   T("ns=1", Set(d, 9, 1)), T("ar=200", Set(d, 11, 200))}
PtrMuts(d) ==
  UNION {{T("ptr-self", Set(Set(d, o, 192 + o \div 256), o + 1, o % 256)),
          T("ptr-self+1", Set(d, o + 1, o + 1)),
          T("ptr-fwd", Set(d, o + 1, (o + 2) % 256)),
          T("ptr-hdr", Set(d, o + 1, 0)),
          T("ptr-end", Set(d, o + 1, Len(d) % 256)),
          T("ptr-last", Set(d, o + 1, (Len(d) - 1) % 256)),
          T("ptr-out", Set(Set(d, o, 255), o + 1, 255))} : o \in RealPtrs(d)}
  \cup {T("ptr-mutual", Set(Set(d, o1 + 1, o2), o2 + 1, o1)) : o1 \in RealPtrs(d), o2 \in RealPtrs(d)}
  \cup {T("ptr-3cycle", Set(Set(Set(d, o1 + 1, o2), o2 + 1, o3), o3 + 1, o1)) : o1 \in RealPtrs(d), o2 \in RealPtrs(d), o3 \in RealPtrs(d)}
LabelMuts(d) ==
  UNION {{T("label-64", Set(d, o, 64 + B(d, o))), T("label-128", Set(d, o, 128 + B(d, o))), T("label-long", Set(d, o, 63)),
          T("label-nul", Set(d, o + 1, 0)), T("label-dot", Set(d, o + 1, 46))} : o \in LenBytes(d)}
\* rdlength byte of the i-th record is not located generically; flip the low rdlength byte of the first answer (owner PtrQ: offset 22+2+9)
RdMuts(d) == IF Len(d) < 36 THEN {} ELSE
  LET o == IF B(d, 22) = 192 THEN 33 ELSE 37 IN
  {T("rdlen-1", Set(d, o, B(d, o) - 1)), T("rdlen+1", Set(d, o, B(d, o) + 1)), T("rdlen=0", Set(d, o, 0)), T("rdlen=255", Set(d, o, 255)),
   T("rdlen-hi", Set(d, o - 1, 255)), T("class=3", Set(d, o - 6, 3))}
FlagMuts(ks) ==
  {T("rcode3", Reply(33155, <<>>, <<>>)), T("rcode3+an", Reply(33155, ks, <<>>)), T("rcode1", Reply(33153, <<>>, <<>>)),
   T("rcode2", Reply(33154, <<>>, <<>>)), T("rcode4", Reply(33156, ks, <<>>)), T("rcode5", Reply(33157, <<>>, <<>>)),
   T("rcode15", Reply(33167, <<>>, <<>>)), T("query", Reply(256, ks, <<>>)), T("tc", Reply(33664, ks, <<>>)),
   T("opcode2", Reply(37248, ks, <<>>)), T("aa", Reply(34176, ks, <<>>)), T("noflags", Reply(32768, ks, <<>>))}
Extras(ks) == {T("good+ar", Reply(33152, ks, <<"A2">>)), T("good+ar2", Reply(33152, ks, <<"CL", "TX">>))}

\* ---- names that loop THROUGH ordinary labels: n labels at offset `off`, then a pointer back to `off` (or into the loop)
CycLabels == << <<1, 120>>, <<2, 121, 122>>, <<1, 119>> >>
RECURSIVE CatLabels(_)
CatLabels(n) == IF n = 0 THEN <<>> ELSE CatLabels(n - 1) \o CycLabels[n]
CycName(off, n, into) == CatLabels(n) \o <<192 + (off + into) \div 256, (off + into) % 256>>
ARec(owner) == RecHdr(owner, 1, <<0, 0, 0, 7>>, 4) \o <<10, 9, 8, 7>>
LabelCycles ==
  UNION {
    {\* in the question name
     T("cyc-question", Hdr(33152, 1, 1, 0, 0) \o CycName(12, n, into) \o <<0, 1, 0, 1>> \o ARec(PtrQ)),
     \* in the owner name of an answer
     T("cyc-owner", Hdr(33152, 1, 1, 0, 0) \o Question \o ARec(CycName(22, n, into))),
     \* in the rdata of a CNAME (owner = pointer to the question name: rdata at 22 + 12)
     T("cyc-cname", Hdr(33152, 1, 1, 0, 0) \o Question \o RecHdr(PtrQ, 5, <<0, 0, 0, 9>>, Len(CycName(34, n, into))) \o CycName(34, n, into)),
     \* the loop lies in the (skipped) rdata of a TXT record and is entered through the owner pointer of a later A record ...
     T("cyc-via-ptr", Hdr(33152, 1, 2, 0, 0) \o Question \o RecHdr(PtrQ, 16, <<0, 0, 0, 9>>, Len(CycName(34, n, into))) \o CycName(34, n, into)
                      \o ARec(<<192, 34>>)),
     \* ... or after a label of its own
     T("cyc-label-ptr", Hdr(33152, 1, 2, 0, 0) \o Question \o RecHdr(PtrQ, 16, <<0, 0, 0, 9>>, Len(CycName(34, n, into))) \o CycName(34, n, into)
                      \o ARec(<<1, 118, 192, 34>>)),
     \* after a good answer (something was already collected when the loop is met)
     T("cyc-after-good", Hdr(33152, 1, 2, 0, 0) \o Question \o ARec(PtrQ) \o ARec(CycName(38, n, into)))}
    : n \in 1..3, into \in {0, 2}}      \* into = 2: the pointer re-enters the loop at its second label (n >= 2), not at its head
\* in a generated reply: the pointer that follows a one-byte label ("e" + pointer of the CC record) points back at that label
PtrLabelLoops(d) == {T("ptr-label-loop", Set(d, o + 1, o - 2)) : o \in {x \in RealPtrs(d) : x >= 14 /\ B(d, x - 2) = 1 /\ B(d, x - 1) >= 97}}

\* ---- LARGE replies: a TXT record with long rdata (skipped by the parser) pushes the following names to offset H >= 1024;
\* a CNAME name is then compressed with a pointer to H and an owner name with a pointer to H + 3, so that a decoder that
\* drops high bits of the 14-bit offset reads at H mod 256 / 512 / 1024 / 2048 - where the padding holds a DIFFERENT
\* valid name ("lo") wherever that position lies inside it (junk '!' elsewhere).
\* layout: header 12, question 10, TXT record header 12 (rdata at 34, length P = H - 46), CNAME record header 12, rdata at H
DecoyName == <<2, 108, 111, 0>>                                            \* "lo"
PadByte(H, o) ==                                                           \* byte of the padding at datagram offset o
  LET hit == {m \in {256, 512, 1024, 2048} : (H % m) >= 34 /\ (H % m) + 4 <= H - 12 /\ o >= (H % m) /\ o < (H % m) + 4 /\ (H % m) # H}
  IN IF hit = {} THEN 33 ELSE LET mm == CHOOSE y \in hit : \A x \in hit : y <= x IN DecoyName[o - (H % mm) + 1]
LargeReply(H) ==
  LET P == H - 46 IN
  Hdr(33152, 1, 4, 0, 0) \o Question
  \o SubSeq(RecHdr(PtrQ, 16, <<0, 0, 0, 9>>, 0), 1, 10) \o <<P \div 256, P % 256>> \o [i \in 1..P |-> PadByte(H, 33 + i)]
  \o RecHdr(PtrQ, 5, <<0, 0, 0, 60>>, 7) \o <<2, 104, 105, 2, 98, 99, 0>>                        \* "hi.bc" literal at H
  \o RecHdr(PtrQ, 5, <<0, 0, 2, 88>>, 4) \o <<1, 101, 192 + H \div 256, H % 256>>                 \* "e" + pointer to H
  \o RecHdr(<<192 + (H + 3) \div 256, (H + 3) % 256>>, 1, <<0, 0, 0, 7>>, 4) \o <<10, 9, 8, 7>>   \* owner = pointer to "bc" at H + 3
LargeHs == {1024, 1027, 1300, 2053, 3075, 4057}                            \* 4057: the datagram is exactly 4096 bytes
Larges == {T("large", LargeReply(H)) : H \in LargeHs}

\* ---- LONG labels: length octets 63 (the longest regular label) and 64..191 (reserved label types 01/10, which the
\* code reads as plain lengths) with that many host-name bytes behind them, at every name position, also behind a pointer
LongLens == {63, 64, 65, 100, 127, 128, 191}
LongLabel(L) == <<L>> \o [i \in 1..L |-> 97 + (i % 26)]
LongName(L) == LongLabel(L) \o <<2, 98, 99, 0>>                                       \* "<L bytes>.bc"
LongLabels ==
  UNION {
    {T("long-question", Hdr(33152, 1, 1, 0, 0) \o LongName(L) \o <<0, 1, 0, 1>> \o ARec(PtrQ)),
     T("long-owner", Hdr(33152, 1, 1, 0, 0) \o Question \o ARec(LongName(L))),
     T("long-cname", Hdr(33152, 1, 2, 0, 0) \o Question \o RecHdr(PtrQ, 5, <<0, 0, 0, 9>>, Len(LongName(L))) \o LongName(L) \o ARec(PtrQ)),
     \* CNAME = "e" + pointer to the long name of the previous CNAME (rdata at 34)
     T("long-via-ptr", Hdr(33152, 1, 2, 0, 0) \o Question \o RecHdr(PtrQ, 5, <<0, 0, 0, 9>>, Len(LongName(L))) \o LongName(L)
                       \o RecHdr(PtrQ, 5, <<0, 0, 2, 88>>, 4) \o <<1, 101, 192, 34>>),
     \* the long label only in skipped TXT rdata, entered through the owner pointer of an A record
     T("long-txt-ptr", Hdr(33152, 1, 2, 0, 0) \o Question \o RecHdr(PtrQ, 16, <<0, 0, 0, 9>>, Len(LongName(L))) \o LongName(L)
                       \o ARec(<<192, 34>>)),
     \* a name of several long labels (more than 255 bytes in all)
     T("long-many", Hdr(33152, 1, 1, 0, 0) \o Question \o RecHdr(PtrQ, 5, <<0, 0, 0, 9>>, 3 * (L + 1) + 4)
                    \o LongLabel(L) \o LongLabel(L) \o LongLabel(L) \o <<2, 98, 99, 0>>)}
    : L \in LongLens}

\* everything derived from one record list
Family(ks) ==
  LET g == Good(ks) IN
  {T("good", g)} \cup Truncs(g) \cup Counts(g) \cup PtrMuts(g) \cup PtrLabelLoops(g) \cup LabelMuts(g) \cup RdMuts(g) \cup FlagMuts(ks) \cup Extras(ks)
All(n) == LabelCycles \cup Larges \cup LongLabels \cup UNION {Family(ks) : ks \in Lists(n)}
=============================================================================
