------------------------------ MODULE DnsReply ------------------------------
(* C15, part 1 - byte-level reference semantics of a DNS reply datagram.     *)
(*                                                                           *)
(* A datagram is a sequence of bytes (0..255).  Offsets are 0-based as in    *)
(* the RFC / the C++ code; B(d, o) is the byte at offset o.                  *)
(*                                                                           *)
(*  DecName(d, o, fuel)  name decoder: labels, compression pointers followed *)
(*                       at most `fuel` times (fuel = Len(d) is the bound    *)
(*                       the property asks for: no unbounded recursion).     *)
(*  Classify(d, qname)   total function datagram -> class + expected result: *)
(*     "short"     fewer than 2 bytes: no id is encoded, matches no lookup   *)
(*     "notresp"   QR bit clear: not a reply                                 *)
(*     "ok"        well-formed reply, rcode 0: result is EXACT               *)
(*                 (A -> address+ttl, CNAME -> name+ttl, others skipped)     *)
(*     "nxdomain" / "formerr" / "servfail"   well-formed reply, rcode # 0    *)
(*     "malformed" everything else.  For these the oracle is only the        *)
(*                 statement: terminates, OnlyEncoded, no Fault.             *)
(*  Well-formed is deliberately NARROW (what every sensible parser agrees    *)
(*  on): 12-byte header, opcode 0, TC clear, one question equal to the       *)
(*  query, every record of all three sections complete, class IN, labels of  *)
(*  1..63 host-name bytes, names <= 255 bytes, pointers strictly backward    *)
(*  (into the body, at a non-empty name) and at most WfMaxJumps of them per   *)
(*  name, A rdlength = 4, CNAME rdata =                                      *)
(*  exactly one name, datagram ends exactly after the last record.           *)
(*                                                                           *)
(*  OnlyEncoded(d, addrs, names)  the statement's "reports only addresses    *)
(*  and names that are actually encoded in that datagram".                   *)
EXTENDS Naturals, Sequences, FiniteSets

WfMaxJumps == 4

B(d, o) == d[o + 1]
Has(d, o, n) == o + n <= Len(d)
U16(d, o) == B(d, o) * 256 + B(d, o + 1)
Bytes(d, o, n) == SubSeq(d, o + 1, o + n)

\* bytes allowed in a label of a well-formed name: a-z A-Z 0-9 - _
HostByte(b) == (b >= 97 /\ b <= 122) \/ (b >= 65 /\ b <= 90) \/ (b >= 48 /\ b <= 57) \/ b = 45 \/ b = 95
HostLabel(l) == \A i \in 1..Len(l) : HostByte(l[i])

BadName == [ok |-> FALSE, labels |-> <<>>, next |-> 0, jumps |-> 0, wf |-> FALSE, wfl |-> FALSE, size |-> 0]

\* `seen` = offsets of the pointers already followed for this name.  A pointer met a second time means the name never
\* ends (a loop, whether or not ordinary labels lie on it): with fuel alone such a name is rejected after Len(d)
\* rounds, with `seen` after one - the accepted names are the same (a name that ends follows each pointer once, and
\* there are fewer than Len(d) pointers), only the evaluation is shorter.
RECURSIVE DecN(_, _, _, _)
DecN(d, o, fuel, seen) ==
  IF ~Has(d, o, 1) THEN BadName
  ELSE LET len == B(d, o) IN
    IF len = 0 THEN [ok |-> TRUE, labels |-> <<>>, next |-> o + 1, jumps |-> 0, wf |-> TRUE, wfl |-> TRUE, size |-> 1]
    ELSE IF len >= 192 THEN
      IF ~Has(d, o, 2) \/ fuel = 0 \/ o \in seen THEN BadName
      ELSE LET tgt == (len - 192) * 256 + B(d, o + 1)
               r == DecN(d, tgt, fuel - 1, seen \cup {o})
           IN IF ~r.ok THEN BadName
              ELSE [ok |-> TRUE, labels |-> r.labels, next |-> o + 2, jumps |-> r.jumps + 1,
                    wf |-> r.wf /\ tgt < o /\ tgt >= 12 /\ r.labels # <<>>,
                    wfl |-> r.wfl /\ tgt < o /\ tgt >= 12 /\ r.labels # <<>>, size |-> r.size]
    ELSE IF ~Has(d, o + 1, len) THEN BadName
    ELSE LET r == DecN(d, o + 1 + len, fuel, seen)
             lab == Bytes(d, o + 1, len)
         IN IF ~r.ok THEN BadName
            ELSE [ok |-> TRUE, labels |-> <<lab>> \o r.labels, next |-> r.next, jumps |-> r.jumps,
                  wf |-> r.wf /\ len <= 63 /\ HostLabel(lab),
                  wfl |-> r.wfl /\ HostLabel(lab),      \* lax: length octets 64..191 (reserved label types) taken as lengths
                  size |-> r.size + len + 1]
DecName(d, o, fuel) == DecN(d, o, fuel, {})

Name(d, o) == DecName(d, o, Len(d))
WfName(n) == n.ok /\ n.wf /\ n.jumps <= WfMaxJumps /\ n.size <= 255
\* lax = TRUE: the TOLERATED class - as well-formed, except that label lengths 64..191 and names over 255 bytes are
\* accepted (the code takes every length octet below 192 as a plain length).  For such replies the outcome is: ignored,
\* or exactly the result read this way.
WfNameM(n, lax) == IF lax THEN n.ok /\ n.wfl /\ n.jumps <= WfMaxJumps ELSE WfName(n)

\* ---------------------------------------------------------------- resource records
TypeA == 1
TypeCNAME == 5
BadRec == [ok |-> FALSE, next |-> 0, type |-> 0, ttl |-> <<>>, addr |-> <<>>, labels |-> <<>>]

\* a well-formed record starting at offset o (ok = well-formed)
Rec(d, o, lax) ==
  LET n == Name(d, o) IN
  IF ~WfNameM(n, lax) \/ ~Has(d, n.next, 10) THEN BadRec
  ELSE LET p == n.next
           type == U16(d, p)
           class == U16(d, p + 2)
           rdlen == U16(d, p + 8)
           rd == p + 10
       IN IF ~Has(d, rd, rdlen) \/ class # 1 THEN BadRec
          ELSE IF type = TypeA THEN
             IF rdlen # 4 THEN BadRec
             ELSE [ok |-> TRUE, next |-> rd + 4, type |-> type, ttl |-> Bytes(d, p + 4, 4), addr |-> Bytes(d, rd, 4), labels |-> <<>>]
          ELSE IF type = TypeCNAME THEN
             LET c == Name(d, rd) IN
             IF ~WfNameM(c, lax) \/ c.next # rd + rdlen THEN BadRec
             ELSE [ok |-> TRUE, next |-> rd + rdlen, type |-> type, ttl |-> Bytes(d, p + 4, 4), addr |-> <<>>, labels |-> c.labels]
          ELSE [ok |-> TRUE, next |-> rd + rdlen, type |-> type, ttl |-> Bytes(d, p + 4, 4), addr |-> <<>>, labels |-> <<>>]

BadRecs == [ok |-> FALSE, next |-> 0, recs |-> <<>>]
RECURSIVE Recs(_, _, _, _)
Recs(d, o, cnt, lax) ==
  IF cnt = 0 THEN [ok |-> TRUE, next |-> o, recs |-> <<>>]
  ELSE LET r == Rec(d, o, lax) IN
       IF ~r.ok THEN BadRecs
       ELSE LET rest == Recs(d, r.next, cnt - 1, lax) IN
            IF ~rest.ok THEN BadRecs ELSE [ok |-> TRUE, next |-> rest.next, recs |-> <<r>> \o rest.recs]

IsA(r) == r.type = TypeA
IsC(r) == r.type = TypeCNAME

\* ---------------------------------------------------------------- the whole datagram
NoRes == [a |-> <<>>, cn |-> <<>>]
Cls(c, id, r) == [cls |-> c, id |-> id, res |-> r]

\* qname: the labels of the name the lookup asked for
ClassifyM(d, qname, lax) ==
  IF Len(d) < 2 THEN Cls("short", 0, NoRes)
  ELSE LET id == U16(d, 0) IN
  IF Len(d) < 4 THEN Cls("malformed", id, NoRes)
  ELSE LET flags == U16(d, 2)
           qr == flags \div 32768
           opcode == (flags \div 2048) % 16
           tc == (flags \div 512) % 2
           rcode == flags % 16
       IN
  IF qr = 0 THEN Cls("notresp", id, NoRes)
  ELSE IF Len(d) < 12 \/ opcode # 0 \/ tc # 0 \/ U16(d, 4) # 1 THEN Cls("malformed", id, NoRes)
  ELSE LET q == Name(d, 12) IN
  IF ~WfName(q) \/ q.labels # qname \/ ~Has(d, q.next, 4) THEN Cls("malformed", id, NoRes)
  ELSE IF U16(d, q.next) # 1 \/ U16(d, q.next + 2) # 1 THEN Cls("malformed", id, NoRes)
  ELSE LET an == Recs(d, q.next + 4, U16(d, 6), lax) IN
  IF ~an.ok THEN Cls("malformed", id, NoRes)
  ELSE LET rest == Recs(d, an.next, U16(d, 8) + U16(d, 10), lax) IN
  IF ~rest.ok \/ rest.next # Len(d) THEN Cls("malformed", id, NoRes)
  ELSE IF rcode = 0 THEN
         Cls("ok", id, [a |-> [i \in 1..Len(SelectSeq(an.recs, IsA)) |->
                                  [ip |-> SelectSeq(an.recs, IsA)[i].addr, ttl |-> SelectSeq(an.recs, IsA)[i].ttl]],
                        cn |-> [i \in 1..Len(SelectSeq(an.recs, IsC)) |->
                                  [labels |-> SelectSeq(an.recs, IsC)[i].labels, ttl |-> SelectSeq(an.recs, IsC)[i].ttl]]])
  ELSE IF rcode = 3 THEN Cls("nxdomain", id, NoRes)
  ELSE IF rcode = 1 THEN Cls("formerr", id, NoRes)
  ELSE Cls("servfail", id, NoRes)
Classify(d, qname) == ClassifyM(d, qname, FALSE)
\* "tolerated": not well-formed, but a reply with rcode 0 that is well-formed when read the lax way
ClassifyT(d, qname) ==
  LET c == Classify(d, qname) IN
  IF c.cls # "malformed" \/ Len(d) < 12 THEN c
  ELSE LET t == ClassifyM(d, qname, TRUE) IN IF t.cls = "ok" THEN Cls("tolerated", t.id, t.res) ELSE c

\* ---------------------------------------------------------------- OnlyEncoded
IsSub(s, d) == Len(s) = 0 \/ \E i \in 0..(Len(d) - Len(s)) : Bytes(d, i, Len(s)) = s

\* split a reported name (byte string "a.bc") at the dots
RECURSIVE SplitDots(_)
SplitDots(s) ==
  IF \A i \in 1..Len(s) : s[i] # 46 THEN <<s>>
  ELSE LET k == CHOOSE i \in 1..Len(s) : s[i] = 46 /\ \A j \in 1..(i - 1) : s[j] # 46
       IN <<SubSeq(s, 1, k - 1)>> \o SplitDots(SubSeq(s, k + 1, Len(s)))

RECURSIVE JoinDots(_)
JoinDots(labels) == IF Len(labels) = 0 THEN <<>>
                    ELSE IF Len(labels) = 1 THEN labels[1]
                    ELSE labels[1] \o <<46>> \o JoinDots(Tail(labels))

\* every record the main parser can report needs at least 11 bytes of its own (1 name byte + 10 fixed)
\* after the 12-byte header, so a datagram of n bytes encodes at most (n - 12) \div 11 of them
MaxReportable(d) == IF Len(d) < 12 THEN 0 ELSE (Len(d) - 12) \div 11

\* addrs: sequence of 4-byte sequences; names: sequence of byte strings as reported ("a.bc")
OnlyEncoded(d, addrs, names) ==
  /\ \A i \in 1..Len(addrs) : Len(addrs[i]) = 4 /\ IsSub(addrs[i], d)
  /\ \A i \in 1..Len(names) : LET ls == SplitDots(names[i]) IN \A j \in 1..Len(ls) : IsSub(ls[j], d)
  /\ Len(addrs) + Len(names) <= MaxReportable(d)
=============================================================================
