CONSTANTS
  Fixed = FALSE
  MaxJumps = 16
  Dgrams <- DgAsFound
SPECIFICATION PSpec
INVARIANTS NoUninit
CHECK_DEADLOCK FALSE
