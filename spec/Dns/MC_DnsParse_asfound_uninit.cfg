CONSTANTS
  Fixed = FALSE
  MaxJumps = 16
  ResetOnLabel = FALSE
  Dgrams <- DgAsFound
SPECIFICATION PSpec
INVARIANTS NoUninit
CHECK_DEADLOCK FALSE
