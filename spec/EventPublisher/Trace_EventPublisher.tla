------------------------ MODULE Trace_EventPublisher ------------------------
(* Trace validation for E03: the recorded ndjson trace (one line per call into the publisher, per onEvent     *)
(* entry, per onEvent return and per return from publish, in real order) must be a behaviour of the reference  *)
(* semantics EventPublisher.tla: every delivery (`dlv`) and every return from publish (`end`) must break no    *)
(* rule (Flags = {}), events carry the id of the publish they belong to, calls are made only by user code.     *)
(*   {"e":"sub","s":1} {"e":"unsub","s":1} {"e":"pub","ev":7} {"e":"dlv","s":2,"ev":7} {"e":"ret","s":2,"r":false} *)
(*   {"e":"end","ev":7} {"e":"Reset"}                                                                          *)
EXTENDS EventPublisher, Json, IOUtils, TLC
TLog == ndJsonDeserialize(IOEnv.TRACE)
VARIABLE l
ASSUME TLCSet(42, 0)
tvars == <<gsubs, gstack, l>>

Ev == TLog[l]
IsEv(e) == l <= Len(TLog) /\ TLog[l].e = e /\ l' = l + 1

TInit == RInit /\ l = 1
TReset == IsEv("Reset") /\ gstack = <<>> /\ gsubs' = <<>> /\ gstack' = <<>>
TSub == IsEv("sub") /\ InUser /\ RSub(Ev.s)
TUnsub == IsEv("unsub") /\ InUser /\ RUnsub(Ev.s)
TPub == IsEv("pub") /\ InUser /\ RPub(Ev.ev)
TDeliver == IsEv("dlv") /\ CanStep /\ Ev.ev = Top.ev /\ Flags(Top, Ev.s) = {} /\ RDeliver(Ev.s)
TRet == IsEv("ret") /\ gstack # <<>> /\ Top.cur = Ev.s /\ Top.cur # 0 /\ RRet(Ev.r)
TEnd == IsEv("end") /\ CanStep /\ Ev.ev = Top.ev /\ Flags(Top, 0) = {} /\ REnd
TNext == TReset \/ TSub \/ TUnsub \/ TPub \/ TDeliver \/ TRet \/ TEnd
TSpec == TInit /\ [][TNext]_tvars

Progress == TLCSet(42, IF l > TLCGet(42) THEN l ELSE TLCGet(42))
Accepted == IF TLCGet(42) = Len(TLog) + 1 THEN TRUE ELSE PrintT(<<"MAXPOS", TLCGet(42), Len(TLog)>>) /\ FALSE
=============================================================================
