------------------------- MODULE EventPublisherImpl -------------------------
(* E03 - implementation-shaped model of tbox::flow::EventPublisherImpl (event_publisher_impl.cpp) running *)
(* in lockstep with the reference semantics of EventPublisher.tla.                                        *)
(*   vec   = subscriber_vec_                                                                              *)
(*   istk  = one entry per publish() activation: its local copy of the subscriber list still to serve     *)
(*           (served from the back)                                                                        *)
(* Every public call is one action; the publisher's own step between two onEvent calls (`Step`) pops      *)
(* subscribers off the local copy until it finds one that is still subscribed, calls it (Deliver) or      *)
(* returns (PubEnd).  The model never constrains what the implementation does: every rule of the          *)
(* reference that a step breaks is collected in `bad` and the rules are separate invariants.              *)
(*                                                                                                        *)
(* Bugs (as-found switches, reproduce the code before the repairs):                                       *)
(*   "shadow"     publish() served a local copy but unsubscribe() scrubbed the (always empty) member       *)
(*                tmp_vec_: a subscriber that left during the publish was still called                     *)
(*   "sub_remove" subscribe() looked for the subscriber with std::remove instead of std::find: subscribing *)
(*                a subscribed one dropped it and duplicated the last entry                                *)
EXTENDS EventPublisher
CONSTANTS Bugs, MaxOps, MaxDepth
VARIABLES vec, istk, bad, nops, npub

vars == <<gsubs, gstack, vec, istk, bad, nops, npub>>

Init == RInit /\ vec = <<>> /\ istk = <<>> /\ bad = {} /\ nops = 0 /\ npub = 0

ITop == istk[Len(istk)]
Budget == nops < MaxOps

\* ---- subscribe / unsubscribe / publish (callable at top level and from inside onEvent) ----
Sub(s) == /\ InUser /\ Budget
          /\ vec' = IF s \in Range(vec)
                    THEN (IF "sub_remove" \in Bugs THEN Append(Without(vec, s), vec[Len(vec)]) ELSE vec)
                    ELSE Append(vec, s)
          /\ RSub(s) /\ nops' = nops + 1 /\ UNCHANGED <<istk, bad, npub>>
Unsub(s) == /\ InUser /\ Budget
            /\ vec' = Without(vec, s)
            /\ RUnsub(s) /\ nops' = nops + 1 /\ UNCHANGED <<istk, bad, npub>>
Pub == /\ InUser /\ Budget /\ Len(gstack) < MaxDepth
       /\ istk' = Append(istk, vec)
       /\ RPub(npub + 1) /\ npub' = npub + 1 /\ nops' = nops + 1 /\ UNCHANGED <<vec, bad>>

TopSub(s) == gstack = <<>> /\ Sub(s)
TopUnsub(s) == gstack = <<>> /\ Unsub(s)
TopPub == gstack = <<>> /\ Pub
CbSub(s) == gstack # <<>> /\ Sub(s)
CbUnsub(s) == gstack # <<>> /\ Unsub(s)
CbPub == gstack # <<>> /\ Pub

\* ---- the publisher's loop: next subscriber to call, <<0, _>> when the local copy is exhausted ----
RECURSIVE NextCall(_)
NextCall(p) == IF p = <<>> THEN <<0, <<>>>>
               ELSE LET t == IF "fifo" \in Bugs THEN p[1] ELSE p[Len(p)]
                        rest == IF "fifo" \in Bugs THEN Tail(p) ELSE SubSeq(p, 1, Len(p) - 1) IN
                    IF "shadow" \in Bugs \/ t \in Range(vec) THEN <<t, rest>> ELSE NextCall(rest)
Choice == IF Top.handled /\ "nobreak" \notin Bugs THEN <<0, <<>>>> ELSE NextCall(ITop)

Deliver == /\ CanStep /\ Choice[1] # 0
           /\ bad' = bad \cup Flags(Top, Choice[1])
           /\ istk' = [istk EXCEPT ![Len(istk)] = Choice[2]]
           /\ RDeliver(Choice[1]) /\ UNCHANGED <<vec, nops, npub>>
Ret(r) == /\ gstack # <<>> /\ Top.cur # 0
          /\ RRet(r) /\ UNCHANGED <<vec, istk, bad, nops, npub>>
PubEnd == /\ CanStep /\ Choice[1] = 0
          /\ bad' = bad \cup Flags(Top, 0)
          /\ istk' = IF "member" \in Bugs THEN [i \in 1..Len(istk) - 1 |-> <<>>] ELSE SubSeq(istk, 1, Len(istk) - 1)
          /\ REnd /\ UNCHANGED <<vec, nops, npub>>

Next == \/ \E s \in S : TopSub(s) \/ TopUnsub(s) \/ CbSub(s) \/ CbUnsub(s)
        \/ TopPub \/ CbPub \/ Deliver \/ PubEnd
        \/ \E r \in BOOLEAN : Ret(r)
Spec == Init /\ [][Next]_vars

\* ---- properties ----
TypeOK == RTypeOK /\ vec \in Seq(S) /\ Len(istk) = Len(gstack) /\ bad \subseteq {"missed", "unsubscribed", "latejoiner", "duplicate", "afterhandled", "order"}
SubsMatch == vec = gsubs                                  \* the subscriber list is the reference list (order, no duplicates)
NoDeliveryToUnsubscribed == "unsubscribed" \notin bad     \* never calls a subscriber that is not subscribed at that moment
NoLateJoiner == "latejoiner" \notin bad                   \* a subscriber that joined during the publish does not get its event
AtMostOnce == "duplicate" \notin bad                      \* one publish calls a subscriber at most once
StopsWhenHandled == "afterhandled" \notin bad             \* nobody is called after an onEvent returned true
NewestFirst == "order" \notin bad                         \* delivery order = reverse subscription order, nobody skipped
NobodyMissed == "missed" \notin bad                       \* publish returns only when handled or everybody entitled was called
=============================================================================
