------------------------- MODULE Gen_EventPublisher -------------------------
(* Behaviour generator for E03: every behaviour of the implementation-shaped model (repaired code, Bugs = {}) *)
(* with exactly Depth subscribe/unsubscribe/publish calls (at top level or inside onEvent, every return value  *)
(* of every onEvent) is printed as a flat history sub/unsub/pub/dlv/ret/end.  checks/e03.py turns it into a    *)
(* top-level script plus one reaction per onEvent call, the driver executes it on the real class.              *)
EXTENDS EventPublisherImpl, Json, TLC
CONSTANT Depth
VARIABLE hist
gvars == <<vars, hist>>
H(e, s, r) == hist' = Append(hist, [e |-> e, s |-> s, r |-> r])
GInit == Init /\ hist = <<>>
GNext == \/ \E s \in S : \/ Sub(s) /\ H("sub", s, FALSE)
                         \/ Unsub(s) /\ H("unsub", s, FALSE)
         \/ Pub /\ H("pub", 0, FALSE)
         \/ Deliver /\ H("dlv", Choice[1], FALSE)
         \/ \E r \in BOOLEAN : Ret(r) /\ H("ret", 0, r)
         \/ PubEnd /\ H("end", 0, FALSE)
GSpec == GInit /\ [][GNext]_gvars
Emit == IF nops >= Depth /\ gstack = <<>> THEN PrintT("BEH " \o ToJson(hist)) /\ FALSE ELSE TRUE
=============================================================================
