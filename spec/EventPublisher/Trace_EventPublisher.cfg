CONSTANTS
  S = {1, 2, 3, 4, 5, 6}
SPECIFICATION TSpec
CONSTRAINT Progress
POSTCONDITION Accepted
INVARIANT RTypeOK
CHECK_DEADLOCK FALSE
