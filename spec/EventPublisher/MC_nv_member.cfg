CONSTANTS
  S = {1, 2, 3}
  Bugs = {"member"}
  MaxOps = 4
  MaxDepth = 2
SPECIFICATION Spec
INVARIANTS TypeOK SubsMatch NoDeliveryToUnsubscribed NoLateJoiner AtMostOnce StopsWhenHandled NewestFirst NobodyMissed
CHECK_DEADLOCK FALSE
