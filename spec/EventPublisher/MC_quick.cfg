CONSTANTS
  S = {1, 2, 3}
  Bugs = {}
  MaxOps = 7
  MaxDepth = 3
SPECIFICATION Spec
INVARIANTS TypeOK SubsMatch NoDeliveryToUnsubscribed NoLateJoiner AtMostOnce StopsWhenHandled NewestFirst NobodyMissed
CHECK_DEADLOCK FALSE
