CONSTANTS
  S = {1, 2, 3}
  Bugs = {}
  MaxOps = 4
  MaxDepth = 2
  Depth = 4
SPECIFICATION GSpec
CONSTRAINT Emit
CHECK_DEADLOCK FALSE
