--------------------------- MODULE EventPublisher ---------------------------
(* E03 - reference semantics of tbox::flow::EventPublisher (subscribe / unsubscribe / publish with        *)
(* re-entrant calls from inside EventSubscriber::onEvent).                                                 *)
(*                                                                                                         *)
(* The subscribers form a stack in subscription order.  publish(e) offers e to the subscribers that are    *)
(* subscribed when the publish begins, the most recently subscribed first, until one of them returns true   *)
(* ("handled").  While a publish is under way subscribers may subscribe, unsubscribe and publish:           *)
(*   * a subscriber that joins during a publish does not get the event of that publish;                     *)
(*   * a subscriber that is not subscribed (any more) when its turn comes does not get it (it may already   *)
(*     be destroyed: EventAction unsubscribes in its destructor);                                           *)
(*   * a nested publish is delivered completely before the enclosing one continues; "handled" ends only     *)
(*     the publish it was returned to;                                                                      *)
(*   * subscribe of a subscribed subscriber and unsubscribe of an unknown one change nothing.               *)
(* Left open on purpose: a subscriber that left AND re-joined during the publish ("tainted") may or may     *)
(* not get the event.                                                                                       *)
(*                                                                                                         *)
(* The rules are written declaratively: Flags(f, x) is the set of rules that the choice x (deliver to       *)
(* subscriber x, or x = 0: return from publish) breaks in frame f.  The trace specification accepts a       *)
(* choice iff it breaks no rule; the implementation-shaped model collects the broken rules in `bad`.        *)
EXTENDS Naturals, Sequences, FiniteSets
CONSTANT S                      \* subscriber ids, positive integers
VARIABLES gsubs,                \* subscribed subscribers, oldest first, no duplicates
          gstack                \* publishes under way, innermost last

Range(q) == {q[i] : i \in 1..Len(q)}
Without(q, s) == SelectSeq(q, LAMBDA x : x # s)
Rev(q) == [i \in 1..Len(q) |-> q[Len(q) + 1 - i]]
Pos(q, s) == CHOOSE i \in 1..Len(q) : q[i] = s

Frame(e, subs) == [ev |-> e,              \* event id
                   order |-> Rev(subs),   \* the subscribers at the begin of the publish in delivery order
                   done |-> <<>>,         \* deliveries made so far
                   taint |-> {},          \* unsubscribed at least once since the begin of the publish
                   cur |-> 0,             \* subscriber whose onEvent is executing (0: none)
                   handled |-> FALSE]     \* an onEvent of this publish returned true
Top == gstack[Len(gstack)]
SetTop(f) == [gstack EXCEPT ![Len(gstack)] = f]
InUser == IF gstack = <<>> THEN TRUE ELSE Top.cur # 0   \* user code is executing: top level or inside an onEvent
                                                         \* (IF: TLC evaluates both sides of an action-level \/)
CanStep == gstack # <<>> /\ Top.cur = 0       \* the publisher is executing (between two deliveries)

Waiting(f) == {t \in Range(f.order) : t \notin Range(f.done) /\ t \notin f.taint}   \* subscribed throughout, not served yet

Flags(f, x) ==
  IF x = 0
  THEN IF ~f.handled /\ Waiting(f) # {} THEN {"missed"} ELSE {}
  ELSE (IF x \notin Range(gsubs) THEN {"unsubscribed"} ELSE {})
       \cup (IF x \notin Range(f.order) THEN {"latejoiner"} ELSE {})
       \cup (IF x \in Range(f.done) THEN {"duplicate"} ELSE {})
       \cup (IF f.handled THEN {"afterhandled"} ELSE {})
       \cup (IF x \in Range(f.order) /\ \E t \in Range(f.done) \cap Range(f.order) : Pos(f.order, t) > Pos(f.order, x)
             THEN {"order"} ELSE {})
       \cup (IF x \in Range(f.order) /\ \E t \in Waiting(f) : Pos(f.order, t) < Pos(f.order, x)
             THEN {"order"} ELSE {})

RSub(s) == /\ gsubs' = IF s \in Range(gsubs) THEN gsubs ELSE Append(gsubs, s)
           /\ UNCHANGED gstack
RUnsub(s) == /\ gsubs' = Without(gsubs, s)
             /\ gstack' = [i \in 1..Len(gstack) |-> [gstack[i] EXCEPT !.taint = @ \cup {s}]]
RPub(e) == gstack' = Append(gstack, Frame(e, gsubs)) /\ UNCHANGED gsubs
RDeliver(s) == gstack' = SetTop([Top EXCEPT !.done = Append(@, s), !.cur = s]) /\ UNCHANGED gsubs
RRet(r) == gstack' = SetTop([Top EXCEPT !.cur = 0, !.handled = @ \/ r]) /\ UNCHANGED gsubs
REnd == gstack' = SubSeq(gstack, 1, Len(gstack) - 1) /\ UNCHANGED gsubs

RInit == gsubs = <<>> /\ gstack = <<>>
RTypeOK == /\ gsubs \in Seq(S) /\ Cardinality(Range(gsubs)) = Len(gsubs)
           /\ \A i \in 1..Len(gstack) : gstack[i].cur \in S \cup {0} /\ gstack[i].taint \subseteq S
=============================================================================
