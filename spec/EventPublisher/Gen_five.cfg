CONSTANTS
  S = {1, 2, 3}
  Bugs = {}
  MaxOps = 5
  MaxDepth = 2
  Depth = 5
SPECIFICATION GSpec
CONSTRAINT Emit
CHECK_DEADLOCK FALSE
