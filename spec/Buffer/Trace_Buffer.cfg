CONSTANTS
  P = 251
  B = {1, 2, 3}
  MaxFree = 0
SPECIFICATION TSpec
CONSTRAINT Progress
POSTCONDITION Accepted
INVARIANTS TypeOK QueuesNormal
CHECK_DEADLOCK FALSE
