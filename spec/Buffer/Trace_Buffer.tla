--------------------------- MODULE Trace_Buffer ---------------------------
(* Trace validation for C07: every line of the recorded ndjson trace must be *)
(* the corresponding action of the abstract FIFO specification Buffer, with  *)
(* the logged return value, and must lead to the logged projected state of   *)
(* every buffer slot (alive, readable size, writable size, readable bytes).  *)
EXTENDS Buffer, Json, IOUtils
Log == ndJsonDeserialize(IOEnv.TRACE)
\* A writer may fill a reservation once and commit it in several hasWritten() calls ("wfill" fills min(n, free) bytes at
\* writableBegin() without any call into the buffer, "commitp" is a bare hasWritten(n) of bytes filled before): fillN[b] bytes
\* starting at stream position fillP[b] lie, uncommitted, behind the write position of b. Any other operation on b ends that.
VARIABLES l, fillN, fillP
ASSUME TLCSet(42, 0)
tvars == <<vars, l, fillN, fillP>>
Touch(S) == fillN' = [b \in B |-> IF b \in S THEN 0 ELSE fillN[b]] /\ UNCHANGED fillP
WFill(b, n) == LET k == Min(n, free[b]) IN
  /\ alive[b] /\ fillN' = [fillN EXCEPT ![b] = k] /\ fillP' = [fillP EXCEPT ![b] = pos] /\ pos' = pos + k
  /\ UNCHANGED <<q, free, alive>> /\ ret' = <<"wfill", k>>
CommitFilled(b, n) ==       \* hasWritten(n), n <= bytes filled before: exactly those bytes join the queue
  /\ alive[b] /\ n <= fillN[b] /\ n <= free[b]
  /\ q' = [q EXCEPT ![b] = RCat(q[b], Run(fillP[b], n))] /\ free' = [free EXCEPT ![b] = free[b] - n]
  /\ fillN' = [fillN EXCEPT ![b] = @ - n] /\ fillP' = [fillP EXCEPT ![b] = @ + n]
  /\ UNCHANGED <<alive, pos>> /\ ret' = <<"commitp", n>>

Ev == Log[l]
IsEv(e) == l <= Len(Log) /\ Log[l].e = e /\ l' = l + 1
W(b) == Log[l].st[b].w
Post == \A b \in B : LET o == Log[l].st[b] IN
           /\ alive'[b] = o.a /\ q'[b] = o.q /\ RLen(q'[b]) = o.r /\ free'[b] = o.w

TInit == Init /\ l = 1 /\ fillN = [b \in B |-> 0] /\ fillP = [b \in B |-> 0]
TReset == IsEv("Reset") /\ q' = [b \in B |-> <<>>] /\ free' = [b \in B |-> 0] /\ alive' = [b \in B |-> FALSE]
          /\ pos' = 0 /\ ret' = <<"init">> /\ fillN' = [b \in B |-> 0] /\ fillP' = [b \in B |-> 0]
TNext ==
  \/ TReset
  \/ IsEv("construct") /\ Construct(Ev.b, Ev.n) /\ Post /\ Touch({Ev.b})          \* Buffer(n): n writable bytes, as documented
  \/ IsEv("destroy") /\ Destroy(Ev.b) /\ Post /\ Touch({Ev.b})
  \/ IsEv("append") /\ BAppend(Ev.b, Ev.n, W(Ev.b)) /\ Ev.ret = Ev.n /\ Post /\ Touch({Ev.b})
  \/ IsEv("ensure") /\ Ensure(Ev.b, Ev.n, W(Ev.b)) /\ Ev.ret = TRUE /\ Post /\ Touch({Ev.b})
  \/ IsEv("commit") /\ Commit(Ev.b, Ev.n) /\ Ev.ret = ret'[2] /\ Post /\ Touch({Ev.b})
  \/ IsEv("fetch") /\ Fetch(Ev.b, Ev.n, W(Ev.b)) /\ Ev.got = ret'[2] /\ Ev.ret = RLen(ret'[2]) /\ Post /\ Touch({Ev.b})
  \/ IsEv("consume") /\ Consume(Ev.b, Ev.n, W(Ev.b)) /\ Post /\ Touch({Ev.b})
  \/ IsEv("consumeall") /\ ConsumeAll(Ev.b, W(Ev.b)) /\ Post /\ Touch({Ev.b})
  \/ IsEv("shrink") /\ Shrink(Ev.b, W(Ev.b)) /\ Post /\ Touch({Ev.b})
  \/ IsEv("reset") /\ Reset(Ev.b, W(Ev.b)) /\ Post /\ Touch({Ev.b})
  \/ IsEv("copyc") /\ CopyConstruct(Ev.b, Ev.s, W(Ev.b)) /\ Post /\ Touch({Ev.b, Ev.s})
  \/ IsEv("copya") /\ CopyAssign(Ev.b, Ev.s, W(Ev.b)) /\ Post /\ Touch({Ev.b, Ev.s})
  \/ IsEv("movec") /\ MoveConstruct(Ev.b, Ev.s, W(Ev.s)) /\ Post /\ Touch({Ev.b, Ev.s})
  \/ IsEv("movea") /\ MoveAssign(Ev.b, Ev.s, W(Ev.s)) /\ Post /\ Touch({Ev.b, Ev.s})
  \/ IsEv("wfill") /\ WFill(Ev.b, Ev.n) /\ Ev.ret = ret'[2] /\ Post
  \/ IsEv("commitp") /\ CommitFilled(Ev.b, Ev.n) /\ Post
  \/ IsEv("swap") /\ Swap(Ev.b, Ev.s) /\ Post /\ Touch({Ev.b, Ev.s})
TSpec == TInit /\ [][TNext]_tvars

Progress == TLCSet(42, IF l > TLCGet(42) THEN l ELSE TLCGet(42))
Accepted == IF TLCGet(42) = Len(Log) + 1 THEN TRUE ELSE PrintT(<<"MAXPOS", TLCGet(42), Len(Log)>>) /\ FALSE
=============================================================================
