--------------------------- MODULE Trace_Buffer ---------------------------
(* Trace validation for C07: every line of the recorded ndjson trace must be *)
(* the corresponding action of the abstract FIFO specification Buffer, with  *)
(* the logged return value, and must lead to the logged projected state of   *)
(* every buffer slot (alive, readable size, writable size, readable bytes).  *)
EXTENDS Buffer, Json, IOUtils
Log == ndJsonDeserialize(IOEnv.TRACE)
VARIABLE l
ASSUME TLCSet(42, 0)
tvars == <<vars, l>>

Ev == Log[l]
IsEv(e) == l <= Len(Log) /\ Log[l].e = e /\ l' = l + 1
W(b) == Log[l].st[b].w
Post == \A b \in B : LET o == Log[l].st[b] IN
           /\ alive'[b] = o.a /\ q'[b] = o.q /\ RLen(q'[b]) = o.r /\ free'[b] = o.w

TInit == Init /\ l = 1
TReset == IsEv("Reset") /\ q' = [b \in B |-> <<>>] /\ free' = [b \in B |-> 0] /\ alive' = [b \in B |-> FALSE]
          /\ pos' = 0 /\ ret' = <<"init">>
TNext ==
  \/ TReset
  \/ IsEv("construct") /\ Construct(Ev.b, Ev.n) /\ Post          \* Buffer(n): n writable bytes, as documented
  \/ IsEv("destroy") /\ Destroy(Ev.b) /\ Post
  \/ IsEv("append") /\ BAppend(Ev.b, Ev.n, W(Ev.b)) /\ Ev.ret = Ev.n /\ Post
  \/ IsEv("ensure") /\ Ensure(Ev.b, Ev.n, W(Ev.b)) /\ Ev.ret = TRUE /\ Post
  \/ IsEv("commit") /\ Commit(Ev.b, Ev.n) /\ Ev.ret = ret'[2] /\ Post
  \/ IsEv("fetch") /\ Fetch(Ev.b, Ev.n, W(Ev.b)) /\ Ev.got = ret'[2] /\ Ev.ret = RLen(ret'[2]) /\ Post
  \/ IsEv("consume") /\ Consume(Ev.b, Ev.n, W(Ev.b)) /\ Post
  \/ IsEv("consumeall") /\ ConsumeAll(Ev.b, W(Ev.b)) /\ Post
  \/ IsEv("shrink") /\ Shrink(Ev.b, W(Ev.b)) /\ Post
  \/ IsEv("reset") /\ Reset(Ev.b, W(Ev.b)) /\ Post
  \/ IsEv("copyc") /\ CopyConstruct(Ev.b, Ev.s, W(Ev.b)) /\ Post
  \/ IsEv("copya") /\ CopyAssign(Ev.b, Ev.s, W(Ev.b)) /\ Post
  \/ IsEv("movec") /\ MoveConstruct(Ev.b, Ev.s, W(Ev.s)) /\ Post
  \/ IsEv("movea") /\ MoveAssign(Ev.b, Ev.s, W(Ev.s)) /\ Post
  \/ IsEv("swap") /\ Swap(Ev.b, Ev.s) /\ Post
TSpec == TInit /\ [][TNext]_tvars

Progress == TLCSet(42, IF l > TLCGet(42) THEN l ELSE TLCGet(42))
Accepted == IF TLCGet(42) = Len(Log) + 1 THEN TRUE ELSE PrintT(<<"MAXPOS", TLCGet(42), Len(Log)>>) /\ FALSE
=============================================================================
