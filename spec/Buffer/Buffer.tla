------------------------------ MODULE Buffer ------------------------------
(* C07 - the byte buffer as its user sees it: an unbounded FIFO byte queue   *)
(* per buffer object plus the advertised writable size.  This is the         *)
(* property-level specification: recorded executions of the real class are   *)
(* validated against it (Trace_Buffer) and the implementation-shaped         *)
(* BufferImpl is checked by TLC to refine it.                                *)
(*                                                                           *)
(* Every byte ever written is the next byte of one global stream (position   *)
(* pos, value pos % P), so queue contents are runs (module Runs).            *)
(* The writable size `free` is implementation freedom except where the API   *)
(* promises something: ensureWritableSize(n) => free >= n, and hasWritten(n) *)
(* moves exactly min(n, free) bytes from the writable area into the queue.   *)
EXTENDS Runs, TLC
CONSTANTS B,        \* buffer object slots
          MaxFree   \* bound of the nondeterministic writable size (model checking only)

VARIABLES q,        \* q[b]     : readable bytes of buffer b (runs), FIFO order
          free,     \* free[b]  : advertised writable size
          alive,    \* alive[b] : the object exists
          pos,      \* next stream position handed to a writer
          ret       \* observable result of the last call
vars == <<q, free, alive, pos, ret>>

Init == /\ q = [b \in B |-> <<>>] /\ free = [b \in B |-> 0] /\ alive = [b \in B |-> FALSE]
        /\ pos = 0 /\ ret = <<"init">>

Upd(f, b, v) == [f EXCEPT ![b] = v]

Construct(b, f) ==    \* Buffer(reserve): empty, f = reserve
  /\ ~alive[b] /\ alive' = Upd(alive, b, TRUE) /\ q' = Upd(q, b, <<>>) /\ free' = Upd(free, b, f)
  /\ UNCHANGED pos /\ ret' = <<"construct">>
Destroy(b) ==
  /\ alive[b] /\ alive' = Upd(alive, b, FALSE) /\ q' = Upd(q, b, <<>>) /\ free' = Upd(free, b, 0)
  /\ UNCHANGED pos /\ ret' = <<"destroy">>

BAppend(b, n, f) ==    \* append(p, n): returns n, bytes are queued whole
  /\ alive[b] /\ q' = Upd(q, b, RCat(q[b], Run(pos, n))) /\ pos' = pos + n
  /\ free' = Upd(free, b, f) /\ UNCHANGED alive /\ ret' = <<"append", n>>
Ensure(b, n, f) ==    \* ensureWritableSize(n): TRUE and at least n writable
  /\ alive[b] /\ f >= n /\ free' = Upd(free, b, f) /\ UNCHANGED <<q, alive, pos>> /\ ret' = <<"ensure", TRUE>>
Commit(b, n) ==       \* the user wrote min(n, free) fresh bytes at writableBegin(), then hasWritten(n)
  LET k == Min(n, free[b]) IN
  /\ alive[b] /\ q' = Upd(q, b, RCat(q[b], Run(pos, k))) /\ pos' = pos + k
  /\ free' = Upd(free, b, free[b] - k) /\ UNCHANGED alive /\ ret' = <<"commit", k>>
\* The reader-side operations (fetch, hasRead, hasReadAll) never take writable space away: a reservation made with
\* ensureWritableSize() is still there when the writer fills and commits it, whatever was read in between.
Fetch(b, n, f) ==     \* fetch(buf, n): the first min(n, size) bytes, removed
  /\ alive[b] /\ f >= free[b] /\ ret' = <<"fetch", RTake(q[b], n)>> /\ q' = Upd(q, b, RDrop(q[b], n))
  /\ free' = Upd(free, b, f) /\ UNCHANGED <<alive, pos>>
Consume(b, n, f) ==   \* hasRead(n): drops n bytes; more than there is drops all
  /\ alive[b] /\ f >= free[b] /\ q' = Upd(q, b, RDrop(q[b], n)) /\ free' = Upd(free, b, f)
  /\ UNCHANGED <<alive, pos>> /\ ret' = <<"consume">>
ConsumeAll(b, f) ==
  /\ alive[b] /\ f >= free[b] /\ q' = Upd(q, b, <<>>) /\ free' = Upd(free, b, f) /\ UNCHANGED <<alive, pos>> /\ ret' = <<"consumeall">>
Shrink(b, f) ==       \* contents unchanged
  /\ alive[b] /\ free' = Upd(free, b, f) /\ UNCHANGED <<q, alive, pos>> /\ ret' = <<"shrink">>
Reset(b, f) ==
  /\ alive[b] /\ q' = Upd(q, b, <<>>) /\ free' = Upd(free, b, f) /\ UNCHANGED <<alive, pos>> /\ ret' = <<"reset">>
CopyConstruct(d, s, f) ==
  /\ ~alive[d] /\ alive[s] /\ alive' = Upd(alive, d, TRUE) /\ q' = Upd(q, d, q[s]) /\ free' = Upd(free, d, f)
  /\ UNCHANGED pos /\ ret' = <<"copyc">>
CopyAssign(d, s, f) ==     \* d = s  (d = s allowed: self assignment changes nothing)
  /\ alive[d] /\ alive[s] /\ q' = Upd(q, d, q[s]) /\ free' = Upd(free, d, IF d = s THEN free[d] ELSE f)
  /\ UNCHANGED <<alive, pos>> /\ ret' = <<"copya">>
MoveConstruct(d, s, fs) == \* the new object takes everything, the source is empty and reusable
  /\ ~alive[d] /\ alive[s] /\ d # s /\ alive' = Upd(alive, d, TRUE)
  /\ q' = [q EXCEPT ![d] = q[s], ![s] = <<>>] /\ free' = [free EXCEPT ![d] = free[s], ![s] = fs]
  /\ UNCHANGED pos /\ ret' = <<"movec">>
MoveAssign(d, s, fs) ==
  /\ alive[d] /\ alive[s]
  /\ IF d = s THEN UNCHANGED <<q, free>>
     ELSE q' = [q EXCEPT ![d] = q[s], ![s] = <<>>] /\ free' = [free EXCEPT ![d] = free[s], ![s] = fs]
  /\ UNCHANGED <<alive, pos>> /\ ret' = <<"movea">>
Swap(a, c) ==
  /\ alive[a] /\ alive[c]
  /\ q' = [q EXCEPT ![a] = q[c], ![c] = q[a]] /\ free' = [free EXCEPT ![a] = free[c], ![c] = free[a]]
  /\ UNCHANGED <<alive, pos>> /\ ret' = <<"swap">>

Sizes == 0..MaxFree
Next ==
  \E b \in B :
    \/ \E f \in Sizes : Construct(b, f)
    \/ Destroy(b)
    \/ \E n \in Sizes, f \in Sizes : BAppend(b, n, f) \/ Ensure(b, n, f) \/ Fetch(b, n, f) \/ Consume(b, n, f)
    \/ \E n \in Sizes : Commit(b, n)
    \/ \E f \in Sizes : ConsumeAll(b, f) \/ Shrink(b, f) \/ Reset(b, f)
    \/ \E s \in B : \/ \E f \in Sizes : CopyConstruct(b, s, f) \/ CopyAssign(b, s, f)
                    \/ \E f \in Sizes : MoveConstruct(b, s, f) \/ MoveAssign(b, s, f)
                    \/ Swap(b, s)
Spec == Init /\ [][Next]_vars

(* ---- properties of the abstract queue (hold by construction of the actions; TLC re-checks them) ---- *)
TypeOK == /\ \A b \in B : free[b] \in Nat /\ (~alive[b] => q[b] = <<>>)
Normal(r) == \A i \in 1..Len(r) : r[i].n > 0 /\ (i < Len(r) => (r[i].s + r[i].n) % P # r[i+1].s)
QueuesNormal == \A b \in B : Normal(q[b])
=============================================================================
