---------------------------- MODULE BufferImpl ----------------------------
(* C07 - implementation-shaped model of tbox::util::Buffer (buffer.cpp):     *)
(* storage of `cap` cells, read/write indices, the three-way policy of       *)
(* ensureWritableSize (fits / compact by memmove / grow to 2*(wr+n) keeping   *)
(* the read offset), clamping hasWritten, snapping hasRead, cloneFrom that    *)
(* copies only the readable window, swap-based move/reset/shrink.             *)
(* Every memmove/memcpy records the cell ranges it touches; `oob` becomes     *)
(* TRUE if a range leaves [0, cap) of the storage it addresses.               *)
(* TLC checks: index sanity, no out-of-storage access, and that every step    *)
(* equals the abstract FIFO queue of module Buffer, carried as the ghost aq.   *)
EXTENDS Runs, TLC
CONSTANTS B, MaxN, Reserves, MaxFree
G == P   \* content of a never-written cell (not a byte value)

VARIABLES cap, rd, wr, mem, alive, pos, ret, oob, aq
vars == <<cap, rd, wr, mem, alive, pos, ret, oob, aq>>

Cells(n) == [i \in 1..n |-> G]
Upd(f, b, v) == [f EXCEPT ![b] = v]
Bytes(s, n) == [i \in 1..n |-> (s + i - 1) % P]          \* the next n stream bytes
Window(b) == SubSeq(mem[b], rd[b] + 1, wr[b])             \* readable cells
\* write sequence v into m starting at cell offset o (0-based); cells outside m are dropped (and flagged by the caller)
Poke(m, o, v) == [i \in 1..Len(m) |-> IF i > o /\ i <= o + Len(v) THEN v[i - o] ELSE m[i]]
InRange(o, n, c) == n = 0 \/ o + n <= c

Init == /\ cap = [b \in B |-> 0] /\ rd = [b \in B |-> 0] /\ wr = [b \in B |-> 0] /\ mem = [b \in B |-> <<>>]
        /\ alive = [b \in B |-> FALSE] /\ pos = 0 /\ ret = <<"init">> /\ oob = FALSE /\ aq = [b \in B |-> <<>>]

(* ensureWritableSize as a state function: resulting [cap, rd, wr, mem, bad] *)
EnsureRes(b, n) ==
  IF n = 0 \/ cap[b] - wr[b] >= n THEN [cap |-> cap[b], rd |-> rd[b], wr |-> wr[b], mem |-> mem[b], bad |-> FALSE]
  ELSE IF (cap[b] - wr[b]) + rd[b] >= n
  THEN \* memmove(buffer, buffer + rd, wr - rd)
       [cap |-> cap[b], rd |-> 0, wr |-> wr[b] - rd[b], mem |-> Poke(mem[b], 0, Window(b)),
        bad |-> ~InRange(rd[b], wr[b] - rd[b], cap[b])]
  ELSE \* new storage of (wr + n) * 2 cells, readable window copied to the same offset
       LET nc == (wr[b] + n) * 2 IN
       [cap |-> nc, rd |-> rd[b], wr |-> wr[b], mem |-> Poke(Cells(nc), rd[b], Window(b)),
        bad |-> ~InRange(rd[b], wr[b] - rd[b], nc) \/ ~InRange(rd[b], wr[b] - rd[b], cap[b])]

Construct(b, r) ==
  /\ ~alive[b] /\ alive' = Upd(alive, b, TRUE) /\ cap' = Upd(cap, b, r) /\ rd' = Upd(rd, b, 0) /\ wr' = Upd(wr, b, 0)
  /\ mem' = Upd(mem, b, Cells(r)) /\ UNCHANGED <<pos, oob>> /\ ret' = <<"construct">> /\ aq' = Upd(aq, b, <<>>)
Destroy(b) ==
  /\ alive[b] /\ alive' = Upd(alive, b, FALSE) /\ cap' = Upd(cap, b, 0) /\ rd' = Upd(rd, b, 0) /\ wr' = Upd(wr, b, 0)
  /\ mem' = Upd(mem, b, <<>>) /\ UNCHANGED <<pos, oob>> /\ ret' = <<"destroy">> /\ aq' = Upd(aq, b, <<>>)
Ensure(b, n) ==
  LET e == EnsureRes(b, n) IN
  /\ alive[b] /\ cap' = Upd(cap, b, e.cap) /\ rd' = Upd(rd, b, e.rd) /\ wr' = Upd(wr, b, e.wr) /\ mem' = Upd(mem, b, e.mem)
  /\ oob' = (oob \/ e.bad) /\ UNCHANGED <<alive, pos>> /\ ret' = <<"ensure", TRUE, b, n>> /\ aq' = aq
\* hasWritten(n) after the user wrote k = min(n, writable) bytes at writableBegin()
Commit(b, n) ==
  LET k == Min(n, cap[b] - wr[b]) IN
  /\ alive[b] /\ mem' = Upd(mem, b, Poke(mem[b], wr[b], Bytes(pos, k)))
  /\ wr' = Upd(wr, b, IF wr[b] + n > cap[b] THEN cap[b] ELSE wr[b] + n)
  /\ pos' = pos + k /\ UNCHANGED <<cap, rd, alive, oob>> /\ ret' = <<"commit", k>> /\ aq' = Upd(aq, b, RCat(aq[b], Run(pos, k)))
\* append = ensure; memcpy(writableBegin, data, n); hasWritten(n)
BAppend(b, n) ==
  LET e == EnsureRes(b, n) IN
  /\ alive[b] /\ cap' = Upd(cap, b, e.cap) /\ rd' = Upd(rd, b, e.rd)
  /\ mem' = Upd(mem, b, Poke(e.mem, e.wr, Bytes(pos, n)))
  /\ wr' = Upd(wr, b, IF e.wr + n > e.cap THEN e.cap ELSE e.wr + n)
  /\ oob' = (oob \/ e.bad \/ ~InRange(e.wr, n, e.cap))
  /\ pos' = pos + n /\ UNCHANGED alive /\ ret' = <<"append", n, n>> /\ aq' = Upd(aq, b, RCat(aq[b], Run(pos, n)))
\* hasRead as a state function
ReadRes(b, n) ==
  IF rd[b] + n > wr[b] THEN [rd |-> 0, wr |-> 0]
  ELSE IF rd[b] + n = wr[b] THEN [rd |-> 0, wr |-> 0] ELSE [rd |-> rd[b] + n, wr |-> wr[b]]
Consume(b, n) ==
  LET r == ReadRes(b, n) IN
  /\ alive[b] /\ rd' = Upd(rd, b, r.rd) /\ wr' = Upd(wr, b, r.wr) /\ UNCHANGED <<cap, mem, alive, pos, oob>> /\ ret' = <<"consume">> /\ aq' = Upd(aq, b, RDrop(aq[b], n))
ConsumeAll(b) ==
  /\ alive[b] /\ rd' = Upd(rd, b, 0) /\ wr' = Upd(wr, b, 0) /\ UNCHANGED <<cap, mem, alive, pos, oob>> /\ ret' = <<"consumeall">> /\ aq' = Upd(aq, b, <<>>)
Fetch(b, n) ==
  LET k == Min(n, wr[b] - rd[b])  r == ReadRes(b, k) IN
  /\ alive[b] /\ ret' = <<"fetch", RunsOf(SubSeq(mem[b], rd[b] + 1, rd[b] + k)), RTake(aq[b], n)>> /\ aq' = Upd(aq, b, RDrop(aq[b], n))
  /\ oob' = (oob \/ ~InRange(rd[b], k, cap[b]))
  /\ rd' = Upd(rd, b, r.rd) /\ wr' = Upd(wr, b, r.wr) /\ UNCHANGED <<cap, mem, alive, pos>>
\* cloneFrom(other): storage of exactly the readable size
CloneRes(s) == LET w == Window(s) IN [cap |-> Len(w), rd |-> 0, wr |-> Len(w), mem |-> w]
CopyConstruct(d, s) ==
  LET c == CloneRes(s) IN
  /\ ~alive[d] /\ alive[s] /\ alive' = Upd(alive, d, TRUE) /\ cap' = Upd(cap, d, c.cap) /\ rd' = Upd(rd, d, 0)
  /\ wr' = Upd(wr, d, c.wr) /\ mem' = Upd(mem, d, c.mem) /\ UNCHANGED <<pos, oob>> /\ ret' = <<"copyc">> /\ aq' = Upd(aq, d, aq[s])
CopyAssign(d, s) ==
  LET c == CloneRes(s) IN
  /\ alive[d] /\ alive[s]
  /\ IF d = s THEN UNCHANGED <<cap, rd, wr, mem>>
     ELSE cap' = Upd(cap, d, c.cap) /\ rd' = Upd(rd, d, 0) /\ wr' = Upd(wr, d, c.wr) /\ mem' = Upd(mem, d, c.mem)
  /\ UNCHANGED <<alive, pos, oob>> /\ ret' = <<"copya">> /\ aq' = Upd(aq, d, aq[s])
Shrink(b) ==      \* Buffer tmp(*this); swap(tmp)
  LET c == CloneRes(b) IN
  /\ alive[b] /\ cap' = Upd(cap, b, c.cap) /\ rd' = Upd(rd, b, 0) /\ wr' = Upd(wr, b, c.wr) /\ mem' = Upd(mem, b, c.mem)
  /\ UNCHANGED <<alive, pos, oob>> /\ ret' = <<"shrink">> /\ aq' = aq
Reset(b) ==       \* Buffer tmp(0); swap(tmp)
  /\ alive[b] /\ cap' = Upd(cap, b, 0) /\ rd' = Upd(rd, b, 0) /\ wr' = Upd(wr, b, 0) /\ mem' = Upd(mem, b, <<>>)
  /\ UNCHANGED <<alive, pos, oob>> /\ ret' = <<"reset">> /\ aq' = Upd(aq, b, <<>>)
SwapF(f, a, c) == [f EXCEPT ![a] = f[c], ![c] = f[a]]
Swap(a, c) ==
  /\ alive[a] /\ alive[c] /\ cap' = SwapF(cap, a, c) /\ rd' = SwapF(rd, a, c) /\ wr' = SwapF(wr, a, c) /\ mem' = SwapF(mem, a, c)
  /\ UNCHANGED <<alive, pos, oob>> /\ ret' = <<"swap">> /\ aq' = SwapF(aq, a, c)
MoveF(f, d, s, z) == [f EXCEPT ![d] = f[s], ![s] = z]
MoveConstruct(d, s) ==   \* fresh (empty, no storage) object swapped with the source
  /\ ~alive[d] /\ alive[s] /\ d # s /\ alive' = Upd(alive, d, TRUE)
  /\ cap' = MoveF(cap, d, s, 0) /\ rd' = MoveF(rd, d, s, 0) /\ wr' = MoveF(wr, d, s, 0) /\ mem' = MoveF(mem, d, s, <<>>)
  /\ UNCHANGED <<pos, oob>> /\ ret' = <<"movec">> /\ aq' = MoveF(aq, d, s, <<>>)
MoveAssign(d, s) ==      \* if (this != &other) { reset(); swap(other); }
  /\ alive[d] /\ alive[s]
  /\ IF d = s THEN UNCHANGED <<cap, rd, wr, mem>>
     ELSE cap' = MoveF(cap, d, s, 0) /\ rd' = MoveF(rd, d, s, 0) /\ wr' = MoveF(wr, d, s, 0) /\ mem' = MoveF(mem, d, s, <<>>)
  /\ UNCHANGED <<alive, pos, oob>> /\ ret' = <<"movea">> /\ aq' = (IF d = s THEN aq ELSE MoveF(aq, d, s, <<>>))

\* sizes worth trying for buffer b: small ones, exactly the free space, one more, everything readable (+1)
Ns(b) == (0..MaxN) \cup {cap[b] - wr[b], cap[b] - wr[b] + 1, (cap[b] - wr[b]) + rd[b], (cap[b] - wr[b]) + rd[b] + 1,
                         wr[b] - rd[b], wr[b] - rd[b] + 1}
NConstruct == \E b \in B, r \in Reserves : Construct(b, r)
NDestroy == \E b \in B : Destroy(b)
NAppend == \E b \in B : \E n \in Ns(b) : BAppend(b, n)
NEnsure == \E b \in B : \E n \in Ns(b) : Ensure(b, n)
NCommit == \E b \in B : \E n \in Ns(b) : Commit(b, n)
NFetch == \E b \in B : \E n \in Ns(b) : Fetch(b, n)
NConsume == \E b \in B : \E n \in Ns(b) : Consume(b, n)
NConsumeAll == \E b \in B : ConsumeAll(b)
NShrink == \E b \in B : Shrink(b)
NReset == \E b \in B : Reset(b)
NCopyConstruct == \E b, s \in B : CopyConstruct(b, s)
NCopyAssign == \E b, s \in B : CopyAssign(b, s)
NMoveConstruct == \E b, s \in B : MoveConstruct(b, s)
NMoveAssign == \E b, s \in B : MoveAssign(b, s)
NSwap == \E b, s \in B : Swap(b, s)
Next == \/ NConstruct \/ NDestroy \/ NAppend \/ NEnsure \/ NCommit \/ NFetch \/ NConsume \/ NConsumeAll \/ NShrink
        \/ NReset \/ NCopyConstruct \/ NCopyAssign \/ NMoveConstruct \/ NMoveAssign \/ NSwap
Spec == Init /\ [][Next]_vars

(* ------------------------------- properties ------------------------------- *)
IndexSanity == \A b \in B : rd[b] <= wr[b] /\ wr[b] <= cap[b] /\ Len(mem[b]) = cap[b]
WithinStorage == ~oob
NoGarbageReadable == \A b \in B : \A i \in 1..Len(Window(b)) : Window(b)[i] # G   \* never presents unwritten cells

(* The FIFO meaning is carried as a ghost: aq[b] is the abstract queue of module Buffer, updated by the   *)
(* abstract rule of each operation (never read by the implementation-shaped part).  Fifo says the        *)
(* readable window always equals it; RetOK says fetch returned its prefix and ensure kept its promise.   *)
Fifo == \A b \in B : RunsOf(Window(b)) = aq[b]
SizeLaw == \A b \in B : wr[b] - rd[b] = RLen(aq[b])
RetOK == /\ (ret[1] = "fetch" => ret[2] = ret[3])
         /\ (ret[1] = "ensure" => cap[ret[3]] - wr[ret[3]] >= ret[4])
         /\ (ret[1] = "append" => ret[2] = ret[3])
=============================================================================
