CONSTANTS
  P = 251
  B = {1, 2}
  MaxN = 3
  Reserves = {0, 1, 4}
  MaxFree = 64
  Depth = 14
SPECIFICATION GSpec
CONSTRAINT Emit
CHECK_DEADLOCK FALSE
