CONSTANTS
  P = 251
  B = {1, 2}
  MaxN = 1
  Reserves = {0, 2}
  MaxFree = 64
  Depth = 4
SPECIFICATION GSpec
CONSTRAINT Emit
CHECK_DEADLOCK FALSE
