CONSTANTS
  P = 251
  B = {1, 2}
  MaxN = 1
  Reserves = {0, 2}
  MaxFree = 64
  MaxPos = 3
  MaxCap = 8
SPECIFICATION Spec
CONSTRAINT Bound
INVARIANTS IndexSanity WithinStorage NoGarbageReadable Fifo SizeLaw RetOK
CHECK_DEADLOCK FALSE
