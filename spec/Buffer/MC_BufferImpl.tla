---- MODULE MC_BufferImpl ----
EXTENDS BufferImpl
CONSTANTS MaxPos, MaxCap
Bound == pos <= MaxPos /\ \A b \in B : cap[b] <= MaxCap
====
