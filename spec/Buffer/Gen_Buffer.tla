---------------------------- MODULE Gen_Buffer ----------------------------
(* Behaviour generator for C07: every operation sequence of the implementation-shaped model up to    *)
(* Depth (BFS) or random deep ones (-simulate) is printed as a JSON script; the C++ driver executes   *)
(* each script on real Buffer objects and the recorded trace is validated against Trace_Buffer.        *)
EXTENDS BufferImpl, Json
CONSTANT Depth
VARIABLE hist
gvars == <<vars, hist>>
Op(o, b, s, n) == [o |-> o, b |-> b, s |-> s, n |-> n]
H(o, b, s, n) == hist' = Append(hist, Op(o, b, s, n))
GInit == Init /\ hist = <<>>
GNext ==
  \E b \in B :
    \/ \E r \in Reserves : Construct(b, r) /\ H("construct", b, 0, r)
    \/ Destroy(b) /\ H("destroy", b, 0, 0)
    \/ \E n \in Ns(b) : \/ BAppend(b, n) /\ H("append", b, 0, n)
                        \/ Ensure(b, n) /\ H("ensure", b, 0, n)
                        \/ Commit(b, n) /\ H("commit", b, 0, n)
                        \/ Fetch(b, n) /\ H("fetch", b, 0, n)
                        \/ Consume(b, n) /\ H("consume", b, 0, n)
    \/ ConsumeAll(b) /\ H("consumeall", b, 0, 0)
    \/ Shrink(b) /\ H("shrink", b, 0, 0)
    \/ Reset(b) /\ H("reset", b, 0, 0)
    \/ \E s \in B : \/ CopyConstruct(b, s) /\ H("copyc", b, s, 0)
                    \/ CopyAssign(b, s) /\ H("copya", b, s, 0)
                    \/ MoveConstruct(b, s) /\ H("movec", b, s, 0)
                    \/ MoveAssign(b, s) /\ H("movea", b, s, 0)
                    \/ Swap(b, s) /\ H("swap", b, s, 0)
GSpec == GInit /\ [][GNext]_gvars
Emit == IF Len(hist) >= Depth THEN PrintT("BEH " \o ToJson(hist)) /\ FALSE ELSE TRUE
====
