CONSTANTS
  P = 251
  B = {1}
  MaxN = 3
  Reserves = {0, 1, 4}
  MaxFree = 64
  MaxPos = 8
  MaxCap = 40
SPECIFICATION Spec
CONSTRAINT Bound
INVARIANTS IndexSanity WithinStorage NoGarbageReadable Fifo SizeLaw RetOK
CHECK_DEADLOCK FALSE
