CONSTANTS
  P = 251
  B = {1, 2}
  MaxN = 2
  Reserves = {0, 1, 4}
  MaxFree = 64
  MaxPos = 4
  MaxCap = 12
SPECIFICATION Spec
CONSTRAINT Bound
INVARIANTS IndexSanity WithinStorage NoGarbageReadable Fifo SizeLaw RetOK
CHECK_DEADLOCK FALSE
