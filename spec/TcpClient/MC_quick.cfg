CONSTANTS
  Bugs = {}
  MaxOps = 7
  Kinds = {"connector", "client"}
  Fams = {"unix", "tcp"}
  TriesSet = {0, 1, 2}
  MaxData = 2
  Rearm = FALSE
SPECIFICATION Spec
CONSTRAINT Bound
INVARIANTS TypeOK NoUB Promises ArmedMatchesState QuietWhenIdle StartedMatchesState TryLimit ClientMatchesConnector PeerOnlyWhenConnected OncePerCall
CHECK_DEADLOCK FALSE
