------------------------- MODULE Gen_TcpClient -------------------------
(* Behaviour generator for E07.  Every execution configuration is an initial state; the calls made are recorded in  *)
(* `hist`.  With VIEW GView the history is not part of the state identity: TLC then reaches every distinct model     *)
(* state (including the events of the last call) of depth Depth by one call sequence, which is printed as a script   *)
(* for the driver ("state coverage").  Without the VIEW (Gen_paths.cfg) every call sequence is printed.              *)
EXTENDS MC_TcpClient, Json, TLC
CONSTANTS Depth, MaxArms, Warm      \* Warm: subset of {"cold", "warm"}: start from a fresh object / from the state after init, listen, start, pass
VARIABLE hist
gvars == <<vars, hist>>
GView == vars
H(o, n) == hist' = Append(hist, [o |-> o, n |-> n])
XListen(X) == [X EXCEPT !.lis = "up"]
WarmState(X0) == [DoPass(Clr(XStart(Clr(XListen(Clr(XInit(Clr(X0)))))))) EXCEPT !.r = 0]
WarmHist == <<[o |-> "init", n |-> 0], [o |-> "listen", n |-> 0], [o |-> "start", n |-> 0], [o |-> "pass", n |-> 0]>>
GInit == /\ \E k \in Kinds, f \in Fams, w \in Warm : \E c \in Cfgs(k) :
              /\ Cardinality({x \in DOMAIN c.arm : c.arm[x] # "none"}) <= MaxArms      \* callbacks that call the API
              /\ S = IF w = "cold" THEN S0(k, f, c) ELSE WarmState(S0(k, f, c))
              /\ hist = IF w = "cold" THEN <<>> ELSE WarmHist
         /\ lastop = "begin" /\ nops = 0
GNext == \/ InitOp /\ H("init", 0)
         \/ ListenOp /\ H("listen", 0)
         \/ UnlistenOp /\ H("unlisten", 0)
         \/ StartOp /\ H("start", 0)
         \/ StopOp /\ H("stop", 0)
         \/ CleanupOp /\ H("cleanup", 0)
         \/ \E ms \in {500, 1000} : S.tmr # -1 /\ S.now < S.tmr + 1000 /\ AdvOp(ms) /\ H("adv", ms)
         \/ PassOp /\ H("pass", 0)
         \/ \E n \in 1..MaxData : S.tx + n <= MaxData /\ SendOp(n) /\ H("send", n)
         \/ ShutdownOp /\ H("shutdown", 0)
         \/ \E n \in 1..MaxData : S.rx + S.rxoff + n <= MaxData /\ PSendOp(n) /\ H("psend", n)
         \/ PCloseOp /\ H("pclose", 0)
GSpec == GInit /\ [][GNext]_gvars
EmitBeh == IF nops >= Depth
           THEN PrintT("BEH " \o ToJson([kind |-> S.kind, fam |-> S.fam, cfg |-> S.cfg, ops |-> hist])) /\ FALSE
           ELSE TRUE
=============================================================================
