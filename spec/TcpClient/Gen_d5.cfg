CONSTANTS
  Bugs = {}
  MaxOps = 99
  Kinds = {"connector", "client"}
  Fams = {"unix", "tcp"}
  TriesSet = {0, 1, 2}
  MaxData = 2
  Rearm = FALSE
  Depth = 5
  MaxArms = 1
  Warm = {"cold", "warm"}
SPECIFICATION GSpec
VIEW GView
CONSTRAINT EmitBeh
CHECK_DEADLOCK FALSE
