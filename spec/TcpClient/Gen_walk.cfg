CONSTANTS
  Bugs = {}
  MaxOps = 99
  Kinds = {"connector", "client"}
  Fams = {"unix", "tcp"}
  TriesSet = {0, 1, 2}
  MaxData = 40
  Rearm = FALSE
  Depth = 12
  MaxArms = 3
  Warm = {"cold", "warm"}
SPECIFICATION GSpec
CONSTRAINT EmitBeh
CHECK_DEADLOCK FALSE
