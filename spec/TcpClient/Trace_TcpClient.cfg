CONSTANTS
  Bugs = {}
SPECIFICATION TSpec
CONSTRAINT Progress
POSTCONDITION Accepted
INVARIANTS TypeOK NoUB Promises ArmedMatchesState QuietWhenIdle StartedMatchesState
CHECK_DEADLOCK FALSE
