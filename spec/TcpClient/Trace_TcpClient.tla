------------------------ MODULE Trace_TcpClient ------------------------
(* Trace validation for E07.  An execution is  Begin (configuration), calls, destroy, Reset.  Every recorded call must be  *)
(* the corresponding action of TcpClient.tla (repaired code, Bugs = {}); the callback / reaction lines recorded after it    *)
(* must be exactly the events the model computes for that call, in order (S.out); the closing `ret` line must carry the     *)
(* model's return value, state() and what the driver's end of the connection has received (bytes, end of stream).           *)
EXTENDS TcpClient, Json, IOUtils, TLC
TLog == ndJsonDeserialize(IOEnv.TRACE)
VARIABLES l, inop
ASSUME TLCSet(42, 0)
tvars == <<vars, l, inop>>

Ln == TLog[l]
IsEv(e) == l <= Len(TLog) /\ TLog[l].e = e /\ l' = l + 1
Call(e) == IsEv(e) /\ ~inop /\ inop' = TRUE

Blank == S0("connector", "unix", [tries |-> 0, hasfail |-> FALSE, dly |-> 0, autorc |-> TRUE,
                                  arm |-> [C |-> "none", F |-> "none", D |-> "none", R |-> "none"]])
TInit == S = Blank /\ lastop = "reset" /\ nops = 0 /\ l = 1 /\ inop = FALSE
TBegin == /\ IsEv("Begin") /\ ~inop /\ lastop = "reset"
          /\ Ln.kind \in {"connector", "client"} /\ Ln.fam \in {"unix", "tcp"}
          /\ S' = S0(Ln.kind, Ln.fam, [tries |-> Ln.tries, hasfail |-> (Ln.hasfail = 1), dly |-> Ln.dly, autorc |-> (Ln.autorc = 1),
                                       arm |-> [C |-> Ln.arm.C, F |-> Ln.arm.F, D |-> Ln.arm.D, R |-> Ln.arm.R]])
          /\ lastop' = "begin" /\ nops' = 0 /\ UNCHANGED inop
TReset == /\ IsEv("Reset") /\ ~inop /\ lastop = "destroy"
          /\ lastop' = "reset" /\ UNCHANGED <<S, nops, inop>>
TEvent == /\ l <= Len(TLog) /\ inop /\ S.out # <<>>
          /\ Ln.e = Head(S.out).e /\ Ln.a = Head(S.out).a /\ Ln.b = Head(S.out).b
          /\ l' = l + 1 /\ S' = [S EXCEPT !.out = Tail(@)] /\ UNCHANGED <<lastop, nops, inop>>
StateName == IF S.kind = "connector" THEN S.cs ELSE S.st
TRet == /\ IsEv("ret") /\ inop /\ S.out = <<>>
        /\ Ln.v = S.r /\ Ln.st = StateName
        /\ Ln.pg = (IF S.st = "connected" THEN S.tx ELSE 0)
        /\ Ln.pe = (IF S.st = "connected" /\ S.peof THEN 1 ELSE 0)
        /\ inop' = FALSE /\ UNCHANGED vars
TNext == \/ TBegin \/ TReset \/ TEvent \/ TRet
         \/ Call("init") /\ InitOp
         \/ Call("listen") /\ ListenOp
         \/ Call("unlisten") /\ UnlistenOp
         \/ Call("start") /\ StartOp
         \/ Call("stop") /\ StopOp
         \/ Call("cleanup") /\ CleanupOp
         \/ Call("adv") /\ Ln.n \in 0..100000 /\ AdvOp(Ln.n)
         \/ Call("pass") /\ PassOp
         \/ Call("arm") /\ Ln.w \in {"C", "F", "D", "R"} /\ Ln.a \in ArmVals /\ ArmOp(Ln.w, Ln.a)
         \/ Call("send") /\ Ln.n \in 1..1000 /\ SendOp(Ln.n)
         \/ Call("shutdown") /\ ShutdownOp
         \/ Call("psend") /\ Ln.n \in 1..1000 /\ PSendOp(Ln.n)
         \/ Call("pclose") /\ PCloseOp
         \/ Call("destroy") /\ DestroyOp
TSpec == TInit /\ [][TNext]_tvars

Progress == TLCSet(42, IF l > TLCGet(42) THEN l ELSE TLCGet(42))
Accepted == IF TLCGet(42) = Len(TLog) + 1 THEN TRUE ELSE PrintT(<<"MAXPOS", TLCGet(42), Len(TLog)>>) /\ FALSE
=============================================================================
