CONSTANTS
  Bugs = {}
  MaxOps = 8
  Kinds = {"connector", "client"}
  Fams = {"unix", "tcp"}
  TriesSet = {0, 1, 2}
  MaxData = 3
  Rearm = TRUE
SPECIFICATION Spec
CONSTRAINT Bound
INVARIANTS TypeOK NoUB Promises ArmedMatchesState QuietWhenIdle StartedMatchesState TryLimit ClientMatchesConnector PeerOnlyWhenConnected OncePerCall
CHECK_DEADLOCK FALSE
