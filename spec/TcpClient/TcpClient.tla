----------------------------- MODULE TcpClient -----------------------------
(* E07 - tbox::network::TcpConnector (tcp_connector.h/.cpp) and tbox::network::TcpClient (tcp_client.h/.cpp).         *)
(*                                                                                                                    *)
(* One record S, shaped like the C++ objects, so that every public call and every loop callback is an operator that    *)
(* can be called from inside another one (the user's callbacks call the API again: "reactions").                       *)
(*   connector (a TcpConnector on its own, kind = "connector"; or the one inside a TcpClient, kind = "client")         *)
(*     cs       TcpConnector::state(): none inited connecting delay (kReconnectDelay)                                  *)
(*     wev      sp_write_ev_: "none" no connect() in flight; "ok" / "refused": the armed write event and what the       *)
(*              kernel will report for it (decided when connect() was called, from the listener's state)              *)
(*     tmr      sp_delay_ev_: -1 not armed, else the virtual time (ms) at which the reconnect delay expires            *)
(*     fails    conn_fail_times_;  tries  try_times_ (0: for ever);  hasfail  connect-fail callback set               *)
(*     dly      0: default delay strategy (1 s); k > 0: user strategy  k * fails  seconds (recorded as DelayCalc)       *)
(*   client                                                                                                           *)
(*     st       TcpClient::state(): none inited connecting connected;  autorc  setAutoReconnect                       *)
(*     peer     the driver's end of the current connection: none open closed (closed, the client has not noticed yet)  *)
(*     rx rxoff bytes written by the peer and not yet delivered / already delivered on this connection                *)
(*     tx shut  bytes accepted by send() on this connection / shutdown(SHUT_WR) done;  peof  the peer has read the end    *)
(*   environment: lis (listener up / down), now (virtual clock, ms), fam (unix: connect() fails at once when nobody     *)
(*     listens and succeeds at once otherwise; tcp: always EINPROGRESS, the verdict comes with the write event)       *)
(*   arm[w]     what the user's callback w does when it is called next (one shot): C connected, F connect-fail,        *)
(*              D disconnected, R receive: none | start | stop | cleanup | send                                        *)
(*   out        observable events of the current call in order;  r  return value of the last API call (0/1)           *)
(*   started    ghost: start() returned true and neither stop()/cleanup() was called nor the final callback delivered  *)
(*   viol bad   ghost: broken promises / undefined behaviour                                                          *)
(*                                                                                                                    *)
(* One loop pass serves the expired delay timer, else the armed write event, else the readable connection (data, or  *)
(* - in a later pass - the end of the stream): these sources exclude one another, and what a callback arms is served   *)
(* in the next pass (epoll_wait of this pass has already returned).                                                  *)
(*                                                                                                                    *)
(* Bugs (as-found switch):                                                                                            *)
(*   "failcb_state"  the connect-fail callback was called while state() still said connecting / delay although the     *)
(*                   write event / timer had already been given up, and the state was set to inited only afterwards:   *)
(*                   stop() or cleanup() inside that callback dereferenced the null event pointer, start() inside it   *)
(*                   was refused.                                                                                      *)
EXTENDS Integers, Sequences, FiniteSets
CONSTANTS Bugs

VARIABLES S, lastop, nops
vars == <<S, lastop, nops>>

ArmVals == {"none", "start", "stop", "cleanup", "send"}
Ev(X, e, a, b) == [X EXCEPT !.out = Append(@, [e |-> e, a |-> a, b |-> b])]
Flag(X, w) == [X EXCEPT !.viol = @ \cup {w}]
Clr(X) == [X EXCEPT !.out = <<>>, !.r = 0]

\* a user callback of the connector that ends a start(): promised only between a successful start() and stop()
EvFinal(X, e) == Ev([(IF X.started THEN X ELSE Flag(X, e \o " although not started")) EXCEPT !.started = FALSE], e, 0, 0)

CloseConn(X) == [X EXCEPT !.peer = "none", !.rx = 0, !.rxoff = 0, !.tx = 0, !.shut = FALSE, !.peof = FALSE]

RECURSIVE DoStart(_), Connect(_), ConnFail(_), React(_, _), Api(_, _), Writable(_), CStart(_), CStop(_), CCleanup(_),
          DoStop(_), DoCleanup(_)

\* ---------------------------------------------------------------- TcpConnector ----------------------------------
DoStop(X) ==                                                               \* TcpConnector::stop()
  LET X0 == [X EXCEPT !.started = FALSE, !.r = 0] IN
  IF X0.cs = "connecting"
  THEN (IF X0.wev = "none" THEN [X0 EXCEPT !.bad = @ \cup {"stop(): null write event"}, !.cs = "inited"]
        ELSE [X0 EXCEPT !.wev = "none", !.cs = "inited"])
  ELSE IF X0.cs = "delay"
  THEN (IF X0.tmr = -1 THEN [X0 EXCEPT !.bad = @ \cup {"stop(): null delay timer"}, !.cs = "inited"]
        ELSE [X0 EXCEPT !.tmr = -1, !.cs = "inited"])
  ELSE X0

DoCleanup(X) ==                                                            \* TcpConnector::cleanup()
  IF X.cs = "none" THEN [X EXCEPT !.started = FALSE, !.r = 0]
  ELSE [DoStop(X) EXCEPT !.cs = "none", !.tries = 0, !.hasfail = FALSE, !.dly = 0, !.fails = 0, !.r = 0]

ConnFail(X) ==                                                             \* TcpConnector::onConnectFail()
  LET X1 == [X EXCEPT !.fails = @ + 1] IN
  IF X1.tries > 0 /\ X1.fails >= X1.tries
  THEN LET X2 == IF "failcb_state" \in Bugs THEN X1 ELSE [X1 EXCEPT !.cs = "inited"]
           X3 == IF X2.hasfail THEN React(EvFinal(X2, "ConnectFail"), "F") ELSE [X2 EXCEPT !.started = FALSE]
       IN IF "failcb_state" \in Bugs THEN [X3 EXCEPT !.cs = "inited"] ELSE X3
  ELSE LET X2 == IF X1.dly = 0 THEN X1 ELSE Ev(X1, "DelayCalc", X1.fails, 0)
           secs == IF X1.dly = 0 THEN 1 ELSE X1.dly * X1.fails
       IN [X2 EXCEPT !.cs = "delay", !.tmr = X2.now + 1000 * secs]

Connect(X) ==                                                              \* TcpConnector::enterConnectingState()
  IF X.fam = "unix" /\ X.lis = "down" THEN ConnFail(X)                       \* ECONNREFUSED / ENOENT at once
  ELSE [X EXCEPT !.cs = "connecting", !.wev = IF X.lis = "up" THEN "ok" ELSE "refused"]

DoStart(X) ==                                                              \* TcpConnector::start()
  IF X.cs # "inited" THEN [X EXCEPT !.r = 0]
  ELSE [Connect([X EXCEPT !.fails = 0, !.started = TRUE]) EXCEPT !.r = 1]

ClientConnected(X) ==                                                      \* TcpClient::onTcpConnected()
  React(Ev([X EXCEPT !.st = "connected", !.peer = "open", !.rx = 0, !.rxoff = 0, !.tx = 0, !.shut = FALSE,
                     !.peof = FALSE, !.started = FALSE], "Connected", 0, 0), "C")

Writable(X) ==                                                             \* TcpConnector::onSocketWritable()
  LET X1 == [X EXCEPT !.wev = "none"] IN                                     \* exitConnectingState()
  IF X.wev = "ok"
  THEN (IF X.kind = "connector" THEN React(EvFinal([X1 EXCEPT !.cs = "inited"], "Connected"), "C")
        ELSE ClientConnected([X1 EXCEPT !.cs = "inited"]))
  ELSE ConnFail(X1)

DelayTimeout(X) == Connect([X EXCEPT !.tmr = -1])                          \* TcpConnector::onDelayTimeout()

\* ---------------------------------------------------------------- TcpClient -------------------------------------
CStart(X) ==                                                               \* TcpClient::start()
  IF X.st # "inited" THEN [X EXCEPT !.r = 0] ELSE DoStart([X EXCEPT !.st = "connecting"])

CStop(X) ==                                                                \* TcpClient::stop()
  IF X.st = "connecting" THEN DoStop([X EXCEPT !.st = "inited"])
  ELSE IF X.st = "connected" THEN [CloseConn(X) EXCEPT !.st = "inited", !.r = 0]
  ELSE [X EXCEPT !.r = 0]

CCleanup(X) ==                                                             \* TcpClient::cleanup()
  IF X.st = "none" THEN [X EXCEPT !.r = 0]
  ELSE [DoCleanup(CStop(X)) EXCEPT !.st = "none", !.autorc = TRUE, !.r = 0]

CSend(X, n) == IF X.st = "connected" THEN [X EXCEPT !.tx = IF X.peer = "open" /\ ~X.shut THEN @ + n ELSE @, !.r = 1]   \* bytes for a closed peer / after SHUT_WR are lost
               ELSE [X EXCEPT !.r = 0]
CShutdown(X, rr) ==                                                        \* TcpClient::shutdown(SHUT_WR)
  IF X.st = "connected"
  THEN [X EXCEPT !.shut = TRUE, !.peof = @ \/ X.peer = "open", !.r = rr]     \* the peer reads the end of the stream
  ELSE [X EXCEPT !.r = 0]
\* kernel: once the peer's socket is gone a TCP socket may already be closed (FIN both ways, or reset after a send into the
\* void): shutdown() then says ENOTCONN - not cpp-tbox's business, both answers are accepted
ShutRets(X) == IF X.st = "connected" /\ X.fam = "tcp" /\ X.peer = "closed" THEN {0, 1} ELSE {1}

Receive(X) ==                                                              \* BufferedFd read -> receive callback
  React(Ev([X EXCEPT !.rxoff = @ + X.rx, !.rx = 0], "Recv", X.rxoff % 251, X.rx), "R")

Disconnect(X) ==                                                           \* read 0 -> TcpClient::onTcpDisconnected()
  LET X1 == [CloseConn(X) EXCEPT !.st = "inited"]
      X2 == IF X1.autorc THEN CStart(X1) ELSE X1
  IN React(Ev(X2, "Disconnected", 0, 0), "D")

\* ---------------------------------------------------------------- reactions -------------------------------------
Api(X, op) ==
  IF X.kind = "connector"
  THEN CASE op = "start" -> DoStart(X) [] op = "stop" -> DoStop(X) [] op = "cleanup" -> DoCleanup(X) [] OTHER -> X
  ELSE CASE op = "start" -> CStart(X) [] op = "stop" -> CStop(X) [] op = "cleanup" -> CCleanup(X)
         [] op = "send" -> CSend(X, 1) [] OTHER -> X

React(X, w) ==
  IF X.arm[w] = "none" THEN X
  ELSE LET X1 == Api(Ev([X EXCEPT !.arm[w] = "none"], "React_" \o X.arm[w], 0, 0), X.arm[w])
       IN Ev(X1, "ReactRet", X1.r, 0)

\* one loop pass
DoPass(X) ==
  IF X.tmr # -1 /\ X.now >= X.tmr THEN DelayTimeout(X)
  ELSE IF X.wev # "none" THEN Writable(X)
  ELSE IF X.kind = "client" /\ X.st = "connected" /\ X.rx > 0 THEN Receive(X)
  ELSE IF X.kind = "client" /\ X.st = "connected" /\ X.peer = "closed" THEN Disconnect(X)
  ELSE X

\* ---------------------------------------------------------------- the state machine -----------------------------
\* c: configuration of an execution [tries, hasfail, dly, autorc, arm]
S0(k, f, c) == [kind |-> k, fam |-> f, cfg |-> c,
                cs |-> "none", wev |-> "none", tmr |-> -1, fails |-> 0, tries |-> 0, hasfail |-> FALSE, dly |-> 0,
                st |-> "none", autorc |-> TRUE, peer |-> "none", rx |-> 0, rxoff |-> 0, tx |-> 0, shut |-> FALSE, peof |-> FALSE,
                lis |-> "down", now |-> 0, arm |-> c.arm, out |-> <<>>, r |-> 0,
                started |-> FALSE, viol |-> {}, bad |-> {}]

Alive == lastop \notin {"destroy", "reset"}
Op(name, X) == /\ Alive /\ S' = X /\ lastop' = name /\ nops' = nops + 1
IsCn == S.kind = "connector"
IsCl == S.kind = "client"

\* initialize() + the setters, with the configuration of the execution
XInit(X) == IF X.kind = "connector"
            THEN [X EXCEPT !.cs = "inited", !.tries = X.cfg.tries, !.hasfail = X.cfg.hasfail, !.dly = X.cfg.dly]
            ELSE IF X.st # "none" THEN X                                             \* initialize() returns false
            ELSE [X EXCEPT !.st = "inited", !.cs = "inited", !.autorc = X.cfg.autorc, !.r = 1]
XStart(X) == IF X.kind = "connector" THEN DoStart(X) ELSE CStart(X)
XStop(X) == IF X.kind = "connector" THEN DoStop(X) ELSE CStop(X)
XCleanup(X) == IF X.kind = "connector" THEN DoCleanup(X) ELSE CCleanup(X)
InitOp == (IsCn => S.cs = "none") /\ Op("init", XInit(Clr(S)))
ListenOp == S.lis = "down" /\ Op("listen", [Clr(S) EXCEPT !.lis = "up"])
UnlistenOp == S.lis = "up" /\ Op("unlisten", [Clr(S) EXCEPT !.lis = "down"])
StartOp == Alive /\ Op("start", XStart(Clr(S)))
StopOp == Alive /\ Op("stop", XStop(Clr(S)))
CleanupOp == Alive /\ Op("cleanup", XCleanup(Clr(S)))
AdvOp(ms) == Alive /\ Op("adv", [Clr(S) EXCEPT !.now = @ + ms])
PassOp == Alive /\ Op("pass", [DoPass(Clr(S)) EXCEPT !.r = 0])
ArmOp(w, a) == Alive /\ Op("arm", [Clr(S) EXCEPT !.arm[w] = a])
SendOp(n) == IsCl /\ S.peer # "closed" /\ Op("send", CSend(Clr(S), n))      \* assumption: no send() after the peer is known to have closed
ShutdownOp == IsCl /\ \E rr \in ShutRets(S) : Op("shutdown", CShutdown(Clr(S), rr))
PSendOp(n) == IsCl /\ S.st = "connected" /\ S.peer = "open" /\ Op("psend", [Clr(S) EXCEPT !.rx = @ + n])
PCloseOp == IsCl /\ S.st = "connected" /\ S.peer = "open" /\ Op("pclose", [Clr(S) EXCEPT !.peer = "closed"])
DestroyOp == Alive /\ Op("destroy", XCleanup(Clr(S)))      \* destructors: cleanup()

\* ---------------------------------------------------------------- properties ------------------------------------
CStates == {"none", "inited", "connecting", "delay"}
TypeOK == /\ S.cs \in CStates /\ S.wev \in {"none", "ok", "refused"} /\ S.tmr \in Int /\ S.fails \in Nat
          /\ S.st \in {"none", "inited", "connecting", "connected"} /\ S.peer \in {"none", "open", "closed"}
          /\ S.r \in {0, 1} /\ \A w \in DOMAIN S.arm : S.arm[w] \in ArmVals
NoUB == S.bad = {}
Promises == S.viol = {}                          \* Connected / ConnectFail only for a start() that is still in force
\* the events armed in the loop are exactly those of the state shown: nothing can fire in none / inited
ArmedMatchesState == /\ (S.wev # "none") <=> (S.cs = "connecting")
                     /\ (S.tmr # -1) <=> (S.cs = "delay")
QuietWhenIdle == S.cs \in {"none", "inited"} => S.wev = "none" /\ S.tmr = -1 /\ ~S.started
StartedMatchesState == S.started <=> S.cs \in {"connecting", "delay"}
TryLimit == S.tries > 0 /\ S.cs \in {"connecting", "delay"} => S.fails < S.tries
ClientMatchesConnector == IsCl => /\ (S.st = "connecting") <=> (S.cs \in {"connecting", "delay"})
                                  /\ (S.st = "none") <=> (S.cs = "none")
                                  /\ S.st \in {"inited", "connected"} => S.cs = "inited"
PeerOnlyWhenConnected == S.st # "connected" => S.peer = "none" /\ S.rx = 0 /\ S.tx = 0 /\ ~S.shut /\ ~S.peof
\* per call: at most one Disconnected, and a final callback of the connector only directly after a (re)start
CountEv(e) == Cardinality({i \in 1..Len(S.out) : S.out[i].e = e})
OncePerCall == CountEv("Disconnected") <= 1
=============================================================================
