---- MODULE MC_TcpClient ----
(* Bounded models of TcpClient.tla: every configuration of an execution (kind, family, try limit, callbacks set, delay *)
(* strategy, auto-reconnect, what the callbacks do when first called) is an initial state.                           *)
EXTENDS TcpClient
CONSTANTS MaxOps, Kinds, Fams, TriesSet, MaxData, Rearm

CnArms == [C : {"none", "start", "stop", "cleanup"}, F : {"none", "start", "stop", "cleanup"}, D : {"none"}, R : {"none"}]
ClArms == [C : {"none", "stop", "cleanup", "send"}, F : {"none"}, D : {"none", "start", "stop", "cleanup"},
           R : {"none", "stop", "cleanup", "send"}]
Cfgs(k) == IF k = "connector"
           THEN [tries : TriesSet, hasfail : BOOLEAN, dly : {0, 1}, autorc : {TRUE}, arm : CnArms]
           ELSE [tries : {0}, hasfail : {FALSE}, dly : {0}, autorc : BOOLEAN, arm : ClArms]

Init == /\ \E k \in Kinds, f \in Fams : \E c \in Cfgs(k) : S = S0(k, f, c)
        /\ lastop = "begin" /\ nops = 0

Adv == \E ms \in {500, 1000} : S.tmr # -1 /\ S.now < S.tmr /\ AdvOp(ms)
Arm == /\ Rearm
       /\ \E w \in {"C", "F", "D", "R"} : S.arm[w] = "none" /\
             \E a \in (IF S.kind = "connector" THEN CnArms ELSE ClArms) : a[w] # "none" /\ ArmOp(w, a[w])
Send == \E n \in 1..MaxData : S.tx + n <= MaxData /\ SendOp(n)
PSend == \E n \in 1..MaxData : S.rx + S.rxoff + n <= MaxData /\ PSendOp(n)

Next == \/ InitOp \/ ListenOp \/ UnlistenOp \/ StartOp \/ StopOp \/ CleanupOp \/ Adv \/ PassOp \/ Arm
        \/ Send \/ ShutdownOp \/ PSend \/ PCloseOp \/ DestroyOp
Spec == Init /\ [][Next]_vars
Bound == nops <= MaxOps
====
