CONSTANTS
  Variant = "reverse_scan"
  StopOrders = {0}
  Family = "flat2q"
  MaxDepth = 0
SPECIFICATION MCSpec
VIEW MCView
INVARIANTS FirstMatchingRoute
CHECK_DEADLOCK FALSE
