CONSTANTS
  Variant = "route_bound_early"
  StopOrders = {0}
  Family = "nestq"
  MaxDepth = 0
SPECIFICATION MCSpec
VIEW MCView
INVARIANTS DefinedActionsRun
CHECK_DEADLOCK FALSE
