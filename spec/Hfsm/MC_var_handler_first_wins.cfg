CONSTANTS
  Variant = "handler_first_wins"
  StopOrders = {0}
  Family = "dupq"
  MaxDepth = 0
SPECIFICATION MCSpec
VIEW MCView
INVARIANTS HandlerBeforeRoutes
CHECK_DEADLOCK FALSE
