CONSTANTS
  Variant = "parent_first"
  StopOrders = {0}
  Family = "nestq"
  MaxDepth = 0
SPECIFICATION MCSpec
VIEW MCView
INVARIANTS SubMachineFirstUntilTerminated
CHECK_DEADLOCK FALSE
