CONSTANTS
  Variant = "handler_ignored"
  StopOrders = {0}
  Family = "flat2q"
  MaxDepth = 0
SPECIFICATION MCSpec
VIEW MCView
INVARIANTS HandlerBeforeRoutes
CHECK_DEADLOCK FALSE
