CONSTANTS
  Variant = "stop_keeps_sub"
  StopOrders = {0}
  Family = "nestq"
  MaxDepth = 0
SPECIFICATION MCSpec
VIEW MCView
INVARIANTS EnterExitBalanced
CHECK_DEADLOCK FALSE
