------------------------------ MODULE Gen_Hfsm ------------------------------
(* Behaviour generator for C16: for the programs of a family, every call sequence of length Depth (BFS) or random  *)
(* long ones (-simulate) is printed; the C++ driver executes them on real StateMachine objects and the recorded    *)
(* trace is validated against Trace_Hfsm.  Lines: the program table ("tab") once per program, then [pi, calls].     *)
EXTENDS MC_Hfsm, Json
CONSTANT Depth
VARIABLE hist
gvars == <<mvars, hist>>
GInit == MCInit /\ hist = <<>>
GNext == MCNext /\ hist' = Append(hist, lastCall') /\ (hist = <<>> => lastCall' = <<1, 0>>)    \* every behaviour begins with start()
GSpec == GInit /\ [][GNext]_gvars
EmitBeh == /\ Len(hist) = 0 => PrintT("BEH " \o ToJson([tab |-> pi, p |-> prog]))
        /\ IF Len(hist) >= Depth THEN PrintT("BEH " \o ToJson([pi |-> pi, calls |-> hist])) /\ FALSE ELSE TRUE
=============================================================================
