CONSTANTS
  Variant = "stuck_parent"
  StopOrders = {0}
  Family = "nestq"
  MaxDepth = 0
SPECIFICATION MCSpec
VIEW MCView
INVARIANTS SubMachineFirstUntilTerminated
CHECK_DEADLOCK FALSE
