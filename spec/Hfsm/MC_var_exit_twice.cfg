CONSTANTS
  Variant = "exit_twice"
  StopOrders = {0}
  Family = "flat2q"
  MaxDepth = 0
SPECIFICATION MCSpec
VIEW MCView
INVARIANTS OncePerTransition
CHECK_DEADLOCK FALSE
