CONSTANTS
  Variant = "ref"
  StopOrders = {0}
  Family = "nestq"
  MaxDepth = 0
  Depth = 4
SPECIFICATION GSpec
CONSTRAINT EmitBeh
CHECK_DEADLOCK FALSE
