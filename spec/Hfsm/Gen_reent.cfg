CONSTANTS
  Variant = "ref"
  StopOrders = {0}
  Family = "reent"
  MaxDepth = 0
  Depth = 10
SPECIFICATION GSpec
CONSTRAINT EmitBeh
CHECK_DEADLOCK FALSE
