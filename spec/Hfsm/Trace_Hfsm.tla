----------------------------- MODULE Trace_Hfsm -----------------------------
(* Trace validation for C16.  The recorded file holds executions                                                   *)
(*   {"e":"Prog","p":<program>}  ( {"e":"Begin","c":[op,ev]} {"e":"Call","c":[op,ev],"ret":..,"out":[..],"q":[..]} )*  {"e":"Reset"} *)
(* produced by harness/c16_hfsm/driver.cpp on the real StateMachine.  For every Call line the reference semantics  *)
(* (Hfsm!StepOf, the same operator the model checker explores) recomputes the call on the current program and      *)
(* state; the line is accepted only if the observable events are EQUAL (kind, machine, ids, event, reported        *)
(* current/next state inside the callback, guard/handler results, re-entrant call results), the return value is    *)
(* equal (unless left open, see Hfsm!Own) and every machine reports the expected isRunning / isTerminated /        *)
(* currentState / lastState / nextState.  The order "nested machine first / own exit action first" inside stop()   *)
(* is left open by the statement: both are tried (StopOrders).  Every clause of the property is evaluated on every *)
(* step (NoViolation).                                                                                             *)
EXTENDS Hfsm, Json, IOUtils
Log == ndJsonDeserialize(IOEnv.TRACE)
VARIABLE l
ASSUME TLCSet(42, 0)
tvars == <<vars, l>>

IsEv(e) == l <= Len(Log) /\ Log[l].e = e /\ l' = l + 1
TInit == l = 1 /\ prog = <<>> /\ pi = 0 /\ st = <<>> /\ lastCall = <<0, 0>> /\ lastOut = <<>> /\ lastRet = [ret |-> FALSE, open |-> FALSE] /\ viol = {}
TProg == /\ IsEv("Prog") /\ DefsLegal(Log[l].p)         \* the machines were defined by a legal order of definition calls
         /\ pi' = l /\ prog' = Log[l].p /\ st' = InitSt(Log[l].p) /\ lastCall' = <<0, 0>> /\ lastOut' = <<>>
         /\ lastRet' = [ret |-> FALSE, open |-> FALSE] /\ viol' = {}
TBegin == IsEv("Begin") /\ pi # 0 /\ UNCHANGED vars            \* the call is announced before it is made (replay of crashes)
TCall == /\ IsEv("Call") /\ pi # 0 /\ Log[l - 1].e = "Begin" /\ Log[l - 1].c = Log[l].c
         /\ \E so \in StopOrders : \E x \in {StepOf(st, Log[l].c, so)} :
              /\ Visible(x.out) = Log[l].out
              /\ (x.ret.open \/ B2I(x.ret.ret) = Log[l].ret)
              /\ ReportedMatches(x.st, Log[l].q)
              /\ st' = x.st /\ lastOut' = x.out /\ lastRet' = x.ret /\ lastCall' = Log[l].c /\ viol' = x.viol
         /\ UNCHANGED <<prog, pi>>
TReset == /\ IsEv("Reset") /\ pi' = 0 /\ prog' = <<>> /\ st' = <<>> /\ lastCall' = <<0, 0>> /\ lastOut' = <<>>
          /\ lastRet' = [ret |-> FALSE, open |-> FALSE] /\ viol' = {}
TNext == TProg \/ TBegin \/ TCall \/ TReset
TSpec == TInit /\ [][TNext]_tvars

Progress == TLCSet(42, IF l > TLCGet(42) THEN l ELSE TLCGet(42))
Accepted == IF TLCGet(42) = Len(Log) + 1 THEN TRUE ELSE PrintT(<<"MAXPOS", TLCGet(42), Len(Log)>>) /\ FALSE
=============================================================================
