-------------------------------- MODULE Hfsm --------------------------------
(***************************************************************************)
(* C16 - reference semantics of the hierarchical state machine of cpp-tbox *)
(* (modules/flow/state_machine.{h,cpp}), "program as data".                *)
(*                                                                         *)
(* A PROGRAM (variable prog, fixed during a behaviour) is                  *)
(*   ne : number of event ids (events are 1..ne, 0 = ANY in routes and     *)
(*        "default" in handlers)                                           *)
(*   ms : sequence of machines, 1 = root; a machine is                     *)
(*        [init (id of the initial state; may be 0, the user-defined      *)
(*        state 0), cc (1 = state-changed callback installed), ss]         *)
(*        ss = sequence of states [id, en, ex (1 = enter/exit action       *)
(*             installed), sub (machine index or 0), rs, hd]; id 0 is a    *)
(*             user-defined terminal state: an ordinary state (it may have *)
(*             handlers and outgoing routes, no nested machine) that makes *)
(*             isTerminated() true while it is current; when it is not     *)
(*             defined the implicit one has no actions / routes / handlers *)
(*        rs = ordered routes [ev (0 = ANY), to, g (guard id, 0 = none),   *)
(*             a (action id, 0 = none)]; every guard id is used by one     *)
(*             route only                                                  *)
(*        hd = handlers [ev (0 = default), h (handler id)] in registration *)
(*             order; a later one for the same event REPLACES the earlier  *)
(*   gs : guard id  -> cyclic script of 0/1 results                        *)
(*   hs : handler id -> cyclic script of results (-1 = no target)          *)
(*   re : re-entrant attempts [m, k, id, c, t]: the first time callback    *)
(*        (k, id) of machine m runs (k in "G","H","X","A","E","C"; id =    *)
(*        guard/handler/state/action id, 0 for "C") it calls c = <<op,ev>> *)
(*        (op 1 start, 2 stop, 3 restart, 4 run) on machine t: m itself,   *)
(*        or an ancestor of m - then only while that ancestor is still     *)
(*        inside its own run(), activating its nested machine (see Fire)   *)
(*   defs: (recorded executions only) the order of the definition calls    *)
(*        that built the machines; the semantics does not read it (see     *)
(*        DefsLegal)                                                       *)
(*                                                                         *)
(* The four public calls are the actions Start / Stop / Restart / Run(ev)  *)
(* on the root.  Their meaning is the operator CallM which threads the     *)
(* machine state through the call exactly as the statement describes and   *)
(* produces the semantic trace of the call (lastOut): records              *)
(*   [v |-> 1 if a callback is installed (observable), t |-> tuple,        *)
(*    g |-> ghost data used only by the invariants]                        *)
(*   <<"P", m, s, ev>>            machine m starts to process ev itself    *)
(*   <<"H", m, h, ev, res>>       handler h invoked                        *)
(*   <<"G", m, g, ev, res>>       guard g evaluated                        *)
(*   <<"X", m, s, ev, nxt>>       exit action of s (nxt = nextState())     *)
(*   <<"A", m, a, ev, cur, nxt>>  route action                             *)
(*   <<"E", m, s, ev, cur>>       enter action of s                        *)
(*   <<"C", m, from, ev, to, cur>> state-changed notification              *)
(*   <<"R", m, op, ev, ret, same, t>> re-entrant call on machine t made by *)
(*                                the preceding callback of m: return      *)
(*                                value and whether the reported state of  *)
(*                                t stayed the same                        *)
(* The property's clauses are the separate invariants at the end.  Variant *)
(* selects the reference ("ref") or a deliberately wrong semantics (as     *)
(* found in the code before the repairs, or a typical regression); each    *)
(* wrong variant must violate its invariant (non-vacuity).                 *)
(***************************************************************************)
EXTENDS Integers, Sequences, FiniteSets, TLC

CONSTANT Variant     \* "ref" | "stop_keeps_sub" | "stuck_parent" | "reverse_scan" | "handler_ignored"
                     \* | "enter_first" | "exit_twice" | "parent_first" | "no_reent_guard"
                     \* | "guard_released_early" | "route_bound_early" | "handler_first_wins"
                     \* | "terminated_ignores_events"
CONSTANT StopOrders  \* subset of {0,1}: 0 = stop() stops the sub-machine before the exit action, 1 = after

VARIABLES prog,      \* the program (never changes during a behaviour)
          pi,        \* its index in the family / trace (identifies prog in VIEWs)
          st, lastCall, lastOut, lastRet, viol
vars == <<prog, pi, st, lastCall, lastOut, lastRet, viol>>

MinOf(S) == CHOOSE x \in S : \A y \in S : x <= y
MaxOf(S) == CHOOSE x \in S : \A y \in S : x >= y
B2I(b) == IF b THEN 1 ELSE 0
Mach(m) == prog.ms[m]
TermRec == [id |-> 0, en |-> 0, ex |-> 0, sub |-> 0, rs |-> <<>>, hd |-> <<>>]
StateIdx(m, s) == {i \in 1..Len(Mach(m).ss) : Mach(m).ss[i].id = s}
StateRec(m, s) == IF StateIdx(m, s) = {} THEN TermRec ELSE Mach(m).ss[MinOf(StateIdx(m, s))]
(* the handler in charge of ev in state sr: the specific one, else the default one; of several registered for the    *)
(* same event the LAST registered (addEvent replaces).  HandlerSem is what the semantics uses (a wrong variant keeps  *)
(* the first), HandlerFor is the declarative statement the clauses use.                                              *)
HandlerPick(sr, ev, Pick(_)) == LET sp == {i \in 1..Len(sr.hd) : sr.hd[i].ev = ev}
                                    df == {i \in 1..Len(sr.hd) : sr.hd[i].ev = 0}
                                IN IF sp # {} THEN sr.hd[Pick(sp)].h ELSE IF df # {} THEN sr.hd[MaxOf(df)].h ELSE 0
HandlerFor(sr, ev) == HandlerPick(sr, ev, MaxOf)
HandlerSem(sr, ev) == IF Variant = "handler_first_wins" THEN HandlerPick(sr, ev, MinOf) ELSE HandlerFor(sr, ev)

Keys(P) == UNION {{<<m, P.ms[m].ss[i].id>> : i \in 1..Len(P.ms[m].ss)} \cup {<<m, 0>>} : m \in 1..Len(P.ms)}
InitSt(P) == [run  |-> [m \in 1..Len(P.ms) |-> FALSE], cur |-> [m \in 1..Len(P.ms) |-> -1],
              last |-> [m \in 1..Len(P.ms) |-> -1],    ldef |-> [m \in 1..Len(P.ms) |-> FALSE],
              nxt  |-> [m \in 1..Len(P.ms) |-> -1],    cb |-> [m \in 1..Len(P.ms) |-> 0],
              gp   |-> [g \in 1..Len(P.gs) |-> 0],     hp |-> [h \in 1..Len(P.hs) |-> 0],
              rf   |-> [i \in 1..Len(P.re) |-> 0],     bal |-> [k \in Keys(P) |-> 0],
              act  |-> [m \in 1..Len(P.ms) |-> 0],    bi |-> [m \in 1..Len(P.ms) |-> 0],
              so   |-> 0, out |-> <<>>]

Ev(v, t, g) == [v |-> v, t |-> t, g |-> g]
Emit(s, e) == [s EXCEPT !.out = Append(@, e)]
Bal(s, m, sid, d) == [s EXCEPT !.bal[<<m, sid>>] = @ + d]
QProj(s, m) == <<s.run[m], s.cur[m], s.last[m], s.nxt[m]>>
Res(s, ret, open) == [s |-> s, ret |-> ret, open |-> open]

RECURSIVE StartM(_, _), StopM(_, _), RunM(_, _, _), CallM(_, _, _), Fire(_, _, _, _, _),
          Own(_, _, _, _), Transit(_, _, _, _, _, _), Scan(_, _, _, _, _, _)

(* the callback (k, id) of machine m has just run (v = 1: it is installed): perform its re-entrant attempt.  The     *)
(* attempt re[i] targets machine re[i].t: m itself, or an ancestor of m; an attempt on an ancestor is made only while *)
(* that ancestor is activating the nested machine of a state it has just entered (act[t] = 1: its state-changed       *)
(* notification into a state owning a nested machine was delivered earlier in this public call) - exactly the window  *)
(* in which the ancestor is still inside its own run() and must refuse; otherwise the attempt waits.                   *)
Fire(v, s, k, m, id) ==
  LET idx == {i \in 1..Len(prog.re) : /\ prog.re[i].m = m /\ prog.re[i].k = k /\ prog.re[i].id = id /\ s.rf[i] = 0
                                      /\ (prog.re[i].t = m \/ s.act[prog.re[i].t] = 1)}
  IN IF v = 0 \/ idx = {} THEN s
     ELSE LET i  == MinOf(idx)
              c  == prog.re[i].c
              t  == prog.re[i].t
              s1 == [s EXCEPT !.rf[i] = 1]
              r  == CallM(s1, t, c)
          IN Emit(r.s, Ev(1, <<"R", m, c[1], c[2], B2I(r.ret), B2I(QProj(r.s, t) = QProj(s1, t)), t>>, <<>>))

StartM(s, m) ==
  IF s.run[m] \/ s.cb[m] # 0 THEN Res(s, FALSE, FALSE)
  ELSE LET i  == Mach(m).init
           sr == StateRec(m, i)
           s1 == [s EXCEPT !.run[m] = TRUE, !.cur[m] = i, !.ldef[m] = FALSE, !.cb[m] = @ + 1]
           s2 == Fire(sr.en, Emit(Bal(s1, m, i, 1), Ev(sr.en, <<"E", m, i, 0, s1.cur[m]>>, <<>>)), "E", m, i)
           s3 == [s2 EXCEPT !.cb[m] = @ - 1]
           s4 == IF sr.sub # 0 THEN StartM(s3, sr.sub).s ELSE s3     \* then the nested machine of the initial state
       IN Res(s4, TRUE, FALSE)

StopM(s, m) ==
  IF ~s.run[m] \/ (s.cb[m] # 0 /\ Variant # "no_reent_guard") THEN s
  ELSE LET c  == s.cur[m]
           sr == IF s.bi[m] = 1 THEN TermRec ELSE StateRec(m, c)
           keep == sr.sub = 0 \/ Variant = "stop_keeps_sub"
           s0 == IF keep \/ s.so = 1 THEN s ELSE StopM(s, sr.sub)      \* the active sub-machine is stopped too
           s1 == [s0 EXCEPT !.cb[m] = @ + 1]
           s2 == Fire(sr.ex, Emit(Bal(s1, m, c, -1), Ev(sr.ex, <<"X", m, c, 0, -1>>, <<>>)), "X", m, c)
           s3 == [s2 EXCEPT !.cb[m] = @ - 1, !.cur[m] = -1, !.run[m] = FALSE, !.ldef[m] = FALSE, !.bi[m] = 0]
       IN IF keep \/ s.so = 0 THEN s3 ELSE StopM(s3, sr.sub)

(* route scan: ord = the order in which the route indices are visited, j = position in ord *)
Scan(s, m, rs, ord, j, ev) ==
  IF j > Len(ord) THEN [s |-> s, r |-> 0]
  ELSE LET i == ord[j]  rt == rs[i] IN
       IF rt.ev # 0 /\ rt.ev # ev THEN Scan(s, m, rs, ord, j + 1, ev)
       ELSE IF rt.g = 0 THEN [s |-> s, r |-> i]
       ELSE LET val == prog.gs[rt.g][s.gp[rt.g] + 1]
                s1  == [s EXCEPT !.gp[rt.g] = (@ + 1) % Len(prog.gs[rt.g])]
                s2  == Fire(1, Emit(s1, Ev(1, <<"G", m, rt.g, ev, val>>, <<>>)), "G", m, rt.g)
            IN IF val = 1 THEN [s |-> s2, r |-> i] ELSE Scan(s2, m, rs, ord, j + 1, ev)

(* one transition of machine m: exit -> route action -> enter -> notification -> nested machine gets the event *)
Transit(s, m, from, to, r, ev) ==
  LET fr  == StateRec(m, from)
      early == Variant = "route_bound_early" /\ r # 0 /\ to = 0      \* wrong: a route to 0 bypasses the user's terminal state
      tr  == IF early THEN TermRec ELSE StateRec(m, to)
      aid == IF r = 0 THEN 0 ELSE fr.rs[r].a
      s1  == [s EXCEPT !.nxt[m] = to, !.cb[m] = @ + 1]
      DoExit(x)  == Fire(fr.ex, Emit(Bal(x, m, from, -1), Ev(fr.ex, <<"X", m, from, ev, x.nxt[m]>>, <<>>)), "X", m, from)
      DoEnter(x) == Fire(tr.en, Emit(Bal(x, m, to, 1), Ev(tr.en, <<"E", m, to, ev, x.cur[m]>>, <<>>)), "E", m, to)
      s2  == IF Variant = "enter_first" THEN DoEnter(s1)
             ELSE IF Variant = "exit_twice" THEN DoExit(DoExit(s1)) ELSE DoExit(s1)
      s3  == [s2 EXCEPT !.last[m] = from, !.ldef[m] = TRUE, !.cur[m] = -1]
      s4  == Fire(B2I(aid # 0), Emit(s3, Ev(B2I(aid # 0), <<"A", m, aid, ev, s3.cur[m], s3.nxt[m]>>, r)), "A", m, aid)
      s5  == [s4 EXCEPT !.cur[m] = to, !.nxt[m] = -1, !.bi[m] = B2I(early)]
      s6  == IF Variant = "enter_first" THEN DoExit(s5) ELSE DoEnter(s5)
      s7  == Fire(Mach(m).cc, Emit(s6, Ev(Mach(m).cc, <<"C", m, from, ev, to, s6.cur[m]>>, <<>>)), "C", m, 0)
      \* activation of the nested machine of the new state: still inside this machine's run() (guard raised)
      s7a == IF tr.sub # 0 /\ Mach(m).cc = 1 THEN [s7 EXCEPT !.act[m] = 1] ELSE s7
      s7b == IF Variant = "guard_released_early" THEN [s7a EXCEPT !.cb[m] = @ - 1] ELSE s7a
      s8  == IF tr.sub # 0 THEN RunM(StartM(s7b, tr.sub).s, tr.sub, ev).s ELSE s7b
  IN Res(IF Variant = "guard_released_early" THEN s8 ELSE [s8 EXCEPT !.cb[m] = @ - 1], TRUE, FALSE)

(* machine m processes ev with its own handlers and routes *)
Own(s, m, ev, subChanged) ==
  LET c   == s.cur[m]
      sr  == StateRec(m, c)
      s0  == Emit(s, Ev(0, <<"P", m, c, ev>>, [gp |-> s.gp, hp |-> s.hp, run |-> s.run, cur |-> s.cur]))
      h   == HandlerSem(sr, ev)
      hv  == IF h = 0 THEN -1 ELSE prog.hs[h][s0.hp[h] + 1]
      s1  == IF h = 0 THEN s0
             ELSE LET a == [s0 EXCEPT !.cb[m] = @ + 1, !.hp[h] = (@ + 1) % Len(prog.hs[h])]
                      b == Fire(1, Emit(a, Ev(1, <<"H", m, h, ev, hv>>, <<>>)), "H", m, h)
                  IN [b EXCEPT !.cb[m] = @ - 1]
      n   == Len(sr.rs)
      ord == IF Variant = "reverse_scan" THEN [j \in 1..n |-> n + 1 - j] ELSE [j \in 1..n |-> j]
  IN IF hv # -1 /\ Variant # "handler_ignored" THEN Transit(s1, m, c, hv, 0, ev)     \* the handler picked the target
     ELSE LET sc == Scan([s1 EXCEPT !.cb[m] = @ + 1], m, sr.rs, ord, 1, ev)
              s2 == [sc.s EXCEPT !.cb[m] = @ - 1]
          IN IF sc.r = 0 THEN Res(s2, FALSE, subChanged)    \* return value left open when the nested machine did move
             ELSE Transit(s2, m, c, sr.rs[sc.r].to, sc.r, ev)

RunM(s, m, ev) ==
  IF ~s.run[m] \/ s.cb[m] # 0 THEN Res(s, FALSE, FALSE)
  ELSE IF Variant = "terminated_ignores_events" /\ s.cur[m] = 0 THEN Res(s, FALSE, FALSE)    \* wrong: state 0 is an ordinary state
  ELSE LET k == StateRec(m, s.cur[m]).sub
           consult == k # 0 /\ Variant # "parent_first" /\ (s.run[k] \/ Variant = "stuck_parent")
       IN IF consult                                          \* events go to the ACTIVE nested machine ...
          THEN LET r == RunM(s, k, ev)
               IN IF ~(r.s.run[k] /\ r.s.cur[k] = 0) THEN r
                  ELSE Own(StopM(r.s, k), m, ev, r.ret)       \* ... until it has terminated
          ELSE Own(s, m, ev, FALSE)

CallM(s, m, c) ==
  CASE c[1] = 1 -> StartM(s, m)
    [] c[1] = 2 -> Res(StopM(s, m), FALSE, FALSE)
    [] c[1] = 3 -> StartM(StopM(s, m), m)
    [] c[1] = 4 -> RunM(s, m, c[2])

-----------------------------------------------------------------------------
(* The clauses of the statement.  Each is a predicate over one STEP w = [out, st, call]: the semantic trace of a   *)
(* call (preceded by the ghost marker "B" holding the run/cur snapshot before the call), the state after it and the *)
(* call.  They are separate formulas; no action's enabling condition mentions them.                                 *)
Ms == 1..Len(prog.ms)
Rank(k) == CASE k = "X" -> 1 [] k = "A" -> 2 [] k = "E" -> 3 [] k = "C" -> 4
TransEvents(o, m) == SelectSeq(o, LAMBDA e : e.t[1] \in {"X", "A", "E", "C"} /\ e.t[2] = m /\ e.t[4] # 0)
Count(q, k) == Cardinality({i \in 1..Len(q) : q[i].t[1] = k})

(* exit, transition action, enter, notification run in that order *)
C_ExitActionEnterOrder(w) == \A m \in Ms : LET q == TransEvents(w.out, m) IN
  /\ Len(q) > 0 => q[1].t[1] = "X" /\ q[Len(q)].t[1] = "C"
  /\ \A i \in 1..(Len(q) - 1) : Rank(q[i + 1].t[1]) = (Rank(q[i].t[1]) % 4) + 1

(* ... exactly once per transition, and they agree on source and target *)
C_OncePerTransition(w) == \A m \in Ms : LET q == TransEvents(w.out, m) IN
  /\ Count(q, "X") = Count(q, "C") /\ Count(q, "A") = Count(q, "C") /\ Count(q, "E") = Count(q, "C")
  /\ \A i \in 1..Len(q) : q[i].t[1] = "C" =>
        LET from == q[i].t[3]  to == q[i].t[5]
            back(k) == {j \in 1..(i - 1) : q[j].t[1] = k /\ \A x \in (j + 1)..(i - 1) : q[x].t[1] # "C"}
        IN /\ \A j \in back("X") : q[j].t[3] = from /\ q[j].t[5] = to
           /\ \A j \in back("A") : q[j].t[6] = to
           /\ \A j \in back("E") : q[j].t[3] = to

C_StartStopShape(w) == \A i \in 1..Len(w.out) : LET t == w.out[i].t IN
  /\ (t[1] = "E" /\ t[4] = 0) => t[3] = Mach(t[2]).init
  /\ (t[1] = "X" /\ t[4] = 0) => t[5] = -1

(* every state entered has been exited exactly once by the time the (root) machine is stopped, at every level *)
C_EnterExitBalanced(w) == ~w.st.run[1] => \A k \in DOMAIN w.st.bal : w.st.bal[k] = 0
C_EnteredIffCurrent(w) == \A k \in DOMAIN w.st.bal :
                             w.st.bal[k] = IF w.st.run[k[1]] /\ w.st.cur[k[1]] = k[2] THEN 1 ELSE 0

(* what must follow a "P" marker, stated declaratively from the program and the script positions at the marker *)
After(o, i) == SelectSeq(SubSeq(o, i + 1, Len(o)), LAMBDA e : e.t[1] # "R")
Kth(S, k) == CHOOSE x \in S : Cardinality({y \in S : y < x}) = k - 1
PInfo(p) ==
  LET m == p.t[2]  c == p.t[3]  ev == p.t[4]  sr == StateRec(m, c)
      h  == HandlerFor(sr, ev)
      hv == IF h = 0 THEN -1 ELSE prog.hs[h][p.g.hp[h] + 1]
      match == {j \in 1..Len(sr.rs) : sr.rs[j].ev \in {0, ev}}
      ok == {j \in match : sr.rs[j].g = 0 \/ prog.gs[sr.rs[j].g][p.g.gp[sr.rs[j].g] + 1] = 1}
      r  == IF ok = {} THEN 0 ELSE MinOf(ok)                           \* first in registration order that matches and holds
      evald == {j \in match : sr.rs[j].g # 0 /\ (r = 0 \/ j <= r)}   \* guards that had to be evaluated, all but the last false
      gseq == [k \in 1..Cardinality(evald) |->
                 LET j == Kth(evald, k) IN <<"G", m, sr.rs[j].g, ev, B2I(j = r)>>]
      xa == IF r = 0 THEN <<>> ELSE << <<"X", m, c, ev, sr.rs[r].to>>, <<"A", m, sr.rs[r].a, ev, -1, sr.rs[r].to>> >>
  IN [m |-> m, c |-> c, ev |-> ev, h |-> h, hv |-> hv, r |-> r, exp |-> gseq \o xa]

C_HandlerBeforeRoutes(w) == \A i \in 1..Len(w.out) : w.out[i].t[1] = "P" =>
  LET I == PInfo(w.out[i])  a == After(w.out, i) IN
  IF I.h # 0
  THEN /\ Len(a) >= 1 /\ a[1].t = <<"H", I.m, I.h, I.ev, I.hv>>
       /\ I.hv # -1 => /\ Len(a) >= 3
                       /\ a[2].t = <<"X", I.m, I.c, I.ev, I.hv>>          \* straight to the transition, no guard consulted
                       /\ a[3].t = <<"A", I.m, 0, I.ev, -1, I.hv>> /\ a[3].g = 0
  ELSE a = <<>> \/ ~(a[1].t[1] = "H" /\ a[1].t[2] = I.m)

C_FirstMatchingRoute(w) == \A i \in 1..Len(w.out) : w.out[i].t[1] = "P" =>
  LET I == PInfo(w.out[i])  a == After(w.out, i)  off == IF I.h = 0 THEN 0 ELSE 1  n == Len(I.exp) IN
  (I.h = 0 \/ I.hv = -1) =>
     /\ Len(a) >= off + n
     /\ \A j \in 1..n : a[off + j].t = I.exp[j]
     /\ I.r # 0 => a[off + n].g = I.r
     /\ (I.r = 0 /\ Len(a) > off + n) =>
           LET e == a[off + n + 1].t IN ~(e[2] = I.m /\ (e[1] \in {"G", "H", "A"} \/ (e[1] = "X" /\ e[4] # 0)))

(* events go to the active nested machine until it has terminated *)
RECURSIVE ChainFrom(_, _)
ChainFrom(s, m) == LET k == StateRec(m, s.cur[m]).sub IN
                   IF k # 0 /\ s.run[k] THEN <<m>> \o ChainFrom(s, k) ELSE <<m>>
(* the nested machine k, active when the call began, is terminated when it has processed the event: it is in state 0 *)
(* after its transition of this call (before any restart of k within the call), or it made none and was in state 0    *)
(* already (a user-defined state 0 may have routes that lead out of it again: then k is NOT terminated)               *)
TermInCall(o, k) ==
  LET seg == {i \in 1..Len(o) : ~\E j \in 1..i : o[j].t[1] = "E" /\ o[j].t[2] = k /\ o[j].t[4] = 0}
      cs  == {i \in seg : o[i].t[1] = "C" /\ o[i].t[2] = k}
  IN IF cs = {} THEN o[1].g.cur[k] = 0 ELSE o[MaxOf(cs)].t[5] = 0
C_SubMachineFirstUntilTerminated(w) == (w.call[1] = 4 /\ w.out[1].g.run[1]) =>
  LET o  == w.out
      ch == ChainFrom(o[1].g, 1)
      ps == SelectSeq(o, LAMBDA e : e.t[1] = "P")
  IN /\ ps # <<>> /\ ps[1].t[2] = ch[Len(ch)]                        \* the innermost active machine sees the event first
     /\ \A i \in 1..Len(o) : o[i].t[1] = "P" =>                      \* nobody processes while its nested machine is active
           LET m == o[i].t[2]  k == StateRec(m, o[i].g.cur[m]).sub IN k # 0 => ~o[i].g.run[k]
     /\ \A j \in 1..(Len(ch) - 1) :                                  \* the parent takes over iff the nested one terminated
           (\E i \in 1..Len(o) : o[i].t[1] = "P" /\ o[i].t[2] = ch[j]) <=> TermInCall(o, ch[j + 1])

(* the enter / exit action of every state the user defined (a user-defined terminal state included), every route     *)
(* action and the notification are actually invoked whenever the semantics passes through them                        *)
C_DefinedActionsRun(w) == \A i \in 1..Len(w.out) : LET e == w.out[i]  t == e.t IN
  /\ t[1] = "E" => e.v = StateRec(t[2], t[3]).en
  /\ t[1] = "X" => e.v = StateRec(t[2], t[3]).ex
  /\ t[1] = "C" => e.v = Mach(t[2]).cc

(* calls made on a machine from inside its own callbacks - and from callbacks of its nested machines while it is    *)
(* still inside run(), activating them - are rejected and change nothing                                             *)
C_ReentrantCallsRejected(w) == \A i \in 1..Len(w.out) : LET t == w.out[i].t IN t[1] = "R" => t[5] = 0 /\ t[6] = 1

C_StateSane(w) == \A m \in Ms :
  /\ w.st.nxt[m] = -1 /\ w.st.cb[m] = 0 /\ (w.st.cur[m] = -1 <=> ~w.st.run[m])
  /\ (m # 1 /\ w.st.run[m]) => \E p \in Ms : w.st.run[p] /\ StateRec(p, w.st.cur[p]).sub = m

ClauseNames == {"ExitActionEnterOrder", "OncePerTransition", "StartStopShape", "EnterExitBalanced", "EnteredIffCurrent",
                "HandlerBeforeRoutes", "FirstMatchingRoute", "SubMachineFirstUntilTerminated", "ReentrantCallsRejected", "StateSane",
                "DefinedActionsRun"}
Holds(n, w) == CASE n = "ExitActionEnterOrder" -> C_ExitActionEnterOrder(w) [] n = "OncePerTransition" -> C_OncePerTransition(w)
                 [] n = "StartStopShape" -> C_StartStopShape(w) [] n = "EnterExitBalanced" -> C_EnterExitBalanced(w)
                 [] n = "EnteredIffCurrent" -> C_EnteredIffCurrent(w) [] n = "HandlerBeforeRoutes" -> C_HandlerBeforeRoutes(w)
                 [] n = "FirstMatchingRoute" -> C_FirstMatchingRoute(w)
                 [] n = "SubMachineFirstUntilTerminated" -> C_SubMachineFirstUntilTerminated(w)
                 [] n = "ReentrantCallsRejected" -> C_ReentrantCallsRejected(w) [] n = "StateSane" -> C_StateSane(w)
                 [] n = "DefinedActionsRun" -> C_DefinedActionsRun(w)

(* the invariants: every clause holds for the last step; viol caches that verdict, computed when the step is taken,  *)
(* so that large models can use VIEW View (which drops lastCall/lastOut) without masking any violation               *)
Step == [out |-> lastOut, st |-> st, call |-> lastCall]
ExitActionEnterOrder == "ExitActionEnterOrder" \notin viol
OncePerTransition == "OncePerTransition" \notin viol
StartStopShape == "StartStopShape" \notin viol
EnterExitBalanced == "EnterExitBalanced" \notin viol
EnteredIffCurrent == "EnteredIffCurrent" \notin viol
HandlerBeforeRoutes == "HandlerBeforeRoutes" \notin viol
FirstMatchingRoute == "FirstMatchingRoute" \notin viol
SubMachineFirstUntilTerminated == "SubMachineFirstUntilTerminated" \notin viol
ReentrantCallsRejected == "ReentrantCallsRejected" \notin viol
StateSane == "StateSane" \notin viol
DefinedActionsRun == "DefinedActionsRun" \notin viol
VerdictExact == lastCall[1] # 0 => viol = {n \in ClauseNames : ~Holds(n, Step)}   \* the cached verdict is the verdict
NoViolation == viol = {}
View == <<pi, st, viol>>

-----------------------------------------------------------------------------
(* the public calls on the root machine *)
(* StepOf is an expression (TLC caches LET values inside expressions, not inside actions); DoCall binds its value once *)
StepOf(s, c, so) ==
  LET r   == CallM([s EXCEPT !.so = so, !.out = <<>>, !.act = [m \in 1..Len(prog.ms) |-> 0]], 1, c)
      s2  == [r.s EXCEPT !.out = <<>>, !.so = 0, !.act = [m \in 1..Len(prog.ms) |-> 0]]
      out == <<Ev(0, <<"B", 1, c[1], c[2]>>, [run |-> s.run, cur |-> s.cur])>> \o r.s.out   \* "B": ghost snapshot before the call
      w   == [out |-> out, st |-> s2, call |-> c]
  IN [st |-> s2, out |-> out, ret |-> [ret |-> r.ret, open |-> r.open], viol |-> {n \in ClauseNames : ~Holds(n, w)}]
DoCall(c) == \E so \in StopOrders : \E x \in {StepOf(st, c, so)} :
     /\ st' = x.st
     /\ lastOut' = x.out
     /\ lastRet' = x.ret
     /\ lastCall' = c
     /\ viol' = x.viol
     /\ UNCHANGED <<prog, pi>>

Start   == DoCall(<<1, 0>>)
Stop    == DoCall(<<2, 0>>)
Restart == DoCall(<<3, 0>>)
Run     == \E ev \in 1..prog.ne : DoCall(<<4, ev>>)
Next == Start \/ Stop \/ Restart \/ Run

InitWith(i, P) == /\ pi = i /\ prog = P /\ st = InitSt(P) /\ lastCall = <<0, 0>> /\ lastOut = <<>>
               /\ lastRet = [ret |-> FALSE, open |-> FALSE] /\ viol = {}

(* The program is DEFINED by a sequence of definition calls, prog.defs (only in recorded executions): 4-tuples        *)
(*   <<"S",m,si,0>> newState(ss[si])   <<"R",m,si,j>> addRoute(ss[si].rs[j])   <<"H",m,si,j>> addEvent(ss[si].hd[j])      *)
(*   <<"I",m,0,0>> setInitState(init)  <<"U",m,si,0>> setSubStateMachine(ss[si].id, machine ss[si].sub)                   *)
(* in ANY legal order: a state exists before its routes / handlers / nested machine are attached, the routes of one   *)
(* state and its handlers keep their registration order, a route's target exists unless it is the terminal state 0 (which the user may  *)
(* declare later, or never), setInitState may come at any time and may be omitted iff the first declared state is the  *)
(* initial one.  The reference semantics above does not read defs: the meaning of a program is independent of the      *)
(* order of its definition calls (except the relative order of the routes of a state).                                 *)
DefsLegal(P) ==
  LET D == P.defs
      at(op) == {i \in 1..Len(D) : D[i] = op}
      once(op) == Cardinality(at(op)) = 1
      pos(op) == MinOf(at(op))
      sidx(m, id) == MinOf({i \in 1..Len(P.ms[m].ss) : P.ms[m].ss[i].id = id})
      valid(op) == /\ op[2] \in 1..Len(P.ms)
                   /\ LET ss == P.ms[op[2]].ss IN
                      CASE op[1] = "S" -> op[3] \in 1..Len(ss) /\ op[4] = 0
                        [] op[1] = "R" -> op[3] \in 1..Len(ss) /\ op[4] \in 1..Len(ss[op[3]].rs)
                        [] op[1] = "H" -> op[3] \in 1..Len(ss) /\ op[4] \in 1..Len(ss[op[3]].hd)
                        [] op[1] = "U" -> op[3] \in 1..Len(ss) /\ op[4] = 0 /\ ss[op[3]].sub # 0
                        [] op[1] = "I" -> op[3] = 0 /\ op[4] = 0
                        [] OTHER -> FALSE
  IN /\ \A i \in 1..Len(D) : valid(D[i]) /\ once(D[i])
     /\ \A m \in 1..Len(P.ms) : LET M == P.ms[m] IN
          /\ \A si \in 1..Len(M.ss) : LET S == M.ss[si] IN
               /\ once(<<"S", m, si, 0>>)
               /\ \A j \in 1..Len(S.rs) :
                     /\ once(<<"R", m, si, j>>) /\ pos(<<"R", m, si, j>>) > pos(<<"S", m, si, 0>>)
                     /\ j > 1 => pos(<<"R", m, si, j>>) > pos(<<"R", m, si, j - 1>>)
                     /\ S.rs[j].to # 0 => pos(<<"R", m, si, j>>) > pos(<<"S", m, sidx(m, S.rs[j].to), 0>>)
               /\ \A j \in 1..Len(S.hd) : /\ once(<<"H", m, si, j>>) /\ pos(<<"H", m, si, j>>) > pos(<<"S", m, si, 0>>)
                                          /\ j > 1 => pos(<<"H", m, si, j>>) > pos(<<"H", m, si, j - 1>>)
               /\ S.sub # 0 => once(<<"U", m, si, 0>>) /\ pos(<<"U", m, si, 0>>) > pos(<<"S", m, si, 0>>)
          /\ IF at(<<"I", m, 0, 0>>) # {} THEN once(<<"I", m, 0, 0>>)
             ELSE LET first == MinOf({i \in 1..Len(D) : D[i][1] = "S" /\ D[i][2] = m}) IN M.ss[D[first][3]].id = M.init

(* binding helpers (Trace_Hfsm): the observable part of a semantic trace; what the machines report after a call.     *)
(* lastState() is compared only while it is defined by the statement's trace: after a transition of the current run. *)
Visible(out) == LET v == SelectSeq(out, LAMBDA e : e.v = 1) IN [i \in 1..Len(v) |-> v[i].t]
ReportedMatches(s, q) == \A m \in 1..Len(prog.ms) :
  /\ q[m][1] = B2I(s.run[m]) /\ q[m][2] = B2I(s.run[m] /\ s.cur[m] = 0) /\ q[m][3] = s.cur[m]
  /\ (s.ldef[m] => q[m][4] = s.last[m]) /\ q[m][5] = s.nxt[m]
=============================================================================
