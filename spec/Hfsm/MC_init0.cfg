CONSTANTS
  Variant = "ref"
  StopOrders = {0}
  Family = "init0"
  MaxDepth = 0
SPECIFICATION MCSpec
VIEW MCView
INVARIANTS ExitActionEnterOrder OncePerTransition StartStopShape EnterExitBalanced EnteredIffCurrent HandlerBeforeRoutes FirstMatchingRoute SubMachineFirstUntilTerminated ReentrantCallsRejected StateSane DefinedActionsRun NoViolation
CHECK_DEADLOCK FALSE
