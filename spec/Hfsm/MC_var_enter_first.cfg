CONSTANTS
  Variant = "enter_first"
  StopOrders = {0}
  Family = "flat2q"
  MaxDepth = 0
SPECIFICATION MCSpec
VIEW MCView
INVARIANTS ExitActionEnterOrder
CHECK_DEADLOCK FALSE
