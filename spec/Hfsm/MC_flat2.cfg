CONSTANTS
  Variant = "ref"
  StopOrders = {0}
  Family = "flat2"
  MaxDepth = 0
  ProgTab <- MCProgTab
SPECIFICATION MCSpec
INVARIANTS ExitActionEnterOrder OncePerTransition StartStopShape EnterExitBalanced EnteredIffCurrent HandlerBeforeRoutes FirstMatchingRoute SubMachineFirstUntilTerminated ReentrantCallsRejected StateSane
CHECK_DEADLOCK FALSE
