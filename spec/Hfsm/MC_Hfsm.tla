------------------------------ MODULE MC_Hfsm ------------------------------
(* Bounded models for C16: TLC enumerates FAMILIES of small programs (the set Programs, chosen by the constant    *)
(* Family) and, for each program, every sequence of start / stop / restart / run(ev) calls until the reachable    *)
(* states are exhausted (guard/handler scripts are cyclic, so the state space of one program is finite).           *)
EXTENDS Hfsm, SequencesExt
CONSTANT Family      \* "flat2q" | "flat2" | "flat3" | "dupq" | "dup" | "term0q" | "term0" | "init0q" | "init0" | "simmix" | "nestq" | "nest" | "reent" | "reent_enter"
CONSTANT MaxDepth    \* 0 = until exhaustion, otherwise maximal number of calls

VARIABLE depth
mvars == <<vars, depth>>

(* ---- program construction: "genomes" without ids -> programs with positional guard / action / handler ids ---- *)
R(ev, to, gt, a) == [ev |-> ev, to |-> to, gt |-> gt, a |-> a]      \* gt: 0 no guard, 1 script <<0,1>>, 2 script <<1,0>>
Hd(ev, sc) == [ev |-> ev, sc |-> sc]
S(id, sub, rs, hd) == [id |-> id, en |-> 1, ex |-> 1, sub |-> sub, rs |-> rs, hd |-> hd]
M(init, ss) == [init |-> init, cc |-> 1, ss |-> ss]
GScripts == << <<0, 1>>, <<1, 0>> >>
Gid(m, si, j) == ((m - 1) * 4 + (si - 1)) * 3 + j        \* <= 4 states per machine, <= 3 routes per state
Hid(m, si, j) == ((m - 1) * 4 + (si - 1)) * 2 + j        \* <= 2 handlers per state
GScriptOf(ms, g) == LET m == ((g - 1) \div 12) + 1  si == (((g - 1) % 12) \div 3) + 1  j == ((g - 1) % 3) + 1 IN
                    IF si <= Len(ms[m].ss) /\ j <= Len(ms[m].ss[si].rs) /\ ms[m].ss[si].rs[j].gt # 0
                    THEN GScripts[ms[m].ss[si].rs[j].gt] ELSE <<1>>
HScriptOf(ms, h) == LET m == ((h - 1) \div 8) + 1  si == (((h - 1) % 8) \div 2) + 1  j == ((h - 1) % 2) + 1 IN
                    IF si <= Len(ms[m].ss) /\ j <= Len(ms[m].ss[si].hd) THEN ms[m].ss[si].hd[j].sc ELSE <<-1>>
Build(ms, re, ne) ==
  [ne |-> ne,
   ms |-> [m \in 1..Len(ms) |->
            [init |-> ms[m].init, cc |-> ms[m].cc,
             ss |-> [si \in 1..Len(ms[m].ss) |->
                      LET x == ms[m].ss[si] IN
                      [id |-> x.id, en |-> x.en, ex |-> x.ex, sub |-> x.sub,
                       rs |-> [j \in 1..Len(x.rs) |-> [ev |-> x.rs[j].ev, to |-> x.rs[j].to,
                                                        g |-> IF x.rs[j].gt = 0 THEN 0 ELSE Gid(m, si, j),
                                                        a |-> IF x.rs[j].a = 0 THEN 0 ELSE Gid(m, si, j)]],
                       hd |-> [j \in 1..Len(x.hd) |-> [ev |-> x.hd[j].ev, h |-> Hid(m, si, j)]]]]]],
   gs |-> [g \in 1..(Len(ms) * 12) |-> GScriptOf(ms, g)],
   hs |-> [h \in 1..(Len(ms) * 8) |-> HScriptOf(ms, h)],
   re |-> re]

SeqsUpTo(X, n) == UNION {[1..k -> X] : k \in 0..n}

(* ---- flat family: one machine, three states; the routes and handlers of state 1 are enumerated ---- *)
FlatRouteChoices == {R(ev, to, gt, 1) : ev \in {0, 1, 2}, to \in {2, 0}, gt \in {0, 1}}
FlatRouteChoicesQ == {R(ev, to, gt, 1) : ev \in {0, 1}, to \in {2, 0}, gt \in {0, 1}}
FlatHandlers == { <<>>, <<Hd(1, <<-1, 3>>)>>, <<Hd(0, <<2, -1>>)>>, <<Hd(2, <<3>>), Hd(0, <<-1, 2>>)>> }
DupHandlers == { <<Hd(1, <<3>>), Hd(1, <<-1, 2>>)>>,        \* registered twice for the same event: the second replaces the first
                 <<Hd(0, <<-1>>), Hd(0, <<2, -1>>)>> }
Term0Flat == << S(0, 0, <<R(1, 1, 1, 0)>>, <<Hd(2, <<-1, 2>>)>>) >>     \* user-defined state 0 with a handler and a guarded route out
Flat(RouteSet, n, Hs, t0) ==
           { Build(<< M(1, << S(1, 0, rs, hd),
                              S(2, 0, <<R(1, 1, 0, 0), R(2, 3, 0, 1)>>, <<>>),
                              S(3, 0, <<R(0, 1, 2, 0), R(2, 0, 0, 0)>>, <<>>) >> \o t0) >>, <<>>, 2)
             : rs \in SeqsUpTo(RouteSet, n), hd \in Hs }

(* ---- nested family: root (2 states) -> machine 2 (2 states) -> machine 3 (1 state + optional user terminal) ---- *)
Menu(s, o) == { [rs |-> <<R(1, o, 0, 1)>>, hd |-> <<>>],
                [rs |-> <<R(1, 0, 0, 0), R(2, o, 0, 0)>>, hd |-> <<>>],
                [rs |-> <<R(0, o, 1, 0), R(2, 0, 0, 1)>>, hd |-> <<>>],
                [rs |-> <<R(2, s, 0, 0)>>, hd |-> <<Hd(0, <<-1, o>>)>>] }
MenuQ(s, o) == { [rs |-> <<R(1, o, 0, 1), R(2, 0, 0, 0)>>, hd |-> <<>>],
                 [rs |-> <<R(0, o, 1, 0), R(2, s, 0, 1)>>, hd |-> <<Hd(1, <<-1, o>>)>>] }
Leaf == { [rs |-> <<R(1, 0, 0, 1)>>, hd |-> <<>>],
          [rs |-> <<R(0, 0, 1, 0)>>, hd |-> <<>>],
          [rs |-> <<R(2, 1, 0, 0), R(1, 0, 0, 0)>>, hd |-> <<Hd(2, <<-1, 0>>)>>] }
RichTerm == << S(0, 0, <<R(2, 1, 1, 1)>>, <<Hd(1, <<-1, 1>>)>>) >>       \* user-defined state 0 with a handler and a guarded route out
PlainTerm == << S(0, 0, <<>>, <<>>) >>
Leaf1 == {CHOOSE x \in Leaf : TRUE}
Nest3(a1, a2, b1, b2, c1, p1, p2, t, re) ==
  Build(<< M(1, << S(1, IF p1 = 1 THEN 2 ELSE 0, a1.rs, a1.hd), S(2, IF p1 = 2 THEN 2 ELSE 0, a2.rs, a2.hd) >>),
           M(1, << S(1, IF p2 = 1 THEN 3 ELSE 0, b1.rs, b1.hd), S(2, IF p2 = 2 THEN 3 ELSE 0, b2.rs, b2.hd) >> \o t),
           M(1, << S(1, 0, c1.rs, c1.hd) >> \o t) >>, re, 2)
Nest(Mn(_, _), Lf, Ps, Ts) == { Nest3(a1, a2, b1, b2, c1, p1, p2, t, <<>>)
                            : a1 \in Mn(1, 2), a2 \in Mn(2, 1), b1 \in Mn(1, 2), b2 \in Mn(2, 1), c1 \in Lf,
                              p1 \in Ps, p2 \in Ps, t \in Ts }

MQ1(s, o) == CHOOSE x \in MenuQ(s, o) : TRUE
Term0Q == { Nest3(MQ1(1, 2), MQ1(2, 1), MQ1(1, 2), MQ1(2, 1), CHOOSE x \in Leaf : TRUE, p1, p2, RichTerm, <<>>) : p1 \in {1, 2}, p2 \in {1, 2} }

(* the user-defined state 0 as INITIAL state (the first declared state is the initial one, whatever its id): of the    *)
(* innermost machine, or of both nested machines                                                                       *)
Init0(T) == {[p EXCEPT !.ms[3].init = 0] : p \in T} \cup {[p EXCEPT !.ms[2].init = 0, !.ms[3].init = 0] : p \in T}

(* ---- re-entrant attempts: one fixed nested program, every callback kind tries every call on its own machine ---- *)
ReBase(re) == Nest3([rs |-> <<R(1, 2, 1, 1), R(2, 0, 0, 1)>>, hd |-> <<Hd(2, <<-1, 2>>)>>],
                    [rs |-> <<R(0, 1, 0, 1)>>, hd |-> <<>>],
                    [rs |-> <<R(1, 2, 2, 1)>>, hd |-> <<Hd(2, <<2, -1>>)>>],
                    [rs |-> <<R(2, 1, 0, 0), R(1, 0, 0, 1)>>, hd |-> <<>>],
                    [rs |-> <<R(1, 0, 0, 1)>>, hd |-> <<>>], 1, 2, <<>>, re)
ReCalls == { <<1, 0>>, <<2, 0>>, <<3, 0>>, <<4, 1>> }
OwnSites == { [m |-> 1, k |-> "E", id |-> 1], [m |-> 1, k |-> "X", id |-> 1], [m |-> 1, k |-> "A", id |-> Gid(1, 1, 1)],
             [m |-> 1, k |-> "G", id |-> Gid(1, 1, 1)], [m |-> 1, k |-> "H", id |-> Hid(1, 1, 1)], [m |-> 1, k |-> "C", id |-> 0],
             [m |-> 2, k |-> "E", id |-> 2], [m |-> 2, k |-> "X", id |-> 1], [m |-> 2, k |-> "A", id |-> Gid(2, 1, 1)],
             [m |-> 2, k |-> "G", id |-> Gid(2, 1, 1)], [m |-> 2, k |-> "H", id |-> Hid(2, 1, 1)], [m |-> 2, k |-> "C", id |-> 0],
             [m |-> 3, k |-> "E", id |-> 1], [m |-> 3, k |-> "X", id |-> 1] }
(* attempts from callbacks of a nested machine on its parent / grand-parent (made while that ancestor activates it) *)
CrossSites == { [m |-> 2, k |-> "E", id |-> 1, t |-> 1], [m |-> 2, k |-> "X", id |-> 1, t |-> 1],
                [m |-> 2, k |-> "A", id |-> Gid(2, 1, 1), t |-> 1], [m |-> 2, k |-> "G", id |-> Gid(2, 1, 1), t |-> 1],
                [m |-> 2, k |-> "H", id |-> Hid(2, 1, 1), t |-> 1], [m |-> 2, k |-> "C", id |-> 0, t |-> 1],
                [m |-> 3, k |-> "E", id |-> 1, t |-> 2], [m |-> 3, k |-> "E", id |-> 1, t |-> 1],
                [m |-> 3, k |-> "X", id |-> 1, t |-> 1], [m |-> 3, k |-> "A", id |-> Gid(3, 1, 1), t |-> 2] }
ReSites == { [m |-> x.m, k |-> x.k, id |-> x.id, t |-> x.m] : x \in OwnSites } \cup CrossSites
Reent(sites) == { ReBase(<< [m |-> x.m, k |-> x.k, id |-> x.id, c |-> c, t |-> x.t] >>) : x \in sites, c \in ReCalls }

Programs ==
  CASE Family = "flat2q" -> Flat(FlatRouteChoicesQ, 2, FlatHandlers, <<>>)
    [] Family = "flat2" -> Flat(FlatRouteChoices, 2, FlatHandlers, <<>>)
    [] Family = "flat3" -> Flat(FlatRouteChoices, 3, FlatHandlers, <<>>)
    [] Family = "dupq"  -> Flat(FlatRouteChoicesQ, 1, DupHandlers, Term0Flat)
    [] Family = "dup"   -> Flat(FlatRouteChoices, 2, DupHandlers, Term0Flat)
    [] Family = "nestq" -> Nest(MenuQ, Leaf1, {1, 2}, {PlainTerm})
    [] Family = "nest"  -> Nest(Menu, Leaf, {1, 2}, {<<>>, PlainTerm})
    [] Family = "term0q" -> Term0Q
    [] Family = "term0" -> Nest(MenuQ, Leaf1, {1, 2}, {RichTerm})
    [] Family = "init0q" -> {[p EXCEPT !.ms[3].init = 0] : p \in Term0Q}
    [] Family = "init0" -> Init0(Term0Q)
    [] Family = "simmix" -> Nest(MenuQ, Leaf1, {1, 2}, {PlainTerm, RichTerm}) \cup Flat(FlatRouteChoicesQ, 2, DupHandlers, Term0Flat)
                            \cup Init0(Term0Q)
    [] Family = "reent" -> Reent(ReSites)
    [] Family = "reent_enter" -> Reent({x \in ReSites : x.k = "E"})

MCProgTab == SetToSeq(Programs)
MCInit == /\ \E i \in 1..Len(MCProgTab) : InitWith(i, MCProgTab[i])
          /\ depth = 0
Tick == (MaxDepth = 0 \/ depth < MaxDepth) /\ depth' = (IF MaxDepth = 0 THEN 0 ELSE depth + 1)
MStart   == Start /\ Tick
MStop    == Stop /\ Tick
MRestart == Restart /\ Tick
MRun     == Run /\ Tick
MCNext == MStart \/ MStop \/ MRestart \/ MRun
MCView == <<View, depth>>
MCSpec == MCInit /\ [][MCNext]_mvars
=============================================================================
