CONSTANTS
  Variant = "ref"
  StopOrders = {0, 1}
SPECIFICATION TSpec
CONSTRAINT Progress
POSTCONDITION Accepted
INVARIANTS NoViolation
CHECK_DEADLOCK FALSE
