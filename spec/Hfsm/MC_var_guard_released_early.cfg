CONSTANTS
  Variant = "guard_released_early"
  StopOrders = {0}
  Family = "reent_enter"
  MaxDepth = 0
SPECIFICATION MCSpec
VIEW MCView
INVARIANTS ReentrantCallsRejected
CHECK_DEADLOCK FALSE
