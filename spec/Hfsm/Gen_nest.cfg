CONSTANTS
  Variant = "ref"
  StopOrders = {0}
  Family = "nest"
  MaxDepth = 0
  Depth = 24
SPECIFICATION GSpec
CONSTRAINT EmitBeh
CHECK_DEADLOCK FALSE
