CONSTANTS
  Variant = "terminated_ignores_events"
  StopOrders = {0}
  Family = "term0q"
  MaxDepth = 0
SPECIFICATION MCSpec
VIEW MCView
INVARIANTS SubMachineFirstUntilTerminated
CHECK_DEADLOCK FALSE
