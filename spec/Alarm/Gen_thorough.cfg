CONSTANTS
  Strict = TRUE
  Variant = "ok"
  MaxMoves = 99
  CfgSel = {"weekly", "oneshot", "workday", "yearly", "leap"}
  StartSel = {1, 2}
  Depth = 6
SPECIFICATION GSpec
CONSTRAINT Emit
CHECK_DEADLOCK FALSE
