CONSTANTS
  Variant = "ok"
  MaxMoves = 99
  CfgSel = {"weekly", "oneshot", "workday", "yearly", "leap"}
  Depth = 6
SPECIFICATION GSpec
CONSTRAINT Emit
CHECK_DEADLOCK FALSE
