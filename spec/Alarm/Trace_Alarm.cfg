CONSTANTS
  Strict = FALSE
  Variant = "ok"
SPECIFICATION TSpec
CONSTRAINT Progress
POSTCONDITION Accepted
INVARIANTS TypeOK TargetIsEarliest DelayCoversDistance OncePerInstant EarlyWakeDoesNotRefire OneShotOnce DisabledNeverFires
CHECK_DEADLOCK FALSE
