---------------------------- MODULE MC_AlarmCov ----------------------------
(* Vacuity guard for MC_Alarm: counts how often each action of the model is taken (TLC registers, run with  *)
(* one worker) and prints the counts at the end.  (TLC's own -coverage instrumentation does not terminate on  *)
(* this specification: its walk over the operator graph is exponential in the nesting of the calendar operators.) *)
EXTENDS MC_Alarm
Names == <<"M_Initialize", "M_SetTimezone", "M_Enable", "M_Disable", "M_Refresh", "M_Cleanup", "M_CalendarUpdate",
           "M_TimerFires", "M_Advance", "M_AdvanceToTarget", "M_AdjustWall">>
ASSUME \A i \in DOMAIN Names : TLCSet(100 + i, 0)
Count(i) == TLCSet(100 + i, TLCGet(100 + i) + 1)
C_Initialize == M_Initialize /\ Count(1)
C_SetTimezone == M_SetTimezone /\ Count(2)
C_Enable == M_Enable /\ Count(3)
C_Disable == M_Disable /\ Count(4)
C_Refresh == M_Refresh /\ Count(5)
C_Cleanup == M_Cleanup /\ Count(6)
C_CalendarUpdate == M_CalendarUpdate /\ Count(7)
C_TimerFires == M_TimerFires /\ Count(8)
C_Advance == M_Advance /\ Count(9)
C_AdvanceToTarget == M_AdvanceToTarget /\ Count(10)
C_AdjustWall == M_AdjustWall /\ Count(11)
CNext == \/ C_Initialize \/ C_SetTimezone \/ C_Enable \/ C_Disable \/ C_Refresh \/ C_Cleanup \/ C_CalendarUpdate
         \/ C_TimerFires \/ C_Advance \/ C_AdvanceToTarget \/ C_AdjustWall
CSpec == MInit /\ [][CNext]_pvars
ActStats == \A i \in DOMAIN Names : PrintT(<<"ACT", Names[i], TLCGet(100 + i)>>)
=============================================================================
