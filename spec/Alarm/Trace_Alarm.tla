---------------------------- MODULE Trace_Alarm ----------------------------
(* Trace validation for C20.  Every line recorded by harness/c20_alarm/driver.cpp from the REAL alarms must   *)
(* be the corresponding action of Alarm.tla (intended design) with the logged arguments and return value, and  *)
(* must lead to the logged projected state: both clocks, isEnabled(), and the armed instant read back through  *)
(* remainSeconds().  "Fire" (the user callback) is accepted only when the model's timer is due, i.e. the real   *)
(* timer waited at least the wall-clock distance measured at arming.  "Calc" lines are evaluations of the       *)
(* protected calculateNextLocalTimeSec() and must satisfy AnswerOK (= the declaratively defined next instant).  *)
(* All invariants of the property are evaluated at every step.                                                  *)
EXTENDS Alarm, Json, IOUtils, TLC
Log == ndJsonDeserialize(IOEnv.TRACE)
VARIABLE l
ASSUME TLCSet(42, 0)
tvars == <<vars, l>>

Ev == Log[l]
IsEv(e) == l <= Len(Log) /\ Log[l].e = e /\ l' = l + 1
ToSet(q) == {q[i] : i \in DOMAIN q}
\* a cron field is logged the way it was rendered into the expression: items lo-hi/step
Expand(f) == UNION {{v \in it[1]..it[2] : (v - it[1]) % it[3] = 0} : it \in ToSet(f)}
Calendar(ev, sod, work) ==
  [kind |-> "workday", sod |-> sod, wmask |-> {d % 7 : d \in ToSet(ev.wmask)},
   spW |-> {p[1] : p \in {q \in ToSet(ev.sp) : q[2] = 1}}, spR |-> {p[1] : p \in {q \in ToSet(ev.sp) : q[2] = 0}}, work |-> work]
CfgOf(ev) ==
  CASE ev.k = "weekly"  -> [kind |-> "weekly", sod |-> ev.sod, mask |-> {d % 7 : d \in ToSet(ev.mask)}]
    [] ev.k = "oneshot" -> [kind |-> "oneshot", sod |-> ev.sod]
    [] ev.k = "workday" -> Calendar(ev, ev.sod, ev.work)
    [] ev.k = "cron"    -> [kind |-> "cron", S |-> Expand(ev.f[1]), M |-> Expand(ev.f[2]), H |-> Expand(ev.f[3]),
                            D |-> Expand(ev.f[4]), Mo |-> Expand(ev.f[5]), W |-> {d % 7 : d \in Expand(ev.f[6])}]

\* the projected state logged after the step
Post == /\ wall' = <<Ev.w[1], Ev.w[2], Ev.w[3] \div 1000>> /\ mono' = <<Ev.m[1], Ev.m[2]>>
        /\ (st' = "Running") = Ev.en
        /\ Ev.en => target' = <<Ev.tg[1], Ev.tg[2]>>
Ret == ret' = Ev.ret

Blank == InitWith(<<0, 0, 0>>, <<0, 0>>, 0)
TInit == Blank /\ l = 1
TReset == IsEv("Reset")
          /\ wall' = <<0, 0, 0>> /\ mono' = <<0, 0>> /\ sysoff' = 0 /\ cfg' = NoCfg /\ tz' = SysTz /\ st' = "None" /\ target' = Zero
          /\ armed' = FALSE /\ deadline' = <<0, 0>> /\ delay' = <<0, 0>> /\ sub' = FALSE /\ ret' = TRUE
          /\ armWall' = <<0, 0, 0>> /\ armBase' = Zero /\ armOff' = 0
          /\ fired' = {} /\ lastFired' = NoInst /\ served' = NoInst /\ flags' = {} /\ shots' = 0
TStart == IsEv("Start") /\ st = "None" /\ wall = <<0, 0, 0>> /\ ~armed
          /\ sysoff' = Ev.sys
          /\ UNCHANGED <<cfg, tz, st, target, armed, deadline, delay, sub, ret, armWall, armBase, armOff, fired, lastFired, served, flags, shots>>
          /\ Post
TCalc == IsEv("Calc") /\ cfg.kind # "none"
         /\ AnswerOK(cfg, <<Ev.t[1], Ev.t[2]>>, Ev.ok, <<Ev.r[1], Ev.r[2]>>)
         /\ UNCHANGED vars
TNext ==
  \/ TReset
  \/ TStart
  \/ IsEv("Init") /\ Initialize(CfgOf(Ev)) /\ Ret /\ Post
  \/ IsEv("Tz") /\ SetTimezone(Ev.min * 60) /\ Post
  \/ IsEv("Enable") /\ Enable /\ Ret /\ Post
  \/ IsEv("Disable") /\ Disable /\ Ret /\ Post
  \/ IsEv("Refresh") /\ Refresh /\ Post
  \/ IsEv("Cleanup") /\ Cleanup /\ Post
  \/ IsEv("Cal") /\ CalendarUpdate(Calendar(Ev, cfg.sod, cfg.work)) /\ Post
  \/ IsEv("Adv") /\ Advance(<<Ev.dt[1], Ev.dt[2]>>, Ev.skew) /\ Post
  \/ IsEv("Adj") /\ AdjustWall(Ev.ds) /\ Post
  \/ IsEv("Fire") /\ TimerFires /\ Post
  \/ TCalc
TSpec == TInit /\ [][TNext]_tvars

Progress == TLCSet(42, IF l > TLCGet(42) THEN l ELSE TLCGet(42))
Accepted == IF TLCGet(42) = Len(Log) + 1 THEN TRUE ELSE PrintT(<<"MAXPOS", TLCGet(42), Len(Log)>>) /\ FALSE
=============================================================================
