CONSTANTS
  Strict = TRUE
  Variant = "ok"
  MaxMoves = 1
  CfgSel = {"workday", "oneshot"}
  StartSel = {1, 2}
SPECIFICATION CSpec
CONSTRAINT Bound
VIEW View
INVARIANTS TypeOK TargetIsEarliest DelayCoversDistance OncePerInstant EarlyWakeDoesNotRefire OneShotOnce DisabledNeverFires
POSTCONDITION ActStats
CHECK_DEADLOCK FALSE
