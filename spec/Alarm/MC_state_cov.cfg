CONSTANTS
  Variant = "ok"
  MaxMoves = 1
  CfgSel = {"workday"}
SPECIFICATION MSpec
CONSTRAINT Bound
VIEW View
INVARIANTS TypeOK TargetIsEarliest DelayCoversDistance OncePerInstant EarlyWakeDoesNotRefire OneShotOnce DisabledNeverFires
CHECK_DEADLOCK FALSE
