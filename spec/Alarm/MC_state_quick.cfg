CONSTANTS
  Strict = TRUE
  Variant = "ok"
  MaxMoves = 2
  CfgSel = {"weekly", "oneshot", "workday"}
  StartSel = {2}
SPECIFICATION MSpec
CONSTRAINT Bound
VIEW View
INVARIANTS TypeOK TargetIsEarliest DelayCoversDistance OncePerInstant EarlyWakeDoesNotRefire OneShotOnce DisabledNeverFires
CHECK_DEADLOCK FALSE
