CONSTANTS
  Variant = "oneshot_gt"
  D0 = 19358
  NDays = 8
  Zones = {0}
  Sods = {0, 43200}
  WeeklyMasks <- SomeMasks
  WMasks <- QuickWMasks
  SpCand <- QuickSpCand
  MaxSp = 1
SPECIFICATION Spec
INVARIANTS AlgEqDecl AlgEqDeclUtc DeclIsLeast CronSodOK
CHECK_DEADLOCK FALSE
