------------------------------- MODULE Alarm -------------------------------
(* C20, part 3: one alarm object of cpp-tbox (alarm.cpp + the four kinds) as a state machine over a  *)
(* virtual wall clock and a virtual monotonic clock.  One action per public call; TimerFires is the  *)
(* loop delivering the armed one-shot timer.  The property is stated as separate invariants over     *)
(* ghost variables; nothing of it is baked into the actions.                                          *)
(*                                                                                                     *)
(*   wall  = <<day, sod, ms>>      virtual UTC wall clock (ms = elapsed milliseconds of the second)    *)
(*   mono  = <<days, ms>>          virtual monotonic clock (ms < 86 400 000), only ever grows          *)
(*   durations are pairs <<days, ms>> as well: nothing exceeds 32 bits                                 *)
(*                                                                                                     *)
(* Variant (see AlarmCalc) selects the as-found / mutated shapes:                                      *)
(*   "delay32"              the delay is computed in 32-bit unsigned milliseconds (as found, #30)      *)
(*   "disable_keeps_target" disable() keeps the previous target, enable() then starts from it (as found)*)
(*   "from_now"             the next computation starts from now instead of max(now, previous target)  *)
EXTENDS AlarmCalc
CONSTANT Strict               \* TRUE: the answer of the algorithm only (models); FALSE: see ArmChoices (trace validation)

VARIABLES
  wall, mono, sysoff,          \* clocks; system zone offset (used while no explicit zone is set)
  cfg, tz,                     \* configuration given to initialize() (NoCfg before); explicit zone offset or SysTz
  st,                          \* "None" | "Inited" | "Running"          (Alarm::state_)
  target,                      \* <<day, sod>> ; <<0, 0>> = cleared        (Alarm::target_utc_sec_)
  armed, deadline, delay,      \* the loop timer: armed?, monotonic deadline, the delay it was armed with
  sub,                         \* subscribed to the workday calendar (onEnable/onDisable)
  ret,                         \* return value of the last call
  \* ghosts (only read by the invariants and by the environment restriction)
  armWall, armBase, armOff,    \* wall clock, demanded base instant and zone offset when the timer was armed
  fired, lastFired,            \* instants the callback has fired for; the latest one (both forget instants that a
                               \* backward step of the wall clock puts into the future again)
  served,                      \* the instant fired last since the alarm was last told to start over
                               \* (disable / refresh / cleanup); NoInst if none
  flags, shots                 \* recorded anomalies; callbacks since the last enable()

vars == <<wall, mono, sysoff, cfg, tz, st, target, armed, deadline, delay, sub, ret,
          armWall, armBase, armOff, fired, lastFired, served, flags, shots>>

Zero == <<0, 0>>
NoCfg == [kind |-> "none"]
SysTz == 999999                  \* tz value meaning "no explicit zone: follow the system zone"
Now == <<wall[1], wall[2]>>
Off == IF tz = SysTz THEN sysoff ELSE tz

(* ------------------------------- durations ----------------------------------------------------- *)
DayMs == 86400000
DNorm(d, ms) == <<d + (ms \div DayMs), ms % DayMs>>
DAdd(a, b) == DNorm(a[1] + b[1], a[2] + b[2])
DSub(a, b) == DNorm(a[1] - b[1], a[2] - b[2])
DLe(a, b) == a[1] < b[1] \/ (a[1] = b[1] /\ a[2] <= b[2])
DLt(a, b) == a[1] < b[1] \/ (a[1] = b[1] /\ a[2] < b[2])
\* wall-clock distance from w = <<d, s, ms>> to the instant t (negative days if t is not after w)
Dist(t, w) == DNorm(t[1] - w[1], (t[2] - w[2]) * 1000 - w[3])
WallPlus(w, dur) == LET x == DNorm(w[1] + dur[1], w[2] * 1000 + w[3] + dur[2]) IN <<x[1], x[2] \div 1000, x[2] % 1000>>
W32 == <<49, 61367296>>                                     \* 2^32 milliseconds
RECURSIVE Mod32(_)
Mod32(a) == IF DLe(W32, a) THEN Mod32(DSub(a, W32)) ELSE a
\* alarm.cpp activeTimer(): delay = remain_sec * 1000 - usec / 1000
DelayOf(t, w) ==
  IF Variant = "delay32"
  THEN LET r == Mod32(Dist(t, <<w[1], w[2], 0>>))           \* remain_sec * 1000 in uint32_t
       IN IF DLe(<<0, w[3]>>, r) THEN DSub(r, <<0, w[3]>>) ELSE DSub(DAdd(r, W32), <<0, w[3]>>)
  ELSE Dist(t, w)

(* ------------------------------- the alarm ----------------------------------------------------- *)
InitWith(w, m, so) ==
  /\ wall = w /\ mono = m /\ sysoff = so
  /\ cfg = NoCfg /\ tz = SysTz /\ st = "None" /\ target = Zero
  /\ armed = FALSE /\ deadline = <<0, 0>> /\ delay = <<0, 0>> /\ sub = FALSE /\ ret = TRUE
  /\ armWall = <<0, 0, 0>> /\ armBase = Zero /\ armOff = 0
  /\ fired = {} /\ lastFired = NoInst /\ served = NoInst /\ flags = {} /\ shots = 0

\* Alarm::activeTimer() with configuration c, the value tgt of target_utc_sec_ it finds, and (ghost) the base
\* instant the property demands: "now" for enable()/refresh(), max(now, the instant just fired) for the re-arm.
\* On success the timer is armed and state becomes Running; on failure nothing but `ok` changes here.
\* The answer is the one of the algorithm (AlarmCalc!NextAlg).  Where the statement leaves room - the next instant lies
\* more than a year ahead, beyond or at the edge of the finite search windows - the non-strict reading used for trace
\* validation also admits "found the declarative next instant" and "nothing found", so that a refactored search window
\* is not reported.
ArmChoices(c, base) ==
  LET a == NextAlgUtc(c, Off, base) IN
  IF Strict THEN {a}
  ELSE LET lb == Shift(base, Off)
           dl == NextDecl(c, lb, Horizon(c))
       IN IF dl # NoInst /\ dl[1] - lb[1] > 365 THEN {a, Shift(dl, -Off), NoInst} ELSE {a}
Arm(c, tgt, demand, ok) ==
  LET base == IF Variant = "from_now" THEN Now ELSE MaxI(Now, tgt)
  IN \E nxt \in ArmChoices(c, base) :
     IF nxt = NoInst
     THEN /\ ok = FALSE
          /\ UNCHANGED <<deadline, delay, armWall, armBase, armOff>>
     ELSE /\ ok = TRUE
          /\ target' = nxt /\ st' = "Running" /\ armed' = TRUE
          /\ delay' = DelayOf(nxt, wall) /\ deadline' = DAdd(mono, DelayOf(nxt, wall))
          /\ armWall' = wall /\ armBase' = demand /\ armOff' = Off

Initialize(c) ==
  /\ IF st = "Running" THEN ret' = FALSE /\ UNCHANGED <<cfg, st>>
     ELSE ret' = TRUE /\ cfg' = c /\ st' = "Inited"
  /\ UNCHANGED <<wall, mono, sysoff, tz, target, armed, deadline, delay, sub, armWall, armBase, armOff, fired, lastFired, served, flags, shots>>

SetTimezone(offset) ==
  /\ tz' = offset /\ ret' = TRUE
  /\ UNCHANGED <<wall, mono, sysoff, cfg, st, target, armed, deadline, delay, sub, armWall, armBase, armOff, fired, lastFired, served, flags, shots>>

\* enable(): the demanded base is "now" - or the instant already served, so that an instant is not selected twice
Enable ==
  /\ IF st = "Inited"
     THEN \E ok \in BOOLEAN :
            /\ Arm(cfg, target, MaxI(Now, served), ok)
            /\ ret' = ok
            /\ sub' = (cfg.kind = "workday")                 \* onEnable() runs before activeTimer()
            /\ IF ok THEN shots' = 0 ELSE UNCHANGED <<target, st, armed, shots>>
     ELSE ret' = FALSE /\ UNCHANGED <<target, st, armed, deadline, delay, sub, armWall, armBase, armOff, shots>>
  /\ UNCHANGED <<wall, mono, sysoff, cfg, tz, fired, lastFired, served, flags>>

\* disable(): stops the timer and forgets the target, so that a later enable() starts from the current time
Disable ==
  /\ IF st = "Running"
     THEN /\ ret' = TRUE /\ st' = "Inited" /\ armed' = FALSE /\ sub' = FALSE /\ served' = NoInst
          /\ target' = IF Variant = "disable_keeps_target" THEN target ELSE Zero
     ELSE ret' = FALSE /\ UNCHANGED <<st, armed, sub, target, served>>
  /\ UNCHANGED <<wall, mono, sysoff, cfg, tz, deadline, delay, armWall, armBase, armOff, fired, lastFired, flags, shots>>

Cleanup ==
  /\ IF st = "None" THEN UNCHANGED <<cfg, tz, st, target, armed, sub, served>>
     ELSE /\ cfg' = NoCfg /\ tz' = SysTz /\ st' = "None" /\ target' = Zero /\ armed' = FALSE /\ served' = NoInst
          /\ sub' = IF st = "Running" THEN FALSE ELSE sub
  /\ ret' = TRUE
  /\ UNCHANGED <<wall, mono, sysoff, deadline, delay, armWall, armBase, armOff, fired, lastFired, flags, shots>>

\* refresh(): recompute from the current wall clock (the previous target is deliberately forgotten)
RefreshWith(c) ==
  IF st = "Running"
  THEN /\ served' = NoInst
       /\ \E ok \in BOOLEAN :
            /\ Arm(c, Zero, Now, ok)
            /\ IF ok THEN TRUE ELSE st' = "Inited" /\ armed' = FALSE /\ target' = Zero
  ELSE UNCHANGED <<st, target, armed, deadline, delay, armWall, armBase, armOff, served>>
Refresh ==
  /\ RefreshWith(cfg) /\ ret' = TRUE
  /\ UNCHANGED <<wall, mono, sysoff, cfg, tz, sub, fired, lastFired, flags, shots>>

\* WorkdayCalendar::updateSpecialDays()/updateWeekMask(): the calendar changes and refreshes its subscribers
CalendarUpdate(c) ==
  /\ cfg.kind = "workday" /\ c.kind = "workday" /\ c.sod = cfg.sod /\ c.work = cfg.work
  /\ cfg' = c /\ ret' = TRUE
  /\ IF sub THEN RefreshWith(c) ELSE UNCHANGED <<st, target, armed, deadline, delay, armWall, armBase, armOff, served>>
  /\ UNCHANGED <<wall, mono, sysoff, tz, sub, fired, lastFired, flags, shots>>

\* The loop delivers the timer (only possible once the monotonic deadline has passed).
\* cpp-tbox re-arms BEFORE the user callback, from max(now, the instant that just fired); a one-shot alarm does not re-arm.
TimerFires ==
  /\ armed /\ DLe(deadline, mono)
  /\ fired' = fired \cup {target} /\ lastFired' = target /\ served' = target
  /\ shots' = shots + 1
  /\ flags' = flags \cup (IF target \in fired THEN {"twice"} ELSE {})
                    \cup (IF st # "Running" THEN {"fired_while_disabled"} ELSE {})
  /\ IF cfg.kind = "oneshot"
     THEN st' = "Inited" /\ armed' = FALSE /\ UNCHANGED <<target, deadline, delay, armWall, armBase, armOff>>
     ELSE \E ok \in BOOLEAN :
            /\ Arm(cfg, target, MaxI(Now, target), ok)
            /\ IF ok THEN TRUE ELSE st' = "Inited" /\ armed' = FALSE /\ UNCHANGED target
  /\ ret' = TRUE
  /\ UNCHANGED <<wall, mono, sysoff, cfg, tz, sub>>

(* ------------------------------- the environment ----------------------------------------------- *)
\* both clocks advance; the monotonic one by dt + skew (skew may be negative, mono never goes back)
Advance(dt, skew) ==
  /\ DLe(<<0, 0>>, DNorm(dt[1], dt[2] + skew))
  /\ wall' = WallPlus(wall, dt) /\ mono' = DAdd(mono, DNorm(dt[1], dt[2] + skew))
  /\ UNCHANGED <<sysoff, cfg, tz, st, target, armed, deadline, delay, sub, ret, armWall, armBase, armOff, fired, lastFired, served, flags, shots>>
\* ... until the wall clock shows target + ms milliseconds
AdvanceToTarget(ms, skew) ==
  /\ st = "Running"
  /\ LET dt == DNorm(Dist(target, wall)[1], Dist(target, wall)[2] + ms) IN DLe(<<0, 0>>, dt) /\ Advance(dt, skew)
\* The wall clock is stepped by delta seconds (NTP, the user).  Instants that are in the future again may fire again
\* (once refresh() has been called; an alarm that is not refreshed keeps its target and its served instant).
AdjustWall(delta) ==
  /\ wall' = LET i == Shift(Now, delta) IN <<i[1], i[2], wall[3]>>
  /\ fired' = IF delta < 0 THEN {i \in fired : ~Lt(Shift(Now, delta), i)} ELSE fired
  /\ lastFired' = IF delta < 0 /\ lastFired # NoInst /\ Lt(Shift(Now, delta), lastFired) THEN NoInst ELSE lastFired
  /\ UNCHANGED <<mono, sysoff, cfg, tz, st, target, armed, deadline, delay, sub, ret, armWall, armBase, armOff, served, flags, shots>>

\* Environment restriction: while the wall clock has not yet reached the instant whose callback already ran (an early
\* wake-up: the monotonic clock ran ahead), the application does not call into the alarm.  refresh() and disable()+enable()
\* by design recompute from the current wall clock and would legitimately select that instant again.
InEarlyWindow == lastFired # NoInst /\ Lt(Now, lastFired)

(* ------------------------------- the property -------------------------------------------------- *)
\* the armed instant is the earliest matching instant strictly after the time of arming (and after the instant the
\* alarm has already fired for, if any: armBase = max(now, served))
TargetIsEarliest == st = "Running" => target = NextDeclUtc(cfg, armOff, armBase)
\* the delay is never shorter than the wall-clock distance to the instant, measured when the alarm was armed
DelayCoversDistance == armed => DLe(Dist(target, armWall), delay)
\* never twice for one instant
OncePerInstant == "twice" \notin flags
\* after an (early) wake-up the next armed instant lies strictly after the one that fired
EarlyWakeDoesNotRefire == (st = "Running" /\ lastFired # NoInst /\ InEarlyWindow) => Lt(lastFired, target)
OneShotOnce == cfg.kind = "oneshot" => shots <= 1
DisabledNeverFires == (armed => st = "Running") /\ "fired_while_disabled" \notin flags

TypeOK ==
  /\ st \in {"None", "Inited", "Running"} /\ armed \in BOOLEAN /\ ret \in BOOLEAN /\ sub \in BOOLEAN
  /\ wall[2] \in 0..86399 /\ wall[3] \in 0..999 /\ mono[2] \in 0..(DayMs - 1)
  /\ (st = "None") = (cfg.kind = "none")
=============================================================================
