--------------------------- MODULE MC_AlarmCalc ---------------------------
(* C20 part 2 as a model: for every configuration / zone / "now" of the bounded scope the algorithm    *)
(* shaped like the implementation returns exactly the declaratively defined earliest instant.            *)
(* State = one input tuple; the three-level Next only spreads the evaluations over the TLC workers.      *)
EXTENDS AlarmCalc, TLC
CONSTANTS D0, NDays,            \* "now" ranges over local days D0 .. D0+NDays-1
          Zones, Sods,          \* zone offsets (seconds), alarm seconds-of-day
          WeeklyMasks,          \* sets of weekdays
          WMasks, SpCand, MaxSp \* workday calendars: default masks, candidate special days, max number of them
VARIABLE x
Full == 0..6
AllZones == {-43200, -1800, 0, 20700, 50400}      \* -12h, -30min, UTC, +5h45, +14h
QuickZones == {-43200, 20700, 50400}
AllMasks == SUBSET Full                          \* 128 masks (the empty one: "never")
SomeMasks == {{1}, {0, 6}, 1..5, Full}
QuickWMasks == {1..5, {}}
FullWMasks == {1..5, {}, {0, 6}}
QuickSpCand == {D0 + 1, D0 + 7, D0 + 8, D0 + 400}
FullSpCand == {D0 + 1, D0 + 7, D0 + 8, D0 + 200, D0 + 400}

\* local "now" values: every day of the window at 00:00:00, 00:00:01, 23:59:59 and around the alarm's second of day
Nows(sod) == {<<d, s>> : d \in D0..(D0 + NDays - 1),
                         s \in ({0, 1, 86399} \cup {y \in {sod - 1, sod, sod + 1} : y >= 0 /\ y < 86400})}

Specials == {p \in (SUBSET SpCand) \X (SUBSET SpCand) : p[1] \cap p[2] = {} /\ Cardinality(p[1]) + Cardinality(p[2]) <= MaxSp}

CronCfgs == {
  [kind |-> "cron", S |-> {0, 30}, M |-> {0, 59}, H |-> {0, 23}, D |-> 1..31, Mo |-> 1..12, W |-> Full],
  [kind |-> "cron", S |-> {0}, M |-> {0}, H |-> {0}, D |-> {29}, Mo |-> {2}, W |-> Full],
  [kind |-> "cron", S |-> {59}, M |-> {59}, H |-> {23}, D |-> {31}, Mo |-> 1..12, W |-> Full],
  [kind |-> "cron", S |-> {0}, M |-> {30}, H |-> {12}, D |-> {13}, Mo |-> 1..12, W |-> {5}],
  [kind |-> "cron", S |-> {15}, M |-> {0, 15, 30, 45}, H |-> 9..17, D |-> 1..31, Mo |-> 1..12, W |-> 1..5],
  [kind |-> "cron", S |-> {0}, M |-> {0}, H |-> {0}, D |-> {1}, Mo |-> {3}, W |-> Full] }

Cfgs ==
  {[kind |-> "weekly", sod |-> s, mask |-> m] : s \in Sods, m \in WeeklyMasks}
  \cup {[kind |-> "oneshot", sod |-> s] : s \in Sods}
  \cup {[kind |-> "workday", sod |-> s, wmask |-> m, spW |-> p[1], spR |-> p[2], work |-> w] :
          s \in Sods, m \in WMasks, p \in Specials, w \in BOOLEAN}
  \cup CronCfgs

SodOf(c) == IF c.kind = "cron" THEN 43200 ELSE c.sod

Init == x = [ph |-> 0]
Next == \/ x.ph = 0 /\ \E k \in {"weekly", "oneshot", "workday", "cron"} : x' = [ph |-> 1, k |-> k]
        \/ x.ph = 1 /\ \E c \in {cc \in Cfgs : cc.kind = x.k} : x' = [ph |-> 2, c |-> c]
        \/ x.ph = 2 /\ \E off \in Zones, lt \in Nows(SodOf(x.c)) : x' = [ph |-> 3, c |-> x.c, off |-> off, lt |-> lt]
Spec == Init /\ [][Next]_x

\* the algorithm's answer is the declarative one (or "nothing within a year" when it gives up)
AlgEqDecl == x.ph = 3 =>
  LET a == NextAlg(x.c, x.lt) IN AnswerOK(x.c, x.lt, a # NoInst, a)
\* ... also through the zone shift of activeTimer(): now is the UTC instant whose local reading is lt
AlgEqDeclUtc == x.ph = 3 =>
  LET t == Shift(x.lt, -x.off)
      a == NextAlgUtc(x.c, x.off, t)
      d == NextDeclUtc(x.c, x.off, t)
  IN a # NoInst => a = d /\ Lt(t, a) /\ Matches(x.c, Shift(a, x.off))
\* NextDecl really is the least matching instant: it matches, it is after now, and no instant of a dense probe
\* grid (every day in between x the interesting seconds) that is earlier matches
DeclIsLeast == x.ph = 3 =>
  LET r == NextDecl(x.c, x.lt, Horizon(x.c))
      sods == {0, 1, 43199, 43200, 43201, 86398, 86399} \cup (IF x.c.kind = "cron" THEN {} ELSE {x.c.sod})
  IN IF r = NoInst
     THEN \A d \in x.lt[1]..(x.lt[1] + 20), s \in sods : ~(Lt(x.lt, <<d, s>>) /\ Matches(x.c, <<d, s>>))
     ELSE /\ Matches(x.c, r) /\ Lt(x.lt, r)
          /\ \A d \in x.lt[1]..r[1], s \in sods : (Lt(x.lt, <<d, s>>) /\ Lt(<<d, s>>, r)) => ~Matches(x.c, <<d, s>>)
\* the lexicographic "next second of day" of cron equals the brute-force minimum over all matching seconds
CronSodOK == (x.ph = 3 /\ x.c.kind = "cron") =>
  /\ CronFirstSod(x.c, x.lt[2]) = CronFirstSodBrute(x.c, x.lt[2])
  /\ CronFirstSod(x.c, -1) = CronFirstSodBrute(x.c, -1)
\* calendar sanity: the civil-date operator agrees with known dates
CalendarOK ==
  /\ MonthDay(0) = <<1, 1>> /\ MonthDay(58) = <<2, 28>> /\ MonthDay(59) = <<3, 1>>          \* 1970
  /\ MonthDay(789) = <<2, 29>> /\ MonthDay(11016) = <<2, 29>>                                \* 1972-02-29, 2000-02-29
  /\ MonthDay(19268) = <<10, 3>> /\ Weekday(19268) = 1                                       \* 2022-10-03, a Monday
  /\ MonthDay(47540) = <<2, 28>> /\ MonthDay(47541) = <<3, 1>>                               \* 2100 is not a leap year
  /\ Weekday(0) = 4
  /\ \A d \in {0, 58, 59, 789, 11016, 19268, 19782, 47540, 47541, 49000} :
        LET ym == CivilYM(d) md == MonthDay(d) IN ym[2] = md[1] /\ DaysFromCivil(ym[1], md[1], md[2]) = d
  /\ CivilYM(19782) = <<2024, 2>> /\ DaysFromCivil(1970, 1, 1) = 0 /\ DaysFromCivil(2100, 3, 1) = 47541
=============================================================================
