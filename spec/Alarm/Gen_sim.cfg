CONSTANTS
  Variant = "ok"
  MaxMoves = 99
  CfgSel = {"weekly", "oneshot", "workday", "yearly", "leap", "daily"}
  Depth = 14
SPECIFICATION GSpec
CONSTRAINT Emit
CHECK_DEADLOCK FALSE
