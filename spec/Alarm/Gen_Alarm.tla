----------------------------- MODULE Gen_Alarm -----------------------------
(* Behaviour generator for C20: every sequence of state-changing calls / clock movements of the bounded   *)
(* model MC_Alarm up to Depth (BFS), or random deep ones (-simulate), is printed as a JSON script.  The     *)
(* C++ driver executes each script on the real alarm classes; the recorded trace is validated against       *)
(* Trace_Alarm.  The loop delivers a due timer before the next script step runs, so here TimerFires has     *)
(* priority over every other action and is not part of the script.                                           *)
EXTENDS MC_Alarm, Json
CONSTANT Depth
VARIABLE hist
gvars == <<pvars, hist>>
H(op) == hist' = Append(hist, op)
Due == armed /\ DLe(deadline, mono)
Changed == <<cfg, tz, st, target, armed, sub, wall, mono>>' # <<cfg, tz, st, target, armed, sub, wall, mono>>
Call == ~Due /\ Quiet
GInit == MInit /\ hist = <<[o |-> "start", w |-> wall, sys |-> sysoff, pick |-> pick]>>
G_Initialize == Call /\ M_Initialize /\ Changed /\ H([o |-> "init", c |-> AllCfgs[pick]])
G_SetTimezone == Call /\ M_SetTimezone /\ H([o |-> "tz", min |-> 345])
G_Enable == Call /\ M_Enable /\ Changed /\ H([o |-> "enable"])
G_Disable == Call /\ M_Disable /\ Changed /\ H([o |-> "disable"])
G_Refresh == Call /\ M_Refresh /\ st = "Running" /\ H([o |-> "refresh"])
G_Cleanup == Call /\ M_Cleanup /\ Changed /\ H([o |-> "cleanup"])
G_CalendarUpdate == Call /\ (\E c \in {Cal1, Cal2} : c # cfg /\ CalendarUpdate(c) /\ H([o |-> "cal", c |-> c])) /\ UNCHANGED <<n, pick>>
G_TimerFires == M_TimerFires /\ UNCHANGED hist
G_Advance == ~Due /\ (\E mv \in Moves : Advance(mv[1], mv[2]) /\ H([o |-> "adv", dt |-> mv[1], skew |-> mv[2]])) /\ n' = n + 1 /\ UNCHANGED pick
G_AdvanceToTarget == ~Due /\ (\E mv \in TMoves : AdvanceToTarget(mv[1], mv[2]) /\ H([o |-> "advt", ms |-> mv[1], skew |-> mv[2]]))
                     /\ n' = n + 1 /\ UNCHANGED pick
G_AdjustWall == Call /\ (\E d \in {-3600, 3600} : AdjustWall(d) /\ H([o |-> "adj", ds |-> d])) /\ n' = n + 1 /\ UNCHANGED pick
GNext == \/ G_Initialize \/ G_SetTimezone \/ G_Enable \/ G_Disable \/ G_Refresh \/ G_Cleanup \/ G_CalendarUpdate
         \/ G_TimerFires \/ G_Advance \/ G_AdvanceToTarget \/ G_AdjustWall
GSpec == GInit /\ [][GNext]_gvars
Emit == IF Len(hist) >= Depth THEN PrintT("BEH " \o ToJson(hist)) /\ FALSE ELSE TRUE
=============================================================================
