CONSTANTS
  Variant = "ok"
  D0 = 19358
  NDays = 8
  Zones <- QuickZones
  Sods = {0, 86399}
  WeeklyMasks <- AllMasks
  WMasks <- QuickWMasks
  SpCand <- QuickSpCand
  MaxSp = 2
SPECIFICATION Spec
INVARIANTS AlgEqDecl AlgEqDeclUtc DeclIsLeast CronSodOK CalendarOK
CHECK_DEADLOCK FALSE
