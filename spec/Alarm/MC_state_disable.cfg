CONSTANTS
  Strict = TRUE
  Variant = "disable_keeps_target"
  MaxMoves = 1
  CfgSel = {"weekly", "oneshot"}
  StartSel = {1, 2}
SPECIFICATION MSpec
CONSTRAINT Bound
VIEW View
INVARIANTS TargetIsEarliest
CHECK_DEADLOCK FALSE
