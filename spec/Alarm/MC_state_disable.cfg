CONSTANTS
  Variant = "disable_keeps_target"
  MaxMoves = 1
  CfgSel = {"weekly", "oneshot"}
SPECIFICATION MSpec
CONSTRAINT Bound
VIEW View
INVARIANTS TargetIsEarliest
CHECK_DEADLOCK FALSE
