----------------------------- MODULE MC_Alarm -----------------------------
(* Bounded model of the alarm state machine: one alarm, a handful of configurations whose next       *)
(* instants lie 1 s .. 4 years ahead, every placement of initialize/enable/disable/refresh/cleanup/   *)
(* calendar update/zone change/wall adjustment between at most MaxMoves clock movements.               *)
EXTENDS Alarm, TLC
CONSTANTS MaxMoves, CfgSel, StartSel
VARIABLE n
mvars == <<vars, n>>
D0 == 19358                                   \* 2023-01-01, a Sunday
Full == 0..6
Cal1 == [kind |-> "workday", sod |-> 43200, wmask |-> {}, spW |-> {D0 + 50, D0 + 300}, spR |-> {}, work |-> TRUE]
Cal2 == [kind |-> "workday", sod |-> 43200, wmask |-> {}, spW |-> {D0 + 60}, spR |-> {}, work |-> TRUE]
AllCfgs == [
  weekly  |-> [kind |-> "weekly", sod |-> 0, mask |-> {1}],
  oneshot |-> [kind |-> "oneshot", sod |-> 1],
  workday |-> Cal1,
  leap    |-> [kind |-> "cron", S |-> {0}, M |-> {0}, H |-> {0}, D |-> {29}, Mo |-> {2}, W |-> Full],
  yearly  |-> [kind |-> "cron", S |-> {0}, M |-> {0}, H |-> {0}, D |-> {1}, Mo |-> {3}, W |-> Full],
  daily   |-> [kind |-> "cron", S |-> {0, 30}, M |-> {0}, H |-> {0, 12}, D |-> 1..31, Mo |-> 1..12, W |-> Full] ]
AllStarts == <<<<D0, 0, 0>>, <<D0, 86399, 995>>>>
Starts == {AllStarts[i] : i \in StartSel}
\* clock movements: <<dt, skew>> and "to target + ms" <<ms, skew>>
Moves == {<<<<0, 1000>>, 0>>, <<<<1, 0>>, 0>>, <<<<50, 0>>, 0>>}
TMoves == {<<-1, 0>>,          \* one millisecond before the instant: the timer must not be due
           <<0, 0>>,           \* exactly at the instant
           <<-5, 5>>,          \* monotonic clock 5 ms ahead: early wake-up within the same second
           <<-1000, 1000>>,    \* a full second ahead
           <<3, 0>>}           \* late
VARIABLE pick
pvars == <<mvars, pick>>
MInit == (\E w \in Starts : InitWith(w, <<0, 0>>, 3600)) /\ n = 0 /\ pick \in CfgSel
Quiet == ~InEarlyWindow            \* the environment restriction (see Alarm.tla)
M_Initialize == Quiet /\ Initialize(AllCfgs[pick]) /\ UNCHANGED <<n, pick>>
M_SetTimezone == Quiet /\ st = "Inited" /\ tz = SysTz /\ SetTimezone(20700) /\ UNCHANGED <<n, pick>>
M_Enable == Quiet /\ Enable /\ UNCHANGED <<n, pick>>
M_Disable == Quiet /\ Disable /\ UNCHANGED <<n, pick>>
M_Refresh == Quiet /\ Refresh /\ UNCHANGED <<n, pick>>
M_Cleanup == Quiet /\ Cleanup /\ UNCHANGED <<n, pick>>
M_CalendarUpdate == Quiet /\ (\E c \in {Cal1, Cal2} : c # cfg /\ CalendarUpdate(c)) /\ UNCHANGED <<n, pick>>
M_TimerFires == TimerFires /\ UNCHANGED <<n, pick>>
M_Advance == (\E mv \in Moves : Advance(mv[1], mv[2])) /\ n' = n + 1 /\ UNCHANGED pick
M_AdvanceToTarget == (\E mv \in TMoves : AdvanceToTarget(mv[1], mv[2])) /\ n' = n + 1 /\ UNCHANGED pick
M_AdjustWall == Quiet /\ (\E d \in {-3600, 3600} : AdjustWall(d)) /\ n' = n + 1 /\ UNCHANGED pick
MNext == \/ M_Initialize \/ M_SetTimezone \/ M_Enable \/ M_Disable \/ M_Refresh \/ M_Cleanup \/ M_CalendarUpdate
         \/ M_TimerFires \/ M_Advance \/ M_AdvanceToTarget \/ M_AdjustWall
MSpec == MInit /\ [][MNext]_pvars
Bound == n <= MaxMoves
\* states that differ only in ghosts of a timer that is not armed, in the absolute monotonic time or in the last
\* return value behave identically
View == <<wall, sysoff, cfg, tz, st, target, armed, sub, fired, lastFired, served, flags, shots, n, pick,
          IF armed THEN <<DSub(deadline, mono), delay, armWall, armBase, armOff>> ELSE <<>> >>
=============================================================================
