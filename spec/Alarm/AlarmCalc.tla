----------------------------- MODULE AlarmCalc -----------------------------
(* C20, part 1 and 2: what "the next trigger instant" of an alarm IS (declaratively), and the       *)
(* algorithms cpp-tbox uses to compute it (shaped like the four calculateNextLocalTimeSec()).        *)
(*                                                                                                   *)
(* Instants are pairs <<day, sod>> (days since 1970-01-01, second of that day): TLC integers are     *)
(* 32 bit, 2^32 seconds do not fit.  "Local" instants are UTC instants shifted by a fixed zone        *)
(* offset (seconds east of Greenwich; cpp-tbox alarms know no DST).                                   *)
(*                                                                                                   *)
(* A configuration is a record with field `kind`:                                                    *)
(*   weekly  : sod, mask (set of weekdays 0=Sunday..6)                                               *)
(*   oneshot : sod                                                                                   *)
(*   workday : sod, wmask (weekdays that are working days by default), spW / spR (day numbers that   *)
(*             are working / rest days whatever the weekday), work (fire on working days?)            *)
(*   cron    : S, M, H (sets of seconds, minutes, hours), D (days of month), Mo (months 1..12),      *)
(*             W (weekdays 0..6); all six must match (this is the semantics of the bundled ccronexpr) *)
EXTENDS Integers, Sequences, FiniteSets

CONSTANT Variant     \* "ok" = intended design; other values switch ONE operator to a faulty shape
                     \* (as-found defects and seeded design mutants, used only by expected-to-fail cfgs)

NoInst == <<-1, -1>>
Lt(a, b) == a[1] < b[1] \/ (a[1] = b[1] /\ a[2] < b[2])
Le(a, b) == a = b \/ Lt(a, b)
MaxI(a, b) == IF Lt(a, b) THEN b ELSE a
Shift(i, off) == LET s == i[2] + off IN <<i[1] + (s \div 86400), s % 86400>>
PlusDays(i, n) == <<i[1] + n, i[2]>>
SetMin(S) == CHOOSE x \in S : \A y \in S : x <= y

(* ------------------------------- calendar ------------------------------------------------------ *)
Weekday(d) == (d + 4) % 7                       \* 1970-01-01 was a Thursday; 0 = Sunday
\* civil month and day-of-month of day number d (proleptic Gregorian; days-from-civil inverted)
MonthDay(d) ==
  LET z   == d + 719468
      era == z \div 146097
      doe == z - era * 146097
      yoe == (doe - (doe \div 1460) + (doe \div 36524) - (doe \div 146096)) \div 365
      doy == doe - (365 * yoe + (yoe \div 4) - (yoe \div 100))
      mp  == (5 * doy + 2) \div 153
  IN <<IF mp < 10 THEN mp + 3 ELSE mp - 9, doy - ((153 * mp + 2) \div 5) + 1>>

\* civil year and month of day number d; day number of a civil date
CivilYM(d) ==
  LET z   == d + 719468
      era == z \div 146097
      doe == z - era * 146097
      yoe == (doe - (doe \div 1460) + (doe \div 36524) - (doe \div 146096)) \div 365
      doy == doe - (365 * yoe + (yoe \div 4) - (yoe \div 100))
      mp  == (5 * doy + 2) \div 153
      m   == IF mp < 10 THEN mp + 3 ELSE mp - 9
  IN <<yoe + era * 400 + (IF m <= 2 THEN 1 ELSE 0), m>>
DaysFromCivil(y, m, d) ==
  LET yy  == IF m <= 2 THEN y - 1 ELSE y
      era == yy \div 400
      yoe == yy - era * 400
      mp  == IF m > 2 THEN m - 3 ELSE m + 9
      doy == ((153 * mp + 2) \div 5) + d - 1
      doe == yoe * 365 + (yoe \div 4) - (yoe \div 100) + doy
  IN era * 146097 + doe - 719468

IsWorkday(c, d) == IF d \in c.spW THEN TRUE ELSE IF d \in c.spR THEN FALSE ELSE Weekday(d) \in c.wmask

(* ------------------------------- (1) the declarative meaning ------------------------------------ *)
DayMatches(c, d) ==
  CASE c.kind = "weekly"  -> Weekday(d) \in c.mask
    [] c.kind = "oneshot" -> TRUE
    [] c.kind = "workday" -> IsWorkday(c, d) = c.work
    [] c.kind = "cron"    -> LET md == MonthDay(d) IN md[1] \in c.Mo /\ md[2] \in c.D /\ Weekday(d) \in c.W
SodMatches(c, s) ==
  IF c.kind = "cron" THEN (s % 60) \in c.S /\ ((s \div 60) % 60) \in c.M /\ (s \div 3600) \in c.H
  ELSE s = c.sod
Matches(c, i) == DayMatches(c, i[1]) /\ SodMatches(c, i[2])

\* least second-of-day > after (after = -1: any) that SodMatches, or -1.
CronFirstSod(c, after) ==
  IF after < 0 THEN SetMin(c.H) * 3600 + SetMin(c.M) * 60 + SetMin(c.S)
  ELSE LET h0 == after \div 3600
           m0 == (after \div 60) % 60
           s0 == after % 60
           sA == {s \in c.S : s > s0}
           mA == {m \in c.M : m > m0}
           hA == {h \in c.H : h > h0}
       IN IF h0 \in c.H /\ m0 \in c.M /\ sA # {} THEN h0 * 3600 + m0 * 60 + SetMin(sA)
          ELSE IF h0 \in c.H /\ mA # {} THEN h0 * 3600 + SetMin(mA) * 60 + SetMin(c.S)
          ELSE IF hA # {} THEN SetMin(hA) * 3600 + SetMin(c.M) * 60 + SetMin(c.S)
          ELSE -1
FirstSod(c, after) == IF c.kind = "cron" THEN CronFirstSod(c, after) ELSE IF c.sod > after THEN c.sod ELSE -1
\* the same by brute force over the explicit set of matching seconds (used by MC to validate CronFirstSod)
CronFirstSodBrute(c, after) ==
  LET all == {h * 3600 + m * 60 + s : h \in c.H, m \in c.M, s \in c.S}
      aft == {x \in all : x > after}
  IN IF aft = {} THEN -1 ELSE SetMin(aft)

\* days of [t.day + lo, t.day + hi] that contain a matching instant strictly after t
DaysIn(c, t, lo, hi) ==
  {d \in (t[1] + lo)..(t[1] + hi) : DayMatches(c, d) /\ FirstSod(c, IF d = t[1] THEN t[2] ELSE -1) # -1}
InstOn(c, t, d) == <<d, FirstSod(c, IF d = t[1] THEN t[2] ELSE -1)>>
\* the same set for a cron configuration, for the k-th calendar month after the month of t (enumerated from the
\* days-of-month of the expression instead of from every day: cheap for sparse expressions such as "29 February")
CronDaysInMonth(c, t, k) ==
  LET ym  == LET q == CivilYM(t[1]) IN q[1] * 12 + (q[2] - 1) + k
      y   == ym \div 12
      m   == (ym % 12) + 1
      first == DaysFromCivil(y, m, 1)
      len == DaysFromCivil((ym + 1) \div 12, ((ym + 1) % 12) + 1, 1) - first
  IN IF m \notin c.Mo THEN {}
     ELSE {d \in {first + dd - 1 : dd \in {x \in c.D : x <= len}} :
             d >= t[1] /\ Weekday(d) \in c.W /\ FirstSod(c, IF d = t[1] THEN t[2] ELSE -1) # -1}
CronFirstIn(c, t, K) == InstOn(c, t, SetMin(CronDaysInMonth(c, t, SetMin(K))))
Min2(a, b) == IF a < b THEN a ELSE b
CronMonths(c, t, k0, k1) == {k \in k0..k1 : CronDaysInMonth(c, t, k) # {}}
\* NextDecl: THE least instant i with Lt(t, i) /\ Matches(c, i) within the horizon (NoInst if none).
\* (searched window by window only to keep the evaluation cheap; the result is the minimum over all of them)
NextDecl(c, t, horizon) ==
  IF c.kind = "cron"
  THEN LET k1 == CronMonths(c, t, 0, 1) IN
       IF k1 # {} THEN CronFirstIn(c, t, k1) ELSE
       LET k2 == CronMonths(c, t, 2, 12) IN
       IF k2 # {} THEN CronFirstIn(c, t, k2) ELSE
       LET k3 == CronMonths(c, t, 13, horizon) IN
       IF k3 # {} THEN CronFirstIn(c, t, k3) ELSE NoInst
  ELSE LET w1 == DaysIn(c, t, 0, Min2(8, horizon)) IN
       IF w1 # {} THEN InstOn(c, t, SetMin(w1)) ELSE
       LET w2 == DaysIn(c, t, 9, Min2(62, horizon)) IN
       IF w2 # {} THEN InstOn(c, t, SetMin(w2)) ELSE
       LET w3 == DaysIn(c, t, 63, horizon) IN
       IF w3 # {} THEN InstOn(c, t, SetMin(w3)) ELSE NoInst

\* how far the search for the next instant looks: weekly schedules repeat every 7 days, a one-shot time of day every
\* day; calendars are searched for 400 days, cron dates for 48 calendar months ahead (the bundled ccronexpr
\* gives up when the calendar year advances by more than 4, i.e. possibly from the 49th month on; 29 February is reachable)
Horizon(c) == CASE c.kind = "weekly" -> 8 [] c.kind = "oneshot" -> 2 [] c.kind = "workday" -> 400 [] c.kind = "cron" -> 48

\* in UTC, for a zone offset `off`
NextDeclUtc(c, off, t) == LET r == NextDecl(c, Shift(t, off), Horizon(c)) IN IF r = NoInst THEN NoInst ELSE Shift(r, -off)

(* ------------------------------- (2) the algorithms of the implementation ------------------------ *)
\* weekly_alarm.cpp: for (i = 0; i < 8; ++i) { if (curr < next && mask has (i + curr_week) % 7) return; next += day; }
AlgWeekly(c, cur) ==
  LET n0 == <<cur[1], c.sod>>
      cw == Weekday(cur[1])
      before(a, b) == IF Variant = "weekly_le" THEN Le(a, b) ELSE Lt(a, b)
      I  == {i \in 0..7 : before(cur, PlusDays(n0, i)) /\ ((i + cw) % 7) \in c.mask}
  IN IF I = {} THEN NoInst ELSE PlusDays(n0, SetMin(I))
\* oneshot_alarm.cpp: next = today at sod; if (curr >= next) next += day
AlgOneshot(c, cur) ==
  LET n0 == <<cur[1], c.sod>>
      late == IF Variant = "oneshot_gt" THEN Lt(n0, cur) ELSE Le(n0, cur)
  IN IF late THEN PlusDays(n0, 1) ELSE n0
\* workday_alarm.cpp: for (i = 0; i < 367; ++i) { if (curr < next && workday == isWorkday(curr_days + i)) return; next += day; }
AlgWorkday(c, cur) ==
  LET n0 == <<cur[1], c.sod>>
      last == IF Variant = "workday_win6" THEN 5 ELSE 366
      ok(i) == Lt(cur, PlusDays(n0, i)) /\ IsWorkday(c, cur[1] + i) = c.work
      I1 == {i \in 0..(IF last < 13 THEN last ELSE 13) : ok(i)}
  IN IF I1 # {} THEN PlusDays(n0, SetMin(I1))
     ELSE LET I2 == {i \in 14..last : ok(i)} IN IF I2 = {} THEN NoInst ELSE PlusDays(n0, SetMin(I2))
\* cron_alarm.cpp delegates to the bundled ccronexpr (cron_next); its field-by-field roll-over algorithm is not
\* transcribed - the model uses the declarative meaning; the binding compares the real cron_next with it.
NextAlg(c, cur) ==
  CASE c.kind = "weekly"  -> AlgWeekly(c, cur)
    [] c.kind = "oneshot" -> AlgOneshot(c, cur)
    [] c.kind = "workday" -> AlgWorkday(c, cur)
    [] c.kind = "cron"    -> NextDecl(c, cur, Horizon(c))
\* alarm.cpp activeTimer(): shift to local, compute, shift back
NextAlgUtc(c, off, t) == LET r == NextAlg(c, Shift(t, off)) IN IF r = NoInst THEN NoInst ELSE Shift(r, -off)

\* What the statement demands of a computed answer <<found, r>> for "now" t (both local):
\*  - a reported instant is THE earliest matching instant after t;
\*  - "nothing found" is acceptable only if nothing matches within a year (the search windows of the
\*    implementations are finite by design: 8 days weekly, 367 days workday).
AnswerOK(c, t, found, r) ==
  LET want == NextDecl(c, t, Horizon(c)) IN
  IF found THEN (want # NoInst => r = want)
  ELSE want = NoInst \/ want[1] - t[1] > 365
=============================================================================
