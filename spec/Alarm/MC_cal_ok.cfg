CONSTANTS
  Alarms = {1, 2, 3}
  Refresh = "inplace"
  MaxUpdates = 2
SPECIFICATION Spec
INVARIANTS AllRefreshed SubscribersAreRunning
CHECK_DEADLOCK FALSE
