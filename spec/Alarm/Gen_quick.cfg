CONSTANTS
  Variant = "ok"
  MaxMoves = 99
  CfgSel = {"weekly", "oneshot", "workday"}
  Depth = 5
SPECIFICATION GSpec
CONSTRAINT Emit
CHECK_DEADLOCK FALSE
