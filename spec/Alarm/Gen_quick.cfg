CONSTANTS
  Strict = TRUE
  Variant = "ok"
  MaxMoves = 99
  CfgSel = {"weekly", "oneshot", "workday"}
  StartSel = {1, 2}
  Depth = 5
SPECIFICATION GSpec
CONSTRAINT Emit
CHECK_DEADLOCK FALSE
