CONSTANTS
  Alarms = {1, 2, 3}
  Refresh = "resubscribe"
  MaxUpdates = 2
SPECIFICATION Spec
INVARIANTS AllRefreshed
CHECK_DEADLOCK FALSE
