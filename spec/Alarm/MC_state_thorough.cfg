CONSTANTS
  Strict = TRUE
  Variant = "ok"
  MaxMoves = 3
  CfgSel = {"weekly", "oneshot", "workday", "yearly", "leap", "daily"}
  StartSel = {1, 2}
SPECIFICATION MSpec
CONSTRAINT Bound
VIEW View
INVARIANTS TypeOK TargetIsEarliest DelayCoversDistance OncePerInstant EarlyWakeDoesNotRefire OneShotOnce DisabledNeverFires
CHECK_DEADLOCK FALSE
