CONSTANTS
  Variant = "from_now"
  MaxMoves = 2
  CfgSel = {"weekly"}
SPECIFICATION MSpec
CONSTRAINT Bound
VIEW View
INVARIANTS OncePerInstant
CHECK_DEADLOCK FALSE
