---------------------------- MODULE CalendarSubs ----------------------------
(* C20, shared workday calendar: WorkdayCalendar keeps the alarms that are enabled on it in a vector           *)
(* (watch_alarms_: subscribe() on enable, unsubscribe() on disable) and updateSpecialDays()/updateWeekMask()    *)
(* walk over that vector calling refresh() on every element.  Design-level statement of the clause "the next     *)
(* instant is the earliest one under the configuration" for SEVERAL alarms on one calendar: when an update has   *)
(* finished, no running alarm is still armed for an instant computed from the old calendar.                       *)
(*   Refresh = "inplace"      refresh() re-arms the alarm and leaves the subscriber vector alone (cpp-tbox)      *)
(*   Refresh = "resubscribe"  refresh() = disable(); enable(): the alarm erases itself from the vector and is     *)
(*                            appended again while the calendar is iterating (expected to violate AllRefreshed)   *)
EXTENDS Integers, Sequences, FiniteSets
CONSTANTS Alarms, Refresh, MaxUpdates
VARIABLES watch,      \* sequence of subscribed alarms (subscription order)
          running,    \* alarms that are enabled
          stale,      \* running alarms still armed from the calendar contents before the update in progress
          i,          \* 0: no update in progress; otherwise index of the next vector element to refresh
          updates
vars == <<watch, running, stale, i, updates>>
Remove(q, a) == SelectSeq(q, LAMBDA x : x # a)
Init == watch = <<>> /\ running = {} /\ stale = {} /\ i = 0 /\ updates = 0
\* enable()/disable() by the application (single-threaded: not while the calendar is iterating)
EnableAlarm(a) == i = 0 /\ a \notin running /\ running' = running \cup {a} /\ watch' = Append(watch, a) /\ UNCHANGED <<stale, i, updates>>
DisableAlarm(a) == i = 0 /\ a \in running /\ running' = running \ {a} /\ watch' = Remove(watch, a) /\ UNCHANGED <<stale, i, updates>>
\* the calendar contents change: every running alarm is now armed from old contents
BeginUpdate == i = 0 /\ updates < MaxUpdates /\ i' = 1 /\ stale' = running /\ updates' = updates + 1 /\ UNCHANGED <<watch, running>>
\* for (auto alarm : watch_alarms_) alarm->refresh();
RefreshNext == /\ i > 0 /\ i <= Len(watch)
               /\ LET a == watch[i] IN
                    /\ stale' = stale \ {a}
                    /\ watch' = IF Refresh = "resubscribe" /\ a \in running THEN Append(Remove(watch, a), a) ELSE watch
               /\ i' = i + 1 /\ UNCHANGED <<running, updates>>
EndUpdate == i > Len(watch) /\ i' = 0 /\ UNCHANGED <<watch, running, stale, updates>>
Next == \/ \E a \in Alarms : EnableAlarm(a) \/ DisableAlarm(a)
        \/ BeginUpdate \/ RefreshNext \/ EndUpdate
Spec == Init /\ [][Next]_vars
\* once an update has finished every running alarm has been re-armed under the new calendar
AllRefreshed == i = 0 => stale \cap running = {}
SubscribersAreRunning == i = 0 => {watch[k] : k \in DOMAIN watch} = running
=============================================================================
