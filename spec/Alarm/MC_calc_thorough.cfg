CONSTANTS
  Variant = "ok"
  D0 = 19358
  NDays = 14
  Zones <- AllZones
  Sods = {0, 1, 43200, 86399}
  WeeklyMasks <- AllMasks
  WMasks <- FullWMasks
  SpCand <- FullSpCand
  MaxSp = 3
SPECIFICATION Spec
INVARIANTS AlgEqDecl AlgEqDeclUtc DeclIsLeast CronSodOK CalendarOK
CHECK_DEADLOCK FALSE
