CONSTANTS
  Strict = TRUE
  Variant = "from_now"
  MaxMoves = 2
  CfgSel = {"weekly"}
  StartSel = {1, 2}
SPECIFICATION MSpec
CONSTRAINT Bound
VIEW View
INVARIANTS EarlyWakeDoesNotRefire
CHECK_DEADLOCK FALSE
