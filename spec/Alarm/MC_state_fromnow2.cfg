CONSTANTS
  Variant = "from_now"
  MaxMoves = 2
  CfgSel = {"weekly"}
SPECIFICATION MSpec
CONSTRAINT Bound
VIEW View
INVARIANTS EarlyWakeDoesNotRefire
CHECK_DEADLOCK FALSE
