CONSTANTS
  Strict = TRUE
  Variant = "delay32"
  MaxMoves = 1
  CfgSel = {"workday", "leap"}
  StartSel = {1, 2}
SPECIFICATION MSpec
CONSTRAINT Bound
VIEW View
INVARIANTS DelayCoversDistance
CHECK_DEADLOCK FALSE
