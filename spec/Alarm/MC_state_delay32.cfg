CONSTANTS
  Variant = "delay32"
  MaxMoves = 1
  CfgSel = {"workday", "leap"}
SPECIFICATION MSpec
CONSTRAINT Bound
VIEW View
INVARIANTS DelayCoversDistance
CHECK_DEADLOCK FALSE
