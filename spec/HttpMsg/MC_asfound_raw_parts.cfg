CONSTANTS
  Bugs = {"raw_parts"}
  MaxTok = 2
  MaxTokSmall = 3
SPECIFICATION Spec
INVARIANTS LawPrintParse LawCanonical LawBadEscape LawFragOpaque LawPort LawReqs LawResps
CHECK_DEADLOCK FALSE
