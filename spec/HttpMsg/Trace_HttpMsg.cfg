CONSTANTS
  Bugs = {}
  MaxTok = 0
  MaxTokSmall = 0
SPECIFICATION TSpec
CONSTRAINT Progress
POSTCONDITION Accepted
CHECK_DEADLOCK FALSE
