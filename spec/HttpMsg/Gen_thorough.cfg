CONSTANTS
  Bugs = {}
  MaxTok = 3
  MaxTokSmall = 4
SPECIFICATION Spec
CONSTRAINT EmitCase
CHECK_DEADLOCK FALSE
