CONSTANTS
  Bugs = {}
  MaxTok = 3
  MaxTokSmall = 5
SPECIFICATION Spec
INVARIANTS LawPrintParse LawCanonical LawBadEscape LawFragOpaque LawPort LawReqs LawResps
CHECK_DEADLOCK FALSE
