------------------------------- MODULE UrlRef -------------------------------
(* E12 - tbox::http::Url (modules/http/url.cpp) as reference operators, shaped like the code:                    *)
(*   UrlToStr   = UrlToString:  [scheme "://"] [Enc(user) [":" Enc(password)] "@"] host [":" port] path-part     *)
(*   PathToStr  = UrlPathToString: Enc(path) (";" Enc(k) "=" Enc(v))* ["?" Enc(k) "=" Enc(v) ("&" ..)*] ["#" Enc(frag)]  *)
(*   ParseUrl   = StringToUrl:  scheme up to the first "://", host part up to the first "/", the rest is the path  *)
(*                part ("/" when there is none)                                                                    *)
(*   ParseHost  = StringToUrlHost, ParsePath = StringToUrlPath: the fragment starts at the first "#", the query    *)
(*                at the first "?" before it, the parameters at the first ";" before that; every component is       *)
(*                percent-decoded; a malformed escape, a parameter / query item that is not key "=" value with a    *)
(*                non-empty key, a port that is not a number in 0..65535 make the call fail.                        *)
(* A byte string is a sequence of integers 0..255.  Maps (params, query) are sets of <<key, value>> pairs with     *)
(* unique keys; the printer emits them in ascending key order (std::map).  A result is [ok, v].                    *)
(* Bugs (the code as found, each must violate a law):                                                              *)
(*   "raw_parts"  fragment, user and password are printed without percent-encoding (but decoded when parsed)        *)
(*   "late_marks" "?" and ";" are searched in the whole string, also behind "#" / "?"                               *)
(*   "port_wrap"  the port is std::stoi() truncated to 16 bits (65616 is port 80, -1 is port 65535)                 *)
EXTENDS Integers, Sequences, FiniteSets, TLC
CONSTANT Bugs

Ok(v) == [ok |-> TRUE, v |-> v]
Fail == [ok |-> FALSE, v |-> <<>>]
Percent == 37  Slash == 47  Colon == 58  Semi == 59  Equals == 61  Qmark == 63  At == 64  Hash == 35  Amp == 38
IsPrint(c) == c \in 32..126
IsDigit(c) == c \in 48..57
IsHexChar(c) == c \in 48..57 \/ c \in 65..70 \/ c \in 97..102
HexVal(c) == IF c \in 48..57 THEN c - 48 ELSE IF c \in 65..70 THEN c - 55 ELSE c - 87
HexChar(v) == IF v < 10 THEN 48 + v ELSE 55 + v
\* the two escaped sets of url.cpp:  space +&=<>"#,%{}|\^[]`;?:@$  plus "/." in full mode
PathSpecial == {32, 34, 35, 36, 37, 38, 43, 44, 58, 59, 60, 61, 62, 63, 64, 91, 92, 93, 94, 96, 123, 124, 125}
FullSpecial == PathSpecial \cup {46, 47}

Escape(c) == <<Percent, HexChar(c \div 16), HexChar(c % 16)>>
RECURSIVE EncFrom(_, _, _)
EncFrom(s, i, Special) == IF i > Len(s) THEN <<>>
                          ELSE (IF s[i] \in Special \/ ~IsPrint(s[i]) THEN Escape(s[i]) ELSE <<s[i]>>) \o EncFrom(s, i + 1, Special)
Enc(s, Special) == EncFrom(s, 1, Special)
RECURSIVE DecFrom(_, _)
DecFrom(s, i) ==
  IF i > Len(s) THEN Ok(<<>>)
  ELSE IF s[i] # Percent THEN LET r == DecFrom(s, i + 1) IN IF r.ok THEN Ok(<<s[i]>> \o r.v) ELSE Fail
  ELSE IF i + 2 > Len(s) \/ ~IsHexChar(s[i + 1]) \/ ~IsHexChar(s[i + 2]) THEN Fail
  ELSE LET r == DecFrom(s, i + 3) IN IF r.ok THEN Ok(<<HexVal(s[i + 1]) * 16 + HexVal(s[i + 2])>> \o r.v) ELSE Fail
Dec(s) == DecFrom(s, 1)

(* ---- searching / splitting ---- *)
RECURSIVE Find(_, _, _)
Find(s, b, from) == IF from > Len(s) THEN 0 ELSE IF s[from] = b THEN from ELSE Find(s, b, from + 1)     \* 0: not found
RECURSIVE FindSeq(_, _, _)
FindSeq(s, pat, from) == IF from + Len(pat) - 1 > Len(s) THEN 0
                         ELSE IF SubSeq(s, from, from + Len(pat) - 1) = pat THEN from ELSE FindSeq(s, pat, from + 1)
RECURSIVE SplitAt(_, _)
SplitAt(s, b) == LET p == Find(s, b, 1) IN        \* util::string::Split: empty pieces are kept
  IF p = 0 THEN <<s>> ELSE <<SubSeq(s, 1, p - 1)>> \o SplitAt(SubSeq(s, p + 1, Len(s)), b)

(* ---- ordering of byte strings (std::map<std::string, ..>) ---- *)
RECURSIVE Less(_, _)
Less(a, b) == IF b = <<>> THEN FALSE ELSE IF a = <<>> THEN TRUE
              ELSE IF a[1] # b[1] THEN a[1] < b[1] ELSE Less(Tail(a), Tail(b))
RECURSIVE Sorted(_)
Sorted(m) == IF m = {} THEN <<>>                   \* the pairs of a map in ascending key order
             ELSE LET lo == CHOOSE p \in m : \A q \in m : q = p \/ Less(p[1], q[1]) IN <<lo>> \o Sorted(m \ {lo})
MapPut(m, k, v) == {p \in m : p[1] # k} \cup {<<k, v>>}
IsMap(m) == \A p, q \in m : p[1] = q[1] => p = q

(* ---- printing ---- *)
RECURSIVE DecDigits(_)
DecDigits(n) == IF n < 10 THEN <<48 + n>> ELSE DecDigits(n \div 10) \o <<48 + (n % 10)>>
RECURSIVE Items(_, _, _)
Items(ps, i, sep) == IF i > Len(ps) THEN <<>>
                     ELSE (IF i > 1 THEN <<sep>> ELSE <<>>) \o Enc(ps[i][1], FullSpecial) \o <<Equals>> \o Enc(ps[i][2], FullSpecial) \o Items(ps, i + 1, sep)
Part(s) == IF "raw_parts" \in Bugs THEN s ELSE Enc(s, FullSpecial)
HostToStr(u) ==
  (IF u.user # <<>> THEN Part(u.user) \o (IF u.password # <<>> THEN <<Colon>> \o Part(u.password) ELSE <<>>) \o <<At>> ELSE <<>>)
  \o u.host \o (IF u.port # 0 THEN <<Colon>> \o DecDigits(u.port) ELSE <<>>)
PathToStr(u) ==
  Enc(u.path, PathSpecial)
  \o (IF u.params = {} THEN <<>> ELSE <<Semi>> \o Items(Sorted(u.params), 1, Semi))
  \o (IF u.query = {} THEN <<>> ELSE <<Qmark>> \o Items(Sorted(u.query), 1, Amp))
  \o (IF u.frag = <<>> THEN <<>> ELSE <<Hash>> \o Part(u.frag))
UrlToStr(u) == (IF u.scheme # <<>> THEN u.scheme \o <<Colon, Slash, Slash>> ELSE <<>>) \o HostToStr(u) \o PathToStr(u)

(* ---- parsing ---- *)
RECURSIVE NumFrom(_, _, _)
NumFrom(s, i, acc) == IF i > Len(s) THEN acc ELSE NumFrom(s, i + 1, IF acc > 99999 THEN acc ELSE acc * 10 + (s[i] - 48))
\* the port text: the reference accepts 1..5 digits with a value <= 65535; the as-found switch adds what std::stoi + uint16_t accepted
AllDigits(s) == \A i \in 1..Len(s) : IsDigit(s[i])
Port(s, lax) ==      \* lax: a text with a sign, blanks or trailing characters (std::stoi tolerates them) passes as well, a plain number out of range never
  IF s # <<>> /\ AllDigits(s) /\ NumFrom(s, 1, 0) <= 65535 THEN Ok(NumFrom(s, 1, 0))
  ELSE IF "port_wrap" \in Bugs /\ s # <<>> /\ AllDigits(s) /\ Len(s) <= 6 THEN Ok(NumFrom(s, 1, 0) % 65536)
  ELSE IF lax /\ s # <<>> /\ ~AllDigits(s) THEN Ok(0)
  ELSE Fail
ParseHostG(s, lax) ==      \* lax: odd port texts pass (used to tell "only the port text is odd" from "malformed")
  LET at == Find(s, At, 1)
      c1 == Find(s, Colon, 1)
      user == IF at = 0 THEN Ok(<<>>) ELSE IF c1 = 0 \/ c1 > at THEN Dec(SubSeq(s, 1, at - 1)) ELSE Dec(SubSeq(s, 1, c1 - 1))
      pw == IF at = 0 \/ c1 = 0 \/ c1 > at THEN Ok(<<>>) ELSE Dec(SubSeq(s, c1 + 1, at - 1))
      hs == at + 1
      c2 == Find(s, Colon, hs)
      host == IF c2 = 0 THEN Dec(SubSeq(s, hs, Len(s))) ELSE Dec(SubSeq(s, hs, c2 - 1))
      port == IF c2 = 0 THEN Ok(0) ELSE Port(SubSeq(s, c2 + 1, Len(s)), lax)
  IN IF user.ok /\ pw.ok /\ host.ok /\ port.ok THEN Ok([user |-> user.v, password |-> pw.v, host |-> host.v, port |-> port.v]) ELSE Fail
ParseHost(s) == ParseHostG(s, FALSE)
RECURSIVE KVs(_, _, _)
KVs(items, i, m) ==         \* every item is key "=" value with a non-empty key; a repeated key keeps the last value
  IF i > Len(items) THEN Ok(m)
  ELSE LET kv == SplitAt(items[i], Equals) IN
       IF Len(kv) # 2 \/ kv[1] = <<>> THEN Fail
       ELSE LET k == Dec(kv[1]) v == Dec(kv[2]) IN IF k.ok /\ v.ok THEN KVs(items, i + 1, MapPut(m, k.v, v.v)) ELSE Fail
Pos(p, n) == IF p = 0 THEN n + 1 ELSE p
ParsePath(s) ==
  IF s = <<>> \/ s[1] # Slash THEN Fail ELSE
  LET n == Len(s)
      late == "late_marks" \in Bugs
      pound == Find(s, Hash, 1)
      q0 == Find(s, Qmark, 1)
      query == IF late THEN q0 ELSE IF q0 # 0 /\ q0 < Pos(pound, n) THEN q0 ELSE 0
      s0 == Find(s, Semi, 1)
      semi == IF late THEN s0 ELSE IF s0 # 0 /\ s0 < Pos(query, n) /\ s0 < Pos(pound, n) THEN s0 ELSE 0
      pathEnd == IF semi # 0 THEN semi ELSE IF query # 0 THEN query ELSE IF pound # 0 THEN pound ELSE n + 1
      paramsEnd == IF query # 0 THEN query ELSE IF pound # 0 THEN pound ELSE n + 1
      queryEnd == IF pound # 0 THEN pound ELSE n + 1
      path == Dec(SubSeq(s, 1, pathEnd - 1))
      params == IF semi = 0 THEN Ok({}) ELSE KVs(SplitAt(SubSeq(s, semi + 1, paramsEnd - 1), Semi), 1, {})
      qry == IF query = 0 THEN Ok({}) ELSE KVs(SplitAt(SubSeq(s, query + 1, queryEnd - 1), Amp), 1, {})
      frag == IF pound = 0 THEN Ok(<<>>) ELSE Dec(SubSeq(s, pound + 1, n))
  IN IF path.ok /\ params.ok /\ qry.ok /\ frag.ok THEN Ok([path |-> path.v, params |-> params.v, query |-> qry.v, frag |-> frag.v]) ELSE Fail
ParseUrlG(s, lax) ==
  LET p == FindSeq(s, <<Colon, Slash, Slash>>, 1)
      scheme == IF p = 0 THEN <<>> ELSE SubSeq(s, 1, p - 1)
      from == IF p = 0 THEN 1 ELSE p + 3
      sl == Find(s, Slash, from)
      h == ParseHostG(IF sl = 0 THEN SubSeq(s, from, Len(s)) ELSE SubSeq(s, from, sl - 1), lax)
      pa == ParsePath(IF sl = 0 THEN <<Slash>> ELSE SubSeq(s, sl, Len(s)))
  IN IF h.ok /\ pa.ok THEN Ok([scheme |-> scheme] @@ h.v @@ pa.v) ELSE Fail
ParseUrl(s) == ParseUrlG(s, FALSE)
=============================================================================
