------------------------------- MODULE MsgRef -------------------------------
(* E12 - HTTP messages as the printers of cpp-tbox emit them (Request::toString, Respond::toString) and a          *)
(* one-shot reference decoder for a stream of such messages:                                                        *)
(*   message = start-line CRLF (key ": " value CRLF)* CRLF body       body = exactly Content-Length bytes          *)
(*   request start-line  = method SP target SP version      target = UrlRef!PathToStr(url) (no SP inside)           *)
(*   response start-line = version SP code(3 digits) SP reason                                                      *)
(* Headers are a map (set of <<key, value>> with unique keys), printed in ascending key order, followed by the      *)
(* printer's own "Content-Length: <body length>"; the decoder keeps the last value of a repeated key (so does       *)
(* RequestParser), the declared length is the last Content-Length.  Decoding a concatenation of printed messages    *)
(* gives the messages back, in order, bodies whole - whatever the bodies contain (CRLF, start lines, ...).          *)
EXTENDS UrlRef

CRb == 13  LFb == 10  SPb == 32
bCL == <<67, 111, 110, 116, 101, 110, 116, 45, 76, 101, 110, 103, 116, 104>>        \* "Content-Length"
Has(h, k) == \E p \in h : p[1] = k
Get(h, k) == (CHOOSE p \in h : p[1] = k)[2]
RECURSIVE HeaderLines(_, _)
HeaderLines(ps, i) == IF i > Len(ps) THEN <<>> ELSE ps[i][1] \o <<Colon, SPb>> \o ps[i][2] \o <<CRb, LFb>> \o HeaderLines(ps, i + 1)
Message(line, h, b) == line \o <<CRb, LFb>> \o HeaderLines(Sorted(h), 1) \o bCL \o <<Colon, SPb>> \o DecDigits(Len(b)) \o <<CRb, LFb, CRb, LFb>> \o b
ReqBytes(r) == Message(r.m \o <<SPb>> \o PathToStr(r.url) \o <<SPb>> \o r.v, r.h, r.b)
RespBytes(r) == Message(r.v \o <<SPb>> \o DecDigits(r.code) \o <<SPb>> \o r.reason, r.h, r.b)
RECURSIVE ConcatReqs(_, _), ConcatResps(_, _)
ConcatReqs(rs, i) == IF i > Len(rs) THEN <<>> ELSE ReqBytes(rs[i]) \o ConcatReqs(rs, i + 1)
ConcatResps(rs, i) == IF i > Len(rs) THEN <<>> ELSE RespBytes(rs[i]) \o ConcatResps(rs, i + 1)

(* ---- decoding ---- *)
RECURSIVE FindCRLF(_, _)
FindCRLF(s, from) == IF from >= Len(s) \/ from < 1 THEN 0 ELSE IF s[from] = CRb /\ s[from + 1] = LFb THEN from ELSE FindCRLF(s, from + 1)
RECURSIVE StripL(_), StripR(_)
StripL(s) == IF s # <<>> /\ s[1] = SPb THEN StripL(Tail(s)) ELSE s
StripR(s) == IF s # <<>> /\ s[Len(s)] = SPb THEN StripR(SubSeq(s, 1, Len(s) - 1)) ELSE s
Strip(s) == StripR(StripL(s))
IsDigits(s) == s # <<>> /\ \A i \in 1..Len(s) : IsDigit(s[i])
RECURSIVE Headers(_, _, _)
Headers(s, p, h) ==          \* header lines from position p up to and including the blank line
  LET eol == FindCRLF(s, p) IN
  IF eol = 0 THEN Fail
  ELSE IF eol = p THEN Ok([h |-> h, next |-> p + 2])
  ELSE LET line == SubSeq(s, p, eol - 1)
           c == Find(line, Colon, 1)
           key == IF c = 0 THEN <<>> ELSE Strip(SubSeq(line, 1, c - 1))
           val == IF c = 0 THEN <<>> ELSE Strip(SubSeq(line, c + 1, Len(line))) IN
       IF c = 0 \/ key = <<>> THEN Fail ELSE Headers(s, eol + 2, MapPut(h, key, val))
OneMessage(s, p) ==          \* [line, h, b, next]
  LET eol == FindCRLF(s, p) IN
  IF eol = 0 THEN Fail ELSE
  LET hl == Headers(s, eol + 2, {}) IN
  IF ~hl.ok \/ ~Has(hl.v.h, bCL) THEN Fail ELSE
  LET clv == Get(hl.v.h, bCL) IN
  IF ~IsDigits(clv) \/ Len(clv) > 7 THEN Fail ELSE
  LET n == NumFrom(clv, 1, 0) IN
  IF hl.v.next + n - 1 > Len(s) THEN Fail
  ELSE Ok([line |-> SubSeq(s, p, eol - 1), h |-> hl.v.h, b |-> SubSeq(s, hl.v.next, hl.v.next + n - 1), next |-> hl.v.next + n])
RECURSIVE Messages(_, _, _)
Messages(s, p, acc) == IF p > Len(s) THEN Ok(acc)
                       ELSE LET m == OneMessage(s, p) IN IF ~m.ok THEN Fail ELSE Messages(s, m.v.next, Append(acc, m.v))
ReqOf(m) ==                  \* request start line: method SP target SP version
  LET w == SplitAt(m.line, SPb) IN
  IF Len(w) # 3 THEN Fail ELSE LET u == ParsePath(w[2]) IN
  IF ~u.ok THEN Fail ELSE Ok([m |-> w[1], url |-> u.v, v |-> w[3], h |-> m.h, b |-> m.b])
RespOf(m) ==                 \* response start line: version SP code SP reason
  LET sp1 == Find(m.line, SPb, 1) sp2 == IF sp1 = 0 THEN 0 ELSE Find(m.line, SPb, sp1 + 1) IN
  IF sp1 = 0 \/ sp2 # sp1 + 4 \/ ~IsDigits(SubSeq(m.line, sp1 + 1, sp2 - 1)) THEN Fail
  ELSE Ok([v |-> SubSeq(m.line, 1, sp1 - 1), code |-> NumFrom(SubSeq(m.line, sp1 + 1, sp2 - 1), 1, 0),
           reason |-> SubSeq(m.line, sp2 + 1, Len(m.line)), h |-> m.h, b |-> m.b])
RECURSIVE AllReqs(_, _), AllResps(_, _)
AllReqs(ms, i) == IF i > Len(ms) THEN Ok(<<>>)
                  ELSE LET x == ReqOf(ms[i]) r == AllReqs(ms, i + 1) IN IF x.ok /\ r.ok THEN Ok(<<x.v>> \o r.v) ELSE Fail
AllResps(ms, i) == IF i > Len(ms) THEN Ok(<<>>)
                   ELSE LET x == RespOf(ms[i]) r == AllResps(ms, i + 1) IN IF x.ok /\ r.ok THEN Ok(<<x.v>> \o r.v) ELSE Fail
Requests(s) == LET ms == Messages(s, 1, <<>>) IN IF ms.ok THEN AllReqs(ms.v, 1) ELSE Fail
Responses(s) == LET ms == Messages(s, 1, <<>>) IN IF ms.ok THEN AllResps(ms.v, 1) ELSE Fail
(* what a receiver sees of a printed message: the printer's Content-Length header joins the map *)
Seen(r) == [r EXCEPT !.h = MapPut(@, bCL, DecDigits(Len(r.b)))]
=============================================================================
