CONSTANTS
  Bugs = {"port_wrap"}
  MaxTok = 2
  MaxTokSmall = 3
SPECIFICATION Spec
INVARIANTS LawPrintParse LawCanonical LawBadEscape LawFragOpaque LawPort LawReqs LawResps
CHECK_DEADLOCK FALSE
