------------------------------- MODULE HttpMsg -------------------------------
(* E12 at model level: the laws that a user of tbox::http::Url and of the message printers relies on, checked by     *)
(* TLC on the reference operators (UrlRef, MsgRef - shaped like the code) over every element of small adversarial      *)
(* domains.  One behaviour = pick one case (a named action per kind); the laws are invariants over the picked case.    *)
(* The same cases are printed by Gen_HttpMsg and executed on the real functions by the driver.                         *)
EXTENDS MsgRef, MsgLits
CONSTANTS MaxTok,       \* parse strings: up to MaxTok tokens over the full alphabet
          MaxTokSmall   \* ... and up to MaxTokSmall tokens over the reduced alphabet
VARIABLE c
SeqsUpTo(S, n) == UNION {[1..k -> S] : k \in 0..n}
RECURSIVE FlatFrom(_, _)
FlatFrom(ss, i) == IF i > Len(ss) THEN <<>> ELSE ss[i] \o FlatFrom(ss, i + 1)
Flat(ss) == FlatFrom(ss, 1)

(* ---- domains ---- *)
UserPw == {<<<<>>, <<>>>>, <<b_u, <<>>>>, <<b_u, b_p>>, <<b_u_at, b_p_col>>}
Hosts == {b_h, b_a_b}
Ports == {0, 80, 65535}
Paths == {b_sl, b_p_ab, b_p_sp, b_p_spec, b_p_pct}
ParamMaps == {{}, {<<b_k, b_v>>}, {<<b_k, <<>>>>}, {<<b_semi_eq, b_amp_q_hash>>}, {<<b_k, b_v>>, <<b_a, b_one>>}, {<<b_a_b_sp, b_pct>>}}
QueryMaps == {{}, {<<b_q, b_one>>}, {<<b_q, <<>>>>, <<b_a, b_amp>>}, {<<b_eq, b_eq>>}, {<<b_k, b_v>>, <<b_q, b_one>>}}
Frags == {<<>>, b_f, b_f_marks, b_f_50, b_f_41, b_f_sp}
PathPart(pa, pm, qm, fr) == [path |-> pa, params |-> pm, query |-> qm, frag |-> fr]
HostPart(sc, up, ho, po) == [scheme |-> sc, user |-> up[1], password |-> up[2], host |-> ho, port |-> po]
Toks == {b_h, b_t_port, b_t_pa, b_t_param, b_t_query, b_t_frag, b_t_41, b_t_4, b_t_zz, b_t_at, b_t_col, b_t_scheme, b_t_amp, b_t_qm, b_t_sc, b_t_hash, b_t_eq, b_u}
SmallToks == {b_h, b_t_pa, b_t_param, b_t_query, b_t_frag, b_t_qm, b_t_sc, b_t_41, b_t_port}
PortTexts == {b_d0, b_d80, b_d65535, b_d65536, b_d65616, b_d99999, b_d080, b_d123456}
ReqUrls == {PathPart(b_sl, {}, {}, <<>>), PathPart(b_p_ab, {<<b_k, b_v>>}, {<<b_q, b_one>>}, b_f), PathPart(b_p_sp, {}, {<<b_a, b_amp>>}, b_f_marks)}
HeaderMaps == {{}, {<<b_X, b_y>>}, {<<b_CL, b_nine>>, <<b_A, b_b_c>>}}
Bodies == {<<>>, b_abc, b_tricky}
Reqs == {[m |-> m, url |-> u, v |-> b_H11, h |-> h, b |-> b] : m \in {b_GET, b_POST}, u \in ReqUrls, h \in HeaderMaps, b \in Bodies}
Resps == {[v |-> v, code |-> cr[1], reason |-> cr[2], h |-> h, b |-> b] : v \in {b_H11, b_H10}, cr \in {<<200, b_OK>>, <<404, b_NotFound>>}, h \in HeaderMaps, b \in Bodies}

(* ---- cases ---- *)
Init == c = [k |-> "none"]
Idle == c.k = "none"
PickHost == Idle /\ \E sc \in {<<>>, b_http}, up \in UserPw, ho \in Hosts, po \in Ports :
               c' = [k |-> "url", u |-> HostPart(sc, up, ho, po) @@ PathPart(b_p_ab, {}, {}, <<>>)]
PickPath == Idle /\ \E pa \in Paths, pm \in ParamMaps, qm \in QueryMaps, fr \in Frags :
               c' = [k |-> "url", u |-> HostPart(b_http, <<<<>>, <<>>>>, b_h, 0) @@ PathPart(pa, pm, qm, fr)]
PickStr == Idle /\ \E ts \in SeqsUpTo(Toks, MaxTok) \cup SeqsUpTo(SmallToks, MaxTokSmall) : c' = [k |-> "str", s |-> Flat(ts)]
PickPort == Idle /\ \E d \in PortTexts : c' = [k |-> "port", d |-> d, s |-> b_h \o <<Colon>> \o d \o b_sl]
PickReqs == Idle /\ \E rs \in SeqsUpTo(Reqs, 2) : rs # <<>> /\ c' = [k |-> "reqs", rs |-> rs]
PickResps == Idle /\ \E rs \in SeqsUpTo(Resps, 2) : rs # <<>> /\ c' = [k |-> "resps", rs |-> rs]
Next == PickHost \/ PickPath \/ PickStr \/ PickPort \/ PickReqs \/ PickResps
Spec == Init /\ [][Next]_c

(* ---- laws ---- *)
Plain(s) == \A i \in 1..Len(s) : s[i] \in (48..57) \cup (65..90) \cup (97..122) \cup {45, 46, 95}
(* a Url value that a string can denote: plain scheme and host, a password only with a user, an absolute path, non-empty keys *)
Representable(u) == /\ Plain(u.scheme) /\ Plain(u.host) /\ (u.user = <<>> => u.password = <<>>) /\ u.port \in 0..65535
                    /\ u.path # <<>> /\ u.path[1] = Slash /\ IsMap(u.params) /\ IsMap(u.query)
                    /\ \A p \in u.params \cup u.query : p[1] # <<>>
(* printing a value and parsing the text gives the value back *)
LawPrintParse == c.k = "url" => Representable(c.u) /\ ParseUrl(UrlToStr(c.u)) = Ok(c.u)
(* parsing is total; the text printed for a parsed, representable value parses to the same value (printing is canonical) *)
LawCanonical == c.k = "str" => LET r == ParseUrl(c.s) IN
                  /\ r.ok \in BOOLEAN
                  /\ (r.ok /\ Representable(r.v)) => ParseUrl(UrlToStr(r.v)) = r
(* a malformed escape in a component that is decoded, or a parameter / query item that is not key=value, makes the call fail *)
BadEscape(s) == \E i \in 1..Len(s) : s[i] = Percent /\ (i + 2 > Len(s) \/ ~IsHexChar(s[i + 1]) \/ ~IsHexChar(s[i + 2]))
LawBadEscape == c.k = "str" => LET p == FindSeq(c.s, <<Colon, Slash, Slash>>, 1)
                                    rest == IF p = 0 THEN c.s ELSE SubSeq(c.s, p + 3, Len(c.s)) IN
                               BadEscape(rest) => ~ParseUrl(c.s).ok
(* the fragment is opaque: whatever follows the first "#" never changes path, parameters and query *)
LawFragOpaque == c.k = "str" => LET sl == Find(c.s, Slash, 1)
                                     ps == IF sl = 0 THEN <<>> ELSE SubSeq(c.s, sl, Len(c.s))
                                     hp == Find(ps, Hash, 1) IN
                                (sl # 0 /\ hp # 0) =>
                                  LET r == ParsePath(ps)  r0 == ParsePath(SubSeq(ps, 1, hp - 1))  fr == Dec(SubSeq(ps, hp + 1, Len(ps))) IN
                                  r.ok = (r0.ok /\ fr.ok) /\ (r.ok => r.v = [r0.v EXCEPT !.frag = fr.v])
(* the port of an accepted text is the number the text spells, at most 65535 *)
LawPort == c.k = "port" => LET r == ParseUrl(c.s) IN r.ok => r.v.port = NumFrom(c.d, 1, 0) /\ r.v.port <= 65535
(* a concatenation of printed messages decodes to the messages, in order, bodies whole *)
RECURSIVE SeenAll(_, _)
SeenAll(rs, i) == IF i > Len(rs) THEN <<>> ELSE <<Seen(rs[i])>> \o SeenAll(rs, i + 1)
LawReqs == c.k = "reqs" => Requests(ConcatReqs(c.rs, 1)) = Ok(SeenAll(c.rs, 1))
LawResps == c.k = "resps" => Responses(ConcatResps(c.rs, 1)) = Ok(SeenAll(c.rs, 1))
=============================================================================
