CONSTANTS
  Bugs = {}
  MaxTok = 2
  MaxTokSmall = 3
SPECIFICATION Spec
CONSTRAINT EmitCase
CHECK_DEADLOCK FALSE
