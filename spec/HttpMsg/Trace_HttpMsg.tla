---------------------------- MODULE Trace_HttpMsg ----------------------------
(* Trace validation for E12.  Every recorded line is one call (or one receive loop) on the real code with its inputs   *)
(* and outputs; it is accepted iff it agrees with the reference operators (UrlRef, MsgRef):                             *)
(*   print      u representable: the text parses (reference) to u, and the real StringToUrl gave u back; no exception   *)
(*   printpath  the same for UrlPathToString / StringToUrlPath                                                          *)
(*   parse      the reference accepts the text and the value is a plain one (Strict): TRUE with exactly that value, and *)
(*              the text printed for it parses to it again; the text is malformed whatever the port text is: FALSE;      *)
(*              otherwise (odd but tolerated forms, e.g. a signed port): anything but an exception                       *)
(*   parsepath / parsehost   exactly the reference (parsehost up to the port forms)                                      *)
(*   reqs       the concatenated Request::toString() texts decode (reference) to the requests, in order                  *)
(*   pipe/got/end   the real RequestParser delivers exactly these requests, in order, whole, for every segmentation;    *)
(*              no call consumes more than it was given                                                                  *)
(*   resps      the concatenated Respond::toString() texts decode to the responses (the reason phrase is not compared)  *)
(*   client     the stub client: nothing is compared (the calls returned)                                               *)
EXTENDS HttpMsg, Json, IOUtils
TLog == ndJsonDeserialize(IOEnv.TRACE)
VARIABLES l, exp, ngot
ASSUME TLCSet(42, 0)
tvars == <<c, l, exp, ngot>>
Ln == TLog[l]
IsEv(e) == l <= Len(TLog) /\ TLog[l].e = e /\ l' = l + 1
Same == UNCHANGED <<c, exp, ngot>>

ToSet(s) == {<<s[i][1], s[i][2]>> : i \in DOMAIN s}
PathOf(j) == [path |-> j.path, params |-> ToSet(j.params), query |-> ToSet(j.query), frag |-> j.frag]
UrlOf(j) == [scheme |-> j.scheme, user |-> j.user, password |-> j.password, host |-> j.host, port |-> j.port] @@ PathOf(j)
HostOf(j) == [user |-> j.user, password |-> j.password, host |-> j.host, port |-> j.port]
ReqOfJ(j) == [m |-> j.m, url |-> PathOf(j.url), v |-> j.v, h |-> ToSet(j.h), b |-> j.b]
PathRepresentable(p) == p.path # <<>> /\ p.path[1] = Slash /\ IsMap(p.params) /\ IsMap(p.query) /\ \A x \in p.params \cup p.query : x[1] # <<>>
Strict(s, v) == Representable(v) /\ v.host # <<>> /\ ((\E i \in 1..Len(s) : s[i] = At) => v.user # <<>>)
HostStrict(s, v) == Plain(v.host) /\ v.host # <<>> /\ (v.user = <<>> => v.password = <<>>) /\ ((\E i \in 1..Len(s) : s[i] = At) => v.user # <<>>)

CheckPrint == LET u == UrlOf(Ln.u) IN
  /\ Ln.exc = ""
  /\ Representable(u) => ParseUrl(Ln.out) = Ok(u) /\ Ln.ret /\ UrlOf(Ln.u2) = u
CheckPrintPath == LET p == PathOf(Ln.u) IN
  /\ Ln.exc = ""
  /\ PathRepresentable(p) => ParsePath(Ln.out) = Ok(p) /\ Ln.ret /\ PathOf(Ln.u2) = p
CheckParse == LET ref == ParseUrl(Ln.in) IN
  /\ Ln.exc = ""
  /\ IF ref.ok /\ Strict(Ln.in, ref.v) THEN Ln.ret /\ UrlOf(Ln.u) = ref.v /\ ParseUrl(Ln.re) = ref
     ELSE IF ~ParseUrlG(Ln.in, TRUE).ok THEN ~Ln.ret
     ELSE TRUE
CheckParsePath == LET ref == ParsePath(Ln.in) IN
  /\ Ln.exc = "" /\ Ln.ret = ref.ok /\ (ref.ok => PathOf(Ln.u) = ref.v)
CheckParseHost == LET ref == ParseHost(Ln.in) IN
  /\ Ln.exc = ""
  /\ IF ref.ok /\ HostStrict(Ln.in, ref.v) THEN Ln.ret /\ HostOf(Ln.u) = ref.v
     ELSE IF ~ParseHostG(Ln.in, TRUE).ok THEN ~Ln.ret
     ELSE TRUE
RECURSIVE ReqsOfJ(_, _)
ReqsOfJ(js, i) == IF i > Len(js) THEN <<>> ELSE <<Seen(ReqOfJ(js[i]))>> \o ReqsOfJ(js, i + 1)
CheckResps == LET d == Responses(Ln.out) IN
  /\ d.ok /\ Len(d.v) = Len(Ln.rs)
  /\ \A i \in 1..Len(Ln.rs) : LET r == Ln.rs[i] x == d.v[i] IN
       r.valid => /\ x.v = r.v /\ x.code = r.code /\ x.reason # <<>> /\ x.b = r.b
                  /\ x.h = MapPut(ToSet(r.h), bCL, DecDigits(Len(r.b)))

TInit == Init /\ l = 1 /\ exp = <<>> /\ ngot = 0
TNext ==
  \/ IsEv("Reset") /\ exp' = <<>> /\ ngot' = 0 /\ UNCHANGED c
  \/ IsEv("begin") /\ Same
  \/ IsEv("client") /\ Same
  \/ IsEv("print") /\ CheckPrint /\ Same
  \/ IsEv("printpath") /\ CheckPrintPath /\ Same
  \/ IsEv("parse") /\ CheckParse /\ Same
  \/ IsEv("parsepath") /\ CheckParsePath /\ Same
  \/ IsEv("parsehost") /\ CheckParseHost /\ Same
  \/ IsEv("reqs") /\ exp' = ReqsOfJ(Ln.rs, 1) /\ Requests(Ln.out) = Ok(exp') /\ ngot' = 0 /\ UNCHANGED c
  \/ IsEv("pipe") /\ ngot' = 0 /\ UNCHANGED <<c, exp>>
  \/ IsEv("got") /\ ngot < Len(exp) /\ ReqOfJ(Ln.r) = exp[ngot + 1] /\ ngot' = ngot + 1 /\ UNCHANGED <<c, exp>>
  \/ IsEv("end") /\ ngot = Len(exp) /\ (\A i \in DOMAIN Ln.calls : Ln.calls[i][2] <= Ln.calls[i][1]) /\ Same
  \/ IsEv("resps") /\ CheckResps /\ Same
TSpec == TInit /\ [][TNext]_tvars
Progress == TLCSet(42, IF l > TLCGet(42) THEN l ELSE TLCGet(42))
Accepted == IF TLCGet(42) = Len(TLog) + 1 THEN TRUE ELSE PrintT(<<"MAXPOS", TLCGet(42), Len(TLog)>>) /\ FALSE
=============================================================================
