----------------------------- MODULE Gen_HttpMsg -----------------------------
(* Case generator for E12: every case of the law model (HttpMsg) is printed as JSON; the driver executes it on the  *)
(* real functions (UrlToString / StringToUrl / StringToUrlPath, Request::toString + RequestParser under several      *)
(* segmentations, Respond::toString).                                                                                 *)
EXTENDS HttpMsg, Json
EmitCase == IF c.k # "none" THEN PrintT("BEH " \o ToJson(c)) /\ FALSE ELSE TRUE
=============================================================================
