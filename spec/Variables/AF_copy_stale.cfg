\* as found: copy-assignment from a scope without variables leaves the target's variables in place -> CopyLaw must fail
CONSTANTS
  S = {1, 2}
  Names = {"a"}
  Vals = {1}
  CopyKeepsStale = TRUE
  KindOf <- MCKindOf
SPECIFICATION Spec
INVARIANTS TypeOK IsForest Inheritance LookupLaw QueryFrame DefineLaw UndefineLaw SetLaw SetParentLaw CopyLaw MoveLaw SwapLaw ResetLaw Isolation
CHECK_DEADLOCK FALSE
