------------------------------ MODULE Variables ------------------------------
(* E01 - tbox::util::Variables: scoped variables with a parent chain.                                   *)
(*                                                                                                        *)
(* A scope owns a finite map name -> JSON value and an optional parent scope.  The actions are written   *)
(* the way the class works (one action per public call; a lookup walks parent by parent, Find).  The      *)
(* reference semantics is stated separately and declaratively (Reach / RefOwner / Visible: "the value of *)
(* a name in a scope is the value held by the closest scope of its ancestor chain that defines it") and   *)
(* the invariants at the end of the module say that every call answered and changed exactly what the      *)
(* reference semantics demands.  Nothing of that is part of an enabling condition.                        *)
(*                                                                                                        *)
(* Values are opaque (Vals); KindOf(v) is the JSON type class used by the typed getter get<T>().          *)
(* Parent cycles are outside the contract of the class (a failing lookup would recurse forever): the      *)
(* actions that link scopes are enabled only when the result is a forest.                                 *)
EXTENDS Naturals, Sequences, FiniteSets, TLC

CONSTANTS S,                \* scope identities (positive integers)
          Names,            \* variable names
          Vals,             \* JSON values (opaque)
          KindOf(_),        \* value -> "int" | "bigint" | "float" | "str" | "bool" | other
          CopyKeepsStale    \* as-found switch: copy-assignment FROM A SCOPE WITHOUT VARIABLES keeps the target's variables

None == 0
ASSUME None \notin S

VARIABLES vars,     \* [S -> partial function Names -> Vals]   local variables of every scope
          parent,   \* [S -> S \cup {None}]
          last,     \* the last call: operation, arguments, answer
          pvars, ppar   \* vars / parent before the last call (for the laws below)
vs == <<vars, parent, last, pvars, ppar>>

NoVars == [n \in {} |-> None]
Put(m, n, v) == [x \in (DOMAIN m) \cup {n} |-> IF x = n THEN v ELSE m[x]]
Del(m, n) == [x \in (DOMAIN m) \ {n} |-> m[x]]
Types == {"int", "float", "str", "bool"}
TypeMatch(t, k) == t = k \/ (t = "float" /\ k \in {"int", "bigint"})    \* get<double> accepts every number; get<int> no integer beyond int

(* ------------------------------------------------------------------------------------------------ *)
(* how the class looks a name up: this scope, else (unless local_only) the parent, which looks it up  *)
(* non-locally                                                                                        *)
RECURSIVE Find(_, _, _, _, _, _)
Find(vm, par, s, n, local, fuel) ==
  IF n \in DOMAIN vm[s] THEN s
  ELSE IF ~local /\ par[s] # None /\ fuel > 0 THEN Find(vm, par, par[s], n, FALSE, fuel - 1)
  ELSE None
Owner(s, n, local) == Find(vars, parent, s, n, local, Cardinality(S))

(* ------------------------------------------------------------------------------------------------ *)
(* reference semantics                                                                                *)
RECURSIVE Up(_, _, _)
Up(par, X, k) == IF k = 0 THEN X ELSE Up(par, X \cup ({par[x] : x \in X \cap S} \ {None}), k - 1)
Reach(par, s) == Up(par, {s}, Cardinality(S))                       \* s and all its ancestors
\* (IF, not a disjunction: TLC enumerates both sides of a disjunction inside an action)
Forest(par) == \A s \in S : IF par[s] = None THEN TRUE ELSE s \notin Reach(par, par[s])
Definers(vm, par, s, n, local) == {a \in (IF local THEN {s} ELSE Reach(par, s)) : n \in DOMAIN vm[a]}
\* the closest definer: every other definer on the chain is one of its ancestors
RefOwner(vm, par, s, n, local) ==
  LET D == Definers(vm, par, s, n, local) IN
  IF D = {} THEN None ELSE CHOOSE a \in D : \A b \in D : b \in Reach(par, a)
Visible(vm, par, s) ==
  [n \in {x \in Names : Definers(vm, par, s, x, FALSE) # {}} |-> vm[RefOwner(vm, par, s, n, FALSE)][n]]

(* ------------------------------------------------------------------------------------------------ *)
Init == /\ vars = [s \in S |-> NoVars]
        /\ parent = [s \in S |-> None]
        /\ last = [op |-> "init"]
        /\ pvars = vars /\ ppar = parent

Keep == pvars' = vars /\ ppar' = parent
Query == Keep /\ UNCHANGED <<vars, parent>>

Define(s, n, v) ==
  LET ok == n \notin DOMAIN vars[s] IN
  /\ vars' = IF ok THEN [vars EXCEPT ![s] = Put(@, n, v)] ELSE vars
  /\ last' = [op |-> "define", s |-> s, n |-> n, v |-> v, ret |-> ok]
  /\ Keep /\ UNCHANGED parent

Undefine(s, n) ==
  LET ok == n \in DOMAIN vars[s] IN
  /\ vars' = IF ok THEN [vars EXCEPT ![s] = Del(@, n)] ELSE vars
  /\ last' = [op |-> "undefine", s |-> s, n |-> n, ret |-> ok]
  /\ Keep /\ UNCHANGED parent

Has(s, n, local) ==
  /\ last' = [op |-> "has", s |-> s, n |-> n, local |-> local, ret |-> Owner(s, n, local) # None]
  /\ Query

Get(s, n, local) ==
  LET o == Owner(s, n, local) IN
  /\ last' = [op |-> "get", s |-> s, n |-> n, local |-> local, ret |-> o # None,
              out |-> IF o # None THEN <<vars[o][n]>> ELSE <<>>]       \* <<>>: the caller's object is left untouched
  /\ Query

\* template get<T>(): found and of the JSON type class of T
GetT(s, n, local, t) ==
  LET o == Owner(s, n, local)
      ok == o # None /\ TypeMatch(t, KindOf(vars[o][n])) IN
  /\ last' = [op |-> "gett", s |-> s, n |-> n, local |-> local, t |-> t, ret |-> ok,
              out |-> IF ok THEN <<vars[o][n]>> ELSE <<>>]
  /\ Query

\* set() assigns in the closest scope that defines the name - never creates a variable
SetVar(s, n, v, local) ==
  LET o == Owner(s, n, local) IN
  /\ vars' = IF o # None THEN [vars EXCEPT ![o] = Put(@, n, v)] ELSE vars
  /\ last' = [op |-> "set", s |-> s, n |-> n, v |-> v, local |-> local, ret |-> o # None]
  /\ Keep /\ UNCHANGED parent

SetParent(s, p) ==
  /\ p \in S \cup {None}
  /\ Forest([parent EXCEPT ![s] = p])
  /\ parent' = [parent EXCEPT ![s] = p]
  /\ last' = [op |-> "setparent", s |-> s, d |-> p]
  /\ Keep /\ UNCHANGED vars

IsEmpty(s) ==
  /\ last' = [op |-> "empty", s |-> s, ret |-> (DOMAIN vars[s] = {})]
  /\ Query

\* d = s (copy assignment; assign TRUE) or  { Variables t(s); d.swap(t); }  (copy construction; assign FALSE)
Copy(d, s, assign) ==
  LET stale == assign /\ CopyKeepsStale /\ DOMAIN vars[s] = {} /\ d # s IN
  /\ Forest([parent EXCEPT ![d] = parent[s]])
  /\ vars' = IF stale THEN vars ELSE [vars EXCEPT ![d] = vars[s]]
  /\ parent' = [parent EXCEPT ![d] = parent[s]]
  /\ last' = [op |-> IF assign THEN "copya" ELSE "copyc", s |-> s, d |-> d]
  /\ Keep

\* d = std::move(s)  or  { Variables t(std::move(s)); d.swap(t); } : d takes everything, s is left pristine
Move(d, s, assign) ==
  /\ Forest([parent EXCEPT ![s] = None, ![d] = parent[s]])
  /\ vars' = [vars EXCEPT ![s] = NoVars, ![d] = vars[s]]
  /\ parent' = [parent EXCEPT ![s] = None, ![d] = parent[s]]
  /\ last' = [op |-> IF assign THEN "movea" ELSE "movec", s |-> s, d |-> d]
  /\ Keep

Swap(d, s) ==
  /\ Forest([parent EXCEPT ![s] = parent[d], ![d] = parent[s]])
  /\ vars' = [vars EXCEPT ![s] = vars[d], ![d] = vars[s]]
  /\ parent' = [parent EXCEPT ![s] = parent[d], ![d] = parent[s]]
  /\ last' = [op |-> "swap", s |-> s, d |-> d]
  /\ Keep

Reset(s) ==
  /\ vars' = [vars EXCEPT ![s] = NoVars]
  /\ parent' = [parent EXCEPT ![s] = None]
  /\ last' = [op |-> "reset", s |-> s]
  /\ Keep

NDefine == \E s \in S, n \in Names, v \in Vals : Define(s, n, v)
NUndefine == \E s \in S, n \in Names : Undefine(s, n)
NHas == \E s \in S, n \in Names, l \in BOOLEAN : Has(s, n, l)
NGet == \E s \in S, n \in Names, l \in BOOLEAN : Get(s, n, l)
NGetT == \E s \in S, n \in Names, l \in BOOLEAN, t \in Types : GetT(s, n, l, t)
NSetVar == \E s \in S, n \in Names, v \in Vals, l \in BOOLEAN : SetVar(s, n, v, l)
NSetParent == \E s \in S, p \in S \cup {None} : SetParent(s, p)
NIsEmpty == \E s \in S : IsEmpty(s)
NCopy == \E d \in S, s \in S, a \in BOOLEAN : Copy(d, s, a)
NMove == \E d \in S, s \in S, a \in BOOLEAN : Move(d, s, a)
NSwap == \E d \in S, s \in S : Swap(d, s)
NReset == \E s \in S : Reset(s)

Next == \/ NDefine \/ NUndefine \/ NHas \/ NGet \/ NGetT \/ NSetVar \/ NSetParent \/ NIsEmpty
        \/ NCopy \/ NMove \/ NSwap \/ NReset
Spec == Init /\ [][Next]_vs

(* ------------------------------------------------------------------------------------------------ *)
(* Invariants                                                                                         *)
Maps == UNION {[D -> Vals] : D \in SUBSET Names}
TypeOK == /\ vars \in [S -> Maps] /\ pvars \in [S -> Maps]
          /\ parent \in [S -> S \cup {None}] /\ ppar \in [S -> S \cup {None}]
IsForest == Forest(parent)

\* Inheritance: what a scope sees is its own variables laid over what its parent sees (shadowing), in every state
Inheritance ==
  \A s \in S : LET mine == vars[s]
                   V == Visible(vars, parent, s)
                   up == IF parent[s] = None THEN NoVars ELSE Visible(vars, parent, parent[s]) IN
     /\ DOMAIN V = (DOMAIN mine) \cup (DOMAIN up)
     /\ \A n \in DOMAIN V : V[n] = IF n \in DOMAIN mine THEN mine[n] ELSE up[n]

PreOwner == RefOwner(pvars, ppar, last.s, last.n, last.local)
\* has / get / get<T> / set answer by the closest definer of the chain (or of the scope alone when local_only)
LookupLaw ==
  /\ last.op \in {"has", "get", "set"} => last.ret = (PreOwner # None)
  /\ last.op = "get" => last.out = IF PreOwner # None THEN <<pvars[PreOwner][last.n]>> ELSE <<>>
  /\ last.op = "gett" =>
       /\ last.ret = (PreOwner # None /\ TypeMatch(last.t, KindOf(pvars[PreOwner][last.n])))
       /\ last.out = IF last.ret THEN <<pvars[PreOwner][last.n]>> ELSE <<>>
  /\ last.op = "empty" => last.ret = (\A n \in Names : n \notin DOMAIN pvars[last.s])
\* queries change nothing
QueryFrame == last.op \in {"has", "get", "gett", "empty"} => vars = pvars /\ parent = ppar
\* define: fails iff the name is already a variable OF THIS SCOPE (an inherited one may be shadowed); touches this scope only
DefineLaw ==
  last.op = "define" =>
    /\ last.ret = (last.n \notin DOMAIN pvars[last.s])
    /\ parent = ppar
    /\ vars = IF last.ret THEN [pvars EXCEPT ![last.s] = Put(@, last.n, last.v)] ELSE pvars
    /\ last.ret => Visible(vars, parent, last.s)[last.n] = last.v
\* undefine: removes a variable of this scope only; an inherited variable of the same name shows through again
UndefineLaw ==
  last.op = "undefine" =>
    /\ last.ret = (last.n \in DOMAIN pvars[last.s])
    /\ parent = ppar
    /\ vars = IF last.ret THEN [pvars EXCEPT ![last.s] = Del(@, last.n)] ELSE pvars
    /\ last.ret => LET V == Visible(vars, parent, last.s)
                       up == IF ppar[last.s] = None THEN NoVars ELSE Visible(pvars, ppar, ppar[last.s]) IN
                   /\ (last.n \in DOMAIN V) = (last.n \in DOMAIN up)
                   /\ last.n \in DOMAIN V => V[last.n] = up[last.n]
\* set: exactly one cell changes - the one of the closest definer; never creates a variable; afterwards the scope reads
\* the new value; with local_only an inherited variable is not touched
SetLaw ==
  last.op = "set" =>
    /\ parent = ppar
    /\ vars = IF last.ret THEN [pvars EXCEPT ![PreOwner] = Put(@, last.n, last.v)] ELSE pvars
    /\ \A s \in S : DOMAIN vars[s] = DOMAIN pvars[s]
    /\ last.ret => Visible(vars, parent, last.s)[last.n] = last.v
    /\ last.ret /\ last.local => PreOwner = last.s
SetParentLaw ==
  last.op = "setparent" => vars = pvars /\ parent = [ppar EXCEPT ![last.s] = last.d]
\* copies are equal to their source (variables and parent link), the source is untouched
CopyLaw ==
  last.op \in {"copya", "copyc"} =>
    /\ vars = [pvars EXCEPT ![last.d] = pvars[last.s]]
    /\ parent = [ppar EXCEPT ![last.d] = ppar[last.s]]
\* a move hands everything over and leaves a pristine source
MoveLaw ==
  last.op \in {"movea", "movec"} =>
    /\ vars = [pvars EXCEPT ![last.s] = NoVars, ![last.d] = pvars[last.s]]
    /\ parent = [ppar EXCEPT ![last.s] = None, ![last.d] = ppar[last.s]]
SwapLaw ==
  last.op = "swap" =>
    /\ vars = [pvars EXCEPT ![last.s] = pvars[last.d], ![last.d] = pvars[last.s]]
    /\ parent = [ppar EXCEPT ![last.s] = ppar[last.d], ![last.d] = ppar[last.s]]
ResetLaw ==
  last.op = "reset" => vars = [pvars EXCEPT ![last.s] = NoVars] /\ parent = [ppar EXCEPT ![last.s] = None]
\* a call on scope s never changes what an unrelated scope (one that has no scope written by the call on its chain) sees
Isolation ==
  \A x \in S :
    (\A a \in Reach(ppar, x) \cup Reach(parent, x) : vars[a] = pvars[a] /\ parent[a] = ppar[a])
      => Visible(vars, parent, x) = Visible(pvars, ppar, x)
=============================================================================
