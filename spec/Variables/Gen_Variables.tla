--------------------------- MODULE Gen_Variables ---------------------------
(* Script generator for E01.                                                                                   *)
(* BFS mode (Gen_s3.cfg, Gen_n2.cfg): TRANSITION COVERAGE of the bounded model.  States are identified by       *)
(* <<vars, parent>> only (VIEW), hist carries the first (shortest) operation sequence that reached the state,   *)
(* and the ACTION_CONSTRAINT prints hist' for every transition TLC generates: every call of the model, from     *)
(* every reachable state of the model, becomes one script "shortest path to the state, then the call".          *)
(* Simulation mode (Gen_sim.cfg): random deep operation sequences, printed at the depth bound.                  *)
EXTENDS MC_Variables, Json
CONSTANT Depth
VARIABLE hist
gvars == <<vs, hist>>
View == <<vars, parent>>
H(o, s, d, n, v, lo, t) == hist' = Append(hist, [o |-> o, s |-> s, d |-> d, n |-> n, v |-> v, l |-> lo, t |-> t])
GInit == Init /\ hist = <<>>
GDefine == \E s \in S, n \in Names, v \in Vals : Define(s, n, v) /\ H("define", s, 0, n, v, FALSE, "")
GUndefine == \E s \in S, n \in Names : Undefine(s, n) /\ H("undefine", s, 0, n, 1, FALSE, "")
GHas == \E s \in S, n \in Names, lo \in BOOLEAN : Has(s, n, lo) /\ H("has", s, 0, n, 1, lo, "")
GGet == \E s \in S, n \in Names, lo \in BOOLEAN : Get(s, n, lo) /\ H("get", s, 0, n, 1, lo, "")
GGetT == \E s \in S, n \in Names, lo \in BOOLEAN, t \in Types : GetT(s, n, lo, t) /\ H("gett", s, 0, n, 1, lo, t)
GSetVar == \E s \in S, n \in Names, v \in Vals, lo \in BOOLEAN : SetVar(s, n, v, lo) /\ H("set", s, 0, n, v, lo, "")
GSetParent == \E s \in S, p \in S \cup {None} : SetParent(s, p) /\ H("setparent", s, p, "a", 1, FALSE, "")
GIsEmpty == \E s \in S : IsEmpty(s) /\ H("empty", s, 0, "a", 1, FALSE, "")
GCopy == \E d \in S, s \in S, a \in BOOLEAN : Copy(d, s, a) /\ H(IF a THEN "copya" ELSE "copyc", s, d, "a", 1, FALSE, "")
GMove == \E d \in S, s \in S, a \in BOOLEAN : Move(d, s, a) /\ H(IF a THEN "movea" ELSE "movec", s, d, "a", 1, FALSE, "")
GSwap == \E d \in S, s \in S : Swap(d, s) /\ H("swap", s, d, "a", 1, FALSE, "")
GReset == \E s \in S : Reset(s) /\ H("reset", s, 0, "a", 1, FALSE, "")
GNext == \/ GDefine \/ GUndefine \/ GHas \/ GGet \/ GGetT \/ GSetVar \/ GSetParent \/ GIsEmpty \/ GCopy \/ GMove \/ GSwap \/ GReset
GSpec == GInit /\ [][GNext]_gvars
\* BFS: print every transition
EmitT == PrintT("BEH " \o ToJson(hist'))
\* simulation: print at the depth bound
EmitD == IF Len(hist) >= Depth THEN PrintT("BEH " \o ToJson(hist)) /\ FALSE ELSE TRUE
=============================================================================
