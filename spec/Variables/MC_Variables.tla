---- MODULE MC_Variables ----
(* Bounded models for E01: values are small integers; 1 is an int, 2 a string, 3 a float, 4 a bool. *)
EXTENDS Variables
MCKindOf(v) == CASE v = 1 -> "int" [] v = 2 -> "str" [] v = 3 -> "float" [] v = 4 -> "bool" [] OTHER -> "other"
====
