CONSTANTS
  S = {1, 2, 3}
  Names = {"a", "b", "c", "d"}
  Vals = {}
  CopyKeepsStale = FALSE
  KindOf <- TKindOf
SPECIFICATION TSpec
CONSTRAINT Progress
POSTCONDITION Accepted
INVARIANTS IsForest Inheritance LookupLaw SetLaw
CHECK_DEADLOCK FALSE
