-------------------------- MODULE Trace_Variables --------------------------
(* Trace validation for E01: every line of the recorded ndjson trace must be the corresponding action of       *)
(* Variables.tla with the logged answer, and must lead to a state in which every scope shows - through toJson, *)
(* get, get(local_only), has, has(local_only), empty - exactly what the reference semantics (Visible) says.     *)
(* JSON values are cells <<kind, dump>>; <<"~", "">> = no such variable.                                        *)
EXTENDS Variables, Json, IOUtils
NameSeq == <<"a", "b", "c", "d">>      \* the driver's name universe, in the order of its state arrays
TLog == ndJsonDeserialize(IOEnv.TRACE)
VARIABLE l
ASSUME TLCSet(42, 0)
tvars == <<vs, l>>

TKindOf(v) == CASE v[1] = "i" -> "int" [] v[1] = "I" -> "bigint" [] v[1] = "f" -> "float" [] v[1] = "s" -> "str"
                [] v[1] = "b" -> "bool" [] OTHER -> "other"
Ev == TLog[l]
IsEv(e) == l <= Len(TLog) /\ TLog[l].e = e /\ l' = l + 1
NoCell == <<"~", "">>
CellOf(m, n) == IF n \in DOMAIN m THEN m[n] ELSE NoCell
Unset(t) == CASE t = "json" -> <<"s", "\"?unset\"">> [] t = "int" -> <<"i", "-777">> [] t = "float" -> <<"f", "-777.5">>
              [] t = "str" -> <<"s", "\"?unset\"">> [] OTHER -> <<"b", "false">>
\* everything every scope lets a caller see after the call
Post == \A s \in S : \E V \in {Visible(vars', parent', s)} : \E mine \in {vars'[s]} :       \* (bound once: TLC re-evaluates a LET at every use)
          LET o == Ev.st[s] IN
          /\ o.x = 0
          /\ o.emp = (DOMAIN mine = {})
          /\ \A i \in 1..Len(o.loc) : LET n == NameSeq[i] IN
               /\ o.loc[i] = CellOf(mine, n) /\ o.gl[i] = CellOf(mine, n) /\ o.hl[i] = (n \in DOMAIN mine)
               /\ o.vis[i] = CellOf(V, n) /\ o.h[i] = (n \in DOMAIN V)
          /\ \A n \in DOMAIN mine : \E i \in 1..Len(o.loc) : NameSeq[i] = n
Ret == Ev.ret = last'.ret
\* the out parameter: the value on success; on failure the caller's object is as it was
Out(t) == Ev.out = IF last'.ret THEN last'.out[1] ELSE Unset(t)

TInit == Init /\ l = 1
TReset == IsEv("Reset") /\ vars' = [s \in S |-> NoVars] /\ parent' = [s \in S |-> None] /\ last' = [op |-> "init"]
          /\ pvars' = vars' /\ ppar' = parent'
TDefine == IsEv("define") /\ Define(Ev.s, Ev.n, Ev.v) /\ Ret /\ Post
TUndefine == IsEv("undefine") /\ Undefine(Ev.s, Ev.n) /\ Ret /\ Post
THas == IsEv("has") /\ Has(Ev.s, Ev.n, Ev.l) /\ Ret /\ Post
TGet == IsEv("get") /\ Get(Ev.s, Ev.n, Ev.l) /\ Ret /\ Out("json") /\ Post
\* get<T>: the converted value is compared when the stored value is of exactly T's class (an int read as double is not)
TGetT == IsEv("gett") /\ GetT(Ev.s, Ev.n, Ev.l, Ev.t) /\ Ret /\ Post
         /\ IF ~last'.ret THEN Out(Ev.t) ELSE IF TKindOf(last'.out[1]) = Ev.t THEN Out(Ev.t) ELSE TRUE
TSetVar == IsEv("set") /\ SetVar(Ev.s, Ev.n, Ev.v, Ev.l) /\ Ret /\ Post
TSetParent == IsEv("setparent") /\ SetParent(Ev.s, Ev.d) /\ Post
TIsEmpty == IsEv("empty") /\ IsEmpty(Ev.s) /\ Ret /\ Post
TCopyA == IsEv("copya") /\ Copy(Ev.d, Ev.s, TRUE) /\ Post
TCopyC == IsEv("copyc") /\ Copy(Ev.d, Ev.s, FALSE) /\ Post
TMoveA == IsEv("movea") /\ Move(Ev.d, Ev.s, TRUE) /\ Post
TMoveC == IsEv("movec") /\ Move(Ev.d, Ev.s, FALSE) /\ Post
TSwap == IsEv("swap") /\ Swap(Ev.d, Ev.s) /\ Post
TResetScope == IsEv("reset") /\ Reset(Ev.s) /\ Post
TNext == \/ TReset \/ TDefine \/ TUndefine \/ THas \/ TGet \/ TGetT \/ TSetVar \/ TSetParent \/ TIsEmpty
         \/ TCopyA \/ TCopyC \/ TMoveA \/ TMoveC \/ TSwap \/ TResetScope
TSpec == TInit /\ [][TNext]_tvars

Progress == TLCSet(42, IF l > TLCGet(42) THEN l ELSE TLCGet(42))
Accepted == IF TLCGet(42) = Len(TLog) + 1 THEN TRUE ELSE PrintT(<<"MAXPOS", TLCGet(42), Len(TLog)>>) /\ FALSE
=============================================================================
