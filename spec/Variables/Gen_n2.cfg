\* all transitions of: two scopes, two names, two values (1 = int 12, 3 = float 12.5)
CONSTANTS
  S = {1, 2}
  Names = {"a", "b"}
  Vals = {1, 3}
  CopyKeepsStale = FALSE
  KindOf <- MCKindOf
  Depth = 0
SPECIFICATION GSpec
VIEW View
ACTION_CONSTRAINT EmitT
CHECK_DEADLOCK FALSE
