\* two scopes, two names (independent variables of one scope, map released when the last one goes), an int and a float
CONSTANTS
  S = {1, 2}
  Names = {"a", "b"}
  Vals = {1, 3}
  CopyKeepsStale = FALSE
  KindOf <- MCKindOf
SPECIFICATION Spec
INVARIANTS TypeOK IsForest Inheritance LookupLaw QueryFrame DefineLaw UndefineLaw SetLaw SetParentLaw CopyLaw MoveLaw SwapLaw ResetLaw Isolation
CHECK_DEADLOCK FALSE
