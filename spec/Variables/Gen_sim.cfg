CONSTANTS
  S = {1, 2, 3}
  Names = {"a", "b", "c"}
  Vals = {1, 2, 3, 4}
  CopyKeepsStale = FALSE
  KindOf <- MCKindOf
  Depth = 30
SPECIFICATION GSpec
CONSTRAINT EmitD
CHECK_DEADLOCK FALSE
