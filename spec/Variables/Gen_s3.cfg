\* all transitions of: three scopes, one name, two values (1 = int 12, 2 = string "hello")
CONSTANTS
  S = {1, 2, 3}
  Names = {"a"}
  Vals = {1, 2}
  CopyKeepsStale = FALSE
  KindOf <- MCKindOf
  Depth = 0
SPECIFICATION GSpec
VIEW View
ACTION_CONSTRAINT EmitT
CHECK_DEADLOCK FALSE
