\* three scopes (chains of depth 3, siblings, re-parenting), one name, two values
CONSTANTS
  S = {1, 2, 3}
  Names = {"a"}
  Vals = {1, 2}
  CopyKeepsStale = FALSE
  KindOf <- MCKindOf
SPECIFICATION Spec
INVARIANTS TypeOK IsForest Inheritance LookupLaw QueryFrame DefineLaw UndefineLaw SetLaw SetParentLaw CopyLaw MoveLaw SwapLaw ResetLaw Isolation
CHECK_DEADLOCK FALSE
