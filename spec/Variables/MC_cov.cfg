\* small model with per-action coverage: the vacuity guard (every action of the specification generates successors)
CONSTANTS
  S = {1, 2}
  Names = {"a"}
  Vals = {1, 2}
  CopyKeepsStale = FALSE
  KindOf <- MCKindOf
SPECIFICATION Spec
INVARIANTS TypeOK IsForest Inheritance LookupLaw QueryFrame DefineLaw UndefineLaw SetLaw SetParentLaw CopyLaw MoveLaw SwapLaw ResetLaw Isolation
CHECK_DEADLOCK FALSE
