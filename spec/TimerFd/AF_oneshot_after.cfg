CONSTANTS
  T = {1}
  Firsts = {1, 2}
  Repeats = {0, 1}
  MaxNow = 4
  MaxAdv = 2
  MaxCbOps = 1
  Margin = 0
  Variant = "oneshot_after"
SPECIFICATION Spec
INVARIANTS TypeOK OneShotDisabledInCallback
CHECK_DEADLOCK FALSE
