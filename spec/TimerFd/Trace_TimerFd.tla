---------------------------- MODULE Trace_TimerFd ----------------------------
(* Trace validation for E10.  Every line of the ndjson trace recorded from real TimerFd objects on a real loop with the real  *)
(* kernel timers (driver: harness/e10_timerfd/driver.cpp) must be the corresponding action of TimerFd (Variant = "intended")   *)
(* with the logged arguments, return value, isEnabled() of every object after the step and the measured clock values           *)
(* (microseconds since the start of the execution; t0 = read before the call, t = read after it / inside the callback).        *)
(* What the loop does between two lines is not recorded: the silent steps PassBegin / Skip / PassEnd, and the service of a     *)
(* one-shot timer that has no callback installed (only its flags change), may happen anywhere.  The service of a periodic     *)
(* timer without callback changes nothing that can be observed; the model then keeps its old bounds, which stay valid (lo is   *)
(* a lower bound of every later expiry) -- tracking the unknown number of silent expirations would only multiply the states.   *)
(*   fire    must be Dispatch of that timer: it exists, is initialised, enabled, watched, armed, has a callback, and the clock  *)
(*           value read in the callback is not before the earliest possible expiry (never early)                               *)
(*   remain  remainTime() must lie within the bounds RemainOK derives from the measured clock values (2 us of rounding slack)  *)
(*   await   the driver ran the loop until the timer fired (ok) or for 1.5 s (not ok): not ok is rejected when the model says   *)
(*           the timer is enabled, has a callback and its latest possible expiry lies more than Margin (1 s) back              *)
(*   end     every object destroyed, as many open descriptors as before the execution, LeakSanitizer found nothing             *)
(* Lateness of the machine moves clock values, never the verdict.  All invariants of TimerFd are evaluated on every state.      *)
EXTENDS TimerFd, Json, IOUtils, TLC
TLog == ndJsonDeserialize(IOEnv.TRACE)
VARIABLE l
ASSUME TLCSet(42, 0)
tvars == <<vars, l>>

Ev == TLog[l]
Has == l <= Len(TLog)
IsEv(e) == Has /\ TLog[l].e = e /\ l' = l + 1
InCb == cur = Ev.cb
En == \A i \in T : tf'[i].en = Ev.en[i]
R == ret' = Ev.ret
\* the first clock value of the line to come: a silent service of a timer happened before that value was read
PeekT == IF ~Has THEN now ELSE IF "t0" \in DOMAIN Ev THEN Ev.t0 ELSE IF "t" \in DOMAIN Ev THEN Ev.t ELSE now
Surely(i, t) == /\ tf[i].obj /\ tf[i].inited /\ tf[i].en /\ tf[i].cbset /\ tf[i].fdev /\ tf[i].arm /\ t >= tf[i].hi + Margin

TInit == Init /\ l = 1
TReset == /\ IsEv("Reset")
          /\ now' = 0 /\ phase' = "idle" /\ cur' = 0 /\ nops' = 0 /\ ready' = {} /\ tf' = [i \in T |-> None] /\ ret' = TRUE
          /\ lastfire' = NoFire /\ ub' = FALSE
Silent == \/ \E S \in SUBSET T : S # {} /\ PassBegin(S)
          \/ \E i \in T : Skip(i)
          \/ \E i \in T : ~tf[i].cbset /\ tf[i].stop /\ PeekT >= now /\ Dispatch(i, PeekT)
          \/ PassEnd
TNext ==
  \/ TReset
  \/ IsEv("info") /\ UNCHANGED vars
  \/ IsEv("call") /\ UNCHANGED vars                     \* logged before every call so that a crash inside it is attributed
  \/ IsEv("create") /\ InCb /\ Create(Ev.i, Ev.t) /\ En
  \/ IsEv("destroy") /\ InCb /\ Destroy(Ev.i, Ev.t) /\ En
  \/ IsEv("init") /\ InCb /\ Initialize(Ev.i, Ev.f, Ev.r, Ev.t) /\ R /\ En
  \/ IsEv("setcb") /\ InCb /\ SetCb(Ev.i, Ev.on, Ev.t) /\ En
  \/ IsEv("cleanup") /\ InCb /\ Cleanup(Ev.i, Ev.t) /\ En
  \/ IsEv("enable") /\ InCb /\ Enable(Ev.i, Ev.t0, Ev.t) /\ R /\ En
  \/ IsEv("disable") /\ InCb /\ Disable(Ev.i, Ev.t) /\ R /\ En
  \/ IsEv("remain") /\ InCb /\ InCtx /\ now <= Ev.t0 /\ Ev.t0 <= Ev.t /\ now' = Ev.t
       /\ (\E r \in (Ev.rlo - 2)..(Ev.rhi + 2) : RemainOK(Ev.i, r, Ev.t0, Ev.t))
       /\ UNCHANGED <<phase, cur, nops, ready, tf, ret, lastfire, ub>>
  \/ IsEv("wait") /\ phase # "cb" /\ Advance(Ev.t)
  \/ IsEv("await") /\ phase # "cb" /\ (Ev.ok \/ ~Surely(Ev.i, Ev.t)) /\ Advance(Ev.t)
  \/ IsEv("fire") /\ tf[Ev.i].cbset /\ Dispatch(Ev.i, Ev.t) /\ En
  \/ IsEv("cbend") /\ cur = Ev.i /\ CbEnd(Ev.t)
  \/ IsEv("end") /\ phase # "cb" /\ (\A i \in T : ~tf[i].obj) /\ Ev.leak = FALSE /\ Ev.fds0 = Ev.fds1 /\ UNCHANGED vars
  \/ Silent /\ UNCHANGED l
TSpec == TInit /\ [][TNext]_tvars

Progress == TLCSet(42, IF l > TLCGet(42) THEN l ELSE TLCGet(42))
Accepted == IF TLCGet(42) = Len(TLog) + 1 THEN TRUE ELSE PrintT(<<"MAXPOS", TLCGet(42), Len(TLog)>>) /\ FALSE
=============================================================================
