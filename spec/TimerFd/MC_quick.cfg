CONSTANTS
  T = {1, 2}
  Firsts = {1}
  Repeats = {0, 1}
  MaxNow = 2
  MaxAdv = 2
  MaxCbOps = 1
  Margin = 0
  Variant = "intended"
SPECIFICATION Spec
INVARIANTS TypeOK Consistent NeverEarly NoFireAfterDisable OneShotDisabledInCallback OneShotOnce PersistKeepsFiring NoUB
CHECK_DEADLOCK FALSE
