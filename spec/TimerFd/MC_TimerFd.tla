----------------------------- MODULE MC_TimerFd -----------------------------
(* Bounded models of TimerFd for exhaustive checking; constants come from the cfg files. *)
EXTENDS TimerFd, TLC
\* one object, already created: the two-object configurations explore creation / destruction
=============================================================================
