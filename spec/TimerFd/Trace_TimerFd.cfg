CONSTANTS
  T = {1, 2}
  Firsts = {1}
  Repeats = {0}
  MaxNow = 2000000000
  MaxAdv = 0
  MaxCbOps = 1000000
  Margin = 1000000
  Variant = "intended"
SPECIFICATION TSpec
CONSTRAINT Progress
POSTCONDITION Accepted
INVARIANTS Consistent NeverEarly NoFireAfterDisable OneShotDisabledInCallback OneShotOnce PersistKeepsFiring NoUB
CHECK_DEADLOCK FALSE
