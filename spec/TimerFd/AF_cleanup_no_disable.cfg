CONSTANTS
  T = {1}
  Firsts = {1, 2}
  Repeats = {0, 1}
  MaxNow = 4
  MaxAdv = 2
  MaxCbOps = 1
  Margin = 0
  Variant = "cleanup_no_disable"
SPECIFICATION Spec
INVARIANTS TypeOK Consistent
CHECK_DEADLOCK FALSE
