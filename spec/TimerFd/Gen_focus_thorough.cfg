CONSTANTS
  T = {1}
  Firsts = {1, 2}
  Repeats = {0, 1}
  MaxNow = 12
  MaxAdv = 2
  MaxCbOps = 1
  Margin = 0
  Variant = "intended"
  Depth = 6
  Preload = TRUE
  TopOps = {"enable", "disable"}
  CbOps = {"init", "setcb", "cleanup", "enable", "disable"}
SPECIFICATION GSpec
CONSTRAINT Emit
CHECK_DEADLOCK FALSE
