---------------------------- MODULE Gen_TimerFd ----------------------------
(* Behaviour generator for E10.  Every behaviour of the bounded model with `Depth` recorded steps (BFS) or random deep ones       *)
(* (-simulate) is printed as a JSON history (1 model tick = 1 ms).  With Preload the behaviours start with object 1 created,      *)
(* initialised (every first/repeat), with a callback, enabled at time 0.  A pass serves every timer whose expiry is possible.     *)
(* checks/e10.py turns a history into a driver script: operations issued outside callbacks in order ("adv n" becomes "wait n ms",  *)
(* a callback invocation "await i"), and for the n-th invocation of object i the operations its callback issues.  The driver runs  *)
(* the script on real TimerFd objects with the real kernel timers; the recorded trace -- whatever the timing of the machine made   *)
(* of it -- must be SOME behaviour of the specification (Trace_TimerFd).                                                          *)
EXTENDS TimerFd, Json, TLC
CONSTANTS Depth, Preload, TopOps, CbOps
VARIABLES hist, steps
gvars == <<vars, hist, steps>>
Op(o, i, f, r, on) == [o |-> o, i |-> i, f |-> f, r |-> r, on |-> on, cb |-> cur]
H(rec) == hist' = Append(hist, rec) /\ steps' = steps + 1
Quiet == UNCHANGED <<hist, steps>>
Allowed(o) == IF phase = "cb" THEN o \in CbOps ELSE o \in TopOps
AdvOK == IF phase = "cb" \/ hist = <<>> THEN TRUE ELSE hist[Len(hist)].o # "adv"
One == CHOOSE i \in T : \A j \in T : i <= j

GInit ==
  /\ steps = 0 /\ now = 0 /\ phase = "idle" /\ cur = 0 /\ nops = 0 /\ ready = {} /\ ret = TRUE /\ lastfire = NoFire /\ ub = FALSE
  /\ IF ~Preload THEN tf = [i \in T |-> None] /\ hist = <<>>
     ELSE \E f \in Firsts \ {0}, r \in Repeats :
            /\ tf = [i \in T |-> IF i = One THEN [None EXCEPT !.obj = TRUE, !.inited = TRUE, !.en = TRUE, !.first = f, !.rep = r, !.stop = (r = 0),
                                                              !.cbset = TRUE, !.fdev = TRUE, !.arm = TRUE, !.lo = f, !.hi = f, !.gl = f]
                                 ELSE None]
            /\ hist = <<[o |-> "create", i |-> One, f |-> 0, r |-> 0, on |-> FALSE, cb |-> 0],
                        [o |-> "init", i |-> One, f |-> f, r |-> r, on |-> FALSE, cb |-> 0],
                        [o |-> "setcb", i |-> One, f |-> 0, r |-> 0, on |-> TRUE, cb |-> 0],
                        [o |-> "enable", i |-> One, f |-> 0, r |-> 0, on |-> FALSE, cb |-> 0]>>
GNext ==
  \/ \E i \in T : Allowed("create") /\ Create(i, now) /\ H(Op("create", i, 0, 0, FALSE))
  \/ \E i \in T : Allowed("destroy") /\ Destroy(i, now) /\ H(Op("destroy", i, 0, 0, FALSE))
  \/ \E i \in T, f \in Firsts, r \in Repeats : Allowed("init") /\ Initialize(i, f, r, now) /\ H(Op("init", i, f, r, FALSE))
  \/ \E i \in T, on \in BOOLEAN : Allowed("setcb") /\ SetCb(i, on, now) /\ H(Op("setcb", i, 0, 0, on))
  \/ \E i \in T : Allowed("cleanup") /\ Cleanup(i, now) /\ H(Op("cleanup", i, 0, 0, FALSE))
  \/ \E i \in T : Allowed("enable") /\ Enable(i, now, now) /\ H(Op("enable", i, 0, 0, FALSE))
  \/ \E i \in T : Allowed("disable") /\ Disable(i, now) /\ H(Op("disable", i, 0, 0, FALSE))
  \/ \E n \in 1..MaxAdv : AdvOK /\ Advance(now + n) /\ H(Op("adv", 0, n, 0, FALSE))
  \/ LET S == {i \in T : Possible(i, now)} IN S # {} /\ PassBegin(S) /\ Quiet
  \/ \E i \in T : Dispatch(i, now) /\ (IF tf[i].cbset THEN H([o |-> "fire", i |-> i, f |-> 0, r |-> 0, on |-> FALSE, cb |-> 0]) ELSE Quiet)
  \/ \E i \in T : Skip(i) /\ Quiet
  \/ CbEnd(now) /\ Quiet
  \/ PassEnd /\ Quiet
GSpec == GInit /\ [][GNext]_gvars
Emit == IF steps = Depth THEN PrintT("BEH " \o ToJson([hist |-> hist])) ELSE steps < Depth
=============================================================================
