------------------------------- MODULE TimerFd -------------------------------
(* E10 - tbox::eventx::TimerFd (modules/eventx/timer_fd.{h,cpp}): a timer on a Linux timerfd served by the loop.            *)
(*                                                                                                                           *)
(* Implementation-shaped model of TimerFd objects i \in T on one loop.  Per object: the API state (inited, en = is_enabled,   *)
(* first / rep = the configured itimerspec, stop = is_stop_after_trigger, cbset = a callback is installed), its FdEvent        *)
(* (fdev = enabled in the loop) and the kernel timer (arm; [lo, hi] bounds the next expiry).                                  *)
(* Time: `now` is the last value the application has read from a monotonic clock.  An operation that arms the timer is given  *)
(* the clock read before (t0) and after (t1) the call: the kernel armed it somewhere in between, so the first expiry is in     *)
(* [t0 + first, t1 + first]; after an expiry served at clock value t the next one is in [lo + rep, t + rep].  The bounded      *)
(* models use t0 = t1 = now (exact clock); traces of the real code carry measured values, so the oracle never depends on how   *)
(* late the loop is: only "not before lo" (never early), counts, orderings and flags are demanded.                            *)
(* One loop pass: PassBegin latches the set of ready descriptors (any subset of the watched, armed timers: epoll_wait may      *)
(* have returned before or after an expiry), Dispatch(i) = FdEvent callback -> TimerFd::onEvent -> read(), a one-shot is      *)
(* disabled BEFORE the user callback, then the user callback (operations of the callback, CbEnd); a descriptor                 *)
(* latched as ready whose timer has been disabled / re-armed / destroyed meanwhile is skipped (the FdEvent is disabled, and    *)
(* read() finds no expiration because timerfd_settime() cleared it).  Operations are issued between passes, between the        *)
(* dispatches of a pass (= from another event's callback of the same pass) and from inside a TimerFd callback, on any timer    *)
(* including the running one.                                                                                                 *)
(* The properties are separate formulas over ghosts (gl, k, lastfire, ub); `Variant` switches one mechanism step to a           *)
(* plausible wrong one -- "sticky_stop" and "cb_destroyed" are the code as found.                                             *)
EXTENDS Integers, Sequences, FiniteSets

CONSTANTS T,          \* TimerFd objects
          Firsts,     \* first intervals initialize() may choose (0 = documented "does not work")   (model checking only)
          Repeats,    \* repeat intervals (0 = one-shot)                                            (model checking only)
          MaxNow, MaxAdv, MaxCbOps,                                                              \* (model checking only)
          Margin,     \* how long after the latest possible expiry a waiting loop must have served the timer (trace validation)
          Variant     \* "intended" | "sticky_stop" | "cb_destroyed" | "lazy_disable" | "resume_remaining" | "oneshot_after"
                      \* | "cleanup_no_disable"

None == [obj |-> FALSE, inited |-> FALSE, en |-> FALSE, first |-> 0, rep |-> 0, stop |-> FALSE, cbset |-> FALSE,
         fdev |-> FALSE, arm |-> FALSE, lo |-> 0, hi |-> 0, gl |-> 0, k |-> 0, left |-> 0]
NoFire == [i |-> 0, t |-> 0, gl |-> 0, k |-> 0, rep |-> 0, wasEn |-> TRUE, wasInit |-> TRUE, wasObj |-> TRUE, enCb |-> FALSE, stop |-> FALSE]

VARIABLES now,       \* last clock value read
          phase,     \* "idle" | "pass" (between the dispatches of a pass) | "cb" (inside a TimerFd callback)
          cur,       \* timer whose callback is running (0 = none)
          nops,      \* operations issued by the running callback
          ready,     \* descriptors latched as ready by this pass and not yet dispatched
          tf,        \* i -> [obj, inited, en, first, rep, stop, cbset, fdev, arm, lo, hi, gl, k (ghosts), left (remaining time kept by a variant)]
          ret,       \* return value of the last operation
          lastfire,  \* ghost: the invocation in progress
          ub         \* ghost: the running callback functor was destroyed under its feet
vars == <<now, phase, cur, nops, ready, tf, ret, lastfire, ub>>

Init == /\ now = 0 /\ phase = "idle" /\ cur = 0 /\ nops = 0 /\ ready = {} /\ tf = [i \in T |-> None] /\ ret = TRUE
        /\ lastfire = NoFire /\ ub = FALSE

(* ----------------------------------------- operations ------------------------------------------------ *)
InCtx == phase \in {"idle", "pass"} \/ (phase = "cb" /\ nops < MaxCbOps)
Frame == /\ nops' = IF phase = "cb" THEN nops + 1 ELSE nops
         /\ UNCHANGED <<phase, cur, ready, lastfire>>
Clock(t0, t1) == now <= t0 /\ t0 <= t1 /\ now' = t1
At(t) == now <= t /\ now' = t          \* the clock value read when the operation has returned

\* what disable() does to an enabled timer: timerfd_settime(0) (disarms, clears a pending expiration), FdEvent off
Off(r) == IF Variant = "lazy_disable" THEN [r EXCEPT !.en = FALSE]
          ELSE [r EXCEPT !.en = FALSE, !.fdev = FALSE, !.arm = FALSE,
                         !.left = IF Variant = "resume_remaining" /\ r.arm /\ r.lo > now THEN r.lo - now ELSE 0]
\* cleanup() of an initialised timer: disable, close the descriptor, drop the callback
Clean(r) == LET d == IF r.en /\ Variant # "cleanup_no_disable" THEN Off(r) ELSE r
            IN [d EXCEPT !.inited = FALSE, !.cbset = FALSE, !.arm = IF Variant = "cleanup_no_disable" THEN @ ELSE FALSE]
\* the std::function that is running is destroyed when cleanup() / setCallback() drops it from inside the callback
Drops(i) == Variant = "cb_destroyed" /\ i = cur /\ tf[i].cbset

Create(i, t) == /\ InCtx /\ ~tf[i].obj /\ tf' = [tf EXCEPT ![i] = [None EXCEPT !.obj = TRUE]]
                /\ ret' = TRUE /\ At(t) /\ UNCHANGED ub /\ Frame
\* ~TimerFd: cleanup, delete the FdEvent (not from inside its own callback: the destructor asserts that)
Destroy(i, t) == /\ InCtx /\ tf[i].obj /\ i # cur /\ tf' = [tf EXCEPT ![i] = None] /\ ready' = ready \ {i}
                 /\ ret' = TRUE /\ At(t) /\ nops' = (IF phase = "cb" THEN nops + 1 ELSE nops) /\ UNCHANGED <<phase, cur, lastfire, ub>>

\* initialize(first, repeat): cleanup() first; a new descriptor; the callback of an already initialised timer is dropped by that
\* cleanup (the header does not say: keeping it is accepted as well)
Initialize(i, f, r, t) ==
  /\ InCtx /\ tf[i].obj
  /\ \E keep \in (IF tf[i].inited THEN BOOLEAN ELSE {TRUE}) :
       tf' = [tf EXCEPT ![i] = [(IF tf[i].inited THEN Clean(@) ELSE @) EXCEPT
                                  !.inited = TRUE, !.first = f, !.rep = r, !.cbset = (tf[i].cbset /\ keep),
                                  !.stop = IF Variant = "sticky_stop" THEN (tf[i].stop \/ r = 0) ELSE (r = 0)]]
  /\ ub' = (ub \/ (tf[i].inited /\ Drops(i)))
  /\ ret' = TRUE /\ At(t) /\ Frame

\* setCallback(cb) / setCallback(nullptr)
SetCb(i, on, t) == /\ InCtx /\ tf[i].obj /\ tf' = [tf EXCEPT ![i].cbset = on]
                   /\ ub' = (ub \/ Drops(i)) /\ ret' = TRUE /\ At(t) /\ Frame

Cleanup(i, t) == /\ InCtx /\ tf[i].obj
                 /\ tf' = [tf EXCEPT ![i] = IF @.inited THEN Clean(@) ELSE @]
                 /\ ub' = (ub \/ (tf[i].inited /\ Drops(i)))
                 /\ ret' = TRUE /\ At(t) /\ Frame

\* enable(): false when not initialised; nothing when already enabled; else FdEvent on + timerfd_settime(first, repeat):
\* the full configured interval starts now (first = 0 disarms the kernel timer: documented "does not work")
Enable(i, t0, t1) ==
  /\ InCtx /\ tf[i].obj /\ Clock(t0, t1)
  /\ IF ~tf[i].inited THEN ret' = FALSE /\ UNCHANGED tf
     ELSE IF tf[i].en THEN ret' = TRUE /\ UNCHANGED tf
     ELSE LET f == IF Variant = "resume_remaining" /\ tf[i].left > 0 THEN tf[i].left ELSE tf[i].first IN
          /\ ret' = TRUE
          /\ tf' = [tf EXCEPT ![i] = [@ EXCEPT !.en = TRUE, !.fdev = TRUE, !.arm = (tf[i].first > 0), !.lo = t0 + f, !.hi = t1 + f,
                                               !.gl = t0 + tf[i].first, !.k = 0]]
  /\ UNCHANGED ub /\ Frame

\* disable(): false when not initialised; nothing when not enabled
Disable(i, t) == /\ InCtx /\ tf[i].obj
                 /\ IF ~tf[i].inited THEN ret' = FALSE /\ UNCHANGED tf
                    ELSE /\ ret' = TRUE /\ tf' = [tf EXCEPT ![i] = IF @.en THEN Off(@) ELSE @]
                 /\ At(t) /\ UNCHANGED ub /\ Frame

\* the clock moves (the loop sleeps / is late / a callback is slow)
Advance(t) == /\ InCtx /\ t >= now /\ t <= MaxNow /\ now' = t
              /\ UNCHANGED <<tf, ret, ub>> /\ Frame

(* remainTime() = r, clock read before (ta) and after (tb) the call: 0 for a timer that is not armed; else the next expiry lies in  *)
(* [lo, hi], or -- when that may already have passed -- at most one period ahead (0 for a one-shot that has expired)              *)
MaxOf(a, b) == IF a >= b THEN a ELSE b
RemainOK(i, r, ta, tb) ==
  LET x == tf[i] IN
  IF ~(x.obj /\ x.inited /\ x.en /\ x.arm) THEN r = 0
  ELSE /\ r >= (IF tb < x.lo THEN x.lo - tb ELSE 0)
       /\ r <= MaxOf(x.hi - ta, x.rep)

(* ----------------------------------------- the loop --------------------------------------------------- *)
Possible(i, t) == tf[i].obj /\ tf[i].fdev /\ tf[i].arm /\ t >= tf[i].lo
\* epoll_wait returns: any set of watched, armed timers may be reported (whether the expiry has really happened is decided by the
\* clock value read when the descriptor is served; a report without expiration is skipped)
PassBegin(S) == /\ phase = "idle" /\ S \subseteq {i \in T : tf[i].obj /\ tf[i].fdev /\ tf[i].arm} /\ phase' = "pass" /\ ready' = S
                /\ UNCHANGED <<now, cur, nops, tf, ret, lastfire, ub>>

\* FdEvent callback -> onEvent(): read() the expirations; a one-shot disables itself before the user callback
Dispatch(i, t) ==
  /\ phase = "pass" /\ i \in ready /\ t >= now /\ Possible(i, t)
  /\ LET x == tf[i]
         served == IF x.rep = 0 THEN [x EXCEPT !.arm = FALSE, !.k = @ + 1]
                   ELSE [x EXCEPT !.lo = @ + x.rep, !.hi = t + x.rep, !.k = @ + 1]
         y == IF x.stop /\ Variant # "oneshot_after" THEN Off(served) ELSE served
     IN /\ tf' = [tf EXCEPT ![i] = y]
        /\ IF x.cbset
             THEN /\ phase' = "cb" /\ cur' = i
                  /\ lastfire' = [i |-> i, t |-> t, gl |-> x.gl, k |-> x.k + 1, rep |-> x.rep, wasEn |-> x.en, wasInit |-> x.inited,
                                  wasObj |-> x.obj, enCb |-> y.en, stop |-> (x.rep = 0)]
             ELSE UNCHANGED <<phase, cur, lastfire>>
  /\ now' = t /\ ready' = ready \ {i} /\ nops' = 0 /\ UNCHANGED <<ret, ub>>

\* latched as ready, but disabled / re-armed / destroyed meanwhile: nothing happens
Skip(i) == /\ phase = "pass" /\ i \in ready /\ ~Possible(i, now) /\ ready' = ready \ {i}
           /\ UNCHANGED <<now, phase, cur, nops, tf, ret, lastfire, ub>>

CbEnd(t) ==
  /\ phase = "cb" /\ phase' = "pass" /\ cur' = 0 /\ nops' = 0 /\ lastfire' = NoFire /\ At(t)
  /\ tf' = IF Variant = "oneshot_after" /\ lastfire.stop /\ tf[cur].obj /\ tf[cur].inited THEN [tf EXCEPT ![cur] = Off(@)] ELSE tf
  /\ UNCHANGED <<ready, ret, ub>>

PassEnd == /\ phase = "pass" /\ phase' = "idle" /\ ready' = {}
           /\ UNCHANGED <<now, cur, nops, tf, ret, lastfire, ub>>

NCreate == \E i \in T : Create(i, now)
NDestroy == \E i \in T : Destroy(i, now)
NInitialize == \E i \in T, f \in Firsts, r \in Repeats : Initialize(i, f, r, now)
NSetCb == \E i \in T, on \in BOOLEAN : SetCb(i, on, now)
NCleanup == \E i \in T : Cleanup(i, now)
NEnable == \E i \in T : Enable(i, now, now)
NDisable == \E i \in T : Disable(i, now)
NCbEnd == CbEnd(now)
NAdvance == \E n \in 1..MaxAdv : Advance(now + n)
NPassBegin == \E S \in SUBSET T : PassBegin(S)
NDispatch == \E i \in T : Dispatch(i, now)
NSkip == \E i \in T : Skip(i)
Next == \/ NCreate \/ NDestroy \/ NInitialize \/ NSetCb \/ NCleanup \/ NEnable \/ NDisable \/ NAdvance
        \/ NPassBegin \/ NDispatch \/ NSkip \/ NCbEnd \/ PassEnd
Spec == Init /\ [][Next]_vars

(* ------------------------------------------- properties ------------------------------------------------ *)
TypeOK == /\ now >= 0 /\ phase \in {"idle", "pass", "cb"} /\ cur \in T \cup {0} /\ (phase = "cb") = (cur # 0) /\ ready \subseteq T
          /\ (phase = "idle" => ready = {}) /\ ret \in BOOLEAN /\ ub \in BOOLEAN
          /\ \A i \in T : /\ tf[i].obj \in BOOLEAN /\ tf[i].inited \in BOOLEAN /\ tf[i].en \in BOOLEAN /\ tf[i].cbset \in BOOLEAN
                          /\ tf[i].fdev \in BOOLEAN /\ tf[i].arm \in BOOLEAN /\ tf[i].k >= 0 /\ tf[i].first >= 0 /\ tf[i].rep >= 0

\* the API flag, the FdEvent and the kernel timer agree: an enabled timer is initialised, watched and (first > 0) armed; a timer that
\* is not enabled is neither watched nor armed -- so isEnabled() tells whether the callback can still come
Consistent == \A i \in T : /\ (tf[i].en => tf[i].obj /\ tf[i].inited)
                           /\ (tf[i].en => tf[i].fdev /\ (tf[i].first > 0 => tf[i].arm))
                           /\ (~tf[i].en => ~tf[i].fdev /\ ~tf[i].arm)
\* never early: the k-th invocation since enable() (clock before the call: t0) is not before t0 + first + (k-1)*repeat; in particular
\* enabling again starts from the full configured interval
NeverEarly == lastfire.i # 0 => lastfire.t >= lastfire.gl + (lastfire.k - 1) * lastfire.rep
\* the callback only comes for a timer that exists, is initialised and was enabled immediately before: never after disable(),
\* cleanup(), re-initialisation without enable(), destruction
NoFireAfterDisable == lastfire.i # 0 => lastfire.wasObj /\ lastfire.wasInit /\ lastfire.wasEn
\* a one-shot (repeat = 0) reads as disabled from the first instruction of its callback (so enable() inside it arms it again) and is
\* invoked once per enable()
OneShotDisabledInCallback == lastfire.i # 0 /\ lastfire.stop => ~lastfire.enCb
OneShotOnce == \A i \in T : tf[i].rep = 0 /\ tf[i].en => tf[i].k = 0
\* a persistent timer (repeat > 0) is still enabled when its callback starts: it keeps firing until disable()
PersistKeepsFiring == lastfire.i # 0 /\ ~lastfire.stop => lastfire.enCb
\* the running callback is never destroyed under its feet (cleanup() / initialize() / setCallback() from inside it)
NoUB == ~ub
=============================================================================
