CONSTANTS
  T = {1, 2}
  Firsts = {0, 1, 2, 3}
  Repeats = {0, 1, 2}
  MaxNow = 1000
  MaxAdv = 3
  MaxCbOps = 2
  Margin = 0
  Variant = "intended"
  Depth = 24
  Preload = FALSE
  TopOps = {"create", "destroy", "init", "setcb", "cleanup", "enable", "disable"}
  CbOps = {"create", "destroy", "init", "setcb", "cleanup", "enable", "disable"}
SPECIFICATION GSpec
CONSTRAINT Emit
CHECK_DEADLOCK FALSE
