CONSTANTS
  T = {1}
  Firsts = {1, 2}
  Repeats = {0, 1}
  MaxNow = 4
  MaxAdv = 2
  MaxCbOps = 1
  Margin = 0
  Variant = "cb_destroyed"
SPECIFICATION Spec
INVARIANTS TypeOK NoUB
CHECK_DEADLOCK FALSE
