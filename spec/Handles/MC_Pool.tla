---- MODULE MC_Pool ----
EXTENDS PoolImpl
CONSTANT MaxAllocs
Bound == nctor <= MaxAllocs
====
