---------------------------- MODULE Trace_Pool ----------------------------
(* Trace validation for C08 / ObjectPool: each recorded alloc/free of the real pool must be the action of  *)
(* the handle-level specification Pool with the logged address; after every call the probe type's global    *)
(* constructor/destructor counters, the address the last constructor/destructor ran on, and the contents    *)
(* read back from EVERY complete object in use must be what the specification says.  Re-entrant calls are     *)
(* recorded as brackets: "cbeg" is logged by the element's constructor when it starts (with its own address),   *)
(* "cend" after alloc() returned that object (or its constructor threw); "dbeg" by the destructor when it        *)
(* starts, "dend" after free() returned; everything in between was called from inside.                           *)
EXTENDS Pool, Json, IOUtils
Log == ndJsonDeserialize(IOEnv.TRACE)
VARIABLE l
ASSUME TLCSet(42, 0)
tvars == <<pvars, l>>
Ev == Log[l]
IsEv(e) == l <= Len(Log) /\ Log[l].e = e /\ l' = l + 1
Post ==
  /\ Ev.ctor = nctor' /\ Ev.dtor = ndtor' /\ Ev.ca = lastC' /\ Ev.da = lastD'
  /\ Ev.bad = 0                                   \* no destructor found its object overwritten
  /\ Len(Ev.vals) = Cardinality(DOMAIN inUse')
  /\ \A j \in 1 .. Len(Ev.vals) : Ev.vals[j].a \in DOMAIN inUse' /\ inUse'[Ev.vals[j].a] = Ev.vals[j].v
  /\ \A i, j \in 1 .. Len(Ev.vals) : i # j => Ev.vals[i].a # Ev.vals[j].a
TInit == PInit /\ l = 1
TReset == IsEv("Reset") /\ inUse' = NoObjects /\ stk' = <<>> /\ nctor' = 0 /\ ndtor' = 0 /\ lastC' = 0 /\ lastD' = 0 /\ pfresh' = TRUE /\ exists' = FALSE
TNext ==
  \/ TReset
  \/ IsEv("pnew") /\ PNew /\ Post
  \/ IsEv("palloc") /\ PAlloc(Ev.a, Ev.v) /\ Post
  \/ IsEv("pfree") /\ PFree(Ev.a) /\ Post
  \/ IsEv("cbeg") /\ PCBeg(Ev.a, Ev.v) /\ Post
  \/ IsEv("cend") /\ PCEnd(Ev.a, Ev.th) /\ Post
  \/ IsEv("dbeg") /\ PDBeg(Ev.a) /\ Post
  \/ IsEv("dend") /\ PDEnd /\ Post
  \/ IsEv("pdel") /\ PDel /\ Post
TSpec == TInit /\ [][TNext]_tvars
Progress == TLCSet(42, IF l > TLCGet(42) THEN l ELSE TLCGet(42))
Accepted == IF TLCGet(42) = Len(Log) + 1 THEN TRUE ELSE PrintT(<<"MAXPOS", TLCGet(42), Len(Log)>>) /\ FALSE
=============================================================================
