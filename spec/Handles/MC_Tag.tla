---- MODULE MC_Tag ----
EXTENDS LifeTagImpl
CONSTANT MaxInc
Bound == ni <= MaxInc
====
