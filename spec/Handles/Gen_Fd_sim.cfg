CONSTANTS
  H = {1, 2, 3, 4}
  SelfAssignGuard = TRUE
  Reals = {FALSE, TRUE}
  Depth = 30
SPECIFICATION GSpec
CONSTRAINT EmitSim
CHECK_DEADLOCK FALSE
