--------------------------- MODULE Trace_Cabinet ---------------------------
(* Trace validation for C08 / Cabinet: every line of the recorded ndjson trace must be the corresponding   *)
(* action of the handle-level specification Cabinet with the logged token / return value, and after every  *)
(* step the real cabinet must report size()/empty() of the specification and resolve EVERY token ever      *)
(* issued in the execution (live and stale; the driver re-queries all of them after each call and logs      *)
(* those that resolve to a non-null object) exactly as the specification does.                              *)
EXTENDS Cabinet, Json, IOUtils
Log == ndJsonDeserialize(IOEnv.TRACE)
VARIABLE l
ASSUME TLCSet(42, 0)
tvars == <<avars, l>>

Ev == Log[l]
IsEv(e) == l <= Len(Log) /\ Log[l].e = e /\ l' = l + 1
T(r) == Tok(r.i, r.p)
Post ==
  LET exp == {[t |-> x, o |-> live'[x]] : x \in {y \in DOMAIN live' : live'[y] # 0}} IN
  /\ Ev.size = Cardinality(DOMAIN live') /\ Ev.empty = (DOMAIN live' = {})
  /\ Ev.nq = Cardinality((DOMAIN live') \cup dead')            \* every token issued so far was re-queried
  /\ Len(Ev.res) = Cardinality(exp)
  /\ \A j \in 1 .. Len(Ev.res) : [t |-> T(Ev.res[j].t), o |-> Ev.res[j].o] \in exp

TInit == AInit /\ l = 1
TReset == IsEv("Reset") /\ live' = NoEntries /\ dead' = {} /\ fresh' = TRUE /\ walking' = FALSE /\ vok' = TRUE /\ ret' = <<"init">>
TNext ==
  \/ TReset
  \/ IsEv("alloc") /\ AAlloc(T(Ev.tok), Ev.o) /\ Post
  \/ IsEv("update") /\ AUpdate(T(Ev.tok), Ev.o) /\ Ev.ret = ret'[2] /\ Post
  \/ IsEv("free") /\ AFree(T(Ev.tok)) /\ Ev.ret = ret'[2] /\ Post
  \/ IsEv("at") /\ AAt(T(Ev.tok)) /\ Ev.ret = ret'[2] /\ Post
  \/ IsEv("clear") /\ AClear /\ Post
  \/ IsEv("wbegin") /\ AWalkBegin /\ Post
  \/ IsEv("visit") /\ AVisit(Ev.o) /\ Post
  \/ IsEv("wend") /\ AWalkEnd /\ Post
TSpec == TInit /\ [][TNext]_tvars

Progress == TLCSet(42, IF l > TLCGet(42) THEN l ELSE TLCGet(42))
Accepted == IF TLCGet(42) = Len(Log) + 1 THEN TRUE ELSE PrintT(<<"MAXPOS", TLCGet(42), Len(Log)>>) /\ FALSE
=============================================================================
