------------------------------- MODULE Gen_Fd -------------------------------
(* Behaviour generator for C08 / Fd: every operation sequence of the implementation-shaped model up to      *)
(* Depth (BFS) or random deep ones (-simulate), as JSON scripts over handle slots.  `real` chooses between   *)
(* a handle with an injected close function (recorded) and one without (a real descriptor, ::close path).    *)
EXTENDS FdImpl, Json
CONSTANTS Depth, Reals
VARIABLES hist
gvars == <<vars, hist>>
H2(e, x, s) == hist' = Append(hist, [e |-> e, h |-> x, s |-> s])
GInit == Init /\ hist = <<>>
\* slots are interchangeable: objects are created in the lowest free slot only
Lowest(x) == \A y \in H : y < x => Present(y)
GNext ==
  \E x \in H :
    \/ \E r \in Reals : Lowest(x) /\ New(x) /\ hist' = Append(hist, [e |-> "fnew", h |-> x, s |-> 0, real |-> r])
    \/ Lowest(x) /\ Null(x) /\ H2("fnull", x, 0)
    \/ Reset(x) /\ H2("freset", x, 0)
    \/ Close(x) /\ H2("fclose", x, 0)
    \/ Del(x) /\ H2("fdel", x, 0)
    \/ \E s \in H : \/ Lowest(x) /\ CopyC(x, s) /\ H2("fcopyc", x, s)
                    \/ Lowest(x) /\ MoveC(x, s) /\ H2("fmovec", x, s)
                    \/ CopyA(x, s) /\ H2("fcopya", x, s)
                    \/ MoveA(x, s) /\ H2("fmovea", x, s)
                    \/ Swap(x, s) /\ H2("fswap", x, s)
GSpec == GInit /\ [][GNext]_gvars
Emit == IF Len(hist) >= Depth THEN PrintT("BEH " \o ToJson(hist)) /\ FALSE ELSE TRUE
\* -simulate: one script per random trace (the run is cut by -depth just after Depth operations)
EmitSim == IF Len(hist) = Depth THEN PrintT("BEH " \o ToJson(hist)) ELSE TRUE
=============================================================================
