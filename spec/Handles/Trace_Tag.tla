----------------------------- MODULE Trace_Tag -----------------------------
(* Trace validation for the LifetimeTag extension of C08: each recorded operation on real LifetimeTag /      *)
(* Watcher objects must be the action of the handle-level specification LifeTag, and after every operation    *)
(* EVERY watcher must report isAlive() / operator bool exactly as the specification says.                     *)
EXTENDS LifeTag, Json, IOUtils
Log == ndJsonDeserialize(IOEnv.TRACE)
VARIABLE l
ASSUME TLCSet(42, 0)
tvars == <<tvars0, l>>
Ev == Log[l]
IsEv(e) == l <= Len(Log) /\ Log[l].e = e /\ l' = l + 1
AliveP(y) == wat'[y] >= 1 /\ \E x \in TS : tag'[x] = wat'[y]
Post == /\ \A x \in TS : Ev.ta[x] = (tag'[x] # NoTag)
        /\ \A y \in WS : LET o == Ev.st[y] IN
             /\ o.a = (wat'[y] # WAbsent)
             /\ o.v = AliveP(y)
             /\ o.a => o.b = AliveP(y)
TInit == LInit /\ l = 1
TReset == IsEv("Reset") /\ (\A x \in TS : tag[x] = NoTag) /\ (\A y \in WS : wat[y] = WAbsent) /\ UNCHANGED <<tag, wat>> /\ ni' = 0
TNext ==
  \/ TReset
  \/ IsEv("tnew") /\ LTagNew(Ev.x) /\ Post
  \/ IsEv("tcopyc") /\ LTagCopyC(Ev.x, Ev.s) /\ Post
  \/ IsEv("tmovec") /\ LTagCopyC(Ev.x, Ev.s) /\ Post
  \/ IsEv("tassign") /\ LTagAssign(Ev.x, Ev.s) /\ Post
  \/ IsEv("tmassign") /\ LTagAssign(Ev.x, Ev.s) /\ Post
  \/ IsEv("tdel") /\ LTagDel(Ev.x) /\ Post
  \/ IsEv("wnull") /\ LWNull(Ev.y) /\ Post
  \/ IsEv("wtag") /\ LWFromTag(Ev.y, Ev.x) /\ Post
  \/ IsEv("wget") /\ LWFromTag(Ev.y, Ev.x) /\ Post
  \/ IsEv("wcopyc") /\ LWCopyC(Ev.y, Ev.s) /\ Post
  \/ IsEv("wmovec") /\ LWMoveC(Ev.y, Ev.s) /\ Post
  \/ IsEv("wasgt") /\ LWAssignTag(Ev.y, Ev.x) /\ Post
  \/ IsEv("wcopya") /\ LWCopyA(Ev.y, Ev.s) /\ Post
  \/ IsEv("wmovea") /\ LWMoveA(Ev.y, Ev.s) /\ Post
  \/ IsEv("wswap") /\ LWSwap(Ev.y, Ev.s) /\ Post
  \/ IsEv("wreset") /\ LWReset(Ev.y) /\ Post
  \/ IsEv("wdel") /\ LWDel(Ev.y) /\ Post
TSpec == TInit /\ [][TNext]_tvars
Progress == TLCSet(42, IF l > TLCGet(42) THEN l ELSE TLCGet(42))
Accepted == IF TLCGet(42) = Len(Log) + 1 THEN TRUE ELSE PrintT(<<"MAXPOS", TLCGet(42), Len(Log)>>) /\ FALSE
=============================================================================
