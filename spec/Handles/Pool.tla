------------------------------- MODULE Pool -------------------------------
(* C08 - handle-level specification of tbox::ObjectPool<T>.                  *)
(* An object is named by the address of its storage.  What the property      *)
(* demands of every alloc/free history, for any retention limit:             *)
(*   - alloc never hands out storage that is still in use;                    *)
(*   - every alloc runs exactly one constructor (on the storage it returns),  *)
(*     every free exactly one destructor (on the object given back), and no   *)
(*     constructor or destructor runs otherwise;                              *)
(*   - objects in use keep their contents (nobody else writes their storage). *)
(* Which address alloc returns, and how many blocks are retained, is open.    *)
EXTENDS Integers, FiniteSets, Sequences, TLC

VARIABLES inUse,    \* address -> value of every object in use
          nctor,    \* constructors that must have run so far
          ndtor,    \* destructors that must have run so far
          lastC,    \* address the last constructor must have run on (0 = none yet)
          lastD,    \* address the last destructor must have run on (0 = none yet)
          pfresh,   \* FALSE iff some alloc returned null or storage that was in use
          exists    \* the pool object exists
pvars == <<inUse, nctor, ndtor, lastC, lastD, pfresh, exists>>
NoObjects == [a \in {} |-> 0]

PInit == inUse = NoObjects /\ nctor = 0 /\ ndtor = 0 /\ lastC = 0 /\ lastD = 0 /\ pfresh = TRUE /\ exists = FALSE

PNew == ~exists /\ exists' = TRUE /\ UNCHANGED <<inUse, nctor, ndtor, lastC, lastD, pfresh>>
PAlloc(a, v) ==
  /\ exists
  /\ pfresh' = (pfresh /\ a # 0 /\ a \notin DOMAIN inUse)
  /\ inUse' = [x \in (DOMAIN inUse) \cup {a} |-> IF x = a THEN v ELSE inUse[x]]
  /\ nctor' = nctor + 1 /\ lastC' = a /\ UNCHANGED <<ndtor, lastD, exists>>
PFree(a) ==
  /\ exists /\ a \in DOMAIN inUse                  \* callers only give back objects they hold
  /\ inUse' = [x \in (DOMAIN inUse) \ {a} |-> inUse[x]]
  /\ ndtor' = ndtor + 1 /\ lastD' = a /\ UNCHANGED <<nctor, lastC, pfresh, exists>>
PDel == exists /\ inUse = NoObjects /\ exists' = FALSE /\ UNCHANGED <<inUse, nctor, ndtor, lastC, lastD, pfresh>>

NeverHandsOutInUse == pfresh
=============================================================================
