------------------------------- MODULE Pool -------------------------------
(* C08 - handle-level specification of tbox::ObjectPool<T>.                  *)
(* An object is named by the address of its storage.  What the property      *)
(* demands of every alloc/free history, for any retention limit:             *)
(*   - alloc never hands out storage that is still in use - and storage is   *)
(*     in use from the moment its constructor STARTS until its destructor    *)
(*     has RETURNED;                                                          *)
(*   - every alloc runs exactly one constructor (on the storage it returns),  *)
(*     every free exactly one destructor (on the object given back), and no   *)
(*     constructor or destructor runs otherwise;                              *)
(*   - objects in use keep their contents (nobody else writes their storage). *)
(* Which address alloc returns, and how many blocks are retained, is open.    *)
(*                                                                            *)
(* alloc() and free() are RE-ENTRANT: T's constructor / destructor may call   *)
(* alloc()/free() of the same pool (a pooled node that owns pooled children). *)
(* A call is therefore either atomic (PAlloc, PFree: the constructor /        *)
(* destructor does not touch the pool) or split into PCBeg .. PCEnd /         *)
(* PDBeg .. PDEnd with further calls in between; `stk` is the stack of        *)
(* objects whose constructor ("c") or destructor ("d") is running.  A         *)
(* constructor may also throw (PCEnd(.., TRUE)): alloc() then returns no      *)
(* object and no destructor is owed; what happens to the block is the pool's  *)
(* business (not prescribed).                                                  *)
EXTENDS Integers, FiniteSets, Sequences, TLC

VARIABLES inUse,    \* address -> value of every complete object in use
          stk,      \* stack of [k, a, v]: objects under construction (k = "c") / under destruction (k = "d"), innermost last
          nctor,    \* constructors that must have started so far
          ndtor,    \* destructors that must have started so far
          lastC,    \* address the last constructor must have run on (0 = none yet)
          lastD,    \* address the last destructor must have run on (0 = none yet)
          pfresh,   \* FALSE iff some alloc returned null or storage that was in use (incl. under construction / destruction)
          exists    \* the pool object exists
pvars == <<inUse, stk, nctor, ndtor, lastC, lastD, pfresh, exists>>
NoObjects == [a \in {} |-> 0]
Busy == {stk[i].a : i \in DOMAIN stk}               \* storage whose constructor / destructor is running
Occupied == (DOMAIN inUse) \cup Busy                \* storage that must not be handed out
With(f, a, v) == [x \in (DOMAIN f) \cup {a} |-> IF x = a THEN v ELSE f[x]]
Without(f, a) == [x \in (DOMAIN f) \ {a} |-> f[x]]
Top == stk[Len(stk)]
Pop == SubSeq(stk, 1, Len(stk) - 1)

PInit == /\ inUse = NoObjects /\ stk = <<>> /\ nctor = 0 /\ ndtor = 0 /\ lastC = 0 /\ lastD = 0 /\ pfresh = TRUE
         /\ exists = FALSE

PNew == ~exists /\ stk = <<>> /\ exists' = TRUE /\ UNCHANGED <<inUse, stk, nctor, ndtor, lastC, lastD, pfresh>>
\* atomic alloc: constructor runs and returns without touching the pool
PAlloc(a, v) ==
  /\ exists
  /\ pfresh' = (pfresh /\ a # 0 /\ a \notin Occupied)
  /\ inUse' = With(inUse, a, v)
  /\ nctor' = nctor + 1 /\ lastC' = a /\ UNCHANGED <<stk, ndtor, lastD, exists>>
\* atomic free
PFree(a) ==
  /\ exists /\ a \in DOMAIN inUse                  \* callers only give back complete objects they hold
  /\ inUse' = Without(inUse, a)
  /\ ndtor' = ndtor + 1 /\ lastD' = a /\ UNCHANGED <<stk, nctor, lastC, pfresh, exists>>
\* alloc() has chosen storage a and T's constructor has started on it
PCBeg(a, v) ==
  /\ exists
  /\ pfresh' = (pfresh /\ a # 0 /\ a \notin Occupied)
  /\ stk' = Append(stk, [k |-> "c", a |-> a, v |-> v])
  /\ nctor' = nctor + 1 /\ lastC' = a /\ UNCHANGED <<inUse, ndtor, lastD, exists>>
\* the innermost running constructor returns (alloc returns r, which must be its storage) or throws (alloc returns nothing)
PCEnd(r, thrown) ==
  /\ stk # <<>> /\ Top.k = "c"
  /\ stk' = Pop
  /\ IF thrown THEN inUse' = inUse /\ pfresh' = pfresh
     ELSE inUse' = With(inUse, Top.a, Top.v) /\ pfresh' = (pfresh /\ r = Top.a)
  /\ UNCHANGED <<nctor, ndtor, lastC, lastD, exists>>
\* free(a): T's destructor has started
PDBeg(a) ==
  /\ exists /\ a \in DOMAIN inUse
  /\ inUse' = Without(inUse, a)
  /\ stk' = Append(stk, [k |-> "d", a |-> a, v |-> inUse[a]])
  /\ ndtor' = ndtor + 1 /\ lastD' = a /\ UNCHANGED <<nctor, lastC, pfresh, exists>>
\* the innermost running destructor has returned and free() with it: only now may the storage be handed out again
PDEnd ==
  /\ stk # <<>> /\ Top.k = "d"
  /\ stk' = Pop /\ UNCHANGED <<inUse, nctor, ndtor, lastC, lastD, pfresh, exists>>
PDel == exists /\ inUse = NoObjects /\ stk = <<>> /\ exists' = FALSE /\ UNCHANGED <<inUse, stk, nctor, ndtor, lastC, lastD, pfresh>>

NeverHandsOutInUse == pfresh
=============================================================================
