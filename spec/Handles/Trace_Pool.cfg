SPECIFICATION TSpec
CONSTRAINT Progress
POSTCONDITION Accepted
INVARIANTS NeverHandsOutInUse
CHECK_DEADLOCK FALSE
