CONSTANTS
  H = {1, 2, 3, 4}
SPECIFICATION TSpec
CONSTRAINT Progress
POSTCONDITION Accepted
INVARIANTS UnreferencedAreClosed
CHECK_DEADLOCK FALSE
