SPECIFICATION TSpec
CONSTRAINT Progress
POSTCONDITION Accepted
INVARIANTS DistinctTokens StaleStayDead VisitsLive
CHECK_DEADLOCK FALSE
