CONSTANTS
  TS = {1, 2}
  WS = {1, 2, 3}
  NullSafe = TRUE
  MaxInc = 4
SPECIFICATION Spec
CONSTRAINT Bound
INVARIANTS WatchersAgree NoDangling CounterExact NoNullDeref
CHECK_DEADLOCK FALSE
