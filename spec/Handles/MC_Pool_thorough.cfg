CONSTANTS
  Addrs = {1, 2, 3, 4, 5}
  Keeps = {99, 0, 1, 2, 3}
  Vals = {1}
  Variant = "intended"
  MaxDepth = 2
  Throws = {FALSE, TRUE}
  MaxAllocs = 5
SPECIFICATION Spec
CONSTRAINT Bound
INVARIANTS NeverHandsOutInUse CtorDtorBalanced ParkedSound ParkedBounded NoWildAccess
CHECK_DEADLOCK FALSE
