CONSTANTS
  TS = {1, 2, 3}
  WS = {1, 2, 3, 4}
SPECIFICATION TSpec
CONSTRAINT Progress
POSTCONDITION Accepted
CHECK_DEADLOCK FALSE
