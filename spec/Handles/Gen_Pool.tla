------------------------------ MODULE Gen_Pool ------------------------------
(* Behaviour generator for C08 / ObjectPool: alloc/free scripts of the implementation-shaped model for     *)
(* every retention limit in Keeps.  Objects are named by their allocation index j (the j-th constructor     *)
(* that started), so a script does not depend on which addresses the real allocator returns.                 *)
(* Re-entrant calls are the flat bracketed sequences  cbeg(v) ... cend(th)  and  dbeg(j) ... dend : the      *)
(* driver makes the calls listed between the brackets from INSIDE the constructor / destructor of the real   *)
(* element type (and lets the constructor throw if th).  An empty bracket pair is not generated (it is the   *)
(* atomic palloc / pfree).                                                                                    *)
EXTENDS PoolImpl, Json
CONSTANTS Depth, Types
VARIABLES hist, idx       \* idx: address -> allocation index of the object living there
gvars == <<vars, hist, idx>>
H(r) == hist' = Append(hist, r)
LastIs(e) == hist # <<>> /\ hist[Len(hist)].e = e
GInit == Init /\ hist = <<>> /\ idx = [a \in Addrs |-> 0]
GNew == \E k \in Keeps, ty \in Types : New(k) /\ H([e |-> "pnew", keep |-> (IF k = 99 THEN 0 - 1 ELSE k), ty |-> ty]) /\ UNCHANGED idx
GAlloc == \E v \in Vals : Alloc(v) /\ H([e |-> "palloc", v |-> v]) /\ idx' = [idx EXCEPT ![lastC'] = nctor']
GFree == \E a \in DOMAIN inUse : Free(a) /\ H([e |-> "pfree", j |-> idx[a]]) /\ UNCHANGED idx
GCBeg == \E v \in Vals : AllocBegin(v) /\ H([e |-> "cbeg", v |-> v]) /\ idx' = [idx EXCEPT ![lastC'] = nctor']
GCEnd == \E th \in Throws : (th \/ ~LastIs("cbeg")) /\ AllocEnd(th) /\ H([e |-> "cend", th |-> th]) /\ UNCHANGED idx
GDBeg == \E a \in DOMAIN inUse : FreeBegin(a) /\ H([e |-> "dbeg", j |-> idx[a]]) /\ UNCHANGED idx
GDEnd == ~LastIs("dbeg") /\ FreeEnd /\ H([e |-> "dend"]) /\ UNCHANGED idx
GNext == GNew \/ GAlloc \/ GFree \/ GCBeg \/ GCEnd \/ GDBeg \/ GDEnd
GSpec == GInit /\ [][GNext]_gvars
Emit == IF Len(hist) >= Depth THEN PrintT("BEH " \o ToJson(hist)) /\ FALSE ELSE TRUE
\* -simulate: one script per random trace (the run is cut by -depth just after Depth operations)
EmitSim == IF Len(hist) = Depth THEN PrintT("BEH " \o ToJson(hist)) ELSE TRUE
=============================================================================
