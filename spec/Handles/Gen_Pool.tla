------------------------------ MODULE Gen_Pool ------------------------------
(* Behaviour generator for C08 / ObjectPool: alloc/free scripts of the implementation-shaped model for     *)
(* every retention limit in Keeps.  Objects are named by their allocation index j, so a script does not     *)
(* depend on which addresses the real allocator returns.                                                    *)
EXTENDS PoolImpl, Json
CONSTANTS Depth, Types
VARIABLES hist, idx       \* idx: address -> allocation index of the object living there
gvars == <<vars, hist, idx>>
H(r) == hist' = Append(hist, r)
GInit == Init /\ hist = <<>> /\ idx = [a \in Addrs |-> 0]
GNew == \E k \in Keeps, ty \in Types : New(k) /\ H([e |-> "pnew", keep |-> (IF k = 99 THEN 0 - 1 ELSE k), ty |-> ty]) /\ UNCHANGED idx
GAlloc == \E v \in Vals : Alloc(v) /\ H([e |-> "palloc", v |-> v]) /\ idx' = [idx EXCEPT ![lastC'] = nctor']
GFree == \E a \in DOMAIN inUse : Free(a) /\ H([e |-> "pfree", j |-> idx[a]]) /\ UNCHANGED idx
GNext == GNew \/ GAlloc \/ GFree
GSpec == GInit /\ [][GNext]_gvars
Emit == IF Len(hist) >= Depth THEN PrintT("BEH " \o ToJson(hist)) /\ FALSE ELSE TRUE
\* -simulate: one script per random trace (the run is cut by -depth just after Depth operations)
EmitSim == IF Len(hist) = Depth THEN PrintT("BEH " \o ToJson(hist)) ELSE TRUE
=============================================================================
