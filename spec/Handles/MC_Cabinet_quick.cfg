CONSTANTS
  Objs = {0, 1, 2}
  ClearResetsId = FALSE
  MaxAllocs = 4
  MaxCells = 3
SPECIFICATION Spec
CONSTRAINT Bound
INVARIANTS DeadResolvesToNothing LiveResolves DistinctTokens StaleStayDead SizeIsLiveCount RetAgree CellsMatchLive FreeListWellFormed IdsBelowLast VisitsLive
CHECK_DEADLOCK FALSE
