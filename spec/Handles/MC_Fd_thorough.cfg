CONSTANTS
  H = {1, 2, 3, 4}
  SelfAssignGuard = TRUE
  MaxFds = 4
  MaxRecs = 4
SPECIFICATION Spec
CONSTRAINT Bound
INVARIANTS ClosesAsSpecified ClosedExactlyOnce NeverEarly HandlesAgree RefExact NoDangling UnreferencedAreClosed
CHECK_DEADLOCK FALSE
