---- MODULE MC_Fd ----
EXTENDS FdImpl
CONSTANT MaxFds, MaxRecs
Bound == ns <= MaxFds /\ Len(recs) <= MaxRecs
====
