----------------------------- MODULE FdHandle -----------------------------
(* C08 - handle-level specification of tbox::util::Fd, a shared handle on a descriptor.               *)
(* Every constructed descriptor gets a serial number k = 1, 2, ...  A handle slot is absent, null or    *)
(* refers to a serial.  What the property demands of every history of construct / copy / move /          *)
(* assign / swap / reset / close / destroy operations:                                                    *)
(*   the descriptor k is closed EXACTLY ONCE: by the first close() on a handle that refers to it, or -    *)
(*   if nobody called close() - by the operation that makes the last handle referring to it go away;      *)
(*   never earlier, never again.                                                                           *)
(* `lastcl` is the set of serials an operation must close (compared with the close calls observed        *)
(* during that very operation); get() of a handle is its serial while that is open, otherwise "none" (0). *)
EXTENDS Integers, FiniteSets, Sequences, TLC
CONSTANT H                  \* handle slots
Absent == 0 - 2
NullH == 0 - 1
VARIABLES href,             \* slot -> Absent | NullH | serial (>= 1)
          closed,           \* serials that are closed
          ns,               \* serials handed out so far
          lastcl            \* serials the last operation had to close
fvars == <<href, closed, ns, lastcl>>
Present(x) == href[x] # Absent
IsSerial(v) == v >= 1
Refs(hr, k) == {x \in H : hr[x] = k}
Get(x) == IF IsSerial(href[x]) /\ href[x] \notin closed THEN href[x] ELSE 0

FInit == href = [x \in H |-> Absent] /\ closed = {} /\ ns = 0 /\ lastcl = {}

\* the handles become nh, the serials in expl are closed explicitly: every serial that loses its last handle
\* or is closed explicitly is closed now unless it was closed before
Step(nh, expl, n2) ==
  LET gone == {k \in 1 .. ns : Refs(href, k) # {} /\ Refs(nh, k) = {}}
      cl == (gone \cup expl) \ closed
  IN href' = nh /\ closed' = closed \cup cl /\ lastcl' = cl /\ ns' = n2
Set1(x, v) == [href EXCEPT ![x] = v]
Set2(x, v, y, w) == [href EXCEPT ![x] = v, ![y] = w]

FNew(x) == ~Present(x) /\ Step(Set1(x, ns + 1), {}, ns + 1)
FNull(x) == ~Present(x) /\ Step(Set1(x, NullH), {}, ns)
FCopyC(x, s) == ~Present(x) /\ Present(s) /\ Step(Set1(x, href[s]), {}, ns)
FMoveC(x, s) == ~Present(x) /\ Present(s) /\ x # s /\ Step(Set2(x, href[s], s, NullH), {}, ns)
FCopyA(x, s) == Present(x) /\ Present(s) /\ Step(Set1(x, href[s]), {}, ns)
FMoveA(x, s) == Present(x) /\ Present(s) /\ Step(IF x = s THEN href ELSE Set2(x, href[s], s, NullH), {}, ns)
FSwap(x, s) == Present(x) /\ Present(s) /\ Step(Set2(x, href[s], s, href[x]), {}, ns)
FReset(x) == Present(x) /\ Step(Set1(x, NullH), {}, ns)
FClose(x) == Present(x) /\ Step(href, IF IsSerial(href[x]) THEN {href[x]} ELSE {}, ns)
FDel(x) == Present(x) /\ Step(Set1(x, Absent), {}, ns)

\* by construction of Step: a descriptor nobody refers to is closed, and lastcl never contains a closed one
UnreferencedAreClosed == \A k \in 1 .. ns : Refs(href, k) = {} => k \in closed
=============================================================================
