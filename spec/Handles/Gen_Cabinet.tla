---------------------------- MODULE Gen_Cabinet ----------------------------
(* Behaviour generator for C08 / Cabinet: every operation sequence of the implementation-shaped model up   *)
(* to Depth (BFS) or random deep ones (-simulate) is printed as a JSON script.  Tokens are named by their   *)
(* issue index k (k = 0: the null token), so a script does not depend on which token values the real code   *)
(* hands out.  The C++ driver executes each script on a real Cabinet (the calls listed after a "visit" are   *)
(* made from inside that callback of the real foreach()); the recorded trace is validated by Trace_Cabinet. *)
EXTENDS CabinetImpl, Json
CONSTANTS Depth, MaxCells, WithAt     \* WithAt = FALSE: no explicit at() and no calls on the null token (BFS scripts)
VARIABLES hist, iss
gvars == <<vars, hist, iss>>
Op(e, k, o) == [e |-> e, k |-> k, o |-> o]
H(e, k, o) == hist' = Append(hist, Op(e, k, o))
TokOf(k) == IF k = 0 THEN NullTok ELSE iss[k]
Ks == (IF WithAt THEN 0 ELSE 1) .. Len(iss)
GInit == Init /\ hist = <<>> /\ iss = <<>>
GAlloc == \E o \in Objs : /\ (Len(cells) < MaxCells \/ firstFree # NOPOS)
                          /\ Alloc(o) /\ H("alloc", 0, o) /\ iss' = Append(iss, iret'[2])
GUpdate == \E k \in Ks, o \in Objs : Update(TokOf(k), o) /\ H("update", k, o) /\ UNCHANGED iss
GFree == \E k \in Ks : Free(TokOf(k)) /\ H("free", k, 0) /\ UNCHANGED iss
GAt == WithAt /\ \E k \in Ks : At(TokOf(k)) /\ H("at", k, 0) /\ UNCHANGED iss
GClear == Clear /\ H("clear", 0, 0) /\ UNCHANGED iss
GWalkBegin == WalkBegin /\ H("wbegin", 0, 0) /\ UNCHANGED iss
GWalkStep == WalkStep /\ UNCHANGED iss /\ IF Cell(wi).id # 0 THEN H("visit", 0, 0) ELSE UNCHANGED hist
GWalkEnd == WalkEnd /\ H("wend", 0, 0) /\ UNCHANGED iss
GNext == GAlloc \/ GUpdate \/ GFree \/ GAt \/ GClear \/ GWalkBegin \/ GWalkStep \/ GWalkEnd
GSpec == GInit /\ [][GNext]_gvars
Emit == IF Len(hist) >= Depth THEN PrintT("BEH " \o ToJson(hist)) /\ FALSE ELSE TRUE
\* -simulate: one script per random trace (the run is cut by -depth just after Depth operations)
EmitSim == IF Len(hist) = Depth THEN PrintT("BEH " \o ToJson(hist)) ELSE TRUE
=============================================================================
