CONSTANTS
  TS = {1, 2, 3}
  WS = {1, 2, 3, 4}
  NullSafe = TRUE
  Depth = 30
SPECIFICATION GSpec
CONSTRAINT EmitSim
CHECK_DEADLOCK FALSE
