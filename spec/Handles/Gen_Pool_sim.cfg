CONSTANTS
  Addrs = {1, 2, 3, 4, 5, 6}
  Keeps = {99, 0, 1, 2, 3, 4}
  Vals = {1, 2, 3}
  Types = {"big", "small"}
  Variant = "intended"
  MaxDepth = 2
  Throws = {FALSE, TRUE}
  Depth = 40
SPECIFICATION GSpec
CONSTRAINT EmitSim
CHECK_DEADLOCK FALSE
