---- MODULE MC_Cabinet_TTrace_1790991338 ----
EXTENDS Sequences, MC_Cabinet, TLCExt, Toolbox, Naturals, TLC

_expression ==
    LET MC_Cabinet_TEExpression == INSTANCE MC_Cabinet_TEExpression
    IN MC_Cabinet_TEExpression!expression
----

_trace ==
    LET MC_Cabinet_TETrace == INSTANCE MC_Cabinet_TETrace
    IN MC_Cabinet_TETrace!trace
----

_inv ==
    ~(
        TLCGet("level") = Len(_TETrace)
        /\
        ret = (<<"alloc", [p |-> 0, i |-> 1]>>)
        /\
        wi = (-1)
        /\
        cells = (<<[id |-> 1, v |-> 1]>>)
        /\
        vok = (TRUE)
        /\
        walking = (FALSE)
        /\
        count = (1)
        /\
        iret = (<<"alloc", [p |-> 0, i |-> 1]>>)
        /\
        lastId = (1)
        /\
        dead = ({[p |-> 0, i |-> 1]})
        /\
        firstFree = (-1)
        /\
        fresh = (FALSE)
        /\
        live = (([p |-> 0, i |-> 1] :> 1))
    )
----

_init ==
    /\ cells = _TETrace[1].cells
    /\ fresh = _TETrace[1].fresh
    /\ firstFree = _TETrace[1].firstFree
    /\ vok = _TETrace[1].vok
    /\ ret = _TETrace[1].ret
    /\ walking = _TETrace[1].walking
    /\ count = _TETrace[1].count
    /\ iret = _TETrace[1].iret
    /\ lastId = _TETrace[1].lastId
    /\ dead = _TETrace[1].dead
    /\ live = _TETrace[1].live
    /\ wi = _TETrace[1].wi
----

_next ==
    /\ \E i,j \in DOMAIN _TETrace:
        /\ \/ /\ j = i + 1
              /\ i = TLCGet("level")
        /\ cells  = _TETrace[i].cells
        /\ cells' = _TETrace[j].cells
        /\ fresh  = _TETrace[i].fresh
        /\ fresh' = _TETrace[j].fresh
        /\ firstFree  = _TETrace[i].firstFree
        /\ firstFree' = _TETrace[j].firstFree
        /\ vok  = _TETrace[i].vok
        /\ vok' = _TETrace[j].vok
        /\ ret  = _TETrace[i].ret
        /\ ret' = _TETrace[j].ret
        /\ walking  = _TETrace[i].walking
        /\ walking' = _TETrace[j].walking
        /\ count  = _TETrace[i].count
        /\ count' = _TETrace[j].count
        /\ iret  = _TETrace[i].iret
        /\ iret' = _TETrace[j].iret
        /\ lastId  = _TETrace[i].lastId
        /\ lastId' = _TETrace[j].lastId
        /\ dead  = _TETrace[i].dead
        /\ dead' = _TETrace[j].dead
        /\ live  = _TETrace[i].live
        /\ live' = _TETrace[j].live
        /\ wi  = _TETrace[i].wi
        /\ wi' = _TETrace[j].wi

\* Uncomment the ASSUME below to write the states of the error trace
\* to the given file in Json format. Note that you can pass any tuple
\* to `JsonSerialize`. For example, a sub-sequence of _TETrace.
    \* ASSUME
    \*     LET J == INSTANCE Json
    \*         IN J!JsonSerialize("MC_Cabinet_TTrace_1790991338.json", _TETrace)

=============================================================================

 Note that you can extract this module `MC_Cabinet_TEExpression`
  to a dedicated file to reuse `expression` (the module in the 
  dedicated `MC_Cabinet_TEExpression.tla` file takes precedence 
  over the module `MC_Cabinet_TEExpression` below).

---- MODULE MC_Cabinet_TEExpression ----
EXTENDS Sequences, MC_Cabinet, TLCExt, Toolbox, Naturals, TLC

expression == 
    [
        \* To hide variables of the `MC_Cabinet` spec from the error trace,
        \* remove the variables below.  The trace will be written in the order
        \* of the fields of this record.
        cells |-> cells
        ,fresh |-> fresh
        ,firstFree |-> firstFree
        ,vok |-> vok
        ,ret |-> ret
        ,walking |-> walking
        ,count |-> count
        ,iret |-> iret
        ,lastId |-> lastId
        ,dead |-> dead
        ,live |-> live
        ,wi |-> wi
        
        \* Put additional constant-, state-, and action-level expressions here:
        \* ,_stateNumber |-> _TEPosition
        \* ,_cellsUnchanged |-> cells = cells'
        
        \* Format the `cells` variable as Json value.
        \* ,_cellsJson |->
        \*     LET J == INSTANCE Json
        \*     IN J!ToJson(cells)
        
        \* Lastly, you may build expressions over arbitrary sets of states by
        \* leveraging the _TETrace operator.  For example, this is how to
        \* count the number of times a spec variable changed up to the current
        \* state in the trace.
        \* ,_cellsModCount |->
        \*     LET F[s \in DOMAIN _TETrace] ==
        \*         IF s = 1 THEN 0
        \*         ELSE IF _TETrace[s].cells # _TETrace[s-1].cells
        \*             THEN 1 + F[s-1] ELSE F[s-1]
        \*     IN F[_TEPosition - 1]
    ]

=============================================================================



Parsing and semantic processing can take forever if the trace below is long.
 In this case, it is advised to uncomment the module below to deserialize the
 trace from a generated binary file.

\*
\*---- MODULE MC_Cabinet_TETrace ----
\*EXTENDS IOUtils, MC_Cabinet, TLC
\*
\*trace == IODeserialize("MC_Cabinet_TTrace_1790991338.bin", TRUE)
\*
\*=============================================================================
\*

---- MODULE MC_Cabinet_TETrace ----
EXTENDS MC_Cabinet, TLC

trace == 
    <<
    ([ret |-> <<"init">>,wi |-> -1,cells |-> <<>>,vok |-> TRUE,walking |-> FALSE,count |-> 0,iret |-> <<"init">>,lastId |-> 0,dead |-> {},firstFree |-> -1,fresh |-> TRUE,live |-> <<>>]),
    ([ret |-> <<"alloc", [p |-> 0, i |-> 1]>>,wi |-> -1,cells |-> <<[id |-> 1, v |-> 1]>>,vok |-> TRUE,walking |-> FALSE,count |-> 1,iret |-> <<"alloc", [p |-> 0, i |-> 1]>>,lastId |-> 1,dead |-> {},firstFree |-> -1,fresh |-> TRUE,live |-> ([p |-> 0, i |-> 1] :> 1)]),
    ([ret |-> <<"clear">>,wi |-> -1,cells |-> <<>>,vok |-> TRUE,walking |-> FALSE,count |-> 0,iret |-> <<"clear">>,lastId |-> 0,dead |-> {[p |-> 0, i |-> 1]},firstFree |-> -1,fresh |-> TRUE,live |-> <<>>]),
    ([ret |-> <<"alloc", [p |-> 0, i |-> 1]>>,wi |-> -1,cells |-> <<[id |-> 1, v |-> 1]>>,vok |-> TRUE,walking |-> FALSE,count |-> 1,iret |-> <<"alloc", [p |-> 0, i |-> 1]>>,lastId |-> 1,dead |-> {[p |-> 0, i |-> 1]},firstFree |-> -1,fresh |-> FALSE,live |-> ([p |-> 0, i |-> 1] :> 1)])
    >>
----


=============================================================================

---- CONFIG MC_Cabinet_TTrace_1790991338 ----
CONSTANTS
    Objs = { 0 , 1 , 2 }
    ClearResetsId = TRUE
    MaxAllocs = 4
    MaxCells = 3

INVARIANT
    _inv

CHECK_DEADLOCK
    \* CHECK_DEADLOCK off because of PROPERTY or INVARIANT above.
    FALSE

INIT
    _init

NEXT
    _next

CONSTANT
    _TETrace <- _trace

ALIAS
    _expression
=============================================================================
\* Generated on Sat Oct 03 01:35:40 UTC 2026