CONSTANTS
  Objs = {0, 1, 2, 3}
  ClearResetsId = FALSE
  MaxCells = 4
  WithAt = TRUE
  Depth = 30
SPECIFICATION GSpec
CONSTRAINT EmitSim
CHECK_DEADLOCK FALSE
