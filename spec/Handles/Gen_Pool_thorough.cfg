CONSTANTS
  Addrs = {1, 2, 3, 4}
  Keeps = {99, 0, 1, 2}
  Vals = {7}
  Types = {"big", "small"}
  Variant = "intended"
  MaxDepth = 2
  Throws = {FALSE, TRUE}
  Depth = 8
SPECIFICATION GSpec
CONSTRAINT Emit
CHECK_DEADLOCK FALSE
