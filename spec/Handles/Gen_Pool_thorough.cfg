CONSTANTS
  Addrs = {1, 2, 3, 4}
  Keeps = {99, 0, 1, 2}
  Vals = {7}
  Types = {"big", "small"}
  Variant = "intended"
  Depth = 11
SPECIFICATION GSpec
CONSTRAINT Emit
CHECK_DEADLOCK FALSE
