CONSTANTS
  TS = {1, 2}
  WS = {1, 2, 3}
  NullSafe = TRUE
  Depth = 5
SPECIFICATION GSpec
CONSTRAINT Emit
CHECK_DEADLOCK FALSE
