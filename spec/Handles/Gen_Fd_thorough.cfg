CONSTANTS
  H = {1, 2, 3}
  SelfAssignGuard = TRUE
  Reals = {FALSE}
  Depth = 5
SPECIFICATION GSpec
CONSTRAINT Emit
CHECK_DEADLOCK FALSE
