------------------------------ MODULE LifeTag ------------------------------
(* C08 (extension to the anchor file lifetime_tag.hpp) - handle-level specification of LifetimeTag /      *)
(* LifetimeTag::Watcher.  Every tag object is a new incarnation n = 1, 2, ... (copying or moving a tag     *)
(* makes a NEW, independent incarnation; assigning to a tag changes nothing).  A watcher is absent, empty   *)
(* or watches an incarnation.  A watcher reports "alive" iff the incarnation it watches still exists -     *)
(* the handle neither dangles (reports a destroyed host alive / touches freed memory) nor aliases           *)
(* (reports on another host).                                                                                *)
EXTENDS Integers, FiniteSets, Sequences, TLC
CONSTANTS TS, WS                \* tag slots, watcher slots
NoTag == 0
WAbsent == 0 - 2
WEmpty == 0 - 1
VARIABLES tag,      \* tag slot -> incarnation | NoTag
          wat,      \* watcher slot -> WAbsent | WEmpty | incarnation
          ni        \* incarnations so far
tvars0 == <<tag, wat, ni>>
TagIs(x) == tag[x] # NoTag
WatIs(y) == wat[y] # WAbsent
Alive(y) == wat[y] >= 1 /\ \E x \in TS : tag[x] = wat[y]

LInit == tag = [x \in TS |-> NoTag] /\ wat = [y \in WS |-> WAbsent] /\ ni = 0

LTagNew(x) == ~TagIs(x) /\ tag' = [tag EXCEPT ![x] = ni + 1] /\ ni' = ni + 1 /\ UNCHANGED wat
LTagCopyC(x, s) == ~TagIs(x) /\ TagIs(s) /\ tag' = [tag EXCEPT ![x] = ni + 1] /\ ni' = ni + 1 /\ UNCHANGED wat   \* also move construction
LTagAssign(x, s) == TagIs(x) /\ TagIs(s) /\ UNCHANGED tvars0                                                        \* copy and move assignment
\* a watcher of a destroyed incarnation can never report alive again: it is indistinguishable from an empty one and is kept as such
LTagDel(x) == /\ TagIs(x) /\ tag' = [tag EXCEPT ![x] = NoTag] /\ UNCHANGED ni
              /\ wat' = [y \in WS |-> IF wat[y] = tag[x] THEN WEmpty ELSE wat[y]]
LWNull(y) == ~WatIs(y) /\ wat' = [wat EXCEPT ![y] = WEmpty] /\ UNCHANGED <<tag, ni>>
LWFromTag(y, x) == ~WatIs(y) /\ TagIs(x) /\ wat' = [wat EXCEPT ![y] = tag[x]] /\ UNCHANGED <<tag, ni>>             \* Watcher(tag), tag.get()
LWCopyC(y, s) == ~WatIs(y) /\ WatIs(s) /\ wat' = [wat EXCEPT ![y] = wat[s]] /\ UNCHANGED <<tag, ni>>
LWMoveC(y, s) == ~WatIs(y) /\ WatIs(s) /\ y # s /\ wat' = [wat EXCEPT ![y] = wat[s], ![s] = WEmpty] /\ UNCHANGED <<tag, ni>>
LWAssignTag(y, x) == WatIs(y) /\ TagIs(x) /\ wat' = [wat EXCEPT ![y] = tag[x]] /\ UNCHANGED <<tag, ni>>
LWCopyA(y, s) == WatIs(y) /\ WatIs(s) /\ wat' = [wat EXCEPT ![y] = wat[s]] /\ UNCHANGED <<tag, ni>>
\* move assignment: the target takes over what the source watched; the source is left empty (the code: reset + swap) or with what
\* the target watched before (plain swap idiom) - both are sound for the property and the repository's tests pin neither
LWMoveAReset(y, s) == WatIs(y) /\ WatIs(s) /\ UNCHANGED <<tag, ni>> /\ wat' = (IF y = s THEN wat ELSE [wat EXCEPT ![y] = wat[s], ![s] = WEmpty])
LWMoveASwap(y, s) == WatIs(y) /\ WatIs(s) /\ UNCHANGED <<tag, ni>> /\ wat' = [wat EXCEPT ![y] = wat[s], ![s] = wat[y]]
LWMoveA(y, s) == LWMoveAReset(y, s) \/ LWMoveASwap(y, s)
LWSwap(y, s) == WatIs(y) /\ WatIs(s) /\ wat' = [wat EXCEPT ![y] = wat[s], ![s] = wat[y]] /\ UNCHANGED <<tag, ni>>
LWReset(y) == WatIs(y) /\ wat' = [wat EXCEPT ![y] = WEmpty] /\ UNCHANGED <<tag, ni>>
LWDel(y) == WatIs(y) /\ wat' = [wat EXCEPT ![y] = WAbsent] /\ UNCHANGED <<tag, ni>>
=============================================================================
