---- MODULE MC_Pool_TTrace_1790991377 ----
EXTENDS MC_Pool, Sequences, TLCExt, Toolbox, Naturals, TLC

_expression ==
    LET MC_Pool_TEExpression == INSTANCE MC_Pool_TEExpression
    IN MC_Pool_TEExpression!expression
----

_trace ==
    LET MC_Pool_TETrace == INSTANCE MC_Pool_TETrace
    IN MC_Pool_TETrace!trace
----

_inv ==
    ~(
        TLCGet("level") = Len(_TETrace)
        /\
        parked = (<<>>)
        /\
        nfree = (0)
        /\
        pfresh = (TRUE)
        /\
        lastD = (1)
        /\
        lastC = (1)
        /\
        keep = (0)
        /\
        inUse = (<<>>)
        /\
        exists = (TRUE)
        /\
        ctor = (<<1, 0, 0, 0>>)
        /\
        heap = ({})
        /\
        dtor = (<<0, 0, 0, 0>>)
        /\
        ndtor = (1)
        /\
        wild = (FALSE)
        /\
        nctor = (1)
    )
----

_init ==
    /\ heap = _TETrace[1].heap
    /\ pfresh = _TETrace[1].pfresh
    /\ exists = _TETrace[1].exists
    /\ nfree = _TETrace[1].nfree
    /\ lastC = _TETrace[1].lastC
    /\ lastD = _TETrace[1].lastD
    /\ inUse = _TETrace[1].inUse
    /\ dtor = _TETrace[1].dtor
    /\ wild = _TETrace[1].wild
    /\ ndtor = _TETrace[1].ndtor
    /\ parked = _TETrace[1].parked
    /\ keep = _TETrace[1].keep
    /\ ctor = _TETrace[1].ctor
    /\ nctor = _TETrace[1].nctor
----

_next ==
    /\ \E i,j \in DOMAIN _TETrace:
        /\ \/ /\ j = i + 1
              /\ i = TLCGet("level")
        /\ heap  = _TETrace[i].heap
        /\ heap' = _TETrace[j].heap
        /\ pfresh  = _TETrace[i].pfresh
        /\ pfresh' = _TETrace[j].pfresh
        /\ exists  = _TETrace[i].exists
        /\ exists' = _TETrace[j].exists
        /\ nfree  = _TETrace[i].nfree
        /\ nfree' = _TETrace[j].nfree
        /\ lastC  = _TETrace[i].lastC
        /\ lastC' = _TETrace[j].lastC
        /\ lastD  = _TETrace[i].lastD
        /\ lastD' = _TETrace[j].lastD
        /\ inUse  = _TETrace[i].inUse
        /\ inUse' = _TETrace[j].inUse
        /\ dtor  = _TETrace[i].dtor
        /\ dtor' = _TETrace[j].dtor
        /\ wild  = _TETrace[i].wild
        /\ wild' = _TETrace[j].wild
        /\ ndtor  = _TETrace[i].ndtor
        /\ ndtor' = _TETrace[j].ndtor
        /\ parked  = _TETrace[i].parked
        /\ parked' = _TETrace[j].parked
        /\ keep  = _TETrace[i].keep
        /\ keep' = _TETrace[j].keep
        /\ ctor  = _TETrace[i].ctor
        /\ ctor' = _TETrace[j].ctor
        /\ nctor  = _TETrace[i].nctor
        /\ nctor' = _TETrace[j].nctor

\* Uncomment the ASSUME below to write the states of the error trace
\* to the given file in Json format. Note that you can pass any tuple
\* to `JsonSerialize`. For example, a sub-sequence of _TETrace.
    \* ASSUME
    \*     LET J == INSTANCE Json
    \*         IN J!JsonSerialize("MC_Pool_TTrace_1790991377.json", _TETrace)

=============================================================================

 Note that you can extract this module `MC_Pool_TEExpression`
  to a dedicated file to reuse `expression` (the module in the 
  dedicated `MC_Pool_TEExpression.tla` file takes precedence 
  over the module `MC_Pool_TEExpression` below).

---- MODULE MC_Pool_TEExpression ----
EXTENDS MC_Pool, Sequences, TLCExt, Toolbox, Naturals, TLC

expression == 
    [
        \* To hide variables of the `MC_Pool` spec from the error trace,
        \* remove the variables below.  The trace will be written in the order
        \* of the fields of this record.
        heap |-> heap
        ,pfresh |-> pfresh
        ,exists |-> exists
        ,nfree |-> nfree
        ,lastC |-> lastC
        ,lastD |-> lastD
        ,inUse |-> inUse
        ,dtor |-> dtor
        ,wild |-> wild
        ,ndtor |-> ndtor
        ,parked |-> parked
        ,keep |-> keep
        ,ctor |-> ctor
        ,nctor |-> nctor
        
        \* Put additional constant-, state-, and action-level expressions here:
        \* ,_stateNumber |-> _TEPosition
        \* ,_heapUnchanged |-> heap = heap'
        
        \* Format the `heap` variable as Json value.
        \* ,_heapJson |->
        \*     LET J == INSTANCE Json
        \*     IN J!ToJson(heap)
        
        \* Lastly, you may build expressions over arbitrary sets of states by
        \* leveraging the _TETrace operator.  For example, this is how to
        \* count the number of times a spec variable changed up to the current
        \* state in the trace.
        \* ,_heapModCount |->
        \*     LET F[s \in DOMAIN _TETrace] ==
        \*         IF s = 1 THEN 0
        \*         ELSE IF _TETrace[s].heap # _TETrace[s-1].heap
        \*             THEN 1 + F[s-1] ELSE F[s-1]
        \*     IN F[_TEPosition - 1]
    ]

=============================================================================



Parsing and semantic processing can take forever if the trace below is long.
 In this case, it is advised to uncomment the module below to deserialize the
 trace from a generated binary file.

\*
\*---- MODULE MC_Pool_TETrace ----
\*EXTENDS MC_Pool, IOUtils, TLC
\*
\*trace == IODeserialize("MC_Pool_TTrace_1790991377.bin", TRUE)
\*
\*=============================================================================
\*

---- MODULE MC_Pool_TETrace ----
EXTENDS MC_Pool, TLC

trace == 
    <<
    ([parked |-> <<>>,nfree |-> 0,pfresh |-> TRUE,lastD |-> 0,lastC |-> 0,keep |-> 0,inUse |-> <<>>,exists |-> FALSE,ctor |-> <<0, 0, 0, 0>>,heap |-> {},dtor |-> <<0, 0, 0, 0>>,ndtor |-> 0,wild |-> FALSE,nctor |-> 0]),
    ([parked |-> <<>>,nfree |-> 0,pfresh |-> TRUE,lastD |-> 0,lastC |-> 0,keep |-> 0,inUse |-> <<>>,exists |-> TRUE,ctor |-> <<0, 0, 0, 0>>,heap |-> {},dtor |-> <<0, 0, 0, 0>>,ndtor |-> 0,wild |-> FALSE,nctor |-> 0]),
    ([parked |-> <<>>,nfree |-> 0,pfresh |-> TRUE,lastD |-> 0,lastC |-> 1,keep |-> 0,inUse |-> <<1>>,exists |-> TRUE,ctor |-> <<1, 0, 0, 0>>,heap |-> {1},dtor |-> <<0, 0, 0, 0>>,ndtor |-> 0,wild |-> FALSE,nctor |-> 1]),
    ([parked |-> <<>>,nfree |-> 0,pfresh |-> TRUE,lastD |-> 1,lastC |-> 1,keep |-> 0,inUse |-> <<>>,exists |-> TRUE,ctor |-> <<1, 0, 0, 0>>,heap |-> {},dtor |-> <<0, 0, 0, 0>>,ndtor |-> 1,wild |-> FALSE,nctor |-> 1])
    >>
----


=============================================================================

---- CONFIG MC_Pool_TTrace_1790991377 ----
CONSTANTS
    Addrs = { 1 , 2 , 3 , 4 }
    Keeps = { 99 , 0 , 1 , 2 }
    Vals = { 1 , 2 }
    Variant = "nodtor"
    MaxAllocs = 5

INVARIANT
    _inv

CHECK_DEADLOCK
    \* CHECK_DEADLOCK off because of PROPERTY or INVARIANT above.
    FALSE

INIT
    _init

NEXT
    _next

CONSTANT
    _TETrace <- _trace

ALIAS
    _expression
=============================================================================
\* Generated on Sat Oct 03 01:36:19 UTC 2026