CONSTANTS
  H = {1, 2, 3}
  SelfAssignGuard = TRUE
  MaxFds = 3
  MaxRecs = 3
SPECIFICATION Spec
CONSTRAINT Bound
INVARIANTS ClosesAsSpecified ClosedExactlyOnce NeverEarly HandlesAgree RefExact NoDangling UnreferencedAreClosed
CHECK_DEADLOCK FALSE
