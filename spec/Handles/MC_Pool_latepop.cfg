CONSTANTS
  Addrs = {1, 2, 3, 4}
  Keeps = {99, 0, 1, 2}
  Vals = {1}
  Variant = "latepop"
  MaxDepth = 2
  Throws = {FALSE, TRUE}
  MaxAllocs = 4
SPECIFICATION Spec
CONSTRAINT Bound
INVARIANTS NeverHandsOutInUse
CHECK_DEADLOCK FALSE
