---------------------------- MODULE CabinetImpl ----------------------------
(* C08 - implementation-shaped model of cabinet.hpp:                          *)
(*   cells_      sequence of cells [id, v]; id = 0: free cell, v = next free  *)
(*               position; id # 0: used cell, v = object                       *)
(*   first_free_ head of the intrusive free list (NOPOS = none)               *)
(*   last_id_    last id handed out (ids start at 1, 0 is "null")             *)
(*   count_      what size() reports                                           *)
(* token = (id, pos); at/update/free compare the id stored in cells_[pos].     *)
(* foreach() is modelled cell by cell (WalkStep) so that free()/update() from  *)
(* inside the callback interleave with the walk.                              *)
(* The handle-level specification Cabinet is carried as ghost state (its       *)
(* actions are conjoined to the implementation actions); the invariants below  *)
(* state that the cell/free-list machinery implements it.                     *)
(* ClearResetsId = TRUE is the code as found (clear() sets last_id_ = 0):      *)
(* the first token issued after clear() equals one issued before it, so a      *)
(* stale token resolves to the new object - TLC reports DeadResolvesToNothing. *)
EXTENDS Cabinet
CONSTANTS Objs,             \* objects that may be stored (0 = nullptr)
          ClearResetsId     \* FALSE: intended; TRUE: as found
VARIABLES cells, firstFree, lastId, count, wi, iret
ivars == <<cells, firstFree, lastId, count, wi, iret>>
vars == <<avars, ivars>>
NOPOS == -1

Cell(p) == cells[p + 1]                      \* positions are 0-based as in the code
Hit(t) == ~IsNull(t) /\ t.p < Len(cells) /\ Cell(t.p).id = t.i
ImplAt(t) == IF Hit(t) THEN Cell(t.p).v ELSE 0

Init == /\ AInit /\ cells = <<>> /\ firstFree = NOPOS /\ lastId = 0 /\ count = 0 /\ wi = -1 /\ iret = <<"init">>

Alloc(o) ==
  LET id == lastId + 1
      pos == IF firstFree # NOPOS THEN firstFree ELSE Len(cells)
  IN /\ wi = -1                                  \* alloc() inside foreach() is not allowed (vector may grow)
     /\ lastId' = id
     /\ IF firstFree # NOPOS
          THEN /\ firstFree' = Cell(firstFree).v
               /\ cells' = [cells EXCEPT ![pos + 1] = [id |-> id, v |-> o]]
          ELSE /\ firstFree' = firstFree
               /\ cells' = Append(cells, [id |-> id, v |-> o])
     /\ count' = count + 1
     /\ iret' = <<"alloc", Tok(id, pos)>>
     /\ UNCHANGED wi
     /\ AAlloc(Tok(id, pos), o)
Update(t, o) ==
  /\ IF Hit(t) THEN cells' = [cells EXCEPT ![t.p + 1].v = o] ELSE cells' = cells
  /\ iret' = <<"update", Hit(t)>>
  /\ UNCHANGED <<firstFree, lastId, count, wi>>
  /\ AUpdate(t, o)
Free(t) ==
  /\ IF Hit(t)
       THEN /\ cells' = [cells EXCEPT ![t.p + 1] = [id |-> 0, v |-> firstFree]]
            /\ firstFree' = t.p /\ count' = count - 1
       ELSE UNCHANGED <<cells, firstFree, count>>
  /\ iret' = <<"free", ImplAt(t)>>
  /\ UNCHANGED <<lastId, wi>>
  /\ AFree(t)
At(t) == iret' = <<"at", ImplAt(t)>> /\ UNCHANGED <<cells, firstFree, lastId, count, wi>> /\ AAt(t)
Clear ==
  /\ wi = -1
  /\ lastId' = IF ClearResetsId THEN 0 ELSE lastId
  /\ cells' = <<>> /\ firstFree' = NOPOS /\ count' = 0 /\ iret' = <<"clear">> /\ UNCHANGED wi
  /\ AClear
WalkBegin == wi = -1 /\ wi' = 0 /\ iret' = <<"wbegin">> /\ UNCHANGED <<cells, firstFree, lastId, count>> /\ AWalkBegin
WalkStep ==
  /\ wi >= 0 /\ wi < Len(cells) /\ wi' = wi + 1
  /\ UNCHANGED <<cells, firstFree, lastId, count>>
  /\ IF Cell(wi).id # 0
       THEN iret' = <<"visit", Cell(wi).v>> /\ AVisit(Cell(wi).v)
       ELSE UNCHANGED <<iret, avars>>
WalkEnd == wi = Len(cells) /\ wi' = -1 /\ iret' = <<"wend">> /\ UNCHANGED <<cells, firstFree, lastId, count>> /\ AWalkEnd

\* tokens a caller can hold: everything ever issued, and the null token
Known == (DOMAIN live) \cup dead \cup {NullTok}
DoAlloc == \E o \in Objs : Alloc(o)
DoUpdate == \E t \in Known, o \in Objs : Update(t, o)
DoFree == \E t \in Known : Free(t)
DoAt == \E t \in Known : At(t)
Next == DoAlloc \/ DoUpdate \/ DoFree \/ DoAt \/ Clear \/ WalkBegin \/ WalkStep \/ WalkEnd
Spec == Init /\ [][Next]_vars

\* ---- the property on the implementation state -------------------------------------------------------
LiveResolves == \A t \in DOMAIN live : ImplAt(t) = live[t]
DeadResolvesToNothing == \A t \in dead : ImplAt(t) = 0
SizeIsLiveCount == count = Cardinality(DOMAIN live)
RetAgree == iret = ret                              \* every return value is the handle-level one
UsedCells == {p \in 0 .. Len(cells) - 1 : Cell(p).id # 0}
CellsMatchLive == {Tok(Cell(p).id, p) : p \in UsedCells} = DOMAIN live
RECURSIVE Chain(_, _)
Chain(p, seen) == IF p = NOPOS THEN seen
                  ELSE IF p \in seen \/ p < 0 \/ p >= Len(cells) THEN {-2}      \* cycle or wild link
                  ELSE Chain(Cell(p).v, seen \cup {p})
FreeListWellFormed == Chain(firstFree, {}) = (0 .. Len(cells) - 1) \ UsedCells
IdsBelowLast == \A p \in UsedCells : Cell(p).id <= lastId
=============================================================================
