CONSTANTS
  H = {1, 2, 3}
  SelfAssignGuard = TRUE
  Reals = {FALSE}
  Depth = 4
SPECIFICATION GSpec
CONSTRAINT Emit
CHECK_DEADLOCK FALSE
