------------------------------ MODULE Cabinet ------------------------------
(* C08 - handle-level specification of tbox::cabinet::Cabinet<T>.             *)
(* A token is an opaque value [i, p] (i = 0 is the null token).  The cabinet  *)
(* is a partial map  token -> object  (object 0 = nullptr).  What the          *)
(* property demands of every history:                                         *)
(*   - a token resolves to the object stored with it from alloc until free /  *)
(*     clear and to nothing afterwards (for ever: also after the slot was      *)
(*     reused, also after clear());                                            *)
(*   - live entries have distinct tokens, size() = number of live entries;    *)
(*   - foreach() hands the callback objects of live entries only.             *)
(* Actions take the values observed on the implementation (the token that      *)
(* alloc returned) as parameters; the properties are the invariants below.     *)
(* The same module is (a) the ghost of the implementation-shaped model        *)
(* CabinetImpl and (b) what recorded traces are validated against.             *)
EXTENDS Integers, FiniteSets, Sequences, TLC

VARIABLES live,     \* token -> object of every entry currently stored
          dead,     \* every token that was freed or cleared away, for ever
          fresh,    \* FALSE iff some alloc returned a token that was null, live or stale
          walking,  \* a foreach() is in progress
          vok,      \* FALSE iff foreach() handed out something that is not the object of a live entry
          ret       \* result of the last call
avars == <<live, dead, fresh, walking, vok, ret>>

Tok(i, p) == [i |-> i, p |-> p]
NullTok == Tok(0, 0)
IsNull(t) == t.i = 0
NoEntries == [t \in {} |-> 0]

Resolve(t) == IF t \in DOMAIN live THEN live[t] ELSE 0
Size == Cardinality(DOMAIN live)

AInit == /\ live = NoEntries /\ dead = {} /\ fresh = TRUE /\ walking = FALSE /\ vok = TRUE /\ ret = <<"init">>

AAlloc(t, o) ==
  /\ live' = [x \in (DOMAIN live) \cup {t} |-> IF x = t THEN o ELSE live[x]]
  /\ fresh' = (fresh /\ ~IsNull(t) /\ t \notin DOMAIN live /\ t \notin dead)
  /\ ret' = <<"alloc", t>> /\ UNCHANGED <<dead, walking, vok>>
AUpdate(t, o) ==
  /\ live' = IF t \in DOMAIN live THEN [live EXCEPT ![t] = o] ELSE live
  /\ ret' = <<"update", t \in DOMAIN live>> /\ UNCHANGED <<dead, fresh, walking, vok>>
AFree(t) ==
  /\ live' = [x \in (DOMAIN live) \ {t} |-> live[x]]
  /\ dead' = IF t \in DOMAIN live THEN dead \cup {t} ELSE dead
  /\ ret' = <<"free", Resolve(t)>> /\ UNCHANGED <<fresh, walking, vok>>
AAt(t) == ret' = <<"at", Resolve(t)>> /\ UNCHANGED <<live, dead, fresh, walking, vok>>
AClear ==
  /\ live' = NoEntries /\ dead' = dead \cup DOMAIN live
  /\ ret' = <<"clear">> /\ UNCHANGED <<fresh, walking, vok>>
AWalkBegin == ~walking /\ walking' = TRUE /\ ret' = <<"wbegin">> /\ UNCHANGED <<live, dead, fresh, vok>>
AVisit(o) ==
  /\ walking /\ vok' = (vok /\ \E t \in DOMAIN live : live[t] = o)
  /\ ret' = <<"visit", o>> /\ UNCHANGED <<live, dead, fresh, walking>>
AWalkEnd == walking /\ walking' = FALSE /\ ret' = <<"wend">> /\ UNCHANGED <<live, dead, fresh, vok>>

\* ---- the property, handle level -------------------------------------------------------------------
DistinctTokens == fresh                           \* alloc never returns a null, live or stale token
StaleStayDead == (DOMAIN live) \cap dead = {}     \* a freed token never comes back to life
VisitsLive == vok
=============================================================================
