CONSTANTS
  Objs = {1}
  ClearResetsId = FALSE
  MaxCells = 2
  WithAt = FALSE
  Depth = 6
SPECIFICATION GSpec
CONSTRAINT Emit
CHECK_DEADLOCK FALSE
