CONSTANTS
  TS = {1, 2}
  WS = {1, 2, 3}
  NullSafe = FALSE
  MaxInc = 3
SPECIFICATION Spec
CONSTRAINT Bound
INVARIANTS NoNullDeref
CHECK_DEADLOCK FALSE
