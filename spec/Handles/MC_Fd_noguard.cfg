CONSTANTS
  H = {1, 2, 3}
  SelfAssignGuard = FALSE
  MaxFds = 2
  MaxRecs = 2
SPECIFICATION Spec
CONSTRAINT Bound
INVARIANTS NeverEarly
CHECK_DEADLOCK FALSE
