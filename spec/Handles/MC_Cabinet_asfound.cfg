CONSTANTS
  Objs = {0, 1, 2}
  ClearResetsId = TRUE
  MaxAllocs = 4
  MaxCells = 3
SPECIFICATION Spec
CONSTRAINT Bound
INVARIANTS DeadResolvesToNothing
CHECK_DEADLOCK FALSE
