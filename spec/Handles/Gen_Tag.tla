------------------------------ MODULE Gen_Tag ------------------------------
(* Behaviour generator for the LifetimeTag extension of C08: operation sequences of the implementation-      *)
(* shaped model over tag slots x and watcher slots y as JSON scripts.                                         *)
EXTENDS LifeTagImpl, Json
CONSTANT Depth
VARIABLES hist
gvars == <<vars, hist>>
HH(e, x, y, s) == hist' = Append(hist, [e |-> e, x |-> x, y |-> y, s |-> s])
GInit == Init /\ hist = <<>>
LowT(x) == \A z \in TS : z < x => TagIs(z)
LowW(y) == \A z \in WS : z < y => WatIs(z)
GNext ==
  \/ \E x \in TS : \/ LowT(x) /\ TagNew(x) /\ HH("tnew", x, 0, 0)
                   \/ TagDel(x) /\ HH("tdel", x, 0, 0)
                   \/ \E s \in TS : \/ LowT(x) /\ TagCopyC(x, s) /\ (HH("tcopyc", x, 0, s) \/ HH("tmovec", x, 0, s))
                                    \/ TagAssign(x, s) /\ (HH("tassign", x, 0, s) \/ HH("tmassign", x, 0, s))
  \/ \E y \in WS : \/ LowW(y) /\ WNull(y) /\ HH("wnull", 0, y, 0)
                   \/ WReset(y) /\ HH("wreset", 0, y, 0)
                   \/ WDel(y) /\ HH("wdel", 0, y, 0)
                   \/ \E x \in TS : \/ LowW(y) /\ WFromTag(y, x) /\ (HH("wtag", x, y, 0) \/ HH("wget", x, y, 0))
                                    \/ WAssignTag(y, x) /\ HH("wasgt", x, y, 0)
                   \/ \E s \in WS : \/ LowW(y) /\ WCopyC(y, s) /\ HH("wcopyc", 0, y, s)
                                    \/ LowW(y) /\ WMoveC(y, s) /\ HH("wmovec", 0, y, s)
                                    \/ WCopyA(y, s) /\ HH("wcopya", 0, y, s)
                                    \/ WMoveA(y, s) /\ HH("wmovea", 0, y, s)
                                    \/ WSwap(y, s) /\ HH("wswap", 0, y, s)
GSpec == GInit /\ [][GNext]_gvars
Emit == IF Len(hist) >= Depth THEN PrintT("BEH " \o ToJson(hist)) /\ FALSE ELSE TRUE
\* -simulate: one script per random trace (the run is cut by -depth just after Depth operations)
EmitSim == IF Len(hist) = Depth THEN PrintT("BEH " \o ToJson(hist)) ELSE TRUE
=============================================================================
