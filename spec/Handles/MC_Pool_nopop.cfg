CONSTANTS
  Addrs = {1, 2, 3, 4}
  Keeps = {99, 0, 1, 2}
  Vals = {1}
  Variant = "nopop"
  MaxDepth = 2
  Throws = {FALSE, TRUE}
  MaxAllocs = 4
SPECIFICATION Spec
CONSTRAINT Bound
INVARIANTS NeverHandsOutInUse CtorDtorBalanced ParkedSound ParkedBounded NoWildAccess
CHECK_DEADLOCK FALSE
