----------------------------- MODULE PoolImpl -----------------------------
(* C08 - implementation-shaped model of object_pool.hpp: a LIFO list of parked malloc blocks        *)
(* (free_header_, linked through the first word of each parked block), free_number_, keep_number_,  *)
(* placement-new in alloc(), explicit destructor call in free(), parked blocks released by the      *)
(* pool's destructor.  The C heap is the set `heap` of blocks handed out by malloc and not yet      *)
(* given back; malloc may return any address outside it (also one that was released earlier).       *)
(* Ghost state: the handle-level specification Pool, plus per-address constructor/destructor        *)
(* counters and flags for accesses to storage that is not the pool's to touch.                      *)
(* Variant = "intended" is the code; the other variants are deliberate breakages that show that     *)
(* the invariants are not vacuous (each must be reported by TLC):                                    *)
(*   "nopop"   alloc() does not unlink the block it hands out                                        *)
(*   "nodtor"  free() runs the destructor only for blocks it parks                                   *)
EXTENDS Pool
CONSTANTS Addrs,        \* addresses malloc can return
          Keeps,        \* retention limits (keep_number_) to explore; 99 = the default constructor (unlimited)
          Vals, Variant
VARIABLES keep, parked, nfree, heap, ctor, dtor, wild
ivars == <<keep, parked, nfree, heap, ctor, dtor, wild>>
vars == <<pvars, ivars>>
Unlimited == 1000000
Range(s) == {s[i] : i \in DOMAIN s}

Init == /\ PInit /\ keep = 0 /\ parked = <<>> /\ nfree = 0 /\ heap = {}
        /\ ctor = [a \in Addrs |-> 0] /\ dtor = [a \in Addrs |-> 0] /\ wild = FALSE

New(k) == /\ PNew /\ keep' = (IF k = 99 THEN Unlimited ELSE k) /\ parked' = <<>> /\ nfree' = 0
          /\ UNCHANGED <<heap, ctor, dtor, wild>>
\* alloc(): take the head of the parked list, or malloc; construct in place
AllocAt(a, v, popped) ==
  /\ parked' = (IF popped /\ Variant # "nopop" THEN Tail(parked) ELSE parked)
  /\ nfree' = (IF popped THEN nfree - 1 ELSE nfree)
  /\ heap' = heap \cup {a}
  /\ wild' = (wild \/ a \notin heap')                    \* placement-new into storage that is not allocated
  /\ ctor' = [ctor EXCEPT ![a] = @ + 1]
  /\ UNCHANGED <<keep, dtor>>
  /\ PAlloc(a, v)
Alloc(v) ==
  /\ exists
  /\ IF parked # <<>> THEN AllocAt(Head(parked), v, TRUE)
     ELSE \E a \in Addrs \ heap : AllocAt(a, v, FALSE)
\* free(p): destructor, then park the block (if fewer than keep are parked) or give it back to the heap
Free(a) ==
  /\ exists /\ a \in DOMAIN inUse
  /\ LET park == nfree < keep IN
     /\ dtor' = (IF Variant = "nodtor" /\ ~park THEN dtor ELSE [dtor EXCEPT ![a] = @ + 1])
     /\ wild' = (wild \/ a \notin heap)
     /\ IF park THEN parked' = <<a>> \o parked /\ nfree' = nfree + 1 /\ heap' = heap
        ELSE parked' = parked /\ nfree' = nfree /\ heap' = heap \ {a}
  /\ UNCHANGED <<keep, ctor>>
  /\ PFree(a)
\* ~ObjectPool(): every parked block goes back to the heap
Del == /\ PDel /\ heap' = heap \ Range(parked) /\ wild' = (wild \/ ~(Range(parked) \subseteq heap))
       /\ parked' = <<>> /\ nfree' = 0 /\ UNCHANGED <<keep, ctor, dtor>>

DoNew == \E k \in Keeps : New(k)
DoAlloc == \E v \in Vals : Alloc(v)
DoFree == \E a \in DOMAIN inUse : Free(a)
Next == DoNew \/ DoAlloc \/ DoFree \/ Del
Spec == Init /\ [][Next]_vars

\* ---- the property on the implementation state ----------------------------------------------------------
\* one constructor and one destructor per alloc/free pair, on the right storage
SumOver(f) == LET RECURSIVE S(_)
                  S(A) == IF A = {} THEN 0 ELSE LET a == CHOOSE x \in A : TRUE IN f[a] + S(A \ {a})
              IN S(Addrs)
SumC == SumOver(ctor)
SumD == SumOver(dtor)
CtorDtorBalanced == /\ \A a \in Addrs : ctor[a] - dtor[a] = (IF a \in DOMAIN inUse THEN 1 ELSE 0)
                    /\ nctor = SumC /\ ndtor = SumD
\* parked blocks are allocated, pairwise distinct and not in use; nothing else is kept from the heap (no leak, no dangling block)
ParkedSound == /\ Cardinality(Range(parked)) = Len(parked) /\ Range(parked) \cap DOMAIN inUse = {}
               /\ heap = Range(parked) \cup DOMAIN inUse
ParkedBounded == Len(parked) <= keep /\ nfree = Len(parked)
NoWildAccess == ~wild
=============================================================================
