----------------------------- MODULE PoolImpl -----------------------------
(* C08 - implementation-shaped model of object_pool.hpp: a LIFO list of parked malloc blocks        *)
(* (free_header_, linked through the first word of each parked block), free_number_, keep_number_,  *)
(* placement-new in alloc(), explicit destructor call in free(), parked blocks released by the      *)
(* pool's destructor.  The C heap is the set `heap` of blocks handed out by malloc and not yet      *)
(* given back; malloc may return any address outside it (also one that was released earlier).       *)
(* alloc()/free() are modelled both as atomic steps (constructor / destructor does not touch the    *)
(* pool) and split at the constructor / destructor call (AllocBegin .. AllocEnd, FreeBegin ..        *)
(* FreeEnd) so that nested alloc()/free() calls made BY the constructor / destructor interleave      *)
(* exactly where the code allows them: alloc() unlinks the block BEFORE the constructor runs,        *)
(* free() links it AFTER the destructor returned.  A constructor may throw: the code as it is then   *)
(* loses the block (neither parked nor given back to the heap; `lost`) - a leak, not a handle        *)
(* violation, recorded as such.                                                                       *)
(* Ghost state: the handle-level specification Pool, plus per-address constructor/destructor        *)
(* counters and flags for accesses to storage that is not the pool's to touch.                      *)
(* Variant = "intended" is the code; the other variants are deliberate breakages that show that     *)
(* the invariants are not vacuous (each must be reported by TLC):                                    *)
(*   "nopop"   alloc() does not unlink the block it hands out                                        *)
(*   "nodtor"  free() runs the destructor only for blocks it parks                                   *)
(*   "latepop" alloc() unlinks the reused block only after the constructor returned ("exception      *)
(*             safe"): an alloc() nested in the constructor is handed the block under construction   *)
EXTENDS Pool
CONSTANTS Addrs,        \* addresses malloc can return
          Keeps,        \* retention limits (keep_number_) to explore; 99 = the default constructor (unlimited)
          Vals, Variant,
          MaxDepth,     \* how deep constructors / destructors may nest calls into the pool (0 = atomic calls only)
          Throws        \* {FALSE}: constructors never throw; {FALSE, TRUE}: a split constructor may throw at its end
VARIABLES keep, parked, nfree, heap, ctor, dtor, thrown, lost, istk, wild
ivars == <<keep, parked, nfree, heap, ctor, dtor, thrown, lost, istk, wild>>
vars == <<pvars, ivars>>
Unlimited == 1000000
Range(s) == {s[i] : i \in DOMAIN s}
Inc(f, a) == [f EXCEPT ![a] = @ + 1]

Init == /\ PInit /\ keep = 0 /\ parked = <<>> /\ nfree = 0 /\ heap = {} /\ lost = {} /\ istk = <<>>
        /\ ctor = [a \in Addrs |-> 0] /\ dtor = [a \in Addrs |-> 0] /\ thrown = [a \in Addrs |-> 0] /\ wild = FALSE

New(k) == /\ PNew /\ keep' = (IF k = 99 THEN Unlimited ELSE k) /\ parked' = <<>> /\ nfree' = 0
          /\ UNCHANGED <<heap, ctor, dtor, thrown, lost, istk, wild>>
\* ---- atomic alloc(): take the head of the parked list, or malloc; construct in place ----------------------
AllocAt(a, v, popped) ==
  /\ parked' = (IF popped /\ Variant # "nopop" THEN Tail(parked) ELSE parked)
  /\ nfree' = (IF popped THEN nfree - 1 ELSE nfree)
  /\ heap' = heap \cup {a}
  /\ wild' = (wild \/ a \notin heap')                    \* placement-new into storage that is not allocated
  /\ ctor' = Inc(ctor, a)
  /\ UNCHANGED <<keep, dtor, thrown, lost, istk>>
  /\ PAlloc(a, v)
Alloc(v) ==
  /\ exists
  /\ IF parked # <<>> THEN AllocAt(Head(parked), v, TRUE)
     ELSE \E a \in Addrs \ heap : AllocAt(a, v, FALSE)
\* ---- atomic free(p): destructor, then park the block (if fewer than keep are parked) or give it back to the heap
Free(a) ==
  /\ exists /\ a \in DOMAIN inUse
  /\ LET park == nfree < keep IN
     /\ dtor' = (IF Variant = "nodtor" /\ ~park THEN dtor ELSE Inc(dtor, a))
     /\ wild' = (wild \/ a \notin heap)
     /\ IF park THEN parked' = <<a>> \o parked /\ nfree' = nfree + 1 /\ heap' = heap
        ELSE parked' = parked /\ nfree' = nfree /\ heap' = heap \ {a}
  /\ UNCHANGED <<keep, ctor, thrown, lost, istk>>
  /\ PFree(a)
\* ---- alloc() up to the point where T's constructor is running ----------------------------------------------
BeginAt(a, v, reuse) ==
  /\ parked' = (IF reuse /\ Variant \notin {"nopop", "latepop"} THEN Tail(parked) ELSE parked)
  /\ nfree' = (IF reuse /\ Variant # "latepop" THEN nfree - 1 ELSE nfree)
  /\ heap' = heap \cup {a}
  /\ wild' = (wild \/ a \notin heap')
  /\ ctor' = Inc(ctor, a)
  /\ istk' = Append(istk, [reuse |-> reuse, next |-> IF reuse THEN Tail(parked) ELSE <<>>])     \* "latepop" remembers block->next
  /\ UNCHANGED <<keep, dtor, thrown, lost>>
  /\ PCBeg(a, v)
AllocBegin(v) ==
  /\ exists /\ Len(stk) < MaxDepth
  /\ IF parked # <<>> THEN BeginAt(Head(parked), v, TRUE)
     ELSE \E a \in Addrs \ heap : BeginAt(a, v, FALSE)
\* ---- the constructor returns / throws: rest of alloc() ------------------------------------------------------
AllocEnd(th) ==
  /\ stk # <<>> /\ Top.k = "c"
  /\ LET f == istk[Len(istk)]
         a == Top.a
     IN /\ istk' = SubSeq(istk, 1, Len(istk) - 1)
        /\ thrown' = (IF th THEN Inc(thrown, a) ELSE thrown)
        /\ IF Variant = "latepop"
           THEN \* success: free_header_ = next; --free_number_.   throw: the block stays linked / goes back to the heap
                /\ parked' = (IF f.reuse /\ ~th THEN f.next ELSE parked)
                /\ nfree' = (IF f.reuse /\ ~th THEN nfree - 1 ELSE nfree)
                /\ heap' = (IF th /\ ~f.reuse THEN heap \ {a} ELSE heap)
                /\ lost' = lost
           ELSE \* the block was unlinked before the constructor ran; when it throws nobody owns the block any more
                /\ UNCHANGED <<parked, nfree, heap>>
                /\ lost' = (IF th THEN lost \cup {a} ELSE lost)
        /\ UNCHANGED <<keep, ctor, dtor, wild>>
        /\ PCEnd(a, th)
\* ---- free(p) up to the point where T's destructor is running -----------------------------------------------
FreeBegin(a) ==
  /\ exists /\ a \in DOMAIN inUse /\ Len(stk) < MaxDepth
  /\ dtor' = Inc(dtor, a) /\ wild' = (wild \/ a \notin heap)
  /\ istk' = Append(istk, [reuse |-> FALSE, next |-> <<>>])
  /\ UNCHANGED <<keep, parked, nfree, heap, ctor, thrown, lost>>
  /\ PDBeg(a)
\* ---- the destructor has returned: park the block or give it back ---------------------------------------------
FreeEnd ==
  /\ stk # <<>> /\ Top.k = "d"
  /\ LET a == Top.a  park == nfree < keep IN
     IF park THEN parked' = <<a>> \o parked /\ nfree' = nfree + 1 /\ heap' = heap
     ELSE parked' = parked /\ nfree' = nfree /\ heap' = heap \ {a}
  /\ istk' = SubSeq(istk, 1, Len(istk) - 1)
  /\ UNCHANGED <<keep, ctor, dtor, thrown, lost, wild>>
  /\ PDEnd
\* ~ObjectPool(): every parked block goes back to the heap
Del == /\ PDel /\ heap' = heap \ Range(parked) /\ wild' = (wild \/ ~(Range(parked) \subseteq heap))
       /\ parked' = <<>> /\ nfree' = 0 /\ UNCHANGED <<keep, ctor, dtor, thrown, lost, istk>>

DoNew == \E k \in Keeps : New(k)
DoAlloc == \E v \in Vals : Alloc(v)
DoFree == \E a \in DOMAIN inUse : Free(a)
DoAllocBegin == \E v \in Vals : AllocBegin(v)
DoAllocEnd == \E th \in Throws : AllocEnd(th)
DoFreeBegin == \E a \in DOMAIN inUse : FreeBegin(a)
Next == DoNew \/ DoAlloc \/ DoFree \/ DoAllocBegin \/ DoAllocEnd \/ DoFreeBegin \/ FreeEnd \/ Del
Spec == Init /\ [][Next]_vars

\* ---- the property on the implementation state ----------------------------------------------------------
\* one constructor and one destructor per alloc/free pair, on the right storage
SumOver(f) == LET RECURSIVE S(_)
                  S(A) == IF A = {} THEN 0 ELSE LET a == CHOOSE x \in A : TRUE IN f[a] + S(A \ {a})
              IN S(Addrs)
SumC == SumOver(ctor)
SumD == SumOver(dtor)
UnderConstruction == {stk[i].a : i \in {j \in DOMAIN stk : stk[j].k = "c"}}
CtorDtorBalanced == /\ \A a \in Addrs : ctor[a] - dtor[a] - thrown[a] = (IF a \in (DOMAIN inUse) \cup UnderConstruction THEN 1 ELSE 0)
                    /\ nctor = SumC /\ ndtor = SumD
\* parked blocks are allocated, pairwise distinct and not in use / under construction / under destruction; nothing else is kept
\* from the heap (no dangling block; the only leak is the block of a constructor that threw)
ParkedSound == /\ Cardinality(Range(parked)) = Len(parked) /\ Range(parked) \cap Occupied = {}
               /\ heap = Range(parked) \cup Occupied \cup lost
ParkedBounded == Len(parked) <= keep /\ nfree = Len(parked)
NoWildAccess == ~wild
=============================================================================
