---- MODULE MC_Cabinet ----
EXTENDS CabinetImpl
CONSTANTS MaxAllocs, MaxCells
\* bounded scope: at most MaxAllocs tokens ever issued, at most MaxCells cells
Bound == Cardinality(dead) + Cardinality(DOMAIN live) <= MaxAllocs /\ Len(cells) <= MaxCells
====
