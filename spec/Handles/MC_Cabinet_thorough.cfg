CONSTANTS
  Objs = {0, 1, 2}
  ClearResetsId = FALSE
  MaxAllocs = 6
  MaxCells = 4
SPECIFICATION Spec
CONSTRAINT Bound
INVARIANTS DeadResolvesToNothing LiveResolves DistinctTokens StaleStayDead SizeIsLiveCount RetAgree CellsMatchLive FreeListWellFormed IdsBelowLast VisitsLive
CHECK_DEADLOCK FALSE
