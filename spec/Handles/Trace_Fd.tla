----------------------------- MODULE Trace_Fd -----------------------------
(* Trace validation for C08 / Fd: each recorded operation on real tbox::util::Fd objects must be the action  *)
(* of the handle-level specification FdHandle; the close calls observed DURING the operation (injected        *)
(* close function, or probing of real descriptors) must be exactly the descriptors the specification closes   *)
(* in that operation, each once; afterwards every handle must report (get(), isNull()) what the               *)
(* specification says.                                                                                         *)
EXTENDS FdHandle, Json, IOUtils
Log == ndJsonDeserialize(IOEnv.TRACE)
VARIABLE l
ASSUME TLCSet(42, 0)
tvars == <<fvars, l>>
Ev == Log[l]
IsEv(e) == l <= Len(Log) /\ Log[l].e = e /\ l' = l + 1
Post ==
  /\ Len(Ev.cl) = Cardinality(lastcl') /\ \A j \in 1 .. Len(Ev.cl) : Ev.cl[j] \in lastcl'
  /\ \A x \in H : LET o == Ev.st[x]
                      g == IF IsSerial(href'[x]) /\ href'[x] \notin closed' THEN href'[x] ELSE 0
                  IN o.a = (href'[x] # Absent) /\ o.g = g /\ o.n = (g = 0)
TInit == FInit /\ l = 1
TReset == IsEv("Reset") /\ (\A x \in H : href[x] = Absent) /\ href' = href /\ closed' = {} /\ ns' = 0 /\ lastcl' = {}
TNext ==
  \/ TReset
  \/ IsEv("fnew") /\ FNew(Ev.h) /\ Ev.k = ns' /\ Post
  \/ IsEv("fnull") /\ FNull(Ev.h) /\ Post
  \/ IsEv("fcopyc") /\ FCopyC(Ev.h, Ev.s) /\ Post
  \/ IsEv("fmovec") /\ FMoveC(Ev.h, Ev.s) /\ Post
  \/ IsEv("fcopya") /\ FCopyA(Ev.h, Ev.s) /\ Post
  \/ IsEv("fmovea") /\ FMoveA(Ev.h, Ev.s) /\ Post
  \/ IsEv("fswap") /\ FSwap(Ev.h, Ev.s) /\ Post
  \/ IsEv("freset") /\ FReset(Ev.h) /\ Post
  \/ IsEv("fclose") /\ FClose(Ev.h) /\ Post
  \/ IsEv("fdel") /\ FDel(Ev.h) /\ Post
TSpec == TInit /\ [][TNext]_tvars
Progress == TLCSet(42, IF l > TLCGet(42) THEN l ELSE TLCGet(42))
Accepted == IF TLCGet(42) = Len(Log) + 1 THEN TRUE ELSE PrintT(<<"MAXPOS", TLCGet(42), Len(Log)>>) /\ FALSE
=============================================================================
