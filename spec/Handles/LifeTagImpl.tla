---------------------------- MODULE LifeTagImpl ----------------------------
(* Implementation-shaped model of lifetime_tag.hpp: tag and watchers share a heap record                   *)
(* Detail {alive, watcher_counter}; ~LifetimeTag deletes it when no watcher is registered, otherwise marks  *)
(* it dead; ~Watcher decrements and deletes a dead record when the counter reaches 0; Watcher::reset() is    *)
(* swap with an empty temporary; the assignments are reset() followed by attaching.                          *)
(* Records are never reused, so a dangling d_ stays visible.  NullSafe = FALSE is the code as found:        *)
(* copy-constructing / copy-assigning from an EMPTY watcher dereferences its null d_ (`nullderef`).          *)
EXTENDS LifeTag
CONSTANT NullSafe
VARIABLES td,           \* tag slot -> record index | 0
          wd,           \* watcher slot -> -2 (no object) | -1 (d_ == nullptr) | record index
          recs,         \* sequence of [alive, cnt, freed]
          uaf,          \* a freed record was accessed
          nullderef     \* a null d_ was dereferenced
ivars == <<td, wd, recs, uaf, nullderef>>
vars == <<tvars0, ivars>>
St == [w |-> wd, r |-> recs, u |-> uaf, z |-> nullderef]
Touch(st, i) == [st EXCEPT !.u = st.u \/ st.r[i].freed]
\* ~Watcher of a watcher whose d_ is i
Drop(st, i) == IF i < 0 THEN st
               ELSE LET t == Touch(st, i)  n == t.r[i].cnt - 1 IN
                    [t EXCEPT !.r[i].cnt = n, !.r[i].freed = (t.r[i].freed \/ (n = 0 /\ ~t.r[i].alive))]
\* d_ = i; ++d_->watcher_counter      (i = -1: null dereference unless guarded)
Attach(st, y, i) == IF i < 0 THEN [st EXCEPT !.w[y] = -1, !.z = st.z \/ ~NullSafe]
                    ELSE LET t == Touch(st, i) IN [t EXCEPT !.w[y] = i, !.r[i].cnt = @ + 1]
ResetOf(st, y) == [Drop(st, st.w[y]) EXCEPT !.w[y] = -1]
Commit(st) == wd' = st.w /\ recs' = st.r /\ uaf' = st.u /\ nullderef' = st.z

Init == LInit /\ td = [x \in TS |-> 0] /\ wd = [y \in WS |-> -2] /\ recs = <<>> /\ uaf = FALSE /\ nullderef = FALSE
NewRec == Append(recs, [alive |-> TRUE, cnt |-> 0, freed |-> FALSE])

TagNew(x) == LTagNew(x) /\ td' = [td EXCEPT ![x] = Len(recs) + 1] /\ recs' = NewRec /\ UNCHANGED <<wd, uaf, nullderef>>
TagCopyC(x, s) == LTagCopyC(x, s) /\ td' = [td EXCEPT ![x] = Len(recs) + 1] /\ recs' = NewRec /\ UNCHANGED <<wd, uaf, nullderef>>
TagAssign(x, s) == LTagAssign(x, s) /\ UNCHANGED ivars
TagDel(x) ==
  /\ LTagDel(x) /\ td' = [td EXCEPT ![x] = 0]
  /\ LET i == td[x] IN
     /\ uaf' = (uaf \/ recs[i].freed)
     /\ recs' = IF recs[i].cnt = 0 THEN [recs EXCEPT ![i].freed = TRUE, ![i].alive = FALSE] ELSE [recs EXCEPT ![i].alive = FALSE]
  /\ UNCHANGED <<wd, nullderef>>
WNull(y) == LWNull(y) /\ Commit([St EXCEPT !.w[y] = -1]) /\ UNCHANGED td
WFromTag(y, x) == LWFromTag(y, x) /\ Commit(Attach(St, y, td[x])) /\ UNCHANGED td
WCopyC(y, s) == LWCopyC(y, s) /\ Commit(Attach(St, y, wd[s])) /\ UNCHANGED td
WMoveC(y, s) == LWMoveC(y, s) /\ Commit([St EXCEPT !.w[y] = wd[s], !.w[s] = -1]) /\ UNCHANGED td
WAssignTag(y, x) == LWAssignTag(y, x) /\ Commit(Attach(ResetOf(St, y), y, td[x])) /\ UNCHANGED td
WCopyA(y, s) == /\ LWCopyA(y, s) /\ UNCHANGED td
                /\ IF y = s THEN Commit(St) ELSE LET a == ResetOf(St, y) IN Commit(Attach(a, y, a.w[s]))
WMoveA(y, s) == /\ LWMoveAReset(y, s) /\ UNCHANGED td
                /\ IF y = s THEN Commit(St) ELSE LET a == ResetOf(St, y) IN Commit([a EXCEPT !.w[y] = a.w[s], !.w[s] = -1])
WSwap(y, s) == LWSwap(y, s) /\ Commit([St EXCEPT !.w[y] = wd[s], !.w[s] = wd[y]]) /\ UNCHANGED td
WReset(y) == LWReset(y) /\ Commit(ResetOf(St, y)) /\ UNCHANGED td
WDel(y) == LWDel(y) /\ Commit([Drop(St, wd[y]) EXCEPT !.w[y] = -2]) /\ UNCHANGED td

DoTagNew == \E x \in TS : TagNew(x)
DoTagCopyC == \E x, s \in TS : TagCopyC(x, s)
DoTagAssign == \E x, s \in TS : TagAssign(x, s)
DoTagDel == \E x \in TS : TagDel(x)
DoWNull == \E y \in WS : WNull(y)
DoWFromTag == \E y \in WS, x \in TS : WFromTag(y, x)
DoWCopyC == \E y, s \in WS : WCopyC(y, s)
DoWMoveC == \E y, s \in WS : WMoveC(y, s)
DoWAssignTag == \E y \in WS, x \in TS : WAssignTag(y, x)
DoWCopyA == \E y, s \in WS : WCopyA(y, s)
DoWMoveA == \E y, s \in WS : WMoveA(y, s)
DoWSwap == \E y, s \in WS : WSwap(y, s)
DoWReset == \E y \in WS : WReset(y)
DoWDel == \E y \in WS : WDel(y)
Next == DoTagNew \/ DoTagCopyC \/ DoTagAssign \/ DoTagDel \/ DoWNull \/ DoWFromTag \/ DoWCopyC \/ DoWMoveC \/ DoWAssignTag
        \/ DoWCopyA \/ DoWMoveA \/ DoWSwap \/ DoWReset \/ DoWDel
Spec == Init /\ [][Next]_vars

\* ---- properties --------------------------------------------------------------------------------------------
ImplAlive(y) == wd[y] >= 1 /\ recs[wd[y]].alive
WatchersAgree == \A y \in WS : /\ (wat[y] = WAbsent) = (wd[y] = -2)
                               /\ (wat[y] = WEmpty) = (wd[y] = -1 \/ (wd[y] >= 1 /\ ~recs[wd[y]].alive))
                               /\ ImplAlive(y) = Alive(y)
NoDangling == /\ ~uaf
              /\ \A y \in WS : wd[y] >= 1 => ~recs[wd[y]].freed
              /\ \A x \in TS : td[x] >= 1 => ~recs[td[x]].freed /\ recs[td[x]].alive
CounterExact == \A i \in 1 .. Len(recs) : /\ recs[i].cnt = Cardinality({y \in WS : wd[y] = i})
                                           /\ recs[i].freed = (~recs[i].alive /\ recs[i].cnt = 0)     \* freed exactly when unreferenced
NoNullDeref == ~nullderef
=============================================================================
