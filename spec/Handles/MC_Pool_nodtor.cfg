CONSTANTS
  Addrs = {1, 2, 3, 4}
  Keeps = {99, 0, 1, 2}
  Vals = {1, 2}
  Variant = "nodtor"
  MaxAllocs = 5
SPECIFICATION Spec
CONSTRAINT Bound
INVARIANTS NeverHandsOutInUse CtorDtorBalanced ParkedSound ParkedBounded NoWildAccess
CHECK_DEADLOCK FALSE
