CONSTANTS
  Addrs = {1, 2, 3}
  Keeps = {99, 0, 1, 2}
  Vals = {7}
  Types = {"big", "small"}
  Variant = "intended"
  MaxDepth = 1
  Throws = {FALSE, TRUE}
  Depth = 7
SPECIFICATION GSpec
CONSTRAINT Emit
CHECK_DEADLOCK FALSE
