------------------------------ MODULE FdImpl ------------------------------
(* C08 - implementation-shaped model of fd.h / fd.cpp: a handle holds a pointer detail_ to a heap       *)
(* record Detail {fd, ref_count, close_func}; copies share the record and count references; the         *)
(* destructor of the last copy closes fd (if fd >= 0) and deletes the record; close() closes fd at once  *)
(* and sets fd = -1; move construction / move assignment / reset() are built from swap() and a           *)
(* temporary (IMPL_MOVE_RESET_FUNC), copy assignment is reset() followed by sharing.                      *)
(* Records are never reused in the model (a fresh index per `new Detail`), so a dangling detail_ stays   *)
(* visible.  Ghost: the handle-level specification FdHandle; `calls[k]` counts close calls per serial.    *)
(* SelfAssignGuard = FALSE removes the `this != &other` test of copy assignment - a deliberate breakage  *)
(* that TLC must report (the invariants are not vacuous).                                                  *)
EXTENDS FdHandle
CONSTANTS SelfAssignGuard
VARIABLES det,          \* slot -> -2 (no object) | -1 (detail_ == nullptr) | index into recs
          recs,         \* sequence of [fd, ref, freed]; fd = serial or -1
          calls,        \* serial -> number of close calls (close_func / ::close)
          stepcl,       \* serials closed by the last operation, in order
          uaf           \* a freed record was accessed
ivars == <<det, recs, calls, stepcl, uaf>>
vars == <<fvars, ivars>>

\* interpreter state while an operation runs: [d: det, r: recs, c: close sequence, u: uaf]
St == [d |-> det, r |-> recs, c |-> <<>>, u |-> uaf]
Touch(st, i) == [st EXCEPT !.u = st.u \/ st.r[i].freed]
\* ~Fd() of a handle whose detail_ is i
Release(st, i) ==
  IF i < 0 THEN st
  ELSE LET t == Touch(st, i)
           n == t.r[i].ref - 1
       IN IF n = 0
          THEN [t EXCEPT !.r[i].ref = 0, !.r[i].freed = TRUE,
                         !.c = IF t.r[i].fd >= 0 THEN Append(t.c, t.r[i].fd) ELSE t.c]
          ELSE [t EXCEPT !.r[i].ref = n]
Share(st, i) == IF i < 0 THEN st ELSE LET t == Touch(st, i) IN [t EXCEPT !.r[i].ref = @ + 1]
SetDet(st, x, i) == [st EXCEPT !.d[x] = i]
\* reset(): Fd tmp; swap(tmp); ~tmp
ResetOf(st, x) == SetDet(Release(st, st.d[x]), x, -1)
Commit(st) ==
  /\ det' = st.d /\ recs' = st.r /\ stepcl' = st.c /\ uaf' = st.u
  /\ calls' = [k \in 1 .. ns' |-> (IF k \in DOMAIN calls THEN calls[k] ELSE 0) + Cardinality({j \in 1 .. Len(st.c) : st.c[j] = k})]

Init == FInit /\ det = [x \in H |-> -2] /\ recs = <<>> /\ calls = <<>> /\ stepcl = <<>> /\ uaf = FALSE

New(x) == /\ FNew(x)
          /\ Commit([St EXCEPT !.r = Append(recs, [fd |-> ns + 1, ref |-> 1, freed |-> FALSE]), !.d[x] = Len(recs) + 1])
Null(x) == FNull(x) /\ Commit(SetDet(St, x, -1))
CopyC(x, s) == FCopyC(x, s) /\ Commit(SetDet(Share(St, det[s]), x, det[s]))
MoveC(x, s) == FMoveC(x, s) /\ Commit(SetDet(SetDet(St, x, det[s]), s, -1))           \* detail_ = nullptr; swap(other)
CopyA(x, s) ==
  /\ FCopyA(x, s)
  /\ IF x = s /\ SelfAssignGuard THEN Commit(St)
     ELSE LET a == ResetOf(St, x) IN Commit(SetDet(Share(a, a.d[s]), x, a.d[s]))
MoveA(x, s) ==
  /\ FMoveA(x, s)
  /\ IF x = s THEN Commit(St)
     ELSE LET a == ResetOf(St, x) IN Commit(SetDet(SetDet(a, x, a.d[s]), s, -1))     \* reset(); swap(other)
Swap(x, s) == FSwap(x, s) /\ Commit(SetDet(SetDet(St, x, det[s]), s, det[x]))
Reset(x) == FReset(x) /\ Commit(ResetOf(St, x))
Close(x) ==
  /\ FClose(x)
  /\ LET i == det[x] IN
     IF i >= 0 /\ recs[i].fd >= 0
     THEN LET t == Touch(St, i) IN Commit([t EXCEPT !.c = Append(t.c, t.r[i].fd), !.r[i].fd = -1])
     ELSE Commit(IF i >= 0 THEN Touch(St, i) ELSE St)
Del(x) == FDel(x) /\ Commit(SetDet(Release(St, det[x]), x, -2))

DoNew == \E x \in H : New(x)
DoNull == \E x \in H : Null(x)
DoCopyC == \E x, s \in H : CopyC(x, s)
DoMoveC == \E x, s \in H : MoveC(x, s)
DoCopyA == \E x, s \in H : CopyA(x, s)
DoMoveA == \E x, s \in H : MoveA(x, s)
DoSwap == \E x, s \in H : Swap(x, s)
DoReset == \E x \in H : Reset(x)
DoClose == \E x \in H : Close(x)
DoDel == \E x \in H : Del(x)
Next == DoNew \/ DoNull \/ DoCopyC \/ DoMoveC \/ DoCopyA \/ DoMoveA \/ DoSwap \/ DoReset \/ DoClose \/ DoDel
Spec == Init /\ [][Next]_vars

\* ---- the property on the implementation state ----------------------------------------------------------
SeqSet(s) == {s[j] : j \in DOMAIN s}
\* every operation closes exactly the descriptors the handle-level specification says, each once
ClosesAsSpecified == SeqSet(stepcl) = lastcl /\ Len(stepcl) = Cardinality(lastcl)
\* never earlier: a close call happens only for a descriptor that close() was called on or that lost its last handle
NeverEarly == \A k \in 1 .. ns : calls[k] > 0 => k \in closed
\* exactly once: such a descriptor has seen one close call (and, with NeverEarly, every other one none)
ClosedExactlyOnce == \A k \in 1 .. ns : k \in closed => calls[k] = 1
\* the handles are what the specification says: same sharing, same descriptor
HandlesAgree == \A x \in H : /\ (href[x] = Absent) = (det[x] = -2)
                             /\ (href[x] = NullH) => det[x] = -1 \/ (det[x] >= 0 /\ recs[det[x]].fd = -1)
                             /\ IsSerial(href[x]) => det[x] >= 0 /\ recs[det[x]].fd = (IF href[x] \in closed THEN -1 ELSE href[x])
RefExact == \A i \in 1 .. Len(recs) : /\ recs[i].ref = Cardinality({x \in H : det[x] = i})
                                       /\ recs[i].freed = (recs[i].ref = 0)
NoDangling == ~uaf /\ \A x \in H : det[x] >= 0 => ~recs[det[x]].freed
=============================================================================
