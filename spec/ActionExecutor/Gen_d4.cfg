CONSTANTS
  Bugs = {}
  MaxId = 4
  Depth = 4
SPECIFICATION GSpec
CONSTRAINT EmitBeh
CHECK_DEADLOCK FALSE
