---- MODULE MC_ActionExecutor ----
EXTENDS ActionExecutor
CONSTANT MaxOps
Bound == nops <= MaxOps
====
