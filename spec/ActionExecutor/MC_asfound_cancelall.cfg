CONSTANTS
  Bugs = {"cancelall_heads"}
  MaxId = 3
  MaxOps = 5
SPECIFICATION Spec
CONSTRAINT Bound
INVARIANTS TypeOK MutualExclusion CurConsistent NoIdleWithWork OnlyHeadsActive PausedArePreempted Fifo LiveMatch NoStoppedLeft CallbackOnce FinishedCbIffCompleted StartedBeforeFinished AllFinishedOnlyWhenEmpty NoUB
CHECK_DEADLOCK FALSE
