--------------------------- MODULE ActionExecutor ---------------------------
(* E04 - tbox::flow::ActionExecutor (action_executor.h/.cpp): three FIFO queues of actions (priority 0 urgent, *)
(* 1 normal, 2 low).  The head of the highest non-empty queue is the current action; appending to a higher    *)
(* queue pauses the current action and starts the new one, the paused one is resumed (not restarted) when the  *)
(* higher queues are empty again; an action that finished (or was stopped) is removed and destroyed by the     *)
(* next schedule() - which runs inside append/cancel/cancelCurrent/cancelAll and from the action's finish       *)
(* notification, a task the action posts to the loop (so it is processed in a later loop pass).                *)
(*                                                                                                            *)
(* State, shaped like the C++ (one record S so that the operations can be written as operators):              *)
(*   q[p]    action_deque_array_[p] as a sequence of action ids (ids = 1, 2, ... in append order)             *)
(*   ast[a]  Action::state() of the probe action a: none idle running paused finished stopped deleted         *)
(*   cur     curr_action_deque_index_ (-1: none)                                                              *)
(*   pend    finish notifications posted to the loop and not yet delivered (in posting order)                 *)
(*   out     observable events of the last call in order: probe hooks Start Pause Resume Stop, callbacks       *)
(*           StartedCb FinishedCb AllFinished                                                                 *)
(*   kind[a] behaviour of probe a: normal (finishes when told), instant (finishes inside onStart)              *)
(*   scb fcb how often the started / finished callback was called for an id;  bad: undefined behaviour flags  *)
(* Every public call (and one loop pass) is one action; schedule() is the recursive operator Sched.           *)
(*                                                                                                            *)
(* Bugs (as-found switches):                                                                                  *)
(*   "cur_dangling"   cancelCurrent()/cancel(current) left curr_action_deque_index_ pointing at the queue they  *)
(*                    had just emptied: current() / cancelCurrent() / the next preempting append then used     *)
(*                    front() of an empty deque (a destroyed action)                                           *)
(*   "cancelall_heads" cancelAll() only called stop() on the head of every queue: nothing was removed, the      *)
(*                    executor stalled with a stopped head and ran everything queued after the next append      *)
(* Open choices (both accepted): cancel(id) of an under-way action may stop() it before destroying it          *)
(* (`withStop`); cancelAll() may or may not report AllFinished (`withAll`).                                    *)
EXTENDS Integers, Sequences, FiniteSets
CONSTANTS Bugs, MaxId
Prio == 0..2
Ids == 1..MaxId
Kinds == {"normal", "instant"}      \* instant: the probe finishes inside its onStart (like FunctionAction)

VARIABLES S, nid, ret, cancelled, lastop, nops     \* nops: number of calls made (bounds the models)

vars == <<S, nid, ret, cancelled, lastop, nops>>

Range(s) == {s[i] : i \in 1..Len(s)}
Ev(e, a) == [e |-> e, a |-> a]
AddEv(X, e, a) == [X EXCEPT !.out = Append(@, Ev(e, a))]
Queued(X) == UNION {Range(X.q[p]) : p \in Prio}
Ready(X) == IF X.q[0] # <<>> THEN 0 ELSE IF X.q[1] # <<>> THEN 1 ELSE IF X.q[2] # <<>> THEN 2 ELSE -1
Underway(X, a) == X.ast[a] \in {"running", "paused"}

\* ---- Action::pause / resume / stop / start, destruction (action.cpp, probe hooks recorded) ----
PauseA(X, a) == IF X.ast[a] = "running" THEN AddEv([X EXCEPT !.ast[a] = "paused"], "Pause", a) ELSE X
ResumeA(X, a) == IF X.ast[a] = "paused" THEN AddEv([X EXCEPT !.ast[a] = "running"], "Resume", a) ELSE X
StopA(X, a) == IF Underway(X, a) THEN AddEv([X EXCEPT !.ast[a] = "stopped"], "Stop", a) ELSE X
StartA(X, a) == LET X1 == AddEv(X, "Start", a) IN
                IF X.kind[a] = "instant" THEN [X1 EXCEPT !.ast[a] = "finished", !.pend = Append(@, a)]
                ELSE [X1 EXCEPT !.ast[a] = "running"]
DeleteA(X, a) == [X EXCEPT !.ast[a] = "deleted", !.pend = SelectSeq(@, LAMBDA b : b # a)]   \* ~Action withdraws its notification

\* ---- ActionExecutor::schedule() ----
RECURSIVE Sched(_), Inner(_, _)
Sched(X) ==
  LET r == Ready(X) IN
  IF r = -1 THEN AddEv(X, "AllFinished", 0)
  ELSE LET X1 == IF X.cur # -1 /\ r < X.cur
                 THEN (IF X.q[X.cur] = <<>> THEN [X EXCEPT !.bad = @ \cup {"front() of an empty queue"}]
                       ELSE PauseA(X, Head(X.q[X.cur])))
                 ELSE X
       IN Inner(X1, r)
Inner(X, r) ==
  IF X.q[r] = <<>> THEN Sched(X)
  ELSE LET a == Head(X.q[r]) IN
       CASE X.ast[a] = "idle" ->
              Inner(AddEv([StartA(X, a) EXCEPT !.cur = r, !.scb[a] = @ + 1], "StartedCb", a), r)
         [] X.ast[a] = "paused" ->
              Inner(ResumeA([X EXCEPT !.cur = r], a), r)
         [] X.ast[a] \in {"finished", "stopped"} ->
              Inner(AddEv([DeleteA(X, a) EXCEPT !.q[r] = Tail(@), !.cur = -1, !.fcb[a] = @ + 1], "FinishedCb", a), r)
         [] OTHER -> X                                      \* running: nothing to do

Clr(X) == [X EXCEPT !.out = <<>>]
QueueOf(X, a) == CHOOSE p \in Prio : a \in Range(X.q[p])
IsCurrent(X, a) == X.cur # -1 /\ X.q[X.cur] # <<>> /\ Head(X.q[X.cur]) = a

\* ---- public calls ----
DoAppend(X, p, a, k) == Sched([Clr(X) EXCEPT !.q[p] = Append(@, a), !.ast[a] = "idle", !.kind[a] = k])

DoCancelCurrent(X) ==
  IF X.cur = -1 THEN Clr(X)
  ELSE IF X.q[X.cur] = <<>> THEN [Clr(X) EXCEPT !.bad = @ \cup {"front() of an empty queue"}]
  ELSE LET a == Head(X.q[X.cur])
           X1 == [DeleteA(StopA(Clr(X), a), a) EXCEPT !.q[X.cur] = Tail(@)]
       IN Sched(IF "cur_dangling" \in Bugs THEN X1 ELSE [X1 EXCEPT !.cur = -1])

DoCancel(X, a, withStop) ==
  LET p == QueueOf(X, a)
      X0 == IF withStop THEN StopA(Clr(X), a) ELSE Clr(X)
      X1 == [DeleteA(X0, a) EXCEPT !.q[p] = SelectSeq(@, LAMBDA b : b # a)]
  IN Sched(IF IsCurrent(X, a) /\ "cur_dangling" \notin Bugs THEN [X1 EXCEPT !.cur = -1] ELSE X1)

RECURSIVE StopDeleteAll(_, _)
StopDeleteAll(X, s) == IF s = <<>> THEN X ELSE StopDeleteAll(DeleteA(StopA(X, Head(s)), Head(s)), Tail(s))
DoCancelAll(X, withAll) ==
  IF "cancelall_heads" \in Bugs
  THEN LET H(Y, p) == IF Y.q[p] = <<>> THEN Y ELSE StopA(Y, Head(Y.q[p])) IN H(H(H(Clr(X), 0), 1), 2)
  ELSE LET X1 == StopDeleteAll(Clr(X), X.q[0] \o X.q[1] \o X.q[2])
           X2 == [X1 EXCEPT !.q = [p \in Prio |-> <<>>], !.cur = -1]
       IN IF withAll THEN Sched(X2) ELSE X2

\* one loop pass: the notifications posted before the pass are delivered in order, each runs schedule()
RECURSIVE Deliver(_, _)
Deliver(X, todo) ==
  IF todo = <<>> THEN X
  ELSE LET a == Head(todo) IN
       IF a \in Range(X.pend) THEN Deliver(Sched([X EXCEPT !.pend = SelectSeq(@, LAMBDA b : b # a)]), Tail(todo))
       ELSE Deliver(X, Tail(todo))
DoPass(X) == Deliver(Clr(X), X.pend)

\* ---- the state machine ----
S0 == [q |-> [p \in Prio |-> <<>>], ast |-> [a \in Ids |-> "none"], cur |-> -1, pend |-> <<>>, out |-> <<>>,
       scb |-> [a \in Ids |-> 0], fcb |-> [a \in Ids |-> 0], bad |-> {}, kind |-> [a \in Ids |-> "normal"]]
Init == S = S0 /\ nops = 0 /\ nid = 0 /\ ret = "init" /\ cancelled = {} /\ lastop = "init"

Alive == lastop # "destroy"
AppendOp(p, k) == /\ Alive /\ nid < MaxId
                  /\ S' = DoAppend(S, p, nid + 1, k)
                  /\ nid' = nid + 1 /\ ret' = nid + 1 /\ lastop' = "append" /\ nops' = nops + 1 /\ UNCHANGED cancelled
FinishOp(a) == /\ Alive /\ a \in Ids /\ Underway(S, a)      \* the probe calls Action::finish()
               /\ S' = [Clr(S) EXCEPT !.ast[a] = "finished", !.pend = Append(@, a)]
               /\ ret' = TRUE /\ lastop' = "finish" /\ nops' = nops + 1 /\ UNCHANGED <<nid, cancelled>>
PassOp == /\ Alive
          /\ S' = DoPass(S) /\ ret' = 0 /\ lastop' = "pass" /\ nops' = nops + 1 /\ UNCHANGED <<nid, cancelled>>
CancelCurrentOp == /\ Alive
                   /\ S' = DoCancelCurrent(S) /\ ret' = (S.cur # -1) /\ lastop' = "cancelCurrent"
                   /\ cancelled' = IF S.cur # -1 /\ S.q[S.cur] # <<>> THEN cancelled \cup {Head(S.q[S.cur])} ELSE cancelled
                   /\ nops' = nops + 1 /\ UNCHANGED nid
CancelOp(a) == /\ Alive /\ a \in Ids
               /\ IF a \in Queued(S)
                  THEN /\ \E withStop \in (IF Underway(S, a) THEN BOOLEAN ELSE {FALSE}) : S' = DoCancel(S, a, withStop)
                       /\ ret' = TRUE /\ cancelled' = cancelled \cup {a}
                  ELSE S' = Clr(S) /\ ret' = FALSE /\ UNCHANGED cancelled
               /\ lastop' = "cancel" /\ nops' = nops + 1 /\ UNCHANGED nid
CancelAllOp == /\ Alive
               /\ \E withAll \in BOOLEAN : S' = DoCancelAll(S, withAll)
               /\ cancelled' = cancelled \cup Queued(S)
               /\ ret' = 0 /\ lastop' = "cancelAll" /\ nops' = nops + 1 /\ UNCHANGED nid
DestroyOp == /\ Alive                                        \* ~ActionExecutor destroys what is still queued
             /\ S' = [Clr(S) EXCEPT !.ast = [a \in Ids |-> IF a \in Queued(S) THEN "deleted" ELSE S.ast[a]],
                                    !.q = [p \in Prio |-> <<>>], !.pend = <<>>, !.cur = -1]
             /\ cancelled' = cancelled \cup Queued(S)
             /\ ret' = 0 /\ lastop' = "destroy" /\ nops' = nops + 1 /\ UNCHANGED nid

Next == \/ \E p \in Prio, k \in Kinds : AppendOp(p, k)
        \/ \E a \in Ids : FinishOp(a) \/ CancelOp(a)
        \/ PassOp \/ CancelCurrentOp \/ CancelAllOp \/ DestroyOp
Spec == Init /\ [][Next]_vars

\* ---- properties (each state is the state between two calls) ----
States == {"none", "idle", "running", "paused", "finished", "stopped", "deleted"}
TypeOK == /\ S.cur \in -1..2 /\ \A a \in Ids : S.ast[a] \in States
          /\ \A p \in Prio : Range(S.q[p]) \subseteq 1..nid
MutualExclusion == Cardinality({a \in Ids : S.ast[a] = "running"}) <= 1
CurConsistent == /\ S.cur # -1 => S.q[S.cur] # <<>> /\ \A p \in Prio : p < S.cur => S.q[p] = <<>>
                 /\ S.cur = -1 => Queued(S) = {}
NoIdleWithWork == S.cur # -1 /\ S.q[S.cur] # <<>> =>           \* the current action runs, or its finish notification is on its way
                    LET a == Head(S.q[S.cur]) IN S.ast[a] = "running" \/ (S.ast[a] = "finished" /\ a \in Range(S.pend))
OnlyHeadsActive == \A p \in Prio : \A i \in 2..Len(S.q[p]) : S.ast[S.q[p][i]] = "idle"
PausedArePreempted == \A p \in Prio : S.q[p] # <<>> /\ S.ast[Head(S.q[p])] = "paused" => S.cur # -1 /\ S.cur < p
Fifo == \A p \in Prio : \A i \in 1..Len(S.q[p]) - 1 : S.q[p][i] < S.q[p][i + 1]
LiveMatch == \A a \in Ids : (a \in Queued(S)) <=> S.ast[a] \in {"idle", "running", "paused", "finished", "stopped"}
NoStoppedLeft == \A a \in Queued(S) : S.ast[a] # "stopped"       \* what cancel* stops it also removes
CallbackOnce == \A a \in Ids : S.scb[a] <= 1 /\ S.fcb[a] <= 1
FinishedCbIffCompleted == \A a \in Ids : S.ast[a] = "deleted" => ((S.fcb[a] = 1) <=> (a \notin cancelled))
StartedBeforeFinished == \A a \in Ids : S.fcb[a] = 1 => S.scb[a] = 1
AllFinishedOnlyWhenEmpty == \A i \in 1..Len(S.out) : S.out[i].e = "AllFinished" => i = Len(S.out) /\ Queued(S) = {}
NoUB == S.bad = {}
=============================================================================
