CONSTANTS
  Bugs = {}
  MaxId = 5
  MaxOps = 9
SPECIFICATION Spec
CONSTRAINT Bound
INVARIANTS TypeOK MutualExclusion CurConsistent NoIdleWithWork OnlyHeadsActive PausedArePreempted Fifo LiveMatch NoStoppedLeft CallbackOnce FinishedCbIffCompleted StartedBeforeFinished AllFinishedOnlyWhenEmpty NoUB
CHECK_DEADLOCK FALSE
