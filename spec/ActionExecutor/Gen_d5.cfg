CONSTANTS
  Bugs = {}
  MaxId = 5
  Depth = 5
SPECIFICATION GSpec
CONSTRAINT EmitBeh
CHECK_DEADLOCK FALSE
