CONSTANTS
  Bugs = {"cur_dangling"}
  MaxId = 3
  MaxOps = 5
SPECIFICATION Spec
CONSTRAINT Bound
INVARIANTS NoUB
CHECK_DEADLOCK FALSE
