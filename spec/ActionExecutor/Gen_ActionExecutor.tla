------------------------- MODULE Gen_ActionExecutor -------------------------
(* Behaviour generator for E04: every sequence of exactly Depth calls of the model (repaired code) is printed as a *)
(* script for the driver.  cancel() is offered the known ids and one unknown id; the two open choices of the model  *)
(* (withStop, withAll) are projected away (one script per call sequence, deduplicated by the check).               *)
EXTENDS ActionExecutor, Json, TLC
CONSTANT Depth
VARIABLE hist
gvars == <<vars, hist>>
H(o, p, k, a) == hist' = Append(hist, [o |-> o, p |-> p, k |-> k, a |-> a])
GInit == Init /\ hist = <<>>
GNext == \/ \E p \in Prio, k \in Kinds : AppendOp(p, k) /\ H("append", p, k, 0)
         \/ \E a \in Ids : FinishOp(a) /\ H("finish", 0, "", a)
         \/ \E a \in 1..(nid + 1) : a \in Ids /\ CancelOp(a) /\ H("cancel", 0, "", a)
         \/ S.pend # <<>> /\ PassOp /\ H("pass", 0, "", 0)
         \/ CancelCurrentOp /\ H("cancelCurrent", 0, "", 0)
         \/ CancelAllOp /\ H("cancelAll", 0, "", 0)
GSpec == GInit /\ [][GNext]_gvars
EmitBeh == IF nops >= Depth THEN PrintT("BEH " \o ToJson(hist)) /\ FALSE ELSE TRUE
=============================================================================
