------------------------ MODULE Trace_ActionExecutor ------------------------
(* Trace validation for E04: every recorded call (append / finish / pass / cancel / cancelCurrent / cancelAll /   *)
(* destroy) must be the corresponding action of ActionExecutor.tla (repaired code, Bugs = {}); the probe hooks and *)
(* executor callbacks recorded after it must be exactly the events the model computes for that call, in order      *)
(* (S.out); the closing `ret` line must carry the model's return value, current() and the live probes with their   *)
(* Action::state().                                                                                                *)
EXTENDS ActionExecutor, Json, IOUtils, TLC
TLog == ndJsonDeserialize(IOEnv.TRACE)
VARIABLES l, inop
ASSUME TLCSet(42, 0)
tvars == <<vars, l, inop>>

Ln == TLog[l]
IsEv(e) == l <= Len(TLog) /\ TLog[l].e = e /\ l' = l + 1
Call(e) == IsEv(e) /\ ~inop /\ inop' = TRUE

Current == IF S.cur = -1 THEN -1 ELSE IF S.q[S.cur] = <<>> THEN -2 ELSE Head(S.q[S.cur])
LiveIds == SelectSeq([i \in 1..nid |-> i], LAMBDA a : S.ast[a] \notin {"none", "deleted"})
LiveSeq == [i \in 1..Len(LiveIds) |-> <<LiveIds[i], S.ast[LiveIds[i]]>>]

TInit == Init /\ l = 1 /\ inop = FALSE
TReset == /\ IsEv("Reset") /\ ~inop /\ lastop = "destroy"
          /\ S' = S0 /\ nid' = 0 /\ ret' = "init" /\ cancelled' = {} /\ lastop' = "init" /\ nops' = 0 /\ UNCHANGED inop
TEvent == /\ l <= Len(TLog) /\ inop /\ S.out # <<>>
          /\ Ln.e = Head(S.out).e /\ Ln.a = Head(S.out).a
          /\ l' = l + 1 /\ S' = [S EXCEPT !.out = Tail(@)] /\ UNCHANGED <<nid, ret, cancelled, lastop, nops, inop>>
TRet == /\ IsEv("ret") /\ inop /\ S.out = <<>>
        /\ Ln.v = ret /\ Ln.cur = Current /\ Ln.live = LiveSeq
        /\ inop' = FALSE /\ UNCHANGED vars
TNext == \/ TReset \/ TEvent \/ TRet
         \/ Call("append") /\ AppendOp(Ln.p, Ln.k)
         \/ Call("finish") /\ FinishOp(Ln.a)
         \/ Call("pass") /\ PassOp
         \/ Call("cancel") /\ CancelOp(Ln.a)
         \/ Call("cancelCurrent") /\ CancelCurrentOp
         \/ Call("cancelAll") /\ CancelAllOp
         \/ Call("destroy") /\ DestroyOp
TSpec == TInit /\ [][TNext]_tvars

Progress == TLCSet(42, IF l > TLCGet(42) THEN l ELSE TLCGet(42))
Accepted == IF TLCGet(42) = Len(TLog) + 1 THEN TRUE ELSE PrintT(<<"MAXPOS", TLCGet(42), Len(TLog)>>) /\ FALSE
=============================================================================
