CONSTANTS
  Bugs = {}
  MaxId = 8
SPECIFICATION TSpec
CONSTRAINT Progress
POSTCONDITION Accepted
INVARIANTS TypeOK MutualExclusion NoUB
CHECK_DEADLOCK FALSE
