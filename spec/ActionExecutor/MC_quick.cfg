CONSTANTS
  Bugs = {}
  MaxId = 4
  MaxOps = 7
SPECIFICATION Spec
CONSTRAINT Bound
INVARIANTS TypeOK MutualExclusion CurConsistent NoIdleWithWork OnlyHeadsActive PausedArePreempted Fifo LiveMatch NoStoppedLeft CallbackOnce FinishedCbIffCompleted StartedBeforeFinished AllFinishedOnlyWhenEmpty NoUB
CHECK_DEADLOCK FALSE
