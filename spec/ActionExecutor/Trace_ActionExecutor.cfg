CONSTANTS
  Bugs = {}
  MaxId = 48
SPECIFICATION TSpec
CONSTRAINT Progress
POSTCONDITION Accepted
INVARIANTS TypeOK MutualExclusion NoUB
CHECK_DEADLOCK FALSE
