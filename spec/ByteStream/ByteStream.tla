----------------------------- MODULE ByteStream -----------------------------
(* C06 - the byte-stream contract of a buffered descriptor / TCP connection,   *)
(* stated at the two boundaries where it can be observed on the real code:     *)
(*   - the public API (send, enable, disable, disconnect, the receive /        *)
(*     send-complete / read-zero / disconnected callbacks), and                *)
(*   - the system calls the object makes on its descriptor (write/read family) *)
(*     plus what the raw peer descriptor reads and writes.                     *)
(* Both directions carry the stream pattern byte(p) = p % P, so a byte string  *)
(* is a list of runs (module Runs) and "in order, exactly once" is "the runs   *)
(* seen continue the stream at the expected offset".                           *)
(* Every action takes what was observed as parameters; nothing about kernel    *)
(* buffer sizes, pass counts or the internal queueing strategy is assumed.     *)
(* The implementation-shaped model BufferedFd.tla is checked by TLC to satisfy *)
(* the same clauses (its invariants); this module is what recorded traces of   *)
(* the real classes are validated against (Trace_BufferedFd.tla).              *)
EXTENDS Runs

VARIABLES tcp,        \* TRUE: TcpServer / TcpClient connection; FALSE: raw BufferedFd
          run,        \* "None" | "Inited" | "Running" | "Gone" (locally disconnected / torn down)
          thr,        \* receive threshold
          sent,       \* bytes handed to send() so far (accepted)
          pend,       \* size of the send() call in progress
          written,    \* bytes the object has written to its descriptor (sum of write() results)
          pgot,       \* bytes the peer has read
          pwrote,     \* bytes the peer has written
          rtot,       \* bytes the object has read from its descriptor
          consumed,   \* bytes consumed by the receive callback
          presented,  \* stream offset up to which bytes were shown to the receive callback
          incb,       \* 1 while inside the receive callback
          pshut,      \* 0 | 1 peer shut down its sending side | 2 peer closed | 3 peer aborted (reset)
          eof,        \* the object has seen read()==0 or a read error
          closeRep,   \* number of peer-close notifications
          wfail,      \* a write or read failed because the peer is gone (EPIPE / ECONNRESET): the connection was reset
          peof,       \* what ended the peer's reading: 0 nothing yet | 1 end-of-file | 2 an error (ECONNRESET)
          clean       \* the local side went away having read everything the peer wrote, and the peer wrote nothing since
cvars == <<tcp, run, thr, sent, pend, written, pgot, pwrote, rtot, consumed, presented, incb, pshut, eof, closeRep, wfail, peof, clean>>

Blank == /\ tcp = FALSE /\ run = "None" /\ thr = 0 /\ sent = 0 /\ pend = 0 /\ written = 0 /\ pgot = 0 /\ pwrote = 0
         /\ rtot = 0 /\ consumed = 0 /\ presented = 0 /\ incb = 0 /\ pshut = 0 /\ eof = FALSE /\ closeRep = 0
         /\ wfail = FALSE /\ peof = 0 /\ clean = FALSE
BlankNext == /\ tcp' = FALSE /\ run' = "None" /\ thr' = 0 /\ sent' = 0 /\ pend' = 0 /\ written' = 0 /\ pgot' = 0
             /\ pwrote' = 0 /\ rtot' = 0 /\ consumed' = 0 /\ presented' = 0 /\ incb' = 0 /\ pshut' = 0 /\ eof' = FALSE
             /\ closeRep' = 0 /\ wfail' = FALSE /\ peof' = 0 /\ clean' = FALSE

Start(isTcp, t) ==
  /\ run = "None" /\ tcp' = isTcp /\ thr' = t /\ run' = (IF isTcp THEN "Running" ELSE "Inited")
  /\ UNCHANGED <<sent, pend, written, pgot, pwrote, rtot, consumed, presented, incb, pshut, eof, closeRep, wfail, peof, clean>>

(* ---- sending ------------------------------------------------------------------------- *)
SendCall(n) ==
  /\ run # "None" /\ pend = 0 /\ n > 0
  /\ pend' = n /\ sent' = sent + n
  /\ UNCHANGED <<tcp, run, thr, written, pgot, pwrote, rtot, consumed, presented, incb, pshut, eof, closeRep, wfail, peof, clean>>

SendRet(ok) ==
  /\ pend > 0 /\ pend' = 0
  /\ IF ok THEN sent' = sent
     ELSE /\ sent' = sent - pend                 \* refused: none of it may have been written
          /\ written <= sent - pend
          /\ run = "Gone"                        \* a live stream accepts what it is given
  /\ UNCHANGED <<tcp, run, thr, written, pgot, pwrote, rtot, consumed, presented, incb, pshut, eof, closeRep, wfail, peof, clean>>

(* The connection was reset: the peer aborted, or the object wrote into a connection the peer had already closed   *)
(* (the peer's kernel answers with a reset and throws away what it had not transmitted yet).  Bytes the peer wrote *)
(* may then never arrive - that is the kernel's doing, outside the statement.                                       *)
Broken == pshut = 3 \/ wfail

(* the object wrote to its descriptor: the bytes the kernel took must continue the stream exactly where the   *)
(* previous write stopped, and must have been handed to send() before (in order, exactly once, nothing invented) *)
SysWrite(ret, runs, again) ==
  /\ run # "None"
  /\ IF ret > 0 THEN /\ runs = Run(written, ret) /\ written + ret <= sent
                     /\ written' = written + ret /\ wfail' = wfail
     ELSE IF ret = 0 THEN UNCHANGED <<written, wfail, peof, clean>>
     ELSE /\ (again \/ pshut >= 2)               \* EAGAIN, or the peer is gone (EPIPE / ECONNRESET)
          /\ wfail' = (wfail \/ ~again) /\ written' = written
  /\ UNCHANGED <<tcp, run, thr, sent, pend, pgot, pwrote, rtot, consumed, presented, incb, pshut, eof, closeRep, peof, clean>>

(* the raw peer read n bytes: they continue the stream; end-of-file only after the local side went away *)
PeerRead(n, runs, sawEof, sawErr) ==
  /\ run # "None"
  /\ runs = Run(pgot, n) /\ pgot + n <= written /\ pgot' = pgot + n
  /\ sawEof => run = "Gone"
  /\ peof' = (IF sawEof /\ peof = 0 THEN (IF sawErr THEN 2 ELSE 1) ELSE peof)
  /\ UNCHANGED <<tcp, run, thr, sent, pend, written, pwrote, rtot, consumed, presented, incb, pshut, eof, closeRep, wfail, clean>>

SendComplete ==
  /\ run # "None"
  /\ (written = sent \/ wfail)     \* only when everything queued so far has been written (bytes refused by a
                                   \* descriptor whose peer is gone - EPIPE - are outside the statement)
  /\ UNCHANGED cvars

(* ---- receiving ----------------------------------------------------------------------- *)
PeerWrite(ret) ==
  /\ run # "None" /\ pshut = 0 /\ pwrote' = pwrote + ret
  /\ clean' = (clean /\ ret = 0)      \* writing into a connection the local side has left provokes a reset
  /\ UNCHANGED <<tcp, run, thr, sent, pend, written, pgot, rtot, consumed, presented, incb, pshut, eof, closeRep, wfail, peof>>

PeerShut(how) ==
  /\ run # "None" /\ pshut < how /\ pshut' = how
  /\ UNCHANGED <<tcp, run, thr, sent, pend, written, pgot, pwrote, rtot, consumed, presented, incb, eof, closeRep, wfail, peof, clean>>

SysRead(ret, runs, again) ==
  /\ run # "None"
  /\ IF ret > 0 THEN /\ runs = Run(rtot, ret) /\ rtot + ret <= pwrote /\ rtot' = rtot + ret /\ eof' = eof /\ wfail' = wfail
     ELSE IF ret = 0 THEN /\ pshut # 0 /\ (rtot = pwrote \/ Broken) /\ eof' = TRUE /\ rtot' = rtot /\ wfail' = wfail
     ELSE /\ (again \/ pshut >= 2) /\ eof' = (eof \/ ~again) /\ rtot' = rtot
          /\ wfail' = (wfail \/ ~again)          \* ECONNRESET: the connection was reset
  /\ UNCHANGED <<tcp, run, thr, sent, pend, written, pgot, pwrote, consumed, presented, incb, pshut, closeRep, peof, clean>>

(* the receive callback is shown exactly the read-but-unconsumed bytes: in order, nothing lost or duplicated, *)
(* what an earlier callback left unconsumed comes again together with the later data; never after the close report *)
RecvCall(len, runs) ==
  /\ run # "None" /\ incb = 0 /\ closeRep = 0
  /\ len = rtot - consumed /\ runs = Run(consumed, len)
  /\ presented' = rtot /\ incb' = 1
  /\ UNCHANGED <<tcp, run, thr, sent, pend, written, pgot, pwrote, rtot, consumed, pshut, eof, closeRep, wfail, peof, clean>>

RecvRet(c) ==
  /\ incb = 1 /\ c <= rtot - consumed
  /\ consumed' = consumed + c /\ incb' = 0
  /\ UNCHANGED <<tcp, run, thr, sent, pend, written, pgot, pwrote, rtot, presented, pshut, eof, closeRep, wfail, peof, clean>>

(* bind() mode: what is read goes to the bound ByteStream instead of the callback.  The receiver is handed exactly the   *)
(* read-but-unconsumed bytes - including what the callback had left unconsumed before bind() - so "consumed by the      *)
(* callback" followed by "forwarded" is the peer's stream: no hole and no duplicate at the switch-over.                 *)
Forward(len, runs) ==
  /\ run # "None" /\ incb = 0 /\ closeRep = 0
  /\ len = rtot - consumed /\ runs = Run(consumed, len)
  /\ presented' = rtot /\ consumed' = rtot
  /\ UNCHANGED <<tcp, run, thr, sent, pend, written, pgot, pwrote, rtot, incb, pshut, eof, closeRep, wfail, peof, clean>>

(* peer close reported exactly once, after all data that preceded it *)
Delivered == rtot - consumed >= thr => presented = rtot
CloseReport ==
  /\ run # "None" /\ incb = 0
  /\ closeRep = 0 /\ pshut # 0 /\ eof /\ Delivered
  /\ (rtot = pwrote \/ Broken)          \* a reset may take unread bytes with it (kernel); what WAS read must have been delivered
  /\ closeRep' = 1 /\ run' = (IF tcp THEN "Gone" ELSE run)
  /\ clean' = (IF tcp THEN rtot = pwrote ELSE clean)
  /\ UNCHANGED <<tcp, thr, sent, pend, written, pgot, pwrote, rtot, consumed, presented, incb, pshut, eof, wfail, peof>>

(* ---- control --------------------------------------------------------------------------- *)
Enable(ok) ==
  /\ ~tcp /\ run \in {"Inited", "Running"} /\ ok /\ run' = "Running"
  /\ UNCHANGED <<tcp, thr, sent, pend, written, pgot, pwrote, rtot, consumed, presented, incb, pshut, eof, closeRep, wfail, peof, clean>>
Disable(ok) ==
  /\ ~tcp /\ run \in {"Inited", "Running"} /\ ok /\ run' = "Inited"
  /\ UNCHANGED <<tcp, thr, sent, pend, written, pgot, pwrote, rtot, consumed, presented, incb, pshut, eof, closeRep, wfail, peof, clean>>
Disconnect(ok) ==
  /\ tcp /\ run # "None" /\ ok \in BOOLEAN /\ run' = "Gone"      \* the return value is not part of the statement
  /\ clean' = (IF run = "Gone" THEN clean ELSE rtot = pwrote)
  /\ UNCHANGED <<tcp, thr, sent, pend, written, pgot, pwrote, rtot, consumed, presented, incb, pshut, eof, closeRep, wfail, peof>>

(* ---- quiescence: the driver let the loop run and the peer read until nothing moved any more ------------- *)
(* A running stream whose peer is still there has by then delivered everything handed to it (however the     *)
(* sends were sized and paced, whether issued before enable() or while disabled), has read and presented      *)
(* everything the peer wrote, and has reported a peer close.                                                  *)
Settled ==
  /\ run # "None" /\ pend = 0 /\ incb = 0
  /\ (run = "Running" /\ pshut = 0 /\ ~wfail) => (written = sent /\ pgot = written)
  /\ run = "Running" => (rtot = pwrote /\ Delivered /\ pshut = 0)
  \* The local side went away (disconnect / stop, or teardown after the peer's half close) while the peer can still
  \* read, with no unread input of its own and nothing written into it afterwards: the descriptor is closed gracefully,
  \* i.e. every byte that had been WRITTEN to it (what send-complete vouches for; bytes still in the object's own
  \* queue at a local disconnect are dropped by design) reaches the peer, followed by end-of-file - not a reset.
  /\ (tcp /\ run = "Gone" /\ clean /\ pshut <= 1) => (pgot = written /\ peof = 1)
  /\ UNCHANGED cvars
=============================================================================
