----------------------------- MODULE ByteStream -----------------------------
(* C06 - the byte-stream contract of a buffered descriptor / TCP connection,   *)
(* stated at the two boundaries where it can be observed on the real code:     *)
(*   - the public API (send, enable, disable, disconnect, the receive /        *)
(*     send-complete / read-zero / disconnected callbacks), and                *)
(*   - the system calls the object makes on its descriptor (write/read family) *)
(*     plus what the raw peer descriptor reads and writes.                     *)
(* Both directions carry the stream pattern byte(p) = p % P, so a byte string  *)
(* is a list of runs (module Runs) and "in order, exactly once" is "the runs   *)
(* seen continue the stream at the expected offset".                           *)
(* Every action takes what was observed as parameters; nothing about kernel    *)
(* buffer sizes, pass counts or the internal queueing strategy is assumed.     *)
(* The implementation-shaped model BufferedFd.tla is checked by TLC to satisfy *)
(* the same clauses (its invariants); this module is what recorded traces of   *)
(* the real classes are validated against (Trace_BufferedFd.tla).              *)
EXTENDS Runs

VARIABLES tcp,        \* TRUE: TcpServer / TcpClient connection; FALSE: raw BufferedFd
          run,        \* "None" | "Inited" | "Running" | "Gone" (locally disconnected / torn down)
          thr,        \* receive threshold
          sent,       \* bytes handed to send() so far (accepted)
          pend,       \* size of the send() call in progress
          written,    \* bytes the object has written to its descriptor (sum of write() results)
          pgot,       \* bytes the peer has read
          pwrote,     \* bytes the peer has written
          rtot,       \* bytes the object has read from its descriptor
          consumed,   \* bytes consumed by the receive callback
          presented,  \* stream offset up to which bytes were shown to the receive callback
          incb,       \* 1 while inside the receive callback
          pshut,      \* 0 | 1 peer shut down its sending side | 2 peer closed
          eof,        \* the object has seen read()==0 or a read error
          closeRep,   \* number of peer-close notifications
          wfail       \* a write failed because the peer is gone
cvars == <<tcp, run, thr, sent, pend, written, pgot, pwrote, rtot, consumed, presented, incb, pshut, eof, closeRep, wfail>>

Blank == /\ tcp = FALSE /\ run = "None" /\ thr = 0 /\ sent = 0 /\ pend = 0 /\ written = 0 /\ pgot = 0 /\ pwrote = 0
         /\ rtot = 0 /\ consumed = 0 /\ presented = 0 /\ incb = 0 /\ pshut = 0 /\ eof = FALSE /\ closeRep = 0
         /\ wfail = FALSE
BlankNext == /\ tcp' = FALSE /\ run' = "None" /\ thr' = 0 /\ sent' = 0 /\ pend' = 0 /\ written' = 0 /\ pgot' = 0
             /\ pwrote' = 0 /\ rtot' = 0 /\ consumed' = 0 /\ presented' = 0 /\ incb' = 0 /\ pshut' = 0 /\ eof' = FALSE
             /\ closeRep' = 0 /\ wfail' = FALSE

Start(isTcp, t) ==
  /\ run = "None" /\ tcp' = isTcp /\ thr' = t /\ run' = (IF isTcp THEN "Running" ELSE "Inited")
  /\ UNCHANGED <<sent, pend, written, pgot, pwrote, rtot, consumed, presented, incb, pshut, eof, closeRep, wfail>>

(* ---- sending ------------------------------------------------------------------------- *)
SendCall(n) ==
  /\ run # "None" /\ pend = 0 /\ n > 0
  /\ pend' = n /\ sent' = sent + n
  /\ UNCHANGED <<tcp, run, thr, written, pgot, pwrote, rtot, consumed, presented, incb, pshut, eof, closeRep, wfail>>

SendRet(ok) ==
  /\ pend > 0 /\ pend' = 0
  /\ IF ok THEN sent' = sent
     ELSE /\ sent' = sent - pend                 \* refused: none of it may have been written
          /\ written <= sent - pend
          /\ run = "Gone"                        \* a live stream accepts what it is given
  /\ UNCHANGED <<tcp, run, thr, written, pgot, pwrote, rtot, consumed, presented, incb, pshut, eof, closeRep, wfail>>

(* the object wrote to its descriptor: the bytes the kernel took must continue the stream exactly where the   *)
(* previous write stopped, and must have been handed to send() before (in order, exactly once, nothing invented) *)
SysWrite(ret, runs, again) ==
  /\ run # "None"
  /\ IF ret > 0 THEN /\ runs = Run(written, ret) /\ written + ret <= sent
                     /\ written' = written + ret /\ wfail' = wfail
     ELSE IF ret = 0 THEN UNCHANGED <<written, wfail>>
     ELSE /\ (again \/ pshut = 2)                \* EAGAIN, or the peer is gone (EPIPE / ECONNRESET)
          /\ wfail' = (wfail \/ ~again) /\ written' = written
  /\ UNCHANGED <<tcp, run, thr, sent, pend, pgot, pwrote, rtot, consumed, presented, incb, pshut, eof, closeRep>>

(* the raw peer read n bytes: they continue the stream; end-of-file only after the local side went away *)
PeerRead(n, runs, sawEof) ==
  /\ run # "None"
  /\ runs = Run(pgot, n) /\ pgot + n <= written /\ pgot' = pgot + n
  /\ sawEof => run = "Gone"
  /\ UNCHANGED <<tcp, run, thr, sent, pend, written, pwrote, rtot, consumed, presented, incb, pshut, eof, closeRep, wfail>>

SendComplete ==
  /\ run # "None"
  /\ (written = sent \/ wfail)     \* only when everything queued so far has been written (bytes refused by a
                                   \* descriptor whose peer is gone - EPIPE - are outside the statement)
  /\ UNCHANGED cvars

(* ---- receiving ----------------------------------------------------------------------- *)
PeerWrite(ret) ==
  /\ run # "None" /\ pshut = 0 /\ pwrote' = pwrote + ret
  /\ UNCHANGED <<tcp, run, thr, sent, pend, written, pgot, rtot, consumed, presented, incb, pshut, eof, closeRep, wfail>>

PeerShut(how) ==
  /\ run # "None" /\ pshut < how /\ pshut' = how
  /\ UNCHANGED <<tcp, run, thr, sent, pend, written, pgot, pwrote, rtot, consumed, presented, incb, eof, closeRep, wfail>>

SysRead(ret, runs, again) ==
  /\ run # "None"
  /\ IF ret > 0 THEN /\ runs = Run(rtot, ret) /\ rtot + ret <= pwrote /\ rtot' = rtot + ret /\ eof' = eof
     ELSE IF ret = 0 THEN /\ pshut # 0 /\ rtot = pwrote /\ eof' = TRUE /\ rtot' = rtot
     ELSE /\ (again \/ pshut = 2) /\ eof' = (eof \/ ~again) /\ rtot' = rtot
  /\ UNCHANGED <<tcp, run, thr, sent, pend, written, pgot, pwrote, consumed, presented, incb, pshut, closeRep, wfail>>

(* the receive callback is shown exactly the read-but-unconsumed bytes: in order, nothing lost or duplicated, *)
(* what an earlier callback left unconsumed comes again together with the later data; never after the close report *)
RecvCall(len, runs) ==
  /\ run # "None" /\ incb = 0 /\ closeRep = 0
  /\ len = rtot - consumed /\ runs = Run(consumed, len)
  /\ presented' = rtot /\ incb' = 1
  /\ UNCHANGED <<tcp, run, thr, sent, pend, written, pgot, pwrote, rtot, consumed, pshut, eof, closeRep, wfail>>

RecvRet(c) ==
  /\ incb = 1 /\ c <= rtot - consumed
  /\ consumed' = consumed + c /\ incb' = 0
  /\ UNCHANGED <<tcp, run, thr, sent, pend, written, pgot, pwrote, rtot, presented, pshut, eof, closeRep, wfail>>

(* peer close reported exactly once, after all data that preceded it *)
Delivered == rtot - consumed >= thr => presented = rtot
CloseReport ==
  /\ run # "None" /\ incb = 0
  /\ closeRep = 0 /\ pshut # 0 /\ eof /\ rtot = pwrote /\ Delivered
  /\ closeRep' = 1 /\ run' = (IF tcp THEN "Gone" ELSE run)
  /\ UNCHANGED <<tcp, thr, sent, pend, written, pgot, pwrote, rtot, consumed, presented, incb, pshut, eof, wfail>>

(* ---- control --------------------------------------------------------------------------- *)
Enable(ok) ==
  /\ ~tcp /\ run \in {"Inited", "Running"} /\ ok /\ run' = "Running"
  /\ UNCHANGED <<tcp, thr, sent, pend, written, pgot, pwrote, rtot, consumed, presented, incb, pshut, eof, closeRep, wfail>>
Disable(ok) ==
  /\ ~tcp /\ run \in {"Inited", "Running"} /\ ok /\ run' = "Inited"
  /\ UNCHANGED <<tcp, thr, sent, pend, written, pgot, pwrote, rtot, consumed, presented, incb, pshut, eof, closeRep, wfail>>
Disconnect(ok) ==
  /\ tcp /\ run # "None" /\ ok \in BOOLEAN /\ run' = "Gone"      \* the return value is not part of the statement
  /\ UNCHANGED <<tcp, thr, sent, pend, written, pgot, pwrote, rtot, consumed, presented, incb, pshut, eof, closeRep, wfail>>

(* ---- quiescence: the driver let the loop run and the peer read until nothing moved any more ------------- *)
(* A running stream whose peer is still there has by then delivered everything handed to it (however the     *)
(* sends were sized and paced, whether issued before enable() or while disabled), has read and presented      *)
(* everything the peer wrote, and has reported a peer close.                                                  *)
Settled ==
  /\ run # "None" /\ pend = 0 /\ incb = 0
  /\ (run = "Running" /\ pshut = 0 /\ ~wfail) => (written = sent /\ pgot = written)
  /\ run = "Running" => (rtot = pwrote /\ Delivered /\ pshut = 0)
  /\ UNCHANGED cvars
=============================================================================
