CONSTANTS
  P = 251
SPECIFICATION TSpec
CONSTRAINT Progress
POSTCONDITION Accepted
CHECK_DEADLOCK FALSE
