------------------------- MODULE Trace_BufferedFd -------------------------
(* Trace validation for C06: every line of the ndjson trace recorded from the real BufferedFd /    *)
(* TcpServer / TcpClient (harness/c06_bytestream/driver.cpp) must be the corresponding action of   *)
(* the contract ByteStream with the logged observations.  All state is bound from observations, so *)
(* validation is linear; a line no action accepts (incl. Fault) makes the trace unacceptable.      *)
EXTENDS ByteStream, Json, IOUtils, TLC
Log == ndJsonDeserialize(IOEnv.TRACE)
VARIABLE l
ASSUME TLCSet(42, 0)
tvars == <<cvars, l>>

Ev == Log[l]
IsEv(e) == l <= Len(Log) /\ Log[l].e = e /\ l' = l + 1

TInit == Blank /\ l = 1
TNext ==
  \/ IsEv("Reset") /\ BlankNext
  \/ IsEv("Init") /\ Start(Ev.tcp, Ev.thr)
  \/ IsEv("Send") /\ SendCall(Ev.n)
  \/ IsEv("SendRet") /\ SendRet(Ev.ret)
  \/ IsEv("W") /\ SysWrite(Ev.ret, Ev.runs, Ev.again)
  \/ IsEv("R") /\ SysRead(Ev.ret, Ev.runs, Ev.again)
  \/ IsEv("PRead") /\ PeerRead(Ev.n, Ev.runs, Ev.eof, Ev.err # 0)
  \/ IsEv("PWrite") /\ PeerWrite(Ev.ret)
  \/ IsEv("PShut") /\ PeerShut(Ev.how)
  \/ IsEv("Recv") /\ RecvCall(Ev.len, Ev.runs)
  \/ IsEv("RecvRet") /\ RecvRet(Ev.c)
  \/ IsEv("Fwd") /\ Forward(Ev.len, Ev.runs)
  \/ IsEv("Shrink") /\ UNCHANGED cvars              \* shrinkSendBuffer() / shrinkRecvBuffer(): no effect on the streams
  \/ IsEv("Bind") /\ UNCHANGED cvars
  \/ IsEv("Unbind") /\ UNCHANGED cvars
  \/ IsEv("Complete") /\ SendComplete
  \/ IsEv("CompleteRet") /\ UNCHANGED cvars          \* callback brackets: only tell which calls were made from inside
  \/ IsEv("CloseRet") /\ UNCHANGED cvars
  \/ IsEv("Close") /\ CloseReport
  \/ IsEv("Enable") /\ Enable(Ev.ret)
  \/ IsEv("Disable") /\ Disable(Ev.ret)
  \/ IsEv("Disconnect") /\ Disconnect(Ev.ret)
  \/ IsEv("Settled") /\ Settled
TSpec == TInit /\ [][TNext]_tvars

Progress == TLCSet(42, IF l > TLCGet(42) THEN l ELSE TLCGet(42))
Accepted == IF TLCGet(42) = Len(Log) + 1 THEN TRUE ELSE PrintT(<<"MAXPOS", TLCGet(42), Len(Log)>>) /\ FALSE
=============================================================================
