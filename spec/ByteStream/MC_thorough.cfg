CONSTANTS
  K = 3
  KI = 2
  MaxSend = 4
  MaxTotal = 8
  MaxPeer = 4
  Thrs = {0, 2}
  Tcp = FALSE
  MaxDisable = 2
  UserDisablesOnEof = TRUE
  Bugs = {}
SPECIFICATION Spec
INVARIANTS TypeOK StreamConserved SendCompleteOnlyWhenDrained Progress RecvInOrderOnce CloseOnceAfterData NoDeleteInCallback
CHECK_DEADLOCK FALSE
