\* as found: enable() does not arm the write event (bytes queued before enable() / while disabled are stuck)
CONSTANTS
  K = 2
  KI = 2
  MaxSend = 2
  MaxTotal = 4
  MaxPeer = 3
  Thrs = {0, 2}
  Tcp = FALSE
  MaxDisable = 1
  UserDisablesOnEof = TRUE
  Bugs = {"noarm"}
SPECIFICATION Spec
INVARIANTS Progress
CHECK_DEADLOCK FALSE
