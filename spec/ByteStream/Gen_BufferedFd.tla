-------------------------- MODULE Gen_BufferedFd --------------------------
(* Behaviour generator for C06.  Every behaviour of the implementation-shaped model up to Depth      *)
(* environment steps (BFS: exhaustive; -simulate: random deep ones) is projected to what the          *)
(* environment did - send sizes, enable/disable/disconnect, the peer's reads, writes and close, loop  *)
(* passes, how much the receive callback consumed, and the calls made from inside a callback - and     *)
(* printed as a JSON script.  The C++ driver executes each script on the real classes; how much the    *)
(* real kernel takes per write is not under the script's control and is simply recorded.               *)
EXTENDS BufferedFd, Integers, Json, TLC
CONSTANT Depth
VARIABLE hist
gvars == <<vars, hist>>

Pass(w) == [o |-> "pass", c |-> -1, w |-> w, in |-> <<>>]
\* a call made while a user callback is on the stack goes into the "in" list of the pass that entered it
H(op) == hist' = IF cb # 0 THEN [hist EXCEPT ![Len(hist)].in = Append(@, op)] ELSE Append(hist, op)

GInit == Init /\ hist = <<>>
GNext ==
  \/ \E n \in 1 .. MaxSend : Send(n) /\ H([o |-> "send", n |-> n])
  \/ Enable /\ H([o |-> "enable"])
  \/ Disable /\ H([o |-> "disable"])
  \/ LocalDisconnect /\ H([o |-> "disconnect"])
  \/ \E m \in 1 .. K : PeerRead(m) /\ H([o |-> "pread", n |-> m])
  \/ \E m \in 1 .. KI : PeerWrite(m) /\ H([o |-> "pwrite", n |-> m])
  \/ PeerClose /\ H([o |-> "pshut"])
  \/ PeerAbort /\ H([o |-> "pabort"])
  \/ Bind /\ H([o |-> "bind"])
  \/ Unbind /\ H([o |-> "unbind"])
  \* shrinkSendBuffer() / shrinkRecvBuffer() change nothing in the model (only where the bytes are stored)
  \/ sendq # <<>> /\ UNCHANGED vars /\ H([o |-> "shrinks"])
  \/ rbuf # <<>> /\ UNCHANGED vars /\ H([o |-> "shrinkr"])
  \/ WritableCb /\ hist' = Append(hist, Pass(IF cb' # 0 THEN "complete" ELSE "none"))
  \/ CompleteExit /\ UNCHANGED hist
  \/ RunNextDelete /\ hist' = Append(hist, Pass("none"))
  \/ RecvEnter /\ hist' = Append(hist, Pass("recv"))
  \/ \E c \in 0 .. MaxPeer : RecvExit(c) /\ hist' = [hist EXCEPT ![Len(hist)].c = IF c = Len(rbuf) THEN -1 ELSE c]
  \/ ReadZeroEnter /\ hist' = Append(hist, Pass("close"))
  \/ ReadZeroExit /\ UNCHANGED hist
GSpec == GInit /\ [][GNext]_gvars
Emit == IF TLCGet("level") > Depth THEN PrintT("BEH " \o ToJson([thr |-> thr, ops |-> hist])) /\ FALSE ELSE TRUE
=============================================================================
