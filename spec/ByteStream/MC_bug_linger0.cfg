CONSTANTS
  K = 2
  KI = 2
  MaxSend = 2
  MaxTotal = 4
  MaxPeer = 3
  Thrs = {0, 2}
  Tcp = TRUE
  MaxDisable = 1
  UserDisablesOnEof = TRUE
  Bugs = {"linger0"}
SPECIFICATION Spec
INVARIANTS StreamConserved
CHECK_DEADLOCK FALSE
