CONSTANTS
  K = 2
  KI = 2
  MaxSend = 2
  MaxTotal = 6
  MaxPeer = 2
  Thrs = {0, 2}
  Tcp = FALSE
  MaxDisable = 1
  UserDisablesOnEof = TRUE
  Bugs = {}
  Depth = 14
SPECIFICATION GSpec
CONSTRAINT Emit
CHECK_DEADLOCK FALSE
