CONSTANTS
  K = 2
  KI = 2
  MaxSend = 2
  MaxTotal = 4
  MaxPeer = 3
  Thrs = {0, 2}
  Tcp = FALSE
  MaxDisable = 1
  UserDisablesOnEof = TRUE
  Bugs = {"fastpath"}
SPECIFICATION Spec
INVARIANTS RecvInOrderOnce
CHECK_DEADLOCK FALSE
