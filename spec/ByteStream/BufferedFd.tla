----------------------------- MODULE BufferedFd -----------------------------
(* C06 - implementation-shaped model of tbox::network::BufferedFd             *)
(* (buffered_fd.cpp) and of the TcpConnection wrapper around it               *)
(* (tcp_connection.cpp: enabled from birth, deferred teardown).               *)
(*                                                                            *)
(* Bytes are abstracted to their stream offsets 1, 2, 3 ...: the queues are   *)
(* sequences of offsets, so loss, duplication and reordering are visible.     *)
(*   send path :  user --Send--> sendq --write()--> kout --PeerRead--> got    *)
(*   recv path :  peer --PeerWrite--> kin --readv()--> rbuf --callback--> user *)
(* kout / kin are the kernel buffers (capacities K / KI); every write() moves  *)
(* a nondeterministic amount k (partial writes, EAGAIN = 0).                   *)
(* One action per public call (Send, Enable, Disable, LocalDisconnect), per    *)
(* descriptor callback of a loop pass (WritableCb, RecvEnter/RecvExit,         *)
(* ReadZeroEnter/ReadZeroExit), per deferred task (RunNextDelete) and per      *)
(* move of the peer (PeerRead, PeerWrite, PeerClose).  User callbacks are      *)
(* split in Enter/Exit so that calls made from inside them (send, disconnect)  *)
(* and the deferred destruction can interleave.                                *)
(*                                                                            *)
(* Bugs = {} is the intended behaviour.  Each element of Bugs switches one     *)
(* action to a defective variant; "noarm" is what the code did as found        *)
(* (enable() never armed the write event).  The properties are separate        *)
(* invariants, never enabling conditions.                                      *)
EXTENDS Naturals, Sequences

CONSTANTS K,            \* capacity of the kernel buffer towards the peer
          KI,           \* capacity of the kernel buffer from the peer
          MaxSend,      \* largest single send
          MaxTotal,     \* bound on the bytes handed to send()
          MaxPeer,      \* bound on the bytes the peer writes
          Thrs,         \* receive thresholds to explore
          Tcp,          \* TRUE: TcpConnection (running from birth, teardown on close / disconnect)
          MaxDisable,   \* bound on disable() calls (environment bound)
          UserDisablesOnEof, \* raw BufferedFd: the read-zero callback disables the descriptor (as TcpConnection does)
          Bugs

VARIABLES st,           \* "Inited" | "Running"                      (state_)
          alive,        \* "alive" | "detached" (swapped out, delete posted with runNext) | "freed"
          cb,           \* 1 / 2 / 3 while inside the receive / read-zero / send-complete callback of this object (cb_level_)
          sendq,        \* send_buff_ : offsets accepted but not yet written
          kout,         \* offsets written to the kernel, not yet read by the peer
          got,          \* offsets the peer has read, in the order it read them
          wrArmed,      \* write event enabled
          kin,          \* offsets written by the peer, not yet read by readv()
          rbuf,         \* recv_buff_ : offsets read, not yet consumed by the user
          thr,          \* receive threshold
          bound,        \* bind(): a receiver ByteStream is bound; what is read is forwarded to it instead of the callback
          pclosed,      \* the peer closed (its side of) the stream
          pabort,       \* ... by aborting (RST): the read that finds the kernel empty fails with ECONNRESET instead of returning 0
          eofRep,       \* number of read-zero / disconnected notifications
          \* ghosts
          nsent,        \* bytes accepted by send()
          npw,          \* bytes written by the peer
          consumed,     \* bytes consumed by the receive callback
          presented,    \* highest offset shown to the receive callback
          pres, presFrom, \* last presentation and the consumed count at that time
          lastComplete, \* TRUE in the state right after a send-complete notification
          ndis
vars == <<st, alive, cb, sendq, kout, got, wrArmed, kin, rbuf, thr, bound, pclosed, pabort, eofRep,
          nsent, npw, consumed, presented, pres, presFrom, lastComplete, ndis>>

Seg(a, n)  == [i \in 1..n |-> a + i]               \* offsets a+1 .. a+n
Min(a, b)  == IF a < b THEN a ELSE b
Take(s, k) == SubSeq(s, 1, k)
Drop(s, k) == SubSeq(s, k + 1, Len(s))
readTot    == npw - Len(kin)                        \* bytes read from the kernel so far

Init ==
  /\ st = (IF Tcp THEN "Running" ELSE "Inited") /\ alive = "alive" /\ cb = 0
  /\ sendq = <<>> /\ kout = <<>> /\ got = <<>> /\ wrArmed = FALSE
  /\ kin = <<>> /\ rbuf = <<>> /\ thr \in Thrs /\ bound = FALSE /\ pclosed = FALSE /\ pabort = FALSE /\ eofRep = 0
  /\ nsent = 0 /\ npw = 0 /\ consumed = 0 /\ presented = 0 /\ pres = <<>> /\ presFrom = 0
  /\ lastComplete = FALSE /\ ndis = 0

(* --- BufferedFd::send ------------------------------------------------------ *)
Send(n) ==
  /\ alive = "alive" /\ nsent + n <= MaxTotal
  /\ nsent' = nsent + n
  /\ LET new == Seg(nsent, n) IN
     IF st # "Running" \/ (sendq # <<>> /\ "directq" \notin Bugs)
     THEN sendq' = sendq \o new /\ UNCHANGED <<kout, wrArmed>>       \* only appended
     ELSE \E k \in 0 .. Min(n, K - Len(kout)) :                      \* direct write(); k = 0 is EAGAIN
            /\ kout' = kout \o Take(new, k)
            /\ sendq' = sendq \o Drop(new, k)
            /\ wrArmed' = TRUE
  /\ lastComplete' = FALSE
  /\ UNCHANGED <<st, alive, cb, got, kin, rbuf, thr, bound, pclosed, pabort, eofRep, npw, consumed, presented, pres, presFrom, ndis>>

(* --- BufferedFd::enable / disable ------------------------------------------ *)
Enable ==
  /\ ~Tcp /\ alive = "alive" /\ st = "Inited"
  /\ eofRep = 0                      \* environment: a descriptor whose peer closed is not re-enabled
  /\ st' = "Running"
  /\ wrArmed' = (sendq # <<>> /\ "noarm" \notin Bugs)    \* intended: queued bytes must get their write event
  /\ lastComplete' = FALSE
  /\ UNCHANGED <<alive, cb, sendq, kout, got, kin, rbuf, thr, bound, pclosed, pabort, eofRep, nsent, npw, consumed, presented, pres, presFrom, ndis>>

Disable ==
  /\ ~Tcp /\ alive = "alive" /\ st = "Running" /\ ndis < MaxDisable
  /\ st' = "Inited" /\ wrArmed' = FALSE /\ ndis' = ndis + 1
  /\ lastComplete' = FALSE
  /\ UNCHANGED <<alive, cb, sendq, kout, got, kin, rbuf, thr, bound, pclosed, pabort, eofRep, nsent, npw, consumed, presented, pres, presFrom>>

(* --- onWriteCallback --------------------------------------------------------- *)
(* Empty queue: disarm FIRST, then notify send-complete (cb = 3 while the user callback is on the stack, so a   *)
(* send() / disable() / disconnect() made from inside it interleaves: a re-entrant send() that is written only  *)
(* partly queues its remainder and arms the write event again).                                                  *)
(* Bug "latedisarm": the notification is given in the same write event that drained the backlog and the write   *)
(* event is switched off only after the callback returned (cb = 4) - which undoes the arming of a re-entrant send. *)
WritableCb ==
  /\ st = "Running" /\ wrArmed /\ cb = 0 /\ Len(kout) < K
  /\ IF sendq = <<>>
     THEN /\ wrArmed' = FALSE /\ lastComplete' = TRUE /\ cb' = 3            \* send-complete notification
          /\ UNCHANGED <<sendq, kout>>
     ELSE \E k \in 1 .. Min(Len(sendq), K - Len(kout)) :
            /\ kout' = kout \o Take(sendq, k)
            /\ sendq' = (IF "readall" \in Bugs THEN <<>> ELSE Drop(sendq, k))
            /\ IF "latedisarm" \in Bugs /\ k = Len(sendq)
               THEN lastComplete' = TRUE /\ cb' = 4
               ELSE lastComplete' = ("complete_early" \in Bugs) /\ cb' = cb
            /\ UNCHANGED wrArmed
  /\ UNCHANGED <<st, alive, got, kin, rbuf, thr, bound, pclosed, pabort, eofRep, nsent, npw, consumed, presented, pres, presFrom, ndis>>

CompleteExit ==                     \* the send-complete callback returns
  /\ cb \in {3, 4}
  /\ cb' = 0 /\ lastComplete' = FALSE
  /\ wrArmed' = (IF cb = 4 THEN FALSE ELSE wrArmed)
  /\ UNCHANGED <<st, alive, sendq, kout, got, kin, rbuf, thr, bound, pclosed, pabort, eofRep, nsent, npw, consumed, presented, pres, presFrom, ndis>>

(* --- the peer ------------------------------------------------------------------ *)
PeerRead(m) ==
  /\ m \in 1 .. Len(kout)
  /\ got' = got \o Take(kout, m) /\ kout' = Drop(kout, m)
  /\ lastComplete' = FALSE
  /\ UNCHANGED <<st, alive, cb, sendq, wrArmed, kin, rbuf, thr, bound, pclosed, pabort, eofRep, nsent, npw, consumed, presented, pres, presFrom, ndis>>

PeerWrite(m) ==
  /\ ~pclosed /\ npw + m <= MaxPeer /\ Len(kin) + m <= KI
  /\ kin' = kin \o Seg(npw, m) /\ npw' = npw + m
  /\ lastComplete' = FALSE
  /\ UNCHANGED <<st, alive, cb, sendq, kout, got, wrArmed, rbuf, thr, bound, pclosed, pabort, eofRep, nsent, consumed, presented, pres, presFrom, ndis>>

PeerClose ==
  /\ ~pclosed /\ pclosed' = TRUE /\ pabort' = pabort
  /\ lastComplete' = FALSE
  /\ UNCHANGED <<st, alive, cb, sendq, kout, got, wrArmed, kin, rbuf, thr, bound, eofRep, nsent, npw, consumed, presented, pres, presFrom, ndis>>

(* the peer aborts (SO_LINGER 0 + close, or close with unread input): data it wrote just before is still in kin; *)
(* the drain loop of the read callback reads it and then runs into ECONNRESET in the same wake-up.                *)
PeerAbort ==
  /\ ~pclosed /\ pclosed' = TRUE /\ pabort' = TRUE
  /\ lastComplete' = FALSE
  /\ UNCHANGED <<st, alive, cb, sendq, kout, got, wrArmed, kin, rbuf, thr, bound, eofRep, nsent, npw, consumed, presented, pres, presFrom, ndis>>

(* Intended: the bytes read before the error are delivered first (RecvEnter); the close is reported by a later     *)
(* wake-up (ReadZeroEnter: read error or read zero).  Bug "error_first": the error that ended the drain loop is    *)
(* reported before the data read in the same wake-up is handed over.                                               *)
RecvErrorFirst ==
  /\ "error_first" \in Bugs /\ pabort
  /\ st = "Running" /\ cb = 0 /\ kin # <<>>
  /\ kin' = <<>> /\ rbuf' = rbuf \o kin
  /\ eofRep' = eofRep + 1 /\ cb' = 2
  /\ IF Tcp THEN st' = "Inited" /\ wrArmed' = FALSE /\ alive' = "detached"
     ELSE alive' = alive /\ (IF UserDisablesOnEof THEN st' = "Inited" /\ wrArmed' = FALSE ELSE UNCHANGED <<st, wrArmed>>)
  /\ lastComplete' = FALSE
  /\ UNCHANGED <<sendq, kout, got, thr, bound, pclosed, pabort, nsent, npw, consumed, presented, pres, presFrom, ndis>>

(* --- onReadCallback, data: drain the kernel, then call the user if >= threshold --- *)
RecvEnter ==
  /\ st = "Running" /\ cb = 0 /\ kin # <<>>
  /\ LET all == rbuf \o kin IN
     /\ kin' = <<>>
     /\ IF bound
        THEN \* forwarding mode: everything unconsumed - also what the callback left before bind() - goes to the receiver.
             \* Bug "fastpath": only the new bytes are forwarded (read into a stack buffer), recv_buff_ is bypassed.
             IF "fastpath" \in Bugs
             THEN /\ rbuf' = rbuf /\ pres' = kin /\ presFrom' = consumed /\ consumed' = consumed + Len(kin)
                  /\ presented' = npw /\ cb' = cb
             ELSE /\ rbuf' = <<>> /\ pres' = all /\ presFrom' = consumed /\ consumed' = consumed + Len(all)
                  /\ presented' = npw /\ cb' = cb
        ELSE /\ rbuf' = all /\ consumed' = consumed
             /\ IF Len(all) >= thr
                THEN /\ cb' = 1 /\ pres' = all /\ presFrom' = consumed /\ presented' = npw
                ELSE UNCHANGED <<cb, pres, presFrom, presented>>
  /\ lastComplete' = FALSE
  /\ UNCHANGED <<st, alive, sendq, kout, got, wrArmed, thr, bound, pclosed, pabort, eofRep, nsent, npw, ndis>>

(* bind() / unbind() (BufferedFd, TcpClient); the unconsumed bytes stay in recv_buff_ until the next data arrives *)
Bind ==
  /\ alive = "alive" /\ ~bound /\ bound' = TRUE /\ lastComplete' = FALSE
  /\ UNCHANGED <<st, alive, cb, sendq, kout, got, wrArmed, kin, rbuf, thr, pclosed, pabort, eofRep, nsent, npw, consumed, presented, pres, presFrom, ndis>>
Unbind ==
  /\ alive = "alive" /\ bound /\ bound' = FALSE /\ lastComplete' = FALSE
  /\ UNCHANGED <<st, alive, cb, sendq, kout, got, wrArmed, kin, rbuf, thr, pclosed, pabort, eofRep, nsent, npw, consumed, presented, pres, presFrom, ndis>>

RecvExit(c) ==                      \* the callback returns having consumed c bytes
  /\ cb = 1 /\ c \in 0 .. Len(rbuf)
  /\ cb' = 0 /\ consumed' = consumed + c
  /\ rbuf' = (IF "norepresent" \in Bugs THEN <<>> ELSE Drop(rbuf, c))
  /\ lastComplete' = FALSE
  /\ UNCHANGED <<st, alive, sendq, kout, got, wrArmed, kin, thr, bound, pclosed, pabort, eofRep, nsent, npw, presented, pres, presFrom, ndis>>

(* --- onReadCallback, readv() == 0 -------------------------------------------------- *)
ReadZeroEnter ==
  /\ st = "Running" /\ cb = 0 /\ kin = <<>> /\ pclosed
  /\ eofRep' = eofRep + 1 /\ cb' = 2
  /\ IF Tcp                         \* TcpConnection::onSocketClosed: disable, swap out, runNext(delete), notify
     THEN /\ st' = "Inited" /\ wrArmed' = FALSE
          /\ alive' = (IF "delete_now" \in Bugs THEN "freed" ELSE "detached")
     ELSE /\ alive' = alive
          /\ IF UserDisablesOnEof THEN st' = "Inited" /\ wrArmed' = FALSE ELSE UNCHANGED <<st, wrArmed>>
  /\ lastComplete' = FALSE
  /\ UNCHANGED <<sendq, kout, got, kin, rbuf, thr, bound, pclosed, pabort, nsent, npw, consumed, presented, pres, presFrom, ndis>>

ReadZeroExit ==
  /\ cb = 2
  /\ cb' = 0 /\ lastComplete' = FALSE
  /\ UNCHANGED <<st, alive, sendq, kout, got, wrArmed, kin, rbuf, thr, bound, pclosed, pabort, eofRep, nsent, npw, consumed, presented, pres, presFrom, ndis>>

(* --- TcpConnection::disconnect (also from inside a callback) and the deferred delete --- *)
LocalDisconnect ==
  /\ Tcp /\ alive = "alive"
  /\ st' = "Inited" /\ wrArmed' = FALSE
  /\ alive' = (IF "delete_now" \in Bugs THEN "freed" ELSE "detached")
  /\ lastComplete' = FALSE
  /\ UNCHANGED <<cb, sendq, kout, got, kin, rbuf, thr, bound, pclosed, pabort, eofRep, nsent, npw, consumed, presented, pres, presFrom, ndis>>

RunNextDelete ==
  /\ alive = "detached" /\ cb = 0           \* deferred tasks run after the descriptor callbacks of the pass
  /\ alive' = "freed" /\ lastComplete' = FALSE
  \* the descriptor is closed here: what is already in the kernel keeps flowing to the peer (graceful close);
  \* bug "linger0": close() resets the connection and discards the kernel send queue
  /\ kout' = (IF "linger0" \in Bugs THEN <<>> ELSE kout)
  /\ UNCHANGED <<st, cb, sendq, got, wrArmed, kin, rbuf, thr, bound, pclosed, pabort, eofRep, nsent, npw, consumed, presented, pres, presFrom, ndis>>

SendAny      == \E n \in 1 .. MaxSend : Send(n)
PeerReadAny  == \E m \in 1 .. K : PeerRead(m)
PeerWriteAny == \E m \in 1 .. KI : PeerWrite(m)
RecvExitAny  == \E c \in 0 .. (MaxPeer) : RecvExit(c)

Next ==
  \/ SendAny \/ Enable \/ Disable \/ WritableCb
  \/ PeerReadAny \/ PeerWriteAny \/ PeerClose \/ PeerAbort \/ RecvErrorFirst
  \/ RecvEnter \/ RecvExitAny \/ ReadZeroEnter \/ ReadZeroExit \/ CompleteExit
  \/ LocalDisconnect \/ RunNextDelete \/ Bind \/ Unbind

Spec == Init /\ [][Next]_vars

(* Fairness for the liveness form: the loop keeps dispatching ready callbacks, the peer keeps      *)
(* reading, and the user eventually leaves the descriptor enabled (Disable is bounded).            *)
FairSpec == Spec /\ WF_vars(WritableCb) /\ WF_vars(PeerReadAny) /\ WF_vars(Enable)
                 /\ WF_vars(RecvEnter) /\ WF_vars(RecvExitAny) /\ WF_vars(ReadZeroEnter) /\ WF_vars(ReadZeroExit) /\ WF_vars(CompleteExit)

(* ------------------------------- properties --------------------------------------- *)
TypeOK ==
  /\ st \in {"Inited", "Running"} /\ alive \in {"alive", "detached", "freed"} /\ cb \in {0, 1, 2, 3, 4}
  /\ wrArmed \in BOOLEAN /\ bound \in BOOLEAN /\ pclosed \in BOOLEAN /\ pabort \in BOOLEAN /\ lastComplete \in BOOLEAN
  /\ Len(kout) <= K /\ Len(kin) <= KI

(* nothing lost, duplicated or reordered on the way to the peer *)
StreamConserved ==
  /\ got \o kout = Seg(0, Len(got) + Len(kout))
  \* sendq is frozen once the object is detached (what a local disconnect leaves in it is dropped by design), but what
  \* was written to the kernel must still reach the peer: nothing between got and sendq may disappear
  /\ got \o kout \o sendq = Seg(0, nsent)

(* send-complete only when everything queued so far has been written *)
SendCompleteOnlyWhenDrained == lastComplete => sendq = <<>>

(* queued bytes of a running descriptor always have their write event (else they are stuck forever) *)
Progress == (st = "Running" /\ alive = "alive" /\ sendq # <<>>) => wrArmed

(* receive buffer = exactly the read-but-unconsumed offsets; every presentation is the whole of it *)
RecvInOrderOnce ==
  /\ rbuf = Seg(consumed, readTot - consumed)
  /\ pres = Seg(presFrom, Len(pres))
  /\ pres # <<>> => presFrom + Len(pres) = presented

(* peer close reported at most once, after all data that preceded it *)
CloseOnceAfterData ==
  /\ eofRep <= 1
  /\ eofRep = 1 => /\ pclosed /\ kin = <<>>
                   /\ Len(rbuf) >= thr => presented = readTot

(* the buffered descriptor is never destroyed while one of its callbacks is on the stack *)
NoDeleteInCallback == cb # 0 => alive # "freed"

(* liveness: under a reading peer that keeps its side open everything queued is eventually written *)
Delivered == (sendq # <<>>) ~> (sendq = <<>> \/ alive # "alive" \/ pclosed)
Received  == (kin # <<>>) ~> (kin = <<>> \/ alive # "alive")
=============================================================================
