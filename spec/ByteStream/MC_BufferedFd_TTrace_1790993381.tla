---- MODULE MC_BufferedFd_TTrace_1790993381 ----
EXTENDS Sequences, TLCExt, Toolbox, MC_BufferedFd, Naturals, TLC

_expression ==
    LET MC_BufferedFd_TEExpression == INSTANCE MC_BufferedFd_TEExpression
    IN MC_BufferedFd_TEExpression!expression
----

_trace ==
    LET MC_BufferedFd_TETrace == INSTANCE MC_BufferedFd_TETrace
    IN MC_BufferedFd_TETrace!trace
----

_inv ==
    ~(
        TLCGet("level") = Len(_TETrace)
        /\
        consumed = (0)
        /\
        st = ("Running")
        /\
        presFrom = (0)
        /\
        alive = ("alive")
        /\
        pres = (<<>>)
        /\
        eofRep = (0)
        /\
        nsent = (2)
        /\
        got = (<<>>)
        /\
        sendq = (<<2>>)
        /\
        kout = (<<1>>)
        /\
        kin = (<<>>)
        /\
        pclosed = (FALSE)
        /\
        ndis = (0)
        /\
        npw = (0)
        /\
        rbuf = (<<>>)
        /\
        lastComplete = (TRUE)
        /\
        presented = (0)
        /\
        wrArmed = (TRUE)
        /\
        cb = (0)
        /\
        thr = (2)
    )
----

_init ==
    /\ kout = _TETrace[1].kout
    /\ alive = _TETrace[1].alive
    /\ pres = _TETrace[1].pres
    /\ kin = _TETrace[1].kin
    /\ cb = _TETrace[1].cb
    /\ consumed = _TETrace[1].consumed
    /\ npw = _TETrace[1].npw
    /\ pclosed = _TETrace[1].pclosed
    /\ eofRep = _TETrace[1].eofRep
    /\ presFrom = _TETrace[1].presFrom
    /\ st = _TETrace[1].st
    /\ nsent = _TETrace[1].nsent
    /\ got = _TETrace[1].got
    /\ thr = _TETrace[1].thr
    /\ wrArmed = _TETrace[1].wrArmed
    /\ ndis = _TETrace[1].ndis
    /\ lastComplete = _TETrace[1].lastComplete
    /\ rbuf = _TETrace[1].rbuf
    /\ sendq = _TETrace[1].sendq
    /\ presented = _TETrace[1].presented
----

_next ==
    /\ \E i,j \in DOMAIN _TETrace:
        /\ \/ /\ j = i + 1
              /\ i = TLCGet("level")
        /\ kout  = _TETrace[i].kout
        /\ kout' = _TETrace[j].kout
        /\ alive  = _TETrace[i].alive
        /\ alive' = _TETrace[j].alive
        /\ pres  = _TETrace[i].pres
        /\ pres' = _TETrace[j].pres
        /\ kin  = _TETrace[i].kin
        /\ kin' = _TETrace[j].kin
        /\ cb  = _TETrace[i].cb
        /\ cb' = _TETrace[j].cb
        /\ consumed  = _TETrace[i].consumed
        /\ consumed' = _TETrace[j].consumed
        /\ npw  = _TETrace[i].npw
        /\ npw' = _TETrace[j].npw
        /\ pclosed  = _TETrace[i].pclosed
        /\ pclosed' = _TETrace[j].pclosed
        /\ eofRep  = _TETrace[i].eofRep
        /\ eofRep' = _TETrace[j].eofRep
        /\ presFrom  = _TETrace[i].presFrom
        /\ presFrom' = _TETrace[j].presFrom
        /\ st  = _TETrace[i].st
        /\ st' = _TETrace[j].st
        /\ nsent  = _TETrace[i].nsent
        /\ nsent' = _TETrace[j].nsent
        /\ got  = _TETrace[i].got
        /\ got' = _TETrace[j].got
        /\ thr  = _TETrace[i].thr
        /\ thr' = _TETrace[j].thr
        /\ wrArmed  = _TETrace[i].wrArmed
        /\ wrArmed' = _TETrace[j].wrArmed
        /\ ndis  = _TETrace[i].ndis
        /\ ndis' = _TETrace[j].ndis
        /\ lastComplete  = _TETrace[i].lastComplete
        /\ lastComplete' = _TETrace[j].lastComplete
        /\ rbuf  = _TETrace[i].rbuf
        /\ rbuf' = _TETrace[j].rbuf
        /\ sendq  = _TETrace[i].sendq
        /\ sendq' = _TETrace[j].sendq
        /\ presented  = _TETrace[i].presented
        /\ presented' = _TETrace[j].presented

\* Uncomment the ASSUME below to write the states of the error trace
\* to the given file in Json format. Note that you can pass any tuple
\* to `JsonSerialize`. For example, a sub-sequence of _TETrace.
    \* ASSUME
    \*     LET J == INSTANCE Json
    \*         IN J!JsonSerialize("MC_BufferedFd_TTrace_1790993381.json", _TETrace)

=============================================================================

 Note that you can extract this module `MC_BufferedFd_TEExpression`
  to a dedicated file to reuse `expression` (the module in the 
  dedicated `MC_BufferedFd_TEExpression.tla` file takes precedence 
  over the module `MC_BufferedFd_TEExpression` below).

---- MODULE MC_BufferedFd_TEExpression ----
EXTENDS Sequences, TLCExt, Toolbox, MC_BufferedFd, Naturals, TLC

expression == 
    [
        \* To hide variables of the `MC_BufferedFd` spec from the error trace,
        \* remove the variables below.  The trace will be written in the order
        \* of the fields of this record.
        kout |-> kout
        ,alive |-> alive
        ,pres |-> pres
        ,kin |-> kin
        ,cb |-> cb
        ,consumed |-> consumed
        ,npw |-> npw
        ,pclosed |-> pclosed
        ,eofRep |-> eofRep
        ,presFrom |-> presFrom
        ,st |-> st
        ,nsent |-> nsent
        ,got |-> got
        ,thr |-> thr
        ,wrArmed |-> wrArmed
        ,ndis |-> ndis
        ,lastComplete |-> lastComplete
        ,rbuf |-> rbuf
        ,sendq |-> sendq
        ,presented |-> presented
        
        \* Put additional constant-, state-, and action-level expressions here:
        \* ,_stateNumber |-> _TEPosition
        \* ,_koutUnchanged |-> kout = kout'
        
        \* Format the `kout` variable as Json value.
        \* ,_koutJson |->
        \*     LET J == INSTANCE Json
        \*     IN J!ToJson(kout)
        
        \* Lastly, you may build expressions over arbitrary sets of states by
        \* leveraging the _TETrace operator.  For example, this is how to
        \* count the number of times a spec variable changed up to the current
        \* state in the trace.
        \* ,_koutModCount |->
        \*     LET F[s \in DOMAIN _TETrace] ==
        \*         IF s = 1 THEN 0
        \*         ELSE IF _TETrace[s].kout # _TETrace[s-1].kout
        \*             THEN 1 + F[s-1] ELSE F[s-1]
        \*     IN F[_TEPosition - 1]
    ]

=============================================================================



Parsing and semantic processing can take forever if the trace below is long.
 In this case, it is advised to uncomment the module below to deserialize the
 trace from a generated binary file.

\*
\*---- MODULE MC_BufferedFd_TETrace ----
\*EXTENDS IOUtils, MC_BufferedFd, TLC
\*
\*trace == IODeserialize("MC_BufferedFd_TTrace_1790993381.bin", TRUE)
\*
\*=============================================================================
\*

---- MODULE MC_BufferedFd_TETrace ----
EXTENDS MC_BufferedFd, TLC

trace == 
    <<
    ([consumed |-> 0,st |-> "Inited",presFrom |-> 0,alive |-> "alive",pres |-> <<>>,eofRep |-> 0,nsent |-> 0,got |-> <<>>,sendq |-> <<>>,kout |-> <<>>,kin |-> <<>>,pclosed |-> FALSE,ndis |-> 0,npw |-> 0,rbuf |-> <<>>,lastComplete |-> FALSE,presented |-> 0,wrArmed |-> FALSE,cb |-> 0,thr |-> 2]),
    ([consumed |-> 0,st |-> "Inited",presFrom |-> 0,alive |-> "alive",pres |-> <<>>,eofRep |-> 0,nsent |-> 2,got |-> <<>>,sendq |-> <<1, 2>>,kout |-> <<>>,kin |-> <<>>,pclosed |-> FALSE,ndis |-> 0,npw |-> 0,rbuf |-> <<>>,lastComplete |-> FALSE,presented |-> 0,wrArmed |-> FALSE,cb |-> 0,thr |-> 2]),
    ([consumed |-> 0,st |-> "Running",presFrom |-> 0,alive |-> "alive",pres |-> <<>>,eofRep |-> 0,nsent |-> 2,got |-> <<>>,sendq |-> <<1, 2>>,kout |-> <<>>,kin |-> <<>>,pclosed |-> FALSE,ndis |-> 0,npw |-> 0,rbuf |-> <<>>,lastComplete |-> FALSE,presented |-> 0,wrArmed |-> TRUE,cb |-> 0,thr |-> 2]),
    ([consumed |-> 0,st |-> "Running",presFrom |-> 0,alive |-> "alive",pres |-> <<>>,eofRep |-> 0,nsent |-> 2,got |-> <<>>,sendq |-> <<2>>,kout |-> <<1>>,kin |-> <<>>,pclosed |-> FALSE,ndis |-> 0,npw |-> 0,rbuf |-> <<>>,lastComplete |-> TRUE,presented |-> 0,wrArmed |-> TRUE,cb |-> 0,thr |-> 2])
    >>
----


=============================================================================

---- CONFIG MC_BufferedFd_TTrace_1790993381 ----
CONSTANTS
    K = 2
    KI = 2
    MaxSend = 2
    MaxTotal = 4
    MaxPeer = 3
    Thrs = { 0 , 2 }
    Tcp = FALSE
    MaxDisable = 1
    UserDisablesOnEof = TRUE
    Bugs = { "complete_early" }

INVARIANT
    _inv

CHECK_DEADLOCK
    \* CHECK_DEADLOCK off because of PROPERTY or INVARIANT above.
    FALSE

INIT
    _init

NEXT
    _next

CONSTANT
    _TETrace <- _trace

ALIAS
    _expression
=============================================================================
\* Generated on Sat Oct 03 02:09:43 UTC 2026