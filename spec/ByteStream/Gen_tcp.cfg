CONSTANTS
  K = 2
  KI = 2
  MaxSend = 2
  MaxTotal = 3
  MaxPeer = 2
  Thrs = {0, 2}
  Tcp = TRUE
  MaxDisable = 1
  UserDisablesOnEof = TRUE
  Bugs = {}
  Depth = 4
SPECIFICATION GSpec
CONSTRAINT Emit
CHECK_DEADLOCK FALSE
