---- MODULE MC_BufferedFd ----
EXTENDS BufferedFd
====
