CONSTANTS
  K = 2
  KI = 1
  MaxSend = 2
  MaxTotal = 3
  MaxPeer = 1
  Thrs = {0}
  Tcp = FALSE
  MaxDisable = 1
  UserDisablesOnEof = TRUE
  Bugs = {"latedisarm"}
SPECIFICATION FairSpec
PROPERTIES Delivered Received
CHECK_DEADLOCK FALSE
