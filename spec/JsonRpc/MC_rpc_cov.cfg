CONSTANTS
  N = 1
  T = 2
  MaxReq = 2
  MaxTime = 4
  Bodies <- McBodiesSmall
  Strangers = {0}
  EraseFirst = TRUE
  KeepOnResponse = FALSE
  PeerIds = {1, 2}
  AsyncIntoRequestRing = FALSE
SPECIFICATION Spec
INVARIANTS TypeOK CallbackAtMostOnce CallbackExactlyOnce ResponseWins TimeoutOtherwise StrangersIgnored RingHoldsWaiting
CHECK_DEADLOCK FALSE
