------------------------------ MODULE FrameOps ------------------------------
(* Pure operators for the three JSON-RPC framings of cpp-tbox (C14).  Bytes are integers 0..255, a      *)
(* connection buffer is a sequence of bytes.  Used by the model (Framing.tla) and by the trace          *)
(* specification (Trace_Framing.tla), which evaluates them on the bytes the real code was given.        *)
(*                                                                                                       *)
(*  - header stream : magic(2) . length(4, big endian) . text          (header_stream_proto.cpp)        *)
(*  - raw stream    : end of the first top-level JSON value, found by bracket depth outside strings      *)
(*                    (raw_stream_proto.cpp + util::json::FindEndPos)                                    *)
(*  - packet        : one datagram = one text                          (packet_proto.cpp)               *)
(*                                                                                                       *)
(* A decoder outcome is a record [k, n, a, b]:  k = "need" (return 0), "msg" (return n > 0, text =      *)
(* buf[a..b]), "err" (negative return), "throw" (an exception leaves onRecvData).                        *)
EXTENDS Naturals, Integers, Sequences, FiniteSets

LB == 123   \* {
RB == 125   \* }
LS == 91    \* [
RS == 93    \* ]
QT == 34    \* "
BS == 92    \* \
SP == 32
CM == 44    \* ,
CL == 58    \* :
D0 == 48
D1 == 49
MINUS == 45
DOT == 46

IsWs(c) == c = 32 \/ c = 9 \/ c = 10 \/ c = 13
IsGraph(c) == c > 32 /\ c < 127            \* ::isgraph() in the "C" locale
IsDigit(c) == c >= 48 /\ c <= 57
IsHex(c) == IsDigit(c) \/ (c >= 65 /\ c <= 70) \/ (c >= 97 /\ c <= 102)

Need == [k |-> "need", n |-> 0, a |-> 0, b |-> 0]
Msg(n, a, b) == [k |-> "msg", n |-> n, a |-> a, b |-> b]
Err(code) == [k |-> "err", n |-> code, a |-> 0, b |-> 0]
Throw == [k |-> "throw", n |-> 0, a |-> 0, b |-> 0]

(* ------------------------------------------------------------------------------------------------- *)
(* A JSON recognizer (RFC 8259 without exponents and without the literals true/false/null, which the   *)
(* model alphabets cannot spell; bytes >= 128 inside strings are accepted as-is).  P*(b, i, e) parse    *)
(* inside b[i..e] and return the index after the construct, or 0 when there is none.                    *)
(* ------------------------------------------------------------------------------------------------- *)
RECURSIVE SkipWs(_, _, _)
SkipWs(b, i, e) == IF i <= e /\ IsWs(b[i]) THEN SkipWs(b, i + 1, e) ELSE i

RECURSIVE StrBody(_, _, _)
StrBody(b, i, e) ==                         \* i: first byte after the opening quote
  IF i > e THEN 0
  ELSE IF b[i] = QT THEN i + 1
  ELSE IF b[i] = BS THEN
         IF i + 1 > e THEN 0
         ELSE IF b[i + 1] \in {QT, BS, 47, 98, 102, 110, 114, 116} THEN StrBody(b, i + 2, e)
         ELSE IF b[i + 1] = 117 /\ i + 5 <= e /\ \A k \in 2..5 : IsHex(b[i + k]) THEN StrBody(b, i + 6, e)
         ELSE 0
  ELSE IF b[i] < 32 THEN 0
  ELSE StrBody(b, i + 1, e)
PString(b, i, e) == IF i <= e /\ b[i] = QT THEN StrBody(b, i + 1, e) ELSE 0

RECURSIVE Digits(_, _, _)
Digits(b, i, e) == IF i <= e /\ IsDigit(b[i]) THEN Digits(b, i + 1, e) ELSE i
PNumber(b, i, e) ==
  LET s == IF i <= e /\ b[i] = MINUS THEN i + 1 ELSE i IN
  IF s > e \/ ~IsDigit(b[s]) THEN 0
  ELSE LET ie == IF b[s] = D0 THEN s + 1 ELSE Digits(b, s, e) IN
       IF ie <= e /\ b[ie] = DOT
       THEN LET fe == Digits(b, ie + 1, e) IN IF fe = ie + 1 THEN 0 ELSE fe
       ELSE ie

RECURSIVE PValue(_, _, _), PElems(_, _, _), PMembers(_, _, _)
PValue(b, i0, e) ==
  LET i == SkipWs(b, i0, e) IN
  IF i > e THEN 0
  ELSE IF b[i] = QT THEN PString(b, i, e)
  ELSE IF b[i] = LS THEN
         LET j == SkipWs(b, i + 1, e) IN
         IF j <= e /\ b[j] = RS THEN j + 1 ELSE PElems(b, i + 1, e)
  ELSE IF b[i] = LB THEN
         LET j == SkipWs(b, i + 1, e) IN
         IF j <= e /\ b[j] = RB THEN j + 1 ELSE PMembers(b, i + 1, e)
  ELSE PNumber(b, i, e)
PElems(b, i, e) ==                          \* value (, value)* ]
  LET v == PValue(b, i, e) IN
  IF v = 0 THEN 0
  ELSE LET j == SkipWs(b, v, e) IN
       IF j > e THEN 0
       ELSE IF b[j] = RS THEN j + 1
       ELSE IF b[j] = CM THEN PElems(b, j + 1, e)
       ELSE 0
PMembers(b, i0, e) ==                       \* string : value (, string : value)* }
  LET i == SkipWs(b, i0, e)
      s == PString(b, i, e) IN
  IF s = 0 THEN 0
  ELSE LET c == SkipWs(b, s, e) IN
       IF c > e \/ b[c] # CL THEN 0
       ELSE LET v == PValue(b, c + 1, e) IN
            IF v = 0 THEN 0
            ELSE LET j == SkipWs(b, v, e) IN
                 IF j > e THEN 0
                 ELSE IF b[j] = RB THEN j + 1
                 ELSE IF b[j] = CM THEN PMembers(b, j + 1, e)
                 ELSE 0

(* b[a..e] is exactly one JSON value (surrounding white space allowed) *)
ValidJson(b, a, e) == LET v == PValue(b, a, e) IN v # 0 /\ SkipWs(b, v, e) = e + 1
(* ... and that value is an object or an array (what the statement quantifies over) *)
ValidDoc(b, a, e) == LET i == SkipWs(b, a, e) IN i <= e /\ b[i] \in {LB, LS} /\ ValidJson(b, a, e)

(* ------------------------------------------------------------------------------------------------- *)
(* Raw stream, intended meaning: scan forward; inside a string a backslash escapes the next byte;       *)
(* outside strings count bracket depth; the value ends where the depth returns to 0 (or where a         *)
(* top-level string closes).  Returns the number of bytes up to and including the end, 0 = not yet,     *)
(* -1 = a closing bracket without an opening one.                                                       *)
(* ------------------------------------------------------------------------------------------------- *)
RECURSIVE RefScan(_, _, _, _, _, _, _)
RefScan(b, s, i, e, depth, mode, started) ==        \* mode: 0 outside string, 1 in string, 2 in string after backslash
  IF i > e THEN 0
  ELSE LET c == b[i] IN
    IF mode = 2 THEN RefScan(b, s, i + 1, e, depth, 1, started)
    ELSE IF mode = 1 THEN
           IF c = BS THEN RefScan(b, s, i + 1, e, depth, 2, started)
           ELSE IF c = QT THEN (IF depth = 0 THEN i - s + 1 ELSE RefScan(b, s, i + 1, e, depth, 0, started))
           ELSE RefScan(b, s, i + 1, e, depth, 1, started)
    ELSE IF c = QT THEN RefScan(b, s, i + 1, e, depth, 1, TRUE)
    ELSE LET d == IF c \in {LB, LS} THEN depth + 1 ELSE IF c \in {RB, RS} THEN depth - 1 ELSE depth
             st == started \/ IsGraph(c) IN
         IF d < 0 THEN -1
         ELSE IF d = 0 /\ st THEN i - s + 1
         ELSE RefScan(b, s, i + 1, e, d, 0, st)
RefEnd(b, s, e) == RefScan(b, s, s, e, 0, 0, FALSE)      \* on b[s..e]

(* Raw stream, as implemented by util::json::FindEndPos: two counters; at a quote inside a string the   *)
(* preceding backslashes are counted backwards (never looking at the first byte of the buffer).          *)
(* EscAware = FALSE is the "ignores backslash escapes" variant (non-vacuity of RoundTrip).              *)
RECURSIVE OddBackslashes(_, _, _)
OddBackslashes(b, s, j) == IF j # s /\ j >= s /\ b[j] = BS THEN ~OddBackslashes(b, s, j - 1) ELSE FALSE
RECURSIVE ImplScan(_, _, _, _, _, _, _, _, _)
ImplScan(b, s, i, e, br, sq, inStr, started, escAware) ==
  IF i > e THEN 0
  ELSE LET c == b[i]
           st == started \/ IsGraph(c)
           ins == IF c = QT THEN (IF inStr THEN (escAware /\ OddBackslashes(b, s, i - 1)) ELSE TRUE) ELSE inStr
           skip == c # QT /\ inStr
           br2 == IF skip THEN br ELSE IF c = LB THEN br + 1 ELSE IF c = RB THEN br - 1 ELSE br
           sq2 == IF skip THEN sq ELSE IF c = LS THEN sq + 1 ELSE IF c = RS THEN sq - 1 ELSE sq IN
       IF skip THEN ImplScan(b, s, i + 1, e, br, sq, inStr, st, escAware)
       ELSE IF br2 = 0 /\ sq2 = 0 /\ ~ins /\ st THEN i - s + 1
       ELSE IF br2 < 0 \/ sq2 < 0 THEN -1
       ELSE ImplScan(b, s, i + 1, e, br2, sq2, ins, st, escAware)
ImplEnd(b, s, e, escAware) == ImplScan(b, s, s, e, 0, 0, FALSE, FALSE, escAware)

(* RawStreamProto::onRecvData on b[s..e] *)
RawDecode(b, s, e, escAware) ==
  IF e - s + 1 < 2 THEN Need
  ELSE LET n == ImplEnd(b, s, e, escAware) IN
       IF n > 0 THEN (IF ValidJson(b, s, s + n - 1) THEN Msg(n, s, s + n - 1) ELSE Err(-1))
       ELSE Need                                   \* FindEndPos() = -1 is also answered with 0
(* the intended framing of a well-formed raw stream (trace specification) *)
RawRef(b, s, e) ==
  LET n == RefEnd(b, s, e) IN IF n > 0 THEN Msg(n, s, s + n - 1) ELSE IF n = 0 THEN Need ELSE Err(-1)

(* ------------------------------------------------------------------------------------------------- *)
(* Header stream on b[s..e].  The 32-bit length is kept as two 16-bit limbs (TLC integers are 32-bit    *)
(* signed).  Buffers are shorter than 65530 bytes, so  length + 6 > available  holds whenever hi > 0.   *)
(* wrap32 = TRUE evaluates the sum modulo 2^32 as the unrepaired code did: lengths 2^32-6 .. 2^32-1     *)
(* pass the test, the text cannot be fetched and constructing the std::string throws.                   *)
(* ------------------------------------------------------------------------------------------------- *)
HdrLE(b, s) == [hi |-> b[s + 5] * 256 + b[s + 4], lo |-> b[s + 3] * 256 + b[s + 2]]   \* little-endian reading (mutant)
HdrBE(b, s) == [hi |-> b[s + 2] * 256 + b[s + 3], lo |-> b[s + 4] * 256 + b[s + 5]]
HdrDecode(b, s, e, magic, wrap32, validate) ==
  LET avail == e - s + 1 IN
  IF avail < 6 THEN Need
  ELSE IF b[s] # magic[1] \/ b[s + 1] # magic[2] THEN Err(-2)
  ELSE LET L == HdrBE(b, s)
           short == IF wrap32 /\ L.hi = 65535 /\ L.lo + 6 >= 65536
                    THEN L.lo + 6 - 65536 > avail
                    ELSE L.hi > 0 \/ L.lo + 6 > avail IN
       IF short THEN Need
       ELSE IF L.hi > 0 \/ L.lo + 6 > avail THEN Throw
       ELSE IF validate /\ ~ValidJson(b, s + 6, s + 5 + L.lo) THEN Err(-1)
       ELSE Msg(6 + L.lo, s + 6, s + 5 + L.lo)

Be16(n) == << n \div 256, n % 256 >>
HdrEncode(magic, text) == magic \o <<0, 0>> \o Be16(Len(text)) \o text       \* Len(text) < 65536

(* PacketProto::onRecvData on one datagram b[s..e] *)
PktDecode(b, s, e) ==
  IF e - s + 1 < 2 THEN Need
  ELSE IF ValidJson(b, s, e) THEN Msg(e - s + 1, s, e) ELSE Err(-1)
=============================================================================
