CONSTANTS
  N = 2
  T = 2
  MaxReq = 3
  MaxTime = 9
  Bodies <- McBodies
  Strangers = {0}
  EraseFirst = FALSE
  KeepOnResponse = FALSE
  PeerIds = {1, 2}
  AsyncIntoRequestRing = FALSE
SPECIFICATION Spec
INVARIANTS CallbackAtMostOnce
CHECK_DEADLOCK FALSE
