CONSTANTS
  Scenarios <- McScenarios
  Magic <- McMagic
  Pre <- McPre
  Wrap32 = FALSE
  EscAware = FALSE
  PA = {123, 125, 91, 93, 34, 92, 49, 44, 58}
  LP = 4
  LP1 = 3
  LP2 = 1
  HA = {123, 125, 91, 93, 34, 92, 49, 44, 32}
  LH = 0
  LHR = 0
  Kinds = {"raw"}
SPECIFICATION Spec
INVARIANTS RoundTrip
CHECK_DEADLOCK FALSE
