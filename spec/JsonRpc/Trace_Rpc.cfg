SPECIFICATION TSpec
CONSTRAINT Progress
POSTCONDITION Accepted
INVARIANT StatesOK
CHECK_DEADLOCK FALSE
