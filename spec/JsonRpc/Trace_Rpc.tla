----------------------------- MODULE Trace_Rpc -----------------------------
(* Trace validation for the request/response half of C14.  The driver (harness/c14_jsonrpc, mode "rpc")    *)
(* wires a real jsonrpc::Rpc to a scripted peer (the proto's send callback on one side, onRecvData() on   *)
(* the other), drives the event loop from inside under a virtual monotonic clock and logs                  *)
(*   Begin{N,T,t}  Req{k,id,cb,t}  Rsp{k,c,v} .. RspEnd   Cb{k,c,v} .. CbEnd{k}   Adv{t} .. AdvEnd   Cleanup *)
(* k = ordinal of the request among those issued with a completion callback (0: none / a response that     *)
(* matches no request), id = the id the peer decoded from the bytes the Rpc sent, c = error code, v =      *)
(* interned result text, t = virtual time in ms.  Events between X and XEnd happened inside X (the peer's   *)
(* answer delivered while a callback runs, a request issued from a callback, ...).                         *)
(*                                                                                                       *)
(* This is the abstract meaning of the statement, not the ring of the implementation:                     *)
(*  - a callback invocation (Cb) is accepted only for a request that is still waiting, and it is either     *)
(*    the delivery of exactly the response that is being handed to the Rpc at that moment, or a timeout      *)
(*    error raised while the loop handles its timers, not before (N-1)*T ms have passed since the request;  *)
(*  - when the delivery of a response to a waiting request returns, its callback must have run             *)
(*    (ResponseWins); when the loop has handled its timers, every request older than N*T ms must be        *)
(*    complete (TimeoutOtherwise / exactly once);                                                          *)
(*  - a second Cb for the same request, a Cb for a response with an unknown id, after a duplicate or a      *)
(*    late response finds no waiting request and is not accepted (at most once, StrangersIgnored);         *)
(*  - after Cleanup nothing is invoked any more; no Fault line is ever accepted.                            *)
EXTENDS Naturals, Integers, Sequences, FiniteSets, Json, IOUtils, TLC
Log == ndJsonDeserialize(IOEnv.TRACE)
VARIABLES l, cfg, tnow, reqs, stack, closed
ASSUME TLCSet(42, 0)
tvars == <<l, cfg, tnow, reqs, stack, closed>>

TimeoutCode == -32000                     \* pinned by the repository's own rpc_test
Ev == Log[l]
IsEv(e) == l <= Len(Log) /\ Log[l].e = e /\ l' = l + 1
None == [N |-> 0]
Top == stack[Len(stack)]
Pop == SubSeq(stack, 1, Len(stack) - 1)
Frame(kind, q, c, v, must) == [k |-> kind, q |-> q, c |-> c, v |-> v, must |-> must, c2 |-> c]
Open(k) == k \in 1..Len(reqs) /\ reqs[k].state = "open"

TInit == l = 1 /\ cfg = None /\ tnow = 0 /\ reqs = <<>> /\ stack = <<>> /\ closed = FALSE

TBegin == /\ IsEv("Begin") /\ cfg = None
          /\ cfg' = [N |-> Ev.N, T |-> Ev.T] /\ tnow' = Ev.t
          /\ UNCHANGED <<reqs, stack, closed>>

(* Rpc::request with a completion callback: the peer saw a non-zero id that no waiting request uses *)
TReqCb == /\ IsEv("Req") /\ cfg # None /\ ~closed /\ Ev.cb = TRUE
          /\ Ev.k = Len(reqs) + 1 /\ Ev.t = tnow
          /\ Ev.id # 0 /\ \A j \in 1..Len(reqs) : reqs[j].state = "open" => reqs[j].id # Ev.id
          /\ reqs' = Append(reqs, [id |-> Ev.id, t |-> tnow, state |-> "open"])
          /\ UNCHANGED <<cfg, tnow, stack, closed>>
(* Rpc::notify: nothing to complete *)
TNotify == /\ IsEv("Req") /\ cfg # None /\ ~closed /\ Ev.cb = FALSE /\ Ev.k = 0
           /\ UNCHANGED <<cfg, tnow, reqs, stack, closed>>

(* the peer's response is handed to onRecvData() *)
TRsp == /\ IsEv("Rsp") /\ cfg # None /\ ~closed
        /\ stack' = Append(stack, [Frame("rsp", Ev.k, Ev.c, Ev.v, Open(Ev.k)) EXCEPT !.c2 = Ev.c2])
           \* c2 # c only for a response that carries an error object AND "result":null: either reading completes the request
        /\ UNCHANGED <<cfg, tnow, reqs, closed>>
TRspEnd == /\ IsEv("RspEnd") /\ stack # <<>> /\ Top.k = "rsp"
           /\ (Top.must => reqs[Top.q].state # "open")                 \* ResponseWins: the waiting request was completed
           /\ stack' = Pop
           /\ UNCHANGED <<cfg, tnow, reqs, closed>>

(* a completion callback is invoked *)
TCbResp == /\ IsEv("Cb") /\ ~closed /\ Open(Ev.k)
           /\ stack # <<>> /\ Top.k = "rsp" /\ Top.q = Ev.k /\ (Top.c = Ev.c \/ Top.c2 = Ev.c) /\ Top.v = Ev.v
           /\ reqs' = [reqs EXCEPT ![Ev.k].state = "resp"]
           /\ stack' = Append(stack, Frame("cb", Ev.k, 0, 0, FALSE))
           /\ UNCHANGED <<cfg, tnow, closed>>
TCbTmo == /\ IsEv("Cb") /\ ~closed /\ Open(Ev.k)
          /\ stack # <<>> /\ Top.k = "adv"
          /\ Ev.c = TimeoutCode
          /\ tnow - reqs[Ev.k].t >= (cfg.N - 1) * cfg.T
          /\ reqs' = [reqs EXCEPT ![Ev.k].state = "tmo"]
          /\ stack' = Append(stack, Frame("cb", Ev.k, 0, 0, FALSE))
          /\ UNCHANGED <<cfg, tnow, closed>>
TCbEnd == /\ IsEv("CbEnd") /\ stack # <<>> /\ Top.k = "cb" /\ Top.q = Ev.k
          /\ stack' = Pop
          /\ UNCHANGED <<cfg, tnow, reqs, closed>>

(* the clock advances and the loop handles its timers *)
TAdv == /\ IsEv("Adv") /\ cfg # None /\ stack = <<>>
        /\ Ev.t >= tnow /\ tnow' = Ev.t
        /\ stack' = <<Frame("adv", 0, 0, 0, FALSE)>>
        /\ UNCHANGED <<cfg, reqs, closed>>
TAdvEnd == /\ IsEv("AdvEnd") /\ stack # <<>> /\ Top.k = "adv"
           /\ (~closed => \A j \in 1..Len(reqs) : reqs[j].state = "open" => tnow - reqs[j].t < cfg.N * cfg.T)
           /\ stack' = Pop
           /\ UNCHANGED <<cfg, tnow, reqs, closed>>

(* the other direction: a request of the peer is handed to onRecvData() and served (synchronously, or asynchronously with a   *)
(* later Rpc::respond(), or never); what the peer gets back is logged as PeerRsp.  Ids of the two directions overlap.  None   *)
(* of it may complete a request of ours: a Cb inside these contexts matches no action.                                      *)
TInReq == /\ IsEv("InReq") /\ cfg # None /\ ~closed
          /\ stack' = Append(stack, Frame("in", 0, 0, 0, FALSE))
          /\ UNCHANGED <<cfg, tnow, reqs, closed>>
TInReqEnd == /\ IsEv("InReqEnd") /\ stack # <<>> /\ Top.k = "in"
             /\ stack' = Pop
             /\ UNCHANGED <<cfg, tnow, reqs, closed>>
TRespond == /\ IsEv("Respond") /\ cfg # None /\ ~closed
            /\ stack' = Append(stack, Frame("in", 0, 0, 0, FALSE))
            /\ UNCHANGED <<cfg, tnow, reqs, closed>>
TRespondEnd == /\ IsEv("RespondEnd") /\ stack # <<>> /\ Top.k = "in"
               /\ stack' = Pop
               /\ UNCHANGED <<cfg, tnow, reqs, closed>>
TPeerRsp == /\ IsEv("PeerRsp") /\ cfg # None
            /\ UNCHANGED <<cfg, tnow, reqs, stack, closed>>

TCleanup == /\ IsEv("Cleanup") /\ cfg # None /\ stack = <<>> /\ ~closed
            /\ closed' = TRUE
            /\ UNCHANGED <<cfg, tnow, reqs, stack>>
TReset == /\ IsEv("Reset") /\ stack = <<>>
          /\ cfg' = None /\ tnow' = 0 /\ reqs' = <<>> /\ stack' = <<>> /\ closed' = FALSE

TNext == TBegin \/ TReqCb \/ TNotify \/ TRsp \/ TRspEnd \/ TCbResp \/ TCbTmo \/ TCbEnd \/ TAdv \/ TAdvEnd
         \/ TInReq \/ TInReqEnd \/ TRespond \/ TRespondEnd \/ TPeerRsp \/ TCleanup \/ TReset
TSpec == TInit /\ [][TNext]_tvars

(* never twice: follows from the guards (a Cb needs an open request and closes it); kept as a cheap cross-check *)
StatesOK == \A j \in 1..Len(reqs) : reqs[j].state \in {"open", "resp", "tmo"}

Progress == TLCSet(42, IF l > TLCGet(42) THEN l ELSE TLCGet(42))
Accepted == IF TLCGet(42) = Len(Log) + 1 THEN TRUE ELSE PrintT(<<"MAXPOS", TLCGet(42), Len(Log)>>) /\ FALSE
=============================================================================
