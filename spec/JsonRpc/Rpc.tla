-------------------------------- MODULE Rpc --------------------------------
(* C14, second half: every request issued with a completion callback has that callback invoked exactly   *)
(* once - with the matching response if one arrives before the deadline, otherwise with a timeout error; *)
(* duplicate, late and unknown-id responses are ignored.                                                  *)
(*                                                                                                       *)
(* Implementation-shaped model of jsonrpc::Rpc + eventx::TimeoutMonitor<int>:                            *)
(*   cbs     request_callback_ : ids that still have a completion callback                               *)
(*   ring    the N poll items of the TimeoutMonitor (each a list of ids), cur = curr_item_               *)
(*   nvals   value_number_; timerOn/due = the persistent 1-tick timer (enabled while nvals > 0)          *)
(*   stack   the C++ call stack as far as it matters: a completion callback that is running (frame "cb",  *)
(*           with what is left of its body) and TimeoutMonitor::onTimerTick() iterating over the ids it   *)
(*           took out of the ring (frame "tick").  User callbacks may call back into Rpc (issue a         *)
(*           request) and, with a synchronous in-process transport as in the repository's rpc_test,       *)
(*           the peer's answer is delivered while the callback is still running.                          *)
(* Time is counted in units; one timer tick = T units, so requests and ticks need not be in phase.       *)
(* Request ids are the ordinals 1, 2, ... of the requests that have a callback.                           *)
(*                                                                                                       *)
(* A callback body is a sequence of operations <<"req">> (issue a request with a callback and an empty    *)
(* body) and <<"rsp", k>> (the peer delivers a result for request k, synchronously).                      *)
EXTENDS Naturals, Integers, Sequences, FiniteSets, TLC

CONSTANTS N,            \* check_times = timeout in ticks
          T,            \* time units per tick
          MaxReq,       \* at most this many requests with a callback
          MaxTime,
          Bodies,       \* callback bodies a request may be issued with
          Strangers,    \* responses that match no request (id 0, unknown ids): model values / numbers
          EraseFirst,   \* TRUE: the callback is taken out of the map before it is invoked (intended)
                        \* FALSE: invoked first, erased after it returns (as found in the unrepaired code)
          KeepOnResponse, \* TRUE: mutant - a response leaves the callback registered (non-vacuity)
          PeerIds,      \* ids of the requests the PEER sends to us (they count 1, 2, 3 like our own: the numbers overlap)
          AsyncIntoRequestRing \* TRUE: mutant - the id of a peer request that a service answers asynchronously is put
                        \* into request_timeout_ (the monitor of OUR requests) instead of respond_timeout_ (non-vacuity)

VARIABLES now, nextId, cbs, ring, cur, nvals, timerOn, due, stack, closed,
          \* ghost (observation only)
          issued,     \* id -> [t: issue time, body]
          calls,      \* id -> number of callback invocations
          how,        \* id -> "none" | "resp" | "tmo"   (kind of the first invocation)
          tcall,      \* id -> time of the first invocation
          respFirst,  \* ids for which a response was delivered while they were still waiting
          ignoredHit  \* TRUE once a response for an id that was not waiting invoked a callback
vars == <<now, nextId, cbs, ring, cur, nvals, timerOn, due, stack, closed, issued, calls, how, tcall, respFirst, ignoredHit>>

Ids == 1..MaxReq
Waiting(id) == id \in DOMAIN issued /\ calls[id] = 0
Top == stack[Len(stack)]
Pop == SubSeq(stack, 1, Len(stack) - 1)
InCb == stack # <<>> /\ Top.k = "cb"
TickDue == timerOn /\ due <= now
Idle == stack = <<>>

Init ==
  /\ now = 0 /\ nextId = 0 /\ cbs = {} /\ ring = [i \in 1..N |-> <<>>] /\ cur = 1 /\ nvals = 0
  /\ timerOn = FALSE /\ due = 0 /\ stack = <<>> /\ closed = FALSE
  /\ issued = <<>> /\ calls = <<>> /\ how = <<>> /\ tcall = <<>> /\ respFirst = {} /\ ignoredHit = FALSE

(* Rpc::request(method, params, cb) with a callback; stk = the stack after the step *)
DoRequest(body, stk) ==
  LET id == nextId + 1 IN
  /\ nextId < MaxReq
  /\ nextId' = id
  /\ cbs' = cbs \cup {id}
  /\ ring' = [ring EXCEPT ![cur] = Append(@, id)]                \* TimeoutMonitor::add
  /\ timerOn' = TRUE /\ due' = IF nvals = 0 THEN now + T ELSE due
  /\ nvals' = nvals + 1
  /\ issued' = Append(issued, [t |-> now, body |-> body])
  /\ calls' = Append(calls, 0) /\ how' = Append(how, "none") /\ tcall' = Append(tcall, 0)
  /\ stack' = stk
  /\ UNCHANGED <<now, cur, closed, respFirst, ignoredHit>>

(* Rpc::onRecvRespond(id, ...) ; stk = the stack below the callback frame that may be pushed *)
DoResponse(id, stk) ==
  IF id \in cbs
  THEN /\ calls' = [calls EXCEPT ![id] = @ + 1]                  \* the completion callback is invoked
       /\ how' = IF calls[id] = 0 THEN [how EXCEPT ![id] = "resp"] ELSE how
       /\ tcall' = IF calls[id] = 0 THEN [tcall EXCEPT ![id] = now] ELSE tcall
       /\ respFirst' = IF Waiting(id) THEN respFirst \cup {id} ELSE respFirst
       /\ ignoredHit' = (ignoredHit \/ ~Waiting(id))
       /\ cbs' = IF EraseFirst /\ ~KeepOnResponse THEN cbs \ {id} ELSE cbs
       /\ stack' = Append(stk, [k |-> "cb", id |-> id, body |-> issued[id].body,
                                erase |-> ~EraseFirst /\ ~KeepOnResponse, ids |-> <<>>])
       /\ UNCHANGED <<now, nextId, ring, cur, nvals, timerOn, due, closed, issued>>
  ELSE /\ stack' = stk                                            \* unknown, duplicate, late: ignored
       /\ UNCHANGED <<now, nextId, cbs, ring, cur, nvals, timerOn, due, closed, issued, calls, how, tcall, respFirst, ignoredHit>>

(* ---- calls made by the application / the peer while no callback is running ------------------------- *)
Request == /\ Idle /\ ~closed /\ ~TickDue /\ \E b \in Bodies : DoRequest(b, stack)
Notify  == /\ Idle /\ ~closed /\ ~TickDue /\ UNCHANGED vars          \* id 0, nothing registered
Response == /\ Idle /\ ~closed /\ ~TickDue /\ \E id \in 1..nextId : DoResponse(id, stack)
StrangerResponse == /\ Idle /\ ~closed /\ ~TickDue /\ Strangers # {} /\ UNCHANGED vars   \* no id of the map: no effect

(* ---- the other direction: the peer's requests, served by our services ---------------------------------- *)
(* A synchronous service answers at once; an asynchronous one returns false, the id waits in tobe_respond_ /          *)
(* respond_timeout_ (a second monitor with its own ring, whose expiry only logs a warning) until respond() is        *)
(* called, or for ever.  None of this touches the requests WE issued, so in the intended design these are            *)
(* stuttering steps of this model; the mutant shows what happens when the peer's id gets into our ring.              *)
IncomingSync == /\ Idle /\ ~closed /\ ~TickDue /\ PeerIds # {} /\ UNCHANGED vars
InAsync(pid) ==
  /\ Idle /\ ~closed /\ ~TickDue
  /\ IF AsyncIntoRequestRing
     THEN /\ ring' = [ring EXCEPT ![cur] = Append(@, pid)]
          /\ timerOn' = TRUE /\ due' = IF nvals = 0 THEN now + T ELSE due
          /\ nvals' = nvals + 1
          /\ UNCHANGED <<now, nextId, cbs, cur, stack, closed, issued, calls, how, tcall, respFirst, ignoredHit>>
     ELSE UNCHANGED vars
IncomingAsync == \E pid \in PeerIds : InAsync(pid)
RespondLater == /\ Idle /\ ~closed /\ ~TickDue /\ PeerIds # {} /\ UNCHANGED vars        \* Rpc::respond(id, ...)

(* ---- a completion callback is running ------------------------------------------------------------- *)
Rest == [Top EXCEPT !.body = Tail(@)]
BodyReq == /\ InCb /\ Top.body # <<>> /\ Head(Top.body)[1] = "req"
           /\ IF nextId < MaxReq THEN DoRequest(<<>>, Append(Pop, Rest))
              ELSE stack' = Append(Pop, Rest) /\ UNCHANGED <<now, nextId, cbs, ring, cur, nvals, timerOn, due, closed, issued, calls, how, tcall, respFirst, ignoredHit>>
BodyRsp == /\ InCb /\ Top.body # <<>> /\ Head(Top.body)[1] = "rsp"
           /\ LET k == Head(Top.body)[2] IN
              IF k = 0 THEN DoResponse(Top.id, Append(Pop, Rest))        \* 0 = the request being completed itself: a duplicate
              ELSE IF k <= nextId THEN DoResponse(k, Append(Pop, Rest))
              ELSE stack' = Append(Pop, Rest) /\ UNCHANGED <<now, nextId, cbs, ring, cur, nvals, timerOn, due, closed, issued, calls, how, tcall, respFirst, ignoredHit>>
CbEnd == /\ InCb /\ Top.body = <<>>
         /\ cbs' = IF Top.erase THEN cbs \ {Top.id} ELSE cbs          \* as found: erase(iter) after the callback returned
         /\ stack' = Pop
         /\ UNCHANGED <<now, nextId, ring, cur, nvals, timerOn, due, closed, issued, calls, how, tcall, respFirst, ignoredHit>>

(* ---- TimeoutMonitor::onTimerTick ------------------------------------------------------------------- *)
Tick == /\ Idle /\ TickDue
        /\ LET c == (cur % N) + 1
               took == ring[c] IN
           /\ cur' = c
           /\ ring' = [ring EXCEPT ![c] = <<>>]
           /\ nvals' = nvals - Len(took)
           /\ timerOn' = (nvals' # 0)
           /\ due' = due + T
           /\ stack' = <<[k |-> "tick", id |-> 0, body |-> <<>>, erase |-> FALSE, ids |-> took]>>
        /\ UNCHANGED <<now, nextId, cbs, closed, issued, calls, how, tcall, respFirst, ignoredHit>>
InTick == stack # <<>> /\ Top.k = "tick"
TmoFire == /\ InTick /\ Top.ids # <<>> /\ Head(Top.ids) \in cbs
           /\ LET id == Head(Top.ids)
                  below == Append(Pop, [Top EXCEPT !.ids = Tail(@)]) IN
              /\ calls' = [calls EXCEPT ![id] = @ + 1]
              /\ how' = IF calls[id] = 0 THEN [how EXCEPT ![id] = "tmo"] ELSE how
              /\ tcall' = IF calls[id] = 0 THEN [tcall EXCEPT ![id] = now] ELSE tcall
              /\ cbs' = IF EraseFirst THEN cbs \ {id} ELSE cbs
              /\ stack' = Append(below, [k |-> "cb", id |-> id, body |-> issued[id].body, erase |-> ~EraseFirst, ids |-> <<>>])
           /\ UNCHANGED <<now, nextId, ring, cur, nvals, timerOn, due, closed, issued, respFirst, ignoredHit>>
TmoSkip == /\ InTick /\ Top.ids # <<>> /\ Head(Top.ids) \notin cbs
           /\ stack' = Append(Pop, [Top EXCEPT !.ids = Tail(@)])
           /\ UNCHANGED <<now, nextId, cbs, ring, cur, nvals, timerOn, due, closed, issued, calls, how, tcall, respFirst, ignoredHit>>
TickEnd == /\ InTick /\ Top.ids = <<>>
           /\ stack' = Pop
           /\ UNCHANGED <<now, nextId, cbs, ring, cur, nvals, timerOn, due, closed, issued, calls, how, tcall, respFirst, ignoredHit>>

Advance == /\ Idle /\ ~TickDue /\ now < MaxTime
           /\ now' = now + 1
           /\ UNCHANGED <<nextId, cbs, ring, cur, nvals, timerOn, due, stack, closed, issued, calls, how, tcall, respFirst, ignoredHit>>

(* Rpc::cleanup(): pending callbacks are dropped, nothing fires afterwards *)
Cleanup == /\ Idle /\ ~closed /\ ~TickDue
           /\ closed' = TRUE /\ cbs' = {} /\ ring' = [i \in 1..N |-> <<>>] /\ nvals' = 0 /\ timerOn' = FALSE
           /\ UNCHANGED <<now, nextId, cur, due, stack, issued, calls, how, tcall, respFirst, ignoredHit>>

Next == Request \/ Notify \/ Response \/ StrangerResponse \/ IncomingSync \/ IncomingAsync \/ RespondLater
        \/ BodyReq \/ BodyRsp \/ CbEnd
        \/ Tick \/ TmoFire \/ TmoSkip \/ TickEnd \/ Advance \/ Cleanup
Spec == Init /\ [][Next]_vars

(* ------------------------------------------------------------------------------------------------- *)
TypeOK == /\ cbs \subseteq 1..nextId /\ nvals >= 0 /\ cur \in 1..N
          /\ (closed \/ (timerOn <=> nvals # 0))
(* never twice *)
CallbackAtMostOnce == \A id \in 1..nextId : calls[id] <= 1
(* by the time the deadline (N ticks) has passed and the loop has handled its timers: exactly once *)
CallbackExactlyOnce ==
  (Idle /\ ~TickDue /\ ~closed) => \A id \in 1..nextId : (now - issued[id].t >= N * T) => calls[id] = 1
(* a response that arrives while the request is waiting completes it *)
ResponseWins == \A id \in respFirst : how[id] = "resp"
(* a timeout completes only requests that got no response, and not before (N-1) ticks have passed *)
TimeoutOtherwise ==
  \A id \in 1..nextId : how[id] = "tmo" =>
      /\ id \notin respFirst
      /\ tcall[id] - issued[id].t >= (N - 1) * T
      /\ tcall[id] - issued[id].t <= N * T
(* duplicate / late / unknown responses do nothing *)
StrangersIgnored == ~ignoredHit
(* the ring never loses a waiting request *)
RingHoldsWaiting ==
  (Idle /\ ~closed) => \A id \in cbs : \E i \in 1..N : \E j \in 1..Len(ring[i]) : ring[i][j] = id
=============================================================================
