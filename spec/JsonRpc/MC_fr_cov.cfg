CONSTANTS
  Scenarios <- McScenarios
  Magic <- McMagic
  Pre <- McPre
  Wrap32 = FALSE
  EscAware = TRUE
  PA = {123, 125, 91, 93, 34, 92, 49, 44, 58}
  LP = 1
  LP1 = 1
  LP2 = 1
  HA = {123, 125, 91, 93, 34, 92, 49, 44, 32}
  LH = 1
  LHR = 1
  Kinds = {"raw", "packet"}
SPECIFICATION Spec
INVARIANTS TypeOK RefAgrees SegmentationIndependent RoundTrip NothingInvented TotalByReturnValue ConsumedBounded
CHECK_DEADLOCK FALSE
