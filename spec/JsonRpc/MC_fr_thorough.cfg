CONSTANTS
  Scenarios <- McScenarios
  Magic <- McMagic
  Pre <- McPre
  Wrap32 = FALSE
  EscAware = TRUE
  PA = {123, 125, 91, 93, 34, 92, 49, 44, 58}
  LP = 5
  LP1 = 4
  LP2 = 2
  HA = {123, 125, 91, 93, 34, 92, 49, 44, 32}
  LH = 4
  LHR = 6
  Kinds = {"raw", "header", "packet"}
SPECIFICATION Spec
INVARIANTS TypeOK RefAgrees SegmentationIndependent RoundTrip NothingInvented TotalByReturnValue ConsumedBounded
CHECK_DEADLOCK FALSE
