CONSTANTS
  N = 2
  T = 2
  MaxReq = 2
  MaxTime = 8
  Bodies <- McBodiesFlat
  Strangers = {0}
  StrangerIds = {"0"}
  EraseFirst = TRUE
  KeepOnResponse = FALSE
  PeerIds = {1, 2}
  AsyncIntoRequestRing = FALSE
  Ops = {"req", "rsp", "inasync", "respond", "insync", "adv"}
  GenPeerIds = {1}
  Depth = 7
SPECIFICATION GSpec
CONSTRAINT Emit
CHECK_DEADLOCK FALSE
