CONSTANTS
  N = 2
  T = 2
  MaxReq = 2
  MaxTime = 8
  Bodies <- McBodiesDup
  Strangers = {0}
  StrangerIds = {"null"}
  EraseFirst = TRUE
  KeepOnResponse = FALSE
  Depth = 5
SPECIFICATION GSpec
CONSTRAINT Emit
CHECK_DEADLOCK FALSE
