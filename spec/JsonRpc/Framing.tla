------------------------------ MODULE Framing ------------------------------
(* C14, first half: the three JSON-RPC framings are total, resumable and segmentation independent.       *)
(*                                                                                                       *)
(* One connection.  The peer's byte stream `sc.bytes` arrives in arbitrary segments (Arrive); after      *)
(* every arrival the user runs the loop of the cpp-tbox examples on the connection buffer:                *)
(*     while (readable > 0) { r = proto.onRecvData(begin, readable);                                      *)
(*                            if (r > 0) consume(r); else if (r < 0) { reset connection; break; } else break; } *)
(* Every onRecvData call is one action (CallMsg / CallNeed / CallErr / CallThrow); the decoders are the   *)
(* implementation-shaped operators of FrameOps.  The properties are separate invariants.                  *)
(*                                                                                                       *)
(* A scenario is a record                                                                                 *)
(*   [f      : "header" | "raw" | "packet",                                                               *)
(*    bytes  : the whole stream,                                                                          *)
(*    bounds : for "packet" the end offset of every datagram (ascending), otherwise << >>,                *)
(*    wf     : TRUE iff the stream was written by the framing's own encoder from JSON objects/arrays,     *)
(*    exp    : for wf streams the extents <<a, b>> of the encoded texts, in order,                        *)
(*    src    : opaque description used by the behaviour generator ]                                       *)
EXTENDS FrameOps, TLC

CONSTANTS Scenarios,        \* set of scenario records
          Magic,            \* <<m1, m2>> head code of the header framing
          Wrap32,           \* TRUE: length + 6 evaluated modulo 2^32 (as found in the unrepaired code)
          EscAware          \* FALSE: the bracket counter ignores backslash escapes (non-vacuity)

VARIABLES sc,       \* the scenario (never changes)
          pos,      \* number of bytes that have arrived
          off,      \* number of bytes consumed from the connection buffer
          out,      \* extents <<a, b>> of the texts delivered so far
          st,       \* "open" | "error" (negative return: connection reset) | "fault" (exception escaped)
          pend,     \* the user loop is about to call onRecvData
          last      \* outcome of the last call: [k, n, avail]
vars == <<sc, pos, off, out, st, pend, last>>

Decode(s, a, e) ==
  IF s.f = "header" THEN HdrDecode(s.bytes, a, e, Magic, Wrap32, TRUE)
  ELSE IF s.f = "raw" THEN RawDecode(s.bytes, a, e, EscAware)
  ELSE PktDecode(s.bytes, a, e)

NoCall == [k |-> "none", n |-> 0, avail |-> 0]
Init == /\ sc \in Scenarios
        /\ pos = 0 /\ off = 0 /\ out = <<>> /\ st = "open" /\ pend = FALSE /\ last = NoCall

(* the next segment / datagram arrives: the stream is now known up to position p *)
NextBound == CHOOSE x \in {sc.bounds[i] : i \in 1..Len(sc.bounds)} :
                  x > pos /\ \A i \in 1..Len(sc.bounds) : sc.bounds[i] > pos => sc.bounds[i] >= x
ArriveTo(p) ==
  /\ st = "open" /\ ~pend /\ pos < Len(sc.bytes)
  /\ p > pos /\ p <= Len(sc.bytes)
  /\ (sc.f = "packet" => p = NextBound)
  /\ pos' = p
  /\ off' = IF sc.f = "packet" THEN pos ELSE off           \* what is left of the previous datagram is dropped
  /\ pend' = TRUE
  /\ UNCHANGED <<sc, out, st, last>>
Arrive == \E p \in (pos + 1)..Len(sc.bytes) : ArriveTo(p)

(* one onRecvData() call on the connection buffer bytes[off+1 .. pos]; r = its outcome *)
Rec(r) == last' = [k |-> r.k, n |-> r.n, avail |-> pos - off]
CallMsg ==
  /\ pend
  /\ LET r == Decode(sc, off + 1, pos) IN
     /\ r.k = "msg" /\ Rec(r)
     /\ off' = off + r.n
     /\ out' = Append(out, <<r.a, r.b>>)
     /\ pend' = (sc.f # "packet" /\ off + r.n < pos)
  /\ UNCHANGED <<sc, pos, st>>
CallNeed ==
  /\ pend
  /\ LET r == Decode(sc, off + 1, pos) IN r.k = "need" /\ Rec(r)
  /\ pend' = FALSE
  /\ UNCHANGED <<sc, pos, off, out, st>>
CallErr ==
  /\ pend
  /\ LET r == Decode(sc, off + 1, pos) IN r.k = "err" /\ Rec(r)
  /\ pend' = FALSE /\ st' = "error"
  /\ UNCHANGED <<sc, pos, off, out>>
CallThrow ==
  /\ pend
  /\ LET r == Decode(sc, off + 1, pos) IN r.k = "throw" /\ Rec(r)
  /\ pend' = FALSE /\ st' = "fault"
  /\ UNCHANGED <<sc, pos, off, out>>

Next == Arrive \/ CallMsg \/ CallNeed \/ CallErr \/ CallThrow
Spec == Init /\ [][Next]_vars

(* ------------------------------------------------------------------------------------------------- *)
(* The unsegmented reference: the same user loop run once over the first p bytes.                       *)
RECURSIVE Loop(_, _, _, _)
Loop(s, p, o, acc) ==
  IF o >= p THEN <<acc, "open", o>>
  ELSE LET r == Decode(s, o + 1, p) IN
       IF r.k = "msg" THEN Loop(s, p, o + r.n, Append(acc, <<r.a, r.b>>))
       ELSE IF r.k = "need" THEN <<acc, "open", o>>
       ELSE IF r.k = "err" THEN <<acc, "error", o>>
       ELSE <<acc, "fault", o>>
OneShot(s, p) == Loop(s, p, 0, <<>>)

TypeOK == /\ pos \in 0..Len(sc.bytes) /\ off \in 0..pos /\ st \in {"open", "error", "fault"} /\ pend \in BOOLEAN

(* any segmentation decodes to what the unsegmented stream decodes to (stream framings) *)
SegmentationIndependent ==
  (sc.f # "packet" /\ ~pend) => <<out, st, off>> = OneShot(sc, pos)

(* what the framing's own encoder wrote comes back, text by text, and nothing else *)
RoundTrip ==
  (sc.wf /\ ~pend /\ pos = Len(sc.bytes)) => (out = sc.exp /\ st = "open")
(* ... and never more than was written, at any time *)
NothingInvented ==
  sc.wf => /\ Len(out) <= Len(sc.exp)
           /\ \A i \in 1..Len(out) : out[i] = sc.exp[i]
           /\ st = "open"

(* on streams written by the encoder the implemented bracket counter frames exactly like the intended scanner    *)
(* (the reference the trace specification evaluates on the bytes given to the real code)                          *)
RefAgrees ==
  (sc.wf /\ sc.f = "raw" /\ pend /\ pos - off >= 2) =>
      LET a == RawDecode(sc.bytes, off + 1, pos, EscAware)
          b == RawRef(sc.bytes, off + 1, pos) IN a.k = b.k /\ a.n = b.n

(* malformed input is answered through the return value *)
TotalByReturnValue == last.k # "throw" /\ st # "fault"

(* a positive return never exceeds what was given *)
ConsumedBounded == last.k = "msg" => (last.n >= 1 /\ last.n <= last.avail)
=============================================================================
