CONSTANTS
  Scenarios <- McScenarios
  Magic <- McMagic
  Pre <- McPre
  Wrap32 = FALSE
  EscAware = TRUE
  PA = {123, 125, 91, 93, 34, 92, 49, 44, 58}
  LP = 5
  LP1 = 3
  LP2 = 2
  HA = {123, 125, 91, 93, 34, 92, 49, 44, 32}
  LH = 3
  LHR = 0
  Kinds = {"raw", "header", "packet"}
  MaxArrOne = 3
  MaxArrTwo = 2
  MaxArrHostile = 2
SPECIFICATION GSpec
CONSTRAINT Emit
CHECK_DEADLOCK FALSE
