CONSTANTS
  Scenarios <- McScenarios
  Magic <- McMagic
  Pre <- McPre
  Wrap32 = TRUE
  EscAware = TRUE
  PA = {123, 125, 91, 93, 34, 92, 49, 44, 58}
  LP = 3
  LP2 = 1
  HA = {123, 125, 91, 93, 34, 92, 49, 44, 32}
  LH = 3
  LHR = 5
  Kinds = {"header"}
SPECIFICATION Spec
INVARIANTS TotalByReturnValue
CHECK_DEADLOCK FALSE
