CONSTANTS
  Scenarios <- McScenarios
  Magic <- McMagic
  Pre <- McPre
  Wrap32 = TRUE
  EscAware = TRUE
  PA = {123, 125, 91, 93, 34, 92, 49, 44, 58}
  LP = 1
  LP1 = 1
  LP2 = 1
  HA = {123, 125, 91, 93, 34, 92, 49, 44, 32}
  LH = 0
  LHR = 0
  Kinds = {"header"}
SPECIFICATION Spec
INVARIANTS TotalByReturnValue
CHECK_DEADLOCK FALSE
