CONSTANTS
  N = 1
  T = 2
  MaxReq = 3
  MaxTime = 8
  Bodies <- McBodiesSmall
  Strangers = {0}
  StrangerIds = {"0", "4294967297"}
  EraseFirst = TRUE
  KeepOnResponse = FALSE
  PeerIds = {1, 2}
  AsyncIntoRequestRing = FALSE
  Ops = {"req", "notify", "rsp", "stranger", "adv", "cleanup"}
  GenPeerIds = {1}
  Depth = 5
SPECIFICATION GSpec
CONSTRAINT Emit
CHECK_DEADLOCK FALSE
