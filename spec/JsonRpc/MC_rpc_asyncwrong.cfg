CONSTANTS
  N = 2
  T = 2
  MaxReq = 3
  MaxTime = 6
  Bodies <- McBodiesFlat
  Strangers = {0}
  EraseFirst = TRUE
  KeepOnResponse = FALSE
  PeerIds = {1, 2}
  AsyncIntoRequestRing = TRUE
SPECIFICATION Spec
INVARIANTS TimeoutOtherwise
CHECK_DEADLOCK FALSE
