CONSTANTS
  N = 2
  T = 2
  MaxReq = 5
  MaxTime = 40
  Bodies <- McBodies
  Strangers = {0}
  StrangerIds = {"0", "4294967297", "-1", "77", "\"1\""}
  EraseFirst = TRUE
  KeepOnResponse = FALSE
  Depth = 14
SPECIFICATION GSpec
CONSTRAINT Emit
CHECK_DEADLOCK FALSE
