---------------------------- MODULE Gen_Framing ----------------------------
(* Behaviour generator for the framing half of C14: every behaviour of Framing.tla over the bounded        *)
(* scenario sets of MC_Framing whose segment boundaries lie in the scenario's region of interest (around   *)
(* the payloads / the header) and that has at most MaxArr arrivals is printed as a script                  *)
(* {f, items, cuts, wf}.  The conformance driver executes each script on the real proto classes and the     *)
(* recorded trace is validated against Trace_Framing.                                                      *)
EXTENDS MC_Framing, Json
CONSTANTS MaxArrOne, MaxArrTwo, MaxArrHostile       \* arrivals per run: one-message wf / two-message wf / hostile scenarios
VARIABLE hist
gvars == <<vars, hist>>
GInit == Init /\ hist = <<>>
MaxArr == IF ~sc.wf THEN MaxArrHostile ELSE IF Len(sc.exp) = 1 THEN MaxArrOne ELSE MaxArrTwo
Targets == IF sc.f = "packet" THEN 1..Len(sc.bytes)
           ELSE IF Len(hist) + 1 >= MaxArr THEN {Len(sc.bytes)}            \* the last allowed arrival brings the rest
           ELSE sc.reg \cup {Len(sc.bytes)}
GNext == \/ \E p \in Targets : ArriveTo(p) /\ hist' = Append(hist, p)
         \/ (CallMsg \/ CallNeed \/ CallErr \/ CallThrow) /\ hist' = hist
GSpec == GInit /\ [][GNext]_gvars
Done == ~pend /\ (pos = Len(sc.bytes) \/ st # "open")
Emit == IF Done THEN PrintT("BEH " \o ToJson([f |-> sc.f, items |-> sc.src, cuts |-> hist, wf |-> sc.wf])) /\ FALSE ELSE TRUE
=============================================================================
