---------------------------- MODULE MC_Framing ----------------------------
(* Bounded scenario sets for Framing.tla.                                                                *)
(*   PA   : alphabet of payload texts               LP : their maximal length                            *)
(*   HA   : alphabet of hostile byte strings        LH : their maximal length                            *)
(*   LP1, LP2 : maximal payload lengths of the first / second message of a two-message stream             *)
(*   LHR  : maximal length of the unstructured hostile strings of the header framing                      *)
(* A message text is  Pre . payload . "}"  (an envelope object around the payload, so that brackets and  *)
(* quotes of the payload are nested one level deep, as in a real JSON-RPC message).                      *)
EXTENDS Framing
CONSTANTS PA, LP, LP1, LP2, HA, LH, LHR, Pre, Kinds

Strs(A, n) == UNION {[1..k -> A] : k \in 0..n}
Payloads(n) == {p \in Strs(PA, n) : Len(p) > 0 /\ ValidJson(p, 1, Len(p))}
Text(p) == Pre \o p \o <<RB>>
Glues == {<<>>, <<10>>}

(* ---- well-formed streams: one or two messages written by the framing's encoder ---------------------- *)
(* src: the items as the conformance driver takes them; reg: cut positions worth generating (around the payloads) *)
Sc(f, bytes, bounds, wf, exp, src, reg) ==
  [f |-> f, bytes |-> bytes, bounds |-> bounds, wf |-> wf, exp |-> exp, src |-> src, reg |-> reg]
It(k, h, t) == [k |-> k, h |-> h, t |-> t]
Around(a, b) == (a - 2)..(b + 1)               \* a..b = the payload

RawOne(p, g) ==
  LET t == Text(p)  o == Len(g) IN
  Sc("raw", g \o t, <<>>, TRUE, << <<1, o + Len(t)>> >>,
     (IF g = <<>> THEN <<>> ELSE <<It("g", <<>>, g)>>) \o <<It("t", <<>>, t)>>,
     Around(o + Len(Pre) + 1, o + Len(Pre) + Len(p)))
  \* white space in front of a value is consumed together with it
RawTwo(p, g, q) ==
  LET t == Text(p)  u == Text(q)  n == Len(t) + Len(g) IN
  Sc("raw", t \o g \o u, <<>>, TRUE, << <<1, Len(t)>>, <<Len(t) + 1, n + Len(u)>> >>,
     <<It("t", <<>>, t)>> \o (IF g = <<>> THEN <<>> ELSE <<It("g", <<>>, g)>>) \o <<It("t", <<>>, u)>>,
     Around(Len(Pre) + 1, Len(Pre) + Len(p)) \cup Around(n + Len(Pre) + 1, n + Len(Pre) + Len(q)) \cup {Len(t), n})
  \* the white space between two values is consumed together with the second one

HdrOne(p) ==
  LET t == Text(p) IN
  Sc("header", HdrEncode(Magic, t), <<>>, TRUE, << <<7, 6 + Len(t)>> >>, <<It("t", <<>>, t)>>,
     {1, 2, 5, 6, 7} \cup Around(6 + Len(Pre) + 1, 6 + Len(Pre) + Len(p)))
HdrTwo(p, q) ==
  LET t == Text(p)  u == Text(q)  n == 6 + Len(t) IN
  Sc("header", HdrEncode(Magic, t) \o HdrEncode(Magic, u), <<>>, TRUE, << <<7, n>>, <<n + 7, n + 6 + Len(u)>> >>,
     <<It("t", <<>>, t), It("t", <<>>, u)>>,
     Around(6 + Len(Pre) + 1, 6 + Len(Pre) + Len(p)) \cup {n - 1, n, n + 1, n + 5, n + 6, n + 7} \cup Around(n + 6 + Len(Pre) + 1, n + 6 + Len(Pre) + Len(q)))

PktTwo(p, q) ==
  LET t == Text(p)  u == Text(q) IN
  Sc("packet", t \o u, <<Len(t), Len(t) + Len(u)>>, TRUE, << <<1, Len(t)>>, <<Len(t) + 1, Len(t) + Len(u)>> >>,
     <<It("t", <<>>, t), It("t", <<>>, u)>>, {})

WellFormed ==
  (IF "raw" \in Kinds THEN {RawOne(p, g) : p \in Payloads(LP), g \in Glues}
                           \cup {RawTwo(p, g, q) : p \in Payloads(LP1), g \in Glues, q \in Payloads(LP2)} ELSE {})
  \cup (IF "header" \in Kinds THEN {HdrOne(p) : p \in Payloads(LP)}
                           \cup {HdrTwo(p, q) : p \in Payloads(LP1), q \in Payloads(LP2)} ELSE {})
  \cup (IF "packet" \in Kinds THEN {PktTwo(p, q) : p \in Payloads(LP), q \in Payloads(LP2)} ELSE {})

(* ---- hostile streams ------------------------------------------------------------------------------- *)
(* raw: every byte string over HA up to LH, bare (followed by a good message) and inside the envelope *)
Good == Text(<<D1>>)
RawHostile ==
  {Sc("raw", h \o Good, <<>>, FALSE, <<>>, <<It("t", <<>>, h), It("t", <<>>, Good)>>, 1..(Len(h) + 1)) : h \in Strs(HA, LH) \ {<<>>}}
  \cup {Sc("raw", Text(h), <<>>, FALSE, <<>>, <<It("t", <<>>, Text(h))>>, Around(Len(Pre) + 1, Len(Pre) + Len(h) + 1)) : h \in Strs(HA, LH)}
PktHostile ==
  {Sc("packet", h \o Good, <<Len(h), Len(h) + Len(Good)>>, FALSE, <<>>, <<It("t", <<>>, h), It("t", <<>>, Good)>>, {}) : h \in Strs(HA, LH - 1) \ {<<>>}}

(* header: good or bad magic, length fields 0, exact, exact-1, exact+1, 2^16, 2^31, 2^32-7 .. 2^32-1 as (hi, lo) limbs *)
HTexts == {<<>>, <<LB, RB>>, <<LB>>, <<LS, D1, RS>>, <<LB, RB, LB, RB>>, <<QT, BS, QT>>}
Lens(t) == {<<0, 0>>, <<0, Len(t)>>, <<0, Len(t) + 1>>, <<1, 0>>, <<32768, 0>>}
           \cup (IF Len(t) > 0 THEN {<<0, Len(t) - 1>>} ELSE {})
           \cup {<<65535, lo>> : lo \in 65529..65535}
Hdr(m, L, t) == m \o Be16(L[1]) \o Be16(L[2]) \o t
HdrHostile ==
  UNION {{Sc("header", Hdr(m, L, t) \o tail, <<>>, FALSE, <<>>,
               <<It("h", m \o Be16(L[1]) \o Be16(L[2]), t)>> \o (IF tail = <<>> THEN <<>> ELSE <<It("t", <<>>, <<LB, RB>>)>>), 1..(6 + Len(t) + 7)) :
            m \in {Magic, <<Magic[1], 0>>}, L \in Lens(t), tail \in {<<>>, HdrEncode(Magic, <<LB, RB>>)}} : t \in HTexts}
  \cup {Sc("header", h, <<>>, FALSE, <<>>, <<It("h", SubSeq(h, 1, IF Len(h) < 6 THEN Len(h) ELSE 6), SubSeq(h, 7, Len(h)))>>, 1..Len(h)) :
            h \in Strs({Magic[1], Magic[2], 0, 255, LB}, LHR) \ {<<>>}}

Hostile == (IF "raw" \in Kinds THEN RawHostile ELSE {})
           \cup (IF "header" \in Kinds THEN HdrHostile ELSE {})
           \cup (IF "packet" \in Kinds THEN PktHostile ELSE {})

McScenarios == WellFormed \cup Hostile
McWellFormed == WellFormed
McHostile == Hostile
McPre == <<123, 34, 112, 34, 58>>          \* {"p":
McMagic == <<62, 90>>
McPreFull == <<123, 34, 106, 115, 111, 110, 114, 112, 99, 34, 58, 34, 50, 46, 48, 34, 44, 34, 109, 101, 116, 104, 111, 100, 34, 58, 34, 109, 34, 44, 34, 105, 100, 34, 58, 55, 44, 34, 112, 97, 114, 97, 109, 115, 34, 58>>      \* {"jsonrpc":"2.0","method":"m","id":7,"params":
=============================================================================
