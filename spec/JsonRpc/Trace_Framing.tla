--------------------------- MODULE Trace_Framing ---------------------------
(* Trace validation for the framing half of C14.  The driver (harness/c14_jsonrpc, mode "frame") feeds a  *)
(* byte stream to a real HeaderStreamProto / RawStreamProto / PacketProto through the users'              *)
(* leftover-buffer loop, first unsegmented, then in several segmentations, and logs                       *)
(*   Begin{f, stream, items:[{a,b,v,d}], wf}   Run{cuts}   Feed{n}   Call{g, r, d}   RunEnd   Reset       *)
(* (a,b = extent of an item in the stream; v = the item is a well-formed JSON-RPC text according to the   *)
(* harness's own nlohmann parse or was written by the real encoder; d = the messages it carries; in Call: *)
(* g = bytes given, r = return value, d = messages delivered to the callbacks during the call).           *)
(*                                                                                                       *)
(* What is demanded (exactly the statement):                                                             *)
(*  - wf streams (encoder output / valid JSON objects and arrays, white space between raw values): every  *)
(*    call must return what the reference framing of FrameOps computes from the bytes actually given -    *)
(*    0 while the next frame is incomplete, its length when it is complete - and deliver exactly the      *)
(*    messages of the item that ends there (RoundTrip, resumability).                                     *)
(*  - any stream: r <= g (ConsumedBounded); a negative return ends the run; every segmented run ends with *)
(*    the same delivered messages, the same open/error status and the same number of consumed bytes as    *)
(*    the unsegmented run of the same stream (SegmentationIndependent).  For malformed input nothing      *)
(*    else is prescribed (which error, how many bytes).                                                   *)
(*  - no Fault line (exception, crash, sanitizer report): no action accepts it (TotalByReturnValue).       *)
EXTENDS FrameOps, Json, IOUtils, TLC
Log == ndJsonDeserialize(IOEnv.TRACE)
VARIABLES l,
          sc,      \* the Begin record of the execution
          run,     \* number of the current run (1 = unsegmented), 0 = none open
          fed,     \* bytes fed in this run
          off,     \* bytes consumed in this run
          out,     \* descriptors delivered in this run
          st,      \* "open" | "error"
          mustCall,\* a Feed happened / a positive return left bytes: the users' loop calls again
          ref,     \* <<out, st, off>> of the unsegmented run
          frames   \* wf streams: end offsets of the frames according to the reference framing of the whole stream
ASSUME TLCSet(42, 0)
tvars == <<l, sc, run, fed, off, out, st, mustCall, ref, frames>>

Magic == <<62, 90>>
Ev == Log[l]
IsEv(e) == l <= Len(Log) /\ Log[l].e = e /\ l' = l + 1
None == [f |-> "none"]

(* Reference framing (FrameOps) of a well-formed stream, computed once per execution from the bytes the real code  *)
(* is given.  The reference decoders are segmentation independent (checked by TLC on Framing.tla together with    *)
(* RefAgrees), so a call on stream[off+1 .. fed] must return "need more" until the next frame end has been fed.    *)
RECURSIVE RefFrames(_, _, _)
RefFrames(s, o, acc) ==
  IF o >= Len(s.stream) THEN acc
  ELSE LET r == IF s.f = "header" THEN HdrDecode(s.stream, o + 1, Len(s.stream), Magic, FALSE, FALSE)
                ELSE RawRef(s.stream, o + 1, Len(s.stream)) IN
       IF r.k = "msg" THEN RefFrames(s, o + r.n, Append(acc, o + r.n)) ELSE acc
FramesOf(s) == IF ~s.wf THEN <<>>
               ELSE IF s.f = "packet" THEN [i \in 1..Len(s.items) |-> s.items[i].b]
               ELSE RefFrames(s, 0, <<>>)
NextEnd == LET E == {frames[i] : i \in 1..Len(frames)} \cap ((off + 1)..Len(sc.stream)) IN
           IF E = {} THEN 0 ELSE CHOOSE e \in E : \A x \in E : e <= x
ItemEndingAt(p) == {i \in 1..Len(sc.items) : sc.items[i].b = p /\ sc.items[i].a >= off}
RECURSIVE Cat(_, _)
Cat(items, i) == IF i > Len(items) THEN <<>> ELSE items[i].d \o Cat(items, i + 1)

TInit == l = 1 /\ frames = <<>> /\ sc = None /\ run = 0 /\ fed = 0 /\ off = 0 /\ out = <<>> /\ st = "open" /\ mustCall = FALSE /\ ref = <<>>

TBegin == /\ IsEv("Begin") /\ sc = None
          /\ sc' = Ev /\ run' = 0 /\ ref' = <<>> /\ frames' = FramesOf(Ev)
          /\ UNCHANGED <<fed, off, out, st, mustCall>>
TRun == /\ IsEv("Run") /\ sc # None /\ ~mustCall
        /\ run' = run + 1 /\ fed' = 0 /\ off' = 0 /\ out' = <<>> /\ st' = "open" /\ mustCall' = FALSE
        /\ (run = 0 => Ev.cuts = <<>>)                              \* the first run is the unsegmented one
        /\ UNCHANGED <<sc, ref, frames>>
TFeed == /\ IsEv("Feed") /\ run > 0 /\ st = "open" /\ ~mustCall
         /\ Ev.n >= 1 /\ fed + Ev.n <= Len(sc.stream)
         /\ fed' = fed + Ev.n
         /\ off' = IF sc.f = "packet" THEN fed ELSE off           \* a datagram replaces what was left of the previous one
         /\ mustCall' = TRUE
         /\ UNCHANGED <<sc, run, out, st, ref, frames>>
TCall ==
  /\ IsEv("Call") /\ run > 0 /\ st = "open" /\ mustCall
  /\ Ev.g = fed - off                                              \* the driver passed the whole connection buffer
  /\ Ev.r <= Ev.g                                                  \* ConsumedBounded
  /\ IF sc.wf
     THEN LET e == NextEnd IN
          IF e = 0 \/ e > fed
          THEN Ev.r = 0 /\ Ev.d = <<>>                              \* the next frame is incomplete: need more
          ELSE /\ Ev.r = e - off                                    \* complete: exactly the frame is consumed ...
               /\ \E i \in ItemEndingAt(e) : Ev.d = sc.items[i].d   \* ... and exactly its messages are delivered
     ELSE Ev.r = 0 => Ev.d = <<>>                                   \* "need more" delivers nothing
  /\ out' = out \o Ev.d
  /\ off' = IF Ev.r > 0 THEN off + Ev.r ELSE off
  /\ st' = IF Ev.r < 0 THEN "error" ELSE "open"
  /\ mustCall' = (Ev.r > 0 /\ sc.f # "packet" /\ off' < fed)
  /\ UNCHANGED <<sc, run, fed, ref, frames>>
TRunEnd ==
  /\ IsEv("RunEnd") /\ run > 0 /\ ~mustCall
  /\ (st = "open" => fed = Len(sc.stream))                         \* everything was fed unless the connection was reset
  /\ IF run = 1 THEN ref' = <<out, st, off>> ELSE (ref' = ref /\ <<out, st, off>> = ref)      \* SegmentationIndependent
  /\ (sc.wf => (out = Cat(sc.items, 1) /\ st = "open"))              \* RoundTrip
  /\ UNCHANGED <<sc, run, fed, off, out, st, mustCall, frames>>
TReset == /\ IsEv("Reset") /\ ~mustCall
          /\ sc' = None /\ run' = 0 /\ fed' = 0 /\ off' = 0 /\ out' = <<>> /\ st' = "open" /\ mustCall' = FALSE /\ ref' = <<>> /\ frames' = <<>>

TNext == TBegin \/ TRun \/ TFeed \/ TCall \/ TRunEnd \/ TReset
TSpec == TInit /\ [][TNext]_tvars

Progress == TLCSet(42, IF l > TLCGet(42) THEN l ELSE TLCGet(42))
Accepted == IF TLCGet(42) = Len(Log) + 1 THEN TRUE ELSE PrintT(<<"MAXPOS", TLCGet(42), Len(Log)>>) /\ FALSE
=============================================================================
