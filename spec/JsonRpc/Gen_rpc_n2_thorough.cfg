CONSTANTS
  N = 2
  T = 2
  MaxReq = 2
  MaxTime = 8
  Bodies <- McBodiesDup
  Strangers = {0}
  StrangerIds = {"null"}
  EraseFirst = TRUE
  KeepOnResponse = FALSE
  PeerIds = {1, 2}
  AsyncIntoRequestRing = FALSE
  Ops = {"req", "notify", "rsp", "stranger", "adv", "cleanup"}
  GenPeerIds = {1}
  Depth = 6
SPECIFICATION GSpec
CONSTRAINT Emit
CHECK_DEADLOCK FALSE
