------------------------------ MODULE Gen_Rpc ------------------------------
(* Behaviour generator for the request/response half of C14: the calls made from outside (request with a    *)
(* callback body, notification, response for request k, response with a foreign id, clock advance,          *)
(* cleanup) of every behaviour of Rpc.tla up to Depth such calls (BFS), or of random deep behaviours          *)
(* (-simulate), are printed as a script.  What happens inside (callback bodies, timer ticks) is determined   *)
(* by the script and executed by the real code.                                                              *)
EXTENDS MC_Rpc, Json
CONSTANTS Depth, StrangerIds,
          Ops,          \* kinds of outside calls to generate: subset of {"req","notify","rsp","stranger","insync","inasync","respond","adv","cleanup"}
          GenPeerIds    \* ids the peer uses for its own requests
VARIABLE hist
gvars == <<vars, hist>>
Op(o, cb, body, k, raw) == [o |-> o, cb |-> cb, body |-> body, k |-> k, raw |-> raw]
NAsync == Cardinality({i \in 1..Len(hist) : hist[i].o = "inasync"})
Responded == {hist[i].k : i \in {j \in 1..Len(hist) : hist[j].o = "respond"}}
H(op) == hist' = Append(hist, op)
Outside == Len(hist) < Depth /\ Idle /\ ~closed /\ ~TickDue
GInit == Init /\ hist = <<>>
GNext ==
  \/ /\ "req" \in Ops /\ Outside /\ \E b \in Bodies : DoRequest(b, stack) /\ H(Op("req", TRUE, b, 0, ""))
  \/ /\ "notify" \in Ops /\ Outside /\ UNCHANGED vars /\ H(Op("req", FALSE, <<>>, 0, ""))
  \/ /\ "rsp" \in Ops /\ Outside /\ \E id \in 1..nextId : DoResponse(id, stack) /\ H(Op("rsp", FALSE, <<>>, id, ""))
  \/ /\ "stranger" \in Ops /\ Outside /\ \E s \in StrangerIds : UNCHANGED vars /\ H(Op("rsp", FALSE, <<>>, 0, s))
  \/ /\ "insync" \in Ops /\ Outside /\ \E p \in GenPeerIds : UNCHANGED vars /\ H(Op("insync", FALSE, <<>>, p, ""))
  \/ /\ "inasync" \in Ops /\ Outside /\ \E p \in GenPeerIds : InAsync(p) /\ H(Op("inasync", FALSE, <<>>, p, ""))
  \/ /\ "respond" \in Ops /\ Outside /\ \E j \in (1..NAsync) \ Responded : UNCHANGED vars /\ H(Op("respond", FALSE, <<>>, j, ""))
  \/ /\ "adv" \in Ops /\ Len(hist) < Depth /\ Advance /\ H(Op("adv", FALSE, <<>>, 0, ""))
  \/ /\ "cleanup" \in Ops /\ Len(hist) < Depth /\ Cleanup /\ H(Op("cleanup", FALSE, <<>>, 0, ""))
  \/ /\ (BodyReq \/ BodyRsp \/ CbEnd \/ Tick \/ TmoFire \/ TmoSkip \/ TickEnd) /\ hist' = hist
GSpec == GInit /\ [][GNext]_gvars
Emit == IF Len(hist) >= Depth /\ Idle /\ ~TickDue
        THEN PrintT("BEH " \o ToJson([N |-> N, T |-> T, steps |-> hist])) /\ FALSE
        ELSE TRUE
=============================================================================
