------------------------ MODULE Trace_TcpServer ------------------------
(* Trace validation for E08.  An execution is  Begin (family, first reactions), calls, destroy, Reset.  Every recorded call    *)
(* must be the corresponding action of TcpServer.tla (repaired code, Bugs = {}).  During a `pass` every group of callback     *)
(* lines must be Serve(x) of one of the sources that were ready when the pass began (any order); the lines of a call or a     *)
(* callback must be exactly the events the model computes (S.out); the closing `ret` line must carry the model's return     *)
(* value, state(), the valid tokens, and for every open client what it has received from the server and whether it has read   *)
(* the end of the stream - and, for a pass, every ready source must have been served.                                         *)
EXTENDS TcpServer, Json, IOUtils, TLC
TLog == ndJsonDeserialize(IOEnv.TRACE)
VARIABLES l, inop
ASSUME TLCSet(42, 0)
tvars == <<vars, l, inop>>

Ln == TLog[l]
IsEv(e) == l <= Len(TLog) /\ TLog[l].e = e /\ l' = l + 1
Call(e) == IsEv(e) /\ ~inop /\ inop' = TRUE
NoArm == [C |-> "none", R |-> "none", D |-> "none"]

TInit == S = S0("unix", NoArm) /\ lastop = "reset" /\ nops = 0 /\ l = 1 /\ inop = FALSE
TBegin == /\ IsEv("Begin") /\ ~inop /\ lastop = "reset" /\ Ln.fam \in {"unix", "tcp"}
          /\ S' = S0(Ln.fam, [C |-> Ln.arm.C, R |-> Ln.arm.R, D |-> Ln.arm.D])
          /\ lastop' = "begin" /\ nops' = 0 /\ UNCHANGED inop
TReset == /\ IsEv("Reset") /\ ~inop /\ lastop = "destroy"
          /\ lastop' = "reset" /\ UNCHANGED <<S, nops, inop>>
Matches(ln, e) == ln.e = e.e /\ ln.a = e.a /\ ln.b = e.b /\ ln.c = e.c
TEvent == /\ l <= Len(TLog) /\ inop /\ S.out # <<>>
          /\ Matches(Ln, Head(S.out))
          /\ l' = l + 1 /\ S' = [S EXCEPT !.out = Tail(@)] /\ UNCHANGED <<lastop, nops, inop>>
\* the next callback of the pass: one of the ready sources whose first event is the line at hand
TServe == /\ l <= Len(TLog) /\ inop /\ S.inpass /\ S.out = <<>> /\ Ln.e \in {"Connected", "Received", "Disconnected"}
          /\ \E x \in S.todo : Serve(x) /\ Matches(Ln, Head(S'.out))
          /\ UNCHANGED <<l, inop>>
LiveSeq == LET T == LiveToks(S) IN SelectSeq([i \in 1..S.ntok |-> i], LAMBDA t : t \in T)
OpenCl == SelectSeq([i \in 1..S.nc |-> i], LAMBDA c : ~S.ceof[c])
ClSeq == [i \in 1..Len(OpenCl) |-> LET c == OpenCl[i] IN <<c, S.tx[c], IF S.seof[c] \/ S.shalf[c] THEN 1 ELSE 0>>]
TRet == /\ IsEv("ret") /\ inop /\ S.out = <<>>
        /\ S.inpass => PassDone(S)
        /\ Ln.v = (IF S.inpass THEN 0 ELSE S.r) /\ Ln.st = S.st /\ Ln.valid = LiveSeq /\ Ln.cl = ClSeq
        /\ inop' = FALSE
        /\ S' = [S EXCEPT !.inpass = FALSE, !.todo = {}, !.r = IF S.inpass THEN 0 ELSE @] /\ UNCHANGED <<lastop, nops>>      \* PassEnd
TNext == \/ TBegin \/ TReset \/ TEvent \/ TServe \/ TRet
         \/ Call("init") /\ InitOp
         \/ Call("start") /\ StartOp
         \/ Call("stop") /\ StopOp
         \/ Call("cleanup") /\ CleanupOp
         \/ Call("send") /\ Ln.t \in 0..(MaxC + 1) /\ Ln.n \in 1..100000 /\ SendOp(Ln.t, Ln.n)
         \/ Call("disc") /\ Ln.t \in 0..(MaxC + 1) /\ DiscOp(Ln.t)
         \/ Call("shutdown") /\ Ln.t \in 0..(MaxC + 1) /\ ShutdownOp(Ln.t)
         \/ Call("arm") /\ Ln.w \in {"C", "R", "D"} /\ Ln.a \in ArmVals /\ ArmOp(Ln.w, Ln.a)
         \/ Call("cconnect") /\ CConnectOp
         \/ Call("csend") /\ Ln.n \in 1..100000 /\ CSendOp(Ln.c, Ln.n)
         \/ Call("cclose") /\ CCloseOp(Ln.c)
         \/ Call("pass") /\ PassBegin
         \/ Call("destroy") /\ DestroyOp
TSpec == TInit /\ [][TNext]_tvars

Progress == TLCSet(42, IF l > TLCGet(42) THEN l ELSE TLCGet(42))
Accepted == IF TLCGet(42) = Len(TLog) + 1 THEN TRUE ELSE PrintT(<<"MAXPOS", TLCGet(42), Len(TLog)>>) /\ FALSE
=============================================================================
