CONSTANTS
  Bugs = {}
  MaxC = 2
  MaxOps = 7
  Fams = {"unix"}
  MaxData = 2
  MaxArms = 1
  Rearm = FALSE
SPECIFICATION Spec
CONSTRAINT Bound
INVARIANTS TypeOK NoUB TokensDistinct TokenIffAccepted CallbackOnce DisconnectedOnlyForPeerClose QuietWhenStopped ListenerMatchesState BacklogConsistent ReleasedAreQuiet ClosingAreGone TodoOnlyInPass
CHECK_DEADLOCK FALSE
