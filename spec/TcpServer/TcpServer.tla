----------------------------- MODULE TcpServer -----------------------------
(* E08 - tbox::network::TcpServer (tcp_server.h/.cpp) on top of tbox::network::TcpAcceptor (tcp_acceptor.h/.cpp) and      *)
(* TcpConnection.                                                                                                         *)
(*                                                                                                                        *)
(* One record S shaped like the C++ objects (so that the user's callbacks can call the API again: "reactions"):           *)
(*   st        TcpServer::state(): none inited running;   lopen  the acceptor's listening socket exists (initialize ..   *)
(*             cleanup; stop() only disables its read event: clients keep connecting into the kernel's backlog)          *)
(*   clients   the driver's client sockets 1, 2, ... in the order of their connect():                                     *)
(*     cst[c]    none | queued (connected, waiting in the backlog) | live (accepted: has a token) | gone (released)       *)
(*     tok[c]    token of the connection (tokens are numbered in the order in which the connected callback shows them)    *)
(*     rx rxoff  bytes written by client c that are not yet delivered / already delivered to the receive callback         *)
(*     ceof      client c has closed its socket;   tx  bytes the server has sent to c;   shalf  shutdown(token, SHUT_WR)    *)
(*     seof      the server's descriptor of the connection is closed (the client reads the end of the stream)             *)
(*   closing   released connections whose descriptor is closed by a deferred task (BufferedFd is destroyed by the loop)   *)
(*   backlog   queued clients in connect order (the kernel's accept queue)                                               *)
(*   todo      during a loop pass: the event sources that were ready when the pass began and are still to be served:      *)
(*             0 the acceptor (at least one accept per pass), c a live connection with data or the end of the stream     *)
(*   arm[w]    what the user's callback w (C connected, R receive, D disconnected) does when it is called next (one shot):   *)
(*             none disc_self disc_other send_self send_other stop cleanup                                               *)
(*   out r     observable events of the current call / callback in order; return value of the last API call (0/1)        *)
(*   inacc indisc  the acceptor's callback / the disconnected callback of client indisc is on the stack                   *)
(*   ccb dcb   ghost: number of connected / disconnected callbacks per client;  bad  undefined behaviour                  *)
(*                                                                                                                        *)
(* A loop pass is PassBegin, one Serve(x) per ready source in any order (the order of epoll's ready list is not           *)
(* promised), PassEnd.  What a callback releases is no longer served in the same pass.                                   *)
(*                                                                                                                        *)
(* Promises modelled: a token per accepted connection, never reused; connected once per connection; data for the right    *)
(* token, in order, once; disconnected exactly once and only when the peer closed (a local disconnect(token) /          *)
(* stop() / cleanup() releases without callback); API calls on a dead or unknown token return false and do nothing;      *)
(* during the disconnected callback the token is still valid (the code calls back first and frees afterwards).           *)
(*                                                                                                                        *)
(* Bugs (as-found switches):                                                                                              *)
(*   "stop_deletes_now"    stop() destroyed every connection at once - also the one whose disconnected callback is        *)
(*                         running (TBOX_ASSERT(cb_level_ == 0) in ~TcpConnection, use after free without assertions)    *)
(*   "cleanup_deletes_ev"  cleanup() destroyed the acceptor's read event at once - also from inside the connected         *)
(*                         callback, which runs inside that event's callback                                             *)
EXTENDS Integers, Sequences, FiniteSets
CONSTANTS Bugs, MaxC

VARIABLES S, lastop, nops
vars == <<S, lastop, nops>>

Cl == 1..MaxC
ArmVals == {"none", "disc_self", "disc_other", "send_self", "send_other", "stop", "cleanup"}
Ev(X, e, a, b, c) == [X EXCEPT !.out = Append(@, [e |-> e, a |-> a, b |-> b, c |-> c])]
Clr(X) == [X EXCEPT !.out = <<>>, !.r = 0]
SetMin(T) == CHOOSE x \in T : \A y \in T : x <= y
Seed(c) == (50 * c) % 251                                   \* first byte value client c writes

Live(X) == {c \in Cl : X.cst[c] = "live"}
LiveToks(X) == {X.tok[c] : c \in Live(X)}
ClientOf(X, t) == IF t # 0 /\ \E c \in Cl : X.tok[c] = t THEN CHOOSE c \in Cl : X.tok[c] = t ELSE 0
IsLive(X, t) == ClientOf(X, t) # 0 /\ X.cst[ClientOf(X, t)] = "live"
OtherTok(X, t) == IF LiveToks(X) \ {t} = {} THEN 0 ELSE SetMin(LiveToks(X) \ {t})

\* the connection of client c leaves the server: no callback; its descriptor is closed by a deferred task
Release(X, c) == [X EXCEPT !.cst[c] = "gone", !.closing = @ \cup {c}, !.todo = @ \ {c}, !.rx[c] = 0]

\* ---------------------------------------------------------------- TcpServer API ---------------------------------
SDisconnect(X, t) == IF IsLive(X, t) THEN [Release(X, ClientOf(X, t)) EXCEPT !.r = 1] ELSE [X EXCEPT !.r = 0]

SSend(X, t, n) ==
  LET c == ClientOf(X, t) IN
  IF IsLive(X, t) /\ X.indisc # c                              \* inside its disconnected callback the stream is gone
  THEN [X EXCEPT !.tx[c] = IF X.shalf[c] THEN @ ELSE @ + n, !.r = 1]     \* after SHUT_WR the bytes are lost
  ELSE [X EXCEPT !.r = 0]

SShutdown(X, t, rr) ==
  LET c == ClientOf(X, t) IN
  IF IsLive(X, t) /\ X.indisc # c THEN [X EXCEPT !.shalf[c] = TRUE, !.r = rr] ELSE [X EXCEPT !.r = 0]
\* kernel: shutdown() of a socket whose peer is gone may say ENOTCONN
ShutRets(X, t) == IF IsLive(X, t) /\ X.ceof[ClientOf(X, t)] THEN {0, 1} ELSE {1}

RECURSIVE ReleaseAll(_, _)
ReleaseAll(X, T) == IF T = {} THEN X ELSE LET c == SetMin(T) IN ReleaseAll(Release(X, c), T \ {c})

SStop(X) ==
  IF X.st # "running" THEN [X EXCEPT !.r = 0]
  ELSE LET X1 == IF "stop_deletes_now" \in Bugs /\ X.indisc # 0 /\ X.cst[X.indisc] = "live"
                 THEN [X EXCEPT !.bad = @ \cup {"connection destroyed inside its disconnected callback"}] ELSE X
       IN [ReleaseAll(X1, Live(X1)) EXCEPT !.st = "inited", !.todo = {}, !.r = 0]

SCleanup(X) ==
  IF X.st = "none" THEN [X EXCEPT !.r = 0]
  ELSE LET X1 == SStop(X)
           X2 == IF "cleanup_deletes_ev" \in Bugs /\ X.inacc
                 THEN [X1 EXCEPT !.bad = @ \cup {"acceptor's read event destroyed inside its callback"}] ELSE X1
           Q == {c \in Cl : X2.cst[c] = "queued"}             \* the listening socket is closed: the kernel resets what waits
       IN [X2 EXCEPT !.st = "none", !.lopen = FALSE, !.backlog = <<>>, !.todo = {}, !.r = 0,
                     !.cst = [c \in Cl |-> IF c \in Q THEN "gone" ELSE @[c]],
                     !.seof = [c \in Cl |-> IF c \in Q THEN TRUE ELSE @[c]],
                     !.rx = [c \in Cl |-> IF c \in Q THEN 0 ELSE @[c]]]

SInit(X) == IF X.st # "none" THEN [X EXCEPT !.r = 0] ELSE [X EXCEPT !.st = "inited", !.lopen = TRUE, !.r = 1]
SStart(X) == IF X.st # "inited" THEN [X EXCEPT !.r = 0] ELSE [X EXCEPT !.st = "running", !.r = 1]

\* ---------------------------------------------------------------- callbacks -------------------------------------
React(X, w, self) ==
  LET a == X.arm[w] IN
  IF a = "none" THEN X
  ELSE LET tgt == CASE a \in {"disc_self", "send_self"} -> self
                    [] a \in {"disc_other", "send_other"} -> OtherTok(X, self)
                    [] OTHER -> 0
           X1 == Ev([X EXCEPT !.arm[w] = "none"], "React_" \o a, tgt, 0, 0)
           X2 == CASE a \in {"disc_self", "disc_other"} -> SDisconnect(X1, tgt)
                   [] a \in {"send_self", "send_other"} -> SSend(X1, tgt, 1)
                   [] a = "stop" -> SStop(X1)
                   [] a = "cleanup" -> SCleanup(X1)
       IN Ev(X2, "ReactRet", X2.r, 0, 0)

Accept(X) ==                                                  \* TcpAcceptor::onClientConnected -> TcpServer::onTcpConnected
  LET c == Head(X.backlog)
      t == X.ntok + 1
      X1 == [X EXCEPT !.backlog = Tail(@), !.cst[c] = "live", !.tok[c] = t, !.ntok = t, !.ccb[c] = @ + 1, !.inacc = TRUE,
                      !.acc = @ + 1]
      X2 == [React(Ev(X1, "Connected", t, 0, 0), "C", t) EXCEPT !.inacc = FALSE]
  \* the code accepts one connection per pass; accepting more of the waiting ones in the same pass is left open
  IN IF X2.st = "running" /\ X2.backlog # <<>> THEN X2 ELSE [X2 EXCEPT !.todo = @ \ {0}]

Deliver(X, c) ==                                              \* BufferedFd::onReadCallback of connection c
  LET t == X.tok[c] IN
  IF X.rx[c] > 0
  THEN React(Ev([X EXCEPT !.rxoff[c] = @ + X.rx[c], !.rx[c] = 0, !.todo = @ \ {c}],
                "Received", t, (Seed(c) + X.rxoff[c]) % 251, X.rx[c]), "R", t)
  ELSE LET X1 == React(Ev([X EXCEPT !.dcb[c] = @ + 1, !.indisc = c, !.todo = @ \ {c}], "Disconnected", t, 0, 0), "D", t)
           X2 == [X1 EXCEPT !.indisc = 0]
       IN IF X2.cst[c] = "live" THEN Release(X2, c) ELSE X2    \* TcpServer::onTcpDisconnected frees after the callback

Ready(X) == (IF X.st = "running" /\ X.backlog # <<>> THEN {0} ELSE {})
            \cup {c \in Live(X) : X.rx[c] > 0 \/ X.ceof[c]}

\* ---------------------------------------------------------------- the state machine -----------------------------
S0(f, arm) == [fam |-> f, st |-> "none", lopen |-> FALSE, nc |-> 0, ntok |-> 0, backlog |-> <<>>,
               cst |-> [c \in Cl |-> "none"], tok |-> [c \in Cl |-> 0], rx |-> [c \in Cl |-> 0], rxoff |-> [c \in Cl |-> 0],
               ceof |-> [c \in Cl |-> FALSE], tx |-> [c \in Cl |-> 0], shalf |-> [c \in Cl |-> FALSE], seof |-> [c \in Cl |-> FALSE],
               closing |-> {}, todo |-> {}, inpass |-> FALSE, acc |-> 0, arm |-> arm, arm0 |-> arm, out |-> <<>>, r |-> 0, inacc |-> FALSE, indisc |-> 0,
               ccb |-> [c \in Cl |-> 0], dcb |-> [c \in Cl |-> 0], bad |-> {}]

Alive == lastop \notin {"destroy", "reset"}
Op(name, X) == /\ Alive /\ ~S.inpass /\ S' = X /\ lastop' = name /\ nops' = nops + 1

InitOp == Alive /\ Op("init", SInit(Clr(S)))
StartOp == Alive /\ Op("start", SStart(Clr(S)))
StopOp == Alive /\ Op("stop", SStop(Clr(S)))
CleanupOp == Alive /\ Op("cleanup", SCleanup(Clr(S)))
SendOp(t, n) == Alive /\ Op("send", SSend(Clr(S), t, n))
DiscOp(t) == Alive /\ Op("disc", SDisconnect(Clr(S), t))
ShutdownOp(t) == Alive /\ \E rr \in ShutRets(S, t) : Op("shutdown", SShutdown(Clr(S), t, rr))
ArmOp(w, a) == Alive /\ Op("arm", [Clr(S) EXCEPT !.arm[w] = a])
\* the driver's clients
CConnectOp == /\ S.nc < MaxC
              /\ IF S.lopen
                 THEN Op("cconnect", [Clr(S) EXCEPT !.nc = @ + 1, !.cst[S.nc + 1] = "queued", !.backlog = Append(@, S.nc + 1), !.r = 1])
                 ELSE Op("cconnect", Clr(S))                                         \* refused
COpen(c) == c \in Cl /\ S.cst[c] # "none" /\ ~S.ceof[c]
CSendOp(c, n) == /\ COpen(c) /\ ~S.seof[c]                    \* assumption: no write to a connection known to be closed
                 /\ Op("csend", [Clr(S) EXCEPT !.rx[c] = IF S.cst[c] \in {"queued", "live"} THEN @ + n ELSE @])
CCloseOp(c) == COpen(c) /\ Op("cclose", [Clr(S) EXCEPT !.ceof[c] = TRUE])
\* one loop pass
PassBegin == /\ Alive /\ ~S.inpass
             /\ S' = [Clr(S) EXCEPT !.inpass = TRUE, !.todo = Ready(S), !.closing = {}, !.acc = 0,
                                    !.seof = [c \in Cl |-> @[c] \/ c \in S.closing]]      \* the deferred tasks of earlier calls
             /\ lastop' = "pass" /\ nops' = nops + 1
Serve(x) == /\ S.inpass /\ x \in S.todo
            /\ S' = IF x = 0 THEN Accept([S EXCEPT !.out = <<>>]) ELSE Deliver([S EXCEPT !.out = <<>>], x)
            /\ UNCHANGED <<lastop, nops>>
PassDone(X) == X.todo \subseteq {0} /\ (0 \in X.todo => X.acc >= 1)           \* every ready source served (one accept is enough)
PassEnd == /\ S.inpass /\ PassDone(S)
           /\ S' = [S EXCEPT !.inpass = FALSE, !.todo = {}, !.out = <<>>, !.r = 0]
           /\ UNCHANGED <<lastop, nops>>
DestroyOp == Alive /\ Op("destroy", SCleanup(Clr(S)))

\* ---------------------------------------------------------------- properties ------------------------------------
TypeOK == /\ S.st \in {"none", "inited", "running"} /\ S.lopen \in BOOLEAN /\ S.nc \in 0..MaxC /\ S.ntok \in 0..MaxC
          /\ \A c \in Cl : S.cst[c] \in {"none", "queued", "live", "gone"} /\ S.tok[c] \in 0..MaxC
          /\ S.todo \subseteq (Cl \cup {0}) /\ S.closing \subseteq Cl /\ S.r \in {0, 1}
NoUB == S.bad = {}
TokensDistinct == \A c, d \in Cl : c # d /\ S.tok[c] # 0 => S.tok[c] # S.tok[d]
TokenIffAccepted == \A c \in Cl : ((S.tok[c] # 0) <=> (S.ccb[c] = 1)) /\ (S.cst[c] = "live" => S.tok[c] # 0) /\ S.tok[c] <= S.ntok
CallbackOnce == \A c \in Cl : S.ccb[c] <= 1 /\ S.dcb[c] <= 1 /\ (S.dcb[c] = 1 => S.ccb[c] = 1)
DisconnectedOnlyForPeerClose == \A c \in Cl : S.dcb[c] = 1 => S.ceof[c]
QuietWhenStopped == S.st # "running" => Live(S) = {} /\ S.todo = {}            \* no callback can come after stop() / cleanup()
ListenerMatchesState == S.lopen <=> S.st # "none"
BacklogConsistent == /\ \A i \in 1..Len(S.backlog) : S.cst[S.backlog[i]] = "queued"
                     /\ \A c \in Cl : S.cst[c] = "queued" => \E i \in 1..Len(S.backlog) : S.backlog[i] = c
                     /\ \A i, j \in 1..Len(S.backlog) : i < j => S.backlog[i] < S.backlog[j]
ReleasedAreQuiet == \A c \in Cl : S.cst[c] \in {"gone", "none"} => S.rx[c] = 0 /\ c \notin S.todo
ClosingAreGone == \A c \in S.closing : S.cst[c] = "gone" /\ ~S.seof[c]
TodoOnlyInPass == ~S.inpass => S.todo = {}
=============================================================================
