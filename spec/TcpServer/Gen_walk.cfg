CONSTANTS
  Bugs = {}
  MaxC = 5
  MaxOps = 99
  Fams = {"unix", "tcp"}
  MaxData = 40
  MaxArms = 3
  Rearm = FALSE
  Depth = 12
  Warm = {"cold", "one", "two"}
SPECIFICATION GSpec
CONSTRAINT EmitBeh
CHECK_DEADLOCK FALSE
