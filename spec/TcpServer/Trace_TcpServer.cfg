CONSTANTS
  Bugs = {}
  MaxC = 8
SPECIFICATION TSpec
CONSTRAINT Progress
POSTCONDITION Accepted
INVARIANTS TypeOK NoUB TokensDistinct CallbackOnce DisconnectedOnlyForPeerClose QuietWhenStopped
CHECK_DEADLOCK FALSE
