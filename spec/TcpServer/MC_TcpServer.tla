---- MODULE MC_TcpServer ----
(* Bounded models of TcpServer.tla: every family and every first reaction of the three callbacks is an initial state. *)
EXTENDS TcpServer
CONSTANTS MaxOps, Fams, MaxData, MaxArms, Rearm
Arms == {a \in [C : ArmVals, R : ArmVals, D : ArmVals] : Cardinality({w \in {"C", "R", "D"} : a[w] # "none"}) <= MaxArms}
Init == /\ \E f \in Fams, a \in Arms : S = S0(f, a)
        /\ lastop = "begin" /\ nops = 0
Send == \E t \in 1..(S.ntok + 1), n \in 1..MaxData : t <= MaxC + 1 /\ SendOp(t, n)
Disc == \E t \in 1..(S.ntok + 1) : DiscOp(t)
Shutdown == \E t \in 1..(S.ntok + 1) : ShutdownOp(t)
Arm == Rearm /\ \E w \in {"C", "R", "D"}, a \in ArmVals \ {"none"} : S.arm[w] = "none" /\ ArmOp(w, a)
CSend == \E c \in Cl, n \in 1..MaxData : S.rx[c] + S.rxoff[c] + n <= MaxData /\ CSendOp(c, n)
CClose == \E c \in Cl : CCloseOp(c)
ServeAny == \E x \in S.todo : Serve(x)
Next == \/ InitOp \/ StartOp \/ StopOp \/ CleanupOp \/ Send \/ Disc \/ Shutdown \/ Arm \/ CConnectOp \/ CSend \/ CClose
        \/ PassBegin \/ ServeAny \/ PassEnd \/ DestroyOp
Spec == Init /\ [][Next]_vars
Bound == nops <= MaxOps
====
