CONSTANTS
  Bugs = {"cleanup_deletes_ev"}
  MaxC = 2
  MaxOps = 5
  Fams = {"unix"}
  MaxData = 2
  MaxArms = 1
  Rearm = FALSE
SPECIFICATION Spec
CONSTRAINT Bound
INVARIANTS TypeOK NoUB TokensDistinct TokenIffAccepted CallbackOnce DisconnectedOnlyForPeerClose QuietWhenStopped ListenerMatchesState BacklogConsistent ReleasedAreQuiet ClosingAreGone TodoOnlyInPass
CHECK_DEADLOCK FALSE
