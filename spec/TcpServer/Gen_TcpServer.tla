------------------------- MODULE Gen_TcpServer -------------------------
(* Behaviour generator for E08.  The calls made are recorded in `hist`; with VIEW GView the history is not part of the state  *)
(* identity, so TLC prints one call sequence for every transition out of every distinct model state of depth Depth - 1      *)
(* (counted in calls; a pass with all its callbacks is one call).  Warm starts: after init, start, cconnect, pass (one live  *)
(* connection) / after two connections have been accepted.                                                                  *)
EXTENDS MC_TcpServer, Json, TLC
CONSTANTS Depth, Warm      \* Warm: subset of {"cold", "one", "two"}
VARIABLE hist
gvars == <<vars, hist>>
GView == vars
H(o, t, c, n) == hist' = Append(hist, [o |-> o, t |-> t, c |-> c, n |-> n])
Hop(o) == [o |-> o, t |-> 0, c |-> 0, n |-> 0]

\* a whole pass as one operator (sources served in ascending order; used for warm starts only)
RECURSIVE ServeAll(_)
ServeAll(X) == IF PassDone(X) THEN X
               ELSE LET x == SetMin(IF X.acc >= 1 THEN X.todo \ {0} ELSE X.todo)        \* like the code: one accept per pass
                    IN ServeAll(IF x = 0 THEN Accept(X) ELSE Deliver(X, x))
XPass(X) == [ServeAll([Clr(X) EXCEPT !.inpass = TRUE, !.todo = Ready(X), !.closing = {},
                                      !.seof = [c \in Cl |-> @[c] \/ c \in X.closing], !.acc = 0]) EXCEPT !.inpass = FALSE, !.todo = {}, !.out = <<>>, !.r = 0]
XConnect(X) == [Clr(X) EXCEPT !.nc = @ + 1, !.cst[X.nc + 1] = "queued", !.backlog = Append(@, X.nc + 1), !.r = 1]
One(X0) == XPass(XConnect(SStart(Clr(SInit(Clr(X0))))))
Two(X0) == XPass(XPass(XConnect(XConnect(SStart(Clr(SInit(Clr(X0))))))))
OneHist == <<Hop("init"), Hop("start"), Hop("cconnect"), Hop("pass")>>
TwoHist == <<Hop("init"), Hop("start"), Hop("cconnect"), Hop("cconnect"), Hop("pass"), Hop("pass")>>

GInit == /\ \E f \in Fams, a \in Arms, w \in Warm :
              /\ S = CASE w = "cold" -> S0(f, a) [] w = "one" -> One(S0(f, a)) [] w = "two" -> Two(S0(f, a))
              /\ hist = CASE w = "cold" -> <<>> [] w = "one" -> OneHist [] w = "two" -> TwoHist
         /\ lastop = "begin" /\ nops = 0
GNext == \/ InitOp /\ H("init", 0, 0, 0)
         \/ StartOp /\ H("start", 0, 0, 0)
         \/ StopOp /\ H("stop", 0, 0, 0)
         \/ CleanupOp /\ H("cleanup", 0, 0, 0)
         \/ \E t \in 1..(S.ntok + 1) : SendOp(t, 1) /\ H("send", t, 0, 1)
         \/ \E t \in 1..(S.ntok + 1) : DiscOp(t) /\ H("disc", t, 0, 0)
         \/ \E t \in 1..(S.ntok + 1) : ShutdownOp(t) /\ H("shutdown", t, 0, 0)
         \/ CConnectOp /\ H("cconnect", 0, 0, 0)
         \/ \E c \in Cl, n \in 1..MaxData : S.rx[c] + S.rxoff[c] + n <= MaxData /\ CSendOp(c, n) /\ H("csend", 0, c, n)
         \/ \E c \in Cl : CCloseOp(c) /\ H("cclose", 0, c, 0)
         \/ PassBegin /\ H("pass", 0, 0, 0)
         \/ ServeAny /\ UNCHANGED hist
         \/ PassEnd /\ UNCHANGED hist
GSpec == GInit /\ [][GNext]_gvars
EmitBeh == IF nops >= Depth /\ ~S.inpass
           THEN PrintT("BEH " \o ToJson([fam |-> S.fam, arm |-> S.arm0, ops |-> hist])) /\ FALSE
           ELSE TRUE
=============================================================================
