CONSTANTS
  Bugs = {"stop_deletes_now"}
  MaxC = 2
  MaxOps = 6
  Fams = {"unix"}
  MaxData = 2
  MaxArms = 1
  Rearm = FALSE
SPECIFICATION Spec
CONSTRAINT Bound
INVARIANTS TypeOK NoUB TokensDistinct TokenIffAccepted CallbackOnce DisconnectedOnlyForPeerClose QuietWhenStopped ListenerMatchesState BacklogConsistent ReleasedAreQuiet ClosingAreGone TodoOnlyInPass
CHECK_DEADLOCK FALSE
