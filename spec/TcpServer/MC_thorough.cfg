CONSTANTS
  Bugs = {}
  MaxC = 3
  MaxOps = 8
  Fams = {"unix"}
  MaxData = 2
  MaxArms = 1
  Rearm = TRUE
SPECIFICATION Spec
CONSTRAINT Bound
INVARIANTS TypeOK NoUB TokensDistinct TokenIffAccepted CallbackOnce DisconnectedOnlyForPeerClose QuietWhenStopped ListenerMatchesState BacklogConsistent ReleasedAreQuiet ClosingAreGone TodoOnlyInPass
CHECK_DEADLOCK FALSE
