CONSTANTS
  Bugs = {}
  MaxC = 3
  MaxOps = 9
  Fams = {"unix", "tcp"}
  MaxData = 2
  MaxArms = 2
  Rearm = TRUE
SPECIFICATION Spec
CONSTRAINT Bound
INVARIANTS TypeOK NoUB TokensDistinct TokenIffAccepted CallbackOnce DisconnectedOnlyForPeerClose QuietWhenStopped ListenerMatchesState BacklogConsistent ReleasedAreQuiet ClosingAreGone TodoOnlyInPass
CHECK_DEADLOCK FALSE
