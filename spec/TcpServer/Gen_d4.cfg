CONSTANTS
  Bugs = {}
  MaxC = 3
  MaxOps = 99
  Fams = {"unix", "tcp"}
  MaxData = 2
  MaxArms = 1
  Rearm = FALSE
  Depth = 4
  Warm = {"cold", "two"}
SPECIFICATION GSpec
VIEW GView
CONSTRAINT EmitBeh
CHECK_DEADLOCK FALSE
