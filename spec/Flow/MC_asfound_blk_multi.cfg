CONSTANTS
  Bugs = {"blk_multi"}
  KeepLog = FALSE
  TrackAge = FALSE
  MaxCtl = 4
  MaxGen = 3
SPECIFICATION Spec
CONSTRAINT Bound
INVARIANTS NoStaleNotification
CHECK_DEADLOCK FALSE
