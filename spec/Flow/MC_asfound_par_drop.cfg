CONSTANTS
  Bugs = {"par_drop"}
  KeepLog = FALSE
  TrackAge = FALSE
  MaxCtl = 4
  MaxGen = 3
SPECIFICATION Spec
CONSTRAINT Bound
INVARIANTS PauseHoldsResults
CHECK_DEADLOCK FALSE
