CONSTANTS
  Bugs = {"par_drop","stop_blk","held_stale","tmo_child"}
  KeepLog = TRUE
  MaxSilent = 40
  MaxAge = 3
  TrackAge = TRUE
SPECIFICATION TSpec
CONSTRAINT Progress
POSTCONDITION Accepted
CHECK_DEADLOCK FALSE
