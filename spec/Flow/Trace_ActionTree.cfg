CONSTANTS
  Bugs = {}
  KeepLog = TRUE
  MaxSilent = 40
  MaxAge = 3
  TrackAge = TRUE
SPECIFICATION TSpec
CONSTRAINT Progress
POSTCONDITION Accepted
INVARIANTS RootFinishesOnce NoRestartWhileUnderway NoStaleNotification FinalOncePerRun
CHECK_DEADLOCK FALSE
