CONSTANTS
  Bugs = {}
  KeepLog = FALSE
  TrackAge = FALSE
  MaxCtl = 3
  MaxGen = 3
SPECIFICATION Spec
CONSTRAINT Bound
INVARIANTS TypeOK RootFinishesOnce DocumentedResult ChildStartOrder NoRestartWhileUnderway NothingLeftRunning
  NoStaleNotification FinalOncePerRun ResetIsFresh PauseHoldsResults AtMostOnePending
CHECK_DEADLOCK FALSE
