CONSTANTS
  Bugs = {}
  KeepLog = FALSE
  TrackAge = FALSE
  MaxCtl = 5
  MaxPass = 4
SPECIFICATION GSpec
CONSTRAINT Emit2
CHECK_DEADLOCK FALSE
