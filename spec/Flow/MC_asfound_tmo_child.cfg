CONSTANTS
  Bugs = {"tmo_child"}
  KeepLog = FALSE
  TrackAge = FALSE
  MaxCtl = 4
  MaxGen = 3
SPECIFICATION Spec
CONSTRAINT Bound
INVARIANTS NothingLeftRunning
CHECK_DEADLOCK FALSE
