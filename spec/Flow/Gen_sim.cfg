CONSTANTS
  Bugs = {}
  KeepLog = FALSE
  TrackAge = FALSE
  MaxCtl = 4
  MaxPass = 7
SPECIFICATION GSpec
CONSTRAINT Emit2
CHECK_DEADLOCK FALSE
