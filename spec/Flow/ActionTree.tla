----------------------------- MODULE ActionTree -----------------------------
(* C17 - Action trees finish once with the documented result; nothing left running.              *)
(*                                                                                                *)
(* Implementation-shaped specification of tbox::flow::Action and its composites                   *)
(* (action.cpp, assemble_action.cpp, sequence/parallel/if_else/if_then/switch/loop/loop_if/       *)
(* repeat/wrapper/composite_action.cpp).  The *program* (a tree) is data: `prog` is a sequence of  *)
(* node records, node 1 is the root, children have larger ids than their parent:                  *)
(*   [k: kind, m: mode, c: <<child ids, 0 = absent>>, p: parent id, o: leaf outcome,              *)
(*    d: leaf delay in ticks, tag: case tag carried by a leaf result, to: timeout in ticks (0=no),*)
(*    n: repeat times]                                                                            *)
(* kinds: Seq Par IfElse IfThen Switch Loop LoopIf Repeat Wrap Comp | Leaf (probe) Sleep Func     *)
(*                                                                                                *)
(* One spec action per public call on the root (start/pause/resume/stop/reset), per clock tick,   *)
(* per leaf completion, per timeout, and per deferred notification delivered by the loop.         *)
(* The loop's deferred queue `q` holds finish/block notifications (withdrawable) and the          *)
(* re-posted "held" child results of serial composites.                                           *)
(*                                                                                                *)
(* The spec models the INTENDED behaviour.  `Bugs` switches single operations to what the code    *)
(* did when it was first examined (as-found); those configurations must violate an invariant.     *)
(*   "par_drop"   Parallel ignores a child's finish that is delivered while it is paused          *)
(*   "stop_blk"   stop() does not withdraw a queued block notification                            *)
(*   "held_stale" the held result re-posted by SerialAssembleAction::onResume cannot be withdrawn *)
(*   "blk_multi"  a second block() of a node whose first block notification is still queued leaves *)
(*                two of them queued; stop()/reset() withdraw only the newer one                  *)
(*   "tmo_child"  a composite (other than CompositeAction) that finishes by itself (timeout)      *)
(*                leaves its running child(ren) running                                           *)
EXTENDS Integers, Sequences, FiniteSets, TLC

CONSTANTS Bugs,      \* subset of the as-found switches above
          KeepLog,   \* TRUE: record the observable event log (trace validation); FALSE: model checking
          TrackAge   \* TRUE: queued notifications count the ticks they have waited (trace validation only)

VARIABLES prog,      \* the program (constant during a behaviour)
          S,         \* the state of the whole tree + the loop queue + ghosts (record, see InitS)
          nctl,      \* number of control calls made so far
          lastop     \* name of the last step (ghost; used by ResetIsFresh)

vars == <<prog, S, nctl, lastop>>

N == Len(prog)
Nodes == 1..N
K(n) == prog[n].k
M(n) == prog[n].m
C(n) == prog[n].c
Parent(n) == prog[n].p
Kids(n) == SelectSeq(C(n), LAMBDA x : x # 0)
KidSet(n) == {C(n)[i] : i \in 1..Len(C(n))} \ {0}
IsLeaf(n) == K(n) \in {"Leaf", "Sleep", "Func"}
IsProbe(n) == K(n) = "Leaf"
IsPar(n) == K(n) = "Par"
IsSerial(n) == ~IsLeaf(n) /\ ~IsPar(n)
RECURSIVE Desc(_)
Desc(n) == KidSet(n) \cup UNION {Desc(c) : c \in KidSet(n)}

NoHeld == [c |-> 0, succ |-> FALSE, tag |-> 0]

InitS(p) ==
  LET NN == 1..Len(p) IN
  [ st     |-> [n \in NN |-> "Idle"],        \* Action::state_
    res    |-> [n \in NN |-> "Unsure"],      \* Action::result_
    cur    |-> [n \in NN |-> 0],             \* SerialAssembleAction::curr_action_
    held   |-> [n \in NN |-> NoHeld],        \* SerialAssembleAction::child_finish_func_
    idx    |-> [n \in NN |-> 0],             \* SequenceAction/IfThenAction::index_
    remain |-> [n \in NN |-> 0],             \* RepeatAction::remain_times_ (-1 = unbounded)
    pf     |-> [n \in NN |-> 0],             \* ParallelAction::finished_children_ entry of child n (0 none,1 succ,2 fail)
    lrem   |-> [n \in NN |-> 0],             \* leaf: ticks until it completes
    lph    |-> [n \in NN |-> 0],             \* block leaf: 0 before block, 1 blocked, 2 resumed
    ten    |-> [n \in NN |-> FALSE],         \* Action::timer_ev_ enabled
    trem   |-> [n \in NN |-> 0],             \* ticks until the timeout fires
    q      |-> <<>>,                         \* the loop's deferred queue
    log    |-> <<>>,                         \* observable events since the last snapshot
    \* ghosts
    gen    |-> [n \in NN |-> 0],             \* number of resets of n
    finals |-> [n \in NN |-> 0],             \* onFinal() calls in the current run
    iters  |-> [n \in NN |-> 0],             \* Repeat: child starts in the current run
    tmo    |-> [n \in NN |-> FALSE],         \* n finished through its timeout in the current run
    rf     |-> 0,                            \* root finish callbacks delivered since the last reset
    bad    |-> {} ]                          \* property violations noticed inside operations

Underway(S0, n) == S0.st[n] \in {"Running", "Pause"}

Logged(k, n) == KeepLog /\ (k \in {"rootfin", "rootblk"} \/ IsProbe(n) \/ (k = "final" /\ ~IsLeaf(n)))
Emit(S0, k, n) == IF Logged(k, n) THEN [S0 EXCEPT !.log = Append(@, <<k, n>>)] ELSE S0
Flag(S0, f) == [S0 EXCEPT !.bad = @ \cup {f}]

Item(k, n, c, succ, tag, g) == [k |-> k, n |-> n, c |-> c, succ |-> succ, tag |-> tag, g |-> g, age |-> 0]
PostQ(S0, it) == [S0 EXCEPT !.q = Append(@, it)]
Cancel(S0, k, n) == [S0 EXCEPT !.q = SelectSeq(@, LAMBDA it : ~(it.k = k /\ it.n = n))]
TimerOff(S0, n) == [S0 EXCEPT !.ten[n] = FALSE]
TimerOn(S0, n) == IF prog[n].to > 0 /\ ~S0.ten[n] THEN [S0 EXCEPT !.ten[n] = TRUE, !.trem[n] = prog[n].to] ELSE S0

Pos(P, c) == CHOOSE i \in 1..Len(C(P)) : C(P)[i] = c
\* children whose finish is bound to onLastChildFinished (the parent finishes with the child's result)
IsLastRole(P, c) ==
  CASE K(P) = "IfElse" -> Pos(P, c) # 1
    [] K(P) = "IfThen" -> Pos(P, c) % 2 = 0
    [] K(P) = "Switch" -> Pos(P, c) # 1
    [] K(P) = "Comp"   -> TRUE
    [] OTHER -> FALSE

StartOk(S0, c) == S0.st[c] \in {"Idle", "Running"}      \* return value of Action::start()

RECURSIVE Start(_, _, _), Stop(_, _), Pause(_, _), Resume(_, _), Reset(_, _), Finish(_, _, _, _)
RECURSIVE StartAll(_, _), StopAll(_, _), PauseAll(_, _), ResumePaused(_, _), ResetAll(_, _)

StartAll(S0, cs) == IF cs = <<>> THEN S0 ELSE StartAll(Start(S0, Head(cs), TRUE), Tail(cs))
StopAll(S0, cs) == IF cs = <<>> THEN S0 ELSE StopAll(Stop(S0, Head(cs)), Tail(cs))
PauseAll(S0, cs) == IF cs = <<>> THEN S0 ELSE PauseAll(Pause(S0, Head(cs)), Tail(cs))
ResumePaused(S0, cs) == IF cs = <<>> THEN S0 ELSE ResumePaused(Resume(S0, Head(cs)), Tail(cs))
ResetAll(S0, cs) == IF cs = <<>> THEN S0 ELSE ResetAll(Reset(S0, Head(cs)), Tail(cs))

StopCurr(S0, n) == IF S0.cur[n] # 0 THEN [Stop(S0, S0.cur[n]) EXCEPT !.cur[n] = 0] ELSE S0

\* Action::block()
\* withdraw the queued block notification of n (Action::block_cb_run_id_ names one task: the newest)
CancelBlk(S0, n) ==
  IF "blk_multi" \notin Bugs THEN Cancel(S0, "blk", n)
  ELSE LET idxs == {i \in DOMAIN S0.q : S0.q[i].k = "blk" /\ S0.q[i].n = n} IN
       IF idxs = {} THEN S0
       ELSE LET m == CHOOSE i \in idxs : \A j \in idxs : j <= i IN
            [S0 EXCEPT !.q = SubSeq(@, 1, m - 1) \o SubSeq(@, m + 1, Len(@))]

\* Action::block(); a block notification that is still queued is replaced by the new one
Block(S0, n, tag) ==
  IF S0.st[n] \in {"Finished", "Stoped"} THEN S0
  ELSE LET S1 == IF "blk_multi" \in Bugs THEN S0 ELSE Cancel(S0, "blk", n) IN
       PostQ([S1 EXCEPT !.st[n] = "Pause"], Item("blk", n, 0, FALSE, tag, S0.gen[n]))

\* Action::finish()
Finish(S0, n, succ, tag) ==
  IF S0.st[n] \in {"Finished", "Stoped"} THEN S0
  ELSE LET S1 == TimerOff([S0 EXCEPT !.st[n] = "Finished"], n)
           S2 == IF IsSerial(n) /\ (K(n) = "Comp" \/ "tmo_child" \notin Bugs) THEN StopCurr(S1, n)
                 ELSE IF IsPar(n) /\ "tmo_child" \notin Bugs THEN StopAll(S1, Kids(n))
                 ELSE S1
           S3 == [S2 EXCEPT !.res[n] = IF succ THEN "Succ" ELSE "Fail", !.finals[n] = @ + 1]
           S4 == PostQ(S3, Item("fin", n, 0, succ, tag, S3.gen[n]))
       IN Emit(S4, "final", n)

\* a leaf completes (probe leaf / FunctionAction / SleepAction timer)
LeafFire(S00, n) ==
  LET S0 == [S00 EXCEPT !.lrem[n] = 0] IN
  CASE prog[n].o = "succ" -> Finish(S0, n, TRUE, prog[n].tag)
    [] prog[n].o = "fail" -> Finish(S0, n, FALSE, prog[n].tag)
    [] prog[n].o = "block" -> IF S0.lph[n] = 0 THEN [Block(S0, n, 0) EXCEPT !.lph[n] = 1]
                              ELSE Finish(S0, n, TRUE, prog[n].tag)
    [] OTHER -> S0

StartThis(S0, P, c) == IF StartOk(S0, c) THEN [Start(S0, c, TRUE) EXCEPT !.cur[P] = c] ELSE Flag(S0, "startfail")

SeqStartOrFinish(S0, n, succ, tag) ==
  IF S0.idx[n] < Len(C(n))
  THEN LET c == C(n)[S0.idx[n] + 1] IN
       IF StartOk(S0, c) THEN StartThis(S0, n, c) ELSE Finish(Flag(S0, "startfail"), n, FALSE, 0)
  ELSE Finish(S0, n, succ, tag)

IfThenDoStart(S0, n) ==
  IF 2 * S0.idx[n] >= Len(C(n)) THEN Finish(S0, n, FALSE, 0)
  ELSE StartThis(S0, n, C(n)[2 * S0.idx[n] + 1])

OnStart(S0, n) ==
  CASE K(n) \in {"Leaf", "Func"} ->
         LET S1 == [Emit(S0, "start", n) EXCEPT !.lrem[n] = prog[n].d, !.lph[n] = 0] IN
         IF prog[n].d = 0 THEN LeafFire(S1, n) ELSE S1
    [] K(n) = "Sleep"  -> [S0 EXCEPT !.lrem[n] = prog[n].d, !.lph[n] = 0]
    [] K(n) = "Seq"    -> SeqStartOrFinish(S0, n, TRUE, 0)
    [] K(n) = "Par"    -> IF Kids(n) = <<>> THEN Finish(S0, n, TRUE, 0) ELSE StartAll(S0, Kids(n))
    [] K(n) = "IfThen" -> IfThenDoStart([S0 EXCEPT !.idx[n] = 0], n)
    [] K(n) = "Repeat" -> LET S1 == StartThis([S0 EXCEPT !.remain[n] = IF prog[n].n = 0 THEN -1 ELSE prog[n].n - 1], n, C(n)[1])
                          IN [S1 EXCEPT !.iters[n] = 1]
    [] OTHER           -> StartThis(S0, n, C(n)[1])       \* IfElse, Switch, Loop, LoopIf, Wrap, Comp

\* Action::start();  byParent: the call comes from a composite (ghost, for NoRestartWhileUnderway)
Start(S0, n, byParent) ==
  IF S0.st[n] # "Idle"
  THEN IF byParent /\ Underway(S0, n) THEN Flag(S0, "restart") ELSE S0
  ELSE LET S1 == OnStart([S0 EXCEPT !.finals[n] = 0, !.tmo[n] = FALSE, !.iters[n] = 0], n)
       IN IF S1.st[n] = "Idle" THEN TimerOn([S1 EXCEPT !.st[n] = "Running"], n) ELSE S1

\* Action::pause()
Pause(S0, n) ==
  IF S0.st[n] # "Running" THEN S0
  ELSE LET S1 == CASE IsLeaf(n) -> Emit(S0, "pause", n)
                   [] IsPar(n) -> PauseAll(S0, Kids(n))
                   [] OTHER -> IF S0.cur[n] # 0 THEN Pause(S0, S0.cur[n]) ELSE S0
       IN TimerOff([S1 EXCEPT !.st[n] = "Pause"], n)

ParDecide(S0, n) ==    \* 0: go on, 1: a child result ends the parallel (stop the others), 2: all children finished
  LET ks == KidSet(n) IN
  IF \E c \in ks : (M(n) = 2 /\ S0.pf[c] = 1) \/ (M(n) = 1 /\ S0.pf[c] = 2) THEN 1
  ELSE IF \A c \in ks : S0.pf[c] # 0 THEN 2 ELSE 0

OnResume(S0, n) ==
  CASE IsLeaf(n) ->
         \* the timer is armed afresh: if it was overdue it is merely due again
         LET S1 == [Emit(S0, "resume", n) EXCEPT !.lrem[n] = IF K(n) = "Sleep" THEN prog[n].d ELSE IF @ < 0 THEN 0 ELSE @] IN
         IF S1.lph[n] = 1
         THEN LET S2 == [S1 EXCEPT !.lph[n] = 2, !.lrem[n] = prog[n].d] IN
              IF prog[n].d = 0 /\ K(n) # "Sleep" THEN LeafFire(S2, n) ELSE S2
         ELSE S1
    [] IsPar(n) ->
         IF "par_drop" \in Bugs THEN ResumePaused(S0, Kids(n))
         ELSE CASE ParDecide(S0, n) = 1 -> Finish(StopAll(S0, Kids(n)), n, TRUE, 0)
                [] ParDecide(S0, n) = 2 -> Finish(S0, n, TRUE, 0)
                [] OTHER -> ResumePaused(S0, Kids(n))
    [] OTHER ->
         IF S0.cur[n] # 0 THEN Resume(S0, S0.cur[n])
         ELSE IF S0.held[n] # NoHeld
         THEN PostQ([S0 EXCEPT !.held[n] = NoHeld],
                    Item("held", n, S0.held[n].c, S0.held[n].succ, S0.held[n].tag, S0.gen[n]))
         ELSE S0

\* Action::resume()
Resume(S0, n) ==
  IF S0.st[n] # "Pause" THEN S0
  ELSE LET S1 == OnResume(S0, n)
       IN IF S1.st[n] = "Pause" THEN TimerOn([S1 EXCEPT !.st[n] = "Running"], n) ELSE S1

\* Action::stop()
Stop(S0, n) ==
  IF ~Underway(S0, n) THEN S0
  ELSE LET S1 == TimerOff([S0 EXCEPT !.st[n] = "Stoped"], n)
           S2 == CASE IsLeaf(n) -> Emit(S1, "stop", n)
                   [] IsPar(n) -> StopAll(S1, Kids(n))
                   [] OTHER -> LET T == StopCurr(S1, n) IN
                               IF "held_stale" \in Bugs THEN [T EXCEPT !.held[n] = NoHeld]
                               ELSE Cancel([T EXCEPT !.held[n] = NoHeld], "held", n)
           S3 == IF "stop_blk" \in Bugs THEN S2 ELSE CancelBlk(S2, n)
       IN Emit([S3 EXCEPT !.finals[n] = @ + 1], "final", n)

\* Action::reset()
Reset(S0, n) ==
  IF S0.st[n] = "Idle" THEN S0
  ELSE LET S1 == CASE IsLeaf(n) -> [Emit(S0, "reset", n) EXCEPT !.lrem[n] = 0, !.lph[n] = 0]
                   [] IsPar(n) -> LET T == ResetAll(S0, Kids(n)) IN
                                  [T EXCEPT !.pf = [c \in Nodes |-> IF Parent(c) = n THEN 0 ELSE T.pf[c]]]
                   [] OTHER -> [ResetAll(S0, Kids(n)) EXCEPT !.idx[n] = 0, !.cur[n] = 0, !.held[n] = NoHeld]
           S2 == CancelBlk(Cancel(TimerOff(S1, n), "fin", n), n)
           S3 == IF "held_stale" \in Bugs THEN S2 ELSE Cancel(S2, "held", n)
       IN [S3 EXCEPT !.st[n] = "Idle", !.res[n] = "Unsure", !.gen[n] = @ + 1, !.finals[n] = 0,
                     !.tmo[n] = FALSE, !.iters[n] = 0]

-----------------------------------------------------------------------------
(* Handling of a child's finish by its parent (state of the parent is Running) *)
Handle(S0, P, c, succ, tag) ==
  CASE IsLastRole(P, c) -> Finish(S0, P, succ, tag)
    [] K(P) = "Seq" ->
         IF (M(P) = 2 /\ succ) \/ (M(P) = 1 /\ ~succ) THEN Finish(S0, P, succ, tag)
         ELSE SeqStartOrFinish([S0 EXCEPT !.idx[P] = @ + 1], P, succ, tag)
    [] K(P) = "IfElse" ->
         LET b == IF succ THEN C(P)[2] ELSE C(P)[3] IN
         IF b # 0 THEN StartThis(S0, P, b) ELSE Finish(S0, P, TRUE, tag)
    [] K(P) = "IfThen" ->
         IF succ THEN StartThis(S0, P, C(P)[2 * S0.idx[P] + 2])
         ELSE IfThenDoStart([S0 EXCEPT !.idx[P] = @ + 1], P)
    [] K(P) = "Switch" ->
         IF ~succ THEN Finish(S0, P, FALSE, 0)
         ELSE LET a == IF tag \in {1, 2} /\ C(P)[2 + tag] # 0 THEN C(P)[2 + tag] ELSE C(P)[2] IN
              IF a # 0 THEN StartThis(S0, P, a) ELSE Finish(S0, P, FALSE, 0)
    [] K(P) = "Loop" ->
         IF (M(P) = 2 /\ succ) \/ (M(P) = 1 /\ ~succ) THEN Finish(S0, P, succ, tag)
         ELSE StartThis(Reset(S0, c), P, c)
    [] K(P) = "LoopIf" ->
         IF Pos(P, c) = 1
         THEN IF succ THEN StartThis(S0, P, C(P)[2]) ELSE Finish(S0, P, M(P) = 1, tag)
         ELSE LET T == Reset(Reset(S0, C(P)[1]), C(P)[2]) IN
              IF StartOk(T, C(P)[1]) THEN StartThis(T, P, C(P)[1]) ELSE Finish(Flag(T, "startfail"), P, M(P) = 1, tag)
    [] K(P) = "Repeat" ->
         IF (M(P) = 2 /\ succ) \/ (M(P) = 1 /\ ~succ) THEN Finish(S0, P, succ, tag)
         ELSE IF S0.remain[P] # 0
         THEN LET T == StartThis(Reset(S0, c), P, c) IN
              [T EXCEPT !.remain[P] = IF @ = -1 THEN -1 ELSE @ - 1, !.iters[P] = @ + 1]
         ELSE Finish(S0, P, TRUE, 0)
    [] K(P) = "Wrap" ->
         Finish(S0, P, CASE M(P) = 0 -> succ [] M(P) = 1 -> ~succ [] M(P) = 2 -> TRUE [] OTHER -> FALSE, tag)
    [] OTHER -> Finish(S0, P, succ, tag)

\* SerialAssembleAction::handleChildFinishEvent / onLastChildFinished
SerialFin(S0, P, c, succ, tag) ==
  LET S1 == [S0 EXCEPT !.cur[P] = 0] IN
  CASE S1.st[P] = "Running" -> Handle(S1, P, c, succ, tag)
    [] S1.st[P] = "Pause" -> [S1 EXCEPT !.held[P] = [c |-> c, succ |-> succ, tag |-> tag]]
    [] OTHER -> S1

\* ParallelAction::onChildFinished
ParFin(S0, P, c, succ) ==
  CASE S0.st[P] = "Running" ->
         LET S1 == [S0 EXCEPT !.pf[c] = IF succ THEN 1 ELSE 2] IN
         CASE ParDecide(S1, P) = 1 -> Finish(StopAll(S1, Kids(P)), P, TRUE, 0)
           [] ParDecide(S1, P) = 2 -> Finish(S1, P, TRUE, 0)
           [] OTHER -> S1
    [] S0.st[P] = "Pause" /\ "par_drop" \notin Bugs -> [S0 EXCEPT !.pf[c] = IF succ THEN 1 ELSE 2]
    [] OTHER -> S0

ChildFin(S0, P, c, succ, tag) == IF IsPar(P) THEN ParFin(S0, P, c, succ) ELSE SerialFin(S0, P, c, succ, tag)

\* block callback of a child: ParallelAction::onChildBlocked, otherwise bound directly to the parent's block()
ChildBlk(S0, P, c, tag) ==
  IF IsPar(P) THEN IF S0.st[P] = "Running" THEN Block(PauseAll(S0, Kids(P)), P, tag) ELSE S0
  ELSE Block(S0, P, tag)

\* the closure re-posted by SerialAssembleAction::onResume runs
HeldRun(S0, P, it) ==
  IF IsLastRole(P, it.c) THEN Finish(S0, P, it.succ, it.tag)
  ELSE SerialFin(S0, P, it.c, it.succ, it.tag)

Stale(S0, it) ==
  CASE it.k = "fin" -> S0.gen[it.n] # it.g \/ S0.st[it.n] # "Finished"
    [] it.k = "blk" -> S0.gen[it.n] # it.g \/ S0.st[it.n] \in {"Stoped", "Idle"}
    [] OTHER -> S0.gen[it.n] # it.g

DeliverItem(S0, it) ==
  LET S1 == IF Stale(S0, it) THEN Flag(S0, "stale") ELSE S0 IN
  CASE it.k = "fin" -> IF it.n = 1 THEN Emit([S1 EXCEPT !.rf = @ + 1], "rootfin", IF it.succ THEN 1 ELSE 0)
                       ELSE ChildFin(S1, Parent(it.n), it.n, it.succ, it.tag)
    [] it.k = "blk" -> IF it.n = 1 THEN Emit(S1, "rootblk", 0) ELSE ChildBlk(S1, Parent(it.n), it.n, it.tag)
    [] OTHER -> HeldRun(S1, it.n, it)

-----------------------------------------------------------------------------
(* Actions *)
\* A leaf / timeout is *due* when its counter is 0 and *overdue* (-1) when a further tick has passed since: the loop
\* fires expired timers at the start of an iteration, the clock moves in the middle of one, so a due timer may see
\* one more tick but not two.
CanFire(S0, n) == IsLeaf(n) /\ S0.st[n] = "Running" /\ prog[n].o # "never" /\ S0.lph[n] # 1
\* A SleepAction leaf may complete at any moment while it runs: how much sleeping time is left after pause/resume cycles is
\* not part of the property (the code even counts a paused period twice after a second pause).  Its counter is only an
\* upper bound (full span again after every resume), so that a sleep that never completes is still noticed.
FireEnabled(S0, n) == CanFire(S0, n) /\ (S0.lrem[n] <= 0 \/ K(n) = "Sleep")
TimeoutEnabled(S0, n) == S0.ten[n] /\ S0.trem[n] <= 0
Urgent(S0) == \E n \in Nodes : (CanFire(S0, n) /\ S0.lrem[n] < 0) \/ (S0.ten[n] /\ S0.trem[n] < 0)

RetS(S0, op) == CASE op = "start" -> S0.st[1] \in {"Idle", "Running"}
                 [] op \in {"pause", "resume"} -> S0.st[1] \in {"Running", "Pause"}
                 [] OTHER -> TRUE
Ret(op) == RetS(S, op)

ApplyS(S0, op) == CASE op = "start" -> Start(S0, 1, FALSE)
                    [] op = "pause" -> Pause(S0, 1)
                    [] op = "resume" -> Resume(S0, 1)
                    [] op = "stop" -> Stop(S0, 1)
                    [] OTHER -> [Reset(S0, 1) EXCEPT !.rf = 0]

Ctl(op) == /\ S' = ApplyS(S, op)
           /\ nctl' = nctl + 1
           /\ lastop' = op
           /\ UNCHANGED prog

CtlStart == Ctl("start")
CtlPause == Ctl("pause")
CtlResume == Ctl("resume")
CtlStop == Ctl("stop")
CtlReset == Ctl("reset")

\* the clock advances by one unit: running leaves and enabled timeouts count down
TickS(S0) == [S0 EXCEPT !.lrem = [n \in Nodes |-> IF CanFire(S0, n) /\ @[n] >= 0 THEN @[n] - 1
                                                 ELSE IF IsLeaf(n) /\ S0.st[n] = "Running" /\ @[n] > 0 THEN @[n] - 1 ELSE @[n]],
                        !.trem = [n \in Nodes |-> IF S0.ten[n] /\ @[n] >= 0 THEN @[n] - 1 ELSE @[n]],
                        !.q = IF TrackAge THEN [i \in DOMAIN @ |-> [@[i] EXCEPT !.age = @ + 1]] ELSE @]
Tick == /\ ~Urgent(S)
        /\ S' = TickS(S)
        /\ lastop' = "tick"
        /\ UNCHANGED <<prog, nctl>>

Fire(n) == /\ FireEnabled(S, n)
           /\ S' = LeafFire(S, n)
           /\ lastop' = "fire"
           /\ UNCHANGED <<prog, nctl>>
LeafCompletes == \E n \in Nodes : Fire(n)

TimeoutS(S0, n) == Finish([S0 EXCEPT !.ten[n] = FALSE, !.tmo[n] = TRUE], n, FALSE, 0)
Timeout(n) == /\ TimeoutEnabled(S, n)
              /\ S' = TimeoutS(S, n)
              /\ lastop' = "timeout"
              /\ UNCHANGED <<prog, nctl>>
ActionTimeout == \E n \in Nodes : Timeout(n)

DeliverS(S0) == DeliverItem([S0 EXCEPT !.q = Tail(@)], Head(S0.q))
Deliver == /\ S.q # <<>>
           /\ S' = DeliverS(S)
           /\ lastop' = "deliver"
           /\ UNCHANGED <<prog, nctl>>

-----------------------------------------------------------------------------
(* Properties (state invariants; none of them is used in an enabling condition) *)
Rest == {"Idle", "Finished", "Stoped"}
PendingFrom(n, k) == \E i \in 1..Len(S.q) : S.q[i].k = k /\ S.q[i].n = n
PendingHeld(n) == PendingFrom(n, "held")

\* the root's finish callback runs at most once per run, only for a finished root, and is not lost
RootFinishesOnce ==
  /\ S.rf <= 1
  /\ S.rf = 1 => S.st[1] = "Finished"
  /\ (S.st[1] = "Finished" /\ ~PendingFrom(1, "fin")) => S.rf = 1

ResOf(c) == S.res[c]
FinOk(c) == S.st[c] = "Finished"
\* the result of a finished composite is the documented function of its children's results
DocRes(n) ==
  LET cs == C(n) r == S.res[n] IN
  CASE K(n) = "Seq" ->
         \E j \in 0..Len(cs) :
            /\ \A i \in 1..j : FinOk(cs[i])
            /\ \A i \in (j+1)..Len(cs) : S.st[cs[i]] = "Idle"
            /\ \A i \in 1..(j-1) : ~((M(n) = 2 /\ ResOf(cs[i]) = "Succ") \/ (M(n) = 1 /\ ResOf(cs[i]) = "Fail"))
            /\ IF j < Len(cs) THEN j > 0 /\ r = ResOf(cs[j]) /\ ((M(n) = 2 /\ r = "Succ") \/ (M(n) = 1 /\ r = "Fail"))
               ELSE r = IF j = 0 THEN "Succ" ELSE ResOf(cs[j])
    [] K(n) = "Par" ->
         /\ r = "Succ"
         /\ \/ \A c \in KidSet(n) : FinOk(c)
            \/ \E c \in KidSet(n) : FinOk(c) /\ ((M(n) = 2 /\ ResOf(c) = "Succ") \/ (M(n) = 1 /\ ResOf(c) = "Fail"))
    [] K(n) = "IfElse" ->
         /\ FinOk(cs[1])
         /\ LET b == IF ResOf(cs[1]) = "Succ" THEN cs[2] ELSE cs[3]
                o == IF ResOf(cs[1]) = "Succ" THEN cs[3] ELSE cs[2] IN
            /\ IF b = 0 THEN r = "Succ" ELSE FinOk(b) /\ r = ResOf(b)
            /\ o # 0 => S.st[o] = "Idle"
    [] K(n) = "IfThen" ->
         LET np == Len(cs) \div 2 IN
         \/ /\ r = "Fail"
            /\ \A i \in 1..np : FinOk(cs[2*i-1]) /\ ResOf(cs[2*i-1]) = "Fail" /\ S.st[cs[2*i]] = "Idle"
         \/ \E j \in 1..np :
              /\ \A i \in 1..(j-1) : FinOk(cs[2*i-1]) /\ ResOf(cs[2*i-1]) = "Fail" /\ S.st[cs[2*i]] = "Idle"
              /\ FinOk(cs[2*j-1]) /\ ResOf(cs[2*j-1]) = "Succ" /\ FinOk(cs[2*j]) /\ r = ResOf(cs[2*j])
              /\ \A i \in (j+1)..np : S.st[cs[2*i-1]] = "Idle" /\ S.st[cs[2*i]] = "Idle"
    [] K(n) = "Switch" ->
         /\ FinOk(cs[1])
         /\ IF ResOf(cs[1]) = "Fail" THEN r = "Fail" /\ \A i \in 2..4 : cs[i] # 0 => S.st[cs[i]] = "Idle"
            ELSE LET t == prog[cs[1]].tag
                     a == IF t \in {1, 2} /\ cs[2 + t] # 0 THEN cs[2 + t] ELSE cs[2] IN
                 /\ IF a = 0 THEN r = "Fail" ELSE FinOk(a) /\ r = ResOf(a)
                 /\ \A i \in 2..4 : (cs[i] # 0 /\ cs[i] # a) => S.st[cs[i]] = "Idle"
    [] K(n) = "Loop" ->
         /\ M(n) # 0
         /\ FinOk(cs[1]) /\ r = ResOf(cs[1]) /\ r = (IF M(n) = 1 THEN "Fail" ELSE "Succ")
    [] K(n) = "LoopIf" ->
         /\ FinOk(cs[1]) /\ ResOf(cs[1]) = "Fail" /\ ~Underway(S, cs[2])
         /\ r = IF M(n) = 1 THEN "Succ" ELSE "Fail"
    [] K(n) = "Repeat" ->
         /\ FinOk(cs[1])
         /\ \/ M(n) = 1 /\ ResOf(cs[1]) = "Fail" /\ r = "Fail"
            \/ M(n) = 2 /\ ResOf(cs[1]) = "Succ" /\ r = "Succ"
            \/ prog[n].n > 0 /\ S.iters[n] = prog[n].n /\ r = "Succ"
         /\ prog[n].n > 0 => S.iters[n] <= prog[n].n
    [] K(n) = "Wrap" ->
         /\ FinOk(cs[1])
         /\ r = CASE M(n) = 0 -> ResOf(cs[1])
                  [] M(n) = 1 -> (IF ResOf(cs[1]) = "Succ" THEN "Fail" ELSE "Succ")
                  [] M(n) = 2 -> "Succ"
                  [] OTHER -> "Fail"
    [] K(n) = "Comp" -> FinOk(cs[1]) /\ r = ResOf(cs[1])
    [] OTHER -> TRUE

DocumentedResult ==
  \A n \in Nodes : (S.st[n] = "Finished" /\ ~IsLeaf(n)) =>
      IF S.tmo[n] THEN S.res[n] = "Fail" ELSE DocRes(n)

\* children are started in the documented order (state-based: what may have been started so far)
ChildStartOrder ==
  \A n \in Nodes : LET cs == C(n) IN
  CASE K(n) = "Seq" -> \A i, j \in 1..Len(cs) : (i < j /\ S.st[cs[j]] # "Idle") => FinOk(cs[i])
    [] K(n) = "Par" -> (S.st[n] # "Idle") => \A c \in KidSet(n) : S.st[c] # "Idle"
    [] K(n) = "IfElse" -> /\ (cs[2] # 0 /\ S.st[cs[2]] # "Idle") => (FinOk(cs[1]) /\ ResOf(cs[1]) = "Succ")
                          /\ (cs[3] # 0 /\ S.st[cs[3]] # "Idle") => (FinOk(cs[1]) /\ ResOf(cs[1]) = "Fail")
    [] K(n) = "IfThen" -> \A j \in 1..(Len(cs) \div 2) :
                            /\ S.st[cs[2*j-1]] # "Idle" => \A i \in 1..(j-1) : FinOk(cs[2*i-1]) /\ ResOf(cs[2*i-1]) = "Fail"
                            /\ S.st[cs[2*j]] # "Idle" => (FinOk(cs[2*j-1]) /\ ResOf(cs[2*j-1]) = "Succ")
    [] K(n) = "Switch" -> \A i \in 2..4 : (cs[i] # 0 /\ S.st[cs[i]] # "Idle") =>
                            /\ FinOk(cs[1]) /\ ResOf(cs[1]) = "Succ"
                            /\ LET t == prog[cs[1]].tag IN
                               cs[i] = (IF t \in {1, 2} /\ cs[2 + t] # 0 THEN cs[2 + t] ELSE cs[2])
    [] K(n) = "LoopIf" -> S.st[cs[2]] # "Idle" => (FinOk(cs[1]) /\ ResOf(cs[1]) = "Succ")
    [] OTHER -> TRUE

NoRestartWhileUnderway == "restart" \notin S.bad /\ "startfail" \notin S.bad

\* after stop or finish no descendant is left running or paused
NothingLeftRunning ==
  \A n \in Nodes : S.st[n] \in {"Finished", "Stoped"} => \A d \in Desc(n) : ~Underway(S, d)

\* a stopped or reset action never delivers a finish/block notification of that run
NoStaleNotification ==
  /\ "stale" \notin S.bad
  /\ \A i \in 1..Len(S.q) : ~Stale(S, S.q[i])

FinalOncePerRun ==
  \A n \in Nodes : /\ S.finals[n] <= 1
                   /\ S.st[n] \in {"Finished", "Stoped"} => S.finals[n] = 1
                   /\ S.st[n] \in {"Idle", "Running", "Pause"} => S.finals[n] = 0

Core(S0) == [st |-> S0.st, res |-> S0.res, cur |-> S0.cur, held |-> S0.held, idx |-> S0.idx, pf |-> S0.pf,
             lrem |-> S0.lrem, lph |-> S0.lph, ten |-> S0.ten, q |-> S0.q]
\* a reset tree is indistinguishable from a freshly built one (same state => same future)
ResetIsFresh == lastop = "reset" => Core(S) = Core(InitS(prog))

\* a child result that arrives while the parent is paused is acted on after resume; more generally a composite
\* that is under way always has something to wait for: an under-way child, a queued notification of a child,
\* a held child result, or its re-posted replay.
HasPendingWork(n) ==
  \/ \E c \in KidSet(n) : Underway(S, c) \/ PendingFrom(c, "fin") \/ PendingFrom(c, "blk")
  \/ S.held[n] # NoHeld
  \/ PendingHeld(n)
  \/ (IsPar(n) /\ S.st[n] = "Pause" /\ "par_drop" \notin Bugs /\ ParDecide(S, n) # 0)
PauseHoldsResults ==
  \A n \in Nodes : (~IsLeaf(n) /\ Underway(S, n)) => HasPendingWork(n)

AtMostOnePending ==
  \A i, j \in 1..Len(S.q) : (i # j) => ~(S.q[i].k = S.q[j].k /\ S.q[i].n = S.q[j].n)

TypeOK == /\ S.st \in [Nodes -> {"Idle", "Running", "Pause", "Finished", "Stoped"}]
          /\ S.res \in [Nodes -> {"Unsure", "Succ", "Fail"}]
          /\ \A n \in Nodes : S.cur[n] \in KidSet(n) \cup {0}
=============================================================================
