CONSTANTS
  Bugs = {}
  KeepLog = FALSE
  TrackAge = FALSE
  MaxCtl = 2
  MaxGen = 3
SPECIFICATION Spec
CONSTRAINT Bound
CONSTRAINT Mark
POSTCONDITION AllActionsTaken
INVARIANTS TypeOK RootFinishesOnce DocumentedResult ChildStartOrder NoRestartWhileUnderway NothingLeftRunning
  NoStaleNotification FinalOncePerRun ResetIsFresh PauseHoldsResults AtMostOnePending
CHECK_DEADLOCK FALSE
