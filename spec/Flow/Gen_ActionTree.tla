--------------------------- MODULE Gen_ActionTree ---------------------------
(* Behaviour generator for C17 (spec -> code).  For every program of the file PROGS it walks the     *)
(* pass-structured schedule of the driver (control calls; tick; completions; deliveries of what was    *)
(* queued before the pass) and enumerates (BFS) or samples (-simulate) the control scripts: at every    *)
(* pass no call or one, two or three calls back to back on the root - only calls that change the state     *)
(* (a pause on an idle tree is legal but boring).  Each behaviour is printed as                        *)
(*   BEH {"p": program index, "s": [script entry per pass]}                                            *)
(* and executed by harness/c17_flow/driver.cpp on the real tree; the recorded trace is then validated  *)
(* against Trace_ActionTree (the general model, which does not fix the pass of a delivery).            *)
EXTENDS ActionTree, Json, IOUtils
CONSTANTS MaxCtl, MaxPass
VARIABLES pid, hist
gvars == <<vars, pid, hist>>
Programs == JsonDeserialize(IOEnv.PROGS)
Ops == {"start", "pause", "resume", "stop", "reset"}

RECURSIVE FireAll(_), DeliverN(_, _)
FireAll(S0) ==
  IF \E n \in Nodes : FireEnabled(S0, n) THEN FireAll(LeafFire(S0, CHOOSE n \in Nodes : FireEnabled(S0, n)))
  ELSE IF \E n \in Nodes : TimeoutEnabled(S0, n) THEN FireAll(TimeoutS(S0, CHOOSE n \in Nodes : TimeoutEnabled(S0, n)))
  ELSE S0
DeliverN(S0, k) == IF k = 0 \/ S0.q = <<>> THEN S0 ELSE DeliverN(DeliverS(S0), k - 1)
RestOfPass(S1) == DeliverN(FireAll(TickS(S1)), Len(S.q))
Eff(S0, op) == ApplyS(S0, op) # S0

GInit == /\ pid \in 1..Len(Programs) /\ prog = Programs[pid] /\ S = InitS(prog)
         /\ nctl = 0 /\ lastop = "init" /\ hist = <<>>
PassNone == /\ S' = RestOfPass(S) /\ hist' = Append(hist, "-") /\ UNCHANGED <<prog, pid, nctl>> /\ lastop' = "-"
PassOne == \E op \in Ops :
             /\ nctl < MaxCtl /\ Eff(S, op)
             /\ S' = RestOfPass(ApplyS(S, op)) /\ hist' = Append(hist, op) /\ nctl' = nctl + 1
             /\ lastop' = op /\ UNCHANGED <<prog, pid>>
PassTwo == \E a, b \in Ops :
             /\ nctl + 1 < MaxCtl /\ a # b /\ Eff(S, a) /\ Eff(ApplyS(S, a), b)
             /\ S' = RestOfPass(ApplyS(ApplyS(S, a), b)) /\ hist' = Append(hist, a \o "+" \o b) /\ nctl' = nctl + 2
             /\ lastop' = b /\ UNCHANGED <<prog, pid>>
PassThree == \E a, b, c \in Ops :
             /\ nctl + 2 < MaxCtl /\ a # b /\ b # c
             /\ Eff(S, a) /\ Eff(ApplyS(S, a), b) /\ Eff(ApplyS(ApplyS(S, a), b), c)
             /\ S' = RestOfPass(ApplyS(ApplyS(ApplyS(S, a), b), c))
             /\ hist' = Append(hist, a \o "+" \o b \o "+" \o c) /\ nctl' = nctl + 3
             /\ lastop' = c /\ UNCHANGED <<prog, pid>>
GNext == PassNone \/ PassOne \/ PassTwo \/ PassThree
GSpec == GInit /\ [][GNext]_gvars
Emit2 == IF Len(hist) >= MaxPass THEN PrintT("BEH " \o ToJson([p |-> pid, s |-> hist])) /\ FALSE ELSE TRUE
=============================================================================
