CONSTANTS
  Bugs = {"tmo_child"}
  KeepLog = TRUE
  MaxSilent = 40
  MaxAge = 3
  TrackAge = TRUE
SPECIFICATION TSpec
CONSTRAINT Progress
POSTCONDITION Accepted
CHECK_DEADLOCK FALSE
