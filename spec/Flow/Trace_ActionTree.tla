------------------------- MODULE Trace_ActionTree -------------------------
(* Trace validation for C17.  The driver (harness/c17_flow/driver.cpp) builds the real tree of each  *)
(* program, drives the loop pass by pass and records                                                 *)
(*   {"e":"Prog","prog":[...]}             a new execution: the program                              *)
(*   {"e":"Reset"}                         end of the execution                                      *)
(*   {"e":"Ctl","op":..,"ret":..,"mid":b}  a control call on the root and its return value; mid: made   *)
(*                                         from a task in the middle of a batch (after a snapshot)    *)
(*   {"e":"Tick"}                          the virtual clock advanced by one unit, probe leaves counted *)
(*   {"e":"Snap","st":[..],"res":[..],"ev":[[kind,node],..]}                                         *)
(*        state()/result() of every node at the start of the next pass and the observable events     *)
(*        since the previous snapshot: probe-leaf hooks (start/pause/resume/stop/reset/final), final   *)
(*        callbacks of composites, the root's finish/block callbacks                                  *)
(* Leaf completions, timeouts and deliveries of deferred notifications are silent spec steps: the     *)
(* statement does not fix the pass in which a deferred notification is delivered, only FIFO order.    *)
(* A trace is accepted iff some interleaving of silent steps reproduces every snapshot.               *)
(* Compared per snapshot: root state and result exactly; for descendants only whether the node is     *)
(* running / paused / at rest; leaf starts as a sequence (documented start order), all other events    *)
(* except the leaves' reset hooks as a multiset.                                                                                      *)
EXTENDS ActionTree, Json, IOUtils
CONSTANTS MaxSilent,   \* bound on silent steps between two snapshots
          MaxAge       \* a queued notification is delivered before it has waited MaxAge ticks (the code: 1)
Log == ndJsonDeserialize(IOEnv.TRACE)
VARIABLES l, sil, open     \* open: silent steps may happen now (the driver is not between a snapshot and its tick)
ASSUME TLCSet(42, 0)
tvars == <<vars, l, sil, open>>

Ev == Log[l]
IsEv(e) == l <= Len(Log) /\ Log[l].e = e /\ l' = l + 1

\* "reset" hooks of probe leaves are recorded but not compared: the statement does not fix WHEN a composite resets a child
\* that is at rest (at once, or lazily just before it restarts it); a missing reset shows as a refused / missing start.
Obs(sq) == SelectSeq(sq, LAMBDA x : x[1] # "reset")
Starts(sq) == SelectSeq(sq, LAMBDA x : x[1] = "start")
Cnt(sq, x) == Cardinality({i \in DOMAIN sq : sq[i] = x})
IsPrefix(a, b) == Len(a) <= Len(b) /\ \A i \in 1..Len(a) : a[i] = b[i]
RECURSIVE NextSnap(_)
NextSnap(i) == IF i > Len(Log) THEN 0 ELSE IF Log[i].e = "Snap" THEN i ELSE IF Log[i].e \in {"Reset", "Prog"} THEN 0 ELSE NextSnap(i + 1)
\* the model's event log can still become the event list of the next snapshot
Compatible(lg, i) ==
  LET k == NextSnap(i) IN
  IF k = 0 THEN Obs(lg) = <<>>
  ELSE LET ev == Obs(Log[k].ev) lo == Obs(lg) IN
       /\ IsPrefix(Starts(lo), Starts(ev))
       /\ \A j \in DOMAIN lo : Cnt(lo, lo[j]) <= Cnt(ev, lo[j])
SameEvents(lg0, ev0) ==
  LET lg == Obs(lg0) ev == Obs(ev0) IN
  /\ Len(lg) = Len(ev)
  /\ Starts(lg) = Starts(ev)
  /\ \A j \in DOMAIN lg : Cnt(lg, lg[j]) = Cnt(ev, lg[j])

Proj(s) == IF s \in {"Running", "Pause"} THEN s ELSE "rest"
SnapMatches ==
  /\ Len(Ev.st) = N
  /\ Ev.st[1] = S.st[1] /\ Ev.res[1] = S.res[1]
  /\ \A n \in Nodes : Proj(Ev.st[n]) = Proj(S.st[n])
  /\ SameEvents(S.log, Ev.ev)

Dummy == <<[k |-> "Leaf", m |-> 0, c |-> <<>>, p |-> 0, o |-> "never", d |-> 0, tag |-> 0, to |-> 0, n |-> 0]>>
TInit == /\ prog = Dummy /\ S = InitS(Dummy) /\ nctl = 0 /\ lastop = "init" /\ l = 1 /\ sil = 0 /\ open = FALSE

TProg == /\ IsEv("Prog")
         /\ prog' = Ev.prog /\ S' = InitS(Ev.prog) /\ nctl' = 0 /\ lastop' = "init" /\ sil' = 0 /\ open' = FALSE
TReset == /\ IsEv("Reset")
          /\ prog' = Dummy /\ S' = InitS(Dummy) /\ nctl' = 0 /\ lastop' = "init" /\ sil' = 0 /\ open' = FALSE
\* a control call directly follows a snapshot or another call (no silent step since): what it causes is told apart from what preceded it
TCtl == IsEv("Ctl") /\ sil = 0 /\ Ev.ret = Ret(Ev.op) /\ Ctl(Ev.op) /\ Compatible(S'.log, l')
        /\ open' = (open \/ Ev.mid) /\ UNCHANGED sil
TTick == IsEv("Tick") /\ (\A i \in DOMAIN S.q : S.q[i].age < MaxAge) /\ Tick /\ open' = TRUE /\ UNCHANGED sil
TSnap == /\ IsEv("Snap") /\ SnapMatches
         /\ S' = [S EXCEPT !.log = <<>>] /\ sil' = 0 /\ lastop' = "snap" /\ open' = FALSE /\ UNCHANGED <<prog, nctl>>
\* in the driver nothing runs between a snapshot, the control call and the tick of the same step
Silent(A) == open /\ A /\ sil < MaxSilent /\ sil' = sil + 1 /\ l <= Len(Log) /\ UNCHANGED <<l, open>> /\ Compatible(S'.log, l)
\* "deferred": a notification is delivered in a later pass than the one in which it was queued (it has seen a tick)
TDeliver == S.q # <<>> /\ Head(S.q).age >= 1 /\ Silent(Deliver)
TFire == Silent(LeafCompletes)
TTimeout == Silent(ActionTimeout)
TNext == TProg \/ TReset \/ TCtl \/ TTick \/ TSnap \/ TDeliver \/ TFire \/ TTimeout
TSpec == TInit /\ [][TNext]_tvars

Progress == TLCSet(42, IF l > TLCGet(42) THEN l ELSE TLCGet(42))
Accepted == IF TLCGet(42) = Len(Log) + 1 THEN TRUE ELSE PrintT(<<"MAXPOS", TLCGet(42), Len(Log)>>) /\ FALSE
=============================================================================
