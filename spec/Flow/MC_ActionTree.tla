--------------------------- MODULE MC_ActionTree ---------------------------
(* Bounded model of ActionTree: every program of the file named by the environment variable PROGS  *)
(* (a JSON array of programs, written by checks/c17.py), every placement of up to MaxCtl control     *)
(* calls on the root, every interleaving of clock ticks, leaf completions, timeouts and deliveries.  *)
EXTENDS ActionTree, Json, IOUtils
CONSTANTS MaxCtl, MaxGen
Programs == JsonDeserialize(IOEnv.PROGS)

Init == /\ prog \in {Programs[i] : i \in 1..Len(Programs)}
        /\ S = InitS(prog)
        /\ nctl = 0
        /\ lastop = "init"

DoStart == nctl < MaxCtl /\ CtlStart
DoPause == nctl < MaxCtl /\ CtlPause
DoResume == nctl < MaxCtl /\ CtlResume
DoStop == nctl < MaxCtl /\ CtlStop
DoReset == nctl < MaxCtl /\ CtlReset
Next == DoStart \/ DoPause \/ DoResume \/ DoStop \/ DoReset \/ Tick \/ LeafCompletes \/ ActionTimeout \/ Deliver
Spec == Init /\ [][Next]_vars
Bound == \A n \in Nodes : S.gen[n] <= MaxGen
=============================================================================
