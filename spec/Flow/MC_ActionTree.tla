--------------------------- MODULE MC_ActionTree ---------------------------
(* Bounded model of ActionTree: every program of the file named by the environment variable PROGS  *)
(* (a JSON array of programs, written by checks/c17.py), every placement of up to MaxCtl control     *)
(* calls on the root, every interleaving of clock ticks, leaf completions, timeouts and deliveries.  *)
EXTENDS ActionTree, Json, IOUtils
CONSTANTS MaxCtl, MaxGen
Programs == JsonDeserialize(IOEnv.PROGS)

Init == /\ prog \in {Programs[i] : i \in 1..Len(Programs)}
        /\ S = InitS(prog)
        /\ nctl = 0
        /\ lastop = "init"

DoStart == nctl < MaxCtl /\ CtlStart
DoPause == nctl < MaxCtl /\ CtlPause
DoResume == nctl < MaxCtl /\ CtlResume
DoStop == nctl < MaxCtl /\ CtlStop
DoReset == nctl < MaxCtl /\ CtlReset
Next == DoStart \/ DoPause \/ DoResume \/ DoStop \/ DoReset \/ Tick \/ LeafCompletes \/ ActionTimeout \/ Deliver
Spec == Init /\ [][Next]_vars
Bound == \A n \in Nodes : S.gen[n] <= MaxGen

(* Vacuity guard (TLC's -coverage is unusably slow on the recursive operators of ActionTree): with -workers 1 the   *)
(* constraint Mark records in TLC registers which kinds of step occurred; the postcondition demands all of them.  *)
ActNames == <<"start", "pause", "resume", "stop", "reset", "tick", "fire", "timeout", "deliver">>
ASSUME \A i \in 1..Len(ActNames) : TLCSet(100 + i, FALSE)
Mark == IF lastop = "init" THEN TRUE
        ELSE TLCSet(100 + (CHOOSE i \in 1..Len(ActNames) : ActNames[i] = lastop), TRUE)
AllActionsTaken == \A i \in 1..Len(ActNames) : IF TLCGet(100 + i) THEN TRUE ELSE PrintT(<<"NEVER-TAKEN", ActNames[i]>>) /\ FALSE
=============================================================================
