CONSTANTS
  ByteEdge = {0, 1, 9, 10, 19, 20, 99, 100, 127, 128, 199, 200, 249, 250, 255}
  MaxStr = 5
SPECIFICATION LSpec
INVARIANTS LawIpRoundTrip LawIpCanonical LawIpReject LawIpExamples LawIpBits LawPort LawSaRoundTrip LawSaTotal
CHECK_DEADLOCK FALSE
