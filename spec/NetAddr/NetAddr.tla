------------------------------ MODULE NetAddr ------------------------------
(* E06 - reference operators for tbox::network::IPAddress and SockAddr                                 *)
(* (modules/network/{ip_address,sockaddr}.{h,cpp}).  Strings are sequences of character codes, an IPv4   *)
(* address is the tuple of its four bytes in dotted order (= memory order of the uint32 the class keeps, *)
(* independent of the host's endianness); numbers that can exceed 2^31 are kept as two 16-bit limbs       *)
(* (TLC integers are 32-bit).                                                                            *)
(*                                                                                                       *)
(*  IpToStr      - the dotted quad: four decimal numbers without leading zeros                           *)
(*  InetAton     - what IPAddress::FromString is documented to accept through inet_aton(3): the BSD       *)
(*                 numbers-and-dots notation a.b.c.d | a.b.c | a.b | a, every number decimal, octal (0..)  *)
(*                 or hexadecimal (0x..), the last number filling the remaining bytes, optionally         *)
(*                 followed by white space (and then anything)                                            *)
(*  Stoi         - what std::stoi accepts for the port                                                    *)
(*  SockAddr values: None, V4(ip, port), Local(path);  SaToStr / SaType / SaGet                            *)
EXTENDS Integers, Sequences, FiniteSets, Bitwise

DOT == 46     COLON == 58     SLASH == 47
IsDigit(c) == c \in 48..57
IsSpace(c) == c \in {32, 9, 10, 11, 12, 13}
DigitVal(c) == IF c \in 48..57 THEN c - 48 ELSE IF c \in 97..102 THEN c - 87 ELSE IF c \in 65..70 THEN c - 55 ELSE 99

RECURSIVE FindIn(_, _, _)
FindIn(s, S, i) == IF i > Len(s) THEN 0 ELSE IF s[i] \in S THEN i ELSE FindIn(s, S, i + 1)

\* ---- printing ---------------------------------------------------------------------------------------
RECURSIVE Dec(_)
Dec(n) == IF n < 10 THEN <<48 + n>> ELSE Dec(n \div 10) \o <<48 + (n % 10)>>
IpToStr(a) == Dec(a[1]) \o <<DOT>> \o Dec(a[2]) \o <<DOT>> \o Dec(a[3]) \o <<DOT>> \o Dec(a[4])

\* ---- numbers-and-dots notation ----------------------------------------------------------------------
\* digits of one number in the given base, value as limbs hi * 65536 + lo, ovf = exceeds 2^32 - 1
RECURSIVE Accum(_, _, _, _, _, _)
Accum(s, i, base, hi, lo, ovf) ==
  IF i > Len(s) \/ DigitVal(s[i]) >= base THEN [end |-> i, hi |-> hi, lo |-> lo, ovf |-> ovf]
  ELSE LET l2 == lo * base + DigitVal(s[i])
           h2 == hi * base + (l2 \div 65536)
       IN IF ovf \/ h2 >= 65536 THEN Accum(s, i + 1, base, 0, 0, TRUE) ELSE Accum(s, i + 1, base, h2, l2 % 65536, FALSE)
\* the number that starts at the digit s[i]: 0x / 0X + hex digits, 0 + octal digits, decimal digits
Number(s, i) ==
  IF s[i] = 48 /\ i + 2 <= Len(s) /\ s[i + 1] \in {120, 88} /\ DigitVal(s[i + 2]) < 16 THEN Accum(s, i + 2, 16, 0, 0, FALSE)
  ELSE IF s[i] = 48 THEN Accum(s, i, 8, 0, 0, FALSE)
  ELSE Accum(s, i, 10, 0, 0, FALSE)

Bad == [ok |-> FALSE, v |-> <<0, 0, 0, 0>>]
Good(v) == [ok |-> TRUE, v |-> v]
RECURSIVE AtonFrom(_, _, _)
AtonFrom(s, i, parts) ==
  IF i > Len(s) \/ ~IsDigit(s[i]) THEN Bad
  ELSE LET n == Number(s, i) IN
       IF n.ovf THEN Bad
       ELSE IF n.end <= Len(s) /\ s[n.end] = DOT
            THEN IF Len(parts) >= 3 \/ n.hi # 0 \/ n.lo > 255 THEN Bad ELSE AtonFrom(s, n.end + 1, Append(parts, n.lo))
       ELSE IF n.end <= Len(s) /\ ~IsSpace(s[n.end]) THEN Bad
       ELSE CASE Len(parts) = 0 -> Good(<<n.hi \div 256, n.hi % 256, n.lo \div 256, n.lo % 256>>)
              [] Len(parts) = 1 -> IF n.hi > 255 THEN Bad ELSE Good(<<parts[1], n.hi, n.lo \div 256, n.lo % 256>>)
              [] Len(parts) = 2 -> IF n.hi # 0 THEN Bad ELSE Good(<<parts[1], parts[2], n.lo \div 256, n.lo % 256>>)
              [] OTHER          -> IF n.hi # 0 \/ n.lo > 255 THEN Bad ELSE Good(<<parts[1], parts[2], parts[3], n.lo>>)
InetAton(s) == AtonFrom(s, 1, <<>>)
\* canonical = the string is the printed form of its own value ("a.b.c.d", decimal, no leading zeros, nothing else)
Canonical(s) == LET r == InetAton(s) IN r.ok /\ IpToStr(r.v) = s
\* "0x" not followed by a hex digit: C libraries disagree (0 or error) - such inputs are not judged
HexNoDigits(s) == \E i \in 1..(Len(s) - 1) : s[i] = 48 /\ s[i + 1] \in {120, 88} /\ (i + 2 > Len(s) \/ DigitVal(s[i + 2]) >= 16)
                                               /\ (i = 1 \/ ~(DigitVal(s[i - 1]) < 16 \/ s[i - 1] \in {120, 88}))

\* ---- address arithmetic ------------------------------------------------------------------------------
And4(a, b) == <<a[1] & b[1], a[2] & b[2], a[3] & b[3], a[4] & b[4]>>
Or4(a, b)  == <<a[1] | b[1], a[2] | b[2], a[3] | b[3], a[4] | b[4]>>
Inv4(a)    == <<255 - a[1], 255 - a[2], 255 - a[3], 255 - a[4]>>
Broadcast(ip, mask) == Or4(ip, Inv4(mask))
AnyIp == <<0, 0, 0, 0>>
LoopIp == <<127, 0, 0, 1>>

\* ---- std::stoi on the port ---------------------------------------------------------------------------
RECURSIVE SkipSpace(_, _)
SkipSpace(s, i) == IF i <= Len(s) /\ IsSpace(s[i]) THEN SkipSpace(s, i + 1) ELSE i
\* decimal digits from i: magnitude (exact while <= 2^31 - 1), its value modulo 65536, number of digits
RECURSIVE DecAccum(_, _, _, _, _, _)
DecAccum(s, i, mag, m16, big, n) ==
  IF i > Len(s) \/ ~IsDigit(s[i]) THEN [end |-> i, mag |-> mag, m16 |-> m16, big |-> big, n |-> n]
  ELSE LET d == s[i] - 48
           b2 == big \/ mag > 214748364 \/ (mag = 214748364 /\ d > 7)
       IN DecAccum(s, i + 1, IF b2 THEN 0 ELSE mag * 10 + d, (m16 * 10 + d) % 65536, b2, n + 1)
\* ok: stoi returns; v: the value converted to uint16_t; strict: nothing but 1..n decimal digits of a value <= 65535
Stoi(s) ==
  LET i == SkipSpace(s, 1)
      neg == i <= Len(s) /\ s[i] = 45
      j == IF i <= Len(s) /\ s[i] \in {43, 45} THEN i + 1 ELSE i
      a == DecAccum(s, j, 0, 0, FALSE, 0)
  IN [ok |-> a.n >= 1 /\ ~a.big,
      v |-> IF neg THEN (65536 - a.m16) % 65536 ELSE a.m16,
      strict |-> a.n >= 1 /\ ~a.big /\ j = 1 /\ a.end = Len(s) + 1 /\ a.mag <= 65535]

\* ---- SockAddr values ------------------------------------------------------------------------------------
MaxPath == 108                                       \* sizeof(sockaddr_un::sun_path)
None == [k |-> "none"]
V4(ip, port) == [k |-> "v4", ip |-> ip, port |-> port]
Local(p) == [k |-> "local", path |-> p]
MkLocal(p) == IF Len(p) <= MaxPath THEN Local(p) ELSE None        \* a path that does not fit a sockaddr_un: no address
SaType(v) == CASE v.k = "v4" -> 1 [] v.k = "local" -> 2 [] OTHER -> 0          \* kNone, kIPv4, kLocal
SaToStr(v) == CASE v.k = "v4" -> IpToStr(v.ip) \o <<COLON>> \o Dec(v.port) [] v.k = "local" -> v.path [] OTHER -> <<>>
SaLen(v) == CASE v.k = "v4" -> 16 [] v.k = "local" -> 2 + Len(v.path) [] OTHER -> 0     \* sizeof(sockaddr_in); offsetof(sun_path) + path
SaFamily(v) == CASE v.k = "v4" -> 2 [] v.k = "local" -> 1 [] OTHER -> 0                 \* AF_INET, AF_LOCAL
SaGet(v) == IF v.k = "v4" THEN [ok |-> TRUE, ip |-> v.ip, port |-> v.port] ELSE [ok |-> FALSE, ip |-> AnyIp, port |-> 0]

\* SockAddr::FromString(s) may produce v
\*   no ':'                -> the local path s
\*   "ip:port"             -> exact when ip is canonical and port is 1..n digits <= 65535;  no address when either part is
\*                            unusable;  forms that only inet_aton / stoi tolerate (fewer numbers, octal, hex, trailing
\*                            blanks or junk, sign, port > 65535 reduced modulo 2^16): no address or the tolerant reading
SaFromStrOK(s, v) ==
  LET c == FindIn(s, {COLON}, 1) IN
  IF c = 0 THEN v = MkLocal(s)
  ELSE LET ips == SubSeq(s, 1, c - 1)
           ipr == InetAton(ips)
           pr == Stoi(SubSeq(s, c + 1, Len(s)))
       IN IF HexNoDigits(ips) THEN v.k \in {"none", "v4"}
          ELSE IF ~ipr.ok \/ ~pr.ok THEN v = None
          ELSE IF IpToStr(ipr.v) = ips /\ pr.strict THEN v = V4(ipr.v, pr.v)
          ELSE v \in {None, V4(ipr.v, pr.v)}
=============================================================================
