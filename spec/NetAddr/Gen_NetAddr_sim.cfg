CONSTANTS
  ByteEdge = {0}
  MaxStr = 0
  Mode = "slots"
  Depth = 12
  Slots = {1, 2, 3}
SPECIFICATION GSpec
CONSTRAINT Emit
CHECK_DEADLOCK FALSE
