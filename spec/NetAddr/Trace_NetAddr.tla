--------------------------- MODULE Trace_NetAddr ---------------------------
(* E06 trace validation.  Every line of the recorded ndjson trace is one call on the real IPAddress /    *)
(* SockAddr classes.  IPAddress calls are stateless and compared with the operators of NetAddr; SockAddr  *)
(* calls are the actions of SockAddrSpec, and after each of them EVERY live slot must show exactly what   *)
(* its abstract value prescribes (type, toString, get, toSockAddr length and family, no exception) and    *)
(* the full == / != matrices must be the equality of the abstract values.  A line that no disjunct        *)
(* accepts (or the Fault event written when the process died) ends the behaviour: trace rejected there.   *)
EXTENDS SockAddrSpec, Json, IOUtils, TLC

Log == ndJsonDeserialize(IOEnv.TRACE)
VARIABLE l
ASSUME TLCSet(42, 0)
tvars == <<svars, l>>

Ev == Log[l]
IsEv(e) == l <= Len(Log) /\ Log[l].e = e /\ l' = l + 1
Pure == UNCHANGED svars

\* ---- IPAddress ---------------------------------------------------------------------------------------
CheckIpFrom(ev) ==
  LET r == InetAton(ev.in)
      good == ev.exc = "" /\ ev.ip = r.v /\ ev.str = IpToStr(r.v)
      failed == ev.exc = "FormatInvalid"
  IN IF HexNoDigits(ev.in) THEN ev.exc \in {"", "FormatInvalid"}
     ELSE IF ~r.ok THEN failed                                       \* malformed: the documented exception, nothing else
     ELSE IF IpToStr(r.v) = ev.in THEN good                          \* a dotted quad: exact
     ELSE good \/ failed                                             \* accepted only by the BSD notation: either
CheckIpStr(ev) == /\ ev.out = IpToStr(ev.ip) /\ ev.cast = ev.out
                  /\ ev.bexc = "" /\ ev.back = ev.ip                 \* FromString(toString(x)) = x on the real code
CheckIpOps(ev) == /\ ev.and = And4(ev.a, ev.b) /\ ev.or = Or4(ev.a, ev.b) /\ ev.inv = Inv4(ev.a)
                  /\ ev.bcast = Broadcast(ev.a, ev.b) /\ ev.eq = (ev.a = ev.b)
                  /\ ev.any = AnyIp /\ ev.loop = LoopIp

\* ---- SockAddr ------------------------------------------------------------------------------------------
Post(ev) ==
  /\ \A b \in Slots : LET o == ev.st[b]  v == sa'[b] IN
        /\ o.a = (v.k # "dead")
        /\ o.a => (o.x = "" /\ [t |-> o.t, s |-> o.s, g |-> o.g, ip |-> o.ip, port |-> o.port, n |-> o.n, f |-> o.f] = Obs(v))
  /\ \A i, j \in Slots : LET both == sa'[i].k # "dead" /\ sa'[j].k # "dead" IN
        /\ ev.eq[i][j] = (both /\ sa'[i] = sa'[j])
        /\ ev.ne[i][j] = (both /\ sa'[i] # sa'[j])
Hint(ev) == LET o == ev.st[ev.b] IN IF o.a /\ o.g THEN V4(o.ip, o.port) ELSE None

TInit == SInit /\ l = 1
TReset     == IsEv("Reset") /\ sa' = [b \in Slots |-> Dead]
TIpFrom    == IsEv("IpFrom") /\ CheckIpFrom(Ev) /\ Pure
TIpStr     == IsEv("IpStr") /\ CheckIpStr(Ev) /\ Pure
TIpOps     == IsEv("IpOps") /\ CheckIpOps(Ev) /\ Pure
TSaDefault == IsEv("SaDefault") /\ SaDefault(Ev.b) /\ Post(Ev)
TSaFromStr == IsEv("SaFromStr") /\ SaFromStr(Ev.b, Ev.in, Hint(Ev)) /\ Post(Ev)
TSaMake    == IsEv("SaMake") /\ SaMake(Ev.b, Ev.ip, Ev.port) /\ Post(Ev)
TSaFromIn  == IsEv("SaFromIn") /\ SaMake(Ev.b, Ev.ip, Ev.port) /\ Post(Ev)
TSaLocal   == IsEv("SaLocal") /\ SaLocal(Ev.b, Ev.path) /\ Post(Ev)
TSaCopy    == IsEv("SaCopy") /\ SaCopy(Ev.b, Ev.s) /\ Post(Ev)
TSaFromRaw == IsEv("SaFromRaw") /\ SaCopy(Ev.b, Ev.s) /\ Post(Ev)
TSaAssign  == IsEv("SaAssign") /\ SaAssign(Ev.b, Ev.s) /\ Post(Ev)
TSaDestroy == IsEv("SaDestroy") /\ SaDestroy(Ev.b) /\ Post(Ev)
TNext == TReset \/ TIpFrom \/ TIpStr \/ TIpOps \/ TSaDefault \/ TSaFromStr \/ TSaMake \/ TSaFromIn \/ TSaLocal
         \/ TSaCopy \/ TSaFromRaw \/ TSaAssign \/ TSaDestroy
TSpec == TInit /\ [][TNext]_tvars

Progress == TLCSet(42, IF l > TLCGet(42) THEN l ELSE TLCGet(42))
Accepted == IF TLCGet(42) = Len(Log) + 1 THEN TRUE ELSE PrintT(<<"MAXPOS", TLCGet(42), Len(Log)>>) /\ FALSE
=============================================================================
