CONSTANTS
  ByteEdge = {0}
  MaxStr = 0
  Mode = "slots"
  Depth = 3
  Slots = {1, 2}
SPECIFICATION GSpec
CONSTRAINT Emit
CHECK_DEADLOCK FALSE
