CONSTANTS
  Slots = {1, 2, 3}
  Shallow = FALSE
  Unchecked = TRUE
  PathLens = {0, 1, 108, 109, 126, 127}
SPECIFICATION Spec
INVARIANTS NoWriteBeyondStorage
CHECK_DEADLOCK FALSE
