CONSTANTS
  ByteEdge = {0, 1, 9, 10, 99, 100, 255}
  MaxStr = 4
  Mode = "cases"
  Depth = 1
  Slots = {1}
SPECIFICATION GSpec
CONSTRAINT Emit
CHECK_DEADLOCK FALSE
