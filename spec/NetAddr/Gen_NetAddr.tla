---------------------------- MODULE Gen_NetAddr ----------------------------
(* E06 behaviour generator (spec -> code).  Mode "cases": every stateless case of the bounded domains of   *)
(* LawsE06 and every SockAddr::FromString input as a one-call behaviour.  Mode "slots": every sequence of  *)
(* Depth SockAddr operations of the abstract machine SockAddrSpec over a few values (BFS) - or random      *)
(* deeper ones with -simulate.  The C++ driver executes each behaviour on the real classes; the recorded   *)
(* trace is validated against Trace_NetAddr.                                                               *)
EXTENDS LawsE06, Json
CONSTANTS Mode, Depth, Slots

VARIABLES sa, hist
INSTANCE SockAddrSpec
gvars == <<lvars, sa, hist>>
S(t) == t
IpA == <<1, 2, 3, 4>>
SlotStrings == { IpToStr(IpA) \o <<COLON, 56, 48>>, IpToStr(IpA) \o <<COLON, 56, 49>>, <<SLASH, 97>>, <<>>, <<120, COLON, 49>>,
                 Paths(108), Paths(109), <<49, DOT, 50, COLON, 56, 48>>, <<0, 97>> }
PortStrings == { <<56, 48>>, <<48>>, <<54, 53, 53, 51, 53>>, <<54, 53, 53, 51, 54>>, <<55, 48, 48, 48, 48>>, <<45, 49>>, <<43, 49>>, <<32, 49>>, <<49, 32>>, <<49, 120>>,
                 <<>>, <<120>>, <<50, 49, 52, 55, 52, 56, 51, 54, 52, 55>>, <<50, 49, 52, 55, 52, 56, 51, 54, 52, 56>>, <<57, 57, 57, 57, 57, 57, 57, 57, 57, 57, 57>>, <<48, 56, 48>> }
IpStrings == { IpToStr(IpA), <<49, DOT, 50, DOT, 51>>, <<48, 120, 49, DOT, 50, DOT, 51, DOT, 52>>, <<48, 49, DOT, 50, DOT, 51, DOT, 52>>, IpToStr(IpA) \o <<32>>,
               <<50, 53, 54, DOT, 49, DOT, 49, DOT, 49>>, <<>>, <<97>>, IpToStr(IpA) \o <<DOT, 53>>, IpToStr(<<255, 255, 255, 255>>), IpToStr(AnyIp), <<32>> \o IpToStr(IpA) }
FromStrInputs == {i \o <<COLON>> \o p : i \in IpStrings, p \in PortStrings}
                 \cup {Paths(n) : n \in {0, 1, 2, 14, 106, 107, 108, 109, 110, 125, 126, 127, 128, 129, 200, 1000}}
                 \cup {IpToStr(IpA) \o <<COLON, COLON, 56, 48>>, <<COLON>>, <<COLON, 56, 48>>, <<SLASH, 97, COLON, 98>>}

GInit == LInit /\ SInit /\ hist = <<>>
Emit1(d) == hist' = <<d>> /\ UNCHANGED <<lvars, sa>>
GIpFrom == \E s \in IpInputs : Emit1([e |-> "IpFrom", in |-> s])
GIpStr  == \E a \in Ip4s : Emit1([e |-> "IpStr", ip |-> a])
GIpOps  == \E a \in [1..4 -> {0, 85, 255}], b \in [1..4 -> {0, 254, 255}] : Emit1([e |-> "IpOps", a |-> a, b |-> b])
GSaStr  == \E s \in FromStrInputs, pat \in {0, 2} : Emit1([e |-> "SaFromStr", b |-> 1, in |-> s, pat |-> pat])
Cases == Mode = "cases" /\ hist = <<>> /\ (GIpFrom \/ GIpStr \/ GIpOps \/ GSaStr)

H(d) == hist' = Append(hist, d) /\ UNCHANGED lvars
SlotOps == Mode = "slots" /\ \E b \in Slots :
  \/ \E pat \in {1, 2} : SaDefault(b) /\ H([e |-> "SaDefault", b |-> b, pat |-> pat])
  \/ \E s \in SlotStrings : SaFromStr(b, s, None) /\ H([e |-> "SaFromStr", b |-> b, in |-> s, pat |-> 1 + (Len(hist) % 2)])
  \/ SaMake(b, IpA, 80) /\ H([e |-> "SaMake", b |-> b, ip |-> IpA, port |-> 80, pat |-> 2])
  \/ SaMake(b, IpA, 81) /\ H([e |-> "SaFromIn", b |-> b, ip |-> IpA, port |-> 81, pat |-> 3])
  \/ \E p \in {<<SLASH, 97>>, Paths(109)} : SaLocal(b, p) /\ H([e |-> "SaLocal", b |-> b, path |-> p, pat |-> 1])
  \/ \E s \in Slots, pat \in {1, 2} : SaCopy(b, s) /\ H([e |-> "SaCopy", b |-> b, s |-> s, pat |-> pat])
  \/ \E s \in Slots : SaCopy(b, s) /\ H([e |-> "SaFromRaw", b |-> b, s |-> s, pat |-> 1 + (Len(hist) % 2)])
  \/ \E s \in Slots : SaAssign(b, s) /\ H([e |-> "SaAssign", b |-> b, s |-> s])
  \/ SaDestroy(b) /\ H([e |-> "SaDestroy", b |-> b])
GNext == Cases \/ SlotOps
GSpec == GInit /\ [][GNext]_gvars
Emit == IF Len(hist) >= (IF Mode = "cases" THEN 1 ELSE Depth) THEN PrintT("BEH " \o ToJson(hist)) /\ FALSE ELSE TRUE
=============================================================================
