CONSTANTS
  ByteEdge = {0, 1, 9, 10, 19, 99, 100, 127, 128, 199, 200, 255}
  MaxStr = 5
  Mode = "cases"
  Depth = 1
  Slots = {1}
SPECIFICATION GSpec
CONSTRAINT Emit
CHECK_DEADLOCK FALSE
