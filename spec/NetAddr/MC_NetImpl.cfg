CONSTANTS
  Slots = {1, 2, 3}
  Shallow = FALSE
  Unchecked = FALSE
  PathLens = {0, 1, 108, 109, 126, 127}
SPECIFICATION Spec
INVARIANTS TypeOK ValuesDistinguishable ObsConforms EqConforms NoWriteBeyondStorage
CHECK_DEADLOCK FALSE
