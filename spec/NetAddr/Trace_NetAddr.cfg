CONSTANTS
  Slots = {1, 2, 3}
SPECIFICATION TSpec
CONSTRAINT Progress
POSTCONDITION Accepted
INVARIANTS TypeOK ValuesDistinguishable
CHECK_DEADLOCK FALSE
