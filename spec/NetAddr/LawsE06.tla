------------------------------ MODULE LawsE06 ------------------------------
(* E06 - laws of the reference operators of module NetAddr, checked by TLC over small hostile domains.  *)
EXTENDS NetAddr, TLC
CONSTANTS ByteEdge,      \* byte values used for "every address": all 4-tuples over this set
          MaxStr         \* all strings up to this length over the hostile alphabets

VARIABLE c
lvars == <<c>>
SeqsUpTo(S, n) == UNION {[1..k -> S] : k \in 0..n}
Idle == c.k = "none"
Set(k, v) == c' = [k |-> k, v |-> v]
Str(t) == t                                            \* strings are written as tuples of codes
Has(s, ch) == \E i \in 1..Len(s) : s[i] = ch

Ip4s == [1..4 -> ByteEdge]
\* parts that are joined with dots
PartsQuad == { <<>>, <<48>>, <<49>>, <<50, 53, 53>>, <<50, 53, 54>>, <<48, 49>>, <<97>> }                       \* "" 0 1 255 256 01 a
PartsAny == { <<>>, <<48>>, <<49>>, <<50, 53, 53>>, <<50, 53, 54>>, <<54, 53, 53, 51, 53>>, <<54, 53, 53, 51, 54>>,  \* .. 65535 65536
              <<49, 54, 55, 55, 55, 50, 49, 53>>, <<49, 54, 55, 55, 55, 50, 49, 54>>,                           \* 16777215 16777216
              <<52, 50, 57, 52, 57, 54, 55, 50, 57, 53>>, <<52, 50, 57, 52, 57, 54, 55, 50, 57, 54>>,           \* 4294967295 4294967296
              <<48, 120, 49, 48>>, <<48, 88, 102, 70>>, <<48, 49, 48>>, <<48, 56>>, <<48, 51, 55, 55>>, <<48, 52, 48, 48>> }  \* 0x10 0XfF 010 08 0377 0400
Dotted(ps) == IF Len(ps) = 0 THEN <<>> ELSE
              LET RECURSIVE J(_) J(k) == IF k > Len(ps) THEN <<>> ELSE (IF k > 1 THEN <<DOT>> ELSE <<>>) \o ps[k] \o J(k + 1) IN J(1)
Suffixes == { <<>>, <<32>>, <<32, 120>>, <<120>>, <<DOT>>, <<9>>, <<10, 49>>, <<COLON>>, <<SLASH>>, <<128>> }
IpInputs == {Dotted(p) : p \in [1..4 -> PartsQuad]}
            \cup {Dotted(p) : p \in UNION {[1..k -> PartsAny] : k \in 1..2}}
            \cup {Dotted(p) : p \in [1..3 -> {<<49>>, <<50, 53, 54>>, <<54, 53, 53, 51, 53>>, <<54, 53, 53, 51, 54>>, <<48, 120, 49, 48>>, <<>>}]}
            \cup {Dotted(p) : p \in [1..5 -> {<<49>>, <<>>}]}
            \cup {pre \o b \o suf : pre \in {<<>>, <<32>>, <<43>>, <<45>>}, b \in {Dotted(<<<<49>>, <<50>>, <<51>>, <<52>>>>), Dotted(<<<<49>>, <<50>>, <<51>>>>), <<49>>}, suf \in Suffixes}
            \cup SeqsUpTo({49, 48, DOT, 120, 32}, MaxStr)
PortInputs == SeqsUpTo({49, 48, 57, 45, 43, 32, 120}, MaxStr)
              \cup { <<54, 53, 53, 51, 53>>, <<54, 53, 53, 51, 54>>, <<55, 48, 48, 48, 48>>, <<45, 55, 48, 48, 48, 48>>, <<50, 49, 52, 55, 52, 56, 51, 54, 52, 55>>,
                     <<50, 49, 52, 55, 52, 56, 51, 54, 52, 56>>, <<57, 57, 57, 57, 57, 57, 57, 57, 57, 57, 57>>, <<48, 48, 48, 48, 48, 48, 48, 48, 48, 48, 48, 56, 48>> }
Paths(n) == [i \in 1..n |-> IF i = 1 THEN SLASH ELSE 97]
SaValues == {None} \cup {V4(ip, p) : ip \in [1..4 -> {0, 9, 255}], p \in {0, 1, 80, 65535}} \cup {Local(Paths(n)) : n \in {0, 1, 2, 107, 108}}

LInit == c = [k |-> "none"]
PickIp     == Idle /\ \E a \in Ip4s : Set("ip", a)
PickIpStr  == Idle /\ \E s \in IpInputs : Set("ipstr", s)
PickOps    == Idle /\ \E a \in [1..4 -> {0, 85, 255}], b \in [1..4 -> {0, 128, 254, 255}] : Set("ops", <<a, b>>)
PickPort   == Idle /\ \E s \in PortInputs : Set("port", s)
PickSa     == Idle /\ \E v \in SaValues : Set("sa", v)
PickSaStr  == Idle /\ \E i \in {Dotted(p) : p \in [1..4 -> {<<49>>, <<50, 53, 54>>}]} \cup {<<>>, <<120>>, <<49>>, <<48, 49, DOT, 49, DOT, 49, DOT, 49>>},
                      p \in SeqsUpTo({49, 57, 45, 120}, 2) \cup {<<54, 53, 53, 51, 54>>}, colon \in BOOLEAN :
                      Set("sastr", IF colon THEN i \o <<COLON>> \o p ELSE i \o p)
PickExamples == Idle /\ Set("examples", 0)
LNext == PickIp \/ PickIpStr \/ PickOps \/ PickPort \/ PickSa \/ PickSaStr \/ PickExamples
LSpec == LInit /\ [][LNext]_lvars

\* ---- IPAddress ------------------------------------------------------------------------------------------
\* FromString(toString(a)) = a for every address; the printed form is canonical and fits INET_ADDRSTRLEN
LawIpRoundTrip == c.k = "ip" => LET s == IpToStr(c.v) IN InetAton(s) = Good(c.v) /\ Canonical(s) /\ Len(s) <= 15 /\ Len(s) >= 7
\* canonical strings, defined independently of the parser: exactly four dot-separated decimal numbers 0..255 without leading zeros
RECURSIVE SplitDots(_, _, _)
SplitDots(s, i, cur) == IF i > Len(s) THEN <<cur>> ELSE IF s[i] = DOT THEN <<cur>> \o SplitDots(s, i + 1, <<>>) ELSE SplitDots(s, i + 1, Append(cur, s[i]))
RECURSIVE DecVal(_, _, _)
DecVal(p, i, acc) == IF i > Len(p) THEN acc ELSE DecVal(p, i + 1, acc * 10 + (p[i] - 48))
QuadPart(p) == Len(p) \in 1..3 /\ (\A i \in 1..Len(p) : IsDigit(p[i])) /\ (Len(p) > 1 => p[1] # 48) /\ DecVal(p, 1, 0) <= 255
IsQuad(s) == LET ps == SplitDots(s, 1, <<>>) IN Len(ps) = 4 /\ \A k \in 1..4 : QuadPart(ps[k])
LawIpCanonical == c.k = "ipstr" => LET s == c.v IN
                    /\ Canonical(s) <=> IsQuad(s)
                    /\ IsQuad(s) => InetAton(s).v = [k \in 1..4 |-> DecVal(SplitDots(s, 1, <<>>)[k], 1, 0)]
\* malformed input is rejected: too many numbers, empty numbers, numbers too large for their place, junk
LawIpReject == c.k = "ipstr" => LET s == c.v
                    sp == FindIn(s, {32, 9, 10, 11, 12, 13}, 1)
                    body == IF sp = 0 THEN s ELSE SubSeq(s, 1, sp - 1)
                    ps == SplitDots(body, 1, <<>>)
                 IN /\ (body = <<>> \/ Len(ps) > 4 \/ (\E k \in 1..Len(ps) : ps[k] = <<>>)) => ~InetAton(s).ok
                    /\ (\E i \in 1..Len(body) : DigitVal(body[i]) > 15 /\ body[i] \notin {DOT, 120, 88}) => ~InetAton(s).ok
                    /\ (Len(ps) = 4 /\ \E k \in 1..4 : Len(ps[k]) \in 1..3 /\ (\A i \in 1..Len(ps[k]) : IsDigit(ps[k][i])) /\ ps[k][1] # 48 /\ DecVal(ps[k], 1, 0) > 255) => ~InetAton(s).ok
                    /\ InetAton(s).ok => \A i \in 1..4 : InetAton(s).v[i] \in 0..255
T(a, b, cc, d) == <<a, b, cc, d>>
\* the examples of inet(3)
LawIpExamples == c.k = "examples" =>
   /\ InetAton(Str(<<49, 50, 55, 46, 49>>)) = Good(T(127, 0, 0, 1))                                   \* 127.1
   /\ InetAton(Str(<<48, 120, 55, 102, 46, 49>>)) = Good(T(127, 0, 0, 1))                             \* 0x7f.1
   /\ InetAton(Str(<<49>>)) = Good(T(0, 0, 0, 1))
   /\ InetAton(Str(<<49, 46, 50, 46, 51>>)) = Good(T(1, 2, 0, 3))
   /\ InetAton(Str(<<49, 46, 50, 46, 54, 53, 53, 51, 53>>)) = Good(T(1, 2, 255, 255))
   /\ ~InetAton(Str(<<49, 46, 50, 46, 54, 53, 53, 51, 54>>)).ok
   /\ InetAton(Str(<<52, 50, 57, 52, 57, 54, 55, 50, 57, 53>>)) = Good(T(255, 255, 255, 255))
   /\ ~InetAton(Str(<<52, 50, 57, 52, 57, 54, 55, 50, 57, 54>>)).ok
   /\ InetAton(Str(<<48, 51, 55, 55, 46, 49, 46, 49, 46, 49>>)) = Good(T(255, 1, 1, 1))               \* 0377.1.1.1
   /\ ~InetAton(Str(<<48, 52, 48, 48, 46, 49, 46, 49, 46, 49>>)).ok                                  \* 0400.1.1.1
   /\ ~InetAton(Str(<<48, 56, 46, 49, 46, 49, 46, 49>>)).ok                                          \* 08.1.1.1
   /\ InetAton(Str(<<49, 46, 50, 46, 51, 46, 52, 32, 120>>)) = Good(T(1, 2, 3, 4))                    \* "1.2.3.4 x"
   /\ ~InetAton(Str(<<49, 46, 50, 46, 51, 46, 52, 120>>)).ok                                         \* "1.2.3.4x"
   /\ InetAton(Str(<<49, 46, 49, 54, 55, 55, 55, 50, 49, 53>>)) = Good(T(1, 255, 255, 255))           \* 1.16777215
   /\ ~InetAton(Str(<<49, 46, 49, 54, 55, 55, 55, 50, 49, 54>>)).ok
   /\ Broadcast(T(192, 168, 11, 234), T(255, 255, 255, 0)) = T(192, 168, 11, 255)                      \* ip_address_test.cpp
   /\ And4(T(192, 168, 11, 234), T(255, 255, 255, 0)) = T(192, 168, 11, 0)
   /\ Inv4(T(0, 0, 0, 255)) = T(255, 255, 255, 0)
   /\ SaToStr(V4(T(12, 34, 56, 78), 60000)) = Str(<<49, 50, 46, 51, 52, 46, 53, 54, 46, 55, 56, 58, 54, 48, 48, 48, 48>>)     \* sockaddr_test.cpp
\* & | ~ are the bitwise operations of a Boolean algebra on 32 bits; the broadcast address of a network
LawIpBits == c.k = "ops" => LET a == c.v[1]  b == c.v[2]  ones == T(255, 255, 255, 255) IN
   /\ Inv4(Inv4(a)) = a /\ And4(a, Inv4(a)) = AnyIp /\ Or4(a, Inv4(a)) = ones
   /\ Inv4(And4(a, b)) = Or4(Inv4(a), Inv4(b)) /\ Inv4(Or4(a, b)) = And4(Inv4(a), Inv4(b))
   /\ And4(a, b) = And4(b, a) /\ Or4(a, b) = Or4(b, a) /\ And4(a, a) = a /\ Or4(a, a) = a
   /\ And4(a, Or4(a, b)) = a /\ Or4(a, And4(a, b)) = a /\ And4(a, ones) = a /\ Or4(a, AnyIp) = a
   /\ And4(Broadcast(a, b), b) = And4(a, b) /\ And4(Broadcast(a, b), Inv4(b)) = Inv4(b) /\ Broadcast(Broadcast(a, b), b) = Broadcast(a, b)
   /\ \A i \in 1..4 : And4(a, b)[i] \in 0..255 /\ Or4(a, b)[i] \in 0..255

\* ---- port ---------------------------------------------------------------------------------------------------
LawPort == c.k = "port" => LET s == c.v  r == Stoi(s) IN
   /\ r.strict => (r.ok /\ Stoi(Dec(r.v)) = [ok |-> TRUE, v |-> r.v, strict |-> TRUE])
   /\ r.strict => Stoi(<<48>> \o s) = r                                             \* leading zeros do not matter
   /\ r.ok => LET j == Stoi(s \o <<120>>) IN j.ok /\ j.v = r.v /\ ~j.strict        \* stoi ignores what follows the digits
   /\ r.v \in 0..65535
   /\ ~(\E i \in 1..Len(s) : IsDigit(s[i])) => ~r.ok                               \* no digit at all: no port

\* ---- SockAddr ---------------------------------------------------------------------------------------------------
Cands(s) == {None, MkLocal(s)} \cup (LET cpos == FindIn(s, {COLON}, 1) IN IF cpos = 0 THEN {} ELSE {V4(InetAton(SubSeq(s, 1, cpos - 1)).v, Stoi(SubSeq(s, cpos + 1, Len(s))).v)})
\* FromString(toString(v)) = v for every IPv4 address with port and every local path (without ':') that fits
LawSaRoundTrip == c.k = "sa" => LET v == c.v  s == SaToStr(v) IN
   /\ (v.k = "v4" \/ (v.k = "local" /\ ~Has(v.path, COLON))) => {w \in Cands(s) : SaFromStrOK(s, w)} = {v}
   /\ v.k = "none" => s = <<>>
   /\ v.k = "local" => SaLen(v) <= 110
\* FromString is total: at least one and at most two outcomes; without ':' it is the local path
LawSaTotal == c.k = "sastr" => LET s == c.v  ok == {w \in Cands(s) : SaFromStrOK(s, w)} IN
   /\ Cardinality(ok) \in 1..2
   /\ ~Has(s, COLON) => ok = {Local(s)}
   /\ Has(s, COLON) => \A w \in ok : w.k \in {"none", "v4"}
=============================================================================
