CONSTANTS
  Slots = {1, 2, 3}
  Shallow = TRUE
  Unchecked = FALSE
  PathLens = {0, 1, 108, 109, 126, 127}
SPECIFICATION Spec
INVARIANTS ObsConforms
CHECK_DEADLOCK FALSE
