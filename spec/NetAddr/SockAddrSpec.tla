---------------------------- MODULE SockAddrSpec ----------------------------
(* E06 - abstract state machine of a few SockAddr objects ("slots").  A slot holds a value None /        *)
(* V4(ip, port) / Local(path) or is dead.  Every way of making a SockAddr is one action; copy            *)
(* construction and assignment make the target EQUAL to the source - in every observable respect         *)
(* (type(), toString(), get(), toSockAddr(), ==).                                                         *)
EXTENDS NetAddr
CONSTANT Slots
VARIABLE sa
svars == <<sa>>

Dead == [k |-> "dead"]
Alive(b) == sa[b].k # "dead"
SInit == sa = [b \in Slots |-> Dead]
Put(b, v) == sa' = [sa EXCEPT ![b] = v]

SaDefault(b)          == ~Alive(b) /\ Put(b, None)                                  \* SockAddr()
\* SockAddr::FromString(s); hint = a further candidate value (taken from the log by the trace specification)
SaFromStr(b, s, hint) == ~Alive(b) /\ \E v \in {None, MkLocal(s), hint} \cup
                                               (LET c == FindIn(s, {COLON}, 1) IN
                                                IF c = 0 THEN {} ELSE {V4(InetAton(SubSeq(s, 1, c - 1)).v, Stoi(SubSeq(s, c + 1, Len(s))).v)}) :
                            SaFromStrOK(s, v) /\ Put(b, v)
SaMake(b, ip, port)   == ~Alive(b) /\ Put(b, V4(ip, port))                          \* SockAddr(IPAddress, port), SockAddr(sockaddr_in)
SaLocal(b, p)         == ~Alive(b) /\ Put(b, MkLocal(p))                            \* SockAddr(DomainSockPath)
SaCopy(b, s)          == ~Alive(b) /\ Alive(s) /\ Put(b, sa[s])                     \* copy construction, SockAddr(sockaddr, len) of s's image
SaAssign(b, s)        == Alive(b) /\ Alive(s) /\ Put(b, sa[s])                      \* b = s  (also b = b)
SaDestroy(b)          == Alive(b) /\ Put(b, Dead)

\* what can be seen of a value
Obs(v) == [t |-> SaType(v), s |-> SaToStr(v), g |-> SaGet(v).ok, ip |-> SaGet(v).ip, port |-> SaGet(v).port, n |-> SaLen(v), f |-> SaFamily(v)]

TypeOK == \A b \in Slots : sa[b].k \in {"dead", "none", "v4", "local"}
\* equal values look the same and different values differ in what they print or in their kind
ValuesDistinguishable == \A a, b \in Slots : (Alive(a) /\ Alive(b)) => ((sa[a] = sa[b]) <=> (Obs(sa[a]) = Obs(sa[b])))
=============================================================================
