------------------------------ MODULE NetImpl ------------------------------
(* E06 - implementation-shaped model of SockAddr's storage: a sockaddr_storage of StorageSize bytes plus  *)
(* len_, written by memcpy of so-and-so many bytes.  A slot's storage is abstracted to the fields that     *)
(* can be observed: family (first two bytes), len_, and the payload behind the family (ip:port or path).   *)
(* The abstract value of module SockAddrSpec is carried as ghost variable sa; the invariants say that      *)
(* what the implementation shows is what the abstract value prescribes, that == is the equality of the     *)
(* abstract values, and that no constructor writes beyond the storage.                                     *)
(* Switches reproduce the code as found (both must violate an invariant):                                  *)
(*   Shallow    copy construction / assignment / SockAddr(sockaddr, len) copy only len_ bytes and leave    *)
(*              the rest as it was (indeterminate for a new object)                                        *)
(*   Unchecked  SockAddr(DomainSockPath) copies a path of any length                                       *)
EXTENDS SockAddrSpec
CONSTANTS Shallow, Unchecked, PathLens

StorageSize == 128                                   \* sizeof(sockaddr_storage)
VARIABLES mem, wmax
ivars == <<sa, mem, wmax>>

PathOf(n) == [i \in 1..n |-> IF i = 1 THEN SLASH ELSE 97]
IpA == <<1, 2, 3, 4>>
Strings == { IpToStr(IpA) \o <<COLON, 56, 48>>, IpToStr(IpA) \o <<COLON, 56, 49>>, <<120, COLON, 49>> } \cup {PathOf(n) : n \in PathLens}

\* storage images
Zero == [fam |-> 0, len |-> 0, ip |-> AnyIp, port |-> 0, path |-> <<>>]
ImgV4(ip, port) == [fam |-> 2, len |-> 16, ip |-> ip, port |-> port, path |-> <<>>]
ImgLocal(p) == [fam |-> 1, len |-> 2 + Len(p), ip |-> AnyIp, port |-> 0, path |-> p]
ImgOf(v) == CASE v.k = "v4" -> ImgV4(v.ip, v.port) [] v.k = "local" -> ImgLocal(v.path) [] OTHER -> Zero
\* what a new object finds in its raw storage
Garbage == {[Zero EXCEPT !.fam = f] : f \in {0, 1, 2}}
\* memcpy(&addr_, &src.addr_, n); len_ = src.len_
CopyOnto(old, src) == IF Shallow /\ src.len = 0 THEN [old EXCEPT !.len = 0] ELSE src

\* observations of a storage image
IType(m) == CASE m.fam = 2 -> 1 [] m.fam = 1 -> 2 [] OTHER -> 0
IStr(m) == CASE m.fam = 2 -> IpToStr(m.ip) \o <<COLON>> \o Dec(m.port)
             [] m.fam = 1 -> IF m.len < 2 THEN <<"std::length_error">> ELSE SubSeq(m.path, 1, m.len - 2)     \* string(ptr, len_ - 2)
             [] OTHER -> <<>>
IEq(m1, m2) == m1.len = m2.len /\ (m1.len = 0 \/ (m1.fam = m2.fam /\ m1.ip = m2.ip /\ m1.port = m2.port /\ m1.path = m2.path))    \* memcmp of len_ bytes

Init == SInit /\ mem = [b \in Slots |-> Zero] /\ wmax = 0
Store(b, m) == mem' = [mem EXCEPT ![b] = m]
Wrote(n) == wmax' = IF n > wmax THEN n ELSE wmax

IDefault == \E b \in Slots : SaDefault(b) /\ Store(b, Zero) /\ Wrote(StorageSize)
IFromStr == \E b \in Slots, s \in Strings : SaFromStr(b, s, None) /\
              LET c == FindIn(s, {COLON}, 1) IN
              IF c = 0 THEN IF ~Unchecked /\ Len(s) > MaxPath THEN Store(b, Zero) /\ Wrote(StorageSize)
                            ELSE Store(b, ImgLocal(s)) /\ Wrote(IF 2 + Len(s) > StorageSize THEN 2 + Len(s) ELSE StorageSize)
              ELSE LET ipr == InetAton(SubSeq(s, 1, c - 1))  pr == Stoi(SubSeq(s, c + 1, Len(s))) IN
                   Store(b, IF ipr.ok /\ pr.ok THEN ImgV4(ipr.v, pr.v) ELSE Zero) /\ Wrote(StorageSize)
IMake    == \E b \in Slots, p \in {80, 81} : SaMake(b, IpA, p) /\ Store(b, ImgV4(IpA, p)) /\ Wrote(StorageSize)
ICopy    == \E b, s \in Slots, g \in Garbage : SaCopy(b, s) /\ Store(b, CopyOnto(g, mem[s])) /\ Wrote(IF Shallow THEN mem[s].len ELSE StorageSize)
IAssign  == \E b, s \in Slots : SaAssign(b, s) /\ Store(b, IF b = s THEN mem[b] ELSE CopyOnto(mem[b], mem[s])) /\ Wrote(IF Shallow THEN mem[s].len ELSE StorageSize)
IDestroy == \E b \in Slots : SaDestroy(b) /\ Store(b, Zero) /\ UNCHANGED wmax
Next == IDefault \/ IFromStr \/ IMake \/ ICopy \/ IAssign \/ IDestroy
Spec == Init /\ [][Next]_ivars

ObsConforms == \A b \in Slots : Alive(b) => (IType(mem[b]) = SaType(sa[b]) /\ IStr(mem[b]) = SaToStr(sa[b]) /\ mem[b].len = SaLen(sa[b]))
EqConforms == \A a, b \in Slots : (Alive(a) /\ Alive(b)) => (IEq(mem[a], mem[b]) <=> sa[a] = sa[b])
NoWriteBeyondStorage == wmax <= StorageSize
=============================================================================
