CONSTANTS
  ByteEdge = {0, 1, 9, 10, 99, 100, 255}
  MaxStr = 4
SPECIFICATION LSpec
INVARIANTS LawIpRoundTrip LawIpCanonical LawIpReject LawIpExamples LawIpBits LawPort LawSaRoundTrip LawSaTotal
CHECK_DEADLOCK FALSE
