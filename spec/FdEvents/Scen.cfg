CONSTANTS
  E = {1, 2, 3, 4}
  FD = {1, 2, 3}
  Backend = "epoll"
  Fix6 = TRUE
  Fix7 = TRUE
  Fix8 = TRUE
  OneShotLate = FALSE
  Masks = {{"R"}, {"W"}, {"R", "W"}}
  OpKinds = {"en", "dis", "del", "init", "reinit", "close", "arm"}
  MaxOps = 99
  MaxPass = 9999
SPECIFICATION SSpec
CONSTRAINT Emit
INVARIANTS OnlyEnabledFires ReadyMatch OneShotDisabledInCallback NoUseOfFreed NoException RefCountsExact
CHECK_DEADLOCK FALSE
