CONSTANTS
  E = {1, 2, 3}
  FD = {1, 2}
  Backend = "select"
  Fix6 = TRUE
  Fix7 = TRUE
  Fix8 = TRUE
  OneShotLate = FALSE
  Masks <- OnlyR
  OpKinds <- OpsAll
  MaxOps = 2
  MaxPass = 2
SPECIFICATION MCSpec
INVARIANTS TypeOK OnlyEnabledFires ReadyMatch OneShotDisabledInCallback NoUseOfFreed NoException RefCountsExact PoolSane
CHECK_DEADLOCK FALSE
