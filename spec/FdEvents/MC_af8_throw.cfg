CONSTANTS
  E = {1, 2}
  FD = {1, 2}
  Backend = "select"
  Fix6 = TRUE
  Fix7 = TRUE
  Fix8 = FALSE
  OneShotLate = FALSE
  Masks <- OnlyR
  OpKinds <- OpsBasic
  MaxOps = 1
  MaxPass = 1
SPECIFICATION MCSpec
INVARIANTS NoException
CHECK_DEADLOCK FALSE
