CONSTANTS
  E = {1, 2, 3}
  FD = {1, 2}
  Backend = "epoll"
  Fix6 = TRUE
  Fix7 = TRUE
  Fix8 = TRUE
  OneShotLate = FALSE
  Masks <- OnlyR
  OpKinds <- OpsInitArm
  MaxOps = 1
  MaxPass = 1
SPECIFICATION MCSpec
INVARIANTS TypeOK OnlyEnabledFires ReadyMatch OneShotDisabledInCallback NoUseOfFreed NoException RefCountsExact PoolSane
CHECK_DEADLOCK FALSE
