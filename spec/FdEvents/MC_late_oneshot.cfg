CONSTANTS
  E = {1, 2}
  FD = {1, 2}
  Backend = "epoll"
  Fix6 = TRUE
  Fix7 = TRUE
  Fix8 = TRUE
  OneShotLate = TRUE
  Masks <- OnlyR
  OpKinds <- OpsBasic
  MaxOps = 1
  MaxPass = 1
SPECIFICATION MCSpec
INVARIANTS OneShotDisabledInCallback
CHECK_DEADLOCK FALSE
