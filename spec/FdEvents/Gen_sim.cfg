CONSTANTS
  E = {1, 2, 3}
  FD = {1, 2}
  Backend = "select"
  Fix6 = TRUE
  Fix7 = TRUE
  Fix8 = TRUE
  OneShotLate = FALSE
  Masks = {{"R"}, {"W"}, {"R", "W"}}
  OpKinds = {"en", "dis", "del", "init", "reinit", "close", "arm"}
  MaxOps = 3
  MaxPass = 3
  InitMode = "rich-any"
  Depth = 70
SPECIFICATION GSpec
CONSTRAINT Emit
CHECK_DEADLOCK FALSE
