---- MODULE MC_FdEvents ----
(* Bounded models of FdEvents for TLC. Event slots are interchangeable, so the initial choice of       *)
(* (conditions, mode) per slot is taken up to permutation (sorted by a code).                          *)
EXTENDS FdEvents
AllMasks == {{"R"}, {"W"}, {"R", "W"}}
RMasks == {{"R"}, {"R", "W"}}
OnlyR == {{"R"}}
OpsBasic == {"en", "dis", "del"}
OpsClose == {"en", "dis", "del", "close"}
OpsInit == {"en", "dis", "del", "init"}
OpsAll == {"en", "dis", "del", "close", "init"}
OpsInitArm == {"en", "dis", "del", "init", "arm"}            \* + a timer callback that runs before the descriptors of its pass
OpsCloseRe == {"en", "dis", "del", "close", "reinit"}        \* + re-initialise with other descriptor / conditions / mode
OpsRe == {"en", "dis", "reinit"}
OpsTimer == {"en", "dis", "del", "arm"}
OpsEverything == {"en", "dis", "del", "close", "init", "reinit", "arm"}
Code(v) == (IF v.mask = {"R"} THEN 0 ELSE IF v.mask = {"W"} THEN 1 ELSE 2) * 2 + (IF v.os THEN 1 ELSE 0)
MCInit == Init /\ \A a, b \in E : a < b => Code(ev[a]) <= Code(ev[b])
\* operations at main level only while setting up; the environment changes readiness between passes
SetUp == passes = 0 /\ DoMainOp
Env == passes < MaxPass /\ DoSetReady
MCNext == Poll \/ TimerCb \/ SetUp \/ Env \/ DoNextFd \/ DoSub \/ DoCbOp \/ CbReturn \/ FinishFd \/ EndPass
MCSpec == MCInit /\ [][MCNext]_vars

\* as-found configuration for the record that is re-used for another descriptor inside the same pass (needs three
\* descriptors, three operations in one callback): start from the configuration "event 1 on descriptor 1, event 2
\* on descriptor 2, both enabled and ready, event 3 not initialised" instead of searching for it from scratch
ReuseInit ==
  /\ ev = [e \in E |-> [st |-> "alive", fd |-> IF e <= 2 THEN e ELSE 0, mask |-> {"R"}, os |-> FALSE, en |-> e <= 2]]
  /\ map = [fd \in FD |-> IF fd <= 2 THEN fd ELSE 0]
  /\ recs = [r \in RID |-> IF r <= 2 THEN [live |-> TRUE, fd |-> r, ref |-> 1, subs |-> <<r>>] ELSE DeadRec]
  /\ pool = <<>> /\ ready = [fd \in FD |-> IF fd <= 2 THEN {"R"} ELSE {}] /\ closed = [fd \in FD |-> FALSE]
  /\ phase = "idle" /\ rlist = {} /\ cur = NoCur /\ copy = <<>> /\ run = 0 /\ opsLeft = 0 /\ passes = 0
  /\ pins = {} /\ timer = "off" /\ bad = FALSE /\ pollReady = [fd \in FD |-> {}] /\ cbEn = FALSE /\ viol = {}
ReuseSpec == ReuseInit /\ [][Poll \/ TimerCb \/ DoNextFd \/ DoSub \/ DoCbOp \/ CbReturn \/ FinishFd \/ EndPass]_vars
====
