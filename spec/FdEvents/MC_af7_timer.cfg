CONSTANTS
  E = {1}
  FD = {1, 2}
  Backend = "epoll"
  Fix6 = TRUE
  Fix7 = FALSE
  Fix8 = TRUE
  OneShotLate = FALSE
  Masks <- OnlyR
  OpKinds <- OpsTimer
  MaxOps = 1
  MaxPass = 1
SPECIFICATION MCSpec
INVARIANTS NoUseOfFreed
CHECK_DEADLOCK FALSE
