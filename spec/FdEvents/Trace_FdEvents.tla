--------------------------- MODULE Trace_FdEvents ---------------------------
(* Trace validation for C03.  The driver (harness/c03_fdevents) logs one line per call it makes on the real   *)
(* events (New / Op, at main level or inside a callback), the kernel's view of every descriptor's readiness    *)
(* before each pass (Ready), every callback invocation with the reported conditions and isEnabled() of the     *)
(* running event (Cb ... Ret) and, at the end of every pass, which events exist and are enabled (PassEnd).     *)
(* Each line must be the corresponding action of FdEvents (intended behaviour, Fix* = TRUE).  What the loop    *)
(* does between the lines is not logged: Poll, NextFd, a Sub that does not fire and FinishFd are silent steps, *)
(* and since FdEvents leaves the order of ready descriptors open, TLC searches for SOME order of descriptors   *)
(* (subscribers of one descriptor: enable order) that explains the recorded callbacks.  A Fault line (crash,   *)
(* exception, sanitizer report) matches nothing.                                                              *)
EXTENDS FdEvents, Json, IOUtils
Log == ndJsonDeserialize(IOEnv.TRACE)
VARIABLES l, ended          \* next line; last pass whose PassEnd line was consumed
ASSUME TLCSet(42, 0)
tvars == <<vars, l, ended>>

Ev == Log[l]
Has == l <= Len(Log)
IsEv(e) == Has /\ Log[l].e = e /\ l' = l + 1
SetOf(s) == {s[i] : i \in 1..Len(s)}
InPass == Has /\ Log[l].e \in {"Cb", "PassEnd", "TimerCb"}
Silent == UNCHANGED <<l, ended>>

Blank ==
  /\ ev = [e \in E |-> NoEv] /\ recs = [r \in RID |-> DeadRec] /\ map = [fd \in FD |-> 0] /\ pool = <<>>
  /\ ready = [fd \in FD |-> {}] /\ closed = [fd \in FD |-> FALSE]
  /\ phase = "idle" /\ rlist = {} /\ cur = NoCur /\ copy = <<>> /\ run = 0 /\ opsLeft = 0 /\ passes = 0
  /\ pins = {} /\ timer = "off" /\ bad = FALSE /\ pollReady = [fd \in FD |-> {}] /\ cbEn = FALSE /\ viol = {}
BlankP ==
  /\ ev' = [e \in E |-> NoEv] /\ recs' = [r \in RID |-> DeadRec] /\ map' = [fd \in FD |-> 0] /\ pool' = <<>>
  /\ ready' = [fd \in FD |-> {}] /\ closed' = [fd \in FD |-> FALSE]
  /\ phase' = "idle" /\ rlist' = {} /\ cur' = NoCur /\ copy' = <<>> /\ run' = 0 /\ opsLeft' = 0 /\ passes' = 0
  /\ pins' = {} /\ timer' = "off" /\ bad' = FALSE /\ pollReady' = [fd \in FD |-> {}] /\ cbEn' = FALSE /\ viol' = {}
TInit == Blank /\ l = 1 /\ ended = 0

TReset == IsEv("Reset") /\ BlankP /\ ended' = 0
TBegin == IsEv("Begin") /\ Ev.be = Backend /\ UNCHANGED <<vars, ended>>
TEnd == IsEv("End") /\ Idle /\ ended = passes /\ UNCHANGED <<vars, ended>>
TNew ==
  /\ IsEv("New") /\ run = Ev.in /\ viol = {} /\ Ev.ev \in E /\ ev[Ev.ev].st # "alive"
  /\ ev' = [ev EXCEPT ![Ev.ev] = [st |-> "alive", fd |-> 0, mask |-> SetOf(Ev.m), os |-> Ev.os, en |-> FALSE]]
  /\ UNCHANGED <<recs, map, pool, ready, closed, timer, ended>> /\ UNCHANGED passVars
RetOf(op) == CASE op.k = "en" -> ev[op.e].fd # 0          \* enable() fails on an event that was never initialised
               [] op.k \in {"init", "reinit"} -> ~ev[op.e].en   \* initialize() refuses while enabled
               [] OTHER -> TRUE
TOp ==
  /\ IsEv("Op") /\ run = Ev.in
  /\ LET op == IF Ev.k = "init" THEN ROp(Ev.ev, Ev.fd, SetOf(Ev.m), Ev.os)     \* every initialize() is logged with conditions and mode
                ELSE Op(Ev.k, Ev.ev, Ev.fd) IN
       /\ Ev.ret = RetOf(op)
       /\ IF run = 0 THEN MainOp(op) ELSE CbOp(op)
  /\ UNCHANGED ended
TReady == IsEv("Ready") /\ SetReady(Ev.fd, SetOf(Ev.s)) /\ UNCHANGED ended
TCb ==                                            \* a callback: the dispatcher reaches this event and fires it
  /\ IsEv("Cb") /\ Ev.p = passes /\ Sub(Ev.ev)
  /\ run' = Ev.ev /\ cur.mask = SetOf(Ev.m) /\ cbEn' = Ev.en
  /\ UNCHANGED ended
TRet == IsEv("Ret") /\ run = Ev.ev /\ CbReturn /\ UNCHANGED ended
TTimer == IsEv("TimerCb") /\ Ev.p = passes /\ TimerCb /\ UNCHANGED ended      \* the timer's callback (before any descriptor is served)
TTimerRet == IsEv("TimerRet") /\ run = TIMER /\ CbReturn /\ UNCHANGED ended
Observed(st) ==                                   \* existence and isEnabled() of every slot (not compared on closed descriptors)
  \A i \in 1..Len(st) :
     /\ (ev'[i].st = "alive") = st[i].a
     /\ ev'[i].st = "alive" /\ (ev'[i].fd = 0 \/ ~closed'[ev'[i].fd]) => ev'[i].en = st[i].en
TPassEnd ==
  /\ IsEv("PassEnd") /\ Ev.p = passes /\ ended = passes - 1 /\ ended' = passes
  /\ EndPass
  /\ Observed(Ev.st)
\* silent steps of the loop
SPoll == InPass /\ Log[l].p = passes + 1 /\ ended = passes /\ Poll /\ Silent
SNextFd == InPass /\ DoNextFd /\ Silent
SSkip == InPass /\ (\E e \in E : Sub(e) /\ run' = 0) /\ Silent
SFinish == InPass /\ FinishFd /\ Silent

TNext == TReset \/ TBegin \/ TEnd \/ TNew \/ TOp \/ TReady \/ TCb \/ TRet \/ TTimer \/ TTimerRet \/ TPassEnd \/ SPoll \/ SNextFd \/ SSkip \/ SFinish
TSpec == TInit /\ [][TNext]_tvars

Progress == TLCSet(42, IF l > TLCGet(42) THEN l ELSE TLCGet(42))
Accepted == IF TLCGet(42) = Len(Log) + 1 THEN TRUE ELSE PrintT(<<"MAXPOS", TLCGet(42), Len(Log)>>) /\ FALSE
=============================================================================
