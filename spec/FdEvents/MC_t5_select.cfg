CONSTANTS
  E = {1, 2}
  FD = {1, 2}
  Backend = "select"
  Fix6 = TRUE
  Fix7 = TRUE
  Fix8 = TRUE
  OneShotLate = FALSE
  Masks <- RMasks
  OpKinds <- OpsEverything
  MaxOps = 1
  MaxPass = 2
SPECIFICATION MCSpec
INVARIANTS TypeOK OnlyEnabledFires ReadyMatch OneShotDisabledInCallback NoUseOfFreed NoException RefCountsExact PoolSane
CHECK_DEADLOCK FALSE
