CONSTANTS
  E = {1, 2, 3}
  FD = {1, 2, 3}
  Backend = "epoll"
  Fix6 = TRUE
  Fix7 = FALSE
  Fix8 = TRUE
  OneShotLate = FALSE
  Masks <- OnlyR
  OpKinds <- OpsInit
  MaxOps = 3
  MaxPass = 1
SPECIFICATION ReuseSpec
INVARIANTS ReadyMatch
CHECK_DEADLOCK FALSE
