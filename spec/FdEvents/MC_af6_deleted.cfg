CONSTANTS
  E = {1, 2}
  FD = {1, 2}
  Backend = "select"
  Fix6 = FALSE
  Fix7 = TRUE
  Fix8 = TRUE
  OneShotLate = FALSE
  Masks <- OnlyR
  OpKinds <- OpsBasic
  MaxOps = 1
  MaxPass = 1
SPECIFICATION MCSpec
INVARIANTS NoUseOfFreed
CHECK_DEADLOCK FALSE
