CONSTANTS
  E = {1, 2, 3}
  FD = {1, 2}
  Backend = "epoll"
  Fix6 = TRUE
  Fix7 = TRUE
  Fix8 = TRUE
  OneShotLate = FALSE
  Masks = {{"R"}}
  OpKinds = {"en", "dis", "del"}
  MaxOps = 1
  MaxPass = 1
  InitMode = "rich-ready"
  Depth = 99
SPECIFICATION GSpec
CONSTRAINT Emit
CHECK_DEADLOCK FALSE
