---------------------------- MODULE Gen_FdEvents ----------------------------
(* Scenario generator for C03.  Behaviours of FdEvents (intended behaviour) are recorded in hist: the initial   *)
(* configuration, the operations at main level, the readiness changes, the polls, every callback and the       *)
(* operations it performs.  checks/c03.py turns a behaviour into a scenario (set-up, per-pass gaps, script of    *)
(* the j-th invocation of every event) that the driver executes on both real back-ends.                         *)
(*   BFS ("rich-ready"):  the initial state is a complete configuration (every event initialised on some         *)
(*                       descriptor, enabled or not, every descriptor ready); all behaviours of MaxPass passes   *)
(*                       are emitted.                                                                            *)
(*   -simulate ("rich-any"): random walks from an arbitrary configuration (any readiness, events possibly not   *)
(*                       initialised), with operations and readiness changes between passes.                     *)
EXTENDS FdEvents, Json
CONSTANTS InitMode,     \* "empty" | "rich-ready" | "rich-any"
          Depth
VARIABLES hist, ev0
gvars == <<vars, hist, ev0>>
H(x) == hist' = Append(hist, x) /\ ev0' = ev0
RECURSIVE SortSlots(_)
SortSlots(S) == IF S = {} THEN <<>> ELSE LET m == CHOOSE x \in S : \A y \in S : x <= y IN <<m>> \o SortSlots(S \ {m})
OpRec(in, op) == [t |-> "op", in |-> in, k |-> op.k, e |-> op.e, fd |-> op.fd, m |-> op.m, os |-> op.os]

\* a complete configuration: event e is initialised on cfg[e].fd (0 = not) and enabled iff cfg[e].en
RichInit ==
  /\ ev \in [E -> {[st |-> "alive", fd |-> f, mask |-> m, os |-> o, en |-> n] :
                     f \in (IF InitMode = "rich-any" THEN FD \cup {0} ELSE FD), m \in Masks, o \in BOOLEAN, n \in BOOLEAN}]
  /\ \A e \in E : ev[e].en => ev[e].fd # 0
  /\ \A a, b \in E : a < b => ev[a].fd <= ev[b].fd      \* slots are interchangeable
  /\ map = [fd \in FD |-> IF \E e \in E : ev[e].fd = fd THEN fd ELSE 0]
  /\ recs = [r \in RID |-> IF map[r] = 0 THEN DeadRec
                           ELSE [live |-> TRUE, fd |-> r, ref |-> Cardinality({e \in E : ev[e].fd = r}),
                                 subs |-> SortSlots({e \in E : ev[e].fd = r /\ ev[e].en})]]   \* the driver enables in slot order
  /\ pool = <<>>
  /\ (IF InitMode = "rich-any" THEN ready \in [FD -> SUBSET Conds] ELSE ready = [fd \in FD |-> Conds]) /\ closed = [fd \in FD |-> FALSE]
  /\ phase = "idle" /\ rlist = {} /\ cur = NoCur /\ copy = <<>> /\ run = 0 /\ opsLeft = 0 /\ passes = 0
  /\ pins = {} /\ timer = "off" /\ bad = FALSE /\ pollReady = [fd \in FD |-> {}] /\ cbEn = FALSE /\ viol = {}
GInit == (IF InitMode = "empty" THEN Init ELSE RichInit) /\ hist = <<>> /\ ev0 = [ev |-> ev, ready |-> ready]

MainOK == InitMode = "empty" \/ (InitMode = "rich-any" /\ passes > 0)
GMainOp == MainOK /\ \E op \in MainOps : MainOp(op) /\ H(OpRec(0, op))
GSetReady == MainOK /\ \E fd \in FD, S \in SUBSET Conds : SetReady(fd, S) /\ ready[fd] # S /\ H([t |-> "ready", fd |-> fd, s |-> S])
GPoll == Poll /\ H([t |-> "poll"])
GTimer == TimerCb /\ H([t |-> "timer"])
GNextFd == DoNextFd /\ UNCHANGED <<hist, ev0>>
GSub == \E e \in E : Sub(e) /\ IF run' # 0 THEN H([t |-> "cb", e |-> e]) ELSE UNCHANGED <<hist, ev0>>
GCbOp == \E op \in Ops : CbOp(op) /\ H(OpRec(run, op))
GRet == CbReturn /\ UNCHANGED <<hist, ev0>>
GFinish == FinishFd /\ UNCHANGED <<hist, ev0>>
GEndPass == EndPass /\ UNCHANGED <<hist, ev0>>
GNext == GMainOp \/ GSetReady \/ GPoll \/ GTimer \/ GNextFd \/ GSub \/ GCbOp \/ GRet \/ GFinish \/ GEndPass
GSpec == GInit /\ [][GNext]_gvars

Done == passes = MaxPass /\ phase = "idle" /\ run = 0
Emit == IF Done \/ Len(hist) >= Depth
        THEN (IF passes > 0 /\ phase = "idle" /\ (\E i \in 1..Len(hist) : hist[i].t \in {"cb", "timer"})
              THEN PrintT("BEH " \o ToJson([init |-> ev0, hist |-> hist])) ELSE TRUE) /\ FALSE
        ELSE TRUE
=============================================================================
