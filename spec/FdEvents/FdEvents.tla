------------------------------ MODULE FdEvents ------------------------------
(* C03 - descriptor events of cpp-tbox (modules/event/engines/{epoll,select}).                         *)
(*                                                                                                      *)
(* Implementation-shaped model of one loop with its descriptor events:                                  *)
(*   ev[e]     an FdEvent object: state (none / alive / dead), descriptor it is initialised on (0 =     *)
(*             not initialised), subscribed conditions, one-shot flag, is_enabled_                      *)
(*   recs[r]   a per-descriptor shared record (EpollFdSharedData / SelectFdSharedData) living in a      *)
(*             block r of the loop's ObjectPool: live?, descriptor, reference count, enabled events     *)
(*   map       fd_data_map_ : descriptor -> block (0 = absent)                                          *)
(*   pool      free list of the ObjectPool (LIFO): parked blocks                                        *)
(*   ready     the environment: which conditions each descriptor is ready for; closed descriptors       *)
(* One loop pass = Poll (latch the ready descriptors: epoll latches the record block, select the        *)
(* descriptor number) ; for every latched entry NextFd (copy the subscriber list) ; for every           *)
(* element of the copy Sub (fire or skip) ; a fired callback runs a script of operations on ANY event   *)
(* (CbOp ... CbReturn) ; FinishFd ; EndPass.  A one-shot timer armed by the scenario is due at the     *)
(* next poll; its callback (TimerCb ... CbReturn, same operation vocabulary) runs after Poll and        *)
(* before any descriptor is served, as handleExpiredTimers() does in both loops.                        *)
(*                                                                                                      *)
(* The order in which latched descriptors are served is left open (the statement does not fix it).     *)
(* The subscribers of ONE descriptor are served in the order in which they were enabled (subs is a       *)
(* sequence: enable() appends, disable() erases keeping the order of the others; the copy is walked      *)
(* front to back): the statement makes the two back-ends deliver the same callbacks whenever the order   *)
(* of DESCRIPTORS does not matter - in particular in every single-descriptor scenario - so the order of  *)
(* subscribers is part of the contract both back-ends share, and enable order is what both implement.    *)
(*                                                                                                      *)
(* Fix6/Fix7/Fix8 = TRUE model the intended (repaired) behaviour; FALSE models the code as found:       *)
(*   Fix6  dispatch re-validates every element of the copy against the live subscriber list (and the    *)
(*         select back-end holds a reference on the record while it serves it)                          *)
(*   Fix7  the epoll back-end holds a reference on every latched record for the whole pass              *)
(*   Fix8  the select back-end looks the record up with find() and skips a descriptor without record    *)
(* OneShotLate = TRUE is a mutant (one-shot disables itself after the callback) used to show that       *)
(* OneShotDisabledInCallback is not vacuous.                                                            *)
(* The properties are the INVARIANTS at the end; no action's enabling condition encodes them: a step    *)
(* that the property forbids is taken and recorded in the ghost variable viol.                          *)
EXTENDS Naturals, FiniteSets, Sequences, TLC

CONSTANTS E,            \* event slots, e.g. {1,2,3}
          FD,           \* descriptors, e.g. {1,2}
          Backend,      \* "epoll" or "select"
          Fix6, Fix7, Fix8, OneShotLate,
          Masks,        \* subscribed-condition sets an event may have, e.g. {{"R"},{"W"},{"R","W"}}
          OpKinds,      \* operation kinds usable in scripts / between passes: subset of
                        \* {"en","dis","del","init","reinit","close","arm"}
          MaxOps,       \* operations per callback
          MaxPass       \* loop passes

VARIABLES ev, recs, map, pool, ready, closed,
          phase,        \* "idle" | "pass"
          rlist,        \* latched entries of this pass not served yet: [fd, mask, rec]
          cur,          \* entry being served (NoCur = none)
          copy,         \* rest of the subscriber-list copy (sequence) not visited yet
          run,          \* event whose callback is running (0 = none)
          opsLeft, passes,
          pins,         \* descriptors whose record is referenced by the dispatcher
          timer,        \* the scenario's one-shot timer: "off" | "armed" (due at the next poll) | "due" (runs first in this pass)
          bad,          \* this pass is the select pass that only found an invalid descriptor (EBADF)
          pollReady,    \* ghost: readiness at the last Poll
          cbEn,         \* ghost: is_enabled_ of the running event when its callback started
          viol          \* ghost: set of forbidden things that happened

vars == <<ev, recs, map, pool, ready, closed, phase, rlist, cur, copy, run, opsLeft, passes, pins, timer, bad, pollReady, cbEn, viol>>

RID == FD                               \* pool blocks: never more than one live record per descriptor
Conds == UNION Masks                    \* conditions that matter in this model
NoCur == [fd |-> 0, mask |-> {}, rec |-> 0]
TIMER == 1000                           \* value of run while the timer's callback is running
DeadRec == [live |-> FALSE, fd |-> 0, ref |-> 0, subs |-> <<>>]
Range(s) == {s[i] : i \in 1..Len(s)}
Without(s, e) == SelectSeq(s, LAMBDA x : x # e)      \* vector::erase keeps the order of the others
NoEv == [st |-> "none", fd |-> 0, mask |-> {}, os |-> FALSE, en |-> FALSE]

(* ------------------------------ the heap: events, records, map, pool ------------------------------ *)
Heap == [ev |-> ev, recs |-> recs, map |-> map, pool |-> pool]
SetHeap(h) == ev' = h.ev /\ recs' = h.recs /\ map' = h.map /\ pool' = h.pool

InPool(h, r) == \E i \in 1..Len(h.pool) : h.pool[i] = r
Alloc(h, fd) ==                                   \* ObjectPool::alloc + fd_data_map_.insert
  LET r == IF h.pool # <<>> THEN Head(h.pool) ELSE CHOOSE x \in RID : ~h.recs[x].live /\ ~InPool(h, x)
  IN [h EXCEPT !.pool = IF h.pool # <<>> THEN Tail(h.pool) ELSE h.pool,
               !.recs[r] = [live |-> TRUE, fd |-> fd, ref |-> 0, subs |-> <<>>],
               !.map[fd] = r]
RefFd(h, fd) ==                                   \* refFdSharedData(fd)
  LET h1 == IF h.map[fd] = 0 THEN Alloc(h, fd) ELSE h
  IN [h1 EXCEPT !.recs[h1.map[fd]].ref = @ + 1]
UnrefFd(h, fd) ==                                 \* unrefFdSharedData(fd)
  IF fd = 0 \/ h.map[fd] = 0 THEN h
  ELSE LET r == h.map[fd] IN
       IF h.recs[r].ref > 1 THEN [h EXCEPT !.recs[r].ref = @ - 1]
       ELSE [h EXCEPT !.recs[r] = DeadRec, !.map[fd] = 0, !.pool = <<r>> \o @]

HEnable(h, e) ==
  LET v == h.ev[e] IN
  IF v.fd = 0 \/ v.en THEN h
  ELSE [h EXCEPT !.ev[e].en = TRUE, !.recs[h.map[v.fd]].subs = Append(@, e)]
HDisable(h, e) ==
  LET v == h.ev[e] IN
  IF v.fd = 0 \/ ~v.en THEN h
  ELSE [h EXCEPT !.ev[e].en = FALSE, !.recs[h.map[v.fd]].subs = Without(@, e)]
HDestroy(h, e) ==
  LET h1 == HDisable(h, e)
      h2 == UnrefFd(h1, h1.ev[e].fd)
  IN [h2 EXCEPT !.ev[e].st = "dead"]
HInit(h, e, fd) ==                                \* initialize(fd, same conditions, same mode)
  LET v == h.ev[e] IN
  IF v.en \/ v.fd = fd THEN h
  ELSE LET h1 == RefFd(UnrefFd(h, v.fd), fd) IN [h1 EXCEPT !.ev[e].fd = fd]
HReinit(h, e, fd, m, o) ==                        \* initialize(fd, conditions m, mode o) on an existing event object
  LET v == h.ev[e] IN
  IF v.en THEN h                                  \* refused while enabled
  ELSE LET h1 == IF v.fd = fd THEN h ELSE RefFd(UnrefFd(h, v.fd), fd)
       IN [h1 EXCEPT !.ev[e].fd = fd, !.ev[e].mask = m, !.ev[e].os = o]

(* ------------------------------------------ operations ------------------------------------------- *)
ROp(e, fd, m, o) == [k |-> "reinit", e |-> e, fd |-> fd, m |-> m, os |-> o]
Op(k, e, fd) == [k |-> k, e |-> e, fd |-> fd, m |-> {}, os |-> FALSE]
OpsOf(K) == {Op(k, e, 0) : k \in K \cap {"en", "dis", "del"}, e \in E}
            \cup {Op("init", e, fd) : e \in (IF "init" \in K THEN E ELSE {}), fd \in FD}
            \cup {ROp(e, fd, m, o) : e \in (IF "reinit" \in K THEN E ELSE {}), fd \in FD, m \in Masks, o \in BOOLEAN}
            \cup {Op("close", 0, fd) : fd \in (IF "close" \in K THEN FD ELSE {})}
            \cup {Op("arm", 0, 0) : x \in (IF "arm" \in K THEN {0} ELSE {})}
Ops == OpsOf(OpKinds)                       \* usable inside callbacks
MainOps == OpsOf(OpKinds \cup {"init"})     \* usable between passes (set-up needs initialize)

\* what a harness may legally call: methods of live objects only; an event is not deleted from inside its own callback
\* (TBOX_ASSERT(cb_level_ == 0)); a descriptor is closed once; the timer is armed when it is not pending
Legal(op, runner) ==
  CASE op.k \in {"en", "dis", "init", "reinit"} -> ev[op.e].st = "alive"
    [] op.k = "arm" -> timer = "off"
    [] op.k = "del" -> ev[op.e].st = "alive" /\ op.e # runner
    [] op.k = "close" -> ~closed[op.fd]

Apply(op) ==
  CASE op.k = "en" -> SetHeap(HEnable(Heap, op.e)) /\ UNCHANGED <<ready, closed, timer>>
    [] op.k = "dis" -> SetHeap(HDisable(Heap, op.e)) /\ UNCHANGED <<ready, closed, timer>>
    [] op.k = "del" -> SetHeap(HDestroy(Heap, op.e)) /\ UNCHANGED <<ready, closed, timer>>
    [] op.k = "init" -> SetHeap(HInit(Heap, op.e, op.fd)) /\ UNCHANGED <<ready, closed, timer>>
    [] op.k = "reinit" ->
         \* the mode is recorded as given.  One case is left open because the statement is silent about it: an event that was
         \* initialised as one-shot before and is re-initialised as persistent may stay one-shot (the code never clears
         \* is_stop_after_trigger_) or become persistent
         /\ \E o \in (IF ev[op.e].fd # 0 /\ ev[op.e].os /\ ~op.os THEN BOOLEAN ELSE {op.os}) :
               SetHeap(HReinit(Heap, op.e, op.fd, op.m, o))
         /\ UNCHANGED <<ready, closed, timer>>
    [] op.k = "arm" -> timer' = "armed" /\ UNCHANGED <<ev, recs, map, pool, ready, closed>>
    [] op.k = "close" -> closed' = [closed EXCEPT ![op.fd] = TRUE] /\ ready' = [ready EXCEPT ![op.fd] = {}]
                         /\ UNCHANGED <<ev, recs, map, pool, timer>>

(* -------------------------------------------- initial -------------------------------------------- *)
\* every slot holds a freshly created event (conditions and mode chosen freely), nothing initialised
Init ==
  /\ ev \in [E -> {[st |-> "alive", fd |-> 0, mask |-> m, os |-> o, en |-> FALSE] : m \in Masks, o \in BOOLEAN}]
  /\ recs = [r \in RID |-> DeadRec] /\ map = [fd \in FD |-> 0] /\ pool = <<>>
  /\ ready = [fd \in FD |-> {}] /\ closed = [fd \in FD |-> FALSE]
  /\ phase = "idle" /\ rlist = {} /\ cur = NoCur /\ copy = <<>> /\ run = 0 /\ opsLeft = 0 /\ passes = 0
  /\ pins = {} /\ timer = "off" /\ bad = FALSE /\ pollReady = [fd \in FD |-> {}] /\ cbEn = FALSE /\ viol = {}

(* ---------------------------------- between passes (main level) ---------------------------------- *)
Idle == phase = "idle" /\ run = 0 /\ viol = {}
passVars == <<phase, rlist, cur, copy, run, opsLeft, passes, pins, bad, pollReady, cbEn, viol>>

NewEvent(e, m, o) ==                              \* Loop::newFdEvent in a free slot
  /\ Idle /\ ev[e].st # "alive"
  /\ ev' = [ev EXCEPT ![e] = [st |-> "alive", fd |-> 0, mask |-> m, os |-> o, en |-> FALSE]]
  /\ UNCHANGED <<recs, map, pool, ready, closed, timer>> /\ UNCHANGED passVars
MainOp(op) == Idle /\ Legal(op, 0) /\ Apply(op) /\ UNCHANGED passVars
SetReady(fd, S) ==                                \* the environment: bytes arrive / are consumed, buffer space fills / drains
  /\ Idle /\ ~closed[fd] /\ ready' = [ready EXCEPT ![fd] = S]
  /\ UNCHANGED <<ev, recs, map, pool, closed, timer>> /\ UNCHANGED passVars

(* -------------------------------------------- one pass -------------------------------------------- *)
Interest(fd) == IF map[fd] = 0 THEN {} ELSE UNION {ev[e].mask : e \in Range(recs[map[fd]].subs)}
BadFds == {fd \in FD : closed[fd] /\ Interest(fd) # {}}

\* pin (take a dispatcher reference on) the records of a set of descriptors / drop them again
RECURSIVE PinAll(_, _), UnpinAll(_, _)
PinAll(h, S) == IF S = {} THEN h ELSE LET fd == CHOOSE x \in S : TRUE IN PinAll(RefFd(h, fd), S \ {fd})
UnpinAll(h, S) == IF S = {} THEN h ELSE LET fd == CHOOSE x \in S : \A y \in S : x <= y IN UnpinAll(UnrefFd(h, fd), S \ {fd})

RECURSIVE DisAll(_, _)
DisAll(h, S) == IF S = {} THEN h ELSE LET e == CHOOSE x \in S : TRUE IN DisAll(HDisable(h, e), S \ {e})

Poll ==                                           \* epoll_wait() / select() returned
  /\ Idle /\ passes < MaxPass
  /\ passes' = passes + 1 /\ phase' = "pass" /\ pollReady' = ready
  /\ timer' = IF timer = "armed" THEN "due" ELSE timer
  /\ IF Backend = "select" /\ BadFds # {}
     THEN \* select() fails with EBADF: no descriptor is served in this pass (timers still run); at its end the events on
          \* invalid descriptors are disabled (removeInvalidFds)
          bad' = TRUE /\ rlist' = {} /\ pins' = pins /\ UNCHANGED <<ev, recs, map, pool>>
     ELSE LET L == {fd \in FD : ~closed[fd] /\ (ready[fd] \cap Interest(fd)) # {}} IN
          /\ bad' = FALSE
          /\ rlist' = {[fd |-> fd, mask |-> ready[fd] \cap Interest(fd), rec |-> IF Backend = "epoll" THEN map[fd] ELSE 0] : fd \in L}
          \* the epoll loop takes its references before anything else runs in the pass (timers included)
          /\ IF Backend = "epoll" /\ Fix7 THEN pins' = L /\ SetHeap(PinAll(Heap, L))
                                           ELSE pins' = pins /\ UNCHANGED <<ev, recs, map, pool>>
  /\ UNCHANGED <<ready, closed, cur, copy, run, opsLeft, cbEn, viol>>

TimerCb ==                                        \* handleExpiredTimers(): the due timer's callback runs before any descriptor is served
  /\ phase = "pass" /\ timer = "due" /\ run = 0 /\ cur = NoCur /\ viol = {}
  /\ timer' = "off" /\ run' = TIMER /\ opsLeft' = MaxOps
  /\ UNCHANGED <<ev, recs, map, pool, ready, closed, phase, rlist, cur, copy, passes, pins, bad, pollReady, cbEn, viol>>

Flag(x) == viol' = viol \cup {x}

NextFd(x) ==                                      \* serve the next latched descriptor
  /\ phase = "pass" /\ cur = NoCur /\ run = 0 /\ viol = {} /\ timer # "due" /\ x \in rlist
  /\ rlist' = rlist \ {x}
  /\ IF Backend = "epoll"
     THEN IF ~recs[x.rec].live
          THEN Flag("uaf-record") /\ UNCHANGED <<cur, copy, pins, ev, recs, map, pool>>       \* latched block is parked in the pool
          ELSE /\ cur' = x /\ copy' = recs[x.rec].subs                                         \* (the block may belong to another descriptor now)
               /\ UNCHANGED <<pins, ev, recs, map, pool, viol>>
     ELSE IF map[x.fd] = 0
          THEN IF Fix8 THEN UNCHANGED <<cur, copy, pins, ev, recs, map, pool, viol>>            \* find(): no record, skip
                       ELSE Flag("exception") /\ UNCHANGED <<cur, copy, pins, ev, recs, map, pool>>   \* at(): std::out_of_range
          ELSE /\ cur' = [x EXCEPT !.rec = map[x.fd]] /\ copy' = recs[map[x.fd]].subs
               /\ IF Fix6 THEN pins' = pins \cup {x.fd} /\ SetHeap(RefFd(Heap, x.fd))
                          ELSE UNCHANGED <<pins, ev, recs, map, pool>>
               /\ UNCHANGED viol
  /\ UNCHANGED <<ready, closed, phase, run, opsLeft, passes, timer, bad, pollReady, cbEn>>

\* onEvent(e): the event is called when it subscribed to one of the reported conditions
Fires(e) == (ev[e].mask \cap cur.mask) # {}
FireFlags(e) == (IF ~ev[e].en THEN {"fire-disabled"} ELSE {})
                \cup (IF ev[e].fd = 0 \/ (ev[e].mask \cap pollReady[ev[e].fd]) = {} THEN {"fire-notready"} ELSE {})
Fire(e) ==
  LET h == IF ev[e].os /\ ~OneShotLate THEN HDisable(Heap, e) ELSE Heap IN
  /\ SetHeap(h) /\ run' = e /\ opsLeft' = MaxOps /\ cbEn' = h.ev[e].en
  /\ viol' = viol \cup FireFlags(e) \cup (IF ev[e].os /\ h.ev[e].en THEN {"oneshot-enabled"} ELSE {})

Sub(e) ==                                         \* next element of the copy
  /\ cur # NoCur /\ run = 0 /\ viol = {} /\ copy # <<>> /\ e = Head(copy)
  /\ copy' = Tail(copy)
  /\ UNCHANGED <<ready, closed, phase, rlist, cur, passes, pins, timer, bad, pollReady>>
  /\ IF Fix6
     THEN IF ~recs[cur.rec].live
          THEN Flag("uaf-record") /\ UNCHANGED <<ev, recs, map, pool, run, opsLeft, cbEn>>     \* live list read from a parked block
          ELSE IF e \in Range(recs[cur.rec].subs) /\ Fires(e) THEN Fire(e)
               ELSE UNCHANGED <<ev, recs, map, pool, run, opsLeft, cbEn, viol>>
     ELSE IF ev[e].st # "alive"
          THEN Flag("uaf-event") /\ UNCHANGED <<ev, recs, map, pool, run, opsLeft, cbEn>>      \* onEvent() on a deleted object
          ELSE IF Fires(e) THEN Fire(e)
               ELSE UNCHANGED <<ev, recs, map, pool, run, opsLeft, cbEn, viol>>

CbOp(op) ==                                       \* one operation of the running callback's script
  /\ run # 0 /\ opsLeft > 0 /\ viol = {} /\ Legal(op, run) /\ Apply(op)
  /\ opsLeft' = opsLeft - 1
  /\ UNCHANGED <<phase, rlist, cur, copy, run, passes, pins, bad, pollReady, cbEn, viol>>
CbReturn ==
  /\ run # 0 /\ viol = {} /\ run' = 0 /\ opsLeft' = 0 /\ cbEn' = FALSE
  /\ IF OneShotLate /\ run \in E /\ ev[run].os /\ ev[run].st = "alive" THEN SetHeap(HDisable(Heap, run)) ELSE UNCHANGED <<ev, recs, map, pool>>
  /\ UNCHANGED <<ready, closed, phase, rlist, cur, copy, passes, pins, timer, bad, pollReady, viol>>

FinishFd ==
  /\ cur # NoCur /\ run = 0 /\ viol = {} /\ copy = <<>>
  /\ cur' = NoCur
  /\ IF Backend = "select" /\ Fix6 THEN pins' = pins \ {cur.fd} /\ SetHeap(UnrefFd(Heap, cur.fd))
                                    ELSE UNCHANGED <<pins, ev, recs, map, pool>>
  /\ UNCHANGED <<ready, closed, phase, rlist, copy, run, opsLeft, passes, timer, bad, pollReady, cbEn, viol>>
EndPass ==
  /\ phase = "pass" /\ cur = NoCur /\ rlist = {} /\ run = 0 /\ viol = {} /\ timer # "due"
  /\ phase' = "idle" /\ pins' = {} /\ bad' = FALSE
  /\ IF bad THEN SetHeap(DisAll(Heap, UNION {Range(recs[map[fd]].subs) : fd \in {f \in FD : closed[f] /\ map[f] # 0}}))   \* removeInvalidFds()
            ELSE SetHeap(UnpinAll(Heap, pins))
  /\ pollReady' = [fd \in FD |-> {}]
  /\ UNCHANGED <<ready, closed, rlist, cur, copy, run, opsLeft, passes, timer, cbEn, viol>>

(* named top-level disjuncts (TLC prints coverage per name) *)
DoMainOp == \E op \in MainOps : MainOp(op)
DoSetReady == \E fd \in FD, S \in SUBSET Conds : SetReady(fd, S)
DoNextFd == \E x \in rlist : NextFd(x)
DoSub == \E e \in E : Sub(e)
DoCbOp == \E op \in Ops : CbOp(op)
Next == Poll \/ TimerCb \/ DoMainOp \/ DoSetReady \/ DoNextFd \/ DoSub \/ DoCbOp \/ CbReturn \/ FinishFd \/ EndPass
Spec == Init /\ [][Next]_vars

(* ------------------------------------------- properties ------------------------------------------- *)
TypeOK ==
  /\ \A e \in E : ev[e].st \in {"none", "alive", "dead"} /\ ev[e].fd \in FD \cup {0} /\ ev[e].mask \subseteq Conds
                  /\ ev[e].os \in BOOLEAN /\ ev[e].en \in BOOLEAN
  /\ \A r \in RID : recs[r].live \in BOOLEAN /\ recs[r].fd \in FD \cup {0} /\ recs[r].ref \in Nat /\ Range(recs[r].subs) \subseteq E
  /\ \A fd \in FD : map[fd] \in RID \cup {0} /\ ready[fd] \subseteq Conds /\ closed[fd] \in BOOLEAN
  /\ phase \in {"idle", "pass"} /\ run \in E \cup {0, TIMER} /\ Range(copy) \subseteq E /\ pins \subseteq FD
  /\ timer \in {"off", "armed", "due"} /\ bad \in BOOLEAN

\* a callback is invoked only on an event that exists and is enabled
OnlyEnabledFires == "fire-disabled" \notin viol /\ (run \in E => ev[run].st = "alive")
\* ... and only when its descriptor was ready (at the poll of this pass) for a condition it subscribed to
ReadyMatch == "fire-notready" \notin viol
\* a one-shot event is already disabled when its callback runs
OneShotDisabledInCallback == "oneshot-enabled" \notin viol
\* no step touches a deleted event or a record parked in the pool
NoUseOfFreed == "uaf-event" \notin viol /\ "uaf-record" \notin viol
\* no step throws
NoException == "exception" \notin viol
\* reference counts are exact: one per initialised live event plus the dispatcher's own references; the record
\* exists iff the count is positive; its subscriber list is exactly the enabled events of that descriptor
RefCountsExact ==
  \A fd \in FD :
    LET n == Cardinality({e \in E : ev[e].st = "alive" /\ ev[e].fd = fd}) + (IF fd \in pins THEN 1 ELSE 0) IN
    IF n = 0 THEN map[fd] = 0
    ELSE /\ map[fd] # 0 /\ recs[map[fd]].live /\ recs[map[fd]].fd = fd /\ recs[map[fd]].ref = n
         /\ Range(recs[map[fd]].subs) = {e \in E : ev[e].st = "alive" /\ ev[e].fd = fd /\ ev[e].en}
         /\ Len(recs[map[fd]].subs) = Cardinality(Range(recs[map[fd]].subs))        \* no event twice
\* the pool holds exactly the dead blocks that were used before, each once
PoolSane == \A i, j \in 1..Len(pool) : (i # j => pool[i] # pool[j]) /\ ~recs[pool[i]].live
=============================================================================
