---------------------------- MODULE Scen_FdEvents ----------------------------
(* Order (in)dependence of scenarios, decided by the specification (statement: "for any scenario whose outcome *)
(* does not depend on the order in which ready descriptors are served within one pass, the two back-ends       *)
(* deliver the same callbacks").  Input (env SCEN): one JSON object per line                                    *)
(*   ev      [ [a, m, os] per slot ]             events created at the start (a = FALSE: slot empty)            *)
(*   setup   [op]                                 operations before the first pass                                *)
(*   gaps    [[op]]                               operations after pass 1, 2, ..  (#passes = Len(gaps))           *)
(*   ready   [[set per descriptor]]               readiness before pass 1, 2, .. (as observed on the real run)    *)
(*   scripts [ [[op]] per slot ]                  operations of the j-th callback invocation of the slot          *)
(*   tscripts [[op]]                              operations of the j-th invocation of the timer callback          *)
(* with op = [k, e, fd, m, os].  The scenario is executed on FdEvents exactly as the driver executes it on the   *)
(* real loop (an operation that is not Legal is skipped), in EVERY order of ready descriptors that               *)
(* the specification allows.  At the end of every such behaviour the outcome (per pass: callbacks with the       *)
(* reported conditions, then existence / enabledness of every event) is printed; checks/c03.py calls a           *)
(* scenario order-independent iff all its behaviours print the same outcome (callbacks compared as multisets).   *)
EXTENDS FdEvents, Json, IOUtils
Scen == ndJsonDeserialize(IOEnv.SCEN)
VARIABLES sc, stage, pos, inv, tinv, out, cbs
svars == <<vars, sc, stage, pos, inv, tinv, out, cbs>>
S == Scen[sc]
NPass == Len(S.gaps)
SetOf(s) == {s[i] : i \in 1..Len(s)}
OpOf(o) == IF o.k = "reinit" THEN ROp(o.e, o.fd, SetOf(o.m), o.os) ELSE Op(o.k, o.e, o.fd)
Keep == UNCHANGED <<sc, inv, tinv, out, cbs>>
Snapshot == [e \in E |-> IF ev[e].st # "alive" THEN "gone" ELSE IF ev[e].fd # 0 /\ closed[ev[e].fd] THEN "closed" ELSE IF ev[e].en THEN "on" ELSE "off"]

SInit ==
  /\ sc \in 1..Len(Scen)
  /\ ev = [e \in E |-> IF e <= Len(Scen[sc].ev) /\ Scen[sc].ev[e].a
                       THEN [st |-> "alive", fd |-> 0, mask |-> SetOf(Scen[sc].ev[e].m), os |-> Scen[sc].ev[e].os, en |-> FALSE] ELSE NoEv]
  /\ recs = [r \in RID |-> DeadRec] /\ map = [fd \in FD |-> 0] /\ pool = <<>>
  /\ ready = [fd \in FD |-> {}] /\ closed = [fd \in FD |-> FALSE]
  /\ phase = "idle" /\ rlist = {} /\ cur = NoCur /\ copy = <<>> /\ run = 0 /\ opsLeft = 0 /\ passes = 0
  /\ pins = {} /\ timer = "off" /\ bad = FALSE /\ pollReady = [fd \in FD |-> {}] /\ cbEn = FALSE /\ viol = {}
  /\ stage = "main" /\ pos = 1 /\ inv = [e \in E |-> 0] /\ tinv = 0 /\ out = <<>> /\ cbs = <<>>

\* one operation; "new" creates an event in a free slot; anything not applicable is skipped
DoOp(o, in) ==
  IF o.k = "new"
  THEN /\ IF ev[o.e].st # "alive"
          THEN ev' = [ev EXCEPT ![o.e] = [st |-> "alive", fd |-> 0, mask |-> SetOf(o.m), os |-> o.os, en |-> FALSE]]
          ELSE ev' = ev
       /\ UNCHANGED <<recs, map, pool, ready, closed, timer>>
  ELSE IF o.k \in {"en", "dis", "del", "init", "reinit", "close", "arm"} /\ Legal(OpOf(o), in) THEN Apply(OpOf(o))
       ELSE UNCHANGED <<ev, recs, map, pool, ready, closed, timer>>

MainList == IF passes = 0 THEN S.setup ELSE S.gaps[passes]
MainStep ==                                       \* set-up / gap operations, then the environment's readiness, then the next pass
  /\ stage = "main" /\ Idle
  /\ IF pos <= Len(MainList)
     THEN DoOp(MainList[pos], 0) /\ pos' = pos + 1 /\ stage' = stage /\ UNCHANGED passVars /\ Keep
     ELSE IF passes < NPass
          THEN /\ ready' = [fd \in FD |-> IF closed[fd] \/ fd > Len(S.ready[passes + 1]) THEN {} ELSE SetOf(S.ready[passes + 1][fd])]
               /\ stage' = "poll" /\ pos' = 1 /\ UNCHANGED <<ev, recs, map, pool, closed, timer>> /\ UNCHANGED passVars /\ Keep
          ELSE stage' = "done" /\ pos' = 1 /\ UNCHANGED vars /\ Keep
SPollStep == stage = "poll" /\ Poll /\ stage' = "pass" /\ UNCHANGED <<pos>> /\ Keep
PassOver ==                                       \* pass finished (or the select pass that only found invalid descriptors)
  /\ stage = "pass" /\ phase = "idle" /\ run = 0
  /\ out' = Append(out, [cbs |-> cbs, st |-> Snapshot]) /\ cbs' = <<>> /\ stage' = "main" /\ pos' = 1
  /\ UNCHANGED <<vars, sc, inv, tinv>>
STimer == stage = "pass" /\ TimerCb /\ tinv' = tinv + 1 /\ pos' = 1 /\ UNCHANGED <<sc, stage, inv, out, cbs>>
SNextFd == stage = "pass" /\ DoNextFd /\ UNCHANGED <<stage, pos>> /\ Keep
SSub ==
  /\ stage = "pass"
  /\ \E e \in E : /\ Sub(e)
                  /\ IF run' # 0 THEN inv' = [inv EXCEPT ![e] = @ + 1] /\ cbs' = Append(cbs, <<e, cur.mask>>) /\ pos' = 1
                                 ELSE UNCHANGED <<inv, cbs, pos>>
  /\ UNCHANGED <<sc, stage, out, tinv>>
Script == IF run = TIMER THEN (IF tinv <= Len(S.tscripts) THEN S.tscripts[tinv] ELSE <<>>)
          ELSE IF run <= Len(S.scripts) /\ inv[run] <= Len(S.scripts[run]) THEN S.scripts[run][inv[run]] ELSE <<>>
SCb ==
  /\ stage = "pass" /\ run # 0 /\ viol = {}
  /\ IF pos <= Len(Script)
     THEN /\ DoOp(Script[pos], run) /\ pos' = pos + 1
          /\ UNCHANGED <<phase, rlist, cur, copy, run, opsLeft, passes, pins, bad, pollReady, cbEn, viol, stage>> /\ Keep
     ELSE CbReturn /\ UNCHANGED <<stage, pos>> /\ Keep
SFinish == stage = "pass" /\ FinishFd /\ UNCHANGED <<stage, pos>> /\ Keep
SEndPass == stage = "pass" /\ EndPass /\ UNCHANGED <<stage, pos>> /\ Keep
SNext == MainStep \/ SPollStep \/ PassOver \/ STimer \/ SNextFd \/ SSub \/ SCb \/ SFinish \/ SEndPass
SSpec == SInit /\ [][SNext]_svars
Emit == IF stage = "done" THEN PrintT("BEH " \o ToJson([sc |-> sc, out |-> out])) /\ FALSE ELSE TRUE
=============================================================================
