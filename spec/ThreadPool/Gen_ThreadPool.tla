--------------------------- MODULE Gen_ThreadPool ---------------------------
(* Schedule generator for C05: random behaviours of the interleaving model (tlc -simulate) are printed as a  *)
(* sequence of (thread, hook point) steps plus the loop thread's calls; the driver replays each one on the    *)
(* real pool, holding every thread at its hook points until the behaviour says it is that thread's turn.      *)
EXTENDS ThreadPool, Json
CONSTANT Depth
VARIABLE hist
gvars == <<vars, hist>>
S(r, p, o) == hist' = Append(hist, [r |-> r, p |-> p, o |-> o])
None2 == [k |-> "none"]
GInit == Init /\ hist = <<>>
W(w) == ToString(w)
\* Only points OUTSIDE the pool's mutex are scheduling points (a thread held at a point inside the mutex would block every
\* other thread that needs it): the loop thread's calls, its notify points, and the workers' loop top / after-pop /
\* body begin / body end / before-erase / leaving points.  The order of the critical sections follows from them.
GNext ==
  \/ MInitBegin /\ S("M", "call", [k |-> "init", min |-> MinT, max |-> MaxT])
  \/ MInitSpawn /\ UNCHANGED hist
  \/ MInitEnd /\ UNCHANGED hist
  \/ MInitFlag /\ UNCHANGED hist
  \/ MExecBegin /\ UNCHANGED hist
  \/ \E t \in Tasks, lvl \in Levels, cb \in BOOLEAN : MExecPush(t, lvl, cb) /\ S("M", "call", [k |-> "exec", t |-> t, lvl |-> lvl, cb |-> cb])
  \/ MNotifyOne /\ S("M", "tp.exec.unlocked", None2)
  \/ \E t \in Tasks : MStatus(t) /\ S("M", "call", [k |-> "status", t |-> t])
  \/ \E t \in Tasks : MCancel(t) /\ S("M", "call", [k |-> "cancel", t |-> t])
  \/ MCleanupCollect /\ S("M", "call", [k |-> "cleanup"])
  \/ MCleanupFlag /\ UNCHANGED hist
  \/ MCleanupNotify /\ S("M", "tp.cleanup.notified", None2)
  \/ MCleanupJoin /\ UNCHANGED hist
  \/ MRunClosure /\ S("M", "call", [k |-> "spin"])
  \/ \E w \in Workers :
       \/ WTop(w) /\ S(W(w), "tp.w.loop", None2)
       \/ WPred(w) /\ UNCHANGED hist
       \/ WBlock(w) /\ UNCHANGED hist
       \/ WReacquire(w) /\ UNCHANGED hist
       \/ WPop(w) /\ UNCHANGED hist
       \/ WMark(w) /\ UNCHANGED hist
       \/ WBodyBegin(w) /\ S(W(w), "tp.w.body_begin", None2)
       \/ WBodyEnd(w) /\ S(W(w), "tp.w.body_end", None2)
       \/ WErase(w) /\ S(W(w), "tp.w.pre_erase", None2)
       \/ WLeave(w) /\ S(W(w), "tp.w.leaving", None2)
       \/ WExit2(w) /\ UNCHANGED hist
GSpec == GInit /\ [][GNext]_gvars
Emit == IF Len(hist) >= Depth THEN PrintT("BEH " \o ToJson(hist)) /\ FALSE ELSE TRUE
=============================================================================
