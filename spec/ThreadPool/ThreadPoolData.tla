--------------------------- MODULE ThreadPoolData ---------------------------
(* C05 - the thread pool's shared data and what happens to it in each critical section of            *)
(* thread_pool.cpp, one action per section (the sections are delimited by the CPP_TBOX_VERIF_POINT     *)
(* hooks, whose names are given next to each action).  The module knows nothing about program           *)
(* counters, the mutex or the condition variable: ThreadPool.tla adds those for model checking, and    *)
(* Trace_ThreadPool.tla drives the same actions from events recorded at the hooks of the real code.     *)
(* The properties of C05 are invariants over this data plus ghost bookkeeping about every task.         *)
EXTENDS Naturals, Sequences, FiniteSets, TLC
CONSTANTS Tasks, Workers, Levels     \* task ids, worker (thread token) ids, priority levels 0 (first) .. n

None == 0     \* "no task"

VARIABLES
  minT, maxT,     \* configured limits
  ready,          \* is_ready
  undo,           \* undo[lvl] : FIFO of waiting task ids           (undo_tasks_token + undo_tasks_cabinet)
  doing,          \* set of task ids                                (doing_tasks_token)
  idle,           \* workers counted in idle_thread_num
  threads,        \* workers in threads_cabinet
  stopFlag,       \* all_threads_stop_flag
  exiting,        \* workers that decided to exit (no more work) and have not yet left the cabinet
  collected,      \* workers taken over by cleanup() for joining
  left,           \* workers whose thread function is past its last hook
  (* ghost history of every task *)
  accepted, hasCb, taken, began, ended, erased, cancelledOk, dropped, cbRan,
  pendSpawn,      \* workers spawned in the critical section that is still open (execute / initialize)
  insec,          \* workers still inside the critical section in which they popped a task (trace validation only)
  lastQ           \* last status / cancel answer: [k, t, ans, would]
dvars == <<minT, maxT, ready, undo, doing, idle, threads, stopFlag, exiting, collected, left,
           accepted, hasCb, taken, began, ended, erased, cancelledOk, dropped, cbRan, pendSpawn, insec, lastQ>>

DInit ==
  /\ minT = 0 /\ maxT = 0 /\ ready = FALSE /\ undo = [l \in Levels |-> <<>>] /\ doing = {} /\ idle = {} /\ threads = {}
  /\ stopFlag = FALSE /\ exiting = {} /\ collected = {} /\ left = {}
  /\ accepted = {} /\ hasCb = {} /\ taken = [t \in Tasks |-> None] /\ began = [t \in Tasks |-> 0] /\ ended = {} /\ erased = {}
  /\ cancelledOk = {} /\ dropped = {} /\ cbRan = [t \in Tasks |-> 0] /\ pendSpawn = {} /\ insec = {} /\ lastQ = [k |-> "none"]

Range(s) == {s[i] : i \in 1..Len(s)}
Waiting == UNION {Range(undo[l]) : l \in Levels}
NumWaiting == Cardinality(Waiting)
Without(s, x) == SelectSeq(s, LAMBDA y : y # x)
FirstLevel == CHOOSE l \in Levels : undo[l] # <<>> /\ \A k \in Levels : k < l => undo[k] = <<>>
HeadTask == IF Waiting = {} THEN None ELSE Head(undo[FirstLevel])
\* the answers the code computes from the data under the lock
WouldStatus(t) == IF t \in Waiting THEN "waiting" ELSE IF t \in doing THEN "executing" ELSE "notfound"
WouldCancel(t) == IF t \in doing THEN 2 ELSE IF t \in Waiting THEN 0 ELSE 1

\* is the answer consistent with the task's history at the moment it is given?
Gone(t) == t \notin accepted \/ t \in ended \/ t \in cancelledOk \/ t \in dropped
StatusOK(t, a) == /\ (a = "notfound" => Gone(t))
                  /\ (a = "waiting" => (taken[t] = None /\ t \in accepted /\ ~Gone(t)))
                  /\ (a = "executing" => (taken[t] # None /\ t \notin erased))
CancelOK(t, a) == /\ (a = 0 => (taken[t] = None /\ t \in accepted /\ ~Gone(t)))
                  /\ (a = 1 => Gone(t))
                  /\ (a = 2 => taken[t] # None)

UNCH_GHOST == UNCHANGED <<accepted, hasCb, taken, began, ended, erased, cancelledOk, dropped, cbRan, insec>>

(* ---- createWorker(): "tp.spawn" (inside the critical section of initialize() or execute()) ---- *)
DSpawn(w) ==
  /\ w \notin threads /\ w \notin left /\ w \notin collected /\ w \notin pendSpawn
  /\ threads' = threads \cup {w} /\ pendSpawn' = pendSpawn \cup {w}
  /\ UNCHANGED <<minT, maxT, ready, undo, doing, idle, stopFlag, exiting, collected, left, lastQ>> /\ UNCH_GHOST
(* ---- initialize(min, max): "tp.init" (end of its critical section; the min workers were spawned in it) ---- *)
DInitialize(mn, mx) ==
  /\ ~ready /\ mn <= mx /\ mx > 0 /\ minT' = mn /\ maxT' = mx /\ ready' = TRUE /\ stopFlag' = FALSE
  /\ Cardinality(pendSpawn) = mn /\ pendSpawn' = {}
  /\ UNCHANGED <<undo, doing, idle, threads, exiting, collected, left, lastQ>> /\ UNCH_GHOST
(* ---- execute(task, cb, prio): "tp.exec" (end of its critical section) ---- *)
\* the spawn decision of the code: one more waiting task than idle workers and room for a thread
ShouldSpawn == NumWaiting + 1 > Cardinality(idle) /\ Cardinality(threads \ pendSpawn) < maxT
DExec(t, lvl, cb) ==
  /\ ready /\ t \notin accepted /\ lvl \in Levels
  /\ undo' = [undo EXCEPT ![lvl] = Append(@, t)] /\ accepted' = accepted \cup {t}
  /\ hasCb' = IF cb THEN hasCb \cup {t} ELSE hasCb
  \* the spawn policy itself is implementation freedom (the code spawns iff ShouldSpawn): at most one new worker per execute(), never
  \* beyond the maximum; that a task is not left without anybody to run it is the separate invariant NoOrphanTask
  /\ Cardinality(pendSpawn) <= 1 /\ (pendSpawn # {} => Cardinality(threads \ pendSpawn) < maxT) /\ pendSpawn' = {}
  /\ UNCHANGED <<minT, maxT, ready, doing, idle, threads, stopFlag, exiting, collected, left, lastQ,
                 taken, began, ended, erased, cancelledOk, dropped, cbRan, insec>>
(* ---- getTaskStatus(t): "tp.status" ---- *)
DStatus(t, ans) ==
  /\ ans = WouldStatus(t) /\ lastQ' = [k |-> "status", t |-> t, ans |-> ans, ok |-> StatusOK(t, ans)]
  /\ UNCHANGED <<minT, maxT, ready, undo, doing, idle, threads, stopFlag, exiting, collected, left, pendSpawn>> /\ UNCH_GHOST
(* ---- cancel(t): "tp.cancel" ---- *)
DCancel(t, ans) ==
  /\ ans = WouldCancel(t) /\ lastQ' = [k |-> "cancel", t |-> t, ans |-> ans, ok |-> CancelOK(t, ans)]
  /\ IF ans = 0 THEN /\ undo' = [l \in Levels |-> Without(undo[l], t)] /\ cancelledOk' = cancelledOk \cup {t}
                ELSE UNCHANGED <<undo, cancelledOk>>
  /\ UNCHANGED <<minT, maxT, ready, doing, idle, threads, stopFlag, exiting, collected, left, pendSpawn,
                 accepted, hasCb, taken, began, ended, erased, dropped, cbRan, insec>>
(* ---- cleanup(), first critical section: "tp.cleanup.collect" ---- *)
DCollect(withFlag) ==     \* withFlag: the stop flag is raised inside this critical section (intended design)
  /\ ready /\ dropped' = dropped \cup Waiting /\ undo' = [l \in Levels |-> <<>>]
  /\ collected' = collected \cup threads /\ threads' = {}
  /\ stopFlag' = (stopFlag \/ withFlag)
  /\ UNCHANGED <<minT, maxT, ready, doing, idle, exiting, left, pendSpawn, lastQ,
                 accepted, hasCb, taken, began, ended, erased, cancelledOk, cbRan, insec>>
DSetFlag ==               \* "tp.cleanup.flag"
  /\ stopFlag' = TRUE
  /\ UNCHANGED <<minT, maxT, ready, undo, doing, idle, threads, exiting, collected, left, pendSpawn, lastQ>> /\ UNCH_GHOST
DJoined ==                \* "tp.cleanup.joined": every collected worker has been joined
  /\ ready /\ ready' = FALSE
  /\ UNCHANGED <<minT, maxT, undo, doing, idle, threads, stopFlag, exiting, collected, left, pendSpawn, lastQ>> /\ UNCH_GHOST
(* ---- worker, top of its loop: "tp.w.exit_decide" / "tp.w.wait" ---- *)
ExitCond(w) == Cardinality(idle) >= NumWaiting /\ Cardinality(threads) > minT
DExitDecide(w, atomic) ==   \* atomic: the worker leaves the cabinet in the same critical section (intended design)
  /\ w \notin exiting /\ w \notin idle          \* (when a worker may exit is policy: the code uses ExitCond; NoOrphanTask guards the consequence)
  /\ IF atomic THEN threads' = threads \ {w} /\ UNCHANGED exiting
               ELSE exiting' = exiting \cup {w} /\ UNCHANGED threads
  /\ UNCHANGED <<minT, maxT, ready, undo, doing, idle, stopFlag, collected, left, pendSpawn, lastQ>> /\ UNCH_GHOST
DWait(w) ==
  /\ w \notin idle /\ idle' = idle \cup {w}
  /\ UNCHANGED <<minT, maxT, ready, undo, doing, threads, stopFlag, exiting, collected, left, pendSpawn, lastQ>> /\ UNCH_GHOST
DWoken(w, flag) ==        \* "tp.w.woken": the wait returned; flag = stop flag as read by the worker (under the mutex). Why it returned
                          \* is not constrained: a timed or spurious return with nothing to do is legal (the worker finds no task and loops)
  /\ w \in idle /\ idle' = idle \ {w} /\ flag = stopFlag
  /\ UNCHANGED <<minT, maxT, ready, undo, doing, threads, stopFlag, exiting, collected, left, pendSpawn, lastQ>> /\ UNCH_GHOST
(* ---- worker takes a task: "tp.w.pop" (and "tp.w.mark", in the same critical section in the intended design) ---- *)
DPop(w, t, mark, open) ==   \* open: the critical section is still open afterwards (a "tp.w.unlocked" follows)
  /\ ~stopFlag /\ t = HeadTask /\ insec' = (IF open THEN insec \cup {w} ELSE insec)
  /\ IF t = None THEN UNCHANGED <<undo, taken, doing>>
     ELSE /\ undo' = [undo EXCEPT ![FirstLevel] = Tail(@)] /\ taken' = [taken EXCEPT ![t] = w]
          /\ doing' = IF mark THEN doing \cup {t} ELSE doing
  /\ UNCHANGED <<minT, maxT, ready, idle, threads, stopFlag, exiting, collected, left, pendSpawn, lastQ,
                 accepted, hasCb, began, ended, erased, cancelledOk, dropped, cbRan>>
DUnlocked(w) ==           \* "tp.w.unlocked": the worker has left the critical section
  /\ insec' = insec \ {w}
  /\ UNCHANGED <<minT, maxT, ready, undo, doing, idle, threads, stopFlag, exiting, collected, left, pendSpawn, lastQ,
                 accepted, hasCb, taken, began, ended, erased, cancelledOk, dropped, cbRan>>
DMark(w, t) ==
  /\ taken[t] = w /\ doing' = doing \cup {t}
  /\ UNCHANGED <<minT, maxT, ready, undo, idle, threads, stopFlag, exiting, collected, left, pendSpawn, lastQ>> /\ UNCH_GHOST
DBodyBegin(w, t) ==       \* "tp.w.body_begin" / the task body itself
  /\ taken[t] = w /\ began' = [began EXCEPT ![t] = @ + 1]
  /\ UNCHANGED <<minT, maxT, ready, undo, doing, idle, threads, stopFlag, exiting, collected, left, pendSpawn, lastQ,
                 accepted, hasCb, taken, ended, erased, cancelledOk, dropped, cbRan, insec>>
DBodyEnd(w, t) ==
  /\ taken[t] = w /\ began[t] > 0 /\ ended' = ended \cup {t}
  /\ UNCHANGED <<minT, maxT, ready, undo, doing, idle, threads, stopFlag, exiting, collected, left, pendSpawn, lastQ,
                 accepted, hasCb, taken, began, erased, cancelledOk, dropped, cbRan, insec>>
DErase(w, t) ==           \* "tp.w.erase"
  /\ taken[t] = w /\ t \in ended /\ doing' = doing \ {t} /\ erased' = erased \cup {t}
  /\ UNCHANGED <<minT, maxT, ready, undo, idle, threads, stopFlag, exiting, collected, left, pendSpawn, lastQ,
                 accepted, hasCb, taken, began, ended, cancelledOk, dropped, cbRan, insec>>
DCbRun(t) ==              \* the completion callback runs (on the loop thread)
  /\ cbRan' = [cbRan EXCEPT ![t] = @ + 1]
  /\ UNCHANGED <<minT, maxT, ready, undo, doing, idle, threads, stopFlag, exiting, collected, left, pendSpawn, lastQ,
                 accepted, hasCb, taken, began, ended, erased, cancelledOk, dropped, insec>>
DLeaving(w) ==            \* "tp.w.leaving": a worker ends its thread function (never from inside its wait)
  /\ w \notin left /\ w \notin idle /\ left' = left \cup {w}
  /\ UNCHANGED <<minT, maxT, ready, undo, doing, idle, threads, stopFlag, exiting, collected, pendSpawn, lastQ>> /\ UNCH_GHOST
DExitFree(w, found) ==    \* "tp.w.exit_free": the exiting worker takes itself out of the cabinet
  /\ w \in exiting /\ found = (w \in threads)
  /\ threads' = threads \ {w} /\ exiting' = exiting \ {w}
  /\ UNCHANGED <<minT, maxT, ready, undo, doing, idle, stopFlag, collected, left, pendSpawn, lastQ>> /\ UNCH_GHOST

(* ------------------------------------ the properties of C05 ------------------------------------ *)
RunAtMostOnce == \A t \in Tasks : began[t] <= 1
NeverRunIfCancelledOrDropped == \A t \in cancelledOk \cup dropped : began[t] = 0 /\ taken[t] = None
\* a task that is still going to run (or is running) is findable: never "not found", never cancel answer 1
NoLimbo == \A t \in Tasks : (taken[t] # None /\ t \notin ended /\ taken[t] \notin insec) => t \in doing
AnswerTruthful == lastQ.k # "none" => lastQ.ok
CallbackOnceAfterBody == \A t \in Tasks : cbRan[t] <= 1 /\ (cbRan[t] = 1 => t \in ended /\ t \in hasCb)
MaxWorkers == ready => Cardinality(threads) <= maxT
\* whenever tasks wait (outside an open critical section) there is a worker in the cabinet that has not decided to exit
NoOrphanTask == (Waiting # {} /\ pendSpawn = {}) => \E w \in threads : w \notin exiting
\* a worker whose thread function has finished is no longer counted as a pool thread
LeftNotCounted == \A w \in left : w \notin threads
DataTypeOK == /\ doing \subseteq Tasks /\ idle \subseteq Workers /\ threads \subseteq Workers
              /\ Waiting \cap doing = {} /\ \A t \in Waiting : taken[t] = None /\ t \in accepted
\* everything accepted and neither cancelled nor dropped has run exactly once (evaluated at quiescence)
AllDone == \A t \in accepted \ (cancelledOk \cup dropped) : began[t] = 1 /\ t \in erased /\ (t \in hasCb => cbRan[t] = 1)
=============================================================================
