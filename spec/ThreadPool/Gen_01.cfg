CONSTANTS
  Tasks = {1, 2, 3}
  Workers = {1, 2, 3, 4}
  Levels = {0, 1, 2}
  MinT = 0
  MaxT = 1
  AsFoundMark = FALSE
  AsFoundFlag = FALSE
  AsFoundExit = FALSE
  MaxQueries = 3
  Reinit = 0
  Depth = 24
SPECIFICATION GSpec
CONSTRAINT Emit
CHECK_DEADLOCK FALSE
