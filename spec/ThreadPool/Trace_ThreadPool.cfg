CONSTANTS
  Tasks = {1,2,3,4,5,6,7,8,9,10,11,12,13,14,15,16,17,18,19,20,21,22,23,24,25,26,27,28,29,30}
  Workers = {1,2,3,4,5,6,7,8,9,10,11,12,13,14,15,16,17,18,19,20,21,22,23,24,25,26,27,28,29,30,31,32,33,34,35,36,37,38,39,40}
  Levels = {0, 1, 2, 3, 4}
SPECIFICATION TSpec
CONSTRAINT Progress
POSTCONDITION Accepted
INVARIANTS RunAtMostOnce NeverRunIfCancelledOrDropped NoLimbo AnswerTruthful CallbackOnceAfterBody MaxWorkers NoOrphanTask LeftNotCounted DataTypeOK
CHECK_DEADLOCK FALSE
