CONSTANTS
  Tasks = {1, 2, 3}
  Workers = {1, 2, 3, 4}
  Levels = {0, 1, 2}
  MinT = 1
  MaxT = 2
  AsFoundMark = FALSE
  AsFoundFlag = FALSE
  AsFoundExit = FALSE
  MaxQueries = 3
  Reinit = 0
  Depth = 30
SPECIFICATION GSpec
CONSTRAINT Emit
CHECK_DEADLOCK FALSE
