CONSTANTS
  Tasks = {1, 2}
  Workers = {1, 2, 3}
  Levels = {0, 1}
  MinT = 0
  MaxT = 1
  AsFoundMark = FALSE
  AsFoundFlag = FALSE
  AsFoundExit = FALSE
  MaxQueries = 2
  Reinit = 1
SPECIFICATION Spec
INVARIANTS RunAtMostOnce NeverRunIfCancelledOrDropped NoLimbo AnswerTruthful CallbackOnceAfterBody MaxWorkers NoOrphanTask LeftNotCounted DataTypeOK NoCrash
CHECK_DEADLOCK FALSE
