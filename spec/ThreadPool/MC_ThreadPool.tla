---- MODULE MC_ThreadPool ----
EXTENDS ThreadPool
\* the exhaustive models hide the last answer's bookkeeping-free history from nothing: all variables matter
Inv == /\ RunAtMostOnce /\ NeverRunIfCancelledOrDropped /\ NoLimbo /\ AnswerTruthful /\ CallbackOnceAfterBody
       /\ MaxWorkers /\ NoOrphanTask /\ LeftNotCounted /\ DataTypeOK /\ NoCrash
====
