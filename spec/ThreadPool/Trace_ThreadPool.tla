-------------------------- MODULE Trace_ThreadPool --------------------------
(* Trace validation for C05: the events recorded at the hooks of the real ThreadPool, in the order of   *)
(* their global sequence numbers, must be a behaviour of ThreadPoolData (one data action per event),     *)
(* and every C05 invariant is evaluated after every event.                                                *)
EXTENDS ThreadPoolData, Json, IOUtils
Log == ndJsonDeserialize(IOEnv.TRACE)
\* cbl[t]: the loop whose thread must run the completion callback of task t ("M": the pool's / work thread's own loop, "B": the loop
\* named in the call, WorkThread only)
VARIABLES l, pend, cbl
ASSUME TLCSet(42, 0)
tvars == <<dvars, l, pend, cbl>>
Ev == Log[l]
IsEv(e) == l <= Len(Log) /\ Log[l].e = e /\ l' = l + 1
Skip(e) == IsEv(e) /\ UNCHANGED dvars /\ UNCHANGED <<pend, cbl>>

TInit == DInit /\ l = 1 /\ pend = [t |-> 0, cb |-> FALSE, prio |-> 0, loop |-> "M"] /\ cbl = [t \in Tasks |-> "M"]
TReset ==
  /\ IsEv("Reset") /\ pend' = [t |-> 0, cb |-> FALSE, prio |-> 0, loop |-> "M"] /\ cbl' = [t \in Tasks |-> "M"]
  /\ minT' = 0 /\ maxT' = 0 /\ ready' = FALSE /\ undo' = [k \in Levels |-> <<>>] /\ doing' = {} /\ idle' = {} /\ threads' = {}
  /\ stopFlag' = FALSE /\ exiting' = {} /\ collected' = {} /\ left' = {}
  /\ accepted' = {} /\ hasCb' = {} /\ taken' = [t \in Tasks |-> None] /\ began' = [t \in Tasks |-> 0] /\ ended' = {} /\ erased' = {}
  /\ cancelledOk' = {} /\ dropped' = {} /\ cbRan' = [t \in Tasks |-> 0] /\ pendSpawn' = {} /\ insec' = {} /\ lastQ' = [k |-> "none"]
\* the level a task is queued at is a function of the priority the caller asked for (clamped to -2..2): level = prio + 2
LevelOf(prio) == IF prio + 2 < 0 THEN 0 ELSE IF prio > 2 THEN 4 ELSE prio + 2
TSubmit == IsEv("submit") /\ pend' = [t |-> Ev.t, cb |-> Ev.cb, prio |-> Ev.prio, loop |-> Ev.loop] /\ UNCHANGED dvars /\ UNCHANGED cbl
TNext ==
  \/ TReset \/ TSubmit
  \/ Skip("init_ret") \/ Skip("cleanup_ret")
  \/ IsEv("spawn") /\ DSpawn(Ev.w) /\ Ev.n = Cardinality(threads') /\ UNCHANGED <<pend, cbl>>
  \/ IsEv("init") /\ DInitialize(Ev.min, Ev.max) /\ UNCHANGED <<pend, cbl>>
  \/ IsEv("exec") /\ pend.t = Ev.t /\ Ev.lvl = LevelOf(pend.prio) /\ DExec(Ev.t, Ev.lvl, pend.cb) /\ cbl' = [cbl EXCEPT ![Ev.t] = pend.loop] /\ UNCHANGED pend
  \/ IsEv("status") /\ DStatus(Ev.t, Ev.ans) /\ UNCHANGED <<pend, cbl>>
  \/ IsEv("cancel") /\ DCancel(Ev.t, Ev.ans) /\ UNCHANGED <<pend, cbl>>
  \/ IsEv("collect") /\ Ev.n = Cardinality(threads) /\ DCollect(Ev.flag) /\ UNCHANGED <<pend, cbl>>
  \/ IsEv("flag") /\ DSetFlag /\ UNCHANGED <<pend, cbl>>
  \/ IsEv("joined") /\ collected \subseteq left /\ DJoined /\ UNCHANGED <<pend, cbl>>      \* cleanup joined every worker it took over
  \/ IsEv("exit_decide") /\ DExitDecide(Ev.w, FALSE) /\ UNCHANGED <<pend, cbl>>
  \/ IsEv("exit_free") /\ DExitFree(Ev.w, Ev.found) /\ UNCHANGED <<pend, cbl>>
  \/ IsEv("wait") /\ DWait(Ev.w) /\ UNCHANGED <<pend, cbl>>
  \/ IsEv("woken") /\ DWoken(Ev.w, Ev.flag) /\ UNCHANGED <<pend, cbl>>
  \/ IsEv("pop") /\ DPop(Ev.w, Ev.t, FALSE, TRUE) /\ UNCHANGED <<pend, cbl>>
  \/ IsEv("unlocked") /\ DUnlocked(Ev.w) /\ UNCHANGED <<pend, cbl>>
  \/ IsEv("mark") /\ DMark(Ev.w, Ev.t) /\ UNCHANGED <<pend, cbl>>
  \/ IsEv("body_begin") /\ DBodyBegin(Ev.w, Ev.t) /\ UNCHANGED <<pend, cbl>>
  \/ IsEv("body") /\ Ev.worker = TRUE /\ taken[Ev.t] # None /\ began[Ev.t] = 1 /\ Ev.t \notin ended   \* body ran on a worker, once
                  /\ UNCHANGED dvars /\ UNCHANGED <<pend, cbl>>
  \/ IsEv("body_end") /\ DBodyEnd(Ev.w, Ev.t) /\ UNCHANGED <<pend, cbl>>
  \/ IsEv("erase") /\ DErase(Ev.w, Ev.t) /\ UNCHANGED <<pend, cbl>>
  \/ IsEv("cb") /\ Ev.on = cbl[Ev.t] /\ DCbRun(Ev.t) /\ UNCHANGED <<pend, cbl>>
  \/ IsEv("leaving") /\ DLeaving(Ev.w) /\ UNCHANGED <<pend, cbl>>
  \/ IsEv("end") /\ AllDone /\ threads = {} /\ UNCHANGED dvars /\ UNCHANGED <<pend, cbl>>
TSpec == TInit /\ [][TNext]_tvars

Progress == TLCSet(42, IF l > TLCGet(42) THEN l ELSE TLCGet(42))
Accepted == IF TLCGet(42) = Len(Log) + 1 THEN TRUE ELSE PrintT(<<"MAXPOS", TLCGet(42), Len(Log)>>) /\ FALSE
=============================================================================
