---- MODULE Trace_ThreadPool_TTrace_1790989692 ----
EXTENDS Sequences, TLCExt, Toolbox, Naturals, TLC, Trace_ThreadPool

_expression ==
    LET Trace_ThreadPool_TEExpression == INSTANCE Trace_ThreadPool_TEExpression
    IN Trace_ThreadPool_TEExpression!expression
----

_trace ==
    LET Trace_ThreadPool_TETrace == INSTANCE Trace_ThreadPool_TETrace
    IN Trace_ThreadPool_TETrace!trace
----

_inv ==
    ~(
        TLCGet("level") = Len(_TETrace)
        /\
        doing = ({})
        /\
        maxT = (1)
        /\
        dropped = ({})
        /\
        collected = ({})
        /\
        cancelledOk = ({})
        /\
        pendSpawn = ({})
        /\
        undo = ((0 :> <<>> @@ 1 :> <<>> @@ 2 :> <<2>> @@ 3 :> <<>> @@ 4 :> <<>>))
        /\
        ready = (TRUE)
        /\
        taken = (<<1, 0, 0, 0, 0, 0, 0, 0, 0, 0, 0, 0, 0, 0, 0, 0, 0, 0, 0, 0, 0, 0, 0, 0, 0, 0, 0, 0, 0, 0>>)
        /\
        exiting = ({1})
        /\
        pend = ([t |-> 2, cb |-> FALSE])
        /\
        cbRan = (<<0, 0, 0, 0, 0, 0, 0, 0, 0, 0, 0, 0, 0, 0, 0, 0, 0, 0, 0, 0, 0, 0, 0, 0, 0, 0, 0, 0, 0, 0>>)
        /\
        stopFlag = (FALSE)
        /\
        lastQ = ([k |-> "none"])
        /\
        idle = ({})
        /\
        began = (<<1, 0, 0, 0, 0, 0, 0, 0, 0, 0, 0, 0, 0, 0, 0, 0, 0, 0, 0, 0, 0, 0, 0, 0, 0, 0, 0, 0, 0, 0>>)
        /\
        accepted = ({1, 2})
        /\
        threads = ({1})
        /\
        l = (19)
        /\
        minT = (0)
        /\
        erased = ({1})
        /\
        left = ({})
        /\
        insec = ({})
        /\
        ended = ({1})
        /\
        hasCb = ({})
    )
----

_init ==
    /\ undo = _TETrace[1].undo
    /\ ready = _TETrace[1].ready
    /\ erased = _TETrace[1].erased
    /\ idle = _TETrace[1].idle
    /\ pendSpawn = _TETrace[1].pendSpawn
    /\ l = _TETrace[1].l
    /\ accepted = _TETrace[1].accepted
    /\ pend = _TETrace[1].pend
    /\ began = _TETrace[1].began
    /\ dropped = _TETrace[1].dropped
    /\ collected = _TETrace[1].collected
    /\ exiting = _TETrace[1].exiting
    /\ hasCb = _TETrace[1].hasCb
    /\ cbRan = _TETrace[1].cbRan
    /\ left = _TETrace[1].left
    /\ lastQ = _TETrace[1].lastQ
    /\ taken = _TETrace[1].taken
    /\ maxT = _TETrace[1].maxT
    /\ cancelledOk = _TETrace[1].cancelledOk
    /\ insec = _TETrace[1].insec
    /\ doing = _TETrace[1].doing
    /\ threads = _TETrace[1].threads
    /\ stopFlag = _TETrace[1].stopFlag
    /\ minT = _TETrace[1].minT
    /\ ended = _TETrace[1].ended
----

_next ==
    /\ \E i,j \in DOMAIN _TETrace:
        /\ \/ /\ j = i + 1
              /\ i = TLCGet("level")
        /\ undo  = _TETrace[i].undo
        /\ undo' = _TETrace[j].undo
        /\ ready  = _TETrace[i].ready
        /\ ready' = _TETrace[j].ready
        /\ erased  = _TETrace[i].erased
        /\ erased' = _TETrace[j].erased
        /\ idle  = _TETrace[i].idle
        /\ idle' = _TETrace[j].idle
        /\ pendSpawn  = _TETrace[i].pendSpawn
        /\ pendSpawn' = _TETrace[j].pendSpawn
        /\ l  = _TETrace[i].l
        /\ l' = _TETrace[j].l
        /\ accepted  = _TETrace[i].accepted
        /\ accepted' = _TETrace[j].accepted
        /\ pend  = _TETrace[i].pend
        /\ pend' = _TETrace[j].pend
        /\ began  = _TETrace[i].began
        /\ began' = _TETrace[j].began
        /\ dropped  = _TETrace[i].dropped
        /\ dropped' = _TETrace[j].dropped
        /\ collected  = _TETrace[i].collected
        /\ collected' = _TETrace[j].collected
        /\ exiting  = _TETrace[i].exiting
        /\ exiting' = _TETrace[j].exiting
        /\ hasCb  = _TETrace[i].hasCb
        /\ hasCb' = _TETrace[j].hasCb
        /\ cbRan  = _TETrace[i].cbRan
        /\ cbRan' = _TETrace[j].cbRan
        /\ left  = _TETrace[i].left
        /\ left' = _TETrace[j].left
        /\ lastQ  = _TETrace[i].lastQ
        /\ lastQ' = _TETrace[j].lastQ
        /\ taken  = _TETrace[i].taken
        /\ taken' = _TETrace[j].taken
        /\ maxT  = _TETrace[i].maxT
        /\ maxT' = _TETrace[j].maxT
        /\ cancelledOk  = _TETrace[i].cancelledOk
        /\ cancelledOk' = _TETrace[j].cancelledOk
        /\ insec  = _TETrace[i].insec
        /\ insec' = _TETrace[j].insec
        /\ doing  = _TETrace[i].doing
        /\ doing' = _TETrace[j].doing
        /\ threads  = _TETrace[i].threads
        /\ threads' = _TETrace[j].threads
        /\ stopFlag  = _TETrace[i].stopFlag
        /\ stopFlag' = _TETrace[j].stopFlag
        /\ minT  = _TETrace[i].minT
        /\ minT' = _TETrace[j].minT
        /\ ended  = _TETrace[i].ended
        /\ ended' = _TETrace[j].ended

\* Uncomment the ASSUME below to write the states of the error trace
\* to the given file in Json format. Note that you can pass any tuple
\* to `JsonSerialize`. For example, a sub-sequence of _TETrace.
    \* ASSUME
    \*     LET J == INSTANCE Json
    \*         IN J!JsonSerialize("Trace_ThreadPool_TTrace_1790989692.json", _TETrace)

=============================================================================

 Note that you can extract this module `Trace_ThreadPool_TEExpression`
  to a dedicated file to reuse `expression` (the module in the 
  dedicated `Trace_ThreadPool_TEExpression.tla` file takes precedence 
  over the module `Trace_ThreadPool_TEExpression` below).

---- MODULE Trace_ThreadPool_TEExpression ----
EXTENDS Sequences, TLCExt, Toolbox, Naturals, TLC, Trace_ThreadPool

expression == 
    [
        \* To hide variables of the `Trace_ThreadPool` spec from the error trace,
        \* remove the variables below.  The trace will be written in the order
        \* of the fields of this record.
        undo |-> undo
        ,ready |-> ready
        ,erased |-> erased
        ,idle |-> idle
        ,pendSpawn |-> pendSpawn
        ,l |-> l
        ,accepted |-> accepted
        ,pend |-> pend
        ,began |-> began
        ,dropped |-> dropped
        ,collected |-> collected
        ,exiting |-> exiting
        ,hasCb |-> hasCb
        ,cbRan |-> cbRan
        ,left |-> left
        ,lastQ |-> lastQ
        ,taken |-> taken
        ,maxT |-> maxT
        ,cancelledOk |-> cancelledOk
        ,insec |-> insec
        ,doing |-> doing
        ,threads |-> threads
        ,stopFlag |-> stopFlag
        ,minT |-> minT
        ,ended |-> ended
        
        \* Put additional constant-, state-, and action-level expressions here:
        \* ,_stateNumber |-> _TEPosition
        \* ,_undoUnchanged |-> undo = undo'
        
        \* Format the `undo` variable as Json value.
        \* ,_undoJson |->
        \*     LET J == INSTANCE Json
        \*     IN J!ToJson(undo)
        
        \* Lastly, you may build expressions over arbitrary sets of states by
        \* leveraging the _TETrace operator.  For example, this is how to
        \* count the number of times a spec variable changed up to the current
        \* state in the trace.
        \* ,_undoModCount |->
        \*     LET F[s \in DOMAIN _TETrace] ==
        \*         IF s = 1 THEN 0
        \*         ELSE IF _TETrace[s].undo # _TETrace[s-1].undo
        \*             THEN 1 + F[s-1] ELSE F[s-1]
        \*     IN F[_TEPosition - 1]
    ]

=============================================================================



Parsing and semantic processing can take forever if the trace below is long.
 In this case, it is advised to uncomment the module below to deserialize the
 trace from a generated binary file.

\*
\*---- MODULE Trace_ThreadPool_TETrace ----
\*EXTENDS IOUtils, TLC, Trace_ThreadPool
\*
\*trace == IODeserialize("Trace_ThreadPool_TTrace_1790989692.bin", TRUE)
\*
\*=============================================================================
\*

---- MODULE Trace_ThreadPool_TETrace ----
EXTENDS TLC, Trace_ThreadPool

trace == 
    <<
    ([doing |-> {},maxT |-> 0,dropped |-> {},collected |-> {},cancelledOk |-> {},pendSpawn |-> {},undo |-> (0 :> <<>> @@ 1 :> <<>> @@ 2 :> <<>> @@ 3 :> <<>> @@ 4 :> <<>>),ready |-> FALSE,taken |-> <<0, 0, 0, 0, 0, 0, 0, 0, 0, 0, 0, 0, 0, 0, 0, 0, 0, 0, 0, 0, 0, 0, 0, 0, 0, 0, 0, 0, 0, 0>>,exiting |-> {},pend |-> [t |-> 0, cb |-> FALSE],cbRan |-> <<0, 0, 0, 0, 0, 0, 0, 0, 0, 0, 0, 0, 0, 0, 0, 0, 0, 0, 0, 0, 0, 0, 0, 0, 0, 0, 0, 0, 0, 0>>,stopFlag |-> FALSE,lastQ |-> [k |-> "none"],idle |-> {},began |-> <<0, 0, 0, 0, 0, 0, 0, 0, 0, 0, 0, 0, 0, 0, 0, 0, 0, 0, 0, 0, 0, 0, 0, 0, 0, 0, 0, 0, 0, 0>>,accepted |-> {},threads |-> {},l |-> 1,minT |-> 0,erased |-> {},left |-> {},insec |-> {},ended |-> {},hasCb |-> {}]),
    ([doing |-> {},maxT |-> 1,dropped |-> {},collected |-> {},cancelledOk |-> {},pendSpawn |-> {},undo |-> (0 :> <<>> @@ 1 :> <<>> @@ 2 :> <<>> @@ 3 :> <<>> @@ 4 :> <<>>),ready |-> TRUE,taken |-> <<0, 0, 0, 0, 0, 0, 0, 0, 0, 0, 0, 0, 0, 0, 0, 0, 0, 0, 0, 0, 0, 0, 0, 0, 0, 0, 0, 0, 0, 0>>,exiting |-> {},pend |-> [t |-> 0, cb |-> FALSE],cbRan |-> <<0, 0, 0, 0, 0, 0, 0, 0, 0, 0, 0, 0, 0, 0, 0, 0, 0, 0, 0, 0, 0, 0, 0, 0, 0, 0, 0, 0, 0, 0>>,stopFlag |-> FALSE,lastQ |-> [k |-> "none"],idle |-> {},began |-> <<0, 0, 0, 0, 0, 0, 0, 0, 0, 0, 0, 0, 0, 0, 0, 0, 0, 0, 0, 0, 0, 0, 0, 0, 0, 0, 0, 0, 0, 0>>,accepted |-> {},threads |-> {},l |-> 2,minT |-> 0,erased |-> {},left |-> {},insec |-> {},ended |-> {},hasCb |-> {}]),
    ([doing |-> {},maxT |-> 1,dropped |-> {},collected |-> {},cancelledOk |-> {},pendSpawn |-> {},undo |-> (0 :> <<>> @@ 1 :> <<>> @@ 2 :> <<>> @@ 3 :> <<>> @@ 4 :> <<>>),ready |-> TRUE,taken |-> <<0, 0, 0, 0, 0, 0, 0, 0, 0, 0, 0, 0, 0, 0, 0, 0, 0, 0, 0, 0, 0, 0, 0, 0, 0, 0, 0, 0, 0, 0>>,exiting |-> {},pend |-> [t |-> 0, cb |-> FALSE],cbRan |-> <<0, 0, 0, 0, 0, 0, 0, 0, 0, 0, 0, 0, 0, 0, 0, 0, 0, 0, 0, 0, 0, 0, 0, 0, 0, 0, 0, 0, 0, 0>>,stopFlag |-> FALSE,lastQ |-> [k |-> "none"],idle |-> {},began |-> <<0, 0, 0, 0, 0, 0, 0, 0, 0, 0, 0, 0, 0, 0, 0, 0, 0, 0, 0, 0, 0, 0, 0, 0, 0, 0, 0, 0, 0, 0>>,accepted |-> {},threads |-> {},l |-> 3,minT |-> 0,erased |-> {},left |-> {},insec |-> {},ended |-> {},hasCb |-> {}]),
    ([doing |-> {},maxT |-> 1,dropped |-> {},collected |-> {},cancelledOk |-> {},pendSpawn |-> {},undo |-> (0 :> <<>> @@ 1 :> <<>> @@ 2 :> <<>> @@ 3 :> <<>> @@ 4 :> <<>>),ready |-> TRUE,taken |-> <<0, 0, 0, 0, 0, 0, 0, 0, 0, 0, 0, 0, 0, 0, 0, 0, 0, 0, 0, 0, 0, 0, 0, 0, 0, 0, 0, 0, 0, 0>>,exiting |-> {},pend |-> [t |-> 1, cb |-> FALSE],cbRan |-> <<0, 0, 0, 0, 0, 0, 0, 0, 0, 0, 0, 0, 0, 0, 0, 0, 0, 0, 0, 0, 0, 0, 0, 0, 0, 0, 0, 0, 0, 0>>,stopFlag |-> FALSE,lastQ |-> [k |-> "none"],idle |-> {},began |-> <<0, 0, 0, 0, 0, 0, 0, 0, 0, 0, 0, 0, 0, 0, 0, 0, 0, 0, 0, 0, 0, 0, 0, 0, 0, 0, 0, 0, 0, 0>>,accepted |-> {},threads |-> {},l |-> 4,minT |-> 0,erased |-> {},left |-> {},insec |-> {},ended |-> {},hasCb |-> {}]),
    ([doing |-> {},maxT |-> 1,dropped |-> {},collected |-> {},cancelledOk |-> {},pendSpawn |-> {1},undo |-> (0 :> <<>> @@ 1 :> <<>> @@ 2 :> <<>> @@ 3 :> <<>> @@ 4 :> <<>>),ready |-> TRUE,taken |-> <<0, 0, 0, 0, 0, 0, 0, 0, 0, 0, 0, 0, 0, 0, 0, 0, 0, 0, 0, 0, 0, 0, 0, 0, 0, 0, 0, 0, 0, 0>>,exiting |-> {},pend |-> [t |-> 1, cb |-> FALSE],cbRan |-> <<0, 0, 0, 0, 0, 0, 0, 0, 0, 0, 0, 0, 0, 0, 0, 0, 0, 0, 0, 0, 0, 0, 0, 0, 0, 0, 0, 0, 0, 0>>,stopFlag |-> FALSE,lastQ |-> [k |-> "none"],idle |-> {},began |-> <<0, 0, 0, 0, 0, 0, 0, 0, 0, 0, 0, 0, 0, 0, 0, 0, 0, 0, 0, 0, 0, 0, 0, 0, 0, 0, 0, 0, 0, 0>>,accepted |-> {},threads |-> {1},l |-> 5,minT |-> 0,erased |-> {},left |-> {},insec |-> {},ended |-> {},hasCb |-> {}]),
    ([doing |-> {},maxT |-> 1,dropped |-> {},collected |-> {},cancelledOk |-> {},pendSpawn |-> {},undo |-> (0 :> <<>> @@ 1 :> <<>> @@ 2 :> <<1>> @@ 3 :> <<>> @@ 4 :> <<>>),ready |-> TRUE,taken |-> <<0, 0, 0, 0, 0, 0, 0, 0, 0, 0, 0, 0, 0, 0, 0, 0, 0, 0, 0, 0, 0, 0, 0, 0, 0, 0, 0, 0, 0, 0>>,exiting |-> {},pend |-> [t |-> 1, cb |-> FALSE],cbRan |-> <<0, 0, 0, 0, 0, 0, 0, 0, 0, 0, 0, 0, 0, 0, 0, 0, 0, 0, 0, 0, 0, 0, 0, 0, 0, 0, 0, 0, 0, 0>>,stopFlag |-> FALSE,lastQ |-> [k |-> "none"],idle |-> {},began |-> <<0, 0, 0, 0, 0, 0, 0, 0, 0, 0, 0, 0, 0, 0, 0, 0, 0, 0, 0, 0, 0, 0, 0, 0, 0, 0, 0, 0, 0, 0>>,accepted |-> {1},threads |-> {1},l |-> 6,minT |-> 0,erased |-> {},left |-> {},insec |-> {},ended |-> {},hasCb |-> {}]),
    ([doing |-> {},maxT |-> 1,dropped |-> {},collected |-> {},cancelledOk |-> {},pendSpawn |-> {},undo |-> (0 :> <<>> @@ 1 :> <<>> @@ 2 :> <<1>> @@ 3 :> <<>> @@ 4 :> <<>>),ready |-> TRUE,taken |-> <<0, 0, 0, 0, 0, 0, 0, 0, 0, 0, 0, 0, 0, 0, 0, 0, 0, 0, 0, 0, 0, 0, 0, 0, 0, 0, 0, 0, 0, 0>>,exiting |-> {},pend |-> [t |-> 1, cb |-> FALSE],cbRan |-> <<0, 0, 0, 0, 0, 0, 0, 0, 0, 0, 0, 0, 0, 0, 0, 0, 0, 0, 0, 0, 0, 0, 0, 0, 0, 0, 0, 0, 0, 0>>,stopFlag |-> FALSE,lastQ |-> [k |-> "none"],idle |-> {1},began |-> <<0, 0, 0, 0, 0, 0, 0, 0, 0, 0, 0, 0, 0, 0, 0, 0, 0, 0, 0, 0, 0, 0, 0, 0, 0, 0, 0, 0, 0, 0>>,accepted |-> {1},threads |-> {1},l |-> 7,minT |-> 0,erased |-> {},left |-> {},insec |-> {},ended |-> {},hasCb |-> {}]),
    ([doing |-> {},maxT |-> 1,dropped |-> {},collected |-> {},cancelledOk |-> {},pendSpawn |-> {},undo |-> (0 :> <<>> @@ 1 :> <<>> @@ 2 :> <<1>> @@ 3 :> <<>> @@ 4 :> <<>>),ready |-> TRUE,taken |-> <<0, 0, 0, 0, 0, 0, 0, 0, 0, 0, 0, 0, 0, 0, 0, 0, 0, 0, 0, 0, 0, 0, 0, 0, 0, 0, 0, 0, 0, 0>>,exiting |-> {},pend |-> [t |-> 1, cb |-> FALSE],cbRan |-> <<0, 0, 0, 0, 0, 0, 0, 0, 0, 0, 0, 0, 0, 0, 0, 0, 0, 0, 0, 0, 0, 0, 0, 0, 0, 0, 0, 0, 0, 0>>,stopFlag |-> FALSE,lastQ |-> [k |-> "none"],idle |-> {},began |-> <<0, 0, 0, 0, 0, 0, 0, 0, 0, 0, 0, 0, 0, 0, 0, 0, 0, 0, 0, 0, 0, 0, 0, 0, 0, 0, 0, 0, 0, 0>>,accepted |-> {1},threads |-> {1},l |-> 8,minT |-> 0,erased |-> {},left |-> {},insec |-> {},ended |-> {},hasCb |-> {}]),
    ([doing |-> {},maxT |-> 1,dropped |-> {},collected |-> {},cancelledOk |-> {},pendSpawn |-> {},undo |-> (0 :> <<>> @@ 1 :> <<>> @@ 2 :> <<>> @@ 3 :> <<>> @@ 4 :> <<>>),ready |-> TRUE,taken |-> <<1, 0, 0, 0, 0, 0, 0, 0, 0, 0, 0, 0, 0, 0, 0, 0, 0, 0, 0, 0, 0, 0, 0, 0, 0, 0, 0, 0, 0, 0>>,exiting |-> {},pend |-> [t |-> 1, cb |-> FALSE],cbRan |-> <<0, 0, 0, 0, 0, 0, 0, 0, 0, 0, 0, 0, 0, 0, 0, 0, 0, 0, 0, 0, 0, 0, 0, 0, 0, 0, 0, 0, 0, 0>>,stopFlag |-> FALSE,lastQ |-> [k |-> "none"],idle |-> {},began |-> <<0, 0, 0, 0, 0, 0, 0, 0, 0, 0, 0, 0, 0, 0, 0, 0, 0, 0, 0, 0, 0, 0, 0, 0, 0, 0, 0, 0, 0, 0>>,accepted |-> {1},threads |-> {1},l |-> 9,minT |-> 0,erased |-> {},left |-> {},insec |-> {1},ended |-> {},hasCb |-> {}]),
    ([doing |-> {1},maxT |-> 1,dropped |-> {},collected |-> {},cancelledOk |-> {},pendSpawn |-> {},undo |-> (0 :> <<>> @@ 1 :> <<>> @@ 2 :> <<>> @@ 3 :> <<>> @@ 4 :> <<>>),ready |-> TRUE,taken |-> <<1, 0, 0, 0, 0, 0, 0, 0, 0, 0, 0, 0, 0, 0, 0, 0, 0, 0, 0, 0, 0, 0, 0, 0, 0, 0, 0, 0, 0, 0>>,exiting |-> {},pend |-> [t |-> 1, cb |-> FALSE],cbRan |-> <<0, 0, 0, 0, 0, 0, 0, 0, 0, 0, 0, 0, 0, 0, 0, 0, 0, 0, 0, 0, 0, 0, 0, 0, 0, 0, 0, 0, 0, 0>>,stopFlag |-> FALSE,lastQ |-> [k |-> "none"],idle |-> {},began |-> <<0, 0, 0, 0, 0, 0, 0, 0, 0, 0, 0, 0, 0, 0, 0, 0, 0, 0, 0, 0, 0, 0, 0, 0, 0, 0, 0, 0, 0, 0>>,accepted |-> {1},threads |-> {1},l |-> 10,minT |-> 0,erased |-> {},left |-> {},insec |-> {1},ended |-> {},hasCb |-> {}]),
    ([doing |-> {1},maxT |-> 1,dropped |-> {},collected |-> {},cancelledOk |-> {},pendSpawn |-> {},undo |-> (0 :> <<>> @@ 1 :> <<>> @@ 2 :> <<>> @@ 3 :> <<>> @@ 4 :> <<>>),ready |-> TRUE,taken |-> <<1, 0, 0, 0, 0, 0, 0, 0, 0, 0, 0, 0, 0, 0, 0, 0, 0, 0, 0, 0, 0, 0, 0, 0, 0, 0, 0, 0, 0, 0>>,exiting |-> {},pend |-> [t |-> 1, cb |-> FALSE],cbRan |-> <<0, 0, 0, 0, 0, 0, 0, 0, 0, 0, 0, 0, 0, 0, 0, 0, 0, 0, 0, 0, 0, 0, 0, 0, 0, 0, 0, 0, 0, 0>>,stopFlag |-> FALSE,lastQ |-> [k |-> "none"],idle |-> {},began |-> <<0, 0, 0, 0, 0, 0, 0, 0, 0, 0, 0, 0, 0, 0, 0, 0, 0, 0, 0, 0, 0, 0, 0, 0, 0, 0, 0, 0, 0, 0>>,accepted |-> {1},threads |-> {1},l |-> 11,minT |-> 0,erased |-> {},left |-> {},insec |-> {},ended |-> {},hasCb |-> {}]),
    ([doing |-> {1},maxT |-> 1,dropped |-> {},collected |-> {},cancelledOk |-> {},pendSpawn |-> {},undo |-> (0 :> <<>> @@ 1 :> <<>> @@ 2 :> <<>> @@ 3 :> <<>> @@ 4 :> <<>>),ready |-> TRUE,taken |-> <<1, 0, 0, 0, 0, 0, 0, 0, 0, 0, 0, 0, 0, 0, 0, 0, 0, 0, 0, 0, 0, 0, 0, 0, 0, 0, 0, 0, 0, 0>>,exiting |-> {},pend |-> [t |-> 1, cb |-> FALSE],cbRan |-> <<0, 0, 0, 0, 0, 0, 0, 0, 0, 0, 0, 0, 0, 0, 0, 0, 0, 0, 0, 0, 0, 0, 0, 0, 0, 0, 0, 0, 0, 0>>,stopFlag |-> FALSE,lastQ |-> [k |-> "none"],idle |-> {},began |-> <<1, 0, 0, 0, 0, 0, 0, 0, 0, 0, 0, 0, 0, 0, 0, 0, 0, 0, 0, 0, 0, 0, 0, 0, 0, 0, 0, 0, 0, 0>>,accepted |-> {1},threads |-> {1},l |-> 12,minT |-> 0,erased |-> {},left |-> {},insec |-> {},ended |-> {},hasCb |-> {}]),
    ([doing |-> {1},maxT |-> 1,dropped |-> {},collected |-> {},cancelledOk |-> {},pendSpawn |-> {},undo |-> (0 :> <<>> @@ 1 :> <<>> @@ 2 :> <<>> @@ 3 :> <<>> @@ 4 :> <<>>),ready |-> TRUE,taken |-> <<1, 0, 0, 0, 0, 0, 0, 0, 0, 0, 0, 0, 0, 0, 0, 0, 0, 0, 0, 0, 0, 0, 0, 0, 0, 0, 0, 0, 0, 0>>,exiting |-> {},pend |-> [t |-> 1, cb |-> FALSE],cbRan |-> <<0, 0, 0, 0, 0, 0, 0, 0, 0, 0, 0, 0, 0, 0, 0, 0, 0, 0, 0, 0, 0, 0, 0, 0, 0, 0, 0, 0, 0, 0>>,stopFlag |-> FALSE,lastQ |-> [k |-> "none"],idle |-> {},began |-> <<1, 0, 0, 0, 0, 0, 0, 0, 0, 0, 0, 0, 0, 0, 0, 0, 0, 0, 0, 0, 0, 0, 0, 0, 0, 0, 0, 0, 0, 0>>,accepted |-> {1},threads |-> {1},l |-> 13,minT |-> 0,erased |-> {},left |-> {},insec |-> {},ended |-> {},hasCb |-> {}]),
    ([doing |-> {1},maxT |-> 1,dropped |-> {},collected |-> {},cancelledOk |-> {},pendSpawn |-> {},undo |-> (0 :> <<>> @@ 1 :> <<>> @@ 2 :> <<>> @@ 3 :> <<>> @@ 4 :> <<>>),ready |-> TRUE,taken |-> <<1, 0, 0, 0, 0, 0, 0, 0, 0, 0, 0, 0, 0, 0, 0, 0, 0, 0, 0, 0, 0, 0, 0, 0, 0, 0, 0, 0, 0, 0>>,exiting |-> {},pend |-> [t |-> 1, cb |-> FALSE],cbRan |-> <<0, 0, 0, 0, 0, 0, 0, 0, 0, 0, 0, 0, 0, 0, 0, 0, 0, 0, 0, 0, 0, 0, 0, 0, 0, 0, 0, 0, 0, 0>>,stopFlag |-> FALSE,lastQ |-> [k |-> "none"],idle |-> {},began |-> <<1, 0, 0, 0, 0, 0, 0, 0, 0, 0, 0, 0, 0, 0, 0, 0, 0, 0, 0, 0, 0, 0, 0, 0, 0, 0, 0, 0, 0, 0>>,accepted |-> {1},threads |-> {1},l |-> 14,minT |-> 0,erased |-> {},left |-> {},insec |-> {},ended |-> {1},hasCb |-> {}]),
    ([doing |-> {},maxT |-> 1,dropped |-> {},collected |-> {},cancelledOk |-> {},pendSpawn |-> {},undo |-> (0 :> <<>> @@ 1 :> <<>> @@ 2 :> <<>> @@ 3 :> <<>> @@ 4 :> <<>>),ready |-> TRUE,taken |-> <<1, 0, 0, 0, 0, 0, 0, 0, 0, 0, 0, 0, 0, 0, 0, 0, 0, 0, 0, 0, 0, 0, 0, 0, 0, 0, 0, 0, 0, 0>>,exiting |-> {},pend |-> [t |-> 1, cb |-> FALSE],cbRan |-> <<0, 0, 0, 0, 0, 0, 0, 0, 0, 0, 0, 0, 0, 0, 0, 0, 0, 0, 0, 0, 0, 0, 0, 0, 0, 0, 0, 0, 0, 0>>,stopFlag |-> FALSE,lastQ |-> [k |-> "none"],idle |-> {},began |-> <<1, 0, 0, 0, 0, 0, 0, 0, 0, 0, 0, 0, 0, 0, 0, 0, 0, 0, 0, 0, 0, 0, 0, 0, 0, 0, 0, 0, 0, 0>>,accepted |-> {1},threads |-> {1},l |-> 15,minT |-> 0,erased |-> {1},left |-> {},insec |-> {},ended |-> {1},hasCb |-> {}]),
    ([doing |-> {},maxT |-> 1,dropped |-> {},collected |-> {},cancelledOk |-> {},pendSpawn |-> {},undo |-> (0 :> <<>> @@ 1 :> <<>> @@ 2 :> <<>> @@ 3 :> <<>> @@ 4 :> <<>>),ready |-> TRUE,taken |-> <<1, 0, 0, 0, 0, 0, 0, 0, 0, 0, 0, 0, 0, 0, 0, 0, 0, 0, 0, 0, 0, 0, 0, 0, 0, 0, 0, 0, 0, 0>>,exiting |-> {},pend |-> [t |-> 1, cb |-> FALSE],cbRan |-> <<0, 0, 0, 0, 0, 0, 0, 0, 0, 0, 0, 0, 0, 0, 0, 0, 0, 0, 0, 0, 0, 0, 0, 0, 0, 0, 0, 0, 0, 0>>,stopFlag |-> FALSE,lastQ |-> [k |-> "none"],idle |-> {},began |-> <<1, 0, 0, 0, 0, 0, 0, 0, 0, 0, 0, 0, 0, 0, 0, 0, 0, 0, 0, 0, 0, 0, 0, 0, 0, 0, 0, 0, 0, 0>>,accepted |-> {1},threads |-> {1},l |-> 16,minT |-> 0,erased |-> {1},left |-> {},insec |-> {},ended |-> {1},hasCb |-> {}]),
    ([doing |-> {},maxT |-> 1,dropped |-> {},collected |-> {},cancelledOk |-> {},pendSpawn |-> {},undo |-> (0 :> <<>> @@ 1 :> <<>> @@ 2 :> <<>> @@ 3 :> <<>> @@ 4 :> <<>>),ready |-> TRUE,taken |-> <<1, 0, 0, 0, 0, 0, 0, 0, 0, 0, 0, 0, 0, 0, 0, 0, 0, 0, 0, 0, 0, 0, 0, 0, 0, 0, 0, 0, 0, 0>>,exiting |-> {1},pend |-> [t |-> 1, cb |-> FALSE],cbRan |-> <<0, 0, 0, 0, 0, 0, 0, 0, 0, 0, 0, 0, 0, 0, 0, 0, 0, 0, 0, 0, 0, 0, 0, 0, 0, 0, 0, 0, 0, 0>>,stopFlag |-> FALSE,lastQ |-> [k |-> "none"],idle |-> {},began |-> <<1, 0, 0, 0, 0, 0, 0, 0, 0, 0, 0, 0, 0, 0, 0, 0, 0, 0, 0, 0, 0, 0, 0, 0, 0, 0, 0, 0, 0, 0>>,accepted |-> {1},threads |-> {1},l |-> 17,minT |-> 0,erased |-> {1},left |-> {},insec |-> {},ended |-> {1},hasCb |-> {}]),
    ([doing |-> {},maxT |-> 1,dropped |-> {},collected |-> {},cancelledOk |-> {},pendSpawn |-> {},undo |-> (0 :> <<>> @@ 1 :> <<>> @@ 2 :> <<>> @@ 3 :> <<>> @@ 4 :> <<>>),ready |-> TRUE,taken |-> <<1, 0, 0, 0, 0, 0, 0, 0, 0, 0, 0, 0, 0, 0, 0, 0, 0, 0, 0, 0, 0, 0, 0, 0, 0, 0, 0, 0, 0, 0>>,exiting |-> {1},pend |-> [t |-> 2, cb |-> FALSE],cbRan |-> <<0, 0, 0, 0, 0, 0, 0, 0, 0, 0, 0, 0, 0, 0, 0, 0, 0, 0, 0, 0, 0, 0, 0, 0, 0, 0, 0, 0, 0, 0>>,stopFlag |-> FALSE,lastQ |-> [k |-> "none"],idle |-> {},began |-> <<1, 0, 0, 0, 0, 0, 0, 0, 0, 0, 0, 0, 0, 0, 0, 0, 0, 0, 0, 0, 0, 0, 0, 0, 0, 0, 0, 0, 0, 0>>,accepted |-> {1},threads |-> {1},l |-> 18,minT |-> 0,erased |-> {1},left |-> {},insec |-> {},ended |-> {1},hasCb |-> {}]),
    ([doing |-> {},maxT |-> 1,dropped |-> {},collected |-> {},cancelledOk |-> {},pendSpawn |-> {},undo |-> (0 :> <<>> @@ 1 :> <<>> @@ 2 :> <<2>> @@ 3 :> <<>> @@ 4 :> <<>>),ready |-> TRUE,taken |-> <<1, 0, 0, 0, 0, 0, 0, 0, 0, 0, 0, 0, 0, 0, 0, 0, 0, 0, 0, 0, 0, 0, 0, 0, 0, 0, 0, 0, 0, 0>>,exiting |-> {1},pend |-> [t |-> 2, cb |-> FALSE],cbRan |-> <<0, 0, 0, 0, 0, 0, 0, 0, 0, 0, 0, 0, 0, 0, 0, 0, 0, 0, 0, 0, 0, 0, 0, 0, 0, 0, 0, 0, 0, 0>>,stopFlag |-> FALSE,lastQ |-> [k |-> "none"],idle |-> {},began |-> <<1, 0, 0, 0, 0, 0, 0, 0, 0, 0, 0, 0, 0, 0, 0, 0, 0, 0, 0, 0, 0, 0, 0, 0, 0, 0, 0, 0, 0, 0>>,accepted |-> {1, 2},threads |-> {1},l |-> 19,minT |-> 0,erased |-> {1},left |-> {},insec |-> {},ended |-> {1},hasCb |-> {}])
    >>
----


=============================================================================

---- CONFIG Trace_ThreadPool_TTrace_1790989692 ----
CONSTANTS
    Tasks = { 1 , 2 , 3 , 4 , 5 , 6 , 7 , 8 , 9 , 10 , 11 , 12 , 13 , 14 , 15 , 16 , 17 , 18 , 19 , 20 , 21 , 22 , 23 , 24 , 25 , 26 , 27 , 28 , 29 , 30 }
    Workers = { 1 , 2 , 3 , 4 , 5 , 6 , 7 , 8 , 9 , 10 , 11 , 12 , 13 , 14 , 15 , 16 , 17 , 18 , 19 , 20 , 21 , 22 , 23 , 24 , 25 , 26 , 27 , 28 , 29 , 30 , 31 , 32 , 33 , 34 , 35 , 36 , 37 , 38 , 39 , 40 }
    Levels = { 0 , 1 , 2 , 3 , 4 }

INVARIANT
    _inv

CHECK_DEADLOCK
    \* CHECK_DEADLOCK off because of PROPERTY or INVARIANT above.
    FALSE

INIT
    _init

NEXT
    _next

CONSTANT
    _TETrace <- _trace

ALIAS
    _expression
=============================================================================
\* Generated on Sat Oct 03 01:08:14 UTC 2026