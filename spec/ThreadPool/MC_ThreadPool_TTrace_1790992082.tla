---- MODULE MC_ThreadPool_TTrace_1790992082 ----
EXTENDS Sequences, TLCExt, Toolbox, Naturals, TLC, MC_ThreadPool

_expression ==
    LET MC_ThreadPool_TEExpression == INSTANCE MC_ThreadPool_TEExpression
    IN MC_ThreadPool_TEExpression!expression
----

_trace ==
    LET MC_ThreadPool_TETrace == INSTANCE MC_ThreadPool_TETrace
    IN MC_ThreadPool_TETrace!trace
----

_inv ==
    ~(
        TLCGet("level") = Len(_TETrace)
        /\
        ninit = (1)
        /\
        cur = (<<0, 0>>)
        /\
        doing = ({})
        /\
        nq = (0)
        /\
        maxT = (1)
        /\
        dropped = ({})
        /\
        collected = ({})
        /\
        loopQ = (<<>>)
        /\
        cancelledOk = ({})
        /\
        crash = (FALSE)
        /\
        pendSpawn = ({})
        /\
        undo = ((0 :> <<1>> @@ 1 :> <<>>))
        /\
        ready = (TRUE)
        /\
        taken = (<<0, 1>>)
        /\
        exiting = ({1})
        /\
        cbRan = (<<0, 0>>)
        /\
        mpc = ("exec_notify")
        /\
        stopFlag = (FALSE)
        /\
        lastQ = ([k |-> "none"])
        /\
        idle = ({})
        /\
        began = (<<0, 1>>)
        /\
        accepted = ({1, 2})
        /\
        threads = ({1})
        /\
        wpc = (<<"exit2", "none">>)
        /\
        minT = (0)
        /\
        erased = ({2})
        /\
        cv = ({})
        /\
        left = ({})
        /\
        insec = ({})
        /\
        ended = ({2})
        /\
        hasCb = ({})
    )
----

_init ==
    /\ undo = _TETrace[1].undo
    /\ ready = _TETrace[1].ready
    /\ ninit = _TETrace[1].ninit
    /\ erased = _TETrace[1].erased
    /\ idle = _TETrace[1].idle
    /\ cur = _TETrace[1].cur
    /\ crash = _TETrace[1].crash
    /\ loopQ = _TETrace[1].loopQ
    /\ nq = _TETrace[1].nq
    /\ pendSpawn = _TETrace[1].pendSpawn
    /\ accepted = _TETrace[1].accepted
    /\ cv = _TETrace[1].cv
    /\ began = _TETrace[1].began
    /\ dropped = _TETrace[1].dropped
    /\ collected = _TETrace[1].collected
    /\ exiting = _TETrace[1].exiting
    /\ hasCb = _TETrace[1].hasCb
    /\ cbRan = _TETrace[1].cbRan
    /\ left = _TETrace[1].left
    /\ lastQ = _TETrace[1].lastQ
    /\ taken = _TETrace[1].taken
    /\ maxT = _TETrace[1].maxT
    /\ cancelledOk = _TETrace[1].cancelledOk
    /\ insec = _TETrace[1].insec
    /\ doing = _TETrace[1].doing
    /\ mpc = _TETrace[1].mpc
    /\ threads = _TETrace[1].threads
    /\ stopFlag = _TETrace[1].stopFlag
    /\ wpc = _TETrace[1].wpc
    /\ minT = _TETrace[1].minT
    /\ ended = _TETrace[1].ended
----

_next ==
    /\ \E i,j \in DOMAIN _TETrace:
        /\ \/ /\ j = i + 1
              /\ i = TLCGet("level")
        /\ undo  = _TETrace[i].undo
        /\ undo' = _TETrace[j].undo
        /\ ready  = _TETrace[i].ready
        /\ ready' = _TETrace[j].ready
        /\ ninit  = _TETrace[i].ninit
        /\ ninit' = _TETrace[j].ninit
        /\ erased  = _TETrace[i].erased
        /\ erased' = _TETrace[j].erased
        /\ idle  = _TETrace[i].idle
        /\ idle' = _TETrace[j].idle
        /\ cur  = _TETrace[i].cur
        /\ cur' = _TETrace[j].cur
        /\ crash  = _TETrace[i].crash
        /\ crash' = _TETrace[j].crash
        /\ loopQ  = _TETrace[i].loopQ
        /\ loopQ' = _TETrace[j].loopQ
        /\ nq  = _TETrace[i].nq
        /\ nq' = _TETrace[j].nq
        /\ pendSpawn  = _TETrace[i].pendSpawn
        /\ pendSpawn' = _TETrace[j].pendSpawn
        /\ accepted  = _TETrace[i].accepted
        /\ accepted' = _TETrace[j].accepted
        /\ cv  = _TETrace[i].cv
        /\ cv' = _TETrace[j].cv
        /\ began  = _TETrace[i].began
        /\ began' = _TETrace[j].began
        /\ dropped  = _TETrace[i].dropped
        /\ dropped' = _TETrace[j].dropped
        /\ collected  = _TETrace[i].collected
        /\ collected' = _TETrace[j].collected
        /\ exiting  = _TETrace[i].exiting
        /\ exiting' = _TETrace[j].exiting
        /\ hasCb  = _TETrace[i].hasCb
        /\ hasCb' = _TETrace[j].hasCb
        /\ cbRan  = _TETrace[i].cbRan
        /\ cbRan' = _TETrace[j].cbRan
        /\ left  = _TETrace[i].left
        /\ left' = _TETrace[j].left
        /\ lastQ  = _TETrace[i].lastQ
        /\ lastQ' = _TETrace[j].lastQ
        /\ taken  = _TETrace[i].taken
        /\ taken' = _TETrace[j].taken
        /\ maxT  = _TETrace[i].maxT
        /\ maxT' = _TETrace[j].maxT
        /\ cancelledOk  = _TETrace[i].cancelledOk
        /\ cancelledOk' = _TETrace[j].cancelledOk
        /\ insec  = _TETrace[i].insec
        /\ insec' = _TETrace[j].insec
        /\ doing  = _TETrace[i].doing
        /\ doing' = _TETrace[j].doing
        /\ mpc  = _TETrace[i].mpc
        /\ mpc' = _TETrace[j].mpc
        /\ threads  = _TETrace[i].threads
        /\ threads' = _TETrace[j].threads
        /\ stopFlag  = _TETrace[i].stopFlag
        /\ stopFlag' = _TETrace[j].stopFlag
        /\ wpc  = _TETrace[i].wpc
        /\ wpc' = _TETrace[j].wpc
        /\ minT  = _TETrace[i].minT
        /\ minT' = _TETrace[j].minT
        /\ ended  = _TETrace[i].ended
        /\ ended' = _TETrace[j].ended

\* Uncomment the ASSUME below to write the states of the error trace
\* to the given file in Json format. Note that you can pass any tuple
\* to `JsonSerialize`. For example, a sub-sequence of _TETrace.
    \* ASSUME
    \*     LET J == INSTANCE Json
    \*         IN J!JsonSerialize("MC_ThreadPool_TTrace_1790992082.json", _TETrace)

=============================================================================

 Note that you can extract this module `MC_ThreadPool_TEExpression`
  to a dedicated file to reuse `expression` (the module in the 
  dedicated `MC_ThreadPool_TEExpression.tla` file takes precedence 
  over the module `MC_ThreadPool_TEExpression` below).

---- MODULE MC_ThreadPool_TEExpression ----
EXTENDS Sequences, TLCExt, Toolbox, Naturals, TLC, MC_ThreadPool

expression == 
    [
        \* To hide variables of the `MC_ThreadPool` spec from the error trace,
        \* remove the variables below.  The trace will be written in the order
        \* of the fields of this record.
        undo |-> undo
        ,ready |-> ready
        ,ninit |-> ninit
        ,erased |-> erased
        ,idle |-> idle
        ,cur |-> cur
        ,crash |-> crash
        ,loopQ |-> loopQ
        ,nq |-> nq
        ,pendSpawn |-> pendSpawn
        ,accepted |-> accepted
        ,cv |-> cv
        ,began |-> began
        ,dropped |-> dropped
        ,collected |-> collected
        ,exiting |-> exiting
        ,hasCb |-> hasCb
        ,cbRan |-> cbRan
        ,left |-> left
        ,lastQ |-> lastQ
        ,taken |-> taken
        ,maxT |-> maxT
        ,cancelledOk |-> cancelledOk
        ,insec |-> insec
        ,doing |-> doing
        ,mpc |-> mpc
        ,threads |-> threads
        ,stopFlag |-> stopFlag
        ,wpc |-> wpc
        ,minT |-> minT
        ,ended |-> ended
        
        \* Put additional constant-, state-, and action-level expressions here:
        \* ,_stateNumber |-> _TEPosition
        \* ,_undoUnchanged |-> undo = undo'
        
        \* Format the `undo` variable as Json value.
        \* ,_undoJson |->
        \*     LET J == INSTANCE Json
        \*     IN J!ToJson(undo)
        
        \* Lastly, you may build expressions over arbitrary sets of states by
        \* leveraging the _TETrace operator.  For example, this is how to
        \* count the number of times a spec variable changed up to the current
        \* state in the trace.
        \* ,_undoModCount |->
        \*     LET F[s \in DOMAIN _TETrace] ==
        \*         IF s = 1 THEN 0
        \*         ELSE IF _TETrace[s].undo # _TETrace[s-1].undo
        \*             THEN 1 + F[s-1] ELSE F[s-1]
        \*     IN F[_TEPosition - 1]
    ]

=============================================================================



Parsing and semantic processing can take forever if the trace below is long.
 In this case, it is advised to uncomment the module below to deserialize the
 trace from a generated binary file.

\*
\*---- MODULE MC_ThreadPool_TETrace ----
\*EXTENDS IOUtils, TLC, MC_ThreadPool
\*
\*trace == IODeserialize("MC_ThreadPool_TTrace_1790992082.bin", TRUE)
\*
\*=============================================================================
\*

---- MODULE MC_ThreadPool_TETrace ----
EXTENDS TLC, MC_ThreadPool

trace == 
    <<
    ([ninit |-> 0,cur |-> <<0, 0>>,doing |-> {},nq |-> 0,maxT |-> 0,dropped |-> {},collected |-> {},loopQ |-> <<>>,cancelledOk |-> {},crash |-> FALSE,pendSpawn |-> {},undo |-> (0 :> <<>> @@ 1 :> <<>>),ready |-> FALSE,taken |-> <<0, 0>>,exiting |-> {},cbRan |-> <<0, 0>>,mpc |-> "idle",stopFlag |-> FALSE,lastQ |-> [k |-> "none"],idle |-> {},began |-> <<0, 0>>,accepted |-> {},threads |-> {},wpc |-> <<"none", "none">>,minT |-> 0,erased |-> {},cv |-> {},left |-> {},insec |-> {},ended |-> {},hasCb |-> {}]),
    ([ninit |-> 1,cur |-> <<0, 0>>,doing |-> {},nq |-> 0,maxT |-> 0,dropped |-> {},collected |-> {},loopQ |-> <<>>,cancelledOk |-> {},crash |-> FALSE,pendSpawn |-> {},undo |-> (0 :> <<>> @@ 1 :> <<>>),ready |-> FALSE,taken |-> <<0, 0>>,exiting |-> {},cbRan |-> <<0, 0>>,mpc |-> "init_locked",stopFlag |-> FALSE,lastQ |-> [k |-> "none"],idle |-> {},began |-> <<0, 0>>,accepted |-> {},threads |-> {},wpc |-> <<"none", "none">>,minT |-> 0,erased |-> {},cv |-> {},left |-> {},insec |-> {},ended |-> {},hasCb |-> {}]),
    ([ninit |-> 1,cur |-> <<0, 0>>,doing |-> {},nq |-> 0,maxT |-> 1,dropped |-> {},collected |-> {},loopQ |-> <<>>,cancelledOk |-> {},crash |-> FALSE,pendSpawn |-> {},undo |-> (0 :> <<>> @@ 1 :> <<>>),ready |-> TRUE,taken |-> <<0, 0>>,exiting |-> {},cbRan |-> <<0, 0>>,mpc |-> "idle",stopFlag |-> FALSE,lastQ |-> [k |-> "none"],idle |-> {},began |-> <<0, 0>>,accepted |-> {},threads |-> {},wpc |-> <<"none", "none">>,minT |-> 0,erased |-> {},cv |-> {},left |-> {},insec |-> {},ended |-> {},hasCb |-> {}]),
    ([ninit |-> 1,cur |-> <<0, 0>>,doing |-> {},nq |-> 0,maxT |-> 1,dropped |-> {},collected |-> {},loopQ |-> <<>>,cancelledOk |-> {},crash |-> FALSE,pendSpawn |-> {1},undo |-> (0 :> <<>> @@ 1 :> <<>>),ready |-> TRUE,taken |-> <<0, 0>>,exiting |-> {},cbRan |-> <<0, 0>>,mpc |-> "exec_locked",stopFlag |-> FALSE,lastQ |-> [k |-> "none"],idle |-> {},began |-> <<0, 0>>,accepted |-> {},threads |-> {1},wpc |-> <<"start", "none">>,minT |-> 0,erased |-> {},cv |-> {},left |-> {},insec |-> {},ended |-> {},hasCb |-> {}]),
    ([ninit |-> 1,cur |-> <<0, 0>>,doing |-> {},nq |-> 0,maxT |-> 1,dropped |-> {},collected |-> {},loopQ |-> <<>>,cancelledOk |-> {},crash |-> FALSE,pendSpawn |-> {},undo |-> (0 :> <<2>> @@ 1 :> <<>>),ready |-> TRUE,taken |-> <<0, 0>>,exiting |-> {},cbRan |-> <<0, 0>>,mpc |-> "exec_notify",stopFlag |-> FALSE,lastQ |-> [k |-> "none"],idle |-> {},began |-> <<0, 0>>,accepted |-> {2},threads |-> {1},wpc |-> <<"start", "none">>,minT |-> 0,erased |-> {},cv |-> {},left |-> {},insec |-> {},ended |-> {},hasCb |-> {}]),
    ([ninit |-> 1,cur |-> <<0, 0>>,doing |-> {},nq |-> 0,maxT |-> 1,dropped |-> {},collected |-> {},loopQ |-> <<>>,cancelledOk |-> {},crash |-> FALSE,pendSpawn |-> {},undo |-> (0 :> <<2>> @@ 1 :> <<>>),ready |-> TRUE,taken |-> <<0, 0>>,exiting |-> {},cbRan |-> <<0, 0>>,mpc |-> "idle",stopFlag |-> FALSE,lastQ |-> [k |-> "none"],idle |-> {},began |-> <<0, 0>>,accepted |-> {2},threads |-> {1},wpc |-> <<"start", "none">>,minT |-> 0,erased |-> {},cv |-> {},left |-> {},insec |-> {},ended |-> {},hasCb |-> {}]),
    ([ninit |-> 1,cur |-> <<0, 0>>,doing |-> {},nq |-> 0,maxT |-> 1,dropped |-> {},collected |-> {},loopQ |-> <<>>,cancelledOk |-> {},crash |-> FALSE,pendSpawn |-> {},undo |-> (0 :> <<2>> @@ 1 :> <<>>),ready |-> TRUE,taken |-> <<0, 0>>,exiting |-> {},cbRan |-> <<0, 0>>,mpc |-> "idle",stopFlag |-> FALSE,lastQ |-> [k |-> "none"],idle |-> {1},began |-> <<0, 0>>,accepted |-> {2},threads |-> {1},wpc |-> <<"pred", "none">>,minT |-> 0,erased |-> {},cv |-> {},left |-> {},insec |-> {},ended |-> {},hasCb |-> {}]),
    ([ninit |-> 1,cur |-> <<0, 0>>,doing |-> {},nq |-> 0,maxT |-> 1,dropped |-> {},collected |-> {},loopQ |-> <<>>,cancelledOk |-> {},crash |-> FALSE,pendSpawn |-> {},undo |-> (0 :> <<2>> @@ 1 :> <<>>),ready |-> TRUE,taken |-> <<0, 0>>,exiting |-> {},cbRan |-> <<0, 0>>,mpc |-> "idle",stopFlag |-> FALSE,lastQ |-> [k |-> "none"],idle |-> {},began |-> <<0, 0>>,accepted |-> {2},threads |-> {1},wpc |-> <<"pop", "none">>,minT |-> 0,erased |-> {},cv |-> {},left |-> {},insec |-> {},ended |-> {},hasCb |-> {}]),
    ([ninit |-> 1,cur |-> <<2, 0>>,doing |-> {2},nq |-> 0,maxT |-> 1,dropped |-> {},collected |-> {},loopQ |-> <<>>,cancelledOk |-> {},crash |-> FALSE,pendSpawn |-> {},undo |-> (0 :> <<>> @@ 1 :> <<>>),ready |-> TRUE,taken |-> <<0, 1>>,exiting |-> {},cbRan |-> <<0, 0>>,mpc |-> "idle",stopFlag |-> FALSE,lastQ |-> [k |-> "none"],idle |-> {},began |-> <<0, 0>>,accepted |-> {2},threads |-> {1},wpc |-> <<"body", "none">>,minT |-> 0,erased |-> {},cv |-> {},left |-> {},insec |-> {},ended |-> {},hasCb |-> {}]),
    ([ninit |-> 1,cur |-> <<2, 0>>,doing |-> {2},nq |-> 0,maxT |-> 1,dropped |-> {},collected |-> {},loopQ |-> <<>>,cancelledOk |-> {},crash |-> FALSE,pendSpawn |-> {},undo |-> (0 :> <<>> @@ 1 :> <<>>),ready |-> TRUE,taken |-> <<0, 1>>,exiting |-> {},cbRan |-> <<0, 0>>,mpc |-> "idle",stopFlag |-> FALSE,lastQ |-> [k |-> "none"],idle |-> {},began |-> <<0, 1>>,accepted |-> {2},threads |-> {1},wpc |-> <<"bodyend", "none">>,minT |-> 0,erased |-> {},cv |-> {},left |-> {},insec |-> {},ended |-> {},hasCb |-> {}]),
    ([ninit |-> 1,cur |-> <<2, 0>>,doing |-> {2},nq |-> 0,maxT |-> 1,dropped |-> {},collected |-> {},loopQ |-> <<>>,cancelledOk |-> {},crash |-> FALSE,pendSpawn |-> {},undo |-> (0 :> <<>> @@ 1 :> <<>>),ready |-> TRUE,taken |-> <<0, 1>>,exiting |-> {},cbRan |-> <<0, 0>>,mpc |-> "idle",stopFlag |-> FALSE,lastQ |-> [k |-> "none"],idle |-> {},began |-> <<0, 1>>,accepted |-> {2},threads |-> {1},wpc |-> <<"erase", "none">>,minT |-> 0,erased |-> {},cv |-> {},left |-> {},insec |-> {},ended |-> {2},hasCb |-> {}]),
    ([ninit |-> 1,cur |-> <<0, 0>>,doing |-> {},nq |-> 0,maxT |-> 1,dropped |-> {},collected |-> {},loopQ |-> <<>>,cancelledOk |-> {},crash |-> FALSE,pendSpawn |-> {},undo |-> (0 :> <<>> @@ 1 :> <<>>),ready |-> TRUE,taken |-> <<0, 1>>,exiting |-> {},cbRan |-> <<0, 0>>,mpc |-> "idle",stopFlag |-> FALSE,lastQ |-> [k |-> "none"],idle |-> {},began |-> <<0, 1>>,accepted |-> {2},threads |-> {1},wpc |-> <<"start", "none">>,minT |-> 0,erased |-> {2},cv |-> {},left |-> {},insec |-> {},ended |-> {2},hasCb |-> {}]),
    ([ninit |-> 1,cur |-> <<0, 0>>,doing |-> {},nq |-> 0,maxT |-> 1,dropped |-> {},collected |-> {},loopQ |-> <<>>,cancelledOk |-> {},crash |-> FALSE,pendSpawn |-> {},undo |-> (0 :> <<>> @@ 1 :> <<>>),ready |-> TRUE,taken |-> <<0, 1>>,exiting |-> {1},cbRan |-> <<0, 0>>,mpc |-> "idle",stopFlag |-> FALSE,lastQ |-> [k |-> "none"],idle |-> {},began |-> <<0, 1>>,accepted |-> {2},threads |-> {1},wpc |-> <<"exit2", "none">>,minT |-> 0,erased |-> {2},cv |-> {},left |-> {},insec |-> {},ended |-> {2},hasCb |-> {}]),
    ([ninit |-> 1,cur |-> <<0, 0>>,doing |-> {},nq |-> 0,maxT |-> 1,dropped |-> {},collected |-> {},loopQ |-> <<>>,cancelledOk |-> {},crash |-> FALSE,pendSpawn |-> {},undo |-> (0 :> <<>> @@ 1 :> <<>>),ready |-> TRUE,taken |-> <<0, 1>>,exiting |-> {1},cbRan |-> <<0, 0>>,mpc |-> "exec_locked",stopFlag |-> FALSE,lastQ |-> [k |-> "none"],idle |-> {},began |-> <<0, 1>>,accepted |-> {2},threads |-> {1},wpc |-> <<"exit2", "none">>,minT |-> 0,erased |-> {2},cv |-> {},left |-> {},insec |-> {},ended |-> {2},hasCb |-> {}]),
    ([ninit |-> 1,cur |-> <<0, 0>>,doing |-> {},nq |-> 0,maxT |-> 1,dropped |-> {},collected |-> {},loopQ |-> <<>>,cancelledOk |-> {},crash |-> FALSE,pendSpawn |-> {},undo |-> (0 :> <<1>> @@ 1 :> <<>>),ready |-> TRUE,taken |-> <<0, 1>>,exiting |-> {1},cbRan |-> <<0, 0>>,mpc |-> "exec_notify",stopFlag |-> FALSE,lastQ |-> [k |-> "none"],idle |-> {},began |-> <<0, 1>>,accepted |-> {1, 2},threads |-> {1},wpc |-> <<"exit2", "none">>,minT |-> 0,erased |-> {2},cv |-> {},left |-> {},insec |-> {},ended |-> {2},hasCb |-> {}])
    >>
----


=============================================================================

---- CONFIG MC_ThreadPool_TTrace_1790992082 ----
CONSTANTS
    Tasks = { 1 , 2 }
    Workers = { 1 , 2 }
    Levels = { 0 , 1 }
    MinT = 0
    MaxT = 1
    AsFoundMark = FALSE
    AsFoundFlag = FALSE
    AsFoundExit = TRUE
    MaxQueries = 0
    Reinit = 0

INVARIANT
    _inv

CHECK_DEADLOCK
    \* CHECK_DEADLOCK off because of PROPERTY or INVARIANT above.
    FALSE

INIT
    _init

NEXT
    _next

CONSTANT
    _TETrace <- _trace

ALIAS
    _expression
=============================================================================
\* Generated on Sat Oct 03 01:48:05 UTC 2026