----------------------------- MODULE ThreadPool -----------------------------
(* C05 - interleaving model of tbox::eventx::ThreadPool: the loop thread (M) issuing initialize /      *)
(* execute / getTaskStatus / cancel / cleanup and running posted closures, and the worker threads       *)
(* running threadProc.  Data and per-section effects come from ThreadPoolData; this module adds the     *)
(* mutex, the condition variable, program counters and the loop's queue of posted closures.              *)
(* Three switches reproduce the code as found (before the fix: commits): TLC must find the               *)
(* corresponding violation with the switch on and none with all switches off.                             *)
EXTENDS ThreadPoolData
CONSTANTS MinT, MaxT,        \* configuration under test
          AsFoundMark,       \* "doing" insert in a separate critical section after the pop
          AsFoundFlag,       \* stop flag written outside the mutex (cleanup) / reset after the workers start (initialize)
          AsFoundExit,       \* exiting worker leaves the cabinet in a later critical section
          MaxQueries, Reinit \* bounds of the loop thread's script
VARIABLES mpc,    \* loop thread: "idle" | "exec_notify" | "cl_flag" | "cl_notify" | "cl_join" | "init_flag"
          wpc,    \* worker: "none" | "start" | "pred" | "predfalse" | "pop" | "leave" | "blocked" | "reacq" | "mark" | "body" | "bodyend" | "post" | "erase" | "exit2" | "gone"
          cur,    \* worker's task
          cv,     \* workers blocked in cond_var.wait
          loopQ,  \* closures posted to the loop: <<"cb", t>> / <<"join", w>>
          nq, ninit, crash
vars == <<dvars, mpc, wpc, cur, cv, loopQ, nq, ninit, crash>>
cvarsU == UNCHANGED <<mpc, wpc, cur, cv, loopQ, nq, ninit, crash>>

LockFree == (\A w \in Workers : wpc[w] \notin {"pred", "predfalse", "pop"}) /\ mpc \notin {"exec_locked", "init_locked"}
Init == /\ DInit /\ mpc = "idle" /\ wpc = [w \in Workers |-> "none"] /\ cur = [w \in Workers |-> None]
        /\ cv = {} /\ loopQ = <<>> /\ nq = 0 /\ ninit = 0 /\ crash = FALSE

FreshWorker == CHOOSE w \in Workers : wpc[w] = "none" /\ w \notin threads
HaveFresh == \E w \in Workers : wpc[w] = "none" /\ w \notin threads

(* ------------------------------------------ loop thread ------------------------------------------ *)
\* initialize(MinT, MaxT): one critical section that spawns MinT workers, then (as found) resets the flag outside it
MInitBegin ==
  /\ mpc = "idle" /\ ~ready /\ LockFree /\ ninit <= Reinit /\ loopQ = <<>>
  /\ mpc' = "init_locked" /\ ninit' = ninit + 1
  /\ IF AsFoundFlag THEN UNCHANGED dvars
     ELSE /\ stopFlag' = FALSE
          /\ UNCHANGED <<minT, maxT, ready, undo, doing, idle, threads, exiting, collected, left, pendSpawn, lastQ>> /\ UNCH_GHOST
  /\ UNCHANGED <<wpc, cur, cv, loopQ, nq, crash>>
MInitSpawn ==
  /\ mpc = "init_locked" /\ Cardinality(pendSpawn) < MinT /\ HaveFresh
  /\ LET w == FreshWorker IN DSpawn(w) /\ wpc' = [wpc EXCEPT ![w] = "start"]
  /\ UNCHANGED <<mpc, cur, cv, loopQ, nq, ninit, crash>>
MInitEnd ==
  /\ mpc = "init_locked" /\ Cardinality(pendSpawn) = MinT
  /\ IF AsFoundFlag
     THEN /\ minT' = MinT /\ maxT' = MaxT /\ ready' = TRUE /\ pendSpawn' = {}     \* flag not yet reset
          /\ UNCHANGED <<undo, doing, idle, threads, stopFlag, exiting, collected, left, lastQ>> /\ UNCH_GHOST
          /\ mpc' = "init_flag"
     ELSE DInitialize(MinT, MaxT) /\ mpc' = "idle"
  /\ UNCHANGED <<wpc, cur, cv, loopQ, nq, ninit, crash>>
MInitFlag ==     \* as found: all_threads_stop_flag = false after the critical section
  /\ mpc = "init_flag" /\ stopFlag' = FALSE /\ mpc' = "idle"
  /\ UNCHANGED <<minT, maxT, ready, undo, doing, idle, threads, exiting, collected, left, pendSpawn, lastQ>> /\ UNCH_GHOST
  /\ UNCHANGED <<wpc, cur, cv, loopQ, nq, ninit, crash>>
\* execute(): lock; push; spawn decision; unlock; notify_one
MExecBegin ==
  /\ mpc = "idle" /\ LockFree /\ ready /\ accepted # Tasks /\ (ShouldSpawn => HaveFresh) /\ mpc' = "exec_locked"
  /\ IF ShouldSpawn
     THEN LET w == FreshWorker IN DSpawn(w) /\ wpc' = [wpc EXCEPT ![w] = "start"]
     ELSE UNCHANGED dvars /\ UNCHANGED wpc
  /\ UNCHANGED <<cur, cv, loopQ, nq, ninit, crash>>
MExecPush(t, lvl, cb) ==
  /\ mpc = "exec_locked" /\ DExec(t, lvl, cb) /\ mpc' = "exec_notify"
  /\ UNCHANGED <<wpc, cur, cv, loopQ, nq, ninit, crash>>
MNotifyOne ==    \* cond_var.notify_one(): wakes any one waiter (or nobody)
  /\ mpc = "exec_notify" /\ mpc' = "idle"
  /\ IF cv = {} THEN UNCHANGED <<wpc, cv>>
     ELSE \E w \in cv : cv' = cv \ {w} /\ wpc' = [wpc EXCEPT ![w] = "reacq"]
  /\ UNCHANGED dvars /\ UNCHANGED <<cur, loopQ, nq, ninit, crash>>
MStatus(t) ==
  /\ mpc = "idle" /\ LockFree /\ ready /\ nq < MaxQueries /\ t \in accepted
  /\ DStatus(t, WouldStatus(t)) /\ nq' = nq + 1 /\ UNCHANGED <<mpc, wpc, cur, cv, loopQ, ninit, crash>>
MCancel(t) ==
  /\ mpc = "idle" /\ LockFree /\ ready /\ nq < MaxQueries /\ t \in accepted
  /\ DCancel(t, WouldCancel(t)) /\ nq' = nq + 1 /\ UNCHANGED <<mpc, wpc, cur, cv, loopQ, ninit, crash>>
MCleanupCollect ==
  /\ mpc = "idle" /\ LockFree /\ ready /\ DCollect(~AsFoundFlag)
  /\ mpc' = (IF AsFoundFlag THEN "cl_flag" ELSE "cl_notify") /\ UNCHANGED <<wpc, cur, cv, loopQ, nq, ninit, crash>>
MCleanupFlag ==
  /\ mpc = "cl_flag" /\ DSetFlag /\ mpc' = "cl_notify" /\ UNCHANGED <<wpc, cur, cv, loopQ, nq, ninit, crash>>
MCleanupNotify ==   \* notify_all
  /\ mpc = "cl_notify" /\ mpc' = "cl_join" /\ cv' = {}
  /\ wpc' = [w \in Workers |-> IF w \in cv THEN "reacq" ELSE wpc[w]]
  /\ UNCHANGED dvars /\ UNCHANGED <<cur, loopQ, nq, ninit, crash>>
MCleanupJoin ==     \* returns once every collected worker's thread has finished
  /\ mpc = "cl_join" /\ \A w \in collected : wpc[w] = "gone"
  /\ DJoined /\ mpc' = "idle" /\ UNCHANGED <<wpc, cur, cv, loopQ, nq, ninit, crash>>
MRunClosure ==      \* the loop runs the next posted closure
  /\ mpc = "idle" /\ loopQ # <<>>
  /\ LET c == Head(loopQ) IN
     IF c[1] = "cb" THEN DCbRun(c[2]) /\ UNCHANGED crash
     ELSE /\ (c[2] = None \/ wpc[c[2]] = "gone")      \* join blocks until the thread has finished
          /\ crash' = (crash \/ c[2] = None)           \* join through a null thread pointer
          /\ UNCHANGED dvars
  /\ loopQ' = Tail(loopQ) /\ UNCHANGED <<mpc, wpc, cur, cv, nq, ninit>>

(* --------------------------------------------- workers --------------------------------------------- *)
WTop(w) ==       \* lock; exit decision or ++idle and evaluate the wait predicate
  /\ wpc[w] = "start" /\ LockFree
  /\ IF ExitCond(w)
     THEN IF AsFoundExit
          THEN /\ DExitDecide(w, FALSE) /\ wpc' = [wpc EXCEPT ![w] = "exit2"] /\ UNCHANGED loopQ
          ELSE /\ DExitDecide(w, TRUE) /\ wpc' = [wpc EXCEPT ![w] = "leave"]
               /\ loopQ' = Append(loopQ, <<"join", w>>)
     ELSE /\ DWait(w) /\ wpc' = [wpc EXCEPT ![w] = "pred"] /\ UNCHANGED loopQ
  /\ UNCHANGED <<mpc, cur, cv, nq, ninit, crash>>
WPred(w) ==      \* the predicate of cond_var.wait, evaluated under the lock
  /\ wpc[w] = "pred"
  /\ IF stopFlag \/ Waiting # {}
     THEN /\ DWoken(w, stopFlag)
          /\ wpc' = [wpc EXCEPT ![w] = IF stopFlag THEN "leave" ELSE "pop"]
     ELSE /\ wpc' = [wpc EXCEPT ![w] = "predfalse"] /\ UNCHANGED dvars
  /\ UNCHANGED <<mpc, cur, cv, loopQ, nq, ninit, crash>>
WBlock(w) ==     \* wait(): release the mutex and block (atomically)
  /\ wpc[w] = "predfalse" /\ wpc' = [wpc EXCEPT ![w] = "blocked"] /\ cv' = cv \cup {w}
  /\ UNCHANGED dvars /\ UNCHANGED <<mpc, cur, loopQ, nq, ninit, crash>>
WReacquire(w) ==
  /\ wpc[w] = "reacq" /\ LockFree /\ wpc' = [wpc EXCEPT ![w] = "pred"]
  /\ UNCHANGED dvars /\ UNCHANGED <<mpc, cur, cv, loopQ, nq, ninit, crash>>
WPop(w) ==       \* still inside the critical section of WPred (pc "pop" holds the lock too: see LockFree2)
  /\ wpc[w] = "pop"
  /\ LET t == HeadTask IN
     /\ DPop(w, t, ~AsFoundMark, FALSE) /\ cur' = [cur EXCEPT ![w] = t]
     /\ wpc' = [wpc EXCEPT ![w] = IF t = None THEN "start" ELSE IF AsFoundMark THEN "mark" ELSE "body"]
  /\ UNCHANGED <<mpc, cv, loopQ, nq, ninit, crash>>
WMark(w) ==
  /\ wpc[w] = "mark" /\ LockFree /\ DMark(w, cur[w]) /\ wpc' = [wpc EXCEPT ![w] = "body"]
  /\ UNCHANGED <<mpc, cur, cv, loopQ, nq, ninit, crash>>
WBodyBegin(w) ==
  /\ wpc[w] = "body" /\ DBodyBegin(w, cur[w]) /\ wpc' = [wpc EXCEPT ![w] = "bodyend"]
  /\ UNCHANGED <<mpc, cur, cv, loopQ, nq, ninit, crash>>
WBodyEnd(w) ==   \* body returns; the completion callback is posted to the loop
  /\ wpc[w] = "bodyend" /\ DBodyEnd(w, cur[w]) /\ wpc' = [wpc EXCEPT ![w] = "erase"]
  /\ loopQ' = (IF cur[w] \in hasCb THEN Append(loopQ, <<"cb", cur[w]>>) ELSE loopQ)
  /\ UNCHANGED <<mpc, cur, cv, nq, ninit, crash>>
WErase(w) ==
  /\ wpc[w] = "erase" /\ LockFree /\ DErase(w, cur[w]) /\ wpc' = [wpc EXCEPT ![w] = "start"]
  /\ cur' = [cur EXCEPT ![w] = None] /\ UNCHANGED <<mpc, cv, loopQ, nq, ninit, crash>>
WLeave(w) ==     \* past the loop: "tp.w.leaving"; the thread function returns
  /\ wpc[w] = "leave" /\ DLeaving(w) /\ wpc' = [wpc EXCEPT ![w] = "gone"]
  /\ UNCHANGED <<mpc, cur, cv, loopQ, nq, ninit, crash>>
WExit2(w) ==     \* as found: second critical section of an exiting worker
  /\ wpc[w] = "exit2" /\ LockFree /\ DExitFree(w, w \in threads)
  /\ loopQ' = Append(loopQ, <<"join", IF w \in threads THEN w ELSE None>>)
  /\ wpc' = [wpc EXCEPT ![w] = "leave"] /\ UNCHANGED <<mpc, cur, cv, nq, ninit, crash>>

MInit == MInitBegin \/ MInitSpawn \/ MInitEnd
MExec == MExecBegin \/ \E t \in Tasks, lvl \in Levels, cb \in BOOLEAN : MExecPush(t, lvl, cb)
MQuery == \E t \in Tasks : MStatus(t) \/ MCancel(t)
MStep == MInitFlag \/ MNotifyOne \/ MCleanupFlag \/ MCleanupNotify \/ MCleanupJoin \/ MRunClosure
WStep(w) == WTop(w) \/ WPred(w) \/ WBlock(w) \/ WReacquire(w) \/ WPop(w) \/ WMark(w) \/ WBodyBegin(w) \/ WBodyEnd(w)
            \/ WErase(w) \/ WLeave(w) \/ WExit2(w)
WAny == \E w \in Workers : WStep(w)
Next == MInit \/ MExec \/ MQuery \/ MCleanupCollect \/ MStep \/ WAny
Spec == Init /\ [][Next]_vars
\* fairness: threads that can move do move; the loop thread finishes what it started and keeps running closures
FairSpec == Spec /\ WF_vars(MStep \/ MInitSpawn \/ MInitEnd \/ (\E t \in Tasks, lvl \in Levels, cb \in BOOLEAN : MExecPush(t, lvl, cb))) /\ \A w \in Workers : WF_vars(WStep(w))

(* ------------------------------------------- properties ------------------------------------------- *)
NoCrash == ~crash
CleanupTerminates == (mpc = "cl_join") ~> (mpc = "idle")
TaskProgress == \A t \in Tasks : (t \in accepted) ~> (t \in erased \/ t \in cancelledOk \/ t \in dropped)
CallbackProgress == \A t \in Tasks : (t \in ended /\ t \in hasCb) ~> (cbRan[t] = 1)
=============================================================================
