CONSTANTS
  Tasks = {1}
  Workers = {1}
  Levels = {0, 1}
  MinT = 1
  MaxT = 1
  AsFoundMark = FALSE
  AsFoundFlag = TRUE
  AsFoundExit = FALSE
  MaxQueries = 0
  Reinit = 0
SPECIFICATION FairSpec
INVARIANTS RunAtMostOnce NeverRunIfCancelledOrDropped NoLimbo AnswerTruthful CallbackOnceAfterBody MaxWorkers NoOrphanTask LeftNotCounted DataTypeOK NoCrash
CHECK_DEADLOCK FALSE
PROPERTIES CleanupTerminates
