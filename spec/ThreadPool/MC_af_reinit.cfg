CONSTANTS
  Tasks = {1}
  Workers = {1, 2}
  Levels = {0, 1}
  MinT = 1
  MaxT = 1
  AsFoundMark = FALSE
  AsFoundFlag = TRUE
  AsFoundExit = FALSE
  MaxQueries = 0
  Reinit = 1
SPECIFICATION Spec
INVARIANTS RunAtMostOnce NeverRunIfCancelledOrDropped NoLimbo AnswerTruthful CallbackOnceAfterBody MaxWorkers NoOrphanTask LeftNotCounted DataTypeOK NoCrash
CHECK_DEADLOCK FALSE
