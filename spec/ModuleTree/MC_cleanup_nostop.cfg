CONSTANTS
  V = {"cleanup_nostop"}
  MaxN = 3
SPECIFICATION Spec
INVARIANTS TypeOK CleanupOnlyAfterStop
CHECK_DEADLOCK FALSE
