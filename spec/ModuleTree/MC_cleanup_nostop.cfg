CONSTANTS
  V = {"cleanup_nostop"}
  MaxN = 3
  Vary = FALSE
SPECIFICATION Spec
INVARIANTS TypeOK CleanupOnlyAfterStop
CHECK_DEADLOCK FALSE
