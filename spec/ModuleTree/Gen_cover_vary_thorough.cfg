CONSTANTS
  V = {}
  MaxN = 3
  Vary = TRUE
  Depth = 12
  Cover = TRUE
SPECIFICATION GSpec
VIEW View
CONSTRAINT Emit
CHECK_DEADLOCK FALSE
