--------------------------- MODULE ModuleTree ---------------------------
(* C11 - the model: every program (tree shape x required/optional x hook outcomes) with at most MaxN   *)
(* modules, driven by arbitrary (repeated, out-of-order) initialize/start/stop/cleanup calls on the    *)
(* root and finally destroyed.  One action per public call; the call's hook sequence comes from the    *)
(* reference semantics of ModuleTreeDefs and is judged by the property monitor.  The property is the    *)
(* set of invariants below - it is not part of any enabling condition.                                  *)
EXTENDS ModuleTreeDefs
CONSTANT MaxN
VARIABLES prog,    \* the program (never changes)
          st,      \* Module::state_ of every module
          mon,     \* property monitor (ghost)
          ph,      \* obligation phase (ghost)
          dOK,     \* destruction is legitimate now: after cleanup(), or - as Main() does - after a failed first initialize()
          alive
vars == <<prog, st, mon, ph, dOK, alive>>

Bools(n) == [1..n -> BOOLEAN]
Parents(n) == {p \in [1..n -> 0..(n - 1)] :                          \* pre-order numbered trees (Catalan(n-1) of them)
                 p[1] = 0 /\ \A m \in 2..n : p[m] \in AncSelf([parent |-> p], m - 1)}
Reqs(n) == {q \in Bools(n) : q[1]}                                   \* the root has no flag
Outcomes(n) == {o \in Bools(n) \X Bools(n) : \A m \in 1..n : ~o[1][m] => o[2][m]}   \* onStart is irrelevant when onInit fails
\* Programs = all WithDesc([n, parent, req, iok, sok]) with n \in 1..MaxN, parent \in Parents(n), req \in Reqs(n),
\* <<iok, sok>> \in Outcomes(n).  (Not defined as a constant set: TLC would enumerate it eagerly at start-up.)

Init == /\ \E n \in 1..MaxN : \E p \in Parents(n), q \in Reqs(n), o \in Outcomes(n) :       \* any program
             prog = WithDesc([n |-> n, parent |-> p, req |-> q, iok |-> o[1], sok |-> o[2]])
        /\ st = [m \in Mods(prog) |-> "N"]
        /\ mon = MonInit(prog)
        /\ ph = 0 /\ dOK = TRUE /\ alive = TRUE

Do(op) ==
  /\ LET r == RootCall(prog, st, op) IN
       /\ st' = r.st
       /\ mon' = Judge(prog, mon, ph, op, r.ret, r.hk)
       /\ ph' = NextPh(prog, ph, op, r.ret, r.hk)
       /\ dOK' = (op = "cleanup" \/ (op = "initialize" /\ ph = 0 /\ ~r.ret /\ st = [m \in Mods(prog) |-> "N"] /\ dOK))
  /\ UNCHANGED <<prog, alive>>

Initialize == alive /\ Do("initialize")
Start == alive /\ Do("start")
Stop == alive /\ Do("stop")
Cleanup == alive /\ Do("cleanup")
Destroy ==
  /\ alive /\ dOK
  /\ LET r == RootCall(prog, st, "destroy") IN
       /\ st' = r.st
       /\ mon' = Judge(prog, mon, ph, "destroy", TRUE, r.hk)
  /\ alive' = FALSE /\ ph' = 9
  /\ UNCHANGED <<prog, dOK>>

Next == Initialize \/ Start \/ Stop \/ Cleanup \/ Destroy
Spec == Init /\ [][Next]_vars

-----------------------------------------------------------------------------
TypeOK == /\ WellFormed(prog) /\ prog.n <= MaxN /\ st \in [Mods(prog) -> {"N", "I", "R"}] /\ ph \in {0, 1, 9}
          /\ mon.bad \subseteq {"ExactlyOnce", "Nested", "StartOnlyAfterInit", "StopOnlyIfStarted", "ReverseOrder",
                                "CleanupOnlyAfterStop", "Balanced", "HooksCalled", "OptionalFailureIsolated"}
\* the clauses of the statement
Nested                  == "Nested" \notin mon.bad                 \* parent first, children in registration order (pre-order)
ReverseOrder            == "ReverseOrder" \notin mon.bad           \* stop / cleanup in exactly the reverse order
StartOnlyAfterInit      == "StartOnlyAfterInit" \notin mon.bad
StopOnlyIfStarted       == "StopOnlyIfStarted" \notin mon.bad
CleanupOnlyAfterStop    == "CleanupOnlyAfterStop" \notin mon.bad
ExactlyOnce             == "ExactlyOnce" \notin mon.bad            \* no second onInit/onStart before the matching onCleanup/onStop
Balanced                == "Balanced" \notin mon.bad               \* at destruction nothing is left initialised or running
HooksCalled             == "HooksCalled" \notin mon.bad            \* nothing fails: everything is initialised / started
OptionalFailureIsolated == "OptionalFailureIsolated" \notin mon.bad
\* the implementation's state variable agrees with the ghost (intended semantics only)
StateAgrees == alive => \A m \in Mods(prog) : /\ (st[m] = "N") = ~mon.ini[m]
                                              /\ (st[m] = "R") = mon.run[m]
\* after the destruction of a cleaned-up tree no hook is pending
DeadClean == ~alive => \A m \in Mods(prog) : ~mon.ini[m] /\ ~mon.run[m]
\* witness (expected to be violated): the destruction is reachable
NeverDestroyed == alive
=============================================================================
