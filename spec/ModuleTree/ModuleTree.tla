--------------------------- MODULE ModuleTree ---------------------------
(* C11 - the model: every program (tree shape x required/optional x hook outcomes) with at most MaxN   *)
(* modules, driven by arbitrary (repeated, out-of-order) initialize/start/stop/cleanup calls on the    *)
(* root and finally destroyed.  One action per public call; the call's hook sequence comes from the    *)
(* reference semantics of ModuleTreeDefs and is judged by the property monitor.  The property is the    *)
(* set of invariants below - it is not part of any enabling condition.                                  *)
EXTENDS ModuleTreeDefs
CONSTANTS MaxN,    \* programs with 1..MaxN modules
          Vary     \* FALSE: every hook has one fixed result; TRUE: also plans whose first call differs from the later calls
VARIABLES prog,    \* the program (never changes)
          st,      \* implementation state: Module::state_ of every module (+ hook call counters for varying plans)
          mon,     \* property monitor (ghost)
          ph,      \* obligation phase (ghost)
          alive
vars == <<prog, st, mon, ph, alive>>

Bools(n) == [1..n -> BOOLEAN]
Parents(n) == {p \in [1..n -> 0..(n - 1)] :                          \* pre-order numbered trees (Catalan(n-1) of them)
                 p[1] = 0 /\ \A m \in 2..n : p[m] \in AncSelf([parent |-> p], m - 1)}
Reqs(n) == {q \in Bools(n) : q[1]}                                   \* the root has no flag
\* per-module plan <<onInit results, onStart results>> (first call, later calls); onStart is irrelevant when onInit always fails
T2 == <<TRUE, TRUE>>
FixedPlans == {<<T2, T2>>, <<<<FALSE, FALSE>>, T2>>, <<T2, <<FALSE, FALSE>>>>}
VaryPlans == {<<<<FALSE, TRUE>>, T2>>, <<<<TRUE, FALSE>>, T2>>, <<T2, <<FALSE, TRUE>>>>, <<T2, <<TRUE, FALSE>>>>}
Plans == IF Vary THEN FixedPlans \cup VaryPlans ELSE FixedPlans
\* Programs = all WithDesc([n, parent, req, iok, sok]) with n \in 1..MaxN, parent \in Parents(n), req \in Reqs(n),
\* a plan per module.  (Not defined as a constant set: TLC would enumerate it eagerly at start-up.)

Init == /\ \E n \in 1..MaxN : \E p \in Parents(n), q \in Reqs(n), o \in [1..n -> Plans] :       \* any program
             prog = WithDesc([n |-> n, parent |-> p, req |-> q, iok |-> [m \in 1..n |-> o[m][1]], sok |-> [m \in 1..n |-> o[m][2]]])
        /\ st = StInit(prog)
        /\ mon = MonInit(prog)
        /\ ph = 0 /\ alive = TRUE

Do(op) ==
  /\ LET r == RootCall(prog, st, op) IN
       /\ st' = r.st
       /\ mon' = Judge(prog, mon, ph, op, r.ret, r.hk)
       /\ ph' = NextPh(prog, ph, op, r.ret, r.hk)
  /\ UNCHANGED <<prog>>

Initialize == alive /\ Do("initialize") /\ UNCHANGED alive
Start == alive /\ Do("start") /\ UNCHANGED alive
Stop == alive /\ Do("stop") /\ UNCHANGED alive
Cleanup == alive /\ Do("cleanup") /\ UNCHANGED alive
\* the destruction, from EVERY state (running, initialised, after a failed start, ...): see RootCall("destroy")
Destroy == alive /\ Do("destroy") /\ alive' = FALSE

Next == Initialize \/ Start \/ Stop \/ Cleanup \/ Destroy
Spec == Init /\ [][Next]_vars

-----------------------------------------------------------------------------
TypeOK == /\ WellFormed(prog) /\ prog.n <= MaxN /\ st.s \in [Mods(prog) -> {"N", "I", "R"}] /\ ph \in {0, 1, 9}
          /\ mon.bad \subseteq {"ExactlyOnce", "Nested", "StartOnlyAfterInit", "StopOnlyIfStarted", "ReverseOrder",
                                "CleanupOnlyAfterStop", "Balanced", "HooksCalled", "OptionalFailureIsolated"}
\* the clauses of the statement
Nested                  == "Nested" \notin mon.bad                 \* parent first, children in registration order (pre-order)
ReverseOrder            == "ReverseOrder" \notin mon.bad           \* stop / cleanup in exactly the reverse order
StartOnlyAfterInit      == "StartOnlyAfterInit" \notin mon.bad
StopOnlyIfStarted       == "StopOnlyIfStarted" \notin mon.bad
CleanupOnlyAfterStop    == "CleanupOnlyAfterStop" \notin mon.bad
ExactlyOnce             == "ExactlyOnce" \notin mon.bad            \* no second onInit/onStart before the matching onCleanup/onStop
Balanced                == "Balanced" \notin mon.bad               \* at destruction nothing is left initialised or running
HooksCalled             == "HooksCalled" \notin mon.bad            \* nothing fails: everything is initialised / started
OptionalFailureIsolated == "OptionalFailureIsolated" \notin mon.bad
\* the implementation's state variable agrees with the ghost (intended semantics only)
StateAgrees == alive => \A m \in Mods(prog) : /\ (st.s[m] = "N") = ~mon.ini[m]
                                              /\ (st.s[m] = "R") = mon.run[m]
\* after the destruction no hook is pending
DeadClean == ~alive => \A m \in Mods(prog) : ~mon.ini[m] /\ ~mon.run[m]
\* witness (expected to be violated): the destruction is reachable
NeverDestroyed == alive
=============================================================================
