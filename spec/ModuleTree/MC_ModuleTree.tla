---- MODULE MC_ModuleTree ----
EXTENDS ModuleTree
====
