CONSTANTS
  V = {"stop_nogate"}
  MaxN = 3
SPECIFICATION Spec
INVARIANTS TypeOK StopOnlyIfStarted
CHECK_DEADLOCK FALSE
