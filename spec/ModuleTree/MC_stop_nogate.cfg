CONSTANTS
  V = {"stop_nogate"}
  MaxN = 3
  Vary = FALSE
SPECIFICATION Spec
INVARIANTS TypeOK StopOnlyIfStarted
CHECK_DEADLOCK FALSE
