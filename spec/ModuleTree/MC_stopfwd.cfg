CONSTANTS
  V = {"stopfwd"}
  MaxN = 3
SPECIFICATION Spec
INVARIANTS TypeOK ReverseOrder
CHECK_DEADLOCK FALSE
