CONSTANTS
  V = {"stopfwd"}
  MaxN = 3
  Vary = FALSE
SPECIFICATION Spec
INVARIANTS TypeOK ReverseOrder
CHECK_DEADLOCK FALSE
