CONSTANTS
  V = {"skip_last"}
  MaxN = 3
SPECIFICATION Spec
INVARIANTS TypeOK HooksCalled
CHECK_DEADLOCK FALSE
