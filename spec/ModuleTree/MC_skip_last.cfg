CONSTANTS
  V = {"skip_last"}
  MaxN = 3
  Vary = FALSE
SPECIFICATION Spec
INVARIANTS TypeOK HooksCalled
CHECK_DEADLOCK FALSE
