CONSTANTS
  V = {"opt_abort"}
  MaxN = 3
  Vary = FALSE
SPECIFICATION Spec
INVARIANTS TypeOK OptionalFailureIsolated
CHECK_DEADLOCK FALSE
