CONSTANTS
  V = {"opt_abort"}
  MaxN = 3
SPECIFICATION Spec
INVARIANTS TypeOK OptionalFailureIsolated
CHECK_DEADLOCK FALSE
