CONSTANTS
  V = {"init_rev"}
  MaxN = 3
SPECIFICATION Spec
INVARIANTS TypeOK Nested
CHECK_DEADLOCK FALSE
