CONSTANTS
  V = {"init_rev"}
  MaxN = 3
  Vary = FALSE
SPECIFICATION Spec
INVARIANTS TypeOK Nested
CHECK_DEADLOCK FALSE
