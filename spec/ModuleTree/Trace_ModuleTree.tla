------------------------ MODULE Trace_ModuleTree ------------------------
(* Trace validation for C11.  The recorded ndjson trace has, per execution,                          *)
(*   {"e":"prog", n, parent, req, iok, sok, ...}          the program (tree + flags + hook outcomes)  *)
(*   {"e":"call", op, ret, hk:[{h,m,r},...]}              one root call (or "destroy") and every hook *)
(*                                                         that reached a user override during it      *)
(*   {"e":"Reset"}                                                                                     *)
(* A call line is accepted iff the property monitor of ModuleTreeDefs finds nothing wrong with it:     *)
(* every hook permitted where it occurs (nesting, order, start-after-init, stop-if-started,            *)
(* cleanup-after-stop, exactly-once), the obligations of the first initialize()/start() met, and at    *)
(* "destroy" nothing left initialised or running.  No rollback strategy is prescribed.                 *)
EXTENDS ModuleTreeDefs, Json, IOUtils, TLC
Log == ndJsonDeserialize(IOEnv.TRACE)
VARIABLES l, prog, mon, ph
tvars == <<l, prog, mon, ph>>
ASSUME TLCSet(42, 0) /\ TLCSet(43, <<NoProg, MonInit(NoProg), 0>>)

Ev == Log[l]
IsEv(e) == l <= Len(Log) /\ Log[l].e = e /\ l' = l + 1
ProgOf(e) == WithDesc([n |-> e.n, parent |-> e.parent, req |-> e.req, iok |-> e.iok, sok |-> e.sok])

TInit == l = 1 /\ prog = NoProg /\ mon = MonInit(NoProg) /\ ph = 0
TReset == IsEv("Reset") /\ prog' = NoProg /\ mon' = MonInit(NoProg) /\ ph' = 0
TProg == /\ IsEv("prog") /\ prog = NoProg
         /\ prog' = ProgOf(Ev) /\ WellFormed(prog')
         /\ mon' = MonInit(prog') /\ ph' = 0
TCall == /\ IsEv("call") /\ prog # NoProg
         /\ Ev.op \in Ops \cup {"destroy"}
         /\ mon' = Judge(prog, mon, ph, Ev.op, Ev.ret, Ev.hk)
         /\ mon'.bad = {}
         /\ ph' = NextPh(prog, ph, Ev.op, Ev.ret, Ev.hk)
         /\ UNCHANGED prog
TNext == TReset \/ TProg \/ TCall
TSpec == TInit /\ [][TNext]_tvars

TypeOK == ph \in {0, 1, 9} /\ mon.bad = {}

\* acceptance: the whole log was consumed; otherwise say where it stopped and which clauses the line breaks
Progress == IF l > TLCGet(42) THEN TLCSet(42, l) /\ TLCSet(43, <<prog, mon, ph>>) ELSE TRUE
Why == LET k == TLCGet(42)
           s == TLCGet(43)
           e == Log[k]
       IN IF k > Len(Log) THEN {}
          ELSE IF e.e = "call" /\ s[1] # NoProg THEN Judge(s[1], s[2], s[3], e.op, e.ret, e.hk).bad
          ELSE {"unexpected line"}
Accepted == IF TLCGet(42) = Len(Log) + 1 THEN TRUE
            ELSE PrintT(<<"MAXPOS", TLCGet(42), Len(Log)>>) /\ PrintT(<<"WHY", Why>>) /\ FALSE
=============================================================================
