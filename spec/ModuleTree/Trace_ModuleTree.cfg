CONSTANTS
  V = {}
SPECIFICATION TSpec
CONSTRAINT Progress
POSTCONDITION Accepted
INVARIANTS TypeOK
CHECK_DEADLOCK FALSE
