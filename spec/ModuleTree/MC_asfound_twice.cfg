CONSTANTS
  V = {"norollback"}
  MaxN = 3
  Vary = FALSE
SPECIFICATION Spec
INVARIANTS TypeOK ExactlyOnce
CHECK_DEADLOCK FALSE
