CONSTANTS
  V = {"norollback"}
  MaxN = 3
SPECIFICATION Spec
INVARIANTS TypeOK ExactlyOnce
CHECK_DEADLOCK FALSE
