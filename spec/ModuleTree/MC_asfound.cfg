CONSTANTS
  V = {"norollback"}
  MaxN = 3
  Vary = FALSE
SPECIFICATION Spec
INVARIANTS TypeOK Balanced
CHECK_DEADLOCK FALSE
