CONSTANTS
  V = {"norollback"}
  MaxN = 3
SPECIFICATION Spec
INVARIANTS TypeOK Balanced
CHECK_DEADLOCK FALSE
