CONSTANTS
  V = {}
  MaxN = 4
  Vary = FALSE
  Depth = 12
  Cover = TRUE
SPECIFICATION GSpec
VIEW View
CONSTRAINT Emit
CHECK_DEADLOCK FALSE
