CONSTANTS
  V = {}
  MaxN = 4
  Vary = FALSE
SPECIFICATION Spec
INVARIANTS TypeOK Nested ReverseOrder StartOnlyAfterInit StopOnlyIfStarted CleanupOnlyAfterStop ExactlyOnce Balanced
           HooksCalled OptionalFailureIsolated StateAgrees DeadClean
CHECK_DEADLOCK FALSE
