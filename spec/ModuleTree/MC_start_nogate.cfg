CONSTANTS
  V = {"start_nogate"}
  MaxN = 3
SPECIFICATION Spec
INVARIANTS TypeOK StartOnlyAfterInit
CHECK_DEADLOCK FALSE
