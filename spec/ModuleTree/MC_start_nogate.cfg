CONSTANTS
  V = {"start_nogate"}
  MaxN = 3
  Vary = FALSE
SPECIFICATION Spec
INVARIANTS TypeOK StartOnlyAfterInit
CHECK_DEADLOCK FALSE
