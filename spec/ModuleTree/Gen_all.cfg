CONSTANTS
  V = {}
  MaxN = 2
  Depth = 5
  Cover = FALSE
SPECIFICATION GSpec
CONSTRAINT Emit
CHECK_DEADLOCK FALSE
