CONSTANTS
  V = {}
  MaxN = 2
  Vary = FALSE
  Depth = 5
  Cover = FALSE
SPECIFICATION GSpec
CONSTRAINT Emit
CHECK_DEADLOCK FALSE
