CONSTANTS
  V = {"dtor_kids_first"}
  MaxN = 3
  Vary = FALSE
SPECIFICATION Spec
INVARIANTS TypeOK Balanced
CHECK_DEADLOCK FALSE
