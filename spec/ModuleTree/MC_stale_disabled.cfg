CONSTANTS
  V = {"stale_disabled"}
  MaxN = 2
  Vary = TRUE
SPECIFICATION Spec
INVARIANTS TypeOK Balanced
CHECK_DEADLOCK FALSE
