CONSTANTS
  V = {}
  MaxN = 3
  Vary = TRUE
SPECIFICATION Spec
INVARIANTS TypeOK Nested ReverseOrder StartOnlyAfterInit StopOnlyIfStarted CleanupOnlyAfterStop ExactlyOnce Balanced
           HooksCalled OptionalFailureIsolated StateAgrees DeadClean
CHECK_DEADLOCK FALSE
