------------------------- MODULE Gen_ModuleTree -------------------------
(* Generator for C11: programs and root call sequences for the C++ driver.                            *)
(*  Cover = TRUE  (with the VIEW of Gen_cover.cfg that hides hist): one call sequence for every        *)
(*                transition of the model's state graph - every (program, reachable tree state, call)   *)
(*                is the last step of one emitted sequence;                                             *)
(*  Cover = FALSE (no VIEW): every call sequence of length Depth for every program.                     *)
(* In Cover mode "destroy" is a transition from every state (the check runs those sequences on a tree  *)
(* owned by a plain Module root); the check closes all other sequences with cleanup + destroy (or just  *)
(* destroy on a wrapped tree) and adds the Main() sequence per program.  Hook sequences        *)
(* predicted by the model are NOT emitted and not compared: the trace spec judges the real ones.         *)
EXTENDS ModuleTree, Json, TLC
CONSTANTS Depth, Cover
VARIABLE hist
gvars == <<vars, hist>>
GInit == Init /\ hist = <<>>
GCall == \E op \in Ops : alive /\ Do(op) /\ UNCHANGED alive /\ hist' = Append(hist, op)
GDestroy == Destroy /\ hist' = Append(hist, "destroy")          \* only in Cover mode
GNext == GCall \/ (Cover /\ GDestroy)
GSpec == GInit /\ [][GNext]_gvars
View == vars
Beh == PrintT("BEH " \o ToJson([p |-> [n |-> prog.n, parent |-> prog.parent, req |-> prog.req, iok |-> prog.iok, sok |-> prog.sok], c |-> hist]))
Emit == IF Cover THEN (IF hist = <<>> THEN TRUE ELSE Beh /\ Len(hist) < Depth)
        ELSE (IF Len(hist) >= Depth THEN Beh /\ FALSE ELSE TRUE)
=============================================================================
