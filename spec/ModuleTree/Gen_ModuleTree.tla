------------------------- MODULE Gen_ModuleTree -------------------------
(* Generator for C11: programs and root call sequences for the C++ driver.                            *)
(*  Cover = TRUE  (with the VIEW of Gen_cover.cfg that hides hist): one call sequence for every        *)
(*                transition of the model's state graph - every (program, reachable tree state, call)   *)
(*                is the last step of one emitted sequence;                                             *)
(*  Cover = FALSE (no VIEW): every call sequence of length Depth for every program.                     *)
(* The check appends cleanup + destroy and adds the Main() sequence per program.  Hook sequences        *)
(* predicted by the model are NOT emitted and not compared: the trace spec judges the real ones.         *)
EXTENDS ModuleTree, Json, TLC
CONSTANTS Depth, Cover
VARIABLE hist
gvars == <<vars, hist>>
GInit == Init /\ hist = <<>>
GCall == \E op \in Ops : alive /\ Do(op) /\ hist' = Append(hist, op)
GNext == GCall
GSpec == GInit /\ [][GNext]_gvars
View == vars
Beh == PrintT("BEH " \o ToJson([p |-> [n |-> prog.n, parent |-> prog.parent, req |-> prog.req, iok |-> prog.iok, sok |-> prog.sok], c |-> hist]))
Emit == IF Cover THEN (IF hist = <<>> THEN TRUE ELSE Beh /\ Len(hist) < Depth)
        ELSE (IF Len(hist) >= Depth THEN Beh /\ FALSE ELSE TRUE)
=============================================================================
