---- MODULE MC_ModuleTree_TTrace_1790993444 ----
EXTENDS Sequences, TLCExt, Toolbox, Naturals, TLC, MC_ModuleTree

_expression ==
    LET MC_ModuleTree_TEExpression == INSTANCE MC_ModuleTree_TEExpression
    IN MC_ModuleTree_TEExpression!expression
----

_trace ==
    LET MC_ModuleTree_TETrace == INSTANCE MC_ModuleTree_TETrace
    IN MC_ModuleTree_TETrace!trace
----

_inv ==
    ~(
        TLCGet("level") = Len(_TETrace)
        /\
        dOK = (FALSE)
        /\
        st = (<<"N">>)
        /\
        alive = (TRUE)
        /\
        ph = (9)
        /\
        mon = ([bad |-> {"StartOnlyAfterInit"}, ini |-> <<FALSE>>, run |-> <<FALSE>>, ia |-> <<FALSE>>, sa |-> <<TRUE>>])
        /\
        prog = ([n |-> 1, parent |-> <<0>>, req |-> <<TRUE>>, iok |-> <<TRUE>>, sok |-> <<FALSE>>, lst |-> <<1>>])
    )
----

_init ==
    /\ prog = _TETrace[1].prog
    /\ alive = _TETrace[1].alive
    /\ ph = _TETrace[1].ph
    /\ dOK = _TETrace[1].dOK
    /\ st = _TETrace[1].st
    /\ mon = _TETrace[1].mon
----

_next ==
    /\ \E i,j \in DOMAIN _TETrace:
        /\ \/ /\ j = i + 1
              /\ i = TLCGet("level")
        /\ prog  = _TETrace[i].prog
        /\ prog' = _TETrace[j].prog
        /\ alive  = _TETrace[i].alive
        /\ alive' = _TETrace[j].alive
        /\ ph  = _TETrace[i].ph
        /\ ph' = _TETrace[j].ph
        /\ dOK  = _TETrace[i].dOK
        /\ dOK' = _TETrace[j].dOK
        /\ st  = _TETrace[i].st
        /\ st' = _TETrace[j].st
        /\ mon  = _TETrace[i].mon
        /\ mon' = _TETrace[j].mon

\* Uncomment the ASSUME below to write the states of the error trace
\* to the given file in Json format. Note that you can pass any tuple
\* to `JsonSerialize`. For example, a sub-sequence of _TETrace.
    \* ASSUME
    \*     LET J == INSTANCE Json
    \*         IN J!JsonSerialize("MC_ModuleTree_TTrace_1790993444.json", _TETrace)

=============================================================================

 Note that you can extract this module `MC_ModuleTree_TEExpression`
  to a dedicated file to reuse `expression` (the module in the 
  dedicated `MC_ModuleTree_TEExpression.tla` file takes precedence 
  over the module `MC_ModuleTree_TEExpression` below).

---- MODULE MC_ModuleTree_TEExpression ----
EXTENDS Sequences, TLCExt, Toolbox, Naturals, TLC, MC_ModuleTree

expression == 
    [
        \* To hide variables of the `MC_ModuleTree` spec from the error trace,
        \* remove the variables below.  The trace will be written in the order
        \* of the fields of this record.
        prog |-> prog
        ,alive |-> alive
        ,ph |-> ph
        ,dOK |-> dOK
        ,st |-> st
        ,mon |-> mon
        
        \* Put additional constant-, state-, and action-level expressions here:
        \* ,_stateNumber |-> _TEPosition
        \* ,_progUnchanged |-> prog = prog'
        
        \* Format the `prog` variable as Json value.
        \* ,_progJson |->
        \*     LET J == INSTANCE Json
        \*     IN J!ToJson(prog)
        
        \* Lastly, you may build expressions over arbitrary sets of states by
        \* leveraging the _TETrace operator.  For example, this is how to
        \* count the number of times a spec variable changed up to the current
        \* state in the trace.
        \* ,_progModCount |->
        \*     LET F[s \in DOMAIN _TETrace] ==
        \*         IF s = 1 THEN 0
        \*         ELSE IF _TETrace[s].prog # _TETrace[s-1].prog
        \*             THEN 1 + F[s-1] ELSE F[s-1]
        \*     IN F[_TEPosition - 1]
    ]

=============================================================================



Parsing and semantic processing can take forever if the trace below is long.
 In this case, it is advised to uncomment the module below to deserialize the
 trace from a generated binary file.

\*
\*---- MODULE MC_ModuleTree_TETrace ----
\*EXTENDS IOUtils, TLC, MC_ModuleTree
\*
\*trace == IODeserialize("MC_ModuleTree_TTrace_1790993444.bin", TRUE)
\*
\*=============================================================================
\*

---- MODULE MC_ModuleTree_TETrace ----
EXTENDS TLC, MC_ModuleTree

trace == 
    <<
    ([dOK |-> TRUE,st |-> <<"N">>,alive |-> TRUE,ph |-> 0,mon |-> [bad |-> {}, ini |-> <<FALSE>>, run |-> <<FALSE>>, ia |-> <<FALSE>>, sa |-> <<FALSE>>],prog |-> [n |-> 1, parent |-> <<0>>, req |-> <<TRUE>>, iok |-> <<TRUE>>, sok |-> <<FALSE>>, lst |-> <<1>>]]),
    ([dOK |-> FALSE,st |-> <<"N">>,alive |-> TRUE,ph |-> 9,mon |-> [bad |-> {"StartOnlyAfterInit"}, ini |-> <<FALSE>>, run |-> <<FALSE>>, ia |-> <<FALSE>>, sa |-> <<TRUE>>],prog |-> [n |-> 1, parent |-> <<0>>, req |-> <<TRUE>>, iok |-> <<TRUE>>, sok |-> <<FALSE>>, lst |-> <<1>>]])
    >>
----


=============================================================================

---- CONFIG MC_ModuleTree_TTrace_1790993444 ----
CONSTANTS
    V = { "start_nogate" }
    MaxN = 3

INVARIANT
    _inv

CHECK_DEADLOCK
    \* CHECK_DEADLOCK off because of PROPERTY or INVARIANT above.
    FALSE

INIT
    _init

NEXT
    _next

CONSTANT
    _TETrace <- _trace

ALIAS
    _expression
=============================================================================
\* Generated on Sat Oct 03 02:10:47 UTC 2026