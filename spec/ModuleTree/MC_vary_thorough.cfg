CONSTANTS
  V = {}
  MaxN = 4
  Vary = TRUE
SPECIFICATION Spec
INVARIANTS TypeOK Nested ReverseOrder StartOnlyAfterInit StopOnlyIfStarted CleanupOnlyAfterStop ExactlyOnce Balanced
           HooksCalled OptionalFailureIsolated StateAgrees DeadClean
CHECK_DEADLOCK FALSE
