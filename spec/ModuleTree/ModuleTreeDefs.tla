------------------------- MODULE ModuleTreeDefs -------------------------
(* C11 - module tree lifecycle hooks are nested, ordered and balanced.                              *)
(*                                                                                                  *)
(* Pure definitions shared by the model (ModuleTree.tla), the generator and the trace spec:         *)
(*   1. a PROGRAM is data: a tree of modules (numbered in pre-order = parent first, children in     *)
(*      registration order), required/optional flags and, per module, the result of the k-th call   *)
(*      of its onInit / onStart (a non-empty sequence whose last element repeats);                  *)
(*   2. the PROPERTY MONITOR: a fold over hook events that says which clause of the statement an     *)
(*      event breaks (it never prescribes *which* rollback strategy an implementation uses);        *)
(*   3. the positive OBLIGATIONS (all hooks called when nothing fails / only optional modules fail); *)
(*   4. the implementation-shaped REFERENCE SEMANTICS of Module::initialize/start/stop/cleanup and   *)
(*      ~Module (recursive operators producing the exact hook sequence), with named deviations V     *)
(*      (as-found code, model-level mutants) used to show that the invariants are not vacuous.       *)
EXTENDS Naturals, Sequences, FiniteSets

CONSTANT V          \* set of deviations of the reference semantics; {} = intended behaviour
                    \*   "norollback"     as found: a failing required child makes initialize()/start() return early
                    \*   "stopfwd"        stop() visits the children in registration order
                    \*   "cleanup_nostop" cleanup() does not stop first
                    \*   "start_nogate"   start() is not gated on the state
                    \*   "opt_abort"      a failing optional child aborts like a required one
                    \*   "skip_last"      initialize() forgets the last child
                    \*   "init_rev"       initialize() visits the children in reverse registration order
                    \*   "stop_nogate"    stop() is not gated on the state
                    \*   "stale_disabled" an optional child whose initialize() failed is marked disabled (skipped by
                    \*                    start/stop/cleanup) and the mark is never cleared
                    \*   "dtor_kids_first" ~Module() deletes the children (last to first) before it calls cleanup()

-----------------------------------------------------------------------------
(* 1. programs *)
Mods(P) == 1..P.n
RECURSIVE AncSelf(_, _)
AncSelf(P, m) == IF m = 0 THEN {} ELSE {m} \cup AncSelf(P, P.parent[m])
DescOf(P, m) == {x \in Mods(P) : x # m /\ m \in AncSelf(P, x)}
\* With pre-order numbering (WellFormed) the descendants of m are the contiguous range m+1 .. lst[m]; lst is computed
\* once per program (WithDesc) so that the monitor is linear in the number of modules per hook event.
WithDesc(P) == [n |-> P.n, parent |-> P.parent, req |-> P.req, iok |-> P.iok, sok |-> P.sok,
                lst |-> [m \in Mods(P) |-> m + Cardinality(DescOf(P, m))]]
Kids(P, m) == {c \in Mods(P) : P.parent[c] = m}
RECURSIVE SeqOf(_)
SeqOf(S) == IF S = {} THEN <<>> ELSE LET x == CHOOSE x \in S : \A y \in S : x <= y IN <<x>> \o SeqOf(S \ {x})
KidSeq(P, m) == SeqOf(Kids(P, m))

\* pre-order numbering: the parent of m is on the path from the root to m-1
WellFormed(P) ==
  /\ P.n >= 1 /\ Len(P.parent) = P.n /\ Len(P.req) = P.n /\ Len(P.iok) = P.n /\ Len(P.sok) = P.n
  /\ P.parent[1] = 0
  /\ \A m \in 1..P.n : Len(P.iok[m]) >= 1 /\ Len(P.sok[m]) >= 1
  /\ \A m \in 2..P.n : P.parent[m] \in 1..(m - 1) /\ P.parent[m] \in AncSelf(P, m - 1)

NoProg == [n |-> 0, parent |-> <<>>, req |-> <<>>, iok |-> <<>>, sok |-> <<>>, lst |-> <<>>]

\* result of the k-th call (k >= 1) of a hook whose plan is the non-empty sequence q
Outcome(q, k) == q[IF k <= Len(q) THEN k ELSE Len(q)]
Varies(q) == \E i \in 1..Len(q) : q[i] # q[1]

\* "effective" failure of a module in the FIRST round (first call of every hook) = its own hook fails or a required
\* child fails effectively
RECURSIVE EffIF(_, _), EffSF(_, _)
EffIF(P, m) == ~P.iok[m][1] \/ \E c \in Kids(P, m) : P.req[c] /\ EffIF(P, c)
OkI(P) == {m \in Mods(P) : \A a \in AncSelf(P, m) : ~EffIF(P, a)}        \* must be initialised by the first initialize()
EffSF(P, m) == ~P.sok[m][1] \/ \E c \in Kids(P, m) : c \in OkI(P) /\ P.req[c] /\ EffSF(P, c)
OkS(P) == {m \in OkI(P) : \A a \in AncSelf(P, m) : ~EffSF(P, a)}         \* must be running after the first start()
NoFailure(P) == \A m \in Mods(P) : P.iok[m][1] /\ P.sok[m][1]

-----------------------------------------------------------------------------
(* 2. the monitor.  Hook event = [h |-> "I" | "S" | "T" | "C", m |-> module, r |-> result]            *)
(*    ini[m] : m has a successful onInit not yet matched by onCleanup                                 *)
(*    run[m] : m has a successful onStart not yet matched by onStop                                   *)
(*    ia[m]/sa[m] : onInit/onStart of m was called since the last onInit/onStart of an ancestor       *)
(*    "later" modules of m = everything after m in pre-order (descendants, later siblings of m and of *)
(*    its ancestors with their subtrees); init/start go forward in pre-order, stop/cleanup backward.  *)
H(h, m, r) == [h |-> h, m |-> m, r |-> r]
AllFalse(P) == [m \in Mods(P) |-> FALSE]
MonInit(P) == [ini |-> AllFalse(P), run |-> AllFalse(P), ia |-> AllFalse(P), sa |-> AllFalse(P), bad |-> {}]
If(c, tag) == IF c THEN {tag} ELSE {}

MonStep(P, s, ev) ==
  IF ev.m \notin Mods(P) THEN [s EXCEPT !.bad = @ \cup {"Malformed"}] ELSE
  LET m == ev.m
      par == P.parent[m]
      later == (m + 1)..P.n                 \* everything after m in pre-order
      beyond == (P.lst[m] + 1)..P.n         \* ... that is not a descendant of m
      mark(f) == [x \in Mods(P) |-> IF x = m THEN TRUE ELSE IF x > m /\ x <= P.lst[m] THEN FALSE ELSE f[x]]
  IN CASE ev.h = "I" ->
            LET b == If(s.ini[m], "ExactlyOnce")                                   \* second onInit without an onCleanup
                     \cup If(par # 0 /\ ~s.ini[par], "Nested")                     \* parent's onInit first (and successful)
                     \cup If(\E x \in later : s.ini[x], "Nested")
                     \cup If(\E x \in beyond : s.ia[x], "Nested")                  \* registration / pre-order
            IN [s EXCEPT !.ini[m] = (@ \/ ev.r), !.ia = mark(s.ia), !.bad = @ \cup b]
       [] ev.h = "S" ->
            LET b == If(~s.ini[m], "StartOnlyAfterInit")
                     \cup If(s.run[m], "ExactlyOnce")
                     \cup If(par # 0 /\ ~s.run[par], "Nested")
                     \cup If(\E x \in later : s.run[x], "Nested")
                     \cup If(\E x \in beyond : s.sa[x], "Nested")
            IN [s EXCEPT !.run[m] = (@ \/ ev.r), !.sa = mark(s.sa), !.bad = @ \cup b]
       [] ev.h = "T" ->
            LET b == If(~s.run[m], "StopOnlyIfStarted")
                     \cup If(\E x \in later : s.run[x], "ReverseOrder")
            IN [s EXCEPT !.run[m] = FALSE, !.bad = @ \cup b]
       [] ev.h = "C" ->
            LET b == If(~s.ini[m], "ExactlyOnce")                                  \* onCleanup without a successful onInit
                     \cup If(s.run[m], "CleanupOnlyAfterStop")
                     \cup If(\E x \in later : s.ini[x], "ReverseOrder")
            IN [s EXCEPT !.ini[m] = FALSE, !.bad = @ \cup b]
       [] OTHER -> [s EXCEPT !.bad = @ \cup {"Malformed"}]

RECURSIVE MonFold(_, _, _, _)
MonFold(P, s, hk, i) == IF i > Len(hk) THEN s ELSE MonFold(P, MonStep(P, s, hk[i]), hk, i + 1)

\* at destruction: every successful onInit / onStart has been matched
BalanceBad(P, s) == If(\E m \in Mods(P) : s.ini[m] \/ s.run[m], "Balanced")

-----------------------------------------------------------------------------
(* 3. obligations.  ph = 0: no hook has ever been called on this tree; ph = 1: the first initialize()  *)
(*    succeeded as it had to and nothing else happened since; ph = 9: no further obligations.          *)
(*    Only the first round is obliged (the statement does not say that a tree can be re-initialised or  *)
(*    restarted), and only when no required module fails effectively.                                   *)
Oblige(P, s, ph, op, ret) ==
  LET tag == IF NoFailure(P) THEN "HooksCalled" ELSE "OptionalFailureIsolated" IN
  IF ph = 0 /\ op = "initialize"
    THEN If(~EffIF(P, 1) /\ (~ret \/ \E m \in OkI(P) : ~s.ini[m]), tag)
  ELSE IF ph = 1 /\ op = "start"
    THEN If(~EffSF(P, 1) /\ (~ret \/ \E m \in OkS(P) : ~s.run[m]), tag)
  ELSE {}
NextPh(P, ph, op, ret, hk) ==
  IF ph = 0 THEN (IF op = "initialize" THEN (IF ret /\ ~EffIF(P, 1) THEN 1 ELSE 9) ELSE IF hk = <<>> THEN 0 ELSE 9)
  ELSE IF ph = 1 THEN (IF op = "start" THEN 9 ELSE IF hk = <<>> THEN 1 ELSE 9)
  ELSE 9

\* everything the property demands of one root call (or of the destruction), given the monitor state before it
Judge(P, s0, ph, op, ret, hk) ==
  LET s == MonFold(P, s0, hk, 1)
      b == s.bad \cup Oblige(P, s, ph, op, ret) \cup (IF op = "destroy" THEN BalanceBad(P, s) ELSE {})
  IN [s EXCEPT !.bad = b]

-----------------------------------------------------------------------------
(* 4. reference semantics of modules/main/module.cpp.  The implementation state st is a record         *)
(*    [s, ic, sc]: s[m] \in {"N","I","R"} is Module::state_, ic[m]/sc[m] count the calls of onInit/     *)
(*    onStart of m so far (capped at 1, and only for modules whose plan varies - the k-th result of a   *)
(*    two-element plan only depends on "first call or not").  Results are records [st, hk] (+ ok).      *)
(*    own = FALSE models the call made from ~Module(): the hooks of the object being destroyed          *)
(*    dispatch to the empty base versions, i.e. are not delivered.                                      *)
RECURSIVE DoStop(_, _, _, _), StopKids(_, _, _, _), DoCleanup(_, _, _, _), CleanupKids(_, _, _, _),
          DoInit(_, _, _), InitKids(_, _, _, _, _), DoStart(_, _, _), StartKids(_, _, _, _, _),
          DoDtor(_, _, _), DtorKids(_, _, _, _), DtorKidsRev(_, _, _, _)

StInit(P) == [s |-> [m \in Mods(P) |-> "N"], ic |-> [m \in Mods(P) |-> 0], sc |-> [m \in Mods(P) |-> 0],
              dis |-> [m \in Mods(P) |-> FALSE]]           \* dis: only used by the "stale_disabled" deviation
Skip(st) == [st |-> st, hk |-> <<>>]
Own(own, h, m) == IF own THEN <<H(h, m, TRUE)>> ELSE <<>>
Bump(q, c) == IF Varies(q) THEN 1 ELSE c

\* stop kids ks[i], ks[i-1], ..., ks[1]  (or ks[j..] forward under "stopfwd": i counts how many are left)
StopKids(P, r, ks, i) ==
  IF i = 0 THEN r
  ELSE LET k == IF "stopfwd" \in V THEN ks[Len(ks) - i + 1] ELSE ks[i]
           q == IF r.st.dis[k] THEN Skip(r.st) ELSE DoStop(P, r.st, k, TRUE)
       IN StopKids(P, [st |-> q.st, hk |-> r.hk \o q.hk], ks, i - 1)
DoStop(P, st, m, own) ==
  IF st.s[m] # "R" /\ "stop_nogate" \notin V THEN [st |-> st, hk |-> <<>>]
  ELSE LET ks == KidSeq(P, m)
           r == StopKids(P, [st |-> st, hk |-> <<>>], ks, Len(ks))
       IN [st |-> [r.st EXCEPT !.s[m] = "I"], hk |-> r.hk \o Own(own, "T", m)]

CleanupKids(P, r, ks, i) ==
  IF i = 0 THEN r
  ELSE LET q == IF r.st.dis[ks[i]] THEN Skip(r.st) ELSE DoCleanup(P, r.st, ks[i], TRUE)
       IN CleanupKids(P, [st |-> q.st, hk |-> r.hk \o q.hk], ks, i - 1)
DoCleanup(P, st, m, own) ==
  IF st.s[m] = "N" THEN [st |-> st, hk |-> <<>>]
  ELSE LET a == IF "cleanup_nostop" \in V THEN [st |-> st, hk |-> <<>>] ELSE DoStop(P, st, m, own)
           ks == KidSeq(P, m)
           r == CleanupKids(P, a, ks, Len(ks))
       IN [st |-> [r.st EXCEPT !.s[m] = "N"], hk |-> r.hk \o Own(own, "C", m)]

InitKids(P, r, m, ks, i) ==
  IF i > Len(ks) \/ ("skip_last" \in V /\ i = Len(ks) /\ i > 1) THEN r
  ELSE LET q == DoInit(P, r.st, IF "init_rev" \in V THEN ks[Len(ks) - i + 1] ELSE ks[i])
           r2 == [st |-> q.st, hk |-> r.hk \o q.hk, ok |-> TRUE]
           r3 == IF ~q.ok /\ "stale_disabled" \in V THEN [r2 EXCEPT !.st.dis[ks[i]] = TRUE] ELSE r2
       IN IF q.ok \/ (~P.req[ks[i]] /\ "opt_abort" \notin V) THEN InitKids(P, r3, m, ks, i + 1)
          ELSE IF "norollback" \in V THEN [r2 EXCEPT !.ok = FALSE]
          ELSE \* roll back: the children initialised so far in reverse order, then this module
               LET c == CleanupKids(P, [st |-> r2.st, hk |-> r2.hk], ks, i - 1)
               IN [st |-> c.st, hk |-> c.hk \o <<H("C", m, TRUE)>>, ok |-> FALSE]
DoInit(P, st, m) ==
  IF st.s[m] # "N" THEN [st |-> st, hk |-> <<>>, ok |-> FALSE]
  ELSE LET res == Outcome(P.iok[m], st.ic[m] + 1)
           st1 == [st EXCEPT !.ic[m] = Bump(P.iok[m], @)]
       IN IF ~res THEN [st |-> st1, hk |-> <<H("I", m, FALSE)>>, ok |-> FALSE]
          ELSE LET r == InitKids(P, [st |-> st1, hk |-> <<H("I", m, TRUE)>>, ok |-> TRUE], m, KidSeq(P, m), 1)
               IN IF r.ok THEN [r EXCEPT !.st.s[m] = "I"] ELSE r

StartKids(P, r, m, ks, i) ==
  IF i > Len(ks) THEN r
  ELSE LET q == IF r.st.dis[ks[i]] THEN [st |-> r.st, hk |-> <<>>, ok |-> TRUE] ELSE DoStart(P, r.st, ks[i])
           r2 == [st |-> q.st, hk |-> r.hk \o q.hk, ok |-> TRUE]
       IN IF q.ok \/ (~P.req[ks[i]] /\ "opt_abort" \notin V) THEN StartKids(P, r2, m, ks, i + 1)
          ELSE IF "norollback" \in V THEN [r2 EXCEPT !.ok = FALSE]
          ELSE LET c == StopKids(P, [st |-> r2.st, hk |-> r2.hk], SubSeq(ks, 1, i - 1), i - 1)
               IN [st |-> c.st, hk |-> c.hk \o <<H("T", m, TRUE)>>, ok |-> FALSE]
DoStart(P, st, m) ==
  IF st.s[m] # "I" /\ "start_nogate" \notin V THEN [st |-> st, hk |-> <<>>, ok |-> FALSE]
  ELSE LET res == Outcome(P.sok[m], st.sc[m] + 1)
           st1 == [st EXCEPT !.sc[m] = Bump(P.sok[m], @)]
       IN IF ~res THEN [st |-> st1, hk |-> <<H("S", m, FALSE)>>, ok |-> FALSE]
          ELSE LET r == StartKids(P, [st |-> st1, hk |-> <<H("S", m, TRUE)>>, ok |-> TRUE], m, KidSeq(P, m), 1)
               IN IF r.ok THEN [r EXCEPT !.st.s[m] = "R"] ELSE r

\* ~Module(): cleanup() whose own hooks are not delivered - the children are still alive, so THEIR hooks are -
\* then the children are deleted in registration order.  ("dtor_kids_first": children deleted first, last to first;
\* by then each child's derived part is gone when its ~Module() cleans up, so nothing below reaches an override.)
DtorKids(P, r, ks, i) ==
  IF i > Len(ks) THEN r
  ELSE LET q == DoDtor(P, r.st, ks[i]) IN DtorKids(P, [st |-> q.st, hk |-> r.hk \o q.hk], ks, i + 1)
DtorKidsRev(P, r, ks, i) ==
  IF i = 0 THEN r
  ELSE LET q == DoDtor(P, r.st, ks[i]) IN DtorKidsRev(P, [st |-> q.st, hk |-> r.hk \o q.hk], ks, i - 1)
DoDtor(P, st, m) ==
  IF "dtor_kids_first" \in V
    THEN LET ks == KidSeq(P, m)
             k == DtorKidsRev(P, [st |-> st, hk |-> <<>>], ks, Len(ks))
             \* the children are gone: cleanup() of m finds no child and its own hooks are not delivered
         IN [st |-> [k.st EXCEPT !.s[m] = "N"], hk |-> k.hk]
    ELSE LET a == DoCleanup(P, st, m, FALSE) IN DtorKids(P, a, KidSeq(P, m), 1)

Ops == {"initialize", "start", "stop", "cleanup"}
\* one call on the root: [st, hk, ret].  "destroy" deletes a plain Module("") that owns module 1 (as `apps` in Main()
\* owns the user's modules): its ~Module() runs cleanup() - which reaches module 1 and everything below through the
\* overrides, gated like module 1's own cleanup() - and then deletes module 1.  Destroying module 1 directly differs
\* only in that module 1's own onStop/onCleanup cannot be delivered (C++), which is why the harness never does that
\* to a tree that is not cleaned up.
RootCall(P, st, op) ==
  CASE op = "initialize" -> LET r == DoInit(P, st, 1) IN [st |-> r.st, hk |-> r.hk, ret |-> r.ok]
    [] op = "start"      -> LET r == DoStart(P, st, 1) IN [st |-> r.st, hk |-> r.hk, ret |-> r.ok]
    [] op = "stop"       -> LET r == DoStop(P, st, 1, TRUE) IN [st |-> r.st, hk |-> r.hk, ret |-> TRUE]
    [] op = "cleanup"    -> LET r == DoCleanup(P, st, 1, TRUE) IN [st |-> r.st, hk |-> r.hk, ret |-> TRUE]
    [] op = "destroy"    -> IF "dtor_kids_first" \in V
                              THEN LET r == DoDtor(P, st, 1) IN [st |-> r.st, hk |-> r.hk, ret |-> TRUE]
                              ELSE LET a == DoCleanup(P, st, 1, TRUE)
                                       r == DoDtor(P, a.st, 1)
                                   IN [st |-> r.st, hk |-> a.hk \o r.hk, ret |-> TRUE]
=============================================================================
