CONSTANTS
  V = {}
  MaxN = 2
  Vary = FALSE
SPECIFICATION Spec
INVARIANTS NeverDestroyed
CHECK_DEADLOCK FALSE
