CONSTANTS
  V = {}
  MaxN = 2
SPECIFICATION Spec
INVARIANTS NeverDestroyed
CHECK_DEADLOCK FALSE
