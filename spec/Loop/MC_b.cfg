CONSTANTS
  Tasks = {1, 2, 3, 4}
  Threads = {"M", "F1", "F2"}
  LoopThread = "M"
  Foreign = {"F1", "F2"}
  MaxRuns = 2
  MaxBody = 2
  AsFoundStaleReq = FALSE
SPECIFICATION Spec
INVARIANTS AtMostOnce CancelledNeverRuns OnLoopThread FifoPerSubmitter NoLostWakeup ReqConsistent NothingDropped ExactlyOncePending
CHECK_DEADLOCK FALSE
