---- MODULE MC_Deferred ----
EXTENDS DeferredTasks
====
