---------------------------- MODULE DeferredTasks ----------------------------
(* C01 - interleaving model: the loop thread M (submits before the loop, runs it, exits, re-runs, destroys; *)
(* task bodies submit / cancel / request exit) and foreign threads submitting through runInLoop().          *)
(* Data effects come from DeferredData.  Switch AsFoundStaleReq: has_commit_run_req_ survives loop stop.    *)
EXTENDS DeferredData
CONSTANTS Foreign,            \* foreign thread names (subset of Threads, LoopThread not in it)
          MaxRuns,            \* how many times the loop may be run
          MaxBody,            \* operations performed by task bodies in total
          AsFoundStaleReq
VARIABLES lpc,        \* "out" | "starting" | "poll" | "fdcb0" | "fdcb" | "next0" | "nextph" | "passend" | "after" | "afterdrain" | "destroying" | "gone"
          keep,       \* keep_running_
          runs, nbody
vars == <<dvars, lpc, keep, runs, nbody>>
M == LoopThread
Fresh == {t \in Tasks : kind[t] = "none"}
InBody == lpc \in {"fdcb", "nextph", "afterdrain", "destroying"} /\ \E t \in Tasks : nexec[t] > 0    \* some task body has run in this phase
LockFree == lpc # "afterdrain"       \* runThisAfterLoop() holds lock_ for the whole drain

Init == DInit /\ lpc = "out" /\ keep = FALSE /\ runs = 0 /\ nbody = 0
UL == UNCHANGED <<lpc, keep, runs, nbody>>

(* -------------------------------------------- foreign threads -------------------------------------------- *)
FSubmit(f, t) == /\ t \in Fresh /\ LockFree /\ lpc \notin {"destroying", "gone"}
                 /\ DPushIn(t, f, running /\ ~hasReq) /\ UL
(* -------------------------------------------- loop thread: outside the loop -------------------------------------------- *)
MPreNext(t) == /\ lpc = "out" /\ t \in Fresh /\ DPushNext(t, M) /\ UL
MPreIn(t) ==   /\ lpc = "out" /\ t \in Fresh /\ DPushIn(t, M, running /\ ~hasReq) /\ UL
MStart1 ==     /\ lpc = "out" /\ runs < MaxRuns /\ lpc' = "starting" /\ runs' = runs + 1 /\ UNCHANGED dvars /\ UNCHANGED <<keep, nbody>>
MStart2 ==     /\ lpc = "starting" /\ DStartLocked(Len(qIn), qIn # <<>> /\ ~hasReq) /\ lpc' = "poll" /\ keep' = TRUE /\ UNCHANGED <<runs, nbody>>
(* -------------------------------------------- one pass -------------------------------------------- *)
MPoll ==       \* epoll_wait / select returns: the eventfd is readable, or a runNext task makes the wait time zero
  /\ lpc = "poll" /\ (efd > 0 \/ qNext # <<>>) /\ lpc' = (IF efd > 0 THEN "fdcb0" ELSE "next0") /\ UNCHANGED dvars /\ UNCHANGED <<keep, runs, nbody>>
MSwapIn ==     /\ lpc = "fdcb0" /\ DSwapIn(Len(qIn), 0) /\ lpc' = "fdcb" /\ UNCHANGED <<keep, runs, nbody>>
MSwapNext ==   /\ lpc = "next0" /\ DSwapNext(Len(qNext), 0) /\ lpc' = "nextph" /\ UNCHANGED <<keep, runs, nbody>>
MExec ==       /\ lpc \in {"fdcb", "nextph"} /\ batch # <<>> /\ DExec(Head(batch), TRUE) /\ UL
MPhaseEnd ==   /\ lpc \in {"fdcb", "nextph"} /\ batch = <<>> /\ lpc' = (IF lpc = "fdcb" THEN "next0" ELSE "passend")
               /\ UNCHANGED dvars /\ UNCHANGED <<keep, runs, nbody>>
MPassEnd ==    /\ lpc = "passend" /\ lpc' = (IF keep THEN "poll" ELSE "after") /\ UNCHANGED dvars /\ UNCHANGED <<keep, runs, nbody>>
(* -------------------------------------------- what task bodies do -------------------------------------------- *)
BodyOK == lpc \in {"fdcb", "nextph", "afterdrain", "destroying"} /\ nbody < MaxBody
MBodyNext(t) ==   /\ BodyOK /\ t \in Fresh /\ DPushNext(t, M) /\ nbody' = nbody + 1 /\ UNCHANGED <<lpc, keep, runs>>
MBodyIn(t) ==     /\ BodyOK /\ t \in Fresh /\ DPushIn(t, M, running /\ ~hasReq) /\ nbody' = nbody + 1 /\ UNCHANGED <<lpc, keep, runs>>
MBodyCancel(t) == /\ BodyOK /\ kind[t] # "none" /\ DCancel(t, WouldCancel(t)) /\ nbody' = nbody + 1 /\ UNCHANGED <<lpc, keep, runs>>
MBodyExit ==      /\ lpc \in {"fdcb", "nextph"} /\ keep /\ keep' = FALSE /\ UNCHANGED dvars /\ UNCHANGED <<lpc, runs, nbody>>
(* -------------------------------------------- shutdown of one run -------------------------------------------- *)
MAfterLock ==  /\ lpc = "after" /\ lpc' = "afterdrain" /\ UNCHANGED dvars /\ UNCHANGED <<keep, runs, nbody>>
MDrainGen ==   /\ lpc \in {"afterdrain", "destroying"} /\ DDrainGen(Len(qNext), Len(qIn)) /\ UL
MDrainExec ==  /\ lpc \in {"afterdrain", "destroying"} /\ batch = <<>> /\ NextUp # 0 /\ DExec(NextUp, TRUE) /\ UL
Drained == qIn = <<>> /\ qNext = <<>> /\ drainN = <<>> /\ drainI = <<>>
MAfterClose == /\ lpc = "afterdrain" /\ Drained /\ DAfterClosed(IF AsFoundStaleReq THEN hasReq ELSE FALSE, ~AsFoundStaleReq)
               /\ lpc' = "out" /\ UNCHANGED <<keep, runs, nbody>>
(* -------------------------------------------- destruction -------------------------------------------- *)
MDestroyBegin == /\ lpc = "out" /\ lpc' = "destroying" /\ UNCHANGED dvars /\ UNCHANGED <<keep, runs, nbody>>
MDestroyEnd ==   /\ lpc = "destroying" /\ Drained /\ DDestroyed /\ lpc' = "gone" /\ UNCHANGED <<keep, runs, nbody>>

FAny == \E f \in Foreign, t \in Tasks : FSubmit(f, t)
MPre == \E t \in Tasks : MPreNext(t) \/ MPreIn(t)
MBody == MBodyExit \/ \E t \in Tasks : MBodyNext(t) \/ MBodyIn(t) \/ MBodyCancel(t)
MRun == MStart2 \/ MPoll \/ MSwapIn \/ MSwapNext \/ MExec \/ MPhaseEnd \/ MPassEnd \/ MAfterLock \/ MDrainGen \/ MDrainExec \/ MAfterClose \/ MDestroyEnd
Next == FAny \/ MPre \/ MStart1 \/ MBody \/ MRun \/ MDestroyBegin
Spec == Init /\ [][Next]_vars
FairSpec == Spec /\ WF_vars(MRun)

(* -------------------------------------------- properties -------------------------------------------- *)
\* a cross-thread submission made while the loop runs is executed (or cancelled) without anything else having to happen
WakeupDelivered == \A t \in Tasks : (t \in Range(qIn) /\ running) ~> (t \notin Range(qIn))
=============================================================================
