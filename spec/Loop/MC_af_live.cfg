CONSTANTS
  Tasks = {1, 2, 3}
  Threads = {"M", "F1", "F2"}
  LoopThread = "M"
  Foreign = {"F1"}
  MaxRuns = 2
  MaxBody = 1
  AsFoundStaleReq = TRUE
SPECIFICATION FairSpec
INVARIANTS AtMostOnce CancelledNeverRuns OnLoopThread FifoPerSubmitter NothingDropped ExactlyOncePending
CHECK_DEADLOCK FALSE
PROPERTIES WakeupDelivered
