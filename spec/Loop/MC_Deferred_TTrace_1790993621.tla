---- MODULE MC_Deferred_TTrace_1790993621 ----
EXTENDS Sequences, TLCExt, Toolbox, MC_Deferred, Naturals, TLC

_expression ==
    LET MC_Deferred_TEExpression == INSTANCE MC_Deferred_TEExpression
    IN MC_Deferred_TEExpression!expression
----

_trace ==
    LET MC_Deferred_TETrace == INSTANCE MC_Deferred_TETrace
    IN MC_Deferred_TETrace!trace
----

_inv ==
    ~(
        TLCGet("level") = Len(_TETrace)
        /\
        hasReq = (TRUE)
        /\
        nsub = ((<<"M", "in">> :> 0 @@ <<"M", "next">> :> 1 @@ <<"F1", "in">> :> 1 @@ <<"F1", "next">> :> 0 @@ <<"F2", "in">> :> 0 @@ <<"F2", "next">> :> 0))
        /\
        nexec = (<<1, 0, 0>>)
        /\
        efd = (0)
        /\
        alive = (TRUE)
        /\
        seqno = (<<1, 1, 0>>)
        /\
        kind = (<<"next", "in", "none">>)
        /\
        batch = (<<>>)
        /\
        drainI = (<<>>)
        /\
        nbody = (1)
        /\
        fifoOk = (TRUE)
        /\
        drainN = (<<>>)
        /\
        running = (FALSE)
        /\
        threadOk = (TRUE)
        /\
        by = (<<"M", "F1", "M">>)
        /\
        keep = (FALSE)
        /\
        qIn = (<<>>)
        /\
        cancelled = ({2})
        /\
        qNext = (<<>>)
        /\
        lastExec = ((<<"M", "in">> :> 0 @@ <<"M", "next">> :> 1 @@ <<"F1", "in">> :> 0 @@ <<"F1", "next">> :> 0 @@ <<"F2", "in">> :> 0 @@ <<"F2", "next">> :> 0))
        /\
        runs = (1)
        /\
        lpc = ("out")
    )
----

_init ==
    /\ cancelled = _TETrace[1].cancelled
    /\ runs = _TETrace[1].runs
    /\ threadOk = _TETrace[1].threadOk
    /\ running = _TETrace[1].running
    /\ alive = _TETrace[1].alive
    /\ by = _TETrace[1].by
    /\ seqno = _TETrace[1].seqno
    /\ lpc = _TETrace[1].lpc
    /\ lastExec = _TETrace[1].lastExec
    /\ qNext = _TETrace[1].qNext
    /\ fifoOk = _TETrace[1].fifoOk
    /\ kind = _TETrace[1].kind
    /\ nsub = _TETrace[1].nsub
    /\ nexec = _TETrace[1].nexec
    /\ keep = _TETrace[1].keep
    /\ nbody = _TETrace[1].nbody
    /\ qIn = _TETrace[1].qIn
    /\ hasReq = _TETrace[1].hasReq
    /\ drainI = _TETrace[1].drainI
    /\ drainN = _TETrace[1].drainN
    /\ efd = _TETrace[1].efd
    /\ batch = _TETrace[1].batch
----

_next ==
    /\ \E i,j \in DOMAIN _TETrace:
        /\ \/ /\ j = i + 1
              /\ i = TLCGet("level")
        /\ cancelled  = _TETrace[i].cancelled
        /\ cancelled' = _TETrace[j].cancelled
        /\ runs  = _TETrace[i].runs
        /\ runs' = _TETrace[j].runs
        /\ threadOk  = _TETrace[i].threadOk
        /\ threadOk' = _TETrace[j].threadOk
        /\ running  = _TETrace[i].running
        /\ running' = _TETrace[j].running
        /\ alive  = _TETrace[i].alive
        /\ alive' = _TETrace[j].alive
        /\ by  = _TETrace[i].by
        /\ by' = _TETrace[j].by
        /\ seqno  = _TETrace[i].seqno
        /\ seqno' = _TETrace[j].seqno
        /\ lpc  = _TETrace[i].lpc
        /\ lpc' = _TETrace[j].lpc
        /\ lastExec  = _TETrace[i].lastExec
        /\ lastExec' = _TETrace[j].lastExec
        /\ qNext  = _TETrace[i].qNext
        /\ qNext' = _TETrace[j].qNext
        /\ fifoOk  = _TETrace[i].fifoOk
        /\ fifoOk' = _TETrace[j].fifoOk
        /\ kind  = _TETrace[i].kind
        /\ kind' = _TETrace[j].kind
        /\ nsub  = _TETrace[i].nsub
        /\ nsub' = _TETrace[j].nsub
        /\ nexec  = _TETrace[i].nexec
        /\ nexec' = _TETrace[j].nexec
        /\ keep  = _TETrace[i].keep
        /\ keep' = _TETrace[j].keep
        /\ nbody  = _TETrace[i].nbody
        /\ nbody' = _TETrace[j].nbody
        /\ qIn  = _TETrace[i].qIn
        /\ qIn' = _TETrace[j].qIn
        /\ hasReq  = _TETrace[i].hasReq
        /\ hasReq' = _TETrace[j].hasReq
        /\ drainI  = _TETrace[i].drainI
        /\ drainI' = _TETrace[j].drainI
        /\ drainN  = _TETrace[i].drainN
        /\ drainN' = _TETrace[j].drainN
        /\ efd  = _TETrace[i].efd
        /\ efd' = _TETrace[j].efd
        /\ batch  = _TETrace[i].batch
        /\ batch' = _TETrace[j].batch

\* Uncomment the ASSUME below to write the states of the error trace
\* to the given file in Json format. Note that you can pass any tuple
\* to `JsonSerialize`. For example, a sub-sequence of _TETrace.
    \* ASSUME
    \*     LET J == INSTANCE Json
    \*         IN J!JsonSerialize("MC_Deferred_TTrace_1790993621.json", _TETrace)

=============================================================================

 Note that you can extract this module `MC_Deferred_TEExpression`
  to a dedicated file to reuse `expression` (the module in the 
  dedicated `MC_Deferred_TEExpression.tla` file takes precedence 
  over the module `MC_Deferred_TEExpression` below).

---- MODULE MC_Deferred_TEExpression ----
EXTENDS Sequences, TLCExt, Toolbox, MC_Deferred, Naturals, TLC

expression == 
    [
        \* To hide variables of the `MC_Deferred` spec from the error trace,
        \* remove the variables below.  The trace will be written in the order
        \* of the fields of this record.
        cancelled |-> cancelled
        ,runs |-> runs
        ,threadOk |-> threadOk
        ,running |-> running
        ,alive |-> alive
        ,by |-> by
        ,seqno |-> seqno
        ,lpc |-> lpc
        ,lastExec |-> lastExec
        ,qNext |-> qNext
        ,fifoOk |-> fifoOk
        ,kind |-> kind
        ,nsub |-> nsub
        ,nexec |-> nexec
        ,keep |-> keep
        ,nbody |-> nbody
        ,qIn |-> qIn
        ,hasReq |-> hasReq
        ,drainI |-> drainI
        ,drainN |-> drainN
        ,efd |-> efd
        ,batch |-> batch
        
        \* Put additional constant-, state-, and action-level expressions here:
        \* ,_stateNumber |-> _TEPosition
        \* ,_cancelledUnchanged |-> cancelled = cancelled'
        
        \* Format the `cancelled` variable as Json value.
        \* ,_cancelledJson |->
        \*     LET J == INSTANCE Json
        \*     IN J!ToJson(cancelled)
        
        \* Lastly, you may build expressions over arbitrary sets of states by
        \* leveraging the _TETrace operator.  For example, this is how to
        \* count the number of times a spec variable changed up to the current
        \* state in the trace.
        \* ,_cancelledModCount |->
        \*     LET F[s \in DOMAIN _TETrace] ==
        \*         IF s = 1 THEN 0
        \*         ELSE IF _TETrace[s].cancelled # _TETrace[s-1].cancelled
        \*             THEN 1 + F[s-1] ELSE F[s-1]
        \*     IN F[_TEPosition - 1]
    ]

=============================================================================



Parsing and semantic processing can take forever if the trace below is long.
 In this case, it is advised to uncomment the module below to deserialize the
 trace from a generated binary file.

\*
\*---- MODULE MC_Deferred_TETrace ----
\*EXTENDS IOUtils, MC_Deferred, TLC
\*
\*trace == IODeserialize("MC_Deferred_TTrace_1790993621.bin", TRUE)
\*
\*=============================================================================
\*

---- MODULE MC_Deferred_TETrace ----
EXTENDS MC_Deferred, TLC

trace == 
    <<
    ([hasReq |-> FALSE,nsub |-> (<<"M", "in">> :> 0 @@ <<"M", "next">> :> 0 @@ <<"F1", "in">> :> 0 @@ <<"F1", "next">> :> 0 @@ <<"F2", "in">> :> 0 @@ <<"F2", "next">> :> 0),nexec |-> <<0, 0, 0>>,efd |-> 0,alive |-> TRUE,seqno |-> <<0, 0, 0>>,kind |-> <<"none", "none", "none">>,batch |-> <<>>,drainI |-> <<>>,nbody |-> 0,fifoOk |-> TRUE,drainN |-> <<>>,running |-> FALSE,threadOk |-> TRUE,by |-> <<"M", "M", "M">>,keep |-> FALSE,qIn |-> <<>>,cancelled |-> {},qNext |-> <<>>,lastExec |-> (<<"M", "in">> :> 0 @@ <<"M", "next">> :> 0 @@ <<"F1", "in">> :> 0 @@ <<"F1", "next">> :> 0 @@ <<"F2", "in">> :> 0 @@ <<"F2", "next">> :> 0),runs |-> 0,lpc |-> "out"]),
    ([hasReq |-> FALSE,nsub |-> (<<"M", "in">> :> 0 @@ <<"M", "next">> :> 1 @@ <<"F1", "in">> :> 0 @@ <<"F1", "next">> :> 0 @@ <<"F2", "in">> :> 0 @@ <<"F2", "next">> :> 0),nexec |-> <<0, 0, 0>>,efd |-> 0,alive |-> TRUE,seqno |-> <<1, 0, 0>>,kind |-> <<"next", "none", "none">>,batch |-> <<>>,drainI |-> <<>>,nbody |-> 0,fifoOk |-> TRUE,drainN |-> <<>>,running |-> FALSE,threadOk |-> TRUE,by |-> <<"M", "M", "M">>,keep |-> FALSE,qIn |-> <<>>,cancelled |-> {},qNext |-> <<1>>,lastExec |-> (<<"M", "in">> :> 0 @@ <<"M", "next">> :> 0 @@ <<"F1", "in">> :> 0 @@ <<"F1", "next">> :> 0 @@ <<"F2", "in">> :> 0 @@ <<"F2", "next">> :> 0),runs |-> 0,lpc |-> "out"]),
    ([hasReq |-> FALSE,nsub |-> (<<"M", "in">> :> 0 @@ <<"M", "next">> :> 1 @@ <<"F1", "in">> :> 0 @@ <<"F1", "next">> :> 0 @@ <<"F2", "in">> :> 0 @@ <<"F2", "next">> :> 0),nexec |-> <<0, 0, 0>>,efd |-> 0,alive |-> TRUE,seqno |-> <<1, 0, 0>>,kind |-> <<"next", "none", "none">>,batch |-> <<>>,drainI |-> <<>>,nbody |-> 0,fifoOk |-> TRUE,drainN |-> <<>>,running |-> FALSE,threadOk |-> TRUE,by |-> <<"M", "M", "M">>,keep |-> FALSE,qIn |-> <<>>,cancelled |-> {},qNext |-> <<1>>,lastExec |-> (<<"M", "in">> :> 0 @@ <<"M", "next">> :> 0 @@ <<"F1", "in">> :> 0 @@ <<"F1", "next">> :> 0 @@ <<"F2", "in">> :> 0 @@ <<"F2", "next">> :> 0),runs |-> 1,lpc |-> "starting"]),
    ([hasReq |-> FALSE,nsub |-> (<<"M", "in">> :> 0 @@ <<"M", "next">> :> 1 @@ <<"F1", "in">> :> 0 @@ <<"F1", "next">> :> 0 @@ <<"F2", "in">> :> 0 @@ <<"F2", "next">> :> 0),nexec |-> <<0, 0, 0>>,efd |-> 0,alive |-> TRUE,seqno |-> <<1, 0, 0>>,kind |-> <<"next", "none", "none">>,batch |-> <<>>,drainI |-> <<>>,nbody |-> 0,fifoOk |-> TRUE,drainN |-> <<>>,running |-> TRUE,threadOk |-> TRUE,by |-> <<"M", "M", "M">>,keep |-> TRUE,qIn |-> <<>>,cancelled |-> {},qNext |-> <<1>>,lastExec |-> (<<"M", "in">> :> 0 @@ <<"M", "next">> :> 0 @@ <<"F1", "in">> :> 0 @@ <<"F1", "next">> :> 0 @@ <<"F2", "in">> :> 0 @@ <<"F2", "next">> :> 0),runs |-> 1,lpc |-> "poll"]),
    ([hasReq |-> FALSE,nsub |-> (<<"M", "in">> :> 0 @@ <<"M", "next">> :> 1 @@ <<"F1", "in">> :> 0 @@ <<"F1", "next">> :> 0 @@ <<"F2", "in">> :> 0 @@ <<"F2", "next">> :> 0),nexec |-> <<0, 0, 0>>,efd |-> 0,alive |-> TRUE,seqno |-> <<1, 0, 0>>,kind |-> <<"next", "none", "none">>,batch |-> <<>>,drainI |-> <<>>,nbody |-> 0,fifoOk |-> TRUE,drainN |-> <<>>,running |-> TRUE,threadOk |-> TRUE,by |-> <<"M", "M", "M">>,keep |-> TRUE,qIn |-> <<>>,cancelled |-> {},qNext |-> <<1>>,lastExec |-> (<<"M", "in">> :> 0 @@ <<"M", "next">> :> 0 @@ <<"F1", "in">> :> 0 @@ <<"F1", "next">> :> 0 @@ <<"F2", "in">> :> 0 @@ <<"F2", "next">> :> 0),runs |-> 1,lpc |-> "next0"]),
    ([hasReq |-> TRUE,nsub |-> (<<"M", "in">> :> 0 @@ <<"M", "next">> :> 1 @@ <<"F1", "in">> :> 1 @@ <<"F1", "next">> :> 0 @@ <<"F2", "in">> :> 0 @@ <<"F2", "next">> :> 0),nexec |-> <<0, 0, 0>>,efd |-> 1,alive |-> TRUE,seqno |-> <<1, 1, 0>>,kind |-> <<"next", "in", "none">>,batch |-> <<>>,drainI |-> <<>>,nbody |-> 0,fifoOk |-> TRUE,drainN |-> <<>>,running |-> TRUE,threadOk |-> TRUE,by |-> <<"M", "F1", "M">>,keep |-> TRUE,qIn |-> <<2>>,cancelled |-> {},qNext |-> <<1>>,lastExec |-> (<<"M", "in">> :> 0 @@ <<"M", "next">> :> 0 @@ <<"F1", "in">> :> 0 @@ <<"F1", "next">> :> 0 @@ <<"F2", "in">> :> 0 @@ <<"F2", "next">> :> 0),runs |-> 1,lpc |-> "next0"]),
    ([hasReq |-> TRUE,nsub |-> (<<"M", "in">> :> 0 @@ <<"M", "next">> :> 1 @@ <<"F1", "in">> :> 1 @@ <<"F1", "next">> :> 0 @@ <<"F2", "in">> :> 0 @@ <<"F2", "next">> :> 0),nexec |-> <<0, 0, 0>>,efd |-> 1,alive |-> TRUE,seqno |-> <<1, 1, 0>>,kind |-> <<"next", "in", "none">>,batch |-> <<1>>,drainI |-> <<>>,nbody |-> 0,fifoOk |-> TRUE,drainN |-> <<>>,running |-> TRUE,threadOk |-> TRUE,by |-> <<"M", "F1", "M">>,keep |-> TRUE,qIn |-> <<2>>,cancelled |-> {},qNext |-> <<>>,lastExec |-> (<<"M", "in">> :> 0 @@ <<"M", "next">> :> 0 @@ <<"F1", "in">> :> 0 @@ <<"F1", "next">> :> 0 @@ <<"F2", "in">> :> 0 @@ <<"F2", "next">> :> 0),runs |-> 1,lpc |-> "nextph"]),
    ([hasReq |-> TRUE,nsub |-> (<<"M", "in">> :> 0 @@ <<"M", "next">> :> 1 @@ <<"F1", "in">> :> 1 @@ <<"F1", "next">> :> 0 @@ <<"F2", "in">> :> 0 @@ <<"F2", "next">> :> 0),nexec |-> <<0, 0, 0>>,efd |-> 1,alive |-> TRUE,seqno |-> <<1, 1, 0>>,kind |-> <<"next", "in", "none">>,batch |-> <<1>>,drainI |-> <<>>,nbody |-> 0,fifoOk |-> TRUE,drainN |-> <<>>,running |-> TRUE,threadOk |-> TRUE,by |-> <<"M", "F1", "M">>,keep |-> FALSE,qIn |-> <<2>>,cancelled |-> {},qNext |-> <<>>,lastExec |-> (<<"M", "in">> :> 0 @@ <<"M", "next">> :> 0 @@ <<"F1", "in">> :> 0 @@ <<"F1", "next">> :> 0 @@ <<"F2", "in">> :> 0 @@ <<"F2", "next">> :> 0),runs |-> 1,lpc |-> "nextph"]),
    ([hasReq |-> TRUE,nsub |-> (<<"M", "in">> :> 0 @@ <<"M", "next">> :> 1 @@ <<"F1", "in">> :> 1 @@ <<"F1", "next">> :> 0 @@ <<"F2", "in">> :> 0 @@ <<"F2", "next">> :> 0),nexec |-> <<0, 0, 0>>,efd |-> 1,alive |-> TRUE,seqno |-> <<1, 1, 0>>,kind |-> <<"next", "in", "none">>,batch |-> <<1>>,drainI |-> <<>>,nbody |-> 1,fifoOk |-> TRUE,drainN |-> <<>>,running |-> TRUE,threadOk |-> TRUE,by |-> <<"M", "F1", "M">>,keep |-> FALSE,qIn |-> <<>>,cancelled |-> {2},qNext |-> <<>>,lastExec |-> (<<"M", "in">> :> 0 @@ <<"M", "next">> :> 0 @@ <<"F1", "in">> :> 0 @@ <<"F1", "next">> :> 0 @@ <<"F2", "in">> :> 0 @@ <<"F2", "next">> :> 0),runs |-> 1,lpc |-> "nextph"]),
    ([hasReq |-> TRUE,nsub |-> (<<"M", "in">> :> 0 @@ <<"M", "next">> :> 1 @@ <<"F1", "in">> :> 1 @@ <<"F1", "next">> :> 0 @@ <<"F2", "in">> :> 0 @@ <<"F2", "next">> :> 0),nexec |-> <<1, 0, 0>>,efd |-> 1,alive |-> TRUE,seqno |-> <<1, 1, 0>>,kind |-> <<"next", "in", "none">>,batch |-> <<>>,drainI |-> <<>>,nbody |-> 1,fifoOk |-> TRUE,drainN |-> <<>>,running |-> TRUE,threadOk |-> TRUE,by |-> <<"M", "F1", "M">>,keep |-> FALSE,qIn |-> <<>>,cancelled |-> {2},qNext |-> <<>>,lastExec |-> (<<"M", "in">> :> 0 @@ <<"M", "next">> :> 1 @@ <<"F1", "in">> :> 0 @@ <<"F1", "next">> :> 0 @@ <<"F2", "in">> :> 0 @@ <<"F2", "next">> :> 0),runs |-> 1,lpc |-> "nextph"]),
    ([hasReq |-> TRUE,nsub |-> (<<"M", "in">> :> 0 @@ <<"M", "next">> :> 1 @@ <<"F1", "in">> :> 1 @@ <<"F1", "next">> :> 0 @@ <<"F2", "in">> :> 0 @@ <<"F2", "next">> :> 0),nexec |-> <<1, 0, 0>>,efd |-> 1,alive |-> TRUE,seqno |-> <<1, 1, 0>>,kind |-> <<"next", "in", "none">>,batch |-> <<>>,drainI |-> <<>>,nbody |-> 1,fifoOk |-> TRUE,drainN |-> <<>>,running |-> TRUE,threadOk |-> TRUE,by |-> <<"M", "F1", "M">>,keep |-> FALSE,qIn |-> <<>>,cancelled |-> {2},qNext |-> <<>>,lastExec |-> (<<"M", "in">> :> 0 @@ <<"M", "next">> :> 1 @@ <<"F1", "in">> :> 0 @@ <<"F1", "next">> :> 0 @@ <<"F2", "in">> :> 0 @@ <<"F2", "next">> :> 0),runs |-> 1,lpc |-> "passend"]),
    ([hasReq |-> TRUE,nsub |-> (<<"M", "in">> :> 0 @@ <<"M", "next">> :> 1 @@ <<"F1", "in">> :> 1 @@ <<"F1", "next">> :> 0 @@ <<"F2", "in">> :> 0 @@ <<"F2", "next">> :> 0),nexec |-> <<1, 0, 0>>,efd |-> 1,alive |-> TRUE,seqno |-> <<1, 1, 0>>,kind |-> <<"next", "in", "none">>,batch |-> <<>>,drainI |-> <<>>,nbody |-> 1,fifoOk |-> TRUE,drainN |-> <<>>,running |-> TRUE,threadOk |-> TRUE,by |-> <<"M", "F1", "M">>,keep |-> FALSE,qIn |-> <<>>,cancelled |-> {2},qNext |-> <<>>,lastExec |-> (<<"M", "in">> :> 0 @@ <<"M", "next">> :> 1 @@ <<"F1", "in">> :> 0 @@ <<"F1", "next">> :> 0 @@ <<"F2", "in">> :> 0 @@ <<"F2", "next">> :> 0),runs |-> 1,lpc |-> "after"]),
    ([hasReq |-> TRUE,nsub |-> (<<"M", "in">> :> 0 @@ <<"M", "next">> :> 1 @@ <<"F1", "in">> :> 1 @@ <<"F1", "next">> :> 0 @@ <<"F2", "in">> :> 0 @@ <<"F2", "next">> :> 0),nexec |-> <<1, 0, 0>>,efd |-> 1,alive |-> TRUE,seqno |-> <<1, 1, 0>>,kind |-> <<"next", "in", "none">>,batch |-> <<>>,drainI |-> <<>>,nbody |-> 1,fifoOk |-> TRUE,drainN |-> <<>>,running |-> TRUE,threadOk |-> TRUE,by |-> <<"M", "F1", "M">>,keep |-> FALSE,qIn |-> <<>>,cancelled |-> {2},qNext |-> <<>>,lastExec |-> (<<"M", "in">> :> 0 @@ <<"M", "next">> :> 1 @@ <<"F1", "in">> :> 0 @@ <<"F1", "next">> :> 0 @@ <<"F2", "in">> :> 0 @@ <<"F2", "next">> :> 0),runs |-> 1,lpc |-> "afterdrain"]),
    ([hasReq |-> TRUE,nsub |-> (<<"M", "in">> :> 0 @@ <<"M", "next">> :> 1 @@ <<"F1", "in">> :> 1 @@ <<"F1", "next">> :> 0 @@ <<"F2", "in">> :> 0 @@ <<"F2", "next">> :> 0),nexec |-> <<1, 0, 0>>,efd |-> 0,alive |-> TRUE,seqno |-> <<1, 1, 0>>,kind |-> <<"next", "in", "none">>,batch |-> <<>>,drainI |-> <<>>,nbody |-> 1,fifoOk |-> TRUE,drainN |-> <<>>,running |-> FALSE,threadOk |-> TRUE,by |-> <<"M", "F1", "M">>,keep |-> FALSE,qIn |-> <<>>,cancelled |-> {2},qNext |-> <<>>,lastExec |-> (<<"M", "in">> :> 0 @@ <<"M", "next">> :> 1 @@ <<"F1", "in">> :> 0 @@ <<"F1", "next">> :> 0 @@ <<"F2", "in">> :> 0 @@ <<"F2", "next">> :> 0),runs |-> 1,lpc |-> "out"])
    >>
----


=============================================================================

---- CONFIG MC_Deferred_TTrace_1790993621 ----
CONSTANTS
    Tasks = { 1 , 2 , 3 }
    Threads = { "M" , "F1" , "F2" }
    LoopThread = "M"
    Foreign = { "F1" }
    MaxRuns = 2
    MaxBody = 1
    AsFoundStaleReq = TRUE

INVARIANT
    _inv

CHECK_DEADLOCK
    \* CHECK_DEADLOCK off because of PROPERTY or INVARIANT above.
    FALSE

INIT
    _init

NEXT
    _next

CONSTANT
    _TETrace <- _trace

ALIAS
    _expression
=============================================================================
\* Generated on Sat Oct 03 02:13:48 UTC 2026