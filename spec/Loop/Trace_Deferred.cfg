CONSTANTS
  Tasks = {1,2,3,4,5,6,7,8,9,10,11,12,13,14,15,16,17,18,19,20,21,22,23,24,25,26,27,28,29,30,31,32,33,34,35,36,37,38,39,40,41,42,43,44,45,46,47,48,49,50,51,52,53,54,55,56,57,58,59,60,61,62,63,64,65,66,67,68,69,70,71,72,73,74,75,76,77,78,79,80,1000,1001,1002,1003,1004,1005,1006,1007,1008,1009,1010,1011,1012,1013,1014,1015,1016,1017,1018,1019,1020,1021,1022,1023,1024,1025,1026,1027,1028,1029,1030}
  Threads = {"M", "F1", "F2", "F3", "F4", "L"}
  LoopThread = "M"
SPECIFICATION TSpec
CONSTRAINT Progress
POSTCONDITION Accepted
INVARIANTS AtMostOnce CancelledNeverRuns OnLoopThread FifoPerSubmitter NoLostWakeup ReqConsistent NothingDropped ExactlyOncePending
CHECK_DEADLOCK FALSE
