--------------------------- MODULE Trace_Deferred ---------------------------
(* Trace validation for C01: events recorded at the hook points of the real loop and by the submitted    *)
(* callables, in global sequence order, must be a behaviour of DeferredData; all C01 invariants are        *)
(* evaluated after every event.                                                                            *)
EXTENDS DeferredData, Json, IOUtils
Log == ndJsonDeserialize(IOEnv.TRACE)
VARIABLES l
ASSUME TLCSet(42, 0)
tvars == <<dvars, l>>
Ev == Log[l]
IsEv(e) == l <= Len(Log) /\ Log[l].e = e /\ l' = l + 1
Skip(e) == IsEv(e) /\ UNCHANGED dvars
ResetData ==
  /\ qIn' = <<>> /\ qNext' = <<>> /\ batch' = <<>> /\ drainN' = <<>> /\ drainI' = <<>> /\ hasReq' = FALSE /\ efd' = 0
  /\ running' = FALSE /\ alive' = TRUE
  /\ kind' = [t \in Tasks |-> "none"] /\ by' = [t \in Tasks |-> LoopThread] /\ seqno' = [t \in Tasks |-> 0]
  /\ nsub' = [x \in Threads \X Kinds |-> 0] /\ nexec' = [t \in Tasks |-> 0] /\ lastExec' = [x \in Threads \X Kinds |-> 0]
  /\ cancelled' = {} /\ fifoOk' = TRUE /\ threadOk' = TRUE
TInit == DInit /\ l = 1
TNext ==
  \/ IsEv("Reset") /\ ResetData
  \/ Skip("begin") \/ Skip("cleanup_call") \/ Skip("cleanup_ret") \/ Skip("run_loop") \/ Skip("loop_return") \/ Skip("exit") \/ Skip("destroy")
  \/ IsEv("push_in") /\ DPushIn(Ev.t, Ev.th, Ev.wrote)
  \/ IsEv("push_next") /\ DPushNext(Ev.t, Ev.th)
  \/ IsEv("start_locked") /\ DStartLocked(Ev.n, Ev.wrote)
  \/ IsEv("swap_in") /\ DSwapIn(Ev.n, Ev.left)
  \/ IsEv("swap_next") /\ DSwapNext(Ev.n, Ev.left)
  \/ IsEv("drain_gen") /\ DDrainGen(Ev.nn, Ev.ni)
  \/ IsEv("exec") /\ DExec(Ev.t, Ev.main)
  \/ IsEv("cancel") /\ DCancel(Ev.t, Ev.res)
  \/ IsEv("after_closed") /\ DAfterClosed(Ev.req, TRUE)
  \/ IsEv("destroyed") /\ OnlyInt(qIn) /\ OnlyInt(qNext) /\ OnlyInt(batch) /\ OnlyInt(drainN) /\ OnlyInt(drainI) /\ DDestroyed
  \/ Skip("end")
TSpec == TInit /\ [][TNext]_tvars
Progress == TLCSet(42, IF l > TLCGet(42) THEN l ELSE TLCGet(42))
Accepted == IF TLCGet(42) = Len(Log) + 1 THEN TRUE ELSE PrintT(<<"MAXPOS", TLCGet(42), Len(Log)>>) /\ FALSE
=============================================================================
