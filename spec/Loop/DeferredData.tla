---------------------------- MODULE DeferredData ----------------------------
(* C01 - the loop's deferred-task machinery (common_loop_run.cpp, common_loop.cpp): the cross-thread     *)
(* queue with its eventfd wake-up request, the loop-thread queue, the batch being executed, the shutdown  *)
(* drain.  One action per critical section / hook point; DeferredTasks.tla adds threads and the recursive *)
(* mutex for model checking, Trace_Deferred.tla drives the actions from events recorded in the real code. *)
EXTENDS Naturals, Sequences, FiniteSets, TLC
CONSTANTS Tasks, Threads, LoopThread     \* task numbers, thread names, the thread that runs / destroys the loop

VARIABLES
  qIn,      \* run_in_loop_func_queue_ (guarded by lock_)
  qNext,    \* run_next_func_queue_    (loop thread only)
  batch,    \* tmp_func_queue_: the batch being executed
  drainN, drainI,   \* the two local batches of one generation of cleanupDeferredTasks()
  hasReq,   \* has_commit_run_req_
  efd,      \* counter of the eventfd (0 when there is none)
  running,  \* sp_run_read_event_ != nullptr
  alive,    \* the loop object exists
  (* ghost *)
  kind,     \* kind[t] : "in" | "next" | "none"   (which queue the task was put in)
  by,       \* by[t]   : submitting thread
  seqno,    \* seqno[t]: position among the submissions of the same thread through the same queue
  nsub,     \* nsub[<<th, k>>]: submissions so far
  nexec,    \* nexec[t]: executions
  lastExec, \* lastExec[<<th, k>>]: seqno of the last executed task of that thread / queue
  cancelled, fifoOk, threadOk
dvars == <<qIn, qNext, batch, drainN, drainI, hasReq, efd, running, alive, kind, by, seqno, nsub, nexec, lastExec, cancelled, fifoOk, threadOk>>
Kinds == {"in", "next"}

DInit ==
  /\ qIn = <<>> /\ qNext = <<>> /\ batch = <<>> /\ drainN = <<>> /\ drainI = <<>> /\ hasReq = FALSE /\ efd = 0
  /\ running = FALSE /\ alive = TRUE
  /\ kind = [t \in Tasks |-> "none"] /\ by = [t \in Tasks |-> LoopThread] /\ seqno = [t \in Tasks |-> 0]
  /\ nsub = [x \in Threads \X Kinds |-> 0] /\ nexec = [t \in Tasks |-> 0] /\ lastExec = [x \in Threads \X Kinds |-> 0]
  /\ cancelled = {} /\ fifoOk = TRUE /\ threadOk = TRUE

\* The library defers work of its own through the same queues (e.g. a finished one-shot timer - the exit timer - is freed by a deferred task).
\* Such tasks (numbers from 1000) count in every queue length the hooks report, but their execution is not observable: they are
\* presumed executed when the code moves on to the next batch, and the properties of C01 speak about the user's callables only.
IsInt(t) == t >= 1000
OnlyInt(s) == \A i \in 1..Len(s) : IsInt(s[i])
Range(s) == {s[i] : i \in 1..Len(s)}
Without(s, x) == SelectSeq(s, LAMBDA y : y # x)
Pending == Range(qIn) \cup Range(qNext) \cup Range(batch) \cup Range(drainN) \cup Range(drainI)
NoteSubmit(t, th, k) ==
  /\ kind[t] = "none" /\ kind' = [kind EXCEPT ![t] = k] /\ by' = [by EXCEPT ![t] = th]
  /\ nsub' = [nsub EXCEPT ![<<th, k>>] = @ + 1] /\ seqno' = [seqno EXCEPT ![t] = nsub[<<th, k>>] + 1]

(* ---- runInLoop(), any thread, under lock_: "loop.ril.push"(id, wrote) ---- *)
DPushIn(t, th, wrote) ==
  /\ alive /\ NoteSubmit(t, th, "in") /\ qIn' = Append(qIn, t)
  /\ ((running /\ ~hasReq) => wrote) /\ (wrote => running)   \* a write is required when no wake-up request is outstanding
                                                             \* (the code writes exactly then; extra writes would be harmless)
  /\ efd' = (IF wrote THEN efd + 1 ELSE efd) /\ hasReq' = (hasReq \/ wrote)
  /\ UNCHANGED <<qNext, batch, drainN, drainI, running, alive, nexec, lastExec, cancelled, fifoOk, threadOk>>
(* ---- runNext(), loop thread (or the thread that owns the stopped loop): "loop.next.push" ---- *)
DPushNext(t, th) ==
  /\ alive /\ NoteSubmit(t, th, "next") /\ qNext' = Append(qNext, t)
  /\ UNCHANGED <<qIn, batch, drainN, drainI, hasReq, efd, running, alive, nexec, lastExec, cancelled, fifoOk, threadOk>>
(* ---- runThisBeforeLoop(), under lock_: "loop.start.locked"(queue length, wrote) ---- *)
DStartLocked(n, wrote) ==
  /\ alive /\ ~running /\ running' = TRUE /\ n = Len(qIn)
  /\ wrote = (qIn # <<>> /\ ~hasReq) /\ efd' = (IF wrote THEN 1 ELSE 0) /\ hasReq' = (hasReq \/ wrote)
  /\ UNCHANGED <<qIn, qNext, batch, drainN, drainI, alive, kind, by, seqno, nsub, nexec, lastExec, cancelled, fifoOk, threadOk>>
(* ---- handleRunInLoopFunc(), the eventfd is readable, under lock_: "loop.swap.in"(batch size, left) ---- *)
DSwapIn(n, left) ==
  /\ running /\ efd > 0 /\ OnlyInt(batch) /\ batch' = qIn /\ qIn' = <<>> /\ n = Len(qIn) /\ left = 0 /\ efd' = 0 /\ hasReq' = FALSE
  /\ UNCHANGED <<qNext, drainN, drainI, running, alive, kind, by, seqno, nsub, nexec, lastExec, cancelled, fifoOk, threadOk>>
(* ---- handleNextFunc(): "loop.swap.next"(batch size, left) ---- *)
DSwapNext(n, left) ==
  /\ running /\ OnlyInt(batch) /\ batch' = qNext /\ qNext' = <<>> /\ n = Len(qNext) /\ left = 0
  /\ UNCHANGED <<qIn, drainN, drainI, hasReq, efd, running, alive, kind, by, seqno, nsub, nexec, lastExec, cancelled, fifoOk, threadOk>>
(* ---- cleanupDeferredTasks(), one generation: "loop.drain.gen"(next tasks, in-loop tasks) ---- *)
DDrainGen(nn, ni) ==
  /\ OnlyInt(drainN) /\ OnlyInt(drainI) /\ drainN' = qNext /\ drainI' = qIn /\ qNext' = <<>> /\ qIn' = <<>>
  /\ nn = Len(qNext) /\ ni = Len(qIn) /\ nn + ni > 0
  /\ UNCHANGED <<batch, hasReq, efd, running, alive, kind, by, seqno, nsub, nexec, lastExec, cancelled, fifoOk, threadOk>>
(* ---- a deferred task is invoked ---- *)
\* the batch that is being executed: the swapped batch, else the local batches of the current drain generation
\* (in which order the two local batches of a drain generation are worked through is not fixed by C01: they come from different entry points)
CurBatch == IF ~OnlyInt(batch) THEN batch ELSE drainN \o drainI
NextUp == IF CurBatch = <<>> THEN 0 ELSE Head(CurBatch)         \* what the code runs next (it works through a batch front to back)
\* C01 fixes the order only among the submissions of one thread through one entry point: any member of the current batch may run
\* as long as no earlier member of that batch comes from the same thread and queue (checked through fifoOk as well)
Runnable(t) == \E i \in 1..Len(CurBatch) : CurBatch[i] = t /\ \A j \in 1..(i - 1) : <<by[CurBatch[j]], kind[CurBatch[j]]>> # <<by[t], kind[t]>>
DExec(t, onLoopThread) ==
  /\ t # 0 /\ ~IsInt(t) /\ Runnable(t)
  /\ IF ~OnlyInt(batch) THEN batch' = Without(batch, t) /\ UNCHANGED <<drainN, drainI>>
     ELSE drainN' = Without(drainN, t) /\ drainI' = Without(drainI, t) /\ UNCHANGED batch
  /\ nexec' = [nexec EXCEPT ![t] = @ + 1]
  /\ LET x == <<by[t], kind[t]>> IN
       /\ fifoOk' = (fifoOk /\ seqno[t] > lastExec[x]) /\ lastExec' = [lastExec EXCEPT ![x] = seqno[t]]
  /\ threadOk' = (threadOk /\ onLoopThread)
  /\ UNCHANGED <<qIn, qNext, hasReq, efd, running, alive, kind, by, seqno, nsub, cancelled>>
(* ---- cancel(id), loop thread ---- *)
WouldCancel(t) == t \in Range(batch) \/ (kind[t] = "next" /\ t \in Range(qNext)) \/ (kind[t] = "in" /\ t \in Range(qIn))
DCancel(t, res) ==
  /\ res = WouldCancel(t)
  /\ IF res THEN /\ batch' = Without(batch, t) /\ qNext' = Without(qNext, t) /\ qIn' = Without(qIn, t)
                 /\ cancelled' = cancelled \cup {t}
            ELSE UNCHANGED <<batch, qNext, qIn, cancelled>>
  /\ UNCHANGED <<drainN, drainI, hasReq, efd, running, alive, kind, by, seqno, nsub, nexec, lastExec, fifoOk, threadOk>>
(* ---- runThisAfterLoop(), end of its critical section: "loop.after.closed"(has_commit_run_req_) ---- *)
DAfterClosed(reqLeft, reset) ==   \* reset: the wake-up request flag is cleared together with the eventfd (intended design)
  /\ running /\ running' = FALSE /\ efd' = 0 /\ hasReq' = (IF reset THEN FALSE ELSE hasReq) /\ reqLeft = hasReq'
  /\ UNCHANGED <<qIn, qNext, batch, drainN, drainI, alive, kind, by, seqno, nsub, nexec, lastExec, cancelled, fifoOk, threadOk>>
(* ---- the loop object is destroyed (after its final drain) ---- *)
DDestroyed ==
  /\ alive /\ ~running /\ alive' = FALSE
  /\ UNCHANGED <<qIn, qNext, batch, drainN, drainI, hasReq, efd, running, kind, by, seqno, nsub, nexec, lastExec, cancelled, fifoOk, threadOk>>

(* ------------------------------------ the properties of C01 ------------------------------------ *)
AtMostOnce == \A t \in Tasks : nexec[t] <= 1
CancelledNeverRuns == \A t \in cancelled : nexec[t] = 0 /\ t \notin Pending
OnLoopThread == threadOk
FifoPerSubmitter == fifoOk
\* a pending cross-thread submission always has the eventfd signalled while the loop runs: the poll cannot sleep on it
NoLostWakeup == (running /\ qIn # <<>>) => efd > 0
ReqConsistent == (hasReq => running /\ efd > 0) /\ (~running => efd = 0)
\* evaluated when the loop object is gone: nothing was dropped
NothingDropped == ~alive => \A t \in Tasks : (kind[t] # "none" /\ ~IsInt(t)) => (nexec[t] = 1 \/ t \in cancelled)
ExactlyOncePending == \A t \in Tasks : (kind[t] # "none" /\ ~IsInt(t) /\ t \notin cancelled /\ nexec[t] = 0) => t \in Pending
=============================================================================
