CONSTANTS
  T = {1, 2, 3}
  Intervals = {1, 2}
  MaxNow = 12
  MaxAdv = 4
  MaxCbOps = 1
  Variant = "intended"
  Depth = 6
  Preload = TRUE
  Focus = TRUE
  Kinds = {"event"}
SPECIFICATION GSpec
CONSTRAINT Emit
CHECK_DEADLOCK FALSE
