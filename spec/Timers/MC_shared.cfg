CONSTANTS
  T = {t1, t2, t3, t4}
  Intervals = {2}
  MaxNow = 3
  MaxAdv = 2
  MaxCbOps = 1
  Variant = "intended"
SPECIFICATION Spec
SYMMETRY Perms
INVARIANTS TypeOK HeapIsEnabled DeadlineExact NeverEarly FreshInterval NoSkip DeadlineOrder NoFireAfterDisable OneShotDisabledInCallback OneShotOnce
CHECK_DEADLOCK FALSE
