CONSTANTS
  T = {t1, t2}
  Intervals = {1, 2}
  MaxNow = 5
  MaxAdv = 3
  MaxCbOps = 1
  Variant = "lazy_disable"
SPECIFICATION Spec
SYMMETRY Perms
INVARIANTS NoFireAfterDisable
CHECK_DEADLOCK FALSE
