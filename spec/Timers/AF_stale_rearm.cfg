CONSTANTS
  T = {t1, t2}
  Intervals = {1, 2}
  MaxNow = 5
  MaxAdv = 3
  MaxCbOps = 1
  Variant = "stale_rearm"
SPECIFICATION Spec
SYMMETRY Perms
INVARIANTS FreshInterval
CHECK_DEADLOCK FALSE
