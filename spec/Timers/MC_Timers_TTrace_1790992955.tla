---- MODULE MC_Timers_TTrace_1790992955 ----
EXTENDS MC_Timers_TEConstants, Sequences, MC_Timers, TLCExt, Toolbox, Naturals, TLC

_expression ==
    LET MC_Timers_TEExpression == INSTANCE MC_Timers_TEExpression
    IN MC_Timers_TEExpression!expression
----

_trace ==
    LET MC_Timers_TETrace == INSTANCE MC_Timers_TETrace
    IN MC_Timers_TETrace!trace
----

_inv ==
    ~(
        TLCGet("level") = Len(_TETrace)
        /\
        phase = ("cb")
        /\
        ret = (TRUE)
        /\
        cur = (t1)
        /\
        kind = ("pool")
        /\
        nops = (0)
        /\
        now = (1)
        /\
        lastfire = ([d |-> 1, mode |-> "oneshot", at |-> 0, k |-> 1, i |-> t1, t |-> 1, wasEn |-> TRUE, enCb |-> TRUE, gdl |-> 1, prev |-> 0])
        /\
        tm = ((t1 :> [st |-> "inited", en |-> TRUE, d |-> 1, mode |-> "oneshot", dl |-> 0, at |-> 0, k |-> 1] @@ t2 :> [st |-> "none", en |-> FALSE, d |-> 0, mode |-> "oneshot", dl |-> 0, at |-> 0, k |-> 0]))
        /\
        heap = ({})
        /\
        passNow = (1)
        /\
        prevDl = (1)
    )
----

_init ==
    /\ phase = _TETrace[1].phase
    /\ heap = _TETrace[1].heap
    /\ passNow = _TETrace[1].passNow
    /\ nops = _TETrace[1].nops
    /\ cur = _TETrace[1].cur
    /\ prevDl = _TETrace[1].prevDl
    /\ now = _TETrace[1].now
    /\ kind = _TETrace[1].kind
    /\ ret = _TETrace[1].ret
    /\ lastfire = _TETrace[1].lastfire
    /\ tm = _TETrace[1].tm
----

_next ==
    /\ \E i,j \in DOMAIN _TETrace:
        /\ \/ /\ j = i + 1
              /\ i = TLCGet("level")
        /\ phase  = _TETrace[i].phase
        /\ phase' = _TETrace[j].phase
        /\ heap  = _TETrace[i].heap
        /\ heap' = _TETrace[j].heap
        /\ passNow  = _TETrace[i].passNow
        /\ passNow' = _TETrace[j].passNow
        /\ nops  = _TETrace[i].nops
        /\ nops' = _TETrace[j].nops
        /\ cur  = _TETrace[i].cur
        /\ cur' = _TETrace[j].cur
        /\ prevDl  = _TETrace[i].prevDl
        /\ prevDl' = _TETrace[j].prevDl
        /\ now  = _TETrace[i].now
        /\ now' = _TETrace[j].now
        /\ kind  = _TETrace[i].kind
        /\ kind' = _TETrace[j].kind
        /\ ret  = _TETrace[i].ret
        /\ ret' = _TETrace[j].ret
        /\ lastfire  = _TETrace[i].lastfire
        /\ lastfire' = _TETrace[j].lastfire
        /\ tm  = _TETrace[i].tm
        /\ tm' = _TETrace[j].tm

\* Uncomment the ASSUME below to write the states of the error trace
\* to the given file in Json format. Note that you can pass any tuple
\* to `JsonSerialize`. For example, a sub-sequence of _TETrace.
    \* ASSUME
    \*     LET J == INSTANCE Json
    \*         IN J!JsonSerialize("MC_Timers_TTrace_1790992955.json", _TETrace)

=============================================================================

 Note that you can extract this module `MC_Timers_TEExpression`
  to a dedicated file to reuse `expression` (the module in the 
  dedicated `MC_Timers_TEExpression.tla` file takes precedence 
  over the module `MC_Timers_TEExpression` below).

---- MODULE MC_Timers_TEExpression ----
EXTENDS MC_Timers_TEConstants, Sequences, MC_Timers, TLCExt, Toolbox, Naturals, TLC

expression == 
    [
        \* To hide variables of the `MC_Timers` spec from the error trace,
        \* remove the variables below.  The trace will be written in the order
        \* of the fields of this record.
        phase |-> phase
        ,heap |-> heap
        ,passNow |-> passNow
        ,nops |-> nops
        ,cur |-> cur
        ,prevDl |-> prevDl
        ,now |-> now
        ,kind |-> kind
        ,ret |-> ret
        ,lastfire |-> lastfire
        ,tm |-> tm
        
        \* Put additional constant-, state-, and action-level expressions here:
        \* ,_stateNumber |-> _TEPosition
        \* ,_phaseUnchanged |-> phase = phase'
        
        \* Format the `phase` variable as Json value.
        \* ,_phaseJson |->
        \*     LET J == INSTANCE Json
        \*     IN J!ToJson(phase)
        
        \* Lastly, you may build expressions over arbitrary sets of states by
        \* leveraging the _TETrace operator.  For example, this is how to
        \* count the number of times a spec variable changed up to the current
        \* state in the trace.
        \* ,_phaseModCount |->
        \*     LET F[s \in DOMAIN _TETrace] ==
        \*         IF s = 1 THEN 0
        \*         ELSE IF _TETrace[s].phase # _TETrace[s-1].phase
        \*             THEN 1 + F[s-1] ELSE F[s-1]
        \*     IN F[_TEPosition - 1]
    ]

=============================================================================



Parsing and semantic processing can take forever if the trace below is long.
 In this case, it is advised to uncomment the module below to deserialize the
 trace from a generated binary file.

\*
\*---- MODULE MC_Timers_TETrace ----
\*EXTENDS MC_Timers_TEConstants, IOUtils, MC_Timers, TLC
\*
\*trace == IODeserialize("MC_Timers_TTrace_1790992955.bin", TRUE)
\*
\*=============================================================================
\*

---- MODULE MC_Timers_TETrace ----
EXTENDS MC_Timers_TEConstants, MC_Timers, TLC

trace == 
    <<
    ([phase |-> "idle",ret |-> TRUE,cur |-> 0,kind |-> "pool",nops |-> 0,now |-> 0,lastfire |-> [d |-> 0, mode |-> "oneshot", at |-> 0, k |-> 0, i |-> 0, t |-> 0, wasEn |-> TRUE, enCb |-> FALSE, gdl |-> 0, prev |-> 0],tm |-> (t1 :> [st |-> "none", en |-> FALSE, d |-> 0, mode |-> "oneshot", dl |-> 0, at |-> 0, k |-> 0] @@ t2 :> [st |-> "none", en |-> FALSE, d |-> 0, mode |-> "oneshot", dl |-> 0, at |-> 0, k |-> 0]),heap |-> {},passNow |-> 0,prevDl |-> 0]),
    ([phase |-> "idle",ret |-> TRUE,cur |-> 0,kind |-> "pool",nops |-> 0,now |-> 0,lastfire |-> [d |-> 0, mode |-> "oneshot", at |-> 0, k |-> 0, i |-> 0, t |-> 0, wasEn |-> TRUE, enCb |-> FALSE, gdl |-> 0, prev |-> 0],tm |-> (t1 :> [st |-> "inited", en |-> TRUE, d |-> 1, mode |-> "oneshot", dl |-> 1, at |-> 0, k |-> 0] @@ t2 :> [st |-> "none", en |-> FALSE, d |-> 0, mode |-> "oneshot", dl |-> 0, at |-> 0, k |-> 0]),heap |-> {t1},passNow |-> 0,prevDl |-> 0]),
    ([phase |-> "idle",ret |-> TRUE,cur |-> 0,kind |-> "pool",nops |-> 0,now |-> 1,lastfire |-> [d |-> 0, mode |-> "oneshot", at |-> 0, k |-> 0, i |-> 0, t |-> 0, wasEn |-> TRUE, enCb |-> FALSE, gdl |-> 0, prev |-> 0],tm |-> (t1 :> [st |-> "inited", en |-> TRUE, d |-> 1, mode |-> "oneshot", dl |-> 1, at |-> 0, k |-> 0] @@ t2 :> [st |-> "none", en |-> FALSE, d |-> 0, mode |-> "oneshot", dl |-> 0, at |-> 0, k |-> 0]),heap |-> {t1},passNow |-> 0,prevDl |-> 0]),
    ([phase |-> "pass",ret |-> TRUE,cur |-> 0,kind |-> "pool",nops |-> 0,now |-> 1,lastfire |-> [d |-> 0, mode |-> "oneshot", at |-> 0, k |-> 0, i |-> 0, t |-> 0, wasEn |-> TRUE, enCb |-> FALSE, gdl |-> 0, prev |-> 0],tm |-> (t1 :> [st |-> "inited", en |-> TRUE, d |-> 1, mode |-> "oneshot", dl |-> 1, at |-> 0, k |-> 0] @@ t2 :> [st |-> "none", en |-> FALSE, d |-> 0, mode |-> "oneshot", dl |-> 0, at |-> 0, k |-> 0]),heap |-> {t1},passNow |-> 1,prevDl |-> 0]),
    ([phase |-> "cb",ret |-> TRUE,cur |-> t1,kind |-> "pool",nops |-> 0,now |-> 1,lastfire |-> [d |-> 1, mode |-> "oneshot", at |-> 0, k |-> 1, i |-> t1, t |-> 1, wasEn |-> TRUE, enCb |-> TRUE, gdl |-> 1, prev |-> 0],tm |-> (t1 :> [st |-> "inited", en |-> TRUE, d |-> 1, mode |-> "oneshot", dl |-> 0, at |-> 0, k |-> 1] @@ t2 :> [st |-> "none", en |-> FALSE, d |-> 0, mode |-> "oneshot", dl |-> 0, at |-> 0, k |-> 0]),heap |-> {},passNow |-> 1,prevDl |-> 1])
    >>
----


=============================================================================

---- MODULE MC_Timers_TEConstants ----
EXTENDS MC_Timers

CONSTANTS t1, t2

=============================================================================

---- CONFIG MC_Timers_TTrace_1790992955 ----
CONSTANTS
    T = { t1 , t2 }
    Intervals = { 1 , 2 }
    MaxNow = 5
    MaxAdv = 3
    MaxCbOps = 1
    Variant = "oneshot_after"
    t1 = t1
    t2 = t2

INVARIANT
    _inv

CHECK_DEADLOCK
    \* CHECK_DEADLOCK off because of PROPERTY or INVARIANT above.
    FALSE

INIT
    _init

NEXT
    _next

CONSTANT
    _TETrace <- _trace

ALIAS
    _expression
=============================================================================
\* Generated on Sat Oct 03 02:02:38 UTC 2026