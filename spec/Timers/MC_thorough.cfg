CONSTANTS
  T = {t1, t2, t3}
  Intervals = {1, 2, 3}
  MaxNow = 6
  MaxAdv = 3
  MaxCbOps = 1
  Variant = "intended"
SPECIFICATION Spec
SYMMETRY Perms
INVARIANTS TypeOK HeapIsEnabled DeadlineExact NeverEarly FreshInterval NoSkip DeadlineOrder NoFireAfterDisable OneShotDisabledInCallback OneShotOnce
CHECK_DEADLOCK FALSE
