---------------------------- MODULE MC_Timers ----------------------------
(* Bounded models of Timers for exhaustive checking; constants come from the cfg files.               *)
(* Timer slots are interchangeable, so the exhaustive configurations declare T as a symmetry set.       *)
EXTENDS Timers, TLC
Perms == Permutations(T)
=============================================================================
