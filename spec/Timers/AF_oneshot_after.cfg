CONSTANTS
  T = {t1, t2}
  Intervals = {1, 2}
  MaxNow = 5
  MaxAdv = 3
  MaxCbOps = 1
  Variant = "oneshot_after"
SPECIFICATION Spec
SYMMETRY Perms
INVARIANTS OneShotDisabledInCallback
CHECK_DEADLOCK FALSE
