CONSTANTS
  T = {t1, t2}
  Intervals = {1, 2}
  MaxNow = 5
  MaxAdv = 3
  MaxCbOps = 1
  Variant = "pick_any"
SPECIFICATION Spec
SYMMETRY Perms
INVARIANTS DeadlineOrder
CHECK_DEADLOCK FALSE
