--------------------------- MODULE Trace_Timers ---------------------------
(* Trace validation for C02.  Every line of the ndjson trace recorded from the real loop must be the     *)
(* corresponding action of Timers (Variant = "intended"), with the logged virtual time and -- for        *)
(* TimerEvent objects -- the logged isEnabled() of every slot after the step (for TimerPool: the answer  *)
(* of cancel()).  Return values of initialize/enable/disable are logged but not compared.                *)
(*   fire    must be FireOne of that timer: it is in the heap, due, and of MINIMUM deadline (any timer    *)
(*           among equal deadlines is accepted); it is rejected when the timer is disabled/destroyed,    *)
(*           early, or overtakes an earlier deadline                                                     *)
(*   passend must be PassEnd: no enabled timer is still due (no skipped period, no forgotten one-shot)   *)
(* All invariants of Timers are evaluated on every state of the trace as well.                            *)
EXTENDS Timers, Json, IOUtils, TLC
Log == ndJsonDeserialize(IOEnv.TRACE)
VARIABLE l
ASSUME TLCSet(42, 0)
tvars == <<vars, l>>

Ev == Log[l]
IsEv(e) == l <= Len(Log) /\ Log[l].e = e /\ l' = l + 1
InCb == cur = Ev.cb
Post == /\ now' = Ev.now
        /\ (kind' = "event" => \A i \in DOMAIN Ev.en : tm'[i].en = Ev.en[i])
R == ret' = Ev.ret

\* the poll timeout computed after a pass (0 = do not sleep, -1 = sleep until some other event, -2 = not observed).
\* The statement tolerates late wake-ups, so the only demand is that the loop does not sleep forever while a timer is armed.
SleepOK == Ev.w = -2 \/ {j \in T : tm[j].en} = {} \/ Ev.w >= 0

TInit == Init /\ l = 1
TReset == /\ IsEv("Reset")
          /\ now' = 0 /\ passNow' = 0 /\ phase' = "idle" /\ cur' = 0 /\ nops' = 0 /\ kind' = Ev.kind
          /\ tm' = [i \in T |-> NoTimer] /\ heap' = {} /\ lastfire' = NoFire /\ prevDl' = 0 /\ ret' = TRUE
TNext ==
  \/ TReset
  \/ IsEv("info") /\ kind = Ev.kind /\ UNCHANGED vars          \* execution header repeated for replay files
  \/ IsEv("create") /\ InCb /\ Create(Ev.i) /\ Post
  \/ IsEv("init") /\ InCb /\ Initialize(Ev.i, Ev.d, Ev.m) /\ Post
  \/ IsEv("enable") /\ InCb /\ Enable(Ev.i) /\ Post
  \/ IsEv("disable") /\ InCb /\ Disable(Ev.i) /\ Post
  \/ IsEv("destroy") /\ InCb /\ Destroy(Ev.i) /\ Post
  \/ IsEv("every") /\ InCb /\ Every(Ev.i, Ev.d) /\ Post
  \/ IsEv("after") /\ InCb /\ After(Ev.i, Ev.d) /\ Post
  \/ IsEv("cancel") /\ InCb /\ Cancel(Ev.i) /\ R /\ Post
  \/ IsEv("adv") /\ InCb /\ Advance(Ev.n) /\ Post
  \/ IsEv("pass") /\ PassBegin /\ Post
  \/ IsEv("fire") /\ (\E L \in {passNow, now} : FireOne(Ev.i, L)) /\ Post
  \/ IsEv("cbend") /\ cur = Ev.i /\ CbEnd /\ Post
  \/ IsEv("passend") /\ PassEnd /\ SleepOK /\ Post
TSpec == TInit /\ [][TNext]_tvars

Progress == TLCSet(42, IF l > TLCGet(42) THEN l ELSE TLCGet(42))
Accepted == IF TLCGet(42) = Len(Log) + 1 THEN TRUE ELSE PrintT(<<"MAXPOS", TLCGet(42), Len(Log)>>) /\ FALSE
=============================================================================
