CONSTANTS
  T = {1, 2, 3, 4, 5, 6, 7, 8, 9, 10, 11, 12, 13, 14, 15, 16, 17, 18, 19, 20}
  Intervals = {1}
  MaxNow = 1000000000
  MaxAdv = 0
  MaxCbOps = 1000000
  Variant = "intended"
SPECIFICATION TSpec
CONSTRAINT Progress
POSTCONDITION Accepted
INVARIANTS HeapIsEnabled DeadlineExact NeverEarly FreshInterval NoSkip DeadlineOrder NoFireAfterDisable OneShotDisabledInCallback OneShotOnce
CHECK_DEADLOCK FALSE
