CONSTANTS
  T = {1, 2, 3, 4}
  Intervals = {1, 2, 3}
  MaxNow = 1000
  MaxAdv = 5
  MaxCbOps = 2
  Variant = "intended"
  Depth = 36
  Preload = FALSE
  Focus = FALSE
  Kinds = {"event", "pool"}
SPECIFICATION GSpec
CONSTRAINT Emit
CHECK_DEADLOCK FALSE
