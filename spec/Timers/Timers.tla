------------------------------- MODULE Timers -------------------------------
(* C02 - timers of the cpp-tbox event loop (TimerEvent on CommonLoop, and TimerPool on top of it).        *)
(*                                                                                                         *)
(* Implementation-shaped model.  Time is virtual (`now`, milliseconds).  The loop keeps the enabled        *)
(* timers in a min-heap keyed by an absolute deadline; the binary heap is abstracted to the set `heap`     *)
(* plus "take an element of minimum deadline" (ties are nondeterministic: std::make_heap after a removal   *)
(* may reorder equal keys).  One loop pass is                                                              *)
(*     PassBegin (the loop reads the clock once: passNow)                                                  *)
(*     { FireOne ; callback operations ... ; CbEnd }*      while some deadline <= passNow                  *)
(*     PassEnd                                                                                             *)
(* and between passes (phase "idle") the application issues operations and the clock advances.  A callback *)
(* may issue the same operations on any timer, including its own, and time may pass inside a callback.     *)
(* A pass may re-read the clock before any FireOne (passNow' \in {passNow, now}): the statement does not   *)
(* say whether the pass time is latched, so both are allowed.                                              *)
(*                                                                                                         *)
(* The property is carried by ghost fields that the mechanism never reads: `at` (time of the effective     *)
(* enable), `k` (invocations since that enable) and the record `lastfire`; the invariants at the end are   *)
(* written over the ghosts only.  `Variant` switches single mechanism steps to plausible wrong ones; only  *)
(* "intended" satisfies the invariants, the others exist to show that each invariant can fail.             *)
EXTENDS Integers, Sequences, FiniteSets

CONSTANTS T,          \* timer slots
          Intervals,  \* intervals an Initialize / Every / After may choose (all >= 1)
          MaxNow,     \* bound on virtual time   (model checking only)
          MaxAdv,     \* largest single clock advance (model checking only)
          MaxCbOps,   \* operations per callback (model checking only)
          Variant     \* "intended" | "rearm_now" | "arm_now" | "oneshot_after" | "pick_any" | "lazy_disable" | "stale_rearm"

Modes == {"oneshot", "persist"}
NoTimer == [st |-> "none", en |-> FALSE, d |-> 0, mode |-> "oneshot", dl |-> 0, at |-> 0, k |-> 0]
NoFire == [i |-> 0, t |-> 0, at |-> 0, k |-> 0, d |-> 0, mode |-> "oneshot", wasEn |-> TRUE, enCb |-> FALSE, gdl |-> 0, prev |-> 0]

VARIABLES now,       \* virtual monotonic clock
          passNow,   \* clock value the current / last pass compares deadlines with
          phase,     \* "idle" (between passes) | "pass" (inside handleExpiredTimers) | "cb" (inside a timer callback)
          cur,       \* timer whose callback is running, 0 if none
          nops,      \* operations issued by the running callback
          kind,      \* "event": TimerEvent objects; "pool": TimerPool tokens
          tm,        \* slot -> [st, en, d, mode, dl (mechanism deadline), at, k (ghosts)]
          heap,      \* slots present in the loop's heap
          lastfire,  \* ghost: the invocation in progress (NoFire outside callbacks)
          prevDl,    \* ghost: intended deadline of the previous invocation of this pass (0 at PassBegin)
          ret        \* return value of the last operation
vars == <<now, passNow, phase, cur, nops, kind, tm, heap, lastfire, prevDl, ret>>

Init == /\ now = 0 /\ passNow = 0 /\ phase = "idle" /\ cur = 0 /\ nops = 0 /\ kind \in {"event", "pool"}
        /\ tm = [i \in T |-> NoTimer] /\ heap = {} /\ lastfire = NoFire /\ prevDl = 0 /\ ret = TRUE

(* ----------------------------------------- operations ------------------------------------------------ *)
(* Operations are issued between passes or from inside the running callback.                             *)
InCtx == phase = "idle" \/ (phase = "cb" /\ nops < MaxCbOps)
Frame == /\ nops' = IF phase = "cb" THEN nops + 1 ELSE nops
         /\ UNCHANGED <<passNow, phase, cur, kind, lastfire, prevDl>>

Unarm(t) == [t EXCEPT !.en = FALSE, !.dl = 0, !.at = 0, !.k = 0]
Arm(t) == [t EXCEPT !.en = TRUE, !.dl = IF Variant = "arm_now" THEN now ELSE now + t.d, !.at = now, !.k = 0]

\* newTimerEvent()
Create(i) == /\ InCtx /\ kind = "event" /\ tm[i].st = "none" /\ i # cur
             /\ tm' = [tm EXCEPT ![i] = [NoTimer EXCEPT !.st = "new"]]
             /\ ret' = TRUE /\ UNCHANGED <<now, heap>> /\ Frame

\* initialize(d, mode): disables first
Initialize(i, dd, m) ==
             /\ InCtx /\ kind = "event" /\ tm[i].st \in {"new", "inited"}
             /\ tm' = [tm EXCEPT ![i] = [Unarm(@) EXCEPT !.st = "inited", !.d = dd, !.mode = m]]
             /\ heap' = heap \ {i}
             /\ ret' = TRUE /\ UNCHANGED now /\ Frame

\* enable(): false when not initialised, no effect when already enabled, else deadline = now + d
Enable(i) == /\ InCtx /\ kind = "event" /\ tm[i].st # "none"
             /\ IF tm[i].st = "new" THEN ret' = FALSE /\ UNCHANGED <<tm, heap>>
                ELSE IF tm[i].en THEN ret' = TRUE /\ UNCHANGED <<tm, heap>>
                ELSE /\ ret' = TRUE /\ heap' = heap \cup {i}
                     /\ tm' = [tm EXCEPT ![i] = IF Variant = "stale_rearm" /\ i = cur /\ i \in heap THEN [@ EXCEPT !.en = TRUE, !.at = now, !.k = 0]
                                                 ELSE Arm(@)]
             /\ UNCHANGED now /\ Frame

\* disable(): false when not initialised, no effect when not enabled
Disable(i) == /\ InCtx /\ kind = "event" /\ tm[i].st # "none"
              /\ IF tm[i].st = "new" THEN ret' = FALSE /\ UNCHANGED <<tm, heap>>
                 ELSE /\ ret' = TRUE
                      /\ tm' = [tm EXCEPT ![i] = IF Variant \in {"lazy_disable", "stale_rearm"} /\ phase = "cb" THEN [@ EXCEPT !.en = FALSE] ELSE Unarm(@)]
                      /\ heap' = IF Variant \in {"lazy_disable", "stale_rearm"} /\ phase = "cb" THEN heap ELSE heap \ {i}
              /\ UNCHANGED now /\ Frame

\* delete the TimerEvent (not from inside its own callback: the destructor asserts that)
Destroy(i) == /\ InCtx /\ kind = "event" /\ tm[i].st # "none" /\ i # cur
              /\ tm' = [tm EXCEPT ![i] = NoTimer] /\ heap' = heap \ {i}
              /\ ret' = TRUE /\ UNCHANGED now /\ Frame

\* TimerPool::doEvery / doAfter: create + initialize + enable in one call
Every(i, dd) == /\ InCtx /\ kind = "pool" /\ tm[i].st = "none" /\ i # cur
                /\ tm' = [tm EXCEPT ![i] = Arm([NoTimer EXCEPT !.st = "inited", !.d = dd, !.mode = "persist"])]
                /\ heap' = heap \cup {i} /\ ret' = TRUE /\ UNCHANGED now /\ Frame
After(i, dd) == /\ InCtx /\ kind = "pool" /\ tm[i].st = "none" /\ i # cur
                /\ tm' = [tm EXCEPT ![i] = Arm([NoTimer EXCEPT !.st = "inited", !.d = dd, !.mode = "oneshot"])]
                /\ heap' = heap \cup {i} /\ ret' = TRUE /\ UNCHANGED now /\ Frame
\* TimerPool::cancel(token): true iff the token is still known; also from inside the timer's own callback
Cancel(i) == /\ InCtx /\ kind = "pool"
             /\ ret' = (tm[i].st # "none")
             /\ tm' = [tm EXCEPT ![i] = NoTimer] /\ heap' = heap \ {i}
             /\ UNCHANGED now /\ Frame

\* the clock moves (between passes: the loop sleeps or is late; inside a callback: the callback is slow)
Advance(n) == /\ InCtx /\ n >= 0 /\ now + n <= MaxNow /\ now' = now + n
              /\ UNCHANGED <<tm, heap, ret>> /\ Frame

(* ----------------------------------------- the loop pass ---------------------------------------------- *)
PassBegin == /\ phase = "idle" /\ phase' = "pass" /\ passNow' = now /\ prevDl' = 0
             /\ UNCHANGED <<now, cur, nops, kind, tm, heap, lastfire, ret>>

\* pop a minimum-deadline timer that is due; one-shot: removed and marked disabled BEFORE the callback;
\* persistent: deadline += interval (not now + interval) and pushed back BEFORE the callback.
FireOne(i, L) ==
  /\ phase = "pass" /\ L \in {passNow, now} /\ i \in heap /\ tm[i].dl <= L
  /\ (Variant # "pick_any" => \A j \in heap : tm[i].dl <= tm[j].dl)
  /\ LET t == tm[i]
         one == t.mode = "oneshot"
         t2 == IF one THEN (IF Variant = "oneshot_after" THEN [t EXCEPT !.dl = 0, !.k = @ + 1] ELSE Unarm(t))
               ELSE [t EXCEPT !.dl = IF Variant = "rearm_now" THEN L + t.d ELSE @ + t.d, !.k = @ + 1]
         g == t.at + (t.k + 1) * t.d
     IN /\ tm' = [tm EXCEPT ![i] = t2]
        /\ heap' = IF one THEN heap \ {i} ELSE heap
        /\ lastfire' = [i |-> i, t |-> L, at |-> t.at, k |-> t.k + 1, d |-> t.d, mode |-> t.mode, wasEn |-> t.en,
                        enCb |-> t2.en, gdl |-> g, prev |-> prevDl]
        /\ prevDl' = g
  /\ passNow' = L /\ phase' = "cb" /\ cur' = i /\ nops' = 0 /\ UNCHANGED <<now, kind, ret>>

\* the callback returns.  A TimerPool one-shot releases its token after the user callback.
CbEnd == /\ phase = "cb" /\ phase' = "pass" /\ cur' = 0 /\ nops' = 0 /\ lastfire' = NoFire
         /\ IF kind = "pool" /\ lastfire.mode = "oneshot" /\ tm[cur].st # "none"
               THEN tm' = [tm EXCEPT ![cur] = NoTimer] /\ heap' = heap \ {cur}
            ELSE IF Variant = "oneshot_after" /\ lastfire.mode = "oneshot" /\ tm[cur].st = "inited" /\ cur \notin heap
               THEN tm' = [tm EXCEPT ![cur] = Unarm(@)] /\ heap' = heap
            ELSE UNCHANGED <<tm, heap>>
         /\ UNCHANGED <<now, passNow, kind, prevDl, ret>>

\* nothing (more) is due: the pass is over
PassEnd == /\ phase = "pass" /\ \A i \in heap : tm[i].dl > passNow
           /\ phase' = "idle" /\ UNCHANGED <<now, passNow, cur, nops, kind, tm, heap, lastfire, prevDl, ret>>

NCreate == \E i \in T : Create(i)
NInitialize == \E i \in T, dd \in Intervals, m \in Modes : Initialize(i, dd, m)
NEnable == \E i \in T : Enable(i)
NDisable == \E i \in T : Disable(i)
NDestroy == \E i \in T : Destroy(i)
NEvery == \E i \in T, dd \in Intervals : Every(i, dd)
NAfter == \E i \in T, dd \in Intervals : After(i, dd)
NCancel == \E i \in T : Cancel(i)
NAdvance == \E n \in 1..MaxAdv : Advance(n)
NFireOne == \E i \in T, L \in {passNow, now} : FireOne(i, L)
Next == \/ NDisable \/ NCreate \/ NInitialize \/ NEnable \/ NDestroy \/ NEvery \/ NAfter \/ NCancel \/ NAdvance
        \/ PassBegin \/ NFireOne \/ CbEnd \/ PassEnd
Spec == Init /\ [][Next]_vars

(* ------------------------------------------- properties ------------------------------------------------ *)
TypeOK == /\ now \in 0..MaxNow /\ passNow \in 0..now /\ phase \in {"idle", "pass", "cb"} /\ cur \in T \cup {0}
          /\ (phase = "cb") = (cur # 0) /\ kind \in {"event", "pool"} /\ heap \subseteq T /\ ret \in BOOLEAN
          /\ \A i \in T : /\ tm[i].st \in {"none", "new", "inited"} /\ tm[i].en \in BOOLEAN /\ tm[i].mode \in Modes
                          /\ tm[i].d \in Intervals \cup {0} /\ tm[i].dl >= 0 /\ tm[i].at >= 0 /\ tm[i].k >= 0
                          /\ (tm[i].en => tm[i].st = "inited" /\ tm[i].d >= 1)

\* the mechanism's bookkeeping agrees with the API-level flag and with the intended deadline
HeapIsEnabled == heap = {i \in T : tm[i].en}
DeadlineExact == \A i \in heap : tm[i].dl = tm[i].at + (tm[i].k + 1) * tm[i].d

\* the k-th invocation since the enable at time `at` is not before at + k*d (k = 1: the one-shot case)
NeverEarly == lastfire.i # 0 => lastfire.t >= lastfire.at + lastfire.k * lastfire.d
\* enabling (again) starts a fresh full interval: the first invocation after an enable at `at` is not before at + d
FreshInterval == lastfire.i # 0 /\ lastfire.k = 1 => lastfire.t >= lastfire.at + lastfire.d
\* when a pass is over every enabled timer has had all invocations that were due at the pass time:
\* together with NeverEarly, k = (passNow - at) \div d -- no period skipped however late the pass, one-shots not forgotten
NoSkip == phase = "idle" => \A i \in T : tm[i].en => passNow < tm[i].at + (tm[i].k + 1) * tm[i].d
\* within one pass the intended deadlines of the invocations are non-decreasing
DeadlineOrder == lastfire.i # 0 => lastfire.prev <= lastfire.gdl
\* only a timer that was enabled immediately before the step is invoked
NoFireAfterDisable == lastfire.i # 0 => lastfire.wasEn
\* a one-shot reads as disabled from the first instruction of its callback, and fires once per enable
OneShotDisabledInCallback == lastfire.i # 0 /\ lastfire.mode = "oneshot" => ~lastfire.enCb
OneShotOnce == \A i \in T : tm[i].en /\ tm[i].mode = "oneshot" => tm[i].k = 0
=============================================================================
