CONSTANTS
  T = {t1, t2}
  Intervals = {1, 2}
  MaxNow = 5
  MaxAdv = 3
  MaxCbOps = 1
  Variant = "rearm_now"
SPECIFICATION Spec
SYMMETRY Perms
INVARIANTS NoSkip
CHECK_DEADLOCK FALSE
