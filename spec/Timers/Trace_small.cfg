CONSTANTS
  T = {1, 2, 3, 4}
  Intervals = {1}
  MaxNow = 1000000000
  MaxAdv = 0
  MaxCbOps = 1000000
  Variant = "intended"
SPECIFICATION TSpec
CONSTRAINT Progress
POSTCONDITION Accepted
INVARIANTS HeapIsEnabled DeadlineExact NeverEarly FreshInterval NoSkip DeadlineOrder NoFireAfterDisable OneShotDisabledInCallback OneShotOnce
CHECK_DEADLOCK FALSE
