CONSTANTS
  T = {t1, t2}
  Intervals = {1, 2}
  MaxNow = 5
  MaxAdv = 3
  MaxCbOps = 1
  Variant = "arm_now"
SPECIFICATION Spec
SYMMETRY Perms
INVARIANTS NeverEarly
CHECK_DEADLOCK FALSE
