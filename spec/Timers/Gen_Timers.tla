---------------------------- MODULE Gen_Timers ----------------------------
(* Behaviour generator for C02.  Every behaviour of the bounded model with `Depth` recorded steps (BFS)  *)
(* or random deep ones (-simulate) is printed as a JSON history.  With Preload the behaviours start from *)
(* a state in which every slot holds an enabled timer (all assignments of interval and mode), the        *)
(* history then begins with the operations that build that state.  checks/c02.py turns a history into a  *)
(* driver script: the operations issued between passes in order, and for the n-th invocation of slot i   *)
(* the operations its callback issues.  The C++ driver executes the script on a real Loop and the        *)
(* recorded trace is validated against Trace_Timers.                                                      *)
EXTENDS Timers, Json, TLC
CONSTANTS Depth, Preload, Kinds, Focus
VARIABLES hist, steps
gvars == <<vars, hist, steps>>
Op(o, i, dd, m, n) == [o |-> o, i |-> i, d |-> dd, m |-> m, n |-> n, cb |-> cur]
H(r) == hist' = Append(hist, r) /\ steps' = steps + 1
Quiet == UNCHANGED <<hist, steps>>
N == Cardinality(T)
Rank(dd, m) == 2 * dd + (IF m = "persist" THEN 1 ELSE 0)
\* Focus: between passes only the clock moves (once) and the next pass begins; callbacks do not re-initialise.
TopOK == ~Focus \/ phase = "cb"
AdvOK == IF ~Focus \/ phase = "cb" \/ hist = <<>> THEN TRUE ELSE hist[Len(hist)].o # "adv"

GInit ==
  /\ steps = 0 /\ now = 0 /\ passNow = 0 /\ phase = "idle" /\ cur = 0 /\ nops = 0 /\ kind \in Kinds
  /\ lastfire = NoFire /\ prevDl = 0 /\ ret = TRUE
  /\ IF ~Preload THEN tm = [i \in T |-> NoTimer] /\ heap = {} /\ hist = <<>>
     ELSE \E dd \in [T -> Intervals], mm \in [T -> Modes] :
            /\ \A i, j \in T : i < j => Rank(dd[i], mm[i]) <= Rank(dd[j], mm[j])      \* slots are interchangeable
            /\ tm = [i \in T |-> [st |-> "inited", en |-> TRUE, d |-> dd[i], mode |-> mm[i], dl |-> dd[i], at |-> 0, k |-> 0]]
            /\ heap = T
            /\ hist = IF kind = "event"
                      THEN [n \in 1..(3 * N) |-> LET i == ((n - 1) \div 3) + 1  j == (n - 1) % 3 IN
                              IF j = 0 THEN [o |-> "create", i |-> i, d |-> 0, m |-> "", n |-> 0, cb |-> 0]
                              ELSE IF j = 1 THEN [o |-> "init", i |-> i, d |-> dd[i], m |-> mm[i], n |-> 0, cb |-> 0]
                              ELSE [o |-> "enable", i |-> i, d |-> 0, m |-> "", n |-> 0, cb |-> 0]]
                      ELSE [i \in 1..N |-> [o |-> IF mm[i] = "persist" THEN "every" ELSE "after", i |-> i, d |-> dd[i], m |-> "", n |-> 0, cb |-> 0]]
GNext ==
  \/ \E i \in T : TopOK /\ Create(i) /\ H(Op("create", i, 0, "", 0))
  \/ \E i \in T, dd \in Intervals, m \in Modes : ~Focus /\ Initialize(i, dd, m) /\ H(Op("init", i, dd, m, 0))
  \/ \E i \in T : TopOK /\ Enable(i) /\ H(Op("enable", i, 0, "", 0))
  \/ \E i \in T : TopOK /\ Disable(i) /\ H(Op("disable", i, 0, "", 0))
  \/ \E i \in T : TopOK /\ Destroy(i) /\ H(Op("destroy", i, 0, "", 0))
  \/ \E i \in T, dd \in Intervals : TopOK /\ Every(i, dd) /\ H(Op("every", i, dd, "", 0))
  \/ \E i \in T, dd \in Intervals : TopOK /\ After(i, dd) /\ H(Op("after", i, dd, "", 0))
  \/ \E i \in T : TopOK /\ Cancel(i) /\ H(Op("cancel", i, 0, "", 0))
  \/ \E n \in 1..MaxAdv : AdvOK /\ Advance(n) /\ H(Op("adv", 0, 0, "", n))
  \/ PassBegin /\ H(Op("pass", 0, 0, "", 0))
  \/ \E i \in T, L \in {passNow, now} : FireOne(i, L) /\ H(Op("fire", i, 0, "", 0))
  \/ CbEnd /\ Quiet
  \/ PassEnd /\ Quiet
GSpec == GInit /\ [][GNext]_gvars
\* printed when the history reaches Depth recorded steps; longer histories are cut.  (The state itself is kept so that
\* a -simulate run prints each random history once instead of trying every last step.)
Emit == IF steps = Depth THEN PrintT("BEH " \o ToJson([kind |-> kind, hist |-> hist])) ELSE steps < Depth
=============================================================================
